import NetVerif.Proofs.Lemmas.WriteSched7540
/-!
RFC 7540 scheduler: "`Pop` returns nothing only if nothing is sendable".

Part A (this file, first half): a walk that returns nothing has tried every node reachable from its start
through `kids` links (within the fuel), and each of them was unsendable.
-/
namespace NetVerif.Proofs.WriteSched7540
open NetVerif.Model.WriteSched NetVerif.Model.WriteSched.P7540 NetVerif.Proofs.WriteSchedLemmas
  NetVerif.Proofs.WriteSchedSpec NetVerif.Proofs.WriteSchedRefine

/-- `t` is reachable from `n` through `kids` links in at most `d` steps. -/
inductive ReachD (s : P7540) : Nat → Nat → Nat → Prop
  | self {d n} : ReachD s d n n
  | step {d n k t} : k ∈ (s.node n).kids → ReachD s d k t → ReachD s (d + 1) n t

theorem ReachD.mono {s : P7540} {d d' n t : Nat} (h : ReachD s d n t) (hd : d ≤ d') : ReachD s d' n t := by
  induction h generalizing d' with
  | self => exact ReachD.self
  | step hk _ ih =>
    cases d' with
    | zero => omega
    | succ d'' => exact ReachD.step hk (ih (by omega))

/-- `Same`, and the same children (as sets) and throttle limit. -/
structure SameK (s s' : P7540) : Prop where
  same : Same s s'
  kids : ∀ i k, k ∈ (s'.node i).kids ↔ k ∈ (s.node i).kids
  limit : s'.limit = s.limit

theorem SameK.refl (s : P7540) : SameK s s := ⟨Same.refl s, fun _ _ => Iff.rfl, rfl⟩

theorem SameK.trans {a b c : P7540} (h1 : SameK a b) (h2 : SameK b c) : SameK a c :=
  ⟨h1.same.trans h2.same, fun i k => (h2.kids i k).trans (h1.kids i k), h2.limit.trans h1.limit⟩

theorem reach_sameK {s s' : P7540} (h : SameK s s') {d n t : Nat} (hr : ReachD s d n t) : ReachD s' d n t := by
  induction hr with
  | self => exact ReachD.self
  | step hk _ ih => exact ReachD.step ((h.kids _ _).2 hk) ih

theorem mem_bubble (lt : Nat → Nat → Bool) (x : Nat) (l : List Nat) (y : Nat) : y ∈ bubble lt x l ↔ y = x ∨ y ∈ l := by
  induction l with
  | nil => simp [bubble]
  | cons p rp ih =>
    simp only [bubble]
    split
    · simp only [List.mem_cons, ih]; grind
    · simp only [List.mem_cons]

theorem mem_insertionSort (lt : Nat → Nat → Bool) (l : List Nat) (y : Nat) : y ∈ insertionSort lt l ↔ y ∈ l := by
  unfold insertionSort
  rw [List.mem_reverse]
  have : ∀ (l acc : List Nat), y ∈ l.foldl (fun rp x => bubble lt x rp) acc ↔ y ∈ l ∨ y ∈ acc := by
    intro l
    induction l with
    | nil => intro acc; simp
    | cons a l ih => intro acc; simp only [List.foldl_cons, ih, mem_bubble, List.mem_cons]; grind
  rw [this]; simp

/-- the head of the queue cannot be written (or the queue is empty) -/
def Unsend (e : Env) (s : P7540) (t : Nat) : Prop := sendable e (s.node t).q = false

theorem unsend_same {e : Env} {s s' : P7540} (h : Same s s') (t : Nat) : Unsend e s' t ↔ Unsend e s t := by
  simp only [Unsend, (h.nd t).1]

/-- A failing `consume` with a positive limit means the head is unsendable. -/
theorem unsend_of_consume_none {e e' : Env} {q q' : WQ} {limit : Int} (hpos : 0 < limit)
    (h : q.consume e limit = (e', q', none)) : sendable e q = false := by
  cases hl : q.toList with
  | nil => exact sendable_false_of_nil e hl
  | cons f rest =>
    rcases wq_consume_cons e limit hl with ⟨e1, h1, _⟩ | ⟨e1, q1, _, h2, _⟩ | ⟨e1, c, r, _, h2, _⟩
    · obtain ⟨_, sid, tag, off, len, fin, last, rfl, hlen, hal⟩ := consume_none h1
      have hal' := (allowed_nonpos_iff e sid limit hpos).1 hal
      apply (sendable_false_iff e).2
      right
      refine ⟨_, rest, e, hl, ?_⟩
      have hne : len ≠ 0 := by omega
      simp [Frame.consume, hne, hal']
    · rw [h2] at h; cases h
    · rw [h2] at h; cases h

theorem visit_none {e : Env} {s : P7540} {n : Nat} {op : Bool} (hl : 0 < s.limit) (h : (visit e s n op).2.2 = none) :
    visit e s n op = (e, s, none) ∧ Unsend e s n := by
  unfold visit at h ⊢
  split
  · rename_i heq
    refine ⟨by first | rfl | trivial, ?_⟩
    exact unsend_of_consume_none (visitLimit_pos s op hl) (by rw [heq])
  · rename_i heq
    rw [heq] at h; simp at h

/-- once the accumulator of the kids loop holds a frame, it keeps it -/
theorem kidsLoop_some (fuel : Nat) (op : Bool) (l : List Nat) (e : Env) (s : P7540) (f : Frame) :
    (l.foldl (fun (acc : Env × P7540 × Option Frame) k =>
      match acc with
      | (_, _, some _) => acc
      | (e', s', none) => walk fuel e' s' k op) (e, s, some f)) = (e, s, some f) := by
  induction l with
  | nil => rfl
  | cons k ks ih => simp only [List.foldl_cons]; exact ih

/-- **A walk that returns nothing has tried everything below its start.** -/
theorem walk_none (fuel : Nat) : ∀ (e : Env) (s : P7540) (n : Nat) (op : Bool), 0 < s.limit →
    (walk fuel e s n op).2.2 = none →
    (walk fuel e s n op).1 = e ∧ SameK s (walk fuel e s n op).2.1 ∧
      ∀ d t, d < fuel → ReachD s d n t → Unsend e s t := by
  induction fuel with
  | zero =>
    intro e s n op _ _
    unfold walk
    exact ⟨rfl, SameK.refl s, fun d t hd => absurd hd (by omega)⟩
  | succ fu ih =>
    intro e s n op hl hnone
    unfold walk at hnone ⊢
    -- the node itself
    have hself : (if (s.node n).q.isEmpty = true then (e, s, (none : Option Frame)) else visit e s n op) = (e, s, none) ∧
        Unsend e s n := by
      split
      · rename_i he
        exact ⟨rfl, sendable_false_of_nil e ((isEmpty_iff _).1 he)⟩
      · rename_i he
        rcases hv : visit e s n op with ⟨e1, s1, r1⟩
        cases r1 with
        | some f => rw [if_neg he, hv] at hnone; simp at hnone
        | none =>
          have := visit_none (n := n) (op := op) (e := e) hl (by rw [hv])
          rw [hv] at this; exact this
    obtain ⟨hr, hun⟩ := hself
    rw [hr] at hnone ⊢
    simp only at hnone ⊢
    cases hk : (s.node n).kids with
    | nil =>
      simp only
      refine ⟨by first | rfl | trivial, SameK.refl s, ?_⟩
      intro d t _ hreach
      cases hreach with
      | self => exact hun
      | step hmem _ => rw [hk] at hmem; cases hmem
    | cons k0 ks =>
      rw [hk] at hnone
      simp only at hnone ⊢
      generalize hs2 : (if (ks.any fun k => (s.node k).weight != (s.node k0).weight) = true then
          s.modNode n fun nn => { nn with kids := insertionSort (fun a b => less (s.node a) (s.node b)) (k0 :: ks) }
        else s) = s2 at hnone ⊢
      have hsk2 : SameK s s2 := by
        rw [← hs2]; split
        · refine ⟨same_modNode s n (fun _ => ⟨rfl, rfl, rfl⟩), ?_, rfl⟩
          intro i k
          by_cases hi : i = n
          · subst hi
            by_cases hlen : i < s.store.length
            · rw [node_modNode_self s _ hlen]; simp only; rw [mem_insertionSort, hk]
            · rw [node_of_ge s (by omega), node_of_ge _ (by rw [length_modNode]; omega)]
          · rw [node_modNode_ne s _ hi]
        · exact SameK.refl s
      have hl2 : 0 < s2.limit := by rw [hsk2.limit]; exact hl
      generalize hop : (if (s.node n).id != 0 then op || (s.node n).state == 0 else op) = op' at hnone ⊢
      -- the loop over the kids
      have hloop : ∀ (l : List Nat) (sa : P7540), SameK s2 sa →
          (l.foldl (fun (acc : Env × P7540 × Option Frame) k =>
            match acc with
            | (_, _, some _) => acc
            | (e', s', none) => walk fu e' s' k op') (e, sa, none)).2.2 = none →
          (l.foldl (fun (acc : Env × P7540 × Option Frame) k =>
            match acc with
            | (_, _, some _) => acc
            | (e', s', none) => walk fu e' s' k op') (e, sa, none)).1 = e ∧
          SameK s2 (l.foldl (fun (acc : Env × P7540 × Option Frame) k =>
            match acc with
            | (_, _, some _) => acc
            | (e', s', none) => walk fu e' s' k op') (e, sa, none)).2.1 ∧
          ∀ k ∈ l, ∀ d t, d < fu → ReachD s2 d k t → Unsend e s2 t := by
        intro l
        induction l with
        | nil => intro sa hsa _; exact ⟨rfl, hsa, fun k hk => by cases hk⟩
        | cons x xs ihl =>
          intro sa hsa hres
          simp only [List.foldl_cons] at hres ⊢
          rcases hw : walk fu e sa x op' with ⟨e1, s1, r1⟩
          try rw [hw] at hres
          cases r1 with
          | some f => rw [kidsLoop_some] at hres; simp at hres
          | none =>
            have hla : 0 < sa.limit := by rw [hsa.limit]; exact hl2
            obtain ⟨w1, w2, w3⟩ := ih e sa x op' hla (by rw [hw])
            rw [hw] at w1 w2
            simp only at w1 w2
            subst w1
            obtain ⟨r1, r2, r3⟩ := ihl s1 (hsa.trans w2) hres
            refine ⟨r1, r2, ?_⟩
            intro k hk d t hd hreach
            simp only [List.mem_cons] at hk
            rcases hk with rfl | hk
            · have := w3 d t hd (reach_sameK hsa hreach)
              exact (unsend_same hsa.same t).1 this
            · exact r3 k hk d t hd hreach
      obtain ⟨g1, g2, g3⟩ := hloop (s2.node n).kids s2 (SameK.refl s2) hnone
      refine ⟨g1, hsk2.trans g2, ?_⟩
      intro d t hd hreach
      cases hreach with
      | self => exact hun
      | step hmem hrest =>
        rename_i d' k
        have hmem2 : k ∈ (s2.node n).kids := (hsk2.kids n k).2 hmem
        have := g3 k hmem2 d' t (by omega) (reach_sameK hsk2 hrest)
        exact (unsend_same hsk2.same t).1 this

/-! ### From "everything reachable was tried" to the missing C12 clause -/

/-- Every mapped node can be reached from the root through `kids` links (within the walk's fuel). -/
def ReachInv (s : P7540) : Prop := ∀ id n, s.lookup id = some n → ReachD s s.store.length 0 n

theorem PopSpec.strengthen {e e' : Env} {a a' : Abs} {r : Res} (h : PopSpec False e a r e' a')
    (hn : r = .none → ∀ id f rest, a.q id = f :: rest → ∃ e1, f.consume e maxInt32 = (e1, .none)) :
    PopSpec True e a r e' a' := by
  cases h with
  | ctl h1 => exact PopSpec.ctl h1
  | whole h1 h2 h3 h4 => exact PopSpec.whole h1 h2 h3 h4
  | split h1 h2 h3 h4 => exact PopSpec.split h1 h2 h3 h4
  | none h1 _ => exact PopSpec.none h1 (fun _ => hn rfl)

/-- **`Pop` returns nothing only if nothing is sendable**, for a state in which every mapped node is
reachable from the root. -/
theorem p7_pop_none_sendable {s s' : P7540} {opn ever : Nat → Bool} {e e' : Env} (hc : CoreInv s opn ever)
    (hr : ReachInv s) (hp : s.pop e = (e', s', .none)) :
    ∀ id f rest, (absP7 s).q id = f :: rest → ∃ e1, f.consume e maxInt32 = (e1, .none) := by
  have hw : (walk (s.store.length + 1) e s 0 false).2.2 = none := by
    unfold P7540.pop at hp
    rcases hh : walk (s.store.length + 1) e s 0 false with ⟨e1, s1, r1⟩
    rw [hh] at hp
    cases r1 with
    | none => rfl
    | some f => simp at hp
  obtain ⟨_, _, hall⟩ := walk_none (s.store.length + 1) e s 0 false hc.lim hw
  intro id f rest hq
  simp only [absP7] at hq
  split at hq
  · cases hq
  · cases hl : s.lookup id with
    | none => rw [hl] at hq; cases hq
    | some n =>
      rw [hl] at hq; simp only at hq
      have hun := hall s.store.length n (by omega) (hr id n hl)
      rcases (sendable_false_iff e).1 hun with h0 | ⟨f', rest', e1, h1, h2⟩
      · rw [h0] at hq; cases hq
      · rw [hq] at h1; cases h1; exact ⟨e1, h2⟩

theorem p7_pop_strict {s : P7540} {opn ever : Nat → Bool} (e : Env) (hc : CoreInv s opn ever) (hli : ListInv s)
    (hwf : AbsWF (absP7 s) opn) (hr : ReachInv s) :
    ∃ e' s' r, s.pop e = (e', s', r) ∧ PopSpec True e (absP7 s) r e' (absP7 s') ∧ CoreInv s' opn ever ∧ ListInv s' := by
  obtain ⟨e', s', r, h1, h2, h3, h4⟩ := p7_pop e hc hli hwf
  refine ⟨e', s', r, h1, PopSpec.strengthen h2 ?_, h3, h4⟩
  intro hrn; subst hrn
  exact p7_pop_none_sendable hc hr h1

/-! ### Preservation of `ReachInv` (Push, Pop, OpenStream proved; CloseStream / AdjustStream stated) -/

theorem reach_mono_kids {s s' : P7540} (h : ∀ i k, k ∈ (s.node i).kids → k ∈ (s'.node i).kids) {d n t : Nat}
    (hr : ReachD s d n t) : ReachD s' d n t := by
  induction hr with
  | self => exact ReachD.self
  | step hk _ ih => exact ReachD.step (h _ _ hk) ih

theorem reach_snoc {s : P7540} {d a b c : Nat} (hr : ReachD s d a b) (hc : c ∈ (s.node b).kids) : ReachD s (d + 1) a c := by
  induction hr with
  | self => exact ReachD.step hc ReachD.self
  | step hk _ ih => exact ReachD.step hk (ih hc)

/-- same store size, same map, same children (as sets) -/
structure KEq (s s' : P7540) : Prop where
  len : s'.store.length = s.store.length
  nodes : s'.nodes = s.nodes
  kids : ∀ i k, k ∈ (s'.node i).kids ↔ k ∈ (s.node i).kids

theorem KEq.refl (s : P7540) : KEq s s := ⟨rfl, rfl, fun _ _ => Iff.rfl⟩
theorem KEq.trans {a b c : P7540} (h1 : KEq a b) (h2 : KEq b c) : KEq a c :=
  ⟨h2.len.trans h1.len, h2.nodes.trans h1.nodes, fun i k => (h2.kids i k).trans (h1.kids i k)⟩

theorem reachInv_keq {s s' : P7540} (h : KEq s s') (hr : ReachInv s) : ReachInv s' := by
  intro id n hl
  rw [lookup_of_nodes h.nodes] at hl
  rw [h.len]
  exact reach_mono_kids (fun i k hk => (h.kids i k).2 hk) (hr id n hl)

theorem keq_modNode (s : P7540) (a : Nat) {f : Node → Node} (hf : ∀ m k, k ∈ (f m).kids ↔ k ∈ m.kids) :
    KEq s (s.modNode a f) := by
  refine ⟨length_modNode s a f, rfl, ?_⟩
  intro i k
  by_cases hi : i = a
  · subst hi
    by_cases hl : i < s.store.length
    · rw [node_modNode_self s f hl]; exact hf _ k
    · rw [node_of_ge s (by omega), node_of_ge _ (by rw [length_modNode]; omega)]
  · rw [node_modNode_ne s f hi]

theorem keq_addBytes_up (b : Int) (fuel : Nat) : ∀ (s : P7540) (x : Option Nat), KEq s (addBytes.up b fuel s x) := by
  induction fuel with
  | zero => intro s x; unfold addBytes.up; exact KEq.refl s
  | succ k ih =>
    intro s x
    cases x with
    | none => unfold addBytes.up; exact KEq.refl s
    | some x =>
      unfold addBytes.up
      apply KEq.trans ?_ (ih _ _)
      exact keq_modNode _ _ (fun _ _ => Iff.rfl)

theorem keq_addBytes (s : P7540) (n : Nat) (b : Int) : KEq s (s.addBytes n b) := by
  unfold addBytes
  apply KEq.trans ?_ (keq_addBytes_up b _ _ _)
  exact keq_modNode _ _ (fun _ _ => Iff.rfl)

theorem keq_afterVisit (s : P7540) (op : Bool) : KEq s (s.afterVisit op) := by
  unfold afterVisit
  split
  · exact ⟨rfl, rfl, fun _ _ => Iff.rfl⟩
  · split
    · exact ⟨rfl, rfl, fun _ _ => Iff.rfl⟩
    · exact KEq.refl s

theorem keq_visit (e : Env) (s : P7540) (n : Nat) (op : Bool) : KEq s (visit e s n op).2.1 := by
  unfold visit
  split
  · exact KEq.refl s
  · simp only
    apply KEq.trans ?_ (keq_afterVisit _ _)
    apply KEq.trans ?_ (keq_addBytes _ _ _)
    exact keq_modNode _ _ (fun _ _ => Iff.rfl)

/-- The walk (sorting siblings, serving one node) never changes which node is whose child. -/
theorem walk_keq (fuel : Nat) : ∀ (e : Env) (s : P7540) (n : Nat) (op : Bool), KEq s (walk fuel e s n op).2.1 := by
  induction fuel with
  | zero => intro e s n op; unfold walk; exact KEq.refl s
  | succ fu ih =>
    intro e s n op
    unfold walk
    have hfirst : KEq s (if (s.node n).q.isEmpty = true then (e, s, (none : Option Frame)) else visit e s n op).2.1 := by
      split
      · exact KEq.refl s
      · exact keq_visit e s n op
    rcases hr : (if (s.node n).q.isEmpty = true then (e, s, (none : Option Frame)) else visit e s n op) with ⟨e1, s1, r1⟩
    rw [hr] at hfirst
    cases r1 with
    | some f => simpa using hfirst
    | none =>
      simp only
      cases hk : (s.node n).kids with
      | nil => simp only; exact KEq.refl s
      | cons k0 ks =>
        simp only
        generalize hs2 : (if (ks.any fun k => (s.node k).weight != (s.node k0).weight) = true then
            s.modNode n fun nn => { nn with kids := insertionSort (fun a b => less (s.node a) (s.node b)) (k0 :: ks) }
          else s) = s2
        have h2 : KEq s s2 := by
          rw [← hs2]; split
          · refine ⟨length_modNode _ _ _, rfl, ?_⟩
            intro i k
            by_cases hi : i = n
            · subst hi
              by_cases hlen : i < s.store.length
              · rw [node_modNode_self s _ hlen]; simp only; rw [mem_insertionSort, hk]
              · rw [node_of_ge s (by omega), node_of_ge _ (by rw [length_modNode]; omega)]
            · rw [node_modNode_ne s _ hi]
          · exact KEq.refl s
        have hloop : ∀ (l : List Nat) (op' : Bool) (acc : Env × P7540 × Option Frame), KEq s2 acc.2.1 →
            KEq s2 (l.foldl (fun (acc : Env × P7540 × Option Frame) k =>
              match acc with
              | (_, _, some _) => acc
              | (e', s', none) => walk fu e' s' k op') acc).2.1 := by
          intro l op'
          induction l with
          | nil => intro acc h; simpa using h
          | cons x xs ihl =>
            intro acc h
            simp only [List.foldl_cons]
            obtain ⟨ea, sa, ra⟩ := acc
            cases ra with
            | some f => exact ihl _ h
            | none => exact ihl _ (h.trans (ih ea sa x op'))
        exact h2.trans (hloop _ _ (e, s2, none) (KEq.refl s2))

theorem reachInv_pop {s : P7540} (e : Env) (hr : ReachInv s) : ReachInv (s.pop e).2.1 := by
  have h := walk_keq (s.store.length + 1) e s 0 false
  unfold P7540.pop
  rcases hw : walk (s.store.length + 1) e s 0 false with ⟨e1, s1, r1⟩
  rw [hw] at h
  cases r1 <;> exact reachInv_keq h hr

theorem reachInv_push {s : P7540} (f : Frame) (hr : ReachInv s) : ReachInv (s.push f).1 := by
  unfold P7540.push
  simp only
  split
  · exact hr
  · simp only
    apply reachInv_keq ?_ hr
    exact keq_modNode _ _ (fun _ _ => Iff.rfl)

/-- linking a node that has no parent yet only adds one child edge -/
theorem setParent_fresh {s s' : P7540} {n p : Nat} (hpar : (s.node n).parent = none) (hne : n ≠ p)
    (hp : p < s.store.length) (h : s.setParent n (some p) = some s') :
    s'.store.length = s.store.length ∧ s'.nodes = s.nodes ∧
      (∀ i k, k ∈ (s.node i).kids → k ∈ (s'.node i).kids) ∧ n ∈ (s'.node p).kids := by
  unfold setParent at h
  have h1 : ¬ (some n = some p) := by intro hh; cases hh; exact hne rfl
  have h2 : ¬ ((s.node n).parent = some p) := by rw [hpar]; intro hh; cases hh
  rw [if_neg h1, if_neg h2, hpar] at h
  simp only at h
  cases h
  have hk1 := keq_modNode s n (f := fun nn => { nn with parent := some p }) (fun _ _ => Iff.rfl)
  refine ⟨by rw [length_modNode, length_modNode], rfl, ?_, ?_⟩
  · intro i k hk
    have hk' := (hk1.kids i k).2 hk
    by_cases hi : i = p
    · subst hi
      rw [node_modNode_self _ _ (by rw [length_modNode]; exact hp)]
      simp only [List.mem_cons]; exact Or.inr hk'
    · rw [node_modNode_ne _ _ hi]; exact hk'
  · rw [node_modNode_self _ _ (by rw [length_modNode]; exact hp)]
    simp

theorem reachInv_open {s : P7540} {opn ever : Nat → Bool} {id pusher : Nat} (hc : CoreInv s opn ever)
    (hr : ReachInv s) : ReachInv (s.openStream id pusher).1 := by
  unfold openStream
  cases hl : s.lookup id with
  | some cur =>
    simp only
    split
    · exact hr
    · have h1 := keq_modNode s cur (f := fun n => { n with state := 0 }) (fun _ _ => Iff.rfl)
      exact reachInv_keq ⟨h1.len, h1.nodes, h1.kids⟩ hr
  | none =>
    simp only
    -- unfold addNode by hand
    have hpl : (s.lookup pusher).getD 0 < s.store.length := by
      cases hp : s.lookup pusher with
      | none => exact hc.rootlen
      | some p => exact (hc.map pusher p hp).1
    have hpr : ReachD s s.store.length 0 ((s.lookup pusher).getD 0) := by
      cases hp : s.lookup pusher with
      | none => exact ReachD.self
      | some p => exact hr pusher p hp
    generalize (s.lookup pusher).getD 0 = par at hpl hpr
    let A : P7540 := { s.poolGet with store := s.poolGet.store ++ [{ id := id, q := {}, weight := 15, state := 0 }] }
    have hAlen : A.store.length = s.store.length + 1 := by simp [A, poolGet]
    have hAold : ∀ i, i < s.store.length → A.node i = s.node i := by
      intro i hi; simp only [A, node, poolGet]; exact getD_append_left hi
    have hAnew : A.node s.store.length = { id := id, q := {}, weight := 15, state := 0 } := by
      simp only [A, node, poolGet]; exact getD_append_right
    have hAkids : ∀ i k, k ∈ (s.node i).kids → k ∈ (A.node i).kids := by
      intro i k hk
      by_cases hi : i < s.store.length
      · rw [hAold i hi]; exact hk
      · rw [node_of_ge s (by omega)] at hk; cases hk
    cases hsp : A.setParent s.store.length (some par) with
    | none =>
      unfold setParent at hsp
      have : ¬ (some s.store.length = some par) := by intro hh; cases hh; omega
      rw [if_neg this] at hsp
      split at hsp <;> (try cases hsp)
    | some B =>
      obtain ⟨b1, b2, b3, b4⟩ := setParent_fresh (s := A) (by rw [hAnew]) (by omega) (by rw [hAlen]; omega) hsp
      have heq : (s.addNode id 0 par) = ({ B with nodes := (id, s.store.length) :: B.nodes }, s.store.length) := by
        simp [addNode, newNode, setParent!, A, poolGet] at hsp ⊢
        rw [hsp]; simp
      rw [heq]
      simp only
      intro id' m hlk
      have hlk' : (if id' = id then some s.store.length else s.lookup id') = some m := by
        have : ({ B with nodes := (id, s.store.length) :: B.nodes } : P7540).lookup id' =
            (if id' = id then some s.store.length else s.lookup id') := by
          simp only [lookup, List.lookup, b2]
          by_cases ha : id' = id
          · subst ha; simp
          · have : (id' == id) = false := by simpa using ha
            simp [this, ha, A, poolGet]
        have hl2 : ({ ({ B with nodes := (id, s.store.length) :: B.nodes } : P7540) with
            maxID := if id > B.maxID then id else B.maxID } : P7540).lookup id' = some m := hlk
        rw [← this]; exact hl2
      have hB : ReachD B B.store.length 0 m := by
        rw [b1, hAlen]
        have htr : ∀ {d t}, ReachD s d 0 t → ReachD B d 0 t :=
          fun h => reach_mono_kids (fun i k hk => b3 i k (hAkids i k hk)) h
        split at hlk'
        · cases hlk'
          exact reach_snoc (htr hpr) b4
        · exact ReachD.mono (htr (hr id' m hlk')) (by omega)
      refine reach_mono_kids (s := B) ?_ hB
      intro i k hk; exact hk

end NetVerif.Proofs.WriteSched7540
