import NetVerif.Model.H3Conn
import NetVerif.Model.VarintQuic
import NetVerif.Proofs.Lemmas.H3Safe
/-!
End-to-end specification of what a request/response body may receive, independent of the
stream machine: frames are split the naive way with the QUIC varint model of C22
(`consumeVarint`), and `dataBytes` is the concatenation of the DATA payloads up to the first
frame that ends the body.
-/
namespace NetVerif.Proofs.H3BodySpec
open NetVerif.Model.H3Stream NetVerif.Model.H3Conn NetVerif.Model.Qpack NetVerif.Model.VarintQuic
open NetVerif.Proofs.H3Safe

def Bytes (s : List Nat) : Prop := ∀ b ∈ s, b < 256

theorem Bytes.drop {d : List Nat} (h : Bytes d) (n : Nat) : Bytes (d.drop n) :=
  fun b hb => h b (List.mem_of_mem_drop hb)

/-- `readVarint` outside a frame agrees with the C22 varint model on byte data. -/
theorem readVarint_consume (s : St) (hd : s.dead = false) (hl : s.lim < 0) (hb : Bytes s.data) :
    match consumeVarint s.data with
    | some (v, n) => readVarint s = .ok v { s with data := s.data.drop n, primed := true }
    | none => ∃ e s', readVarint s = .err e s' := by
  unfold consumeVarint
  cases hdat : s.data with
  | nil => simp [readVarint, qsReadByte, hd, hdat]
  | cons b0 rest =>
    have hb0 : b0 < 256 := hb b0 (by simp [hdat])
    have hcase : b0 / 64 = 0 ∨ b0 / 64 = 1 ∨ b0 / 64 = 2 ∨ b0 / 64 = 3 := by omega
    simp only
    rcases hcase with h0 | h1 | h2 | h3
    · simp [h0, readVarint, qsReadByte, hd, hdat, qsReadBE, recordBytesRead, hl]
    · simp only [h1]
      cases rest with
      | nil => simp [readVarint, qsReadByte, hd, hdat, qsReadBE, h1]
      | cons b1 r => simp [readVarint, qsReadByte, hd, hdat, qsReadBE, h1, recordBytesRead, hl]
    · simp only [h2]
      rcases rest with _ | ⟨b1, _ | ⟨b2, _ | ⟨b3, r⟩⟩⟩ <;>
        simp [readVarint, qsReadByte, hd, hdat, qsReadBE, h2, recordBytesRead, hl] <;> omega
    · simp only [h3]
      rcases rest with _ | ⟨b1, _ | ⟨b2, _ | ⟨b3, _ | ⟨b4, _ | ⟨b5, _ | ⟨b6, _ | ⟨b7, r⟩⟩⟩⟩⟩⟩⟩ <;>
        simp [readVarint, qsReadByte, hd, hdat, qsReadBE, h3, recordBytesRead, hl] <;> omega

/-- A frame header split off the naive way: type, declared size, bytes after the header. -/
def frameHeader (d : List Nat) : Option (Nat × Nat × List Nat) :=
  match consumeVarint d with
  | none => none
  | some (ft, n) =>
    match consumeVarint (d.drop n) with
    | none => none
    | some (sz, m) => some (ft, sz, (d.drop n).drop m)

theorem consume_pos (d : List Nat) (v n : Nat) (h : consumeVarint d = some (v, n)) : 1 ≤ n ∧ n ≤ d.length := by
  unfold consumeVarint at h
  repeat' split at h
  all_goals simp at h
  all_goals (obtain ⟨_, rfl⟩ := h; simp; try omega)

theorem frameHeader_shorter (d rest : List Nat) (ft sz : Nat) (h : frameHeader d = some (ft, sz, rest)) :
    rest.length + 2 ≤ d.length := by
  unfold frameHeader at h
  split at h
  · cases h
  · rename_i ft' n h1
    split at h
    · cases h
    · rename_i sz' m h2
      simp at h
      obtain ⟨_, _, rfl⟩ := h
      have a := consume_pos _ _ _ h1
      have b := consume_pos _ _ _ h2
      simp at b ⊢
      omega

/-- `readFrameHeader` between frames agrees with the naive header split. -/
theorem readFrameHeader_spec (s : St) (hd : s.dead = false) (hl : s.lim < 0) (hb : Bytes s.data) :
    match frameHeader s.data with
    | some (ft, sz, rest) => readFrameHeader s = .ok ft { s with data := rest, primed := true, lim := sz }
    | none => ∃ e s', readFrameHeader s = .err e s' := by
  unfold frameHeader readFrameHeader
  have hl' : ¬ s.lim ≥ 0 := by omega
  simp only [hl', if_false]
  have h1 := readVarint_consume s hd hl hb
  cases hc : consumeVarint s.data with
  | none =>
    rw [hc] at h1
    obtain ⟨e, s', he⟩ := h1
    exact ⟨e, s', by rw [he]; rfl⟩
  | some p =>
    obtain ⟨ft, n⟩ := p
    rw [hc] at h1
    simp only at h1 ⊢
    rw [h1]
    simp only [Out.bind]
    have h2 := readVarint_consume { s with data := s.data.drop n, primed := true } hd hl (hb.drop n)
    simp only at h2
    cases hc2 : consumeVarint (s.data.drop n) with
    | none =>
      rw [hc2] at h2
      obtain ⟨e, s', he⟩ := h2
      rw [he]
      dsimp only
      split
      · exact ⟨_, _, rfl⟩
      · exact ⟨_, _, rfl⟩
    | some q =>
      obtain ⟨sz, m⟩ := q
      rw [hc2] at h2
      simp only at h2 ⊢
      rw [h2]

/-- The bytes a body may receive from a stream that is between frames: the DATA payloads (a final
one possibly cut short by the end of the stream), with completely present unknown frames skipped,
up to the first known non-DATA frame, malformed header or truncated unknown frame. -/
def dataBytes (d : List Nat) : List Nat :=
  match h : frameHeader d with
  | none => []
  | some (ft, sz, rest) =>
    if ft = 0 then rest.take sz ++ (if sz ≤ rest.length then dataBytes (rest.drop sz) else [])
    else if knownFrameType ft then []
    else if sz ≤ rest.length then dataBytes (rest.drop sz) else []
termination_by d.length
decreasing_by
  all_goals (have := frameHeader_shorter d rest ft sz h; simp; omega)

/-- The bytes a body may still receive from a stream in state `s`: the rest of the current frame's
window (the frame a `bodyReader` is inside of is a DATA frame), then `dataBytes` of what follows. -/
def window (s : St) : List Nat :=
  if s.lim < 0 then dataBytes s.data
  else s.data.take s.lim.toNat ++ (if s.lim.toNat ≤ s.data.length then dataBytes (s.data.drop s.lim.toNat) else [])

/-! ### What the primitives do to `window` -/

theorem discardLoop_ok_inv : ∀ (n : Nat) (s s' : St), s.dead = false → discardLoop n s = .ok () s' →
    n ≤ s.data.length ∧ s'.data = s.data.drop n ∧ s'.lim = s.lim ∧ s'.dead = false := by
  intro n
  induction n with
  | zero => intro s s' hd h; simp [discardLoop] at h; subst h; simp [hd]
  | succ n ih =>
    intro s s' hd h
    unfold discardLoop qsReadByte at h
    simp only [hd, Bool.false_eq_true, if_false] at h
    cases hdat : s.data with
    | nil => simp [hdat] at h
    | cons b t =>
      simp only [hdat] at h
      have := ih { s with data := t, primed := true, dead := false } s' rfl h
      simp at this ⊢
      exact ⟨by omega, this.2.1, this.2.2.1, this.2.2.2⟩

theorem discardFrame_ok_inv (s s' : St) (hd : s.dead = false) (h : discardFrame s = .ok () s') :
    s.lim.toNat ≤ s.data.length ∧ s'.data = s.data.drop s.lim.toNat ∧ s'.lim = -1 ∧ s'.dead = false := by
  unfold discardFrame at h
  cases hl : discardLoop s.lim.toNat s with
  | ok u s1 =>
    rw [hl] at h
    simp [Out.bind] at h
    subst h
    have := discardLoop_ok_inv _ s s1 hd hl
    exact ⟨this.1, this.2.1, rfl, this.2.2.2⟩
  | err e s1 => rw [hl] at h; simp [Out.bind] at h
  | panic => rw [hl] at h; simp [Out.bind] at h
  | hang => rw [hl] at h; simp [Out.bind] at h

/-- `Read` returns a prefix of the head of the stream, no longer than the buffer nor (inside a
frame) the limit, and advances the stream by exactly that much. -/
theorem read_inv (s s' : St) (k : Nat) (bs : List Nat) (eof : Bool) (hd : s.dead = false)
    (h : NetVerif.Model.H3Stream.read s k = .ok (bs, eof) s') :
    bs = s.data.take bs.length ∧ bs.length ≤ k ∧ s'.data = s.data.drop bs.length ∧ s'.dead = false ∧
    (0 ≤ s.lim → (bs.length : Int) ≤ s.lim ∧ s'.lim = s.lim - bs.length) := by
  unfold NetVerif.Model.H3Stream.read qsRead at h
  simp only [hd, Bool.false_eq_true, if_false] at h
  have key : ∀ (bs0 : List Nat) (eof0 : Bool) (s1 : St), bs0 = s.data.take bs0.length → bs0.length ≤ k →
      s1.data = s.data.drop bs0.length → s1.dead = false → s1.lim = s.lim →
      (match recordBytesRead s1 bs0.length with
        | .ok _ s2 =>
          if eof0 then
            if s2.lim = 0 then Out.ok (bs0, false) s2
            else if s2.lim > 0 then .err (.plain cFrameError) s2
            else .ok (bs0, true) s2
          else .ok (bs0, false) s2
        | .err e s2 => .err e s2
        | .panic => .panic
        | .hang => .hang) = Out.ok (bs, eof) s' →
      bs = s.data.take bs.length ∧ bs.length ≤ k ∧ s'.data = s.data.drop bs.length ∧ s'.dead = false ∧
      (0 ≤ s.lim → (bs.length : Int) ≤ s.lim ∧ s'.lim = s.lim - bs.length) := by
    intro bs0 eof0 s1 h1 h2 h3 h4 h5 hm
    by_cases hneg : s1.lim < 0
    · simp only [recordBytesRead, hneg, if_true] at hm
      have hfin : ∀ e', Out.ok (bs0, e') s1 = Out.ok (bs, eof) s' →
          bs = s.data.take bs.length ∧ bs.length ≤ k ∧ s'.data = s.data.drop bs.length ∧ s'.dead = false ∧
          (0 ≤ s.lim → (bs.length : Int) ≤ s.lim ∧ s'.lim = s.lim - bs.length) := by
        intro e' he
        simp at he
        obtain ⟨⟨rfl, _⟩, rfl⟩ := he
        exact ⟨h1, h2, h3, h4, by intro h0; omega⟩
      repeat' split at hm
      all_goals (first | exact hfin _ hm | cases hm)
    · by_cases hov : s1.lim - (bs0.length : Int) < 0
      · simp [recordBytesRead, hneg, hov] at hm
      · simp only [recordBytesRead, hneg, hov, if_false] at hm
        have hfin : ∀ e', Out.ok (bs0, e') { s1 with lim := s1.lim - bs0.length } = Out.ok (bs, eof) s' →
            bs = s.data.take bs.length ∧ bs.length ≤ k ∧ s'.data = s.data.drop bs.length ∧ s'.dead = false ∧
            (0 ≤ s.lim → (bs.length : Int) ≤ s.lim ∧ s'.lim = s.lim - bs.length) := by
          intro e' he
          simp at he
          obtain ⟨⟨rfl, _⟩, rfl⟩ := he
          exact ⟨h1, h2, h3, h4, by intro h0; simp only; omega⟩
        repeat' split at hm
        all_goals (first | exact hfin _ hm | cases hm)
  have hlen : ∀ (b : Nat) (t : List Nat), (List.take k (b :: t)).length ≤ k := by intro b t; simp; omega
  cases hdat : s.data with
  | nil =>
    simp only [hdat] at h
    have := key [] true s (by simp) (by simp) (by simp [hdat]) hd rfl h
    simpa [hdat] using this
  | cons b t =>
    simp only [hdat] at h
    have htt : List.take k (b :: t) = List.take (List.take k (b :: t)).length (b :: t) := by
      simp [List.take_take]
    have hdd : List.drop k (b :: t) = List.drop (List.take k (b :: t)).length (b :: t) := by
      simp only [List.length_take]
      rw [Nat.min_def]; split
      · rfl
      · rw [List.drop_of_length_le (by omega), List.drop_of_length_le (by omega)]
    by_cases hp : s.primed = true
    · simp only [hp, if_true] at h
      have := key (List.take k (b :: t)) false
        { data := List.drop k (b :: t), primed := true, dead := false, lim := s.lim, allocs := s.allocs }
        (by rw [hdat]; exact htt) (hlen b t) (by rw [hdat]; exact hdd) rfl rfl h
      simpa [hdat] using this
    · simp only [hp, Bool.false_eq_true, if_false] at h
      by_cases hk : k ≥ (b :: t).length
      · simp only [hk, if_true] at h
        have := key (b :: t) true
          { data := [], primed := true, dead := false, lim := s.lim, allocs := s.allocs }
          (by simp [hdat]) hk (by simp [hdat]) rfl rfl h
        simpa [hdat] using this
      · simp only [hk, if_false] at h
        have := key (List.take k (b :: t)) false
          { data := List.drop k (b :: t), primed := true, dead := false, lim := s.lim, allocs := s.allocs }
          (by rw [hdat]; exact htt) (hlen b t) (by rw [hdat]; exact hdd) rfl rfl h
        simpa [hdat] using this

/-! ### `bodyReader.Read` against the specification -/

theorem dataBytes_some (d rest : List Nat) (ft sz : Nat) (h : frameHeader d = some (ft, sz, rest)) :
    dataBytes d =
      if ft = 0 then rest.take sz ++ (if sz ≤ rest.length then dataBytes (rest.drop sz) else [])
      else if knownFrameType ft then []
      else if sz ≤ rest.length then dataBytes (rest.drop sz) else [] := by
  rw [dataBytes]
  split
  · rename_i h'; rw [h] at h'; cases h'
  · rename_i ft' sz' rest' h'
    rw [h] at h'
    simp at h'
    obtain ⟨rfl, rfl, rfl⟩ := h'
    rfl

theorem frameHeader_rest_bytes (d rest : List Nat) (ft sz : Nat) (hb : Bytes d)
    (h : frameHeader d = some (ft, sz, rest)) : Bytes rest := by
  unfold frameHeader at h
  repeat' split at h
  all_goals simp at h
  obtain ⟨_, _, rfl⟩ := h
  rw [← List.drop_drop]
  exact (hb.drop _).drop _

def bytesOf : BRes → List Nat
  | .done bs _ _ _ => bs
  | .panic => []
  | .hang => []

/-- A read that delivered nothing and reported an error (or did not return). -/
def Failed : BRes → Prop
  | .done bs e _ _ => bs = [] ∧ e ≠ none
  | .panic => True
  | .hang => True

macro "failed" : tactic =>
  `(tactic| first | exact ⟨rfl, by intro h; cases h⟩ | exact True.intro)

/-- Outcome of the frame-finding loop relative to the state `s` it started from. -/
def NextOK (s : St) : Option BRes × St → Prop
  | (some r, _) => Failed r
  | (none, s2) => s2.dead = false ∧ Bytes s2.data ∧ 0 ≤ s2.lim ∧ window s2 = window s

theorem NextOK.mono {s s' : St} (hw : window s' = window s) : ∀ r, NextOK s' r → NextOK s r
  | (some _, _), h => h
  | (none, _), h => ⟨h.1, h.2.1, h.2.2.1, h.2.2.2.trans hw⟩

theorem bodyNextFrame_window (H : Huff) (tbl : List (List Nat × List Nat)) (b : Body) :
    ∀ (fuel : Nat) (s : St), s.dead = false → Bytes s.data → NextOK s (bodyNextFrame H tbl b fuel s) := by
  intro fuel
  induction fuel with
  | zero => intro s _ _; failed
  | succ f ih =>
    intro s hd hb
    unfold bodyNextFrame
    by_cases hl : s.lim < 0
    · simp only [hl, if_true]
      have hs := readFrameHeader_spec s hd hl hb
      cases hf : frameHeader s.data with
      | none =>
        rw [hf] at hs
        obtain ⟨e, s', he⟩ := hs
        rw [he]
        simp only
        split <;> failed
      | some p =>
        obtain ⟨ft, sz, rest⟩ := p
        rw [hf] at hs
        simp only at hs
        rw [hs]
        simp only
        have hrb := frameHeader_rest_bytes _ _ _ _ hb hf
        have hwin : window s = dataBytes s.data := by simp [window, hl]
        have hdb := dataBytes_some _ _ _ _ hf
        by_cases h0 : ft = 0
        · simp only [h0, if_true]
          split
          · failed
          · refine ⟨hd, hrb, by simp, ?_⟩
            rw [hwin, hdb]
            have : ¬ ((sz : Int) < 0) := by omega
            simp [window, h0, this]
        · simp only [h0, if_false]
          by_cases h1 : ft = 1
          · simp only [h1, if_true]
            repeat' split
            all_goals failed
          · simp only [h1, if_false]
            unfold discardUnknownFrame
            by_cases hk : knownFrameType ft = true
            · simp only [hk, if_true]; failed
            · simp only [hk, Bool.false_eq_true, if_false]
              cases hdf : discardFrame { s with data := rest, primed := true, lim := (sz : Int) } with
              | ok u s2 =>
                simp only
                have hi := discardFrame_ok_inv { s with data := rest, primed := true, lim := (sz : Int) } s2 hd hdf
                simp at hi
                have hb2 : Bytes s2.data := by rw [hi.2.1]; exact hrb.drop _
                refine NextOK.mono ?_ _ (ih s2 hi.2.2.2 hb2)
                rw [hwin, hdb]
                simp [window, hi.2.2.1, hi.2.1, h0, hk, hi.1]
              | err e s2 => failed
              | panic => failed
              | hang => failed
    · simp only [hl, if_false]
      exact ⟨hd, hb, by omega, rfl⟩

theorem window_split (f : List Nat → List Nat) (d : List Nat) (L n : Nat) (hn : n ≤ L) (hnl : n ≤ d.length) :
    d.take L ++ (if L ≤ d.length then f (d.drop L) else []) =
    d.take n ++ ((d.drop n).take (L - n) ++
      (if L - n ≤ (d.drop n).length then f ((d.drop n).drop (L - n)) else [])) := by
  have h1 : d.take L = d.take n ++ (d.drop n).take (L - n) := by
    have : L = n + (L - n) := by omega
    conv => lhs; rw [this, List.take_add]
  have h2 : (d.drop n).drop (L - n) = d.drop L := by
    rw [List.drop_drop]; congr 1; omega
  have h3 : (L - n ≤ (d.drop n).length) ↔ (L ≤ d.length) := by simp; omega
  rw [h1, h2, List.append_assoc]
  by_cases hL : L ≤ d.length
  · rw [if_pos hL, if_pos (h3.mpr hL)]
  · have : ¬ (L - n ≤ (d.drop n).length) := fun h => hL (h3.mp h)
    rw [if_neg hL, if_neg this]

theorem window_inside (s : St) (h : 0 ≤ s.lim) :
    window s = s.data.take s.lim.toNat ++
      (if s.lim.toNat ≤ s.data.length then dataBytes (s.data.drop s.lim.toNat) else []) := by
  have : ¬ s.lim < 0 := by omega
  simp [window, this]

/-! `bodyRead` restated with its two inline pieces named (definitionally the same function). -/

def afterEnd (b : Body) (s : St) : Option BRes × St :=
  if s.lim = 0 then
    match endFrame s with
    | .ok _ s1 => (none, s1)
    | .err e s1 => (some (bodyFail b s1 e), s1)
    | .panic => (some .panic, s)
    | .hang => (some .hang, s)
  else (none, s)

def bodyTail (b : Body) (s2 : St) (k' : Nat) : BRes :=
  match NetVerif.Model.H3Stream.read s2 k' with
  | .ok (bs, eof) s3 =>
    let b' : Body := { b with remain := if b.remain > 0 then b.remain - bs.length else b.remain }
    if eof then .done bs (some .eof) { b' with err := some .eof } s3 else .done bs none b' s3
  | .err e s3 => .done [] (some e) { b with err := some e } s3
  | .panic => .panic
  | .hang => .hang

def bodyRead' (H : Huff) (tbl : List (List Nat × List Nat)) (b : Body) (s : St) (k : Nat) : BRes :=
  match b.err with
  | some e => .done [] (some e) b s
  | none =>
    match afterEnd b s with
    | (some r, _) => r
    | (none, s1) =>
      match bodyNextFrame H tbl b (s1.data.length + 2) s1 with
      | (some r, _) => r
      | (none, s2) => bodyTail b s2 (if (k : Int) > s2.lim then s2.lim.toNat else k)

theorem bodyRead_eq (H : Huff) (tbl : List (List Nat × List Nat)) (b : Body) (s : St) (k : Nat) :
    bodyRead H tbl b s k = bodyRead' H tbl b s k := by
  unfold bodyRead bodyRead' afterEnd bodyTail
  rfl

def AfterOK (s : St) : Option BRes × St → Prop
  | (some r, _) => Failed r
  | (none, s1) => s1.dead = false ∧ Bytes s1.data ∧ window s1 = window s

theorem afterEnd_ok (b : Body) (s : St) (hd : s.dead = false) (hb : Bytes s.data) :
    AfterOK s (afterEnd b s) := by
  unfold afterEnd
  by_cases h0 : s.lim = 0
  · simp only [h0, if_true, endFrame, ne_eq, not_true_eq_false, if_false]
    refine ⟨hd, hb, ?_⟩
    rw [window_inside s (by omega)]
    simp [window, h0]
  · simp only [h0, if_false]
    exact ⟨hd, hb, rfl⟩

/-- What one read may report. -/
def ReadOK (s : St) : BRes → Prop
  | .done bs e _ s' =>
    bs <+: window s ∧ (e = none → window s = bs ++ window s' ∧ s'.dead = false ∧ Bytes s'.data)
  | .panic => True
  | .hang => True

theorem readOK_of_failed (s : St) (r : BRes) (h : Failed r) : ReadOK s r := by
  cases r with
  | done bs e b' s' =>
    obtain ⟨rfl, hne⟩ := h
    exact ⟨List.nil_prefix, fun he => absurd he hne⟩
  | panic => trivial
  | hang => trivial

theorem bodyTail_window (b : Body) (s2 : St) (k' : Nat) (hd : s2.dead = false) (hb : Bytes s2.data)
    (hl : 0 ≤ s2.lim) : ReadOK s2 (bodyTail b s2 k') := by
  unfold bodyTail
  cases hr : NetVerif.Model.H3Stream.read s2 k' with
  | ok r s3 =>
    obtain ⟨bs, eof⟩ := r
    have hi := read_inv s2 s3 k' bs eof hd hr
    obtain ⟨h1, h2, h3, h4, h5⟩ := hi
    obtain ⟨h5a, h5b⟩ := h5 hl
    have hnl : bs.length ≤ s2.data.length := by
      have := congrArg List.length h1
      simp at this; omega
    have hw : window s2 = bs ++ window s3 := by
      rw [window_inside s2 hl, window_inside s3 (by omega), h3, h5b]
      have e1 : (s2.lim - (bs.length : Int)).toNat = s2.lim.toNat - bs.length := by omega
      rw [e1, window_split dataBytes s2.data s2.lim.toNat bs.length (by omega) hnl, ← h1]
    have hpre : bs <+: window s2 := hw ▸ List.prefix_append _ _
    cases eof
    · simp only [Bool.false_eq_true, if_false]
      exact ⟨hpre, fun _ => ⟨hw, h4, h3 ▸ hb.drop _⟩⟩
    · simp only [if_true]
      exact ⟨hpre, by intro h; cases h⟩
  | err e s3 => exact ⟨List.nil_prefix, by intro h; cases h⟩
  | panic => trivial
  | hang => trivial

/-- One `bodyReader.Read`: the bytes put into the caller's buffer are a prefix of `window`, and
after a read without error the rest of `window` is exactly what the new state may still deliver. -/
theorem bodyRead_window (H : Huff) (tbl : List (List Nat × List Nat)) (b : Body) (s : St) (k : Nat)
    (hd : s.dead = false) (hb : Bytes s.data) : ReadOK s (bodyRead H tbl b s k) := by
  rw [bodyRead_eq]
  unfold bodyRead'
  cases hbe : b.err with
  | some e0 => exact ⟨List.nil_prefix, by intro h; cases h⟩
  | none =>
    simp only
    have hae := afterEnd_ok b s hd hb
    cases hA : afterEnd b s with
    | mk r s1 =>
      rw [hA] at hae
      cases r with
      | some r => exact readOK_of_failed s r hae
      | none =>
        simp only
        obtain ⟨h1d, h1b, h1w⟩ := hae
        have hn := bodyNextFrame_window H tbl b (s1.data.length + 2) s1 h1d h1b
        cases hN : bodyNextFrame H tbl b (s1.data.length + 2) s1 with
        | mk r2 s2 =>
          rw [hN] at hn
          cases r2 with
          | some r2 => exact readOK_of_failed s r2 hn
          | none =>
            simp only
            obtain ⟨h2d, h2b, h2l, h2w⟩ := hn
            have ht := bodyTail_window b s2 (if (k : Int) > s2.lim then s2.lim.toNat else k) h2d h2b h2l
            have hw : window s2 = window s := h2w.trans h1w
            revert ht
            cases bodyTail b s2 (if (k : Int) > s2.lim then s2.lim.toNat else k) with
            | done bs e b' s' => intro ht; exact ⟨hw ▸ ht.1, fun he => hw ▸ ht.2 he⟩
            | panic => intro _; trivial
            | hang => intro _; trivial

/-- **End to end**: whatever bytes the peer sends, however the reads are sized and however the
body ends, the bytes a `bodyReader` hands out are a prefix of `window` — for a stream that is
between frames, a prefix of the concatenated DATA payloads `dataBytes`. -/
theorem bodyDrain_window (H : Huff) (tbl : List (List Nat × List Nat)) (k : Nat) :
    ∀ (fuel : Nat) (b : Body) (s : St) (acc : List Nat), s.dead = false → Bytes s.data →
    ∃ out, (bodyDrain H tbl k fuel b s acc).1 = acc ++ out ∧ out <+: window s := by
  intro fuel
  induction fuel with
  | zero => intro b s acc _ _; exact ⟨[], by simp [bodyDrain], List.nil_prefix⟩
  | succ f ih =>
    intro b s acc hd hb
    unfold bodyDrain
    have hr := bodyRead_window H tbl b s k hd hb
    revert hr
    cases bodyRead H tbl b s k with
    | done bs e b' s' =>
      intro hr
      obtain ⟨hpre, hnone⟩ := hr
      cases e with
      | none =>
        obtain ⟨hw, hd', hb'⟩ := hnone rfl
        obtain ⟨out, ho, hp⟩ := ih b' s' (acc ++ bs) hd' hb'
        refine ⟨bs ++ out, by simp only; rw [ho, List.append_assoc], ?_⟩
        rw [hw]
        exact (List.prefix_append_right_inj bs).mpr hp
      | some e =>
        cases e <;> exact ⟨bs, rfl, hpre⟩
    | panic => intro _; exact ⟨[], by simp, List.nil_prefix⟩
    | hang => intro _; exact ⟨[], by simp, List.nil_prefix⟩

end NetVerif.Proofs.H3BodySpec
