import NetVerif.Model.WriteSched
/-!
Helper lemmas for C12/C13: `Frame.consume` case analysis, the two-stage queue as a FIFO,
`splitFirst`, and the byte-token denotation used by the conservation theorem.
-/
namespace NetVerif.Proofs.WriteSchedLemmas
open NetVerif.Model.WriteSched

/-! ### Tokens: what a frame carries.  A DATA frame carries the bytes `(tag, off) … (tag, off+len-1)`
of the pushed payload `tag`, plus an end marker (with the END_STREAM flag) iff it is the piece that
keeps the `done` channel; a HEADERS-like frame carries one token. -/

inductive Tok where
  | byte (tag off : Nat)
  | fin (tag : Nat) (endStream : Bool)
  | hdr (tag : Nat)
  deriving DecidableEq, Repr

def bytesFrom (tag : Nat) : Nat → Nat → List Tok
  | _, 0 => []
  | off, n + 1 => .byte tag off :: bytesFrom tag (off + 1) n

def toks : Frame → List Tok
  | .data _ tag off len fin last => bytesFrom tag off len ++ (if last then [.fin tag fin] else [])
  | .hdr _ tag => [.hdr tag]
  | _ => []

def flatToks (l : List Frame) : List Tok := l.flatMap toks

theorem bytesFrom_add (tag off a b : Nat) :
    bytesFrom tag off (a + b) = bytesFrom tag off a ++ bytesFrom tag (off + a) b := by
  induction a generalizing off with
  | zero => simp [bytesFrom]
  | succ a ih =>
    have : a + 1 + b = (a + b) + 1 := by omega
    rw [this]
    simp only [bytesFrom, List.cons_append]
    rw [ih (off + 1)]
    have : off + 1 + a = off + (a + 1) := by omega
    rw [this]

@[simp] theorem flatToks_nil : flatToks [] = [] := rfl
@[simp] theorem flatToks_cons (f : Frame) (l : List Frame) : flatToks (f :: l) = toks f ++ flatToks l := by
  simp [flatToks]
@[simp] theorem flatToks_append (l₁ l₂ : List Frame) : flatToks (l₁ ++ l₂) = flatToks l₁ ++ flatToks l₂ := by
  simp [flatToks]

/-! ### `Frame.consume` -/

/-- Everything `Consume` can do, in one statement. -/
theorem consume_cases (e : Env) (n : Int) (f : Frame) :
    (f.consume e n = (e, .whole f) ∧ f.dataSize = 0) ∨
    (∃ sid tag off len fin last, f = .data sid tag off len fin last ∧ 0 < len ∧
      ((e.allowed sid n ≤ 0 ∧ f.consume e n = (e, .none)) ∨
       (0 < e.allowed sid n ∧ (len : Int) ≤ e.allowed sid n ∧ f.consume e n = (e.take sid len, .whole f)) ∨
       (∃ a : Nat, (a : Int) = e.allowed sid n ∧ 0 < a ∧ a < len ∧
          f.consume e n = (e.take sid a, .split (.data sid tag off a false false)
                                                 (.data sid tag (off + a) (len - a) fin last))))) := by
  cases f with
  | data sid tag off len fin last =>
    by_cases hl : len = 0
    · left; subst hl; simp [Frame.consume, Frame.dataSize]
    · right
      refine ⟨sid, tag, off, len, fin, last, rfl, by omega, ?_⟩
      by_cases h0 : e.allowed sid n ≤ 0
      · left; simp [Frame.consume, hl, h0]
      · by_cases h1 : (len : Int) > e.allowed sid n
        · right; right
          refine ⟨(e.allowed sid n).toNat, by omega, by omega, by omega, ?_⟩
          have : ((e.allowed sid n).toNat : Int) = e.allowed sid n := by omega
          simp [Frame.consume, hl, h0, h1, this]
        · right; left
          refine ⟨by omega, by omega, ?_⟩
          simp [Frame.consume, hl, h0, h1]
  | hdr sid tag => left; simp [Frame.consume, Frame.dataSize]
  | ctl tag => left; simp [Frame.consume, Frame.dataSize]
  | rst sid tag => left; simp [Frame.consume, Frame.dataSize]
  | empty => left; simp [Frame.consume, Frame.dataSize]

/-- A whole result is the frame itself. -/
theorem consume_whole_eq {e e' : Env} {n : Int} {f g : Frame} (h : f.consume e n = (e', .whole g)) : g = f := by
  rcases consume_cases e n f with ⟨h1, _⟩ | ⟨sid, tag, off, len, fin, last, rfl, _, h1⟩
  · rw [h1] at h; cases h; rfl
  · rcases h1 with ⟨_, h1⟩ | ⟨_, _, h1⟩ | ⟨a, _, _, _, h1⟩ <;> rw [h1] at h <;> cases h
    rfl

/-- Splitting conserves the bytes, in order; the first piece carries neither END_STREAM nor `done`. -/
theorem consume_split_toks {e e' : Env} {n : Int} {f c r : Frame} (h : f.consume e n = (e', .split c r)) :
    toks c ++ toks r = toks f ∧ c.streamID = f.streamID ∧ r.streamID = f.streamID ∧
    c.isControl = false ∧ r.isControl = false ∧
    (∃ sid tag off len, c = .data sid tag off len false false ∧ 0 < len) := by
  rcases consume_cases e n f with ⟨h1, _⟩ | ⟨sid, tag, off, len, fin, last, rfl, _, h1⟩
  · rw [h1] at h; cases h
  · rcases h1 with ⟨_, h1⟩ | ⟨_, _, h1⟩ | ⟨a, _, ha0, hal, h1⟩ <;> rw [h1] at h <;> cases h
    refine ⟨?_, rfl, rfl, rfl, rfl, ⟨sid, tag, off, a, rfl, ha0⟩⟩
    have : len = a + (len - a) := by omega
    simp only [toks]
    conv => rhs; rw [this, bytesFrom_add]
    simp

/-- `Consume` fails only on a non-empty DATA frame whose allowance is not positive. -/
theorem consume_none {e e' : Env} {n : Int} {f : Frame} (h : f.consume e n = (e', .none)) :
    e' = e ∧ ∃ sid tag off len fin last, f = .data sid tag off len fin last ∧ 0 < len ∧ e.allowed sid n ≤ 0 := by
  rcases consume_cases e n f with ⟨h1, _⟩ | ⟨sid, tag, off, len, fin, last, rfl, hl, h1⟩
  · rw [h1] at h; cases h
  · rcases h1 with ⟨h0, h1⟩ | ⟨_, _, h1⟩ | ⟨a, _, _, _, h1⟩ <;> rw [h1] at h <;> cases h
    exact ⟨rfl, sid, tag, off, len, fin, last, rfl, hl, h0⟩

/-- With a positive limit, failure does not depend on the limit (RFC 7540 write throttling). -/
theorem allowed_nonpos_iff (e : Env) (sid : Nat) (n : Int) (hn : 0 < n) :
    e.allowed sid n ≤ 0 ↔ e.allowed sid maxInt32 ≤ 0 := by
  unfold Env.allowed maxInt32
  omega

/-! ### The two-stage queue is a FIFO -/

theorem push_toList (q : WQ) (f : Frame) : (q.push f).toList = q.toList ++ [f] := by
  simp [WQ.push, WQ.toList]

theorem empty_toList : ({} : WQ).toList = [] := rfl

theorem isEmpty_iff (q : WQ) : q.isEmpty = true ↔ q.toList = [] := by
  cases q with
  | mk c n => cases c <;> cases n <;> simp [WQ.isEmpty, WQ.toList]

theorem shift_nil {q : WQ} (h : q.toList = []) : q.shift = none := by
  cases q with
  | mk c n =>
    simp [WQ.toList] at h
    obtain ⟨rfl, rfl⟩ := h
    rfl

theorem shift_cons {q : WQ} {f : Frame} {rest : List Frame} (h : q.toList = f :: rest) :
    ∃ q', q.shift = some (f, q') ∧ q'.toList = rest := by
  cases q with
  | mk c n =>
    cases c with
    | nil =>
      cases n with
      | nil => simp [WQ.toList] at h
      | cons g n' =>
        simp [WQ.toList] at h
        obtain ⟨rfl, rfl⟩ := h
        exact ⟨_, rfl, by simp [WQ.toList]⟩
    | cons g c' =>
      simp [WQ.toList] at h
      obtain ⟨rfl, rfl⟩ := h
      exact ⟨_, rfl, by simp [WQ.toList]⟩

theorem peek_nil {q : WQ} (h : q.toList = []) : q.peek = none := by
  cases q with
  | mk c n =>
    simp [WQ.toList] at h
    obtain ⟨rfl, rfl⟩ := h
    rfl

theorem peek_cons {q : WQ} {f : Frame} {rest : List Frame} (h : q.toList = f :: rest) : q.peek = some f := by
  cases q with
  | mk c n =>
    cases c with
    | nil =>
      cases n with
      | nil => simp [WQ.toList] at h
      | cons g n' => simp [WQ.toList] at h; simp [WQ.peek, h.1]
    | cons g c' => simp [WQ.toList] at h; simp [WQ.peek, h.1]

theorem setHead_cons {q : WQ} {f : Frame} {rest : List Frame} (h : q.toList = f :: rest) (g : Frame) :
    (q.setHead g).toList = g :: rest := by
  cases q with
  | mk c n =>
    cases c with
    | nil =>
      cases n with
      | nil => simp [WQ.toList] at h
      | cons g' n' => simp [WQ.toList] at h; simp [WQ.setHead, WQ.toList, h.2]
    | cons g' c' => simp [WQ.toList] at h; simp [WQ.setHead, WQ.toList, h.2]

theorem wq_consume_nil {q : WQ} (e : Env) (n : Int) (h : q.toList = []) : q.consume e n = (e, q, none) := by
  simp [WQ.consume, peek_nil h]

/-- `writeQueue.consume` acts on the head of the FIFO exactly as `Consume` says. -/
theorem wq_consume_cons {q : WQ} {f : Frame} {rest : List Frame} (e : Env) (n : Int) (h : q.toList = f :: rest) :
    (∃ e', f.consume e n = (e', .none) ∧ q.consume e n = (e, q, none)) ∨
    (∃ e' q', f.consume e n = (e', .whole f) ∧ q.consume e n = (e', q', some f) ∧ q'.toList = rest) ∨
    (∃ e' c r, f.consume e n = (e', .split c r) ∧ q.consume e n = (e', q.setHead r, some c) ∧
      (q.setHead r).toList = r :: rest) := by
  have hp := peek_cons h
  rcases hc : f.consume e n with ⟨e', cr⟩
  cases cr with
  | none => left; exact ⟨e', rfl, by simp [WQ.consume, hp, hc]⟩
  | whole g =>
    right; left
    have hg := consume_whole_eq hc
    subst hg
    obtain ⟨q', hs, hq'⟩ := shift_cons h
    exact ⟨e', q', rfl, by simp [WQ.consume, hp, hc, hs], hq'⟩
  | split c r =>
    right; right
    exact ⟨e', c, r, rfl, by simp [WQ.consume, hp, hc], setHead_cons h r⟩

theorem sendable_false_iff {q : WQ} (e : Env) :
    sendable e q = false ↔ (q.toList = [] ∨ ∃ f rest e', q.toList = f :: rest ∧ f.consume e maxInt32 = (e', .none)) := by
  unfold sendable
  cases hl : q.toList with
  | nil => simp [wq_consume_nil e maxInt32 hl]
  | cons f rest =>
    rcases wq_consume_cons e maxInt32 hl with ⟨e', h1, h2⟩ | ⟨e', q', h1, h2, _⟩ | ⟨e', c, r, h1, h2, _⟩
    · simp [h2]; exact ⟨e', h1⟩
    · simp [h2, h1]
    · simp [h2, h1]

/-! ### `splitFirst` -/

theorem splitFirst_some {p : Nat → Bool} {l pre post : List Nat} {x : Nat}
    (h : splitFirst p l = some (pre, x, post)) :
    l = pre ++ x :: post ∧ p x = true ∧ ∀ y ∈ pre, p y = false := by
  induction l generalizing pre with
  | nil => simp [splitFirst] at h
  | cons a l ih =>
    unfold splitFirst at h
    by_cases hp : p a = true
    · simp [hp] at h
      obtain ⟨rfl, rfl, rfl⟩ := h
      simp [hp]
    · simp [hp] at h
      split at h
      · rename_i a' y b heq
        simp at h
        obtain ⟨rfl, rfl, rfl⟩ := h
        obtain ⟨h1, h2, h3⟩ := ih heq
        refine ⟨by simp [h1], h2, ?_⟩
        intro z hz
        simp at hz
        rcases hz with rfl | hz
        · simpa using hp
        · exact h3 z hz
      · simp at h

theorem splitFirst_none {p : Nat → Bool} {l : List Nat} (h : splitFirst p l = none) : ∀ y ∈ l, p y = false := by
  induction l with
  | nil => simp
  | cons a l ih =>
    unfold splitFirst at h
    by_cases hp : p a = true
    · simp [hp] at h
    · simp [hp] at h
      split at h
      · simp at h
      · rename_i heq
        intro y hy
        simp at hy
        rcases hy with rfl | hy
        · simpa using hp
        · exact ih heq y hy

theorem upd_same {α : Type} (f : Nat → α) (k : Nat) (v : α) : upd f k v k = v := by simp [upd]
theorem upd_other {α : Type} (f : Nat → α) {k x : Nat} (v : α) (h : x ≠ k) : upd f k v x = f x := by simp [upd, h]

end NetVerif.Proofs.WriteSchedLemmas
