import NetVerif.Model.XsrfToken
/-! Helper lemmas for C57: `clean`, decimal rendering / parsing, last-colon split. -/
namespace NetVerif.Proofs.Lemmas.XsrfStrings
open NetVerif.Model.Xsrf

/-- single-pass form of `clean`. -/
def cleanByte (c : Nat) : Bytes := if c = 95 then [95, 95] else if c = 58 then [95, 99] else [c]

theorem clean_nil : clean [] = [] := by simp [clean, replaceColon, replaceUnderscore]

theorem clean_cons (c : Nat) (s : Bytes) : clean (c :: s) = cleanByte c ++ clean s := by
  unfold clean replaceColon replaceUnderscore cleanByte
  by_cases h1 : c = 95
  · subst h1; simp
  · by_cases h2 : c = 58
    · subst h2; simp
    · simp [h1, h2]

theorem clean_eq_flatMap (s : Bytes) : clean s = s.flatMap cleanByte := by
  induction s with
  | nil => simp [clean_nil]
  | cons c s ih => rw [clean_cons, List.flatMap_cons, ih]

theorem cleanByte_ne_nil (c : Nat) : cleanByte c ≠ [] := by
  unfold cleanByte; repeat' split
  all_goals simp

theorem clean_injective (a b : Bytes) (h : clean a = clean b) : a = b := by
  induction a generalizing b with
  | nil =>
    cases b with
    | nil => rfl
    | cons y b =>
      rw [clean_nil, clean_cons] at h
      have := cleanByte_ne_nil y
      cases hc : cleanByte y with
      | nil => exact absurd hc this
      | cons _ _ => rw [hc] at h; simp at h
  | cons x a ih =>
    cases b with
    | nil =>
      rw [clean_nil, clean_cons] at h
      have := cleanByte_ne_nil x
      cases hc : cleanByte x with
      | nil => exact absurd hc this
      | cons _ _ => rw [hc] at h; simp at h
    | cons y b =>
      rw [clean_cons, clean_cons] at h
      unfold cleanByte at h
      by_cases hx1 : x = 95 <;> by_cases hx2 : x = 58 <;> by_cases hy1 : y = 95 <;> by_cases hy2 : y = 58 <;>
        simp [hx1, hx2, hy1, hy2] at h <;> (try omega)
      all_goals (first
        | (have := ih b h; subst this; simp_all)
        | (have := ih b h.2; subst this; simp_all; try omega)
        | (obtain ⟨h0, h1⟩ := h; omega))

theorem clean_no_colon (s : Bytes) : 58 ∉ clean s := by
  induction s with
  | nil => simp [clean_nil]
  | cons c s ih =>
    rw [clean_cons]; unfold cleanByte
    repeat' split
    all_goals simp [ih]
    all_goals omega

/-! ### splitting at a colon -/

theorem split_unique (x x' r r' : Bytes) (hx : 58 ∉ x) (hx' : 58 ∉ x')
    (h : x ++ 58 :: r = x' ++ 58 :: r') : x = x' ∧ r = r' := by
  induction x generalizing x' with
  | nil =>
    cases x' with
    | nil => simpa using h
    | cons c x' => simp at h hx'; omega
  | cons b x ih =>
    cases x' with
    | nil => simp at h hx; omega
    | cons c x' =>
      simp at h hx hx'
      have := ih x' (by simp [hx.2]) (by simp [hx'.2]) h.2
      simp [h.1, this]

theorem splitLast_none (s : Bytes) (h : 58 ∉ s) : splitLast s = none := by
  induction s with
  | nil => rfl
  | cons c s ih =>
    simp at h
    simp [splitLast, ih h.2]; omega

theorem splitLast_append (p s : Bytes) (h : 58 ∉ s) : splitLast (p ++ 58 :: s) = some (p, s) := by
  induction p with
  | nil => simp [splitLast, splitLast_none s h]
  | cons c p ih => simp [splitLast, ih]

theorem splitLast_some (t p s : Bytes) (h : splitLast t = some (p, s)) : t = p ++ 58 :: s ∧ 58 ∉ s := by
  induction t generalizing p s with
  | nil => simp [splitLast] at h
  | cons c t ih =>
    unfold splitLast at h
    cases hr : splitLast t with
    | some ps =>
      obtain ⟨p', s'⟩ := ps
      rw [hr] at h; simp at h
      obtain ⟨rfl, rfl⟩ := h
      have := ih p' s' hr
      simp [this.2]; exact this.1
    | none =>
      rw [hr] at h; simp at h
      obtain ⟨hc, rfl, rfl⟩ := h
      subst hc
      refine ⟨by simp, ?_⟩
      intro hm
      -- a colon in `t` would have made `splitLast t` succeed
      have : ∀ (u : Bytes), 58 ∈ u → splitLast u ≠ none := by
        intro u
        induction u with
        | nil => simp
        | cons d u ihu =>
          intro hd
          unfold splitLast
          cases hu : splitLast u with
          | some _ => simp
          | none =>
            simp at hd
            rcases hd with rfl | hd
            · simp
            · exact absurd hu (ihu hd)
      exact this t hm hr

/-! ### decimal rendering -/

theorem valRev_digitsRev (f n : Nat) (h : n < 10 ^ f) : valRev (digitsRev f n) = n := by
  induction f generalizing n with
  | zero =>
    have h0 : n = 0 := by have : (10:Nat) ^ 0 = 1 := rfl; omega
    subst h0; rfl
  | succ f ih =>
    unfold digitsRev
    by_cases hn : n < 10
    · simp [hn, valRev]
    · have hp : 10 ^ (f + 1) = 10 ^ f * 10 := by rw [Nat.pow_succ]
      have := ih (n / 10) (by omega)
      simp [hn, valRev, this]; omega

theorem digitsRev_digit (f n c : Nat) (h : c ∈ digitsRev f n) : 48 ≤ c ∧ c ≤ 57 := by
  induction f generalizing n with
  | zero => simp [digitsRev] at h
  | succ f ih =>
    unfold digitsRev at h
    simp at h
    rcases h with rfl | h
    · omega
    · exact ih _ h.2

theorem decNat_digit (n c : Nat) (h : c ∈ decNat n) : 48 ≤ c ∧ c ≤ 57 := by
  unfold decNat at h; simp at h; exact digitsRev_digit _ _ _ h

theorem decNat_ne_nil (n : Nat) : decNat n ≠ [] := by
  unfold decNat digitsRev; simp

theorem decNat_inj (n m : Nat) (hn : n < 10 ^ 20) (hm : m < 10 ^ 20) (h : decNat n = decNat m) : n = m := by
  unfold decNat at h
  rw [List.reverse_inj] at h
  have := congrArg valRev h
  rwa [valRev_digitsRev _ _ hn, valRev_digitsRev _ _ hm] at this

theorem decInt_no_colon (i : Int) : 58 ∉ decInt i := by
  unfold decInt
  split
  · intro h; simp at h; have := decNat_digit _ _ h; omega
  · intro h; have := decNat_digit _ _ h; omega

theorem decInt_inj (i j : Int) (hi : i.natAbs < 10 ^ 20) (hj : j.natAbs < 10 ^ 20)
    (h : decInt i = decInt j) : i = j := by
  unfold decInt at h
  by_cases h1 : i < 0 <;> by_cases h2 : j < 0 <;> simp [h1, h2] at h
  · have := decNat_inj _ _ hi hj h; omega
  · have : 45 ∈ decNat j.natAbs := by rw [← h]; simp
    have := decNat_digit _ _ this; omega
  · have : 45 ∈ decNat i.natAbs := by rw [h]; simp
    have := decNat_digit _ _ this; omega
  · have := decNat_inj _ _ hi hj h; omega

theorem parse_decNat (n : Nat) (hn : n < 10 ^ 20) :
    (decNat n).isEmpty = false ∧ (decNat n).all isDigit = true ∧ valRev (decNat n).reverse = n := by
  refine ⟨?_, ?_, ?_⟩
  · have := decNat_ne_nil n
    cases h : decNat n with
    | nil => exact absurd h this
    | cons _ _ => rfl
  · rw [List.all_eq_true]; intro c hc
    have := decNat_digit _ _ hc
    simp [isDigit]; omega
  · unfold decNat; rw [List.reverse_reverse]; exact valRev_digitsRev _ _ hn

/-- `ParseInt(fmt.Sprintf("%d", i), 10, 64) = i` for every int64. -/
theorem parseInt64_decInt (i : Int) (hlo : -9223372036854775808 ≤ i) (hhi : i ≤ 9223372036854775807) :
    parseInt64 (decInt i) = some i := by
  have hb : i.natAbs < 10 ^ 20 := by omega
  obtain ⟨he, ha, hv⟩ := parse_decNat i.natAbs hb
  unfold decInt
  by_cases hneg : i < 0
  · simp only [hneg, if_true]
    unfold parseInt64
    simp [he, ha, hv]
    omega
  · simp only [hneg, if_false]
    cases hd : decNat i.natAbs with
    | nil => rw [hd] at he; simp at he
    | cons c r =>
      have hc : 48 ≤ c ∧ c ≤ 57 := decNat_digit i.natAbs c (by rw [hd]; simp)
      unfold parseInt64
      have h43 : ¬ (c = 43 ∨ c = 45) := by omega
      have h45 : ¬ c = 45 := by omega
      rw [hd] at he ha hv
      have h43' : ¬ c = 43 := by omega
      simp only [h45, h43', decide_false, or_self, if_false]
      rw [hv]
      simp [ha]
      omega

end NetVerif.Proofs.Lemmas.XsrfStrings
