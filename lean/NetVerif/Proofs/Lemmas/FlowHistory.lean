import NetVerif.Proofs.Lemmas.Flow
/-!
Histories of `inflow` operations: the ledger that C10 speaks about.
`Op.take n` is the receipt of `n` flow-controlled bytes (accepted or refused by
`inflow.take`), `Op.add n` is the return of `n` bytes of credit (`inflow.add`).
-/
namespace NetVerif.Proofs.Flow
open NetVerif.Model.Flow

inductive Op where
  | take (n : Nat)   -- peer sent n flow-controlled bytes (uint32)
  | add (n : Int)    -- n bytes consumed / discarded / padding: credit returned
deriving Repr, DecidableEq

/-- Ledger of one inbound window. -/
structure Ledger where
  f : Inflow
  /-- Σ bytes accepted by `take` -/
  taken : Int
  /-- Σ credit handed to `add` -/
  added : Int
  /-- Σ WINDOW_UPDATE increments returned by `add` (what the peer has been told) -/
  sent : Int
  /-- greatest advertised window seen so far -/
  peak : Int
deriving Repr, DecidableEq

def Ledger.start (n : Int) : Ledger := ⟨Inflow.new n, 0, 0, 0, n⟩

/-- One operation; `none` is the Go panic inside `add`. -/
def Ledger.step (s : Ledger) : Op → Option Ledger
  | .take n =>
    let r := s.f.take n
    some { s with f := r.2, taken := if r.1 then s.taken + n else s.taken }
  | .add n =>
    match s.f.add n with
    | none => none
    | some (r, f') => some { s with f := f', added := s.added + n, sent := s.sent + r,
                                    peak := if f'.avail > s.peak then f'.avail else s.peak }

def Ledger.run (s : Ledger) : List Op → Option Ledger
  | [] => some s
  | op :: rest => match s.step op with
    | none => none
    | some s' => s'.run rest

/-- Invariant carried through every history. -/
structure Inv (n0 : Int) (s : Ledger) : Prop where
  wf : s.f.WF
  /-- conservation: nothing is lost or invented -/
  cons : s.f.avail + s.f.unsent + s.taken = n0 + s.added
  /-- the peer's view (initial − accepted DATA + WINDOW_UPDATEs) is exactly `avail` -/
  view : n0 - s.taken + s.sent = s.f.avail
  /-- the withheld credit is exactly `unsent` -/
  held : s.added - s.sent = s.f.unsent
  peak : s.f.avail ≤ s.peak ∧ s.peak ≤ maxWindow
  nonneg : 0 ≤ s.taken ∧ 0 ≤ s.added ∧ 0 ≤ s.sent

theorem inv_start (n0 : Int) (h0 : 0 ≤ n0) (h1 : n0 ≤ maxWindow) : Inv n0 (Ledger.start n0) := by
  constructor <;> simp [Ledger.start, Inflow.new, Inflow.init, Inflow.WF] <;> omega

theorem inv_step (n0 : Int) (s s' : Ledger) (op : Op) (hi : Inv n0 s) (h : s.step op = some s') :
    Inv n0 s' := by
  cases op with
  | take n =>
    simp only [Ledger.step, Option.some.injEq] at h
    subst h
    have ts := take_spec s.f n
    have tw := take_wf s.f n (by omega) hi.wf
    obtain ⟨wf, cons, view, held, peak, nonneg⟩ := hi
    cases hb : (s.f.take n).1 with
    | true =>
      have e := ts.2.1 hb
      have hle : (n : Int) ≤ s.f.avail := ts.1.mp hb
      constructor
      · exact tw
      all_goals (simp only [e, if_true]; omega)
    | false =>
      have e := ts.2.2 hb
      constructor
      · exact tw
      all_goals (simp only [e, Bool.false_eq_true, if_false]; omega)
  | add n =>
    simp only [Ledger.step] at h
    cases ha : s.f.add n with
    | none => simp [ha] at h
    | some rf =>
      obtain ⟨r, f'⟩ := rf
      simp only [ha, Option.some.injEq] at h
      subst h
      have sp := add_spec s.f f' n r ha
      have aw := add_wf s.f f' n r hi.wf ha
      obtain ⟨wf, cons, view, held, peak, nonneg⟩ := hi
      have hw := aw.1
      unfold Inflow.WF at hw
      constructor
      · exact aw.1
      · simp only; omega
      · simp only; omega
      · simp only; rcases sp.2.2.2.2 with h1 | h1 <;> omega
      · simp only; split <;> omega
      · simp only; omega

theorem inv_run (n0 : Int) (ops : List Op) (s s' : Ledger) (hi : Inv n0 s) (h : s.run ops = some s') :
    Inv n0 s' := by
  induction ops generalizing s with
  | nil => simp [Ledger.run] at h; subst h; exact hi
  | cons op rest ih =>
    simp only [Ledger.run] at h
    cases hs : s.step op with
    | none => simp [hs] at h
    | some s1 =>
      simp only [hs] at h
      exact ih s1 (inv_step n0 s s1 op hi hs) h

/-- Contract of a history without over-refunds: at every point no more credit has been
handed back than has been received. -/
def NoOverRefund (s : Ledger) : List Op → Prop
  | [] => True
  | op :: rest => match s.step op with
    | none => True
    | some s' => s'.added ≤ s'.taken ∧ NoOverRefund s' rest

/-- Quiescence invariant: whenever everything received has been returned, the residue
satisfies both batching bounds. -/
def QInv (s : Ledger) : Prop :=
  s.added ≤ s.taken ∧
  (s.added = s.taken → s.f.unsent = 0 ∨ (s.f.unsent < inflowMinRefresh ∧ s.f.unsent < s.f.avail))

theorem qinv_step (n0 : Int) (s s' : Ledger) (op : Op) (_hi : Inv n0 s) (hq : QInv s)
    (h : s.step op = some s') (hc : s'.added ≤ s'.taken) : QInv s' := by
  refine ⟨hc, ?_⟩
  cases op with
  | take n =>
    simp only [Ledger.step, Option.some.injEq] at h
    subst h
    have ts := take_spec s.f n
    cases hb : (s.f.take n).1 with
    | true =>
      simp only [if_true]
      intro he
      -- taken grew by n while added ≤ taken before: so n = 0 and nothing changed
      have hn : (n : Int) = 0 := by have := hq.1; omega
      have e := ts.2.1 hb
      rw [e]
      simp only [hn, Int.sub_zero]
      exact hq.2 (by omega)
    | false =>
      have e := ts.2.2 hb
      simp only [e]
      intro he
      exact hq.2 (by simpa using he)
  | add n =>
    simp only [Ledger.step] at h
    cases ha : s.f.add n with
    | none => simp [ha] at h
    | some rf =>
      obtain ⟨r, f'⟩ := rf
      simp only [ha, Option.some.injEq] at h
      subst h
      intro _
      exact add_residue s.f f' n r ha

theorem qinv_run (n0 : Int) (ops : List Op) (s s' : Ledger) (hi : Inv n0 s) (hq : QInv s)
    (hc : NoOverRefund s ops) (h : s.run ops = some s') : QInv s' := by
  induction ops generalizing s with
  | nil => simp [Ledger.run] at h; subst h; exact hq
  | cons op rest ih =>
    simp only [Ledger.run] at h
    cases hs : s.step op with
    | none => simp [hs] at h
    | some s1 =>
      simp only [hs] at h
      simp only [NoOverRefund, hs] at hc
      exact ih s1 (inv_step n0 s s1 op hi hs) (qinv_step n0 s s1 op hi hq hs hc.1) hc.2 h

end NetVerif.Proofs.Flow
