import NetVerif.Model.FS
/-! Path-prefix and filter lemmas for the filesystem model (used by C44 and C46). -/
namespace NetVerif.Proofs.Lemmas.FS
open NetVerif.Model.FS

theorem under_iff {p q : Path} : under p q = true ↔ p <+: q := by
  simp [under]

theorem under_refl (p : Path) : under p p = true := by simp [under_iff]

theorem under_trans {a b c : Path} (h1 : under a b = true) (h2 : under b c = true) : under a c = true := by
  rw [under_iff] at *; exact List.IsPrefix.trans h1 h2

theorem under_append (p x : Path) : under p (p ++ x) = true := by
  rw [under_iff]; exact List.prefix_append p x

theorem under_nil (p : Path) : under [] p = true := by simp [under_iff]

/-- Two prefixes of the same path are comparable. -/
theorem under_comparable {a b c : Path} (h1 : under a c = true) (h2 : under b c = true) :
    under a b = true ∨ under b a = true := by
  simp only [under_iff] at *
  exact List.prefix_or_prefix_of_prefix h1 h2

/-- Below `s`, nothing is at or below an incomparable `d`. -/
theorem not_under_of_incomparable {s d p : Path} (h1 : under d s = false) (h2 : under s d = false)
    (hp : under s p = true) : under d p = false := by
  cases h : under d p with
  | false => rfl
  | true =>
    rcases under_comparable hp h with h' | h'
    · rw [h'] at h2; cases h2
    · rw [h'] at h1; cases h1

/-! ### `outside` / `sub` -/

theorem outside_append (p : Path) (a b : Tree) : outside p (a ++ b) = outside p a ++ outside p b := by
  simp [outside]

theorem sub_append (a b : Tree) (p : Path) : sub (a ++ b) p = sub a p ++ sub b p := by
  simp [sub]

/-- Removing a subtree below `d0` is invisible outside `d0`. -/
theorem outside_outside_of_under {d0 d : Path} (h : under d0 d = true) (t : Tree) :
    outside d0 (outside d t) = outside d0 t := by
  unfold outside
  rw [List.filter_filter]
  apply List.filter_congr
  intro e _
  cases hd : under d e.1 with
  | false => simp
  | true => simp [under_trans h hd]

theorem outside_singleton_under {d0 d : Path} (h : under d0 d = true) (e : Entry) :
    outside d0 [(d, e)] = [] := by
  simp [outside, h]

theorem outside_map_replace {d0 p : Path} (h : under d0 p = true) (t : Tree) (e : Entry) :
    outside d0 (t.map (fun x => if x.1 = p then (p, e) else x)) = outside d0 t := by
  unfold outside
  induction t with
  | nil => rfl
  | cons x xs ih =>
    simp only [List.map_cons, List.filter_cons]
    by_cases hx : x.1 = p
    · rw [ih]; simp [hx, h]
    · rw [ih]; simp [hx]

theorem outside_setEntry {d0 p : Path} (h : under d0 p = true) (t : Tree) (e : Entry) :
    outside d0 (setEntry t p e) = outside d0 t := by
  unfold setEntry
  split
  · exact outside_map_replace h t e
  · rw [outside_append, outside_singleton_under h]; simp

/-- Entries below `s` survive the removal of an incomparable subtree. -/
theorem sub_outside_incomparable {s d : Path} (h1 : under d s = false) (h2 : under s d = false) (t : Tree) :
    sub (outside d t) s = sub t s := by
  unfold sub outside
  rw [List.filter_filter]
  apply List.filter_congr
  intro e _
  cases hs : under s e.1 with
  | false => simp
  | true => simp [not_under_of_incomparable h1 h2 hs]

theorem sub_outside_self (s : Path) (t : Tree) : sub (outside s t) s = [] := by
  unfold sub outside
  rw [List.filter_filter, List.filter_eq_nil_iff]
  intro e _
  cases under s e.1 <;> simp

theorem sub_rebase_dst (a b : Path) (es : Tree) : sub (rebase a b es) b = rebase a b es := by
  unfold sub rebase
  rw [List.filter_eq_self]
  intro e he
  simp only [List.mem_map] at he
  obtain ⟨x, _, rfl⟩ := he
  exact under_append b _

theorem sub_rebase_incomparable {a b : Path} (h1 : under b a = false) (h2 : under a b = false) (es : Tree) :
    sub (rebase a b es) a = [] := by
  unfold sub rebase
  rw [List.filter_eq_nil_iff]
  intro e he
  simp only [List.mem_map] at he
  obtain ⟨x, _, rfl⟩ := he
  have := not_under_of_incomparable (s := b) (d := a) (p := b ++ List.drop a.length x.1) h2 h1 (under_append b _)
  simp [this]

end NetVerif.Proofs.Lemmas.FS
