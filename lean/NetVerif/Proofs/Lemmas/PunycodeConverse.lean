import NetVerif.Proofs.Lemmas.PunycodeString
/-! `encode (decode a) = a` up to ASCII case: a monotone insertion sequence is determined by its result. -/
set_option linter.unusedSimpArgs false
set_option linter.unusedVariables false

namespace NetVerif.Proofs.Lemmas.PunycodeConverse
open NetVerif.Model.Punycode NetVerif.Proofs.Lemmas.Punycode NetVerif.Proofs.Lemmas.PunycodeString

/-- One round of the decoder loop as a function of the delta. -/
def stepD (d : DecSt) (delta : Nat) : DecSt :=
  { out := insertAt ((d.i + delta) % (d.out.length + 1)) (d.n + (d.i + delta) / (d.out.length + 1)) d.out,
    i := (d.i + delta) % (d.out.length + 1) + 1,
    n := d.n + (d.i + delta) / (d.out.length + 1),
    bias := adapt delta (d.out.length + 1) (d.i == 0) }

def replay (d : DecSt) : List Nat → DecSt
  | [] => d
  | x :: xs => replay (stepD d x) xs

/-- The canonical (lower-case) digit string of a delta sequence from a decoder state. -/
def canon (d : DecSt) : List Nat → List Nat
  | [] => []
  | x :: xs => encodeVar d.bias base x ++ canon (stepD d x) xs

/-- The checks the decoder makes in every round. -/
def stepsOK (d : DecSt) : List Nat → Prop
  | [] => True
  | x :: xs => d.out.length < maxOutput ∧ d.n + (d.i + x) / (d.out.length + 1) ≤ maxRune ∧
      stepsOK (stepD d x) xs

/-- Every run of the decoder loop is the replay of a delta sequence whose canonical digit string is
the input up to the case of the digits. -/
theorem run_of_decode : ∀ (fuel : Nat) (D : List Nat) (d : DecSt) (u : List Nat),
    decodeLoop fuel D d.out d.i d.n d.bias = some u →
    ∃ ds, D.map lowerAscii = canon d ds ∧ (replay d ds).out = u ∧ stepsOK d ds
  | _, [], d, u, h => by
    rw [decodeLoop_nil] at h
    exact ⟨[], by simp [canon], by simpa [replay] using h, trivial⟩
  | 0, c :: cs, d, u, h => by simp [decodeLoop] at h
  | fuel + 1, c :: cs, d, u, h => by
    simp only [decodeLoop] at h
    cases hv : decodeVar d.bias base d.i 1 (c :: cs) with
    | none => simp [hv] at h
    | some r =>
      obtain ⟨i', rest⟩ := r
      simp only [hv] at h
      obtain ⟨q, dg, hsplit, hi', hdg⟩ := varint_canonical _ _ _ _ _ _ _ hv
      simp only [Nat.mul_one] at hi'
      by_cases h1 : d.out.length ≥ maxOutput
      · simp [h1] at h
      · rw [if_neg h1] at h
        by_cases h2 : d.n + i' / (d.out.length + 1) > maxRune
        · simp [h2] at h
        · rw [if_neg h2] at h
          subst hi'
          simp only [Nat.add_sub_cancel_left] at h
          obtain ⟨ds, hc, hr, hok⟩ := run_of_decode fuel rest (stepD d q) u h
          refine ⟨q :: ds, ?_, by simpa [replay] using hr, ⟨by omega, by omega, hok⟩⟩
          rw [hsplit, List.map_append, hdg, hc]
          rfl

/-! ### the insertion sequence is monotone, hence determined by its result -/

def Sorted (d : DecSt) : Prop :=
  d.i ≤ d.out.length ∧ (∀ x ∈ d.out, x ≤ d.n) ∧ (∀ x ∈ d.out.drop d.i, x < d.n)

theorem insertAt_length (p n : Nat) (l : List Nat) (hp : p ≤ l.length) :
    (insertAt p n l).length = l.length + 1 := by
  simp [insertAt]; omega

theorem drop_insertAt (p n : Nat) (l : List Nat) (hp : p ≤ l.length) :
    (insertAt p n l).drop (p + 1) = l.drop p := by
  unfold insertAt
  have hA : (l.take p).length = p := by rw [List.length_take]; omega
  rw [List.drop_append, List.drop_eq_nil_of_le (by omega), hA]
  simp

/-- What one decoder round does to the invariant: the new element is at least every old element,
and strictly above everything to its right. -/
theorem step_facts (d : DecSt) (delta : Nat) (hs : Sorted d) :
    (d.i + delta) % (d.out.length + 1) ≤ d.out.length ∧
    (∀ x ∈ d.out, x ≤ d.n + (d.i + delta) / (d.out.length + 1)) ∧
    (∀ x ∈ d.out.drop ((d.i + delta) % (d.out.length + 1)),
      x < d.n + (d.i + delta) / (d.out.length + 1)) := by
  obtain ⟨h1, h2, h3⟩ := hs
  have hx : 0 < d.out.length + 1 := by omega
  have hp : (d.i + delta) % (d.out.length + 1) < d.out.length + 1 := Nat.mod_lt _ hx
  refine ⟨by omega, fun x hx' => Nat.le_trans (h2 x hx') (Nat.le_add_right _ _), ?_⟩
  intro x hx'
  by_cases hq : (d.i + delta) / (d.out.length + 1) = 0
  · have hlt : d.i + delta < d.out.length + 1 := by
      rcases Nat.div_eq_zero_iff.mp hq with h | h <;> omega
    rw [Nat.mod_eq_of_lt hlt] at hx'
    have : d.out.drop (d.i + delta) = (d.out.drop d.i).drop delta := by rw [List.drop_drop]
    rw [this] at hx'
    have := h3 x (List.mem_of_mem_drop hx')
    omega
  · have := h2 x (List.mem_of_mem_drop hx')
    have : 0 < (d.i + delta) / (d.out.length + 1) := Nat.pos_of_ne_zero hq
    omega

theorem sorted_step (d : DecSt) (delta : Nat) (hs : Sorted d) : Sorted (stepD d delta) := by
  obtain ⟨hp, hle, hlt⟩ := step_facts d delta hs
  refine ⟨?_, ?_, ?_⟩
  · simp only [stepD]; rw [insertAt_length _ _ _ hp]; omega
  · intro x hx
    simp only [stepD, insertAt, List.mem_append, List.mem_cons] at hx ⊢
    rcases hx with hx | hx | hx
    · exact hle x (List.mem_of_mem_take hx)
    · omega
    · exact hle x (List.mem_of_mem_drop hx)
  · intro x hx
    simp only [stepD] at hx ⊢
    rw [drop_insertAt _ _ _ hp] at hx
    exact hlt x hx

theorem sorted_replay : ∀ (ds : List Nat) (d : DecSt), Sorted d → Sorted (replay d ds)
  | [], _, h => h
  | x :: xs, d, h => sorted_replay xs (stepD d x) (sorted_step d x h)

theorem replay_append : ∀ (xs : List Nat) (d : DecSt) (y : Nat),
    replay d (xs ++ [y]) = stepD (replay d xs) y
  | [], _, _ => rfl
  | x :: xs, d, y => replay_append xs (stepD d x) y

theorem replay_length : ∀ (ds : List Nat) (d : DecSt), Sorted d →
    (replay d ds).out.length = d.out.length + ds.length
  | [], _, _ => by simp [replay]
  | x :: xs, d, h => by
    have hp := (step_facts d x h).1
    rw [replay, replay_length xs _ (sorted_step d x h)]
    simp only [stepD]
    rw [insertAt_length _ _ _ hp]
    simp; omega

/-- The last insertion can be read off the result: the value is the maximum, the position the last
occurrence of the maximum. -/
theorem last_insert_unique : ∀ (l l' : List Nat) (p p' n n' : Nat),
    insertAt p n l = insertAt p' n' l' → p ≤ l.length → p' ≤ l'.length →
    (∀ x ∈ l, x ≤ n) → (∀ x ∈ l.drop p, x < n) → (∀ x ∈ l', x ≤ n') → (∀ x ∈ l'.drop p', x < n') →
    p = p' ∧ n = n' ∧ l = l'
  | l, l', 0, 0, n, n', h, _, _, _, _, _, _ => by
    simp [insertAt] at h; exact ⟨rfl, h.1, h.2⟩
  | l, [], 0, p' + 1, n, n', h, _, hp', _, _, _, _ => by simp at hp'
  | l, y :: l', 0, p' + 1, n, n', h, _, hp', _, hd, hle', _ => by
    simp only [insertAt, List.take_zero, List.drop_zero, List.nil_append, List.take_succ_cons,
      List.drop_succ_cons, List.cons_append, List.cons.injEq] at h
    obtain ⟨hny, hl⟩ := h
    have hn'mem : n' ∈ l := by rw [hl]; simp
    have h1 := hd n' (by simpa using hn'mem)
    have h2 := hle' y (by simp)
    omega
  | [], l', p + 1, _, n, n', h, hp, _, _, _, _, _ => by simp at hp
  | y :: l, l', p + 1, 0, n, n', h, hp, _, hle, _, _, hd' => by
    simp only [insertAt, List.take_zero, List.drop_zero, List.nil_append, List.take_succ_cons,
      List.drop_succ_cons, List.cons_append, List.cons.injEq] at h
    obtain ⟨hny, hl⟩ := h
    have hnmem : n ∈ l' := by rw [← hl]; simp
    have h1 := hd' n (by simpa using hnmem)
    have h2 := hle y (by simp)
    omega
  | y :: l, [], p + 1, p' + 1, n, n', h, _, hp', _, _, _, _ => by simp at hp'
  | y :: l, y' :: l', p + 1, p' + 1, n, n', h, hp, hp', hle, hd, hle', hd' => by
    simp only [insertAt, List.take_succ_cons, List.drop_succ_cons, List.cons_append,
      List.cons.injEq] at h
    obtain ⟨hy, hl⟩ := h
    have := last_insert_unique l l' p p' n n' (by simpa [insertAt] using hl)
      (by simpa using hp) (by simpa using hp')
      (fun x hx => hle x (by simp [hx])) (by simpa using hd)
      (fun x hx => hle' x (by simp [hx])) (by simpa using hd')
    obtain ⟨h1, h2, h3⟩ := this
    exact ⟨by omega, h2, by rw [hy, h3]⟩

theorem replay_inj : ∀ (k : Nat) (xs ys : List Nat) (d : DecSt), Sorted d →
    xs.length = k → ys.length = k → (replay d xs).out = (replay d ys).out → xs = ys
  | 0, xs, ys, _, _, hx, hy, _ => by
    rw [List.length_eq_zero_iff.mp hx, List.length_eq_zero_iff.mp hy]
  | k + 1, xs, ys, d, hs, hx, hy, h => by
    rcases List.eq_nil_or_concat xs with rfl | ⟨xs0, x, rfl⟩
    · simp at hx
    rcases List.eq_nil_or_concat ys with rfl | ⟨ys0, y, rfl⟩
    · simp at hy
    have hx' : xs0.length = k := by simpa using hx
    have hy' : ys0.length = k := by simpa using hy
    simp only [List.concat_eq_append] at h ⊢
    rw [replay_append, replay_append] at h
    have se := sorted_replay xs0 d hs
    have se' := sorted_replay ys0 d hs
    obtain ⟨hp, hle, hlt⟩ := step_facts (replay d xs0) x se
    obtain ⟨hp', hle', hlt'⟩ := step_facts (replay d ys0) y se'
    obtain ⟨e1, e2, e3⟩ := last_insert_unique _ _ _ _ _ _ h hp hp' hle hlt hle' hlt'
    have h0 := replay_inj k xs0 ys0 d hs hx' hy' e3
    subst h0
    have hdm1 := Nat.div_add_mod ((replay d xs0).i + x) ((replay d xs0).out.length + 1)
    have hdm2 := Nat.div_add_mod ((replay d xs0).i + y) ((replay d xs0).out.length + 1)
    have e2' : ((replay d xs0).i + x) / ((replay d xs0).out.length + 1) =
        ((replay d xs0).i + y) / ((replay d xs0).out.length + 1) := by omega
    rw [e1, e2'] at hdm1
    have : x = y := by omega
    rw [this]

theorem bound_replay : ∀ (ds : List Nat) (d : DecSt), stepsOK d ds → Sorted d →
    (∀ x ∈ d.out, x ≤ maxRune) → ∀ x ∈ (replay d ds).out, x ≤ maxRune
  | [], _, _, _, h => h
  | y :: ys, d, hok, hs, h => by
    obtain ⟨_, hn, hok'⟩ := hok
    apply bound_replay ys (stepD d y) hok' (sorted_step d y hs)
    intro x hx
    simp only [stepD, insertAt, List.mem_append, List.mem_cons] at hx
    rcases hx with hx | hx | hx
    · exact h x (List.mem_of_mem_take hx)
    · omega
    · exact h x (List.mem_of_mem_drop hx)

theorem len_replay : ∀ (ds : List Nat) (d : DecSt), stepsOK d ds → ds ≠ [] → Sorted d →
    (replay d ds).out.length ≤ maxOutput
  | [], _, _, hne, _ => by simp at hne
  | y :: ys, d, hok, _, hs => by
    obtain ⟨hl, _, hok'⟩ := hok
    by_cases hys : ys = []
    · subst hys
      have hp := (step_facts d y hs).1
      simp only [replay, stepD]
      rw [insertAt_length _ _ _ hp]; omega
    · exact len_replay ys (stepD d y) hok' hys (sorted_step d y hs)

theorem filter_replay : ∀ (ds : List Nat) (d : DecSt), 128 ≤ d.n →
    (replay d ds).out.filter (fun r => decide (r < 128)) = d.out.filter (fun r => decide (r < 128))
  | [], _, _ => rfl
  | y :: ys, d, hn => by
    rw [replay, filter_replay ys (stepD d y) (Nat.le_trans hn (Nat.le_add_right _ _))]
    simp only [stepD, insertAt, List.filter_append, List.filter_cons]
    have : ¬ d.n + (d.i + y) / (d.out.length + 1) < 128 := by
      have := Nat.le_add_right d.n ((d.i + y) / (d.out.length + 1)); omega
    simp only [this, decide_false, Bool.false_eq_true, if_false]
    rw [← List.filter_append, List.take_append_drop]

theorem canon_nil_iff (d : DecSt) (ds : List Nat) (h : canon d ds = []) : ds = [] := by
  cases ds with
  | nil => rfl
  | cons x xs =>
    simp only [canon, List.append_eq_nil_iff] at h
    exact absurd h.1 (encodeVar_ne_nil _ _ _)

/-- The encoder on `s`, with the decoder replaying its digits (first half of `decodeRunes_encode`). -/
theorem encode_run (s : List Nat) (hs : ∀ r ∈ s, r ≤ maxRune) (hlen : s.length ≤ maxOutput) :
    ∃ a E, encode [] s = some a ∧
      a = s.filter (fun x => decide (x < 128)) ++
        (if (s.filter (fun x => decide (x < 128))).length > 0 then [hyphen] else []) ++ E ∧
      decodeAll E { out := s.filter (fun x => decide (x < 128)), i := 0, n := initialN, bias := initialBias }
        = some s := by
  unfold encode
  simp only [List.nil_append]
  obtain ⟨B, hB⟩ : ∃ B, s.filter (fun x => decide (x < 128)) = B := ⟨_, rfl⟩
  rw [hB]
  have inv0 : InvO B.length initialN s
      { delta := 0, h := B.length, bias := initialBias,
        out := B ++ (if B.length > 0 then [hyphen] else []) }
      { out := B, i := 0, n := initialN, bias := initialBias } := {
    out := by simp only [initialN]; exact hB.symm
    h := rfl, bias := rfl, nle := Nat.le_refl _
    pos := by simp
    hb := Nat.le_refl _
    first := by simp }
  obtain ⟨a', E, henc, ha, _, hdec⟩ := outer s B.length hs hlen s.length _ _ _ (by simp) inv0
  exact ⟨a', E, henc, ha, hdec⟩

theorem lowerAscii_hyphen : lowerAscii hyphen = hyphen := by decide

/-- Reverse direction on a run of the delta loop: re-encoding the result reproduces the digits up to
their case. -/
theorem converse_run (lit D u : List Nat) (hlit : ∀ c ∈ lit, c < 128) (hD : D ≠ [])
    (hrun : decodeLoop D.length D lit 0 initialN initialBias = some u) :
    ∃ a' E, encode [] u = some a' ∧
      a' = lit ++ (if lit.length > 0 then [hyphen] else []) ++ E ∧
      E.map lowerAscii = D.map lowerAscii := by
  obtain ⟨ds, hc, hr, hok⟩ := run_of_decode D.length D
    { out := lit, i := 0, n := initialN, bias := initialBias } u hrun
  have hs0 : Sorted { out := lit, i := 0, n := initialN, bias := initialBias } := by
    refine ⟨Nat.zero_le _, ?_, ?_⟩
    · intro x hx; have := hlit x hx; simp only [initialN]; omega
    · intro x hx; have := hlit x (by simpa using hx); simp only [initialN]; omega
  have hdsne : ds ≠ [] := by
    intro hds
    rw [hds] at hc
    simp only [canon, List.map_eq_nil_iff] at hc
    exact hD hc
  have hsu : ∀ r ∈ u, r ≤ maxRune := by
    rw [← hr]
    exact bound_replay ds _ hok hs0 (fun x hx => by have := hlit x hx; unfold maxRune; omega)
  have hlu : u.length ≤ maxOutput := by rw [← hr]; exact len_replay ds _ hok hdsne hs0
  have hfil : u.filter (fun r => decide (r < 128)) = lit := by
    rw [← hr, filter_replay ds _ (by simp [initialN])]
    exact List.filter_eq_self.mpr (fun x hx => by simpa using hlit x hx)
  obtain ⟨a', E, henc, ha, hdec⟩ := encode_run u hsu hlu
  rw [hfil] at ha hdec
  unfold decodeAll at hdec
  obtain ⟨ds', hc', hr', _⟩ := run_of_decode E.length E
    { out := lit, i := 0, n := initialN, bias := initialBias } u hdec
  have hl1 := replay_length ds _ hs0
  have hl2 := replay_length ds' _ hs0
  rw [hr] at hl1
  rw [hr'] at hl2
  have hinj := replay_inj ds.length ds ds' _ hs0 rfl (by simp only at hl1 hl2; omega) (by rw [hr, hr'])
  refine ⟨a', E, henc, ha, ?_⟩
  rw [hc', hc, hinj]

theorem splitLast_some : ∀ (a b D : List Nat), splitLast a = some (b, D) → a = b ++ hyphen :: D
  | [], _, _, h => by simp [splitLast] at h
  | c :: cs, b, D, h => by
    unfold splitLast at h
    cases hs : splitLast cs with
    | some r =>
      obtain ⟨b', D'⟩ := r
      simp only [hs, Option.some.injEq, Prod.mk.injEq] at h
      rw [← h.1, ← h.2, splitLast_some cs b' D' hs]; rfl
    | none =>
      simp only [hs] at h
      split at h
      · rename_i hc
        simp only [Option.some.injEq, Prod.mk.injEq] at h
        rw [← h.1, ← h.2, hc]; rfl
      · simp at h

/-- FULL converse: whatever `decode` accepts re-encodes to the same string up to ASCII case. -/
theorem encode_decodeRunes (a u : List Nat) (h : decodeRunes a = some u) :
    ∃ a', encode [] u = some a' ∧ a'.map lowerAscii = a.map lowerAscii := by
  unfold decodeRunes at h
  by_cases ha : a = []
  · subst ha
    simp only [if_true, Option.some.injEq] at h
    subst h
    exact ⟨[], by simpa using (decode_encode_ascii [] (by simp)).1, rfl⟩
  · rw [if_neg ha] at h
    cases hsl : splitLast a with
    | none =>
      simp only [hsl] at h
      obtain ⟨a', E, henc, ha', hE⟩ := converse_run [] a u (by simp) ha h
      refine ⟨a', henc, ?_⟩
      rw [ha']; simpa using hE
    | some r =>
      obtain ⟨b, D⟩ := r
      have hspl := splitLast_some a b D hsl
      simp only [hsl] at h
      by_cases hb : b = []
      · simp [hb] at h
      · rw [if_neg hb] at h
        by_cases hasc : isAscii b = true
        · simp only [hasc, Bool.not_true, Bool.false_eq_true, if_false] at h
          have hlit : ∀ c ∈ b, c < 128 := by
            intro c hc
            have := List.all_eq_true.mp hasc c hc
            simpa using this
          by_cases hD : D = []
          · simp only [hD, if_true, Option.some.injEq] at h
            subst h
            have := (decode_encode_ascii b hlit).1
            rw [if_neg hb] at this
            exact ⟨b ++ [hyphen], this, by rw [hspl, hD]⟩
          · rw [if_neg hD] at h
            obtain ⟨a', E, henc, ha', hE⟩ := converse_run b D u hlit hD h
            refine ⟨a', henc, ?_⟩
            have hbl : b.length > 0 := by cases b <;> simp_all
            rw [ha', hspl, if_pos hbl]
            simp [hE, lowerAscii_hyphen]
        · simp [hasc] at h

end NetVerif.Proofs.Lemmas.PunycodeConverse
