import NetVerif.Model.Qpack
/-! Helper lemmas for C33/C35: how the stream primitives advance over known bytes. -/
namespace NetVerif.Proofs.QpackBasic
open NetVerif.Model.H3Stream NetVerif.Model.Qpack

/-- `s'` is `s` after successfully consuming `n` bytes inside a frame (allocs unconstrained). -/
structure Adv (s : St) (n : Nat) (s' : St) : Prop where
  data : s'.data = s.data.drop n
  primed : s'.primed = true
  dead : s'.dead = false
  lim : s'.lim = s.lim - n

theorem Adv.refl (s : St) (hp : s.primed = true) (hd : s.dead = false) : Adv s 0 s :=
  ⟨by simp, hp, hd, by simp⟩

theorem Adv.trans {s s1 s2 : St} {a b : Nat} (h1 : Adv s a s1) (h2 : Adv s1 b s2) : Adv s (a + b) s2 :=
  ⟨by rw [h2.data, h1.data, List.drop_drop], h2.primed, h2.dead, by rw [h2.lim, h1.lim]; omega⟩

theorem readByte_cons (s : St) (b : Nat) (t : List Nat) (hd : s.dead = false) (hdata : s.data = b :: t)
    (hlim : 1 ≤ s.lim) : ∃ s', readByte s = .ok b s' ∧ Adv s 1 s' ∧ s'.allocs = s.allocs := by
  unfold readByte recordBytesRead
  have h1 : ¬ s.lim < 0 := by omega
  have h2 : ¬ s.lim - ((1 : Nat) : Int) < 0 := by omega
  simp only [h1, h2, if_false]
  unfold qsReadByte
  simp [hd, hdata]
  exact ⟨by simp [hdata], rfl, rfl, rfl⟩

/-! ### Uvarint -/

theorem appendUvarint_lt (v : Nat) (h : v < 128) : appendUvarint v = [v] := by
  rw [appendUvarint]; simp [h]

theorem appendUvarint_ge (v : Nat) (h : ¬ v < 128) :
    appendUvarint v = (v % 128 + 128) :: appendUvarint (v / 128) := by
  rw [appendUvarint]; simp [h]

theorem appendUvarint_length_le (k : Nat) : ∀ v, 1 ≤ k → v < 128 ^ k → (appendUvarint v).length ≤ k := by
  induction k with
  | zero => intro v h; omega
  | succ k ih =>
    intro v _ hv
    by_cases h : v < 128
    · rw [appendUvarint_lt v h]; simp
    · rw [appendUvarint_ge v h]
      have hk : 1 ≤ k := by
        cases k with
        | zero => simp at hv; omega
        | succ k => omega
      have : v / 128 < 128 ^ k := by
        rw [Nat.pow_succ] at hv
        exact Nat.div_lt_of_lt_mul (by rw [Nat.mul_comm]; exact hv)
      have := ih (v / 128) hk this
      simp; omega

theorem appendUvarint_length_pos (v : Nat) : 1 ≤ (appendUvarint v).length := by
  by_cases h : v < 128
  · rw [appendUvarint_lt v h]; simp
  · rw [appendUvarint_ge v h]; simp

theorem readUvarintAux_append (v : Nat) : ∀ (n x m : Nat) (s : St) (t : List Nat),
    s.dead = false → s.data = appendUvarint v ++ t → ((appendUvarint v).length : Int) ≤ s.lim →
    (appendUvarint v).length < n →
    ∃ s', readUvarintAux n x m s = .ok (x + v * m) s' ∧ Adv s (appendUvarint v).length s' ∧
      s'.allocs = s.allocs := by
  induction v using Nat.strongRecOn with
  | _ v ih =>
    intro n x m s t hd hdata hlim hn
    by_cases h : v < 128
    · rw [appendUvarint_lt v h] at hdata hlim hn ⊢
      simp at hdata hlim hn
      obtain ⟨k, rfl⟩ : ∃ k, n = k + 1 := ⟨n - 1, by omega⟩
      obtain ⟨s1, hrb, hadv, hal⟩ := readByte_cons s v t hd hdata (by omega)
      refine ⟨s1, ?_, by simpa using hadv, hal⟩
      unfold readUvarintAux
      rw [hrb]
      have hk : ¬ (k = 0 ∧ v > 1) := by omega
      simp [h, hk]
    · rw [appendUvarint_ge v h] at hdata hlim hn ⊢
      simp at hdata hlim hn
      obtain ⟨k, rfl⟩ : ∃ k, n = k + 1 := ⟨n - 1, by omega⟩
      obtain ⟨s1, hrb, hadv, hal⟩ := readByte_cons s (v % 128 + 128) (appendUvarint (v / 128) ++ t) hd hdata (by omega)
      have hdata1 : s1.data = appendUvarint (v / 128) ++ t := by rw [hadv.data, hdata]; simp
      have hlim1 : ((appendUvarint (v / 128)).length : Int) ≤ s1.lim := by rw [hadv.lim]; omega
      obtain ⟨s2, hr2, hadv2, hal2⟩ := ih (v / 128) (by omega) k (x + (v % 128) * m) (m * 128) s1 t hadv.dead hdata1 hlim1 (by omega)
      refine ⟨s2, ?_, ?_, by rw [hal2, hal]⟩
      · unfold readUvarintAux
        rw [hrb]
        have hb : ¬ (v % 128 + 128 < 128) := by omega
        simp only [hb, if_false]
        have e1 : v % 128 + 128 - 128 = v % 128 := by omega
        rw [e1, hr2]
        have : v * m = (v % 128) * m + (v / 128) * (m * 128) := by
          conv => lhs; rw [← Nat.div_add_mod v 128]
          rw [Nat.add_mul, Nat.mul_comm 128, Nat.mul_assoc, Nat.mul_comm 128 m, Nat.add_comm]
        rw [this, Nat.add_assoc]
      · have := Adv.trans hadv hadv2
        simpa [Nat.add_comm] using this

/-! ### Prefixed integers -/

theorem appendPrefixedInt_ne_nil (first p v : Nat) : appendPrefixedInt first p v ≠ [] := by
  unfold appendPrefixedInt; split <;> simp

/-- Reading back a prefixed integer whose first byte `b` has already been consumed. -/
theorem readPrefixedIntWithByte_append (first0 p v : Nat) (hp : p ≤ 8) (hf : first0 % 2 ^ p = 0)
    (hv : v < 2 ^ 62) (b : Nat) (tl : List Nat) (henc : appendPrefixedInt first0 p v = b :: tl)
    (s : St) (t : List Nat) (hd : s.dead = false) (hpr : s.primed = true)
    (hdata : s.data = tl ++ t) (hlim : (tl.length : Int) ≤ s.lim) :
    ∃ s', readPrefixedIntWithByte s b p = .ok v s' ∧ Adv s tl.length s' ∧ s'.allocs = s.allocs := by
  have hM1 : 1 ≤ 2 ^ p := Nat.one_le_two_pow
  have hM2 : 2 ^ p ≤ 256 := by
    have : 2 ^ p ≤ 2 ^ 8 := Nat.pow_le_pow_right (by omega) hp
    simpa using this
  unfold appendPrefixedInt at henc
  unfold readPrefixedIntWithByte
  generalize 2 ^ p = M at *
  split at henc
  · rename_i hlt
    simp at henc
    obtain ⟨rfl, rfl⟩ := henc
    have hmod : (first0 + v) % M = v := by
      rw [Nat.add_mod, hf, Nat.zero_add, Nat.mod_mod, Nat.mod_eq_of_lt (by omega)]
    have : ¬ (first0 + v) % M = M - 1 := by omega
    simp only [ne_eq, hmod] at this ⊢
    refine ⟨s, ?_, by simpa using Adv.refl s hpr hd, rfl⟩
    have h' : ¬ v = M - 1 := by omega
    simp [h']
  · rename_i hge
    simp at henc
    obtain ⟨rfl, rfl⟩ := henc
    have hmod : (first0 + (M - 1)) % M = M - 1 := by
      rw [Nat.add_mod, hf, Nat.zero_add, Nat.mod_mod, Nat.mod_eq_of_lt (by omega)]
    simp only [ne_eq, hmod, not_true_eq_false, if_false]
    have hlen : (appendUvarint (v - (M - 1))).length ≤ 9 :=
      appendUvarint_length_le 9 _ (by omega) (by
        have : (128 : Nat) ^ 9 = 2 ^ 63 := by decide
        rw [this]; have : (2:Nat)^62 < 2^63 := by decide
        omega)
    obtain ⟨s1, hr, hadv, hal⟩ := readUvarintAux_append (v - (M - 1)) 10 0 1 s t hd hdata hlim (by omega)
    refine ⟨s1, ?_, hadv, hal⟩
    unfold readUvarint
    rw [hr]
    have h62 : (2:Nat)^62 = 4611686018427387904 := by decide
    have : ¬ (0 + (v - (M - 1)) * 1 > maxInt64 - (M - 1)) := by
      unfold maxInt64; omega
    simp only [this, if_false]
    congr 1
    omega

/-! ### io.ReadFull and string literals -/

theorem readFull_append (bs t : List Nat) (s : St) (hd : s.dead = false) (hpr : s.primed = true)
    (hdata : s.data = bs ++ t) (hlim : (bs.length : Int) ≤ s.lim) :
    ∃ s', readFull s bs.length = .ok bs s' ∧ Adv s bs.length s' ∧ s'.allocs = s.allocs := by
  unfold readFull
  cases bs with
  | nil =>
    refine ⟨s, ?_, by simpa using Adv.refl s hpr hd, rfl⟩
    simp [readFullAux]
  | cons b bs =>
    simp only [List.length_cons] at hlim ⊢
    unfold readFullAux
    have h0 : ¬ (bs.length + 1 = 0) := by omega
    simp only [h0, if_false]
    unfold NetVerif.Model.H3Stream.read qsRead
    simp only [hd, hdata, hpr, List.cons_append, if_true]
    simp only [Bool.false_eq_true, if_false]
    have htake : List.take (bs.length + 1) (b :: (bs ++ t)) = b :: bs := by simp
    have hdrop : List.drop (bs.length + 1) (b :: (bs ++ t)) = t := by simp
    rw [htake, hdrop]
    unfold recordBytesRead
    simp only [List.length_cons]
    have h1 : ¬ s.lim < 0 := by omega
    have h2 : ¬ s.lim - ((bs.length + 1 : Nat) : Int) < 0 := by omega
    simp only [h1, h2, if_false, List.nil_append, List.length_cons, Nat.sub_self, if_true]
    refine ⟨_, rfl, ⟨?_, rfl, rfl, rfl⟩, rfl⟩
    show t = List.drop (bs.length + 1) s.data
    rw [hdata]; exact hdrop.symm

theorem hbit_facts (first0 p v b : Nat) (tl : List Nat) (hp1 : 1 ≤ p) (hp : p ≤ 7) (hf : first0 % 2 ^ (p + 1) = 0) :
    (first0 + 2 ^ p) % 2 ^ p = 0 ∧ first0 % 2 ^ p = 0 ∧
    (appendPrefixedInt (first0 + 2 ^ p) p v = b :: tl → b / 2 ^ p % 2 = 1) ∧
    (appendPrefixedInt first0 p v = b :: tl → b / 2 ^ p % 2 = 0) := by
  have : p = 1 ∨ p = 2 ∨ p = 3 ∨ p = 4 ∨ p = 5 ∨ p = 6 ∨ p = 7 := by omega
  unfold appendPrefixedInt
  rcases this with rfl | rfl | rfl | rfl | rfl | rfl | rfl
  all_goals
    refine ⟨?_, ?_, ?_, ?_⟩
    · simp at hf ⊢; omega
    · simp at hf ⊢; omega
    · intro h
      simp at hf
      split at h <;> (simp at h; obtain ⟨h1, _⟩ := h; simp; omega)
    · intro h
      simp at hf
      split at h <;> (simp at h; obtain ⟨h1, _⟩ := h; simp; omega)

/-- Reading back a string literal whose first byte `b` has already been consumed. -/
theorem readPrefixedStringWithByte_append (H : Huff)
    (str : List Nat) (hdec : H.dec (H.enc str) = some str) (hlen : (H.enc str).length = H.encLen str)
    (first0 p : Nat) (hp1 : 1 ≤ p) (hp : p ≤ 7) (hf : first0 % 2 ^ (p + 1) = 0) (hstr : str.length < 2 ^ 62)
    (b : Nat) (tl : List Nat) (henc : appendPrefixedString H first0 p str = b :: tl)
    (s : St) (t : List Nat) (hd : s.dead = false) (hpr : s.primed = true)
    (hdata : s.data = tl ++ t) (hlim : (tl.length : Int) ≤ s.lim) :
    ∃ s', readPrefixedStringWithByte H s b p = .ok str s' ∧ Adv s tl.length s' := by
  unfold appendPrefixedString at henc
  -- common shape: header `hd0` (a prefixed int of `payload.length`) followed by `payload`
  have key : ∀ (f0 : Nat) (payload : List Nat), f0 % 2 ^ p = 0 → payload.length < 2 ^ 62 →
      appendPrefixedInt f0 p payload.length ++ payload = b :: tl →
      ∃ s1 s3, readPrefixedIntWithByte s b p = .ok payload.length s1 ∧
        ¬ (s1.lim ≥ 0 ∧ ((payload.length : Nat) : Int) > s1.lim) ∧
        readFull { s1 with allocs := (2 * min payload.length s1.data.length + 512, s1.data.length) :: s1.allocs } payload.length = .ok payload s3 ∧
        Adv s tl.length s3 ∧
        (∃ tl', appendPrefixedInt f0 p payload.length = b :: tl') := by
    intro f0 payload hf0 hpl henc
    have hne := appendPrefixedInt_ne_nil f0 p payload.length
    cases hpi : appendPrefixedInt f0 p payload.length with
    | nil => exact absurd hpi hne
    | cons b' tl' =>
      rw [hpi] at henc
      simp at henc
      obtain ⟨rfl, rfl⟩ := henc
      have hdata' : s.data = tl' ++ (payload ++ t) := by rw [hdata]; simp
      have hlim' : (tl'.length : Int) ≤ s.lim := by simp at hlim; omega
      obtain ⟨s1, hr, hadv, hal⟩ := readPrefixedIntWithByte_append f0 p payload.length (by omega) hf0
        hpl b' tl' hpi s (payload ++ t) hd hpr hdata' hlim'
      have hd1 : s1.data = payload ++ t := by rw [hadv.data, hdata']; simp
      have hl1 : (payload.length : Int) ≤ s1.lim := by rw [hadv.lim]; simp at hlim; omega
      obtain ⟨s3, hr3, hadv3, _⟩ := readFull_append payload t
        { s1 with allocs := (2 * min payload.length s1.data.length + 512, s1.data.length) :: s1.allocs } hadv.dead hadv.primed hd1 hl1
      refine ⟨s1, s3, hr, by omega, hr3, ?_, ?_⟩
      · have := Adv.trans hadv (show Adv s1 payload.length s3 from ⟨hadv3.data, hadv3.primed, hadv3.dead, hadv3.lim⟩)
        simpa using this
      · exact ⟨tl', rfl⟩
  split at henc
  · rename_i hh
    rw [← hlen] at henc hh
    obtain ⟨s1, s3, hr, hc, hr3, hadv, tl', hpi⟩ := key (first0 + 2 ^ p) (H.enc str)
      (hbit_facts first0 p 0 0 [] hp1 hp hf).1 (by omega) henc
    have hbit := (hbit_facts first0 p (H.enc str).length b tl' hp1 hp hf).2.2.1 hpi
    refine ⟨s3, ?_, hadv⟩
    unfold readPrefixedStringWithByte
    rw [hr]
    simp only [hc, if_false]
    rw [hr3]
    simp [hbit, hdec]
  · rename_i hh
    obtain ⟨s1, s3, hr, hc, hr3, hadv, tl', hpi⟩ := key first0 str
      (hbit_facts first0 p 0 0 [] hp1 hp hf).2.1 hstr henc
    have hbit := (hbit_facts first0 p str.length b tl' hp1 hp hf).2.2.2 hpi
    refine ⟨s3, ?_, hadv⟩
    unfold readPrefixedStringWithByte
    rw [hr]
    simp only [hc, if_false]
    rw [hr3]
    simp [hbit]

end NetVerif.Proofs.QpackBasic
