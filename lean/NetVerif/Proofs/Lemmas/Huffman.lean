import NetVerif.Model.Huffman
/-!
Helper lemmas for C04 (and reused by C02/C03): obligations over the regenerated Huffman tables
(discharged by kernel evaluation of *structural* checks on the decoding tree: 256 walks and one
traversal, not 256² pair comparisons) and the generic bit/tree lemmas.
-/
namespace NetVerif.Proofs.Lemmas.Huffman
open NetVerif.Model.Huffman
open NetVerif

/-! ### Checks evaluated on the regenerated tables -/

/-- Every leaf of `t` (reached by path `rp.reverse`) carries a symbol `< 256` whose code word is that path. -/
def checkLeaves : Trie → List Bool → Bool
  | .empty, _ => true
  | .leaf s, rp => decide (s < 256) && (symBits s == rp.reverse)
  | .node z o, rp => checkLeaves z (false :: rp) && checkLeaves o (true :: rp)

def checkWalks (t : Trie) : Bool :=
  ((Gen.Huffman.codes.zip Gen.Huffman.lens).zipIdx).all fun x => t.walk (natToBits x.1.2 x.1.1) == .leaf x.2

def checkCodes : Bool :=
  (Gen.Huffman.codes.zip Gen.Huffman.lens).all fun x =>
    decide (x.1 < 2 ^ x.2) && decide (5 ≤ x.2) && decide (x.2 ≤ 30)

def isLeaf : Trie → Bool
  | .leaf _ => true
  | _ => false

def checkOnes (t : Trie) : Bool :=
  (List.range 30).all (fun j => (t.walk (List.replicate j true)).isNode) &&
    (t.walk (List.replicate 30 true) == .empty)

theorem table_lengths : Gen.Huffman.codes.length = 256 ∧ Gen.Huffman.lens.length = 256 := by
  decide +kernel

theorem checkCodes_ok : checkCodes = true := by decide +kernel
theorem checkWalks_ok : checkWalks trie = true := by decide +kernel
theorem checkLeaves_ok : checkLeaves trie [] = true := by decide +kernel
theorem checkOnes_ok : checkOnes trie = true := by decide +kernel
theorem eos_consts : Gen.Huffman.eosCode = 2 ^ 30 - 1 ∧ Gen.Huffman.eosNBits = 30 ∧
    Gen.Huffman.eosPadByte = 255 := by decide +kernel
theorem trie_isNode : trie.isNode = true := by decide +kernel

/-! ### Consequences -/

theorem nth_eq_getD (l : List Nat) (i : Nat) : nth l i = l.getD i 0 := by
  induction l generalizing i with
  | nil => simp [nth]
  | cons x xs ih => cases i <;> simp [nth, ih]

theorem mem_of_mem_zipIdx {α : Type} {l : List α} {x : α} {i : Nat} (h : (x, i) ∈ l.zipIdx) : x ∈ l := by
  rw [List.mk_mem_zipIdx_iff_getElem?] at h
  exact List.mem_of_getElem? h

theorem table_entry (s : Nat) (h : s < 256) :
    ((codeOf s, lenOf s), s) ∈ (Gen.Huffman.codes.zip Gen.Huffman.lens).zipIdx := by
  have hl := table_lengths
  rw [List.mk_mem_zipIdx_iff_getElem?, List.getElem?_zip_eq_some]
  have h1 : s < Gen.Huffman.codes.length := by omega
  have h2 : s < Gen.Huffman.lens.length := by omega
  simp [codeOf, lenOf, nth_eq_getD, List.getD_eq_getElem?_getD, List.getElem?_eq_getElem h1, List.getElem?_eq_getElem h2]

theorem code_lt (s : Nat) (h : s < 256) : codeOf s < 2 ^ lenOf s ∧ 5 ≤ lenOf s ∧ lenOf s ≤ 30 := by
  have := checkCodes_ok
  unfold checkCodes at this
  rw [List.all_eq_true] at this
  have := this (codeOf s, lenOf s) (mem_of_mem_zipIdx (table_entry s h))
  simp only [Bool.and_eq_true, decide_eq_true_eq] at this
  exact ⟨this.1.1, this.1.2, this.2⟩

theorem walk_symBits (s : Nat) (h : s < 256) : trie.walk (symBits s) = .leaf s := by
  have := checkWalks_ok
  unfold checkWalks at this
  rw [List.all_eq_true] at this
  have := this _ (table_entry s h)
  simpa [symBits] using this

theorem walk_ones_isNode (j : Nat) (h : j < 30) : (trie.walk (List.replicate j true)).isNode = true := by
  have := checkOnes_ok
  unfold checkOnes at this
  rw [Bool.and_eq_true, List.all_eq_true] at this
  exact this.1 j (List.mem_range.mpr h)

theorem walk_ones_30 : trie.walk (List.replicate 30 true) = .empty := by
  have := checkOnes_ok
  unfold checkOnes at this
  rw [Bool.and_eq_true] at this
  simpa using this.2

/-! ### Tree lemmas -/

@[simp] theorem walk_nil (t : Trie) : t.walk [] = t := rfl
@[simp] theorem walk_cons (t : Trie) (b : Bool) (p : List Bool) : t.walk (b :: p) = (t.child b).walk p := rfl

theorem walk_append (t : Trie) (p q : List Bool) : t.walk (p ++ q) = (t.walk p).walk q := by
  induction p generalizing t with
  | nil => rfl
  | cons b p ih => simp [ih]

@[simp] theorem child_empty (b : Bool) : Gen.Huffman.Trie.empty.child b = .empty := rfl
@[simp] theorem child_leaf (s : Nat) (b : Bool) : (Gen.Huffman.Trie.leaf s).child b = .empty := rfl

@[simp] theorem walk_empty (p : List Bool) : Gen.Huffman.Trie.empty.walk p = .empty := by
  induction p with
  | nil => rfl
  | cons b p ih => simp [ih]

theorem walk_leaf_cons (s : Nat) (b : Bool) (p : List Bool) : (Gen.Huffman.Trie.leaf s).walk (b :: p) = .empty := by
  simp

/-- If a non-empty walk from `c` ends in a leaf, `c` is an inner node. -/
theorem isNode_of_walk_leaf {c : Trie} {b : Bool} {p : List Bool} {s : Nat}
    (h : c.walk (b :: p) = .leaf s) : ∃ z o, c = .node z o := by
  cases c with
  | empty => simp at h
  | leaf s' => simp at h
  | node z o => exact ⟨z, o, rfl⟩

theorem checkLeaves_walk (t : Trie) (rp p : List Bool) (s : Nat)
    (hc : checkLeaves t rp = true) (hw : t.walk p = .leaf s) :
    s < 256 ∧ symBits s = rp.reverse ++ p := by
  induction t generalizing rp p with
  | empty => simp at hw
  | leaf s' =>
    cases p with
    | nil =>
      simp only [walk_nil, Gen.Huffman.Trie.leaf.injEq] at hw
      subst hw
      simp only [checkLeaves, Bool.and_eq_true, decide_eq_true_eq, beq_iff_eq] at hc
      simpa using hc
    | cons b p => simp at hw
  | node z o ihz iho =>
    simp only [checkLeaves, Bool.and_eq_true] at hc
    cases p with
    | nil => simp at hw
    | cons b p =>
      cases b with
      | false =>
        have := ihz (false :: rp) p hc.1 (by simpa [Gen.Huffman.Trie.child] using hw)
        simpa using this
      | true =>
        have := iho (true :: rp) p hc.2 (by simpa [Gen.Huffman.Trie.child] using hw)
        simpa using this

/-- The only path from the root to `leaf s` is the code word of `s`. -/
theorem walk_leaf_unique (p : List Bool) (s : Nat) (h : trie.walk p = .leaf s) :
    s < 256 ∧ symBits s = p := by
  simpa using checkLeaves_walk trie [] p s checkLeaves_ok h

/-- Prefix-freeness of the code, as a corollary of the tree structure. -/
theorem prefix_free (a b : Nat) (ha : a < 256) (hb : b < 256) (q : List Bool)
    (h : symBits b = symBits a ++ q) : a = b := by
  have hwb := walk_symBits b hb
  rw [h, walk_append, walk_symBits a ha] at hwb
  cases q with
  | nil => simpa using hwb
  | cons x q => simp at hwb

/-! ### Bit lemmas -/

@[simp] theorem natToBits_length (k v : Nat) : (natToBits k v).length = k := by
  induction k with
  | zero => rfl
  | succ k ih => simp [natToBits, ih]

@[simp] theorem symBits_length (s : Nat) : (symBits s).length = lenOf s := by simp [symBits]

theorem encodeBits_length (s : List Nat) : (encodeBits s).length = bitLen s := by
  induction s with
  | nil => rfl
  | cons c s ih =>
    simp only [encodeBits, List.flatMap_cons, List.length_append, symBits_length, bitLen,
      List.map_cons, List.sum_cons] at *
    omega

theorem bytesToBits_length (v : List Nat) : (bytesToBits v).length = 8 * v.length := by
  induction v with
  | nil => rfl
  | cons c s ih =>
    simp only [bytesToBits, List.flatMap_cons, List.length_append, natToBits_length, List.length_cons] at *
    omega

theorem bytesToBits_append (a b : List Nat) : bytesToBits (a ++ b) = bytesToBits a ++ bytesToBits b := by
  simp [bytesToBits]

theorem natToBits8_bitsToNat (b0 b1 b2 b3 b4 b5 b6 b7 : Bool) :
    natToBits 8 (bitsToNat [b0, b1, b2, b3, b4, b5, b6, b7]) = [b0, b1, b2, b3, b4, b5, b6, b7] := by
  cases b0 <;> cases b1 <;> cases b2 <;> cases b3 <;> cases b4 <;> cases b5 <;> cases b6 <;> cases b7 <;> rfl

theorem bytesToBits_packBits (bits : List Bool) (h : bits.length % 8 = 0) :
    bytesToBits (packBits bits) = bits := by
  fun_induction packBits bits with
  | case1 b0 b1 b2 b3 b4 b5 b6 b7 rest ih =>
    have : rest.length % 8 = 0 := by simp at h; omega
    simp only [bytesToBits, List.flatMap_cons] at *
    rw [natToBits8_bitsToNat, ih this]
    rfl
  | case2 bits hne =>
    match bits, hne, h with
    | [], _, _ => rfl
    | [_], _, h => simp at h
    | [_, _], _, h => simp at h
    | [_, _, _], _, h => simp at h
    | [_, _, _, _], _, h => simp at h
    | [_, _, _, _, _], _, h => simp at h
    | [_, _, _, _, _, _], _, h => simp at h
    | [_, _, _, _, _, _, _], _, h => simp at h
    | b0 :: b1 :: b2 :: b3 :: b4 :: b5 :: b6 :: b7 :: rest, hne, _ => exact absurd rfl (hne _ _ _ _ _ _ _ _ _)

theorem packBits_length (bits : List Bool) : (packBits bits).length = bits.length / 8 := by
  fun_induction packBits bits with
  | case1 b0 b1 b2 b3 b4 b5 b6 b7 rest ih => simp [ih]; omega
  | case2 bits hne =>
    match bits, hne with
    | [], _ => simp
    | [_], _ => simp
    | [_, _], _ => simp
    | [_, _, _], _ => simp
    | [_, _, _, _], _ => simp
    | [_, _, _, _, _], _ => simp
    | [_, _, _, _, _, _], _ => simp
    | [_, _, _, _, _, _, _], _ => simp
    | b0 :: b1 :: b2 :: b3 :: b4 :: b5 :: b6 :: b7 :: rest, hne => exact absurd rfl (hne _ _ _ _ _ _ _ _ _)

theorem bitsToNat8_natToBits (b : Nat) (h : b < 256) :
    bitsToNat (natToBits 8 b) = b := by
  simp only [natToBits, bitsToNat, List.length_cons, List.length_nil]
  have e : ∀ k : Nat, (if (b / k % 2 == 1) = true then (1 : Nat) else 0) = b / k % 2 := by
    intro k
    rcases Nat.mod_two_eq_zero_or_one (b / k) with h0 | h1
    · simp [h0]
    · simp [h1]
  have e' : ∀ k m : Nat, (if (b / k % 2 == 1) = true then m else 0) = (b / k % 2) * m := by
    intro k m
    rcases Nat.mod_two_eq_zero_or_one (b / k) with h0 | h1
    · simp [h0]
    · simp [h1]
  simp only [e']
  omega

theorem packBits_bytesToBits (v : List Nat) (h : ∀ b ∈ v, b < 256) : packBits (bytesToBits v) = v := by
  induction v with
  | nil => rfl
  | cons c v ih =>
    have hc : c < 256 := h c (by simp)
    have hv : ∀ b ∈ v, b < 256 := fun b hb => h b (by simp [hb])
    have : bytesToBits (c :: v) = natToBits 8 c ++ bytesToBits v := by simp [bytesToBits]
    rw [this]
    have e8 : natToBits 8 c = [c / 2 ^ 7 % 2 == 1, c / 2 ^ 6 % 2 == 1, c / 2 ^ 5 % 2 == 1, c / 2 ^ 4 % 2 == 1,
        c / 2 ^ 3 % 2 == 1, c / 2 ^ 2 % 2 == 1, c / 2 ^ 1 % 2 == 1, c / 2 ^ 0 % 2 == 1] := rfl
    rw [e8]
    simp only [List.cons_append, List.nil_append, packBits]
    rw [ih hv, ← e8, bitsToNat8_natToBits c hc]

end NetVerif.Proofs.Lemmas.Huffman
