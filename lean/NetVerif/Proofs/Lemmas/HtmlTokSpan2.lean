import NetVerif.Proofs.Lemmas.HtmlTokSpan
import NetVerif.Proofs.Lemmas.HtmlTokMaxBuf
/-! Span order, part 2: script data, raw text, comments, declarations. -/
namespace NetVerif.Proofs.Lemmas.HtmlTokSpan
open NetVerif.Model.HtmlTokExact NetVerif.Proofs.Lemmas.HtmlTokExact
open NetVerif.Proofs.Lemmas.HtmlTokMaxBuf (rt rt_readByte rt_unread rt_readRawEndTag rt_matchScript rawTag_of_rt)

/-- `r` is a later state of the same token with the cursor inside `[rawStart, len]`. -/
def Span (z r : Z) : Prop :=
  r.rawStart ≤ r.rawEnd ∧ r.rawEnd ≤ r.inp.size ∧ r.inp = z.inp ∧ r.rawStart = z.rawStart ∧ r.finalErr = z.finalErr

theorem span_of_mono {z r : Z} (h : z.rawStart ≤ z.rawEnd) (m : Mono z r) : Span z r := by
  obtain ⟨a, b, c, d, e⟩ := m
  exact ⟨by omega, b, c, d, e⟩

theorem Span.of_trans {a b c : Z} (h1 : Mono a b) (h2 : Span b c) : Span a c := by
  obtain ⟨a1, a2, a3, a4, a5⟩ := h1
  obtain ⟨b1, b2, b3, b4, b5⟩ := h2
  exact ⟨b1, b2, b3.trans a3, b4.trans a4, b5.trans a5⟩

theorem span_matchScript (w : List (Nat × Nat)) (z : Z) (h : Ok z) : Mono z (matchScript w z).2 := by
  induction w generalizing z with
  | nil => exact Mono.refl z h
  | cons w ws ih =>
    obtain ⟨lo, up⟩ := w
    have hr := rb z h
    have hu := mono_unread1 z h
    have hok := ok_of_mono h hr.1
    simp only [matchScript]
    split
    · exact hr.1
    · rename_i e; simp only [ne_eq, Decidable.not_not] at e
      split
      · exact hu e
      · exact hr.1.trans (ih _ hok)

/-- how many bytes of the current token a script-data state has certainly consumed -/
def need : SS → Nat
  | .endTagOpen | .escEndTagOpen | .dblEscEnd => 2
  | .lt | .escLt | .dblEscLt | .dblEscStart => 1
  | _ => 0

theorem span_scriptLoop (f : Nat) (st : SS) (z : Z) (h : Ok z) (hn : z.rawStart + need st ≤ z.rawEnd)
    (hl : z.rawTag.length = 6) : Span z (scriptLoop f st z) := by
  induction f generalizing st z with
  | zero => exact span_of_mono (by omega) (mono_outOfFuel z h)
  | succ f ih =>
    have hs : z.rawStart ≤ z.rawEnd := by omega
    have hr := rb z h
    obtain ⟨m1, m2, m3, m4, m5⟩ := hr.1
    have hok := ok_of_mono h hr.1
    have hrt := rawTag_of_rt (rt_readByte z)
    have hbs : Span z (readByte z).2 := span_of_mono hs hr.1
    have hre := span_readRawEndTag z h
    have hrert := rawTag_of_rt (rt_readRawEndTag z)
    have hfre := frame_of_fr (fr_readRawEndTag z)
    -- after a successful read, go to a state needing at most one more byte than this one
    have step : ∀ st', need st' ≤ need st + 1 → (readByte z).2.err = .none →
        Span z (scriptLoop f st' (readByte z).2) := by
      intro st' hle hok1
      have := hr.2.2 hok1
      exact Span.of_trans hr.1 (ih st' _ hok (by rw [m4, this]; omega) (by rw [hrt]; exact hl))
    have stepU : ∀ st', need st' = 0 → (readByte z).2.err = .none →
        Span z (scriptLoop f st' (unread (readByte z).2)) := by
      intro st' hle hok1
      have hu := mono_unread1 z h hok1
      obtain ⟨u1, u2, u3, u4, u5⟩ := hu
      exact Span.of_trans ⟨u1, u2, u3, u4, u5⟩
        (ih st' _ (ok_of_mono h ⟨u1, u2, u3, u4, u5⟩) (by rw [u4, hle]; omega) (by simp [unread, hrt, hl]))
    have stepE : ∀ st', need st' = 0 → (readRawEndTag z).1 = false →
        Span z (scriptLoop f st' (readRawEndTag z).2) := by
      intro st' hle hfalse
      have hm := hre.1 hfalse
      obtain ⟨u1, u2, u3, u4, u5⟩ := hm
      exact Span.of_trans ⟨u1, u2, u3, u4, u5⟩
        (ih st' _ (ok_of_mono h ⟨u1, u2, u3, u4, u5⟩) (by rw [u4, hle]; omega) (by rw [hrert]; exact hl))
    have endTrue : need st = 2 → (readRawEndTag z).1 = true → Span z (readRawEndTag z).2 := by
      intro h2 ht
      obtain ⟨a, b, c⟩ := hre.2 ht
      refine ⟨?_, ?_, hfre.1, hfre.2.1, hfre.2.2⟩
      · rw [a, hfre.2.1]; omega
      · rw [a, hfre.1]; have := h.1; omega
    cases st <;> simp only [scriptLoop]
    case endTagOpen =>
      cases hb : (readRawEndTag z).1 with
      | true => simp only [true_or, if_true]; exact endTrue rfl hb
      | false =>
        simp only [Bool.false_eq_true, false_or]
        split
        · exact span_of_mono hs (hre.1 hb)
        · exact stepE _ rfl hb
    case escEndTagOpen =>
      cases hb : (readRawEndTag z).1 with
      | true => simp only [true_or, if_true]; exact endTrue rfl hb
      | false =>
        simp only [Bool.false_eq_true, false_or]
        split
        · exact span_of_mono hs (hre.1 hb)
        · exact stepE _ rfl hb
    case dblEscEnd =>
      cases hb : (readRawEndTag z).1 with
      | true =>
        simp only [if_true]
        obtain ⟨a, b, c⟩ := hre.2 hb
        simp only [need] at hn
        have hmono : Mono z { (readRawEndTag z).2 with rawEnd := (readRawEndTag z).2.rawEnd + 9 } := by
          refine ⟨?_, ?_, hfre.1, hfre.2.1, hfre.2.2⟩
          · simp only [a]; omega
          · simp only [a, hfre.1]; rw [hl] at b; omega
        exact Span.of_trans hmono (ih _ _ (ok_of_mono h hmono) (by simp only [need, hfre.2.1, a]; omega)
          (by simp only [c]; exact hl))
      | false =>
        simp only [Bool.false_eq_true, if_false]
        split
        · exact span_of_mono hs (hre.1 hb)
        · exact stepE _ rfl hb
    case dblEscStart =>
      simp only [need] at hn
      have hoku : Ok (unread z) := ⟨by show z.rawEnd - 1 ≤ z.inp.size; have h1 : z.rawEnd ≤ z.inp.size := h.1; omega, h.2⟩
      have hsu : (unread z).rawStart ≤ (unread z).rawEnd := by show z.rawStart ≤ z.rawEnd - 1; omega
      have hms := span_matchScript scriptWord (unread z) hoku
      have hmsrt := rawTag_of_rt (rt_matchScript scriptWord (unread z))
      have toZ : ∀ r : Z, Span (unread z) r → Span z r := fun r hr => hr
      apply toZ
      obtain ⟨u1, u2, u3, u4, u5⟩ := hms
      have hok1 : Ok (matchScript scriptWord (unread z)).2 := ok_of_mono hoku ⟨u1, u2, u3, u4, u5⟩
      have hl1 : (matchScript scriptWord (unread z)).2.rawTag.length = 6 := by rw [hmsrt]; simpa [unread] using hl
      have hs1 : (matchScript scriptWord (unread z)).2.rawStart ≤ (matchScript scriptWord (unread z)).2.rawEnd := by
        rw [u4]; omega
      split
      · rename_i z1 heq; rw [heq] at u1 u2 u3 u4 u5 hs1; exact ⟨hs1, u2, u3, u4, u5⟩
      · rename_i z1 heq
        rw [heq] at u1 u2 u3 u4 u5 hok1 hl1 hs1
        exact Span.of_trans ⟨u1, u2, u3, u4, u5⟩ (ih _ _ hok1 (by simpa [need] using hs1) hl1)
      · rename_i c z1 _ _ heq
        rw [heq] at u1 u2 u3 u4 u5 hok1 hl1 hs1
        simp only at u1 u2 u3 u4 u5 hok1 hl1 hs1
        have hr1 := rb z1 hok1
        have hrt1 := rawTag_of_rt (rt_readByte z1)
        have hok2 := ok_of_mono hok1 hr1.1
        apply Span.of_trans ⟨u1, u2, u3, u4, u5⟩
        split
        · exact span_of_mono hs1 hr1.1
        · rename_i e; simp only [ne_eq, Decidable.not_not] at e
          have hm4 := hr1.1.2.2.2.1
          split
          · exact Span.of_trans hr1.1 (ih _ _ hok2 (by simp only [need, hm4]; have := hr1.1.1; omega) (by rw [hrt1]; exact hl1))
          · have hu1 := mono_unread1 z1 hok1 e
            exact Span.of_trans hu1 (ih _ _ (ok_of_mono hok1 hu1) (by simp only [need, hu1.2.2.2.1]; have := hu1.1; omega)
              (by simp [unread, hrt1, hl1]))
    all_goals
      split
      · exact hbs
      · rename_i hok1; simp only [ne_eq, Decidable.not_not] at hok1
        repeat' split
        all_goals first
          | exact step _ (by simp [need]) hok1
          | exact stepU _ rfl hok1

theorem span_refl (z : Z) (h : Ok z) (hs : z.rawStart ≤ z.rawEnd) : Span z z := ⟨hs, h.1, rfl, rfl, rfl⟩

theorem span_setDataEnd {z r : Z} (k : Nat) (h : Span z r) : Span z { r with dataEnd := k } := h
theorem span_setRawTag {z r : Z} (t : List Nat) (h : Span z r) : Span z { r with rawTag := t } := h

theorem span_readScript (z : Z) (h : Ok z) (hs : z.rawStart ≤ z.rawEnd) (hl : z.rawTag = scriptTag) :
    Span z (readScript z) := by
  unfold readScript
  exact span_setDataEnd _ (span_scriptLoop _ .data z h (by simpa [need] using hs) (by rw [hl]; rfl))

theorem span_rawLoop (f : Nat) (z : Z) (h : Ok z) (hs : z.rawStart ≤ z.rawEnd) : Span z (rawLoop f z) := by
  induction f generalizing z with
  | zero => exact span_refl z h hs
  | succ f ih =>
    have hr := rb z h
    have hok := ok_of_mono h hr.1
    have hs1 : (readByte z).2.rawStart ≤ (readByte z).2.rawEnd := by
      have := hr.1.1; rw [hr.1.2.2.2.1]; omega
    simp only [rawLoop]
    split
    · exact span_of_mono hs hr.1
    · rename_i e1; simp only [ne_eq, Decidable.not_not] at e1
      split
      · exact Span.of_trans hr.1 (ih _ hok hs1)
      · have hr2 := rb _ hok
        have hok2 := ok_of_mono hok hr2.1
        have hm2 := hr.1.trans hr2.1
        split
        · exact span_of_mono hs hm2
        · rename_i e2; simp only [ne_eq, Decidable.not_not] at e2
          split
          · have hu := mono_unread1 _ hok e2
            have hmu := hr.1.trans hu
            exact Span.of_trans hmu (ih _ (ok_of_mono h hmu) (by have := hmu.1; rw [hmu.2.2.2.1]; omega))
          · have hre := span_readRawEndTag _ hok2
            have hfre := frame_of_fr (fr_readRawEndTag (readByte (readByte z).2).2)
            have e1' := hr.2.2 e1
            have e2' := hr2.2.2 e2
            obtain ⟨a1, a2, a3, a4, a5⟩ := hm2
            cases hb : (readRawEndTag (readByte (readByte z).2).2).1 with
            | true =>
              simp only [true_or, if_true]
              obtain ⟨a, b, c⟩ := hre.2 hb
              refine ⟨?_, ?_, hfre.1.trans a3, hfre.2.1.trans a4, hfre.2.2.trans a5⟩
              · rw [a, hfre.2.1, a4]; omega
              · rw [a, hfre.1]; omega
            | false =>
              simp only [Bool.false_eq_true, false_or]
              have hm3 := Mono.trans ⟨a1, a2, a3, a4, a5⟩ (hre.1 hb)
              split
              · exact span_of_mono hs hm3
              · exact Span.of_trans hm3 (ih _ (ok_of_mono h hm3) (by have := hm3.1; rw [hm3.2.2.2.1]; omega))

theorem span_readRawOrRCDATA (z : Z) (h : Ok z) (hs : z.rawStart ≤ z.rawEnd) : Span z (readRawOrRCDATA z) := by
  unfold readRawOrRCDATA
  split
  · rename_i hl; exact span_setRawTag _ (span_readScript z h hs hl)
  · exact span_rawLoop _ z h hs

theorem mono_plaintextLoop (f : Nat) (z : Z) (h : Ok z) : Mono z (plaintextLoop f z) := by
  induction f generalizing z with
  | zero => exact Mono.refl z h
  | succ f ih =>
    have hr := rb z h
    simp only [plaintextLoop]
    split
    · exact Mono.refl z h
    · exact hr.1.trans (ih _ (ok_of_mono h hr.1))

theorem span_rawTextAttempt (z : Z) (h : Ok z) (hs : z.rawStart ≤ z.rawEnd) : Span z (rawTextAttempt z) := by
  unfold rawTextAttempt
  split
  · exact span_setDataEnd _ (span_of_mono hs (mono_plaintextLoop _ z h))
  · exact span_readRawOrRCDATA z h hs

theorem mono_commentLoop (f d : Nat) (b : Bool) (z : Z) (h : Ok z) : Mono z (commentLoop f d b z) := by
  induction f generalizing d b z with
  | zero => exact Mono.refl z h
  | succ f ih =>
    have hr := rb z h
    have hok := ok_of_mono h hr.1
    have hr2 := rb _ hok
    have hok2 := ok_of_mono hok hr2.1
    have hm2 := hr.1.trans hr2.1
    simp only [commentLoop]
    repeat' split
    all_goals first
      | exact hr.1
      | exact hm2
      | exact hr.1.trans (ih _ _ _ hok)
      | exact hm2.trans (ih _ _ _ hok2)

theorem mono_untilCloseAngleLoop (f : Nat) (z : Z) (h : Ok z) : Mono z (untilCloseAngleLoop f z) := by
  induction f generalizing z with
  | zero => exact Mono.refl z h
  | succ f ih =>
    have hr := rb z h
    simp only [untilCloseAngleLoop]
    repeat' split
    all_goals first | exact hr.1 | exact hr.1.trans (ih _ (ok_of_mono h hr.1))

theorem mono_readUntilCloseAngle (z : Z) (h : Ok z) : Mono z (readUntilCloseAngle z) := by
  unfold readUntilCloseAngle
  exact mono_untilCloseAngleLoop _ { z with dataStart := z.rawEnd } h

theorem mono_cdataLoop (f b : Nat) (z : Z) (h : Ok z) : Mono z (cdataLoop f b z) := by
  induction f generalizing b z with
  | zero => exact Mono.refl z h
  | succ f ih =>
    have hr := rb z h
    simp only [cdataLoop]
    repeat' split
    all_goals first | exact hr.1 | exact hr.1.trans (ih _ _ (ok_of_mono h hr.1))

/-- `r` did not go below the backup position `z.dataStart` (nor below where `z` was). -/
def Back (z r : Z) : Prop :=
  min z.rawEnd z.dataStart ≤ r.rawEnd ∧ r.rawEnd ≤ r.inp.size ∧ r.inp = z.inp ∧ r.rawStart = z.rawStart ∧
  r.finalErr = z.finalErr ∧ r.dataStart = z.dataStart

theorem back_matchWord (ci : Bool) (w : List Nat) (z : Z) (h : Ok z) (hd : z.dataStart ≤ z.inp.size) :
    Back z (matchWord ci w z).2 ∧ ((matchWord ci w z).1 = some () → z.rawEnd ≤ (matchWord ci w z).2.rawEnd) := by
  induction w generalizing z with
  | nil => exact ⟨⟨Nat.min_le_left _ _, h.1, rfl, rfl, rfl, rfl⟩, fun _ => Nat.le_refl _⟩
  | cons w ws ih =>
    have hr := rb z h
    obtain ⟨m1, m2, m3, m4, m5⟩ := hr.1
    have hds : (readByte z).2.dataStart = z.dataStart := by
      have := rt_readByte z; simp only [rt, Prod.mk.injEq] at this; exact this.2
    have hok := ok_of_mono h hr.1
    have hi := ih (readByte z).2 hok (by rw [hds, m3]; exact hd)
    simp only [matchWord]
    split
    · split
      · exact ⟨⟨by simp only [hds]; exact Nat.min_le_right _ _, by simp only [hds, m3]; exact hd, m3, m4, m5, hds⟩,
          fun e => by simp at e⟩
      · exact ⟨⟨by show min z.rawEnd z.dataStart ≤ (readByte z).2.rawEnd; have := Nat.min_le_left z.rawEnd z.dataStart; omega, m2, m3, m4, m5, hds⟩, fun e => by simp at e⟩
    · split
      · exact ⟨⟨by simp only [hds]; exact Nat.min_le_right _ _, by simp only [hds, m3]; exact hd, m3, m4, m5, hds⟩,
          fun e => by simp at e⟩
      · obtain ⟨⟨b1, b2, b3, b4, b5, b6⟩, b7⟩ := hi
        refine ⟨⟨?_, b2, b3.trans m3, b4.trans m4, b5.trans m5, b6.trans hds⟩, fun e => ?_⟩
        · rw [hds] at b1
          have : min z.rawEnd z.dataStart ≤ min (readByte z).2.rawEnd z.dataStart := by
            simp only [Nat.min_def]; split <;> split <;> omega
          omega
        · have := b7 e; omega

end NetVerif.Proofs.Lemmas.HtmlTokSpan
