import NetVerif.Proofs.Lemmas.Dns
/-!
The reader never runs out of (model) fuel: every loop of the reader that is written with
explicit fuel (`Name.unpack`, TXT strings, OPT options, SVCB parameters) is given enough of it,
for every input. So `Err.fuel` is unreachable: the model of `Message.Unpack` is a faithful total
function, and the Go loops it models terminate.
-/
namespace NetVerif.Proofs.DnsTotal
open NetVerif.Model.Dns NetVerif.Proofs.Dns

def NoFuel {α : Type} (r : Except Err α) : Prop := r ≠ .error .fuel

theorem NoFuel.of_error {α β : Type} {r : Except Err α} {e : Err} (h : NoFuel r) (he : r = .error e) :
    NoFuel (.error e : Except Err β) := by
  intro hf
  cases hf
  exact h he

theorem noFuel_ok {α : Type} (x : α) : NoFuel (.ok x : Except Err α) := by intro h; cases h

theorem NoFuel.map {α β : Type} {r : Except Err α} (f : α → β) (h : NoFuel r) : NoFuel (r.map f) := by
  cases r with
  | error e => exact h.of_error rfl
  | ok x => exact noFuel_ok _

theorem unpackName_noFuel (msg : Bytes) (off : Nat) : NoFuel (unpackName msg off) :=
  unpackLoop_no_fuel msg _ _ _ _ _ (by simp) (by omega) (by simp [unpackFuel])

theorem nameOnly_noFuel (msg : Bytes) (off : Nat) : NoFuel (nameOnly msg off) := by
  unfold nameOnly
  split
  · exact noFuel_ok _
  · rename_i e he; exact (unpackName_noFuel msg off).of_error he

theorem u16At_noFuel (msg : Bytes) (off : Nat) : NoFuel (u16At msg off) := by
  unfold u16At; split
  · exact noFuel_ok _
  · intro h; cases h

theorem u32At_noFuel (msg : Bytes) (off : Nat) : NoFuel (u32At msg off) := by
  unfold u32At; split
  · exact noFuel_ok _
  · intro h; cases h

theorem bytesAt_noFuel (msg : Bytes) (off n : Nat) : NoFuel (bytesAt msg off n) := by
  unfold bytesAt; split
  · intro h; cases h
  · exact noFuel_ok _

theorem textAt_noFuel (msg : Bytes) (off : Nat) : NoFuel (textAt msg off) := by
  unfold textAt; split
  · intro h; cases h
  · split
    · intro h; cases h
    · exact noFuel_ok _

theorem u16At_bound {msg : Bytes} {off v o : Nat} (h : u16At msg off = .ok (v, o)) :
    o = off + 2 ∧ off + 2 ≤ msg.length := by
  unfold u16At at h
  split at h
  · rename_i a b rest hd
    have := congrArg List.length hd
    simp at this h
    omega
  · simp at h

theorem txtLoop_noFuel (msg : Bytes) (length : Nat) : ∀ (fuel off n : Nat), length - n < fuel →
    NoFuel (txtLoop msg length fuel off n) := by
  intro fuel
  induction fuel with
  | zero => intro off n h; omega
  | succ fuel ih =>
    intro off n h
    unfold txtLoop
    split
    · rename_i hn
      split
      · rename_i e he; exact (textAt_noFuel msg off).of_error he
      · rename_i t off' ht
        split
        · intro hf; cases hf
        · rename_i hchk
          have := ih off' (n + t.length + 1) (by omega)
          split
          · exact noFuel_ok _
          · rename_i e he; exact this.of_error he
    · exact noFuel_ok _

theorem optLoop_noFuel (msg : Bytes) (e : Nat) : ∀ (fuel off : Nat), msg.length - off < fuel →
    NoFuel (optLoop msg e fuel off) := by
  intro fuel
  induction fuel with
  | zero => intro off h; omega
  | succ fuel ih =>
    intro off h
    unfold optLoop
    split
    · split
      · rename_i e1 he; exact (u16At_noFuel msg off).of_error he
      · rename_i code off1 h1
        split
        · rename_i e2 he; exact (u16At_noFuel msg off1).of_error he
        · rename_i l off2 h2
          have b1 := u16At_bound h1
          have b2 := u16At_bound h2
          split
          · intro hf; cases hf
          · split
            · intro hf; cases hf
            · have := ih (off2 + l) (by omega)
              split
              · exact noFuel_ok _
              · rename_i e3 he; exact this.of_error he
    · exact noFuel_ok _

theorem svcbPass1_noFuel (msg : Bytes) (e : Nat) : ∀ (fuel off : Nat) (prev : Option Nat),
    msg.length - off < fuel → NoFuel (svcbPass1 msg e fuel off prev) := by
  intro fuel
  induction fuel with
  | zero => intro off prev h; omega
  | succ fuel ih =>
    intro off prev h
    unfold svcbPass1
    split
    · split
      · rename_i e1 he; exact (u16At_noFuel msg off).of_error he
      · rename_i key off1 h1
        split
        · intro hf; cases hf
        · split
          · rename_i e2 he; exact (u16At_noFuel msg off1).of_error he
          · rename_i size off2 h2
            have b1 := u16At_bound h1
            have b2 := u16At_bound h2
            split
            · intro hf; cases hf
            · have := ih (off2 + size) (some key) (by omega)
              split
              · exact noFuel_ok _
              · rename_i e3 he; exact this.of_error he
    · split
      · intro hf; cases hf
      · exact noFuel_ok _

theorem svcbPass2_noFuel (msg : Bytes) : ∀ (l : List (Nat × Nat × Nat)), NoFuel (svcbPass2 msg l) := by
  intro l
  induction l with
  | nil => exact noFuel_ok _
  | cons x l ih =>
    rcases x with ⟨k, s, v⟩
    unfold svcbPass2
    split
    · intro hf; cases hf
    · split
      · exact noFuel_ok _
      · rename_i e he; exact ih.of_error he

theorem unpackSVCB_noFuel (msg : Bytes) (off len : Nat) : NoFuel (unpackSVCB msg off len) := by
  unfold unpackSVCB
  split
  · rename_i e he; exact (u16At_noFuel msg off).of_error he
  · rename_i prio off1 h1
    split
    · rename_i e he; exact (unpackName_noFuel msg off1).of_error he
    · rename_i t off2 h2
      split
      · intro hf; cases hf
      · split
        · rename_i e he; exact (svcbPass1_noFuel msg _ _ off2 none (by omega)).of_error he
        · rename_i l h3
          split
          · rename_i e he; exact (svcbPass2_noFuel msg l).of_error he
          · exact noFuel_ok _

theorem unpackBody_noFuel (msg : Bytes) (off typ len : Nat) : NoFuel (unpackBody msg off typ len) := by
  by_cases k1 : typ = 1
  · subst k1; simp only [unpackBody, Nat.reduceEqDiff, reduceIte]; exact (bytesAt_noFuel _ _ _).map _
  by_cases k2 : typ = 2
  · subst k2; simp only [unpackBody, Nat.reduceEqDiff, reduceIte]; exact (nameOnly_noFuel _ _).map _
  by_cases k3 : typ = 5
  · subst k3; simp only [unpackBody, Nat.reduceEqDiff, reduceIte]; exact (nameOnly_noFuel _ _).map _
  by_cases k4 : typ = 6
  · subst k4
    simp only [unpackBody, Nat.reduceEqDiff, reduceIte]
    split
    · rename_i e he; exact (unpackName_noFuel msg off).of_error he
    · rename_i ns o1 _
      split
      · rename_i e he; exact (unpackName_noFuel msg o1).of_error he
      · rename_i mb o2 _
        split
        · rename_i e he; exact (u32At_noFuel msg o2).of_error he
        · rename_i a o3 _
          split
          · rename_i e he; exact (u32At_noFuel msg o3).of_error he
          · rename_i b o4 _
            split
            · rename_i e he; exact (u32At_noFuel msg o4).of_error he
            · rename_i c o5 _
              split
              · rename_i e he; exact (u32At_noFuel msg o5).of_error he
              · rename_i d o6 _
                split
                · rename_i e he; exact (u32At_noFuel msg o6).of_error he
                · exact noFuel_ok _
  by_cases k5 : typ = 12
  · subst k5; simp only [unpackBody, Nat.reduceEqDiff, reduceIte]; exact (nameOnly_noFuel _ _).map _
  by_cases k6 : typ = 15
  · subst k6
    simp only [unpackBody, Nat.reduceEqDiff, reduceIte]
    split
    · rename_i e he; exact (u16At_noFuel msg off).of_error he
    · exact (nameOnly_noFuel _ _).map _
  by_cases k7 : typ = 16
  · subst k7; simp only [unpackBody, Nat.reduceEqDiff, reduceIte]
    exact (txtLoop_noFuel msg len _ off 0 (by omega)).map _
  by_cases k8 : typ = 28
  · subst k8; simp only [unpackBody, Nat.reduceEqDiff, reduceIte]; exact (bytesAt_noFuel _ _ _).map _
  by_cases k9 : typ = 33
  · subst k9
    simp only [unpackBody, Nat.reduceEqDiff, reduceIte]
    split
    · rename_i e he; exact (u16At_noFuel msg off).of_error he
    · rename_i p o1 _
      split
      · rename_i e he; exact (u16At_noFuel msg o1).of_error he
      · rename_i w o2 _
        split
        · rename_i e he; exact (u16At_noFuel msg o2).of_error he
        · exact (nameOnly_noFuel _ _).map _
  by_cases k10 : typ = 64
  · subst k10; simp only [unpackBody, Nat.reduceEqDiff, reduceIte]; exact (unpackSVCB_noFuel _ _ _).map _
  by_cases k11 : typ = 65
  · subst k11; simp only [unpackBody, Nat.reduceEqDiff, reduceIte]; exact (unpackSVCB_noFuel _ _ _).map _
  by_cases k12 : typ = 41
  · subst k12; simp only [unpackBody, Nat.reduceEqDiff, reduceIte]
    exact (optLoop_noFuel msg _ _ off (by omega)).map _
  · simp only [unpackBody, k1, k2, k3, k4, k5, k6, k7, k8, k9, k10, k11, k12, if_false]
    exact (bytesAt_noFuel _ _ _).map _

theorem unpackQuestion_noFuel (msg : Bytes) (off : Nat) : NoFuel (unpackQuestion msg off) := by
  unfold unpackQuestion
  split
  · rename_i e he; exact (unpackName_noFuel msg off).of_error he
  · rename_i n o1 _
    split
    · rename_i e he; exact (u16At_noFuel msg o1).of_error he
    · rename_i t o2 _
      split
      · rename_i e he; exact (u16At_noFuel msg o2).of_error he
      · exact noFuel_ok _

theorem unpackRHeader_noFuel (msg : Bytes) (off : Nat) : NoFuel (unpackRHeader msg off) := by
  unfold unpackRHeader
  split
  · rename_i e he; exact (unpackName_noFuel msg off).of_error he
  · rename_i n o1 _
    split
    · rename_i e he; exact (u16At_noFuel msg o1).of_error he
    · rename_i t o2 _
      split
      · rename_i e he; exact (u16At_noFuel msg o2).of_error he
      · rename_i c o3 _
        split
        · rename_i e he; exact (u32At_noFuel msg o3).of_error he
        · rename_i ttl o4 _
          split
          · rename_i e he; exact (u16At_noFuel msg o4).of_error he
          · split
            · intro hf; cases hf
            · exact noFuel_ok _

theorem unpackResource_noFuel (msg : Bytes) (off : Nat) : NoFuel (unpackResource msg off) := by
  unfold unpackResource
  split
  · rename_i e he; exact (unpackRHeader_noFuel msg off).of_error he
  · rename_i h o1 _
    split
    · rename_i e he; exact (unpackBody_noFuel msg o1 h.typ h.length).of_error he
    · exact noFuel_ok _

theorem unpackQuestions_noFuel (msg : Bytes) : ∀ (k off : Nat), NoFuel (unpackQuestions msg k off) := by
  intro k
  induction k with
  | zero => intro off; exact noFuel_ok _
  | succ k ih =>
    intro off
    unfold unpackQuestions
    split
    · rename_i e he; exact (unpackQuestion_noFuel msg off).of_error he
    · rename_i q o1 _
      split
      · rename_i e he; exact (ih o1).of_error he
      · exact noFuel_ok _

theorem unpackResources_noFuel (msg : Bytes) : ∀ (k off : Nat), NoFuel (unpackResources msg k off) := by
  intro k
  induction k with
  | zero => intro off; exact noFuel_ok _
  | succ k ih =>
    intro off
    unfold unpackResources
    split
    · rename_i e he; exact (unpackResource_noFuel msg off).of_error he
    · rename_i r o1 _
      split
      · rename_i e he; exact (ih o1).of_error he
      · exact noFuel_ok _

theorem unpackMessageOff_noFuel (msg : Bytes) : NoFuel (unpackMessageOff msg) := by
  unfold unpackMessageOff
  split
  · rename_i e he
    intro hf; cases hf
    unfold unpackWireHeader at he
    split at he <;> simp at he
  · rename_i w _
    split
    · rename_i e he; exact (unpackQuestions_noFuel msg _ _).of_error he
    · rename_i qs o1 _
      split
      · rename_i e he; exact (unpackResources_noFuel msg _ _).of_error he
      · rename_i an o2 _
        split
        · rename_i e he; exact (unpackResources_noFuel msg _ _).of_error he
        · rename_i au o3 _
          split
          · rename_i e he; exact (unpackResources_noFuel msg _ _).of_error he
          · exact noFuel_ok _

theorem unpackMessage_noFuel (msg : Bytes) : NoFuel (unpackMessage msg) := by
  unfold unpackMessage
  split
  · exact noFuel_ok _
  · rename_i e he; exact (unpackMessageOff_noFuel msg).of_error he

end NetVerif.Proofs.DnsTotal
