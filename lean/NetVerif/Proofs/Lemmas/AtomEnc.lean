/-!
Positional (little-endian, base `B`) encoding of digit lists as one natural number, with the
lemmas that let a kernel evaluation replace `List.drop/take/getD` on a long literal list by
GMP arithmetic on one literal (used by Proofs/C42).
-/
namespace NetVerif.Proofs.Lemmas.AtomEnc

/-- little-endian base-`B` value of a digit list -/
def enc (B : Nat) : List Nat → Nat
  | [] => 0
  | b :: l => b + B * enc B l

/-- the `n` lowest base-`B` digits of `x`, lowest first -/
def digits (B : Nat) : Nat → Nat → List Nat
  | 0, _ => []
  | n + 1, x => x % B :: digits B n (x / B)

theorem enc_cons_div (B b E : Nat) (hb : b < B) : (b + B * E) / B = E := by
  have hB : 0 < B := by omega
  rw [Nat.add_mul_div_left _ _ hB, Nat.div_eq_of_lt hb, Nat.zero_add]

theorem enc_cons_mod (B b E : Nat) (hb : b < B) : (b + B * E) % B = b := by
  rw [Nat.add_mul_mod_self_left, Nat.mod_eq_of_lt hb]

theorem enc_drop (B : Nat) (l : List Nat) (hl : ∀ b ∈ l, b < B) (s : Nat) :
    enc B (l.drop s) = enc B l / B ^ s := by
  induction s generalizing l with
  | zero => simp
  | succ s ih =>
    cases l with
    | nil => simp [enc]
    | cons b l =>
      have hb : b < B := hl b (by simp)
      have hl' : ∀ x ∈ l, x < B := fun x hx => hl x (by simp [hx])
      rw [List.drop_succ_cons, ih l hl', enc, Nat.pow_succ, Nat.mul_comm (B ^ s) B,
        ← Nat.div_div_eq_div_mul, enc_cons_div B b _ hb]

theorem digits_enc (B : Nat) (l : List Nat) (hl : ∀ b ∈ l, b < B) (n : Nat) (hn : n ≤ l.length) :
    digits B n (enc B l) = l.take n := by
  induction n generalizing l with
  | zero => simp [digits]
  | succ n ih =>
    cases l with
    | nil => simp at hn
    | cons b l =>
      have hb : b < B := hl b (by simp)
      have hl' : ∀ x ∈ l, x < B := fun x hx => hl x (by simp [hx])
      simp only [List.length_cons] at hn
      rw [enc, digits, enc_cons_div B b _ hb, enc_cons_mod B b _ hb, ih l hl' (by omega), List.take_succ_cons]

/-- slicing a digit list = digits of the shifted number -/
theorem slice_eq_digits (B : Nat) (l : List Nat) (hl : ∀ b ∈ l, b < B) (s n : Nat)
    (h : s + n ≤ l.length) : (l.drop s).take n = digits B n (enc B l / B ^ s) := by
  rw [← enc_drop B l hl s, digits_enc B (l.drop s) (fun b hb => hl b (List.mem_of_mem_drop hb)) n
    (by rw [List.length_drop]; omega)]

/-- indexing a digit list = one digit of the number -/
theorem getD_eq (B : Nat) (l : List Nat) (hl : ∀ b ∈ l, b < B) (i : Nat) (h : i < l.length) :
    l.getD i 0 = enc B l / B ^ i % B := by
  have h1 := slice_eq_digits B l hl i 1 (by omega)
  simp only [digits] at h1
  rw [List.drop_eq_getElem_cons h] at h1
  simp only [List.take_succ_cons, List.take_zero, List.cons.injEq, and_true] at h1
  rw [List.getD_eq_getElem?_getD, List.getElem?_eq_getElem h, Option.getD_some, h1]

/-- a set of naturals as one number (bit `a` set for every member `a`) -/
def bitsOf (l : List Nat) : Nat := l.foldl (fun acc a => acc ||| 2 ^ a) 0

theorem mem_of_testBit_foldl (l : List Nat) (init x : Nat)
    (h : (l.foldl (fun acc a => acc ||| 2 ^ a) init).testBit x = true) :
    init.testBit x = true ∨ x ∈ l := by
  induction l generalizing init with
  | nil => exact Or.inl h
  | cons a l ih =>
    rcases ih _ h with h1 | h1
    · rw [Nat.testBit_or, Nat.testBit_two_pow] at h1
      simp only [Bool.or_eq_true, decide_eq_true_eq] at h1
      rcases h1 with h1 | h1
      · exact Or.inl h1
      · exact Or.inr (by simp [h1])
    · exact Or.inr (by simp [h1])

theorem mem_of_testBit_bitsOf (l : List Nat) (x : Nat) (h : (bitsOf l).testBit x = true) : x ∈ l := by
  rcases mem_of_testBit_foldl l 0 x h with h1 | h1
  · simp at h1
  · exact h1

end NetVerif.Proofs.Lemmas.AtomEnc
