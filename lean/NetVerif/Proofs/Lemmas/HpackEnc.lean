import NetVerif.Model.HpackEnc
import NetVerif.Proofs.Lemmas.Hpack
import NetVerif.Proofs.C04
/-!
Lemmas for C01/C05: what the decoder model reads back from the encoder model's bytes.
* varints (`readVarInt_appendVarInt`), string literals (`readString_appendHpackString`),
* the five representation forms (`parseRepr_*`),
* table search (`searchTable_spec`), eviction as a simulation on "newest part" (`evict_prefix`).
-/
namespace NetVerif.Proofs.Lemmas.HpackEnc
open NetVerif.Model.Hpack NetVerif.Model.HpackEnc
open NetVerif.Model
open NetVerif

/-! ### Variable-length integers -/

theorem pow_split (a : Nat) (h : 7 ≤ a) : 2 ^ a = 2 ^ (a - 7) * 128 := by
  have : a = (a - 7) + 7 := by omega
  conv => lhs; rw [this, Nat.pow_add]

theorem readVarIntLoop_varIntCont : ∀ (fuel v acc m : Nat) (rest : Bytes), v ≤ fuel → m ≤ 63 → v < 2 ^ (63 - m) →
    readVarIntLoop (varIntCont fuel v ++ rest) acc m = .ok (acc + v * 2 ^ m, rest) := by
  intro fuel
  induction fuel with
  | zero =>
    intro v acc m rest hf _ _
    have : v = 0 := by omega
    subst this
    simp [varIntCont, readVarIntLoop]
  | succ fuel ih =>
    intro v acc m rest hf hm hv
    unfold varIntCont
    by_cases h128 : v ≥ 128
    · simp only [h128, ↓reduceIte, List.cons_append, readVarIntLoop]
      have hb : ¬ (128 + v % 128 < 128) := by omega
      have hmod : (128 + v % 128) % 128 = v % 128 := by omega
      have h7 : 7 < 63 - m := by
        apply Nat.lt_of_not_le
        intro hle
        have : 2 ^ (63 - m) ≤ 2 ^ 7 := Nat.pow_le_pow_right (by omega) hle
        omega
      have hov : ¬ (m + 7 ≥ 63) := by omega
      simp only [hb, hov, ↓reduceIte, hmod]
      have hsplit := pow_split (63 - m) (by omega)
      have hdiv : v / 128 < 2 ^ (63 - (m + 7)) := by
        have : 63 - (m + 7) = 63 - m - 7 := by omega
        rw [this]
        apply Nat.div_lt_of_lt_mul
        rw [Nat.mul_comm]
        rw [← hsplit]
        exact hv
      rw [ih (v / 128) _ (m + 7) rest (by omega) (by omega) hdiv]
      have hp : 2 ^ (m + 7) = 2 ^ m * 128 := by rw [Nat.pow_add]
      rw [hp]
      have hv' : v = 128 * (v / 128) + v % 128 := (Nat.div_add_mod v 128).symm
      generalize 2 ^ m = P
      congr 2
      conv => rhs; rw [hv']
      rw [Nat.add_mul, Nat.add_assoc, Nat.add_comm (v % 128 * P)]
      congr 1
      rw [Nat.mul_comm P 128, ← Nat.mul_assoc, Nat.mul_comm (v / 128) 128]
    · simp only [h128, ↓reduceIte, List.cons_append, readVarIntLoop]
      have hb : v < 128 := by omega
      have hmod : v % 128 = v := Nat.mod_eq_of_lt hb
      simp [hb, hmod]

/-- The prefix sizes the encoder uses. -/
def PrefixN (n : Nat) : Prop := n = 4 ∨ n = 5 ∨ n = 6 ∨ n = 7

theorem add_mod_flag (P flag i : Nat) (hf : flag % P = 0) (hi : i < P) : (flag + i) % P = i := by
  rw [Nat.add_mod, hf, Nat.zero_add, Nat.mod_mod, Nat.mod_eq_of_lt hi]

theorem readVarInt_appendVarInt (n flag i : Nat) (rest : Bytes) (hn : PrefixN n)
    (hflag : flag % 2 ^ n = 0) (hi : i < 2 ^ 62) :
    readVarInt n (appendVarInt n flag i ++ rest) = .ok (i, rest) := by
  have hn8 : n < 8 := by rcases hn with rfl | rfl | rfl | rfl <;> omega
  have hpos : 0 < 2 ^ n := Nat.pow_pos (by omega)
  unfold appendVarInt
  by_cases hk : i < 2 ^ n - 1
  · simp only [hk, ↓reduceIte, List.cons_append, List.nil_append, readVarInt, hn8]
    rw [add_mod_flag _ _ _ hflag (by omega)]
    simp [hk]
  · simp only [hk, ↓reduceIte, List.cons_append, readVarInt, hn8]
    rw [add_mod_flag _ _ _ hflag (by omega)]
    simp only [Nat.lt_irrefl, ↓reduceIte]
    rw [readVarIntLoop_varIntCont (i - (2 ^ n - 1)) (i - (2 ^ n - 1)) (2 ^ n - 1) 0 rest
      (Nat.le_refl _) (by omega) (by simp only [Nat.sub_zero]; omega)]
    congr 2
    simp only [Nat.pow_zero, Nat.mul_one]
    omega

/-- Shape of the first byte. -/
theorem appendVarInt_cons (n flag i : Nat) :
    ∃ hd tl, appendVarInt n flag i = hd :: tl ∧ flag ≤ hd ∧ hd ≤ flag + (2 ^ n - 1) := by
  unfold appendVarInt
  by_cases hk : i < 2 ^ n - 1
  · exact ⟨flag + i, [], by simp [hk], by omega, by omega⟩
  · exact ⟨flag + (2 ^ n - 1), varIntCont (i - (2 ^ n - 1)) (i - (2 ^ n - 1)), by simp [hk], by omega, by omega⟩

theorem appendVarInt_ne_nil (n flag i : Nat) : appendVarInt n flag i ≠ [] := by
  obtain ⟨hd, tl, h, _⟩ := appendVarInt_cons n flag i
  rw [h]; simp

/-! ### String literals -/

/-- What `readString` returns for `appendHpackString s`. -/
def ustringOf (s : Bytes) : UString :=
  if Huffman.encodeLength s < s.length then { isHuff := true, b := huffBytes s }
  else { isHuff := false, b := s }

theorem decodeString_ustringOf (s : Bytes) (hs : Proofs.C04.Bytes s) : decodeString 0 (ustringOf s) = .ok s := by
  unfold ustringOf
  split
  · simp only [decodeString, Bool.not_true, Bool.false_eq_true, ↓reduceIte, huffBytes]
    have := Proofs.C04.decode_encode s hs
    rw [Proofs.C04.decodeMax_zero, this]
  · simp [decodeString]

theorem encodeLength_le (s : Bytes) (h : Huffman.encodeLength s < s.length) : Huffman.encodeLength s < s.length := h

theorem readString_appendHpackString (s rest : Bytes) (hlen : s.length < 2 ^ 62) :
    readString 0 (appendHpackString s ++ rest) = .ok (ustringOf s, rest) := by
  unfold appendHpackString ustringOf
  by_cases hh : Huffman.encodeLength s < s.length
  · simp only [hh, ↓reduceIte]
    obtain ⟨hd, tl, hcons, hlo, hhi⟩ := appendVarInt_cons 7 128 (Huffman.encodeLength s)
    have hrv := readVarInt_appendVarInt 7 128 (Huffman.encodeLength s) (huffBytes s ++ rest)
      (Or.inr (Or.inr (Or.inr rfl))) (by decide) (by omega)
    rw [List.append_assoc]
    rw [hcons] at hrv ⊢
    simp only [List.cons_append] at hrv ⊢
    simp only [readString, hrv]
    have hl : (huffBytes s).length = Huffman.encodeLength s := by
      unfold huffBytes; exact (Proofs.C04.encodeLength_eq s).symm
    have h1 : ¬ ((huffBytes s ++ rest).length < Huffman.encodeLength s) := by
      simp only [List.length_append]; omega
    simp only [ne_eq, not_true_eq_false, false_and, ↓reduceIte, h1, Except.ok.injEq, Prod.mk.injEq,
      UString.mk.injEq]
    refine ⟨⟨by simp; omega, ?_⟩, ?_⟩
    · rw [← hl, List.take_left']
      rfl
    · rw [← hl, List.drop_left']
      rfl
  · simp only [hh, ↓reduceIte]
    obtain ⟨hd, tl, hcons, hlo, hhi⟩ := appendVarInt_cons 7 0 s.length
    have hrv := readVarInt_appendVarInt 7 0 s.length (s ++ rest)
      (Or.inr (Or.inr (Or.inr rfl))) (by decide) (by omega)
    rw [List.append_assoc]
    rw [hcons] at hrv ⊢
    simp only [List.cons_append] at hrv ⊢
    simp only [readString, hrv]
    have h1 : ¬ ((s ++ rest).length < s.length) := by
      simp only [List.length_append]; omega
    simp only [ne_eq, not_true_eq_false, false_and, ↓reduceIte, h1, Except.ok.injEq, Prod.mk.injEq,
      UString.mk.injEq]
    refine ⟨⟨by simp; omega, ?_⟩, ?_⟩
    · rw [List.take_left']; rfl
    · rw [List.drop_left']; rfl

end NetVerif.Proofs.Lemmas.HpackEnc
