import NetVerif.Model.HpackEnc
import NetVerif.Proofs.Lemmas.Hpack
import NetVerif.Proofs.C04
/-!
Lemmas for C01/C05: what the decoder model reads back from the encoder model's bytes.
* varints (`readVarInt_appendVarInt`), string literals (`readString_appendHpackString`),
* the five representation forms (`parseRepr_*`),
* table search (`searchTable_spec`), eviction as a simulation on "newest part" (`evict_prefix`).
-/
namespace NetVerif.Proofs.Lemmas.HpackEnc
open NetVerif.Model.Hpack NetVerif.Model.HpackEnc
open NetVerif.Model
open NetVerif

/-! ### Variable-length integers -/

theorem pow_split (a : Nat) (h : 7 ≤ a) : 2 ^ a = 2 ^ (a - 7) * 128 := by
  have : a = (a - 7) + 7 := by omega
  conv => lhs; rw [this, Nat.pow_add]

theorem readVarIntLoop_varIntCont : ∀ (fuel v acc m : Nat) (rest : Bytes), v ≤ fuel → m ≤ 63 → v < 2 ^ (63 - m) →
    readVarIntLoop (varIntCont fuel v ++ rest) acc m = .ok (acc + v * 2 ^ m, rest) := by
  intro fuel
  induction fuel with
  | zero =>
    intro v acc m rest hf _ _
    have : v = 0 := by omega
    subst this
    simp [varIntCont, readVarIntLoop]
  | succ fuel ih =>
    intro v acc m rest hf hm hv
    unfold varIntCont
    by_cases h128 : v ≥ 128
    · simp only [h128, ↓reduceIte, List.cons_append, readVarIntLoop]
      have hb : ¬ (128 + v % 128 < 128) := by omega
      have hmod : (128 + v % 128) % 128 = v % 128 := by omega
      have h7 : 7 < 63 - m := by
        apply Nat.lt_of_not_le
        intro hle
        have : 2 ^ (63 - m) ≤ 2 ^ 7 := Nat.pow_le_pow_right (by omega) hle
        omega
      have hov : ¬ (m + 7 ≥ 63) := by omega
      simp only [hb, hov, ↓reduceIte, hmod]
      have hsplit := pow_split (63 - m) (by omega)
      have hdiv : v / 128 < 2 ^ (63 - (m + 7)) := by
        have : 63 - (m + 7) = 63 - m - 7 := by omega
        rw [this]
        apply Nat.div_lt_of_lt_mul
        rw [Nat.mul_comm]
        rw [← hsplit]
        exact hv
      rw [ih (v / 128) _ (m + 7) rest (by omega) (by omega) hdiv]
      have hp : 2 ^ (m + 7) = 2 ^ m * 128 := by rw [Nat.pow_add]
      rw [hp]
      have hv' : v = 128 * (v / 128) + v % 128 := (Nat.div_add_mod v 128).symm
      generalize 2 ^ m = P
      congr 2
      conv => rhs; rw [hv']
      rw [Nat.add_mul, Nat.add_assoc, Nat.add_comm (v % 128 * P)]
      congr 1
      rw [Nat.mul_comm P 128, ← Nat.mul_assoc, Nat.mul_comm (v / 128) 128]
    · simp only [h128, ↓reduceIte, List.cons_append, readVarIntLoop]
      have hb : v < 128 := by omega
      have hmod : v % 128 = v := Nat.mod_eq_of_lt hb
      simp [hb, hmod]

/-- The prefix sizes the encoder uses. -/
def PrefixN (n : Nat) : Prop := n = 4 ∨ n = 5 ∨ n = 6 ∨ n = 7

theorem add_mod_flag (P flag i : Nat) (hf : flag % P = 0) (hi : i < P) : (flag + i) % P = i := by
  rw [Nat.add_mod, hf, Nat.zero_add, Nat.mod_mod, Nat.mod_eq_of_lt hi]

theorem readVarInt_appendVarInt (n flag i : Nat) (rest : Bytes) (hn : PrefixN n)
    (hflag : flag % 2 ^ n = 0) (hi : i < 2 ^ 62) :
    readVarInt n (appendVarInt n flag i ++ rest) = .ok (i, rest) := by
  have hn8 : n < 8 := by rcases hn with rfl | rfl | rfl | rfl <;> omega
  have hpos : 0 < 2 ^ n := Nat.pow_pos (by omega)
  unfold appendVarInt
  by_cases hk : i < 2 ^ n - 1
  · simp only [hk, ↓reduceIte, List.cons_append, List.nil_append, readVarInt, hn8]
    rw [add_mod_flag _ _ _ hflag (by omega)]
    simp [hk]
  · simp only [hk, ↓reduceIte, List.cons_append, readVarInt, hn8]
    rw [add_mod_flag _ _ _ hflag (by omega)]
    simp only [Nat.lt_irrefl, ↓reduceIte]
    rw [readVarIntLoop_varIntCont (i - (2 ^ n - 1)) (i - (2 ^ n - 1)) (2 ^ n - 1) 0 rest
      (Nat.le_refl _) (by omega) (by simp only [Nat.sub_zero]; omega)]
    congr 2
    simp only [Nat.pow_zero, Nat.mul_one]
    omega

/-- Shape of the first byte. -/
theorem appendVarInt_cons (n flag i : Nat) :
    ∃ hd tl, appendVarInt n flag i = hd :: tl ∧ flag ≤ hd ∧ hd ≤ flag + (2 ^ n - 1) := by
  unfold appendVarInt
  by_cases hk : i < 2 ^ n - 1
  · exact ⟨flag + i, [], by simp [hk], by omega, by omega⟩
  · exact ⟨flag + (2 ^ n - 1), varIntCont (i - (2 ^ n - 1)) (i - (2 ^ n - 1)), by simp [hk], by omega, by omega⟩

theorem appendVarInt_ne_nil (n flag i : Nat) : appendVarInt n flag i ≠ [] := by
  obtain ⟨hd, tl, h, _⟩ := appendVarInt_cons n flag i
  rw [h]; simp

/-! ### String literals -/

/-- What `readString` returns for `appendHpackString s`. -/
def ustringOf (s : Bytes) : UString :=
  if Huffman.encodeLength s < s.length then { isHuff := true, b := huffBytes s }
  else { isHuff := false, b := s }

theorem decodeString_ustringOf (s : Bytes) (hs : Proofs.C04.Bytes s) : decodeString 0 (ustringOf s) = .ok s := by
  unfold ustringOf
  split
  · simp only [decodeString, Bool.not_true, Bool.false_eq_true, ↓reduceIte, huffBytes]
    have := Proofs.C04.decode_appendHuffman s hs
    rw [Proofs.C04.decodeMax_zero, this]
  · simp [decodeString]

theorem readString_appendHpackString (s rest : Bytes) (hlen : s.length < 2 ^ 62) (hs : Proofs.C04.Bytes s) :
    readString 0 (appendHpackString s ++ rest) = .ok (ustringOf s, rest) := by
  unfold appendHpackString ustringOf
  by_cases hh : Huffman.encodeLength s < s.length
  · simp only [hh, ↓reduceIte]
    obtain ⟨hd, tl, hcons, hlo, hhi⟩ := appendVarInt_cons 7 128 (Huffman.encodeLength s)
    have hrv := readVarInt_appendVarInt 7 128 (Huffman.encodeLength s) (huffBytes s ++ rest)
      (Or.inr (Or.inr (Or.inr rfl))) (by decide) (by omega)
    rw [List.append_assoc]
    rw [hcons] at hrv ⊢
    simp only [List.cons_append] at hrv ⊢
    simp only [readString, hrv]
    have hl : (huffBytes s).length = Huffman.encodeLength s := by
      unfold huffBytes; rw [Proofs.C04.appendHuffman_eq_encode s hs]; exact (Proofs.C04.encodeLength_eq s).symm
    have h1 : ¬ ((huffBytes s ++ rest).length < Huffman.encodeLength s) := by
      simp only [List.length_append]; omega
    simp only [ne_eq, not_true_eq_false, false_and, ↓reduceIte, h1, Except.ok.injEq, Prod.mk.injEq,
      UString.mk.injEq]
    refine ⟨⟨by simp; omega, ?_⟩, ?_⟩
    · rw [← hl, List.take_left']
      rfl
    · rw [← hl, List.drop_left']
      rfl
  · simp only [hh, ↓reduceIte]
    obtain ⟨hd, tl, hcons, hlo, hhi⟩ := appendVarInt_cons 7 0 s.length
    have hrv := readVarInt_appendVarInt 7 0 s.length (s ++ rest)
      (Or.inr (Or.inr (Or.inr rfl))) (by decide) (by omega)
    rw [List.append_assoc]
    rw [hcons] at hrv ⊢
    simp only [List.cons_append] at hrv ⊢
    simp only [readString, hrv]
    have h1 : ¬ ((s ++ rest).length < s.length) := by
      simp only [List.length_append]; omega
    simp only [ne_eq, not_true_eq_false, false_and, ↓reduceIte, h1, Except.ok.injEq, Prod.mk.injEq,
      UString.mk.injEq]
    refine ⟨⟨by simp; omega, ?_⟩, ?_⟩
    · rw [List.take_left']; rfl
    · rw [List.drop_left']; rfl

/-! ### Representations -/

/-- Decoder configuration the round trip assumes: no string limit, emit enabled. -/
structure DecCfg (d : DecCore) : Prop where
  str : d.maxStrLen = 0
  emit : d.emitEnabled = true

theorem parseRepr_indexed (d : DecCore) (hc : DecCfg d) (idx : Nat) (e : Entry) (rest : Bytes)
    (hat : d.at idx = some e) (hidx : idx < 2 ^ 62) :
    parseRepr d (appendIndexed idx ++ rest) = .ok d rest (some { name := e.1, value := e.2 }) := by
  have hpa : parseAction d (appendIndexed idx ++ rest) = .ok (.indexed e, rest) := by
    unfold appendIndexed
    obtain ⟨hd, tl, hcons, hlo, _⟩ := appendVarInt_cons 7 128 idx
    have hrv := readVarInt_appendVarInt 7 128 idx rest (Or.inr (Or.inr (Or.inr rfl))) (by decide) hidx
    rw [hcons] at hrv ⊢
    simp only [List.cons_append] at hrv ⊢
    simp only [parseAction, show hd ≥ 128 from hlo, ↓reduceIte, Parser.bind, hrv, hat, Parser.pure]
  unfold parseRepr
  rw [hpa]
  simp [applyAction, finishEmit, callEmit, hc.str, hc.emit]

/-- The three literal forms. -/
inductive LitKind where
  | incr | without | never
  deriving DecidableEq, Repr

def LitKind.n : LitKind → Nat
  | .incr => 6
  | _ => 4

def LitKind.flag : LitKind → Nat
  | .incr => 64
  | .without => 0
  | .never => 16

def LitKind.it : LitKind → IndexType
  | .incr => .indexedTrue
  | .without => .indexedFalse
  | .never => .indexedNever

theorem LitKind.prefixN (k : LitKind) : PrefixN k.n := by
  cases k
  · exact Or.inr (Or.inr (Or.inl rfl))
  · exact Or.inl rfl
  · exact Or.inl rfl

theorem LitKind.flag_mod (k : LitKind) : k.flag % 2 ^ k.n = 0 := by cases k <;> decide

theorem parseAction_literal (d : DecCore) (k : LitKind) (hd : Nat) (p : Bytes)
    (hlo : k.flag ≤ hd) (hhi : hd ≤ k.flag + (2 ^ k.n - 1)) :
    parseAction d (hd :: p) = parseLiteral d k.n k.it (hd :: p) := by
  cases k
  · simp only [LitKind.flag, LitKind.n, LitKind.it] at *
    simp only [parseAction]
    rw [if_neg (by omega), if_pos (by omega)]
  · simp only [LitKind.flag, LitKind.n, LitKind.it] at *
    simp only [parseAction]
    rw [if_neg (by omega), if_neg (by omega), if_pos (by omega)]
  · simp only [LitKind.flag, LitKind.n, LitKind.it] at *
    simp only [parseAction]
    rw [if_neg (by omega), if_neg (by omega), if_neg (by omega), if_pos (by omega)]

theorem parseLiteral_idxName (d : DecCore) (hc : DecCfg d) (k : LitKind) (idx : Nat) (e : Entry)
    (value rest : Bytes) (hpos : 0 < idx) (hidx : idx < 2 ^ 62) (hat : d.at idx = some e)
    (hv : value.length < 2 ^ 62) (hvb : Proofs.C04.Bytes value) :
    parseLiteral d k.n k.it (appendVarInt k.n k.flag idx ++ (appendHpackString value ++ rest)) =
      .ok (.literal k.it (some e.1) { isHuff := false, b := [] } (ustringOf value), rest) := by
  unfold parseLiteral
  simp only [Parser.bind, readVarInt_appendVarInt k.n k.flag idx _ k.prefixN k.flag_mod hidx, hpos, ↓reduceIte, hat,
    hc.str, readString_appendHpackString value rest hv hvb, Parser.pure]

theorem parseLiteral_newName (d : DecCore) (hc : DecCfg d) (k : LitKind)
    (name value rest : Bytes) (hn : name.length < 2 ^ 62) (hv : value.length < 2 ^ 62)
    (hnb : Proofs.C04.Bytes name) (hvb : Proofs.C04.Bytes value) :
    parseLiteral d k.n k.it (k.flag :: (appendHpackString name ++ (appendHpackString value ++ rest))) =
      .ok (.literal k.it none (ustringOf name) (ustringOf value), rest) := by
  have h0 : k.flag :: (appendHpackString name ++ (appendHpackString value ++ rest)) =
      appendVarInt k.n k.flag 0 ++ (appendHpackString name ++ (appendHpackString value ++ rest)) := by
    unfold appendVarInt
    cases k <;> simp [LitKind.n, LitKind.flag]
  rw [h0]
  unfold parseLiteral
  simp only [Parser.bind, readVarInt_appendVarInt k.n k.flag 0 _ k.prefixN k.flag_mod (by omega), Nat.lt_irrefl,
    ↓reduceIte, hc.str, readString_appendHpackString name _ hn hnb, readString_appendHpackString value rest hv hvb,
    Parser.pure]

/-- The decoder state after a literal of kind `k` carrying `(name, value)`. -/
def afterLiteral (d : DecCore) (k : LitKind) (name value : Bytes) : DecCore :=
  match k with
  | .incr => { d with dyn := d.dyn.add (name, value) }
  | _ => d

theorem applyAction_literal (d : DecCore) (hc : DecCfg d) (k : LitKind) (tn : Option Bytes) (un uv : UString)
    (name value : Bytes)
    (hn : (∃ n, tn = some n ∧ n = name) ∨ (tn = none ∧ decodeString 0 un = .ok name))
    (hv : decodeString 0 uv = .ok value) :
    applyAction d (.literal k.it tn un uv) =
      .ok (afterLiteral d k name value) (some { name := name, value := value, sensitive := k.it.sensitive }) := by
  rcases hn with ⟨n, rfl, rfl⟩ | ⟨rfl, hn⟩
  · cases k <;>
      simp [applyAction, LitKind.it, afterLiteral, IndexType.indexed, IndexType.sensitive, hc.str, hc.emit, hv,
        finishEmit, callEmit]
  · cases k <;>
      simp [applyAction, LitKind.it, afterLiteral, IndexType.indexed, IndexType.sensitive, hc.str, hc.emit, hv, hn,
        finishEmit, callEmit]

theorem parseRepr_literal_idx (d : DecCore) (hc : DecCfg d) (k : LitKind) (idx : Nat) (e : Entry)
    (value rest : Bytes) (hpos : 0 < idx) (hidx : idx < 2 ^ 62) (hat : d.at idx = some e)
    (hv : value.length < 2 ^ 62) (hvb : Proofs.C04.Bytes value) :
    parseRepr d (appendVarInt k.n k.flag idx ++ (appendHpackString value ++ rest)) =
      .ok (afterLiteral d k e.1 value) rest (some { name := e.1, value := value, sensitive := k.it.sensitive }) := by
  have hpa : parseAction d (appendVarInt k.n k.flag idx ++ (appendHpackString value ++ rest)) =
      .ok (.literal k.it (some e.1) { isHuff := false, b := [] } (ustringOf value), rest) := by
    rw [← parseLiteral_idxName d hc k idx e value rest hpos hidx hat hv hvb]
    obtain ⟨hd, tl, hcons, hlo, hhi⟩ := appendVarInt_cons k.n k.flag idx
    rw [hcons]
    exact parseAction_literal d k hd _ hlo hhi
  unfold parseRepr
  rw [hpa]
  simp only
  rw [applyAction_literal d hc k (some e.1) _ _ e.1 value (Or.inl ⟨e.1, rfl, rfl⟩) (decodeString_ustringOf value hvb)]

theorem parseRepr_literal_new (d : DecCore) (hc : DecCfg d) (k : LitKind)
    (name value rest : Bytes) (hn : name.length < 2 ^ 62) (hv : value.length < 2 ^ 62)
    (hnb : Proofs.C04.Bytes name) (hvb : Proofs.C04.Bytes value) :
    parseRepr d (k.flag :: (appendHpackString name ++ (appendHpackString value ++ rest))) =
      .ok (afterLiteral d k name value) rest (some { name := name, value := value, sensitive := k.it.sensitive }) := by
  have hpa : parseAction d (k.flag :: (appendHpackString name ++ (appendHpackString value ++ rest))) =
      .ok (.literal k.it none (ustringOf name) (ustringOf value), rest) := by
    rw [← parseLiteral_newName d hc k name value rest hn hv hnb hvb]
    exact parseAction_literal d k k.flag _ (Nat.le_refl _) (by omega)
  unfold parseRepr
  rw [hpa]
  simp only
  rw [applyAction_literal d hc k none _ _ name value (Or.inr ⟨rfl, decodeString_ustringOf name hnb⟩)
    (decodeString_ustringOf value hvb)]

theorem parseRepr_sizeUpdate (d : DecCore) (v : Nat) (rest : Bytes) (hv : v ≤ d.dyn.allowedMaxSize)
    (hv62 : v < 2 ^ 62) (hok : d.firstField = true ∨ d.dyn.size = 0) :
    parseRepr d (appendTableSize v ++ rest) = .ok { d with dyn := d.dyn.setMaxSize v } rest none := by
  have hpa : parseAction d (appendTableSize v ++ rest) = .ok (.sizeUpdate v, rest) := by
    unfold appendTableSize
    obtain ⟨hd, tl, hcons, hlo, hhi⟩ := appendVarInt_cons 5 32 v
    have hrv := readVarInt_appendVarInt 5 32 v rest (Or.inr (Or.inl rfl)) (by decide) hv62
    rw [hcons] at hrv ⊢
    simp only [List.cons_append] at hrv ⊢
    simp only [Nat.reducePow, Nat.reduceSub, Nat.reduceAdd] at hhi
    simp only [parseAction]
    rw [if_neg (by omega), if_neg (by omega), if_neg (by omega), if_neg (by omega), if_pos (by omega)]
    have hnot : ¬ ((!d.firstField) = true ∧ d.dyn.size > 0) := by
      rcases hok with h | h
      · simp [h]
      · omega
    rw [if_neg hnot]
    simp only [Parser.bind, hrv, show ¬ v > d.dyn.allowedMaxSize by omega, ↓reduceIte, Parser.pure]
  unfold parseRepr
  rw [hpa]
  simp [applyAction]

theorem parseRepr_sizeUpdate_reject (d : DecCore) (v : Nat) (rest : Bytes)
    (hff : d.firstField = false) (hsz : d.dyn.size > 0) :
    parseRepr d (appendTableSize v ++ rest) = .err .updateNotAtStart d := by
  have hpa : parseAction d (appendTableSize v ++ rest) = .error .updateNotAtStart := by
    unfold appendTableSize
    obtain ⟨hd, tl, hcons, hlo, hhi⟩ := appendVarInt_cons 5 32 v
    rw [hcons]
    simp only [List.cons_append]
    simp only [Nat.reducePow, Nat.reduceSub, Nat.reduceAdd] at hhi
    simp only [parseAction]
    rw [if_neg (by omega), if_neg (by omega), if_neg (by omega), if_neg (by omega), if_pos (by omega)]
    rw [if_pos (by simp [hff, hsz])]
  unfold parseRepr
  rw [hpa]

/-! ### Table search -/

theorem firstIdxFrom_spec (p : Entry → Bool) : ∀ (l : List Entry) (pos : Nat), firstIdxFrom p l pos ≠ 0 →
    pos ≤ firstIdxFrom p l pos ∧ ∃ e, l[firstIdxFrom p l pos - pos]? = some e ∧ p e = true := by
  intro l
  induction l with
  | nil => intro pos h; simp [firstIdxFrom] at h
  | cons a t ih =>
    intro pos h
    unfold firstIdxFrom at h ⊢
    by_cases hp : p a = true
    · simp only [hp, ↓reduceIte] at h ⊢
      exact ⟨Nat.le_refl _, a, by simp, hp⟩
    · simp only [hp, Bool.false_eq_true, ↓reduceIte] at h ⊢
      obtain ⟨hle, e, hget, hpe⟩ := ih (pos + 1) h
      refine ⟨by omega, e, ?_, hpe⟩
      have : firstIdxFrom p t (pos + 1) - pos = (firstIdxFrom p t (pos + 1) - (pos + 1)) + 1 := by omega
      rw [this, List.getElem?_cons_succ]
      exact hget

theorem firstIdx_spec (p : Entry → Bool) (l : List Entry) (h : firstIdx p l ≠ 0) :
    ∃ e, l[firstIdx p l - 1]? = some e ∧ p e = true := (firstIdxFrom_spec p l 1 h).2

theorem lastIdxFrom_spec (p : Entry → Bool) : ∀ (l : List Entry) (pos acc : Nat),
    lastIdxFrom p l pos acc = acc ∨
      (pos ≤ lastIdxFrom p l pos acc ∧ ∃ e, l[lastIdxFrom p l pos acc - pos]? = some e ∧ p e = true) := by
  intro l
  induction l with
  | nil => intro pos acc; left; rfl
  | cons a t ih =>
    intro pos acc
    unfold lastIdxFrom
    by_cases hp : p a = true
    · simp only [hp, ↓reduceIte]
      rcases ih (pos + 1) pos with h | ⟨hle, e, hget, hpe⟩
      · right
        rw [h]
        exact ⟨Nat.le_refl _, a, by simp, hp⟩
      · right
        refine ⟨by omega, e, ?_, hpe⟩
        have : lastIdxFrom p t (pos + 1) pos - pos = (lastIdxFrom p t (pos + 1) pos - (pos + 1)) + 1 := by omega
        rw [this, List.getElem?_cons_succ]
        exact hget
    · simp only [hp, Bool.false_eq_true, ↓reduceIte]
      rcases ih (pos + 1) acc with h | ⟨hle, e, hget, hpe⟩
      · left; exact h
      · right
        refine ⟨by omega, e, ?_, hpe⟩
        have : lastIdxFrom p t (pos + 1) acc - pos = (lastIdxFrom p t (pos + 1) acc - (pos + 1)) + 1 := by omega
        rw [this, List.getElem?_cons_succ]
        exact hget

theorem lastIdx_spec (p : Entry → Bool) (l : List Entry) (h : lastIdx p l ≠ 0) :
    ∃ e, l[lastIdx p l - 1]? = some e ∧ p e = true := by
  rcases lastIdxFrom_spec p l 1 0 with h0 | ⟨_, e, hget, hpe⟩
  · exact absurd h0 h
  · exact ⟨e, hget, hpe⟩

theorem matchNV_iff (f : Field) (e : Entry) : matchNV f e = true ↔ e = (f.name, f.value) := by
  obtain ⟨a, b⟩ := e
  simp [matchNV]

theorem matchN_iff (f : Field) (e : Entry) : matchN f e = true ↔ e.1 = f.name := by
  simp [matchN]

/-- What a search result means for a decoder whose table has the searched list as its newest part:
`get i` is the lookup of the 1-based index `i` in the searched table. -/
theorem searchWith_spec (f : Field) (byNV byN : Nat) (get : Nat → Option Entry)
    (hnv : byNV ≠ 0 → get byNV = some (f.name, f.value))
    (hn : byN ≠ 0 → ∃ v, get byN = some (f.name, v)) :
    ((searchWith f byNV byN).2 = true → f.sensitive = false ∧ get (searchWith f byNV byN).1 = some (f.name, f.value)) ∧
    ((searchWith f byNV byN).2 = false → (searchWith f byNV byN).1 ≠ 0 →
      ∃ v, get (searchWith f byNV byN).1 = some (f.name, v)) := by
  unfold searchWith
  by_cases h1 : (!f.sensitive && byNV != 0) = true
  · simp only [h1, ↓reduceIte, true_implies, Bool.true_eq_false, false_implies, and_true]
    simp only [Bool.and_eq_true, Bool.not_eq_true', bne_iff_ne, ne_eq] at h1
    exact ⟨h1.1, hnv h1.2⟩
  · simp only [h1, Bool.false_eq_true, ↓reduceIte]
    by_cases h2 : (byN != 0) = true
    · simp only [h2, ↓reduceIte, Bool.false_eq_true, false_implies, true_implies, true_and]
      intro _
      exact hn (by simpa using h2)
    · simp [h2]

theorem staticSearch_spec (f : Field) :
    ((staticSearch f).2 = true → f.sensitive = false ∧ staticTable[(staticSearch f).1 - 1]? = some (f.name, f.value)) ∧
    ((staticSearch f).2 = false → (staticSearch f).1 ≠ 0 →
      ∃ v, staticTable[(staticSearch f).1 - 1]? = some (f.name, v)) := by
  unfold staticSearch
  apply searchWith_spec f _ _ (fun i => staticTable[i - 1]?)
  · intro h
    obtain ⟨e, hget, hpe⟩ := lastIdx_spec _ _ h
    rw [hget, (matchNV_iff f e).1 hpe]
  · intro h
    obtain ⟨e, hget, hpe⟩ := lastIdx_spec _ _ h
    refine ⟨e.2, ?_⟩
    rw [hget, ← (matchN_iff f e).1 hpe]

theorem dynSearch_spec (ents : List Entry) (f : Field) :
    ((dynSearch ents f).2 = true → f.sensitive = false ∧ ents[(dynSearch ents f).1 - 1]? = some (f.name, f.value)) ∧
    ((dynSearch ents f).2 = false → (dynSearch ents f).1 ≠ 0 →
      ∃ v, ents[(dynSearch ents f).1 - 1]? = some (f.name, v)) := by
  unfold dynSearch
  apply searchWith_spec f _ _ (fun i => ents[i - 1]?)
  · intro h
    obtain ⟨e, hget, hpe⟩ := firstIdx_spec _ _ h
    rw [hget, (matchNV_iff f e).1 hpe]
  · intro h
    obtain ⟨e, hget, hpe⟩ := firstIdx_spec _ _ h
    refine ⟨e.2, ?_⟩
    rw [hget, ← (matchN_iff f e).1 hpe]

theorem searchWith_true_ne_zero (f : Field) (a b : Nat) (h : (searchWith f a b).2 = true) : (searchWith f a b).1 ≠ 0 := by
  unfold searchWith at h ⊢
  by_cases h1 : (!f.sensitive && a != 0) = true
  · simp only [h1, ↓reduceIte]
    simp only [Bool.and_eq_true, bne_iff_ne, ne_eq] at h1
    exact h1.2
  · simp only [h1, Bool.false_eq_true, ↓reduceIte] at h
    split at h <;> simp at h

theorem at_static (d : DecCore) (i : Nat) (e : Entry) (hi : i ≠ 0) (h : staticTable[i - 1]? = some e) :
    d.at i = some e := by
  have hlt : i - 1 < staticTable.length := by
    rcases Nat.lt_or_ge (i - 1) staticTable.length with h' | h'
    · exact h'
    · rw [List.getElem?_eq_none h'] at h; cases h
  unfold DecCore.at
  rw [if_neg hi, if_pos (by omega)]
  exact h

theorem at_dynamic (d : DecCore) (j : Nat) (e : Entry) (hj : j ≠ 0) (h : d.dyn.ents[j - 1]? = some e) :
    d.at (j + staticTable.length) = some e := by
  have hlt : j - 1 < d.dyn.ents.length := by
    rcases Nat.lt_or_ge (j - 1) d.dyn.ents.length with h' | h'
    · exact h'
    · rw [List.getElem?_eq_none h'] at h; cases h
  unfold DecCore.at
  rw [if_neg (by omega), if_neg (by omega), if_neg (by omega)]
  have : j + staticTable.length - staticTable.length - 1 = j - 1 := by omega
  rw [this]
  exact h

theorem prefix_getElem? {α : Type} (l1 l2 : List α) (h : l1 <+: l2) (i : Nat) (a : α) (hi : l1[i]? = some a) :
    l2[i]? = some a := by
  obtain ⟨t, rfl⟩ := h
  have hlt : i < l1.length := by
    rcases Nat.lt_or_ge i l1.length with h' | h'
    · exact h'
    · rw [List.getElem?_eq_none h'] at hi; cases hi
  rw [List.getElem?_append_left hlt]
  exact hi

/-- **Search contract**: whatever index the encoder finds, a decoder whose dynamic table has the
encoder's table as its newest part resolves that index to the same name (and value). -/
theorem searchTable_spec (e : Encoder) (d : DecCore) (f : Field) (hpre : e.dyn.ents <+: d.dyn.ents) :
    ((e.searchTable f).2 = true → f.sensitive = false ∧ (e.searchTable f).1 ≠ 0 ∧
        d.at (e.searchTable f).1 = some (f.name, f.value)) ∧
    ((e.searchTable f).2 = false → (e.searchTable f).1 ≠ 0 → ∃ v, d.at (e.searchTable f).1 = some (f.name, v)) := by
  have hs := staticSearch_spec f
  have hd := dynSearch_spec e.dyn.ents f
  unfold Encoder.searchTable
  simp only
  by_cases h1 : (staticSearch f).2 = true
  · simp only [h1, ↓reduceIte, true_implies, Bool.true_eq_false, false_implies, and_true]
    have hne : (staticSearch f).1 ≠ 0 := searchWith_true_ne_zero _ _ _ h1
    exact ⟨(hs.1 h1).1, hne, at_static d _ _ hne (hs.1 h1).2⟩
  · simp only [h1, Bool.false_eq_true, ↓reduceIte]
    have h1' : (staticSearch f).2 = false := by simpa using h1
    by_cases h2 : ((dynSearch e.dyn.ents f).2 || ((staticSearch f).1 == 0 && (dynSearch e.dyn.ents f).1 != 0)) = true
    · simp only [h2, ↓reduceIte]
      by_cases h3 : (dynSearch e.dyn.ents f).2 = true
      · have hne : (dynSearch e.dyn.ents f).1 ≠ 0 := searchWith_true_ne_zero _ _ _ h3
        simp only [h3, true_implies, Bool.true_eq_false, false_implies, and_true]
        refine ⟨(hd.1 h3).1, by omega, ?_⟩
        exact at_dynamic d _ _ hne (prefix_getElem? _ _ hpre _ _ (hd.1 h3).2)
      · have h3' : (dynSearch e.dyn.ents f).2 = false := by simpa using h3
        simp only [h3', Bool.false_eq_true, false_implies, true_implies, true_and]
        intro _
        simp only [h3', Bool.false_or, Bool.and_eq_true, beq_iff_eq, bne_iff_ne, ne_eq] at h2
        obtain ⟨v, hv⟩ := hd.2 h3' h2.2
        exact ⟨v, at_dynamic d _ _ h2.2 (prefix_getElem? _ _ hpre _ _ hv)⟩
    · simp only [h2, Bool.false_eq_true, ↓reduceIte, false_implies, true_implies, true_and]
      intro hne
      obtain ⟨v, hv⟩ := hs.2 h1' hne
      exact ⟨v, at_static d _ _ hne hv⟩

/-- A name+value match is never reported for a sensitive field. -/
theorem searchTable_sensitive (e : Encoder) (f : Field) (hs : f.sensitive = true) : (e.searchTable f).2 = false := by
  have h1 : ∀ a b, (searchWith f a b).2 = false := by
    intro a b
    unfold searchWith
    simp only [hs, Bool.not_true, Bool.false_and, Bool.false_eq_true, ↓reduceIte]
    split <;> rfl
  unfold Encoder.searchTable staticSearch dynSearch
  simp only [h1, Bool.false_eq_true, ↓reduceIte, Bool.false_or]
  split <;> rfl

/-! ### Eviction -/

def sizeSum (es : List Entry) : Nat := (es.map entrySize).sum

theorem sizeSum_cons (a : Entry) (t : List Entry) : sizeSum (a :: t) = entrySize a + sizeSum t := by
  simp [sizeSum]

theorem sizeSum_reverse (l : List Entry) : sizeSum l.reverse = sizeSum l := by
  simp [sizeSum, List.map_reverse, List.sum_reverse]

theorem sizeSum_append (a b : List Entry) : sizeSum (a ++ b) = sizeSum a + sizeSum b := by
  simp [sizeSum]

theorem evictLoop_cons_gt (M : Nat) (a : Entry) (t : List Entry) (s : Nat) (h : s > M) :
    evictLoop M (a :: t) s = evictLoop M t (s - entrySize a) := by
  rw [evictLoop, if_pos h]

theorem evictLoop_cons_le (M : Nat) (a : Entry) (t : List Entry) (s : Nat) (h : ¬ s > M) :
    evictLoop M (a :: t) s = (a :: t, s) := by
  rw [evictLoop, if_neg h]

theorem evictLoop_suffix (M : Nat) : ∀ (l : List Entry) (s : Nat), (evictLoop M l s).1 <:+ l := by
  intro l
  induction l with
  | nil => intro s; simp [evictLoop]
  | cons a t ih =>
    intro s
    unfold evictLoop
    split
    · exact List.IsSuffix.trans (ih _) (List.suffix_cons a t)
    · exact List.suffix_refl _

theorem evictLoop_size (M : Nat) : ∀ (l : List Entry) (s : Nat), s = sizeSum l →
    (evictLoop M l s).2 = sizeSum (evictLoop M l s).1 ∧ (evictLoop M l s).2 ≤ M ∧ (evictLoop M l s).2 ≤ s := by
  intro l
  induction l with
  | nil => intro s h; simp [evictLoop, sizeSum] at *; omega
  | cons a t ih =>
    intro s h
    unfold evictLoop
    rw [sizeSum_cons] at h
    split
    · have := ih (s - entrySize a) (by omega)
      exact ⟨this.1, this.2.1, by omega⟩
    · exact ⟨by rw [sizeSum_cons]; exact h, by omega, Nat.le_refl _⟩

theorem evictLoop_fits (M : Nat) (l : List Entry) (s : Nat) (h : s ≤ M) : evictLoop M l s = (l, s) := by
  cases l with
  | nil => rfl
  | cons a t => unfold evictLoop; rw [if_neg (by omega)]

/-- Evicting with a smaller bound from the newest part gives a newest part. -/
theorem evictLoop_sim_same (Me Md : Nat) (hM : Me ≤ Md) : ∀ (l : List Entry),
    (evictLoop Me l (sizeSum l)).1 <:+ (evictLoop Md l (sizeSum l)).1 := by
  intro l
  induction l with
  | nil => simp [evictLoop]
  | cons a t ih =>
    rw [sizeSum_cons]
    by_cases hd : entrySize a + sizeSum t > Md
    · have he : entrySize a + sizeSum t > Me := by omega
      rw [evictLoop_cons_gt _ _ _ _ hd, evictLoop_cons_gt _ _ _ _ he]
      have : entrySize a + sizeSum t - entrySize a = sizeSum t := by omega
      rw [this]
      exact ih
    · rw [evictLoop_cons_le _ _ _ _ hd]
      exact evictLoop_suffix Me _ _

theorem evictLoop_sim (Me Md : Nat) (hM : Me ≤ Md) (le : List Entry) : ∀ (x : List Entry),
    (evictLoop Me le (sizeSum le)).1 <:+ (evictLoop Md (x ++ le) (sizeSum (x ++ le))).1 := by
  intro x
  induction x with
  | nil => exact evictLoop_sim_same Me Md hM le
  | cons a t ih =>
    rw [List.cons_append, sizeSum_cons]
    by_cases hd : entrySize a + sizeSum (t ++ le) > Md
    · rw [evictLoop_cons_gt _ _ _ _ hd]
      have : entrySize a + sizeSum (t ++ le) - entrySize a = sizeSum (t ++ le) := by omega
      rw [this]
      exact ih
    · rw [evictLoop_cons_le _ _ _ _ hd]
      exact List.IsSuffix.trans (evictLoop_suffix Me _ _)
        (List.IsSuffix.trans (List.suffix_append t le) (List.suffix_cons a _))

/-- `size` is the sum of the entry sizes. -/
def SizeOK (dt : DynTable) : Prop := dt.size = sizeSum dt.ents

theorem evict_sizeOK (dt : DynTable) (h : SizeOK dt) :
    SizeOK dt.evict ∧ dt.evict.size ≤ dt.maxSize ∧ dt.evict.size ≤ dt.size ∧ dt.evict.maxSize = dt.maxSize ∧
      dt.evict.allowedMaxSize = dt.allowedMaxSize := by
  have := evictLoop_size dt.maxSize dt.ents.reverse dt.size (by rw [sizeSum_reverse]; exact h)
  refine ⟨?_, this.2.1, this.2.2, rfl, rfl⟩
  show (evictLoop dt.maxSize dt.ents.reverse dt.size).2 = sizeSum (evictLoop dt.maxSize dt.ents.reverse dt.size).1.reverse
  rw [sizeSum_reverse]
  exact this.1

/-- **Eviction preserves "the encoder's table is the newest part of the decoder's table"**, provided the
encoder's bound is not larger. -/
theorem evict_prefix (te td : DynTable) (he : SizeOK te) (hd : SizeOK td) (hpre : te.ents <+: td.ents)
    (hM : te.maxSize ≤ td.maxSize) : te.evict.ents <+: td.evict.ents := by
  obtain ⟨x, hx⟩ := hpre
  unfold DynTable.evict
  simp only
  rw [List.reverse_prefix]
  have hrev : td.ents.reverse = x.reverse ++ te.ents.reverse := by rw [← hx, List.reverse_append]
  rw [he, hd, ← sizeSum_reverse te.ents, ← sizeSum_reverse td.ents, hrev]
  exact evictLoop_sim te.maxSize td.maxSize hM te.ents.reverse x.reverse

theorem add_prefix (te td : DynTable) (x : Entry) (he : SizeOK te) (hd : SizeOK td) (hpre : te.ents <+: td.ents)
    (hM : te.maxSize ≤ td.maxSize) : (te.add x).ents <+: (td.add x).ents := by
  unfold DynTable.add
  apply evict_prefix
  · show te.size + entrySize x = sizeSum (x :: te.ents)
    rw [sizeSum_cons, he]; omega
  · show td.size + entrySize x = sizeSum (x :: td.ents)
    rw [sizeSum_cons, hd]; omega
  · obtain ⟨t, ht⟩ := hpre
    exact ⟨t, by simp [← ht]⟩
  · exact hM

theorem add_sizeOK (dt : DynTable) (x : Entry) (h : SizeOK dt) :
    SizeOK (dt.add x) ∧ (dt.add x).size ≤ dt.maxSize ∧ (dt.add x).maxSize = dt.maxSize ∧
      (dt.add x).allowedMaxSize = dt.allowedMaxSize := by
  have h' : SizeOK { dt with ents := x :: dt.ents, size := dt.size + entrySize x } := by
    show dt.size + entrySize x = sizeSum (x :: dt.ents)
    rw [sizeSum_cons, h]; omega
  have := evict_sizeOK _ h'
  exact ⟨this.1, this.2.1, this.2.2.2.1, this.2.2.2.2⟩

theorem setMaxSize_sizeOK (dt : DynTable) (v : Nat) (h : SizeOK dt) :
    SizeOK (dt.setMaxSize v) ∧ (dt.setMaxSize v).size ≤ v ∧ (dt.setMaxSize v).size ≤ dt.size ∧
      (dt.setMaxSize v).maxSize = v ∧ (dt.setMaxSize v).allowedMaxSize = dt.allowedMaxSize := by
  have h' : SizeOK { dt with maxSize := v } := h
  exact evict_sizeOK _ h'

/-- A table that already fits is not touched by `evict`. -/
theorem evict_fits (dt : DynTable) (h : dt.size ≤ dt.maxSize) : dt.evict = dt := by
  unfold DynTable.evict
  rw [evictLoop_fits _ _ _ h]
  simp

/-- The decoder applying the bound the encoder already applied keeps the encoder's table as its newest part. -/
theorem setMaxSize_prefix (te td : DynTable) (v : Nat) (he : SizeOK te) (hd : SizeOK td)
    (hpre : te.ents <+: td.ents) (hfit : te.size ≤ v) : te.ents <+: (td.setMaxSize v).ents := by
  have h := evict_prefix { te with maxSize := v } { td with maxSize := v } he hd hpre (Nat.le_refl _)
  rw [evict_fits { te with maxSize := v } hfit] at h
  exact h

theorem sizeSum_zero (l : List Entry) (h : sizeSum l = 0) : l = [] := by
  cases l with
  | nil => rfl
  | cons a t => rw [sizeSum_cons] at h; unfold entrySize at h; omega

theorem sizeSum_ge (l : List Entry) : 32 * l.length ≤ sizeSum l := by
  induction l with
  | nil => simp [sizeSum]
  | cons a t ih => rw [sizeSum_cons]; unfold entrySize; simp only [List.length_cons]; omega

theorem evict_ents_prefix (dt : DynTable) : dt.evict.ents <+: dt.ents := by
  unfold DynTable.evict
  simp only
  rw [← List.reverse_suffix, List.reverse_reverse]
  exact evictLoop_suffix _ _ _

theorem setMaxSize_ents_prefix (dt : DynTable) (v : Nat) : (dt.setMaxSize v).ents <+: dt.ents :=
  evict_ents_prefix { dt with maxSize := v }

theorem at_le (d : DecCore) (i : Nat) (e : Entry) (h : d.at i = some e) :
    i ≤ d.dyn.ents.length + staticTable.length := by
  unfold DecCore.at at h
  by_cases h0 : i = 0
  · simp [h0] at h
  · rw [if_neg h0] at h
    by_cases h1 : i ≤ staticTable.length
    · omega
    · rw [if_neg h1] at h
      by_cases h2 : i > d.dyn.ents.length + staticTable.length
      · rw [if_pos h2] at h; cases h
      · omega

theorem staticTable_length : staticTable.length = 61 := by decide

/-! ### The Write loop -/

open NetVerif.Proofs.Lemmas.Hpack in
theorem loopG_step (par : Bool) (d d' : DecCore) (buf rest : Bytes) (em : Option Field) (acc : List Field)
    (h : parseRepr d buf = .ok d' rest em) (hlt : rest.length < buf.length) :
    loopG par d buf acc = loopG par (afterRepr buf d') rest (acc ++ optToList em) := by
  rw [loopG_eq]
  have hne : buf ≠ [] := by intro h0; subst h0; simp at hlt
  rw [if_neg hne, h]
  simp only [hlt, ↓reduceIte]

open NetVerif.Proofs.Lemmas.Hpack in
theorem loopG_nil (par : Bool) (d : DecCore) (acc : List Field) : loopG par d [] acc = (d, acc, .saved []) := by
  rw [loopG_eq]; simp

open NetVerif.Proofs.Lemmas.Hpack in
theorem loopG_err (par : Bool) (d d' : DecCore) (buf : Bytes) (e : PErr) (acc : List Field) (hne : buf ≠ [])
    (h : parseRepr d buf = .err e d') :
    loopG par d buf acc = (afterRepr buf d', acc, .err e) := by
  rw [loopG_eq, if_neg hne, h]

open NetVerif.Proofs.Lemmas.Hpack in
theorem write_eq (d : Decoder) (p : Bytes) (hp : p ≠ []) :
    d.write p = finishWrite (loopG true d.toDecCore (d.saveBuf ++ p) []) := by
  unfold Decoder.write Decoder.writeG loopG
  simp [hp]

theorem isSizeUpdate_appendTableSize (v : Nat) (rest : Bytes) : isSizeUpdate (appendTableSize v ++ rest) = true := by
  obtain ⟨hd, tl, hcons, hlo, hhi⟩ := appendVarInt_cons 5 32 v
  unfold appendTableSize
  rw [hcons]
  simp only [Nat.reducePow, Nat.reduceSub, Nat.reduceAdd] at hhi
  have : hd / 32 = 1 := by omega
  simp [isSizeUpdate, this]

/-- A table size update keeps `firstField` (the repaired `Decoder.Write`). -/
theorem afterRepr_update (v : Nat) (rest : Bytes) (d : DecCore) : afterRepr (appendTableSize v ++ rest) d = d := by
  unfold afterRepr
  rw [isSizeUpdate_appendTableSize]
  rfl

end NetVerif.Proofs.Lemmas.HpackEnc
