import NetVerif.Model.HpackEnc
import NetVerif.Proofs.Lemmas.Hpack
import NetVerif.Proofs.C04
/-!
Lemmas for C01/C05: what the decoder model reads back from the encoder model's bytes.
* varints (`readVarInt_appendVarInt`), string literals (`readString_appendHpackString`),
* the five representation forms (`parseRepr_*`),
* table search (`searchTable_spec`), eviction as a simulation on "newest part" (`evict_prefix`).
-/
namespace NetVerif.Proofs.Lemmas.HpackEnc
open NetVerif.Model.Hpack NetVerif.Model.HpackEnc
open NetVerif.Model
open NetVerif

/-! ### Variable-length integers -/

theorem pow_split (a : Nat) (h : 7 ≤ a) : 2 ^ a = 2 ^ (a - 7) * 128 := by
  have : a = (a - 7) + 7 := by omega
  conv => lhs; rw [this, Nat.pow_add]

theorem readVarIntLoop_varIntCont : ∀ (fuel v acc m : Nat) (rest : Bytes), v ≤ fuel → m ≤ 63 → v < 2 ^ (63 - m) →
    readVarIntLoop (varIntCont fuel v ++ rest) acc m = .ok (acc + v * 2 ^ m, rest) := by
  intro fuel
  induction fuel with
  | zero =>
    intro v acc m rest hf _ _
    have : v = 0 := by omega
    subst this
    simp [varIntCont, readVarIntLoop]
  | succ fuel ih =>
    intro v acc m rest hf hm hv
    unfold varIntCont
    by_cases h128 : v ≥ 128
    · simp only [h128, ↓reduceIte, List.cons_append, readVarIntLoop]
      have hb : ¬ (128 + v % 128 < 128) := by omega
      have hmod : (128 + v % 128) % 128 = v % 128 := by omega
      have h7 : 7 < 63 - m := by
        apply Nat.lt_of_not_le
        intro hle
        have : 2 ^ (63 - m) ≤ 2 ^ 7 := Nat.pow_le_pow_right (by omega) hle
        omega
      have hov : ¬ (m + 7 ≥ 63) := by omega
      simp only [hb, hov, ↓reduceIte, hmod]
      have hsplit := pow_split (63 - m) (by omega)
      have hdiv : v / 128 < 2 ^ (63 - (m + 7)) := by
        have : 63 - (m + 7) = 63 - m - 7 := by omega
        rw [this]
        apply Nat.div_lt_of_lt_mul
        rw [Nat.mul_comm]
        rw [← hsplit]
        exact hv
      rw [ih (v / 128) _ (m + 7) rest (by omega) (by omega) hdiv]
      have hp : 2 ^ (m + 7) = 2 ^ m * 128 := by rw [Nat.pow_add]
      rw [hp]
      have hv' : v = 128 * (v / 128) + v % 128 := (Nat.div_add_mod v 128).symm
      generalize 2 ^ m = P
      congr 2
      conv => rhs; rw [hv']
      rw [Nat.add_mul, Nat.add_assoc, Nat.add_comm (v % 128 * P)]
      congr 1
      rw [Nat.mul_comm P 128, ← Nat.mul_assoc, Nat.mul_comm (v / 128) 128]
    · simp only [h128, ↓reduceIte, List.cons_append, readVarIntLoop]
      have hb : v < 128 := by omega
      have hmod : v % 128 = v := Nat.mod_eq_of_lt hb
      simp [hb, hmod]

/-- The prefix sizes the encoder uses. -/
def PrefixN (n : Nat) : Prop := n = 4 ∨ n = 5 ∨ n = 6 ∨ n = 7

theorem add_mod_flag (P flag i : Nat) (hf : flag % P = 0) (hi : i < P) : (flag + i) % P = i := by
  rw [Nat.add_mod, hf, Nat.zero_add, Nat.mod_mod, Nat.mod_eq_of_lt hi]

theorem readVarInt_appendVarInt (n flag i : Nat) (rest : Bytes) (hn : PrefixN n)
    (hflag : flag % 2 ^ n = 0) (hi : i < 2 ^ 62) :
    readVarInt n (appendVarInt n flag i ++ rest) = .ok (i, rest) := by
  have hn8 : n < 8 := by rcases hn with rfl | rfl | rfl | rfl <;> omega
  have hpos : 0 < 2 ^ n := Nat.pow_pos (by omega)
  unfold appendVarInt
  by_cases hk : i < 2 ^ n - 1
  · simp only [hk, ↓reduceIte, List.cons_append, List.nil_append, readVarInt, hn8]
    rw [add_mod_flag _ _ _ hflag (by omega)]
    simp [hk]
  · simp only [hk, ↓reduceIte, List.cons_append, readVarInt, hn8]
    rw [add_mod_flag _ _ _ hflag (by omega)]
    simp only [Nat.lt_irrefl, ↓reduceIte]
    rw [readVarIntLoop_varIntCont (i - (2 ^ n - 1)) (i - (2 ^ n - 1)) (2 ^ n - 1) 0 rest
      (Nat.le_refl _) (by omega) (by simp only [Nat.sub_zero]; omega)]
    congr 2
    simp only [Nat.pow_zero, Nat.mul_one]
    omega

/-- Shape of the first byte. -/
theorem appendVarInt_cons (n flag i : Nat) :
    ∃ hd tl, appendVarInt n flag i = hd :: tl ∧ flag ≤ hd ∧ hd ≤ flag + (2 ^ n - 1) := by
  unfold appendVarInt
  by_cases hk : i < 2 ^ n - 1
  · exact ⟨flag + i, [], by simp [hk], by omega, by omega⟩
  · exact ⟨flag + (2 ^ n - 1), varIntCont (i - (2 ^ n - 1)) (i - (2 ^ n - 1)), by simp [hk], by omega, by omega⟩

theorem appendVarInt_ne_nil (n flag i : Nat) : appendVarInt n flag i ≠ [] := by
  obtain ⟨hd, tl, h, _⟩ := appendVarInt_cons n flag i
  rw [h]; simp

/-! ### String literals -/

/-- What `readString` returns for `appendHpackString s`. -/
def ustringOf (s : Bytes) : UString :=
  if Huffman.encodeLength s < s.length then { isHuff := true, b := huffBytes s }
  else { isHuff := false, b := s }

theorem decodeString_ustringOf (s : Bytes) (hs : Proofs.C04.Bytes s) : decodeString 0 (ustringOf s) = .ok s := by
  unfold ustringOf
  split
  · simp only [decodeString, Bool.not_true, Bool.false_eq_true, ↓reduceIte, huffBytes]
    have := Proofs.C04.decode_encode s hs
    rw [Proofs.C04.decodeMax_zero, this]
  · simp [decodeString]

theorem readString_appendHpackString (s rest : Bytes) (hlen : s.length < 2 ^ 62) :
    readString 0 (appendHpackString s ++ rest) = .ok (ustringOf s, rest) := by
  unfold appendHpackString ustringOf
  by_cases hh : Huffman.encodeLength s < s.length
  · simp only [hh, ↓reduceIte]
    obtain ⟨hd, tl, hcons, hlo, hhi⟩ := appendVarInt_cons 7 128 (Huffman.encodeLength s)
    have hrv := readVarInt_appendVarInt 7 128 (Huffman.encodeLength s) (huffBytes s ++ rest)
      (Or.inr (Or.inr (Or.inr rfl))) (by decide) (by omega)
    rw [List.append_assoc]
    rw [hcons] at hrv ⊢
    simp only [List.cons_append] at hrv ⊢
    simp only [readString, hrv]
    have hl : (huffBytes s).length = Huffman.encodeLength s := by
      unfold huffBytes; exact (Proofs.C04.encodeLength_eq s).symm
    have h1 : ¬ ((huffBytes s ++ rest).length < Huffman.encodeLength s) := by
      simp only [List.length_append]; omega
    simp only [ne_eq, not_true_eq_false, false_and, ↓reduceIte, h1, Except.ok.injEq, Prod.mk.injEq,
      UString.mk.injEq]
    refine ⟨⟨by simp; omega, ?_⟩, ?_⟩
    · rw [← hl, List.take_left']
      rfl
    · rw [← hl, List.drop_left']
      rfl
  · simp only [hh, ↓reduceIte]
    obtain ⟨hd, tl, hcons, hlo, hhi⟩ := appendVarInt_cons 7 0 s.length
    have hrv := readVarInt_appendVarInt 7 0 s.length (s ++ rest)
      (Or.inr (Or.inr (Or.inr rfl))) (by decide) (by omega)
    rw [List.append_assoc]
    rw [hcons] at hrv ⊢
    simp only [List.cons_append] at hrv ⊢
    simp only [readString, hrv]
    have h1 : ¬ ((s ++ rest).length < s.length) := by
      simp only [List.length_append]; omega
    simp only [ne_eq, not_true_eq_false, false_and, ↓reduceIte, h1, Except.ok.injEq, Prod.mk.injEq,
      UString.mk.injEq]
    refine ⟨⟨by simp; omega, ?_⟩, ?_⟩
    · rw [List.take_left']; rfl
    · rw [List.drop_left']; rfl

/-! ### Representations -/

/-- Decoder configuration the round trip assumes: no string limit, emit enabled. -/
structure DecCfg (d : DecCore) : Prop where
  str : d.maxStrLen = 0
  emit : d.emitEnabled = true

theorem parseRepr_indexed (d : DecCore) (hc : DecCfg d) (idx : Nat) (e : Entry) (rest : Bytes)
    (hat : d.at idx = some e) (hidx : idx < 2 ^ 62) :
    parseRepr d (appendIndexed idx ++ rest) = .ok d rest (some { name := e.1, value := e.2 }) := by
  have hpa : parseAction d (appendIndexed idx ++ rest) = .ok (.indexed e, rest) := by
    unfold appendIndexed
    obtain ⟨hd, tl, hcons, hlo, _⟩ := appendVarInt_cons 7 128 idx
    have hrv := readVarInt_appendVarInt 7 128 idx rest (Or.inr (Or.inr (Or.inr rfl))) (by decide) hidx
    rw [hcons] at hrv ⊢
    simp only [List.cons_append] at hrv ⊢
    simp only [parseAction, show hd ≥ 128 from hlo, ↓reduceIte, Parser.bind, hrv, hat, Parser.pure]
  unfold parseRepr
  rw [hpa]
  simp [applyAction, finishEmit, callEmit, hc.str, hc.emit]

/-- The three literal forms. -/
inductive LitKind where
  | incr | without | never
  deriving DecidableEq, Repr

def LitKind.n : LitKind → Nat
  | .incr => 6
  | _ => 4

def LitKind.flag : LitKind → Nat
  | .incr => 64
  | .without => 0
  | .never => 16

def LitKind.it : LitKind → IndexType
  | .incr => .indexedTrue
  | .without => .indexedFalse
  | .never => .indexedNever

theorem LitKind.prefixN (k : LitKind) : PrefixN k.n := by
  cases k
  · exact Or.inr (Or.inr (Or.inl rfl))
  · exact Or.inl rfl
  · exact Or.inl rfl

theorem LitKind.flag_mod (k : LitKind) : k.flag % 2 ^ k.n = 0 := by cases k <;> decide

theorem parseAction_literal (d : DecCore) (k : LitKind) (hd : Nat) (p : Bytes)
    (hlo : k.flag ≤ hd) (hhi : hd ≤ k.flag + (2 ^ k.n - 1)) :
    parseAction d (hd :: p) = parseLiteral d k.n k.it (hd :: p) := by
  cases k
  · simp only [LitKind.flag, LitKind.n, LitKind.it] at *
    simp only [parseAction]
    rw [if_neg (by omega), if_pos (by omega)]
  · simp only [LitKind.flag, LitKind.n, LitKind.it] at *
    simp only [parseAction]
    rw [if_neg (by omega), if_neg (by omega), if_pos (by omega)]
  · simp only [LitKind.flag, LitKind.n, LitKind.it] at *
    simp only [parseAction]
    rw [if_neg (by omega), if_neg (by omega), if_neg (by omega), if_pos (by omega)]

theorem parseLiteral_idxName (d : DecCore) (hc : DecCfg d) (k : LitKind) (idx : Nat) (e : Entry)
    (value rest : Bytes) (hpos : 0 < idx) (hidx : idx < 2 ^ 62) (hat : d.at idx = some e)
    (hv : value.length < 2 ^ 62) :
    parseLiteral d k.n k.it (appendVarInt k.n k.flag idx ++ (appendHpackString value ++ rest)) =
      .ok (.literal k.it (some e.1) { isHuff := false, b := [] } (ustringOf value), rest) := by
  unfold parseLiteral
  simp only [Parser.bind, readVarInt_appendVarInt k.n k.flag idx _ k.prefixN k.flag_mod hidx, hpos, ↓reduceIte, hat,
    hc.str, readString_appendHpackString value rest hv, Parser.pure]

theorem parseLiteral_newName (d : DecCore) (hc : DecCfg d) (k : LitKind)
    (name value rest : Bytes) (hn : name.length < 2 ^ 62) (hv : value.length < 2 ^ 62) :
    parseLiteral d k.n k.it (k.flag :: (appendHpackString name ++ (appendHpackString value ++ rest))) =
      .ok (.literal k.it none (ustringOf name) (ustringOf value), rest) := by
  have h0 : k.flag :: (appendHpackString name ++ (appendHpackString value ++ rest)) =
      appendVarInt k.n k.flag 0 ++ (appendHpackString name ++ (appendHpackString value ++ rest)) := by
    unfold appendVarInt
    cases k <;> simp [LitKind.n, LitKind.flag]
  rw [h0]
  unfold parseLiteral
  simp only [Parser.bind, readVarInt_appendVarInt k.n k.flag 0 _ k.prefixN k.flag_mod (by omega), Nat.lt_irrefl,
    ↓reduceIte, hc.str, readString_appendHpackString name _ hn, readString_appendHpackString value rest hv,
    Parser.pure]

/-- The decoder state after a literal of kind `k` carrying `(name, value)`. -/
def afterLiteral (d : DecCore) (k : LitKind) (name value : Bytes) : DecCore :=
  match k with
  | .incr => { d with dyn := d.dyn.add (name, value) }
  | _ => d

theorem applyAction_literal (d : DecCore) (hc : DecCfg d) (k : LitKind) (tn : Option Bytes) (un uv : UString)
    (name value : Bytes)
    (hn : (∃ n, tn = some n ∧ n = name) ∨ (tn = none ∧ decodeString 0 un = .ok name))
    (hv : decodeString 0 uv = .ok value) :
    applyAction d (.literal k.it tn un uv) =
      .ok (afterLiteral d k name value) (some { name := name, value := value, sensitive := k.it.sensitive }) := by
  rcases hn with ⟨n, rfl, rfl⟩ | ⟨rfl, hn⟩ <;>
  · cases k <;>
      simp [applyAction, LitKind.it, afterLiteral, IndexType.indexed, IndexType.sensitive, hc.str, hc.emit, hv, hn,
        finishEmit, callEmit]

theorem parseRepr_literal_idx (d : DecCore) (hc : DecCfg d) (k : LitKind) (idx : Nat) (e : Entry)
    (value rest : Bytes) (hpos : 0 < idx) (hidx : idx < 2 ^ 62) (hat : d.at idx = some e)
    (hv : value.length < 2 ^ 62) (hvb : Proofs.C04.Bytes value) :
    parseRepr d (appendVarInt k.n k.flag idx ++ (appendHpackString value ++ rest)) =
      .ok (afterLiteral d k e.1 value) rest (some { name := e.1, value := value, sensitive := k.it.sensitive }) := by
  have hpa : parseAction d (appendVarInt k.n k.flag idx ++ (appendHpackString value ++ rest)) =
      .ok (.literal k.it (some e.1) { isHuff := false, b := [] } (ustringOf value), rest) := by
    rw [← parseLiteral_idxName d hc k idx e value rest hpos hidx hat hv]
    obtain ⟨hd, tl, hcons, hlo, hhi⟩ := appendVarInt_cons k.n k.flag idx
    rw [hcons]
    exact parseAction_literal d k hd _ hlo hhi
  unfold parseRepr
  rw [hpa]
  simp only
  rw [applyAction_literal d hc k (some e.1) _ _ e.1 value (Or.inl ⟨e.1, rfl, rfl⟩) (decodeString_ustringOf value hvb)]

theorem parseRepr_literal_new (d : DecCore) (hc : DecCfg d) (k : LitKind)
    (name value rest : Bytes) (hn : name.length < 2 ^ 62) (hv : value.length < 2 ^ 62)
    (hnb : Proofs.C04.Bytes name) (hvb : Proofs.C04.Bytes value) :
    parseRepr d (k.flag :: (appendHpackString name ++ (appendHpackString value ++ rest))) =
      .ok (afterLiteral d k name value) rest (some { name := name, value := value, sensitive := k.it.sensitive }) := by
  have hpa : parseAction d (k.flag :: (appendHpackString name ++ (appendHpackString value ++ rest))) =
      .ok (.literal k.it none (ustringOf name) (ustringOf value), rest) := by
    rw [← parseLiteral_newName d hc k name value rest hn hv]
    exact parseAction_literal d k k.flag _ (Nat.le_refl _) (by omega)
  unfold parseRepr
  rw [hpa]
  simp only
  rw [applyAction_literal d hc k none _ _ name value (Or.inr ⟨rfl, decodeString_ustringOf name hnb⟩)
    (decodeString_ustringOf value hvb)]

theorem parseRepr_sizeUpdate (d : DecCore) (v : Nat) (rest : Bytes) (hv : v ≤ d.dyn.allowedMaxSize)
    (hv62 : v < 2 ^ 62) (hok : d.firstField = true ∨ d.dyn.size = 0) :
    parseRepr d (appendTableSize v ++ rest) = .ok { d with dyn := d.dyn.setMaxSize v } rest none := by
  have hpa : parseAction d (appendTableSize v ++ rest) = .ok (.sizeUpdate v, rest) := by
    unfold appendTableSize
    obtain ⟨hd, tl, hcons, hlo, hhi⟩ := appendVarInt_cons 5 32 v
    have hrv := readVarInt_appendVarInt 5 32 v rest (Or.inr (Or.inl rfl)) (by decide) hv62
    rw [hcons] at hrv ⊢
    simp only [List.cons_append] at hrv ⊢
    simp only [Nat.reducePow, Nat.reduceSub, Nat.reduceAdd] at hhi
    simp only [parseAction]
    rw [if_neg (by omega), if_neg (by omega), if_neg (by omega), if_neg (by omega), if_pos (by omega)]
    have hnot : ¬ ((!d.firstField) = true ∧ d.dyn.size > 0) := by
      rcases hok with h | h
      · simp [h]
      · omega
    rw [if_neg hnot]
    simp only [Parser.bind, hrv, show ¬ v > d.dyn.allowedMaxSize by omega, ↓reduceIte, Parser.pure]
  unfold parseRepr
  rw [hpa]
  simp [applyAction]

theorem parseRepr_sizeUpdate_reject (d : DecCore) (v : Nat) (rest : Bytes)
    (hff : d.firstField = false) (hsz : d.dyn.size > 0) :
    parseRepr d (appendTableSize v ++ rest) = .err .updateNotAtStart d := by
  have hpa : parseAction d (appendTableSize v ++ rest) = .error .updateNotAtStart := by
    unfold appendTableSize
    obtain ⟨hd, tl, hcons, hlo, hhi⟩ := appendVarInt_cons 5 32 v
    rw [hcons]
    simp only [List.cons_append]
    simp only [Nat.reducePow, Nat.reduceSub, Nat.reduceAdd] at hhi
    simp only [parseAction]
    rw [if_neg (by omega), if_neg (by omega), if_neg (by omega), if_neg (by omega), if_pos (by omega)]
    rw [if_pos (by simp [hff, hsz])]
  unfold parseRepr
  rw [hpa]

end NetVerif.Proofs.Lemmas.HpackEnc
