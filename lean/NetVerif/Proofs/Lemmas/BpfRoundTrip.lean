import NetVerif.Model.Bpf
import NetVerif.Proofs.Lemmas.Bpf
/-!
Helper lemmas for C48 (bpf Assemble / Disassemble are inverse on canonical forms):

* L1 `canonTyped_disasm`      : whatever `Disassemble` returns is a canonical typed value
* L2 `disasm_asm_of_canon`    : canonical typed value  ⇒ `disasmCore (asm i) = i`
* L3 `canonRaw_asm`           : canonical typed value  ⇒ its encoding is a canonical raw instruction
* L4 `asm_disasm_of_canon`    : canonical raw instruction ⇒ `asm (disasmCore r) = r`

Opcode fields are handled symbolically: the masks are rewritten to div/mod
(`Lemmas/Bpf.lean`) and `omega` does the rest; no enumeration of opcodes.
-/
namespace NetVerif.Proofs.Lemmas.BpfRoundTrip
open NetVerif NetVerif.Model.Bpf NetVerif.Proofs.Lemmas.Bpf

attribute [local simp] regA regX aluOpAdd aluOpSub aluOpMul aluOpDiv aluOpOr aluOpAnd aluOpShiftLeft
  aluOpShiftRight aluOpNeg aluOpMod aluOpXor jumpEqual jumpNotEqual jumpGreaterThan jumpLessThan
  jumpGreaterOrEqual jumpLessOrEqual jumpBitsSet jumpBitsNotSet extOffset extLen
  opClsLoadA opClsLoadX opClsStoreA opClsStoreX opClsALU opClsJump opClsReturn opClsMisc
  opAddrModeImmediate opAddrModeAbsolute opAddrModeIndirect opAddrModeScratch opAddrModePacketLen
  opAddrModeMemShift opLoadWidth4 opLoadWidth2 opLoadWidth1 opOperandConstant opOperandX
  opJumpAlways opJumpEqual opJumpGT opJumpGE opJumpSet opRetSrcConstant opRetSrcA opMiscTAX opMiscTXA
  extThreshold opMaskCls opMaskLoadDest opMaskLoadWidth opMaskLoadMode opMaskOperand opMaskOperator

/-- what `jumpOpToTest` returns for the four conditional operators -/
theorem jumpOpToTest_spec (op jt jf : Nat) (hop : op = 16 ∨ op = 32 ∨ op = 48 ∨ op = 64) (operand k : Nat) :
    canonJump (jumpOpToTest op jt jf).1 (jumpOpToTest op jt jf).2.1 (jumpOpToTest op jt jf).2.2 = true ∧
    jumpToRaw (jumpOpToTest op jt jf).1 operand k (jumpOpToTest op jt jf).2.1 (jumpOpToTest op jt jf).2.2
      = some ⟨5 ||| op ||| operand, jt, jf, k⟩ := by
  by_cases hj : jt = 0
  · subst hj
    rcases hop with h | h | h | h <;> subst h <;> simp [jumpOpToTest, canonJump, jumpToRaw, jumpTestToOp]
  · rcases hop with h | h | h | h <;> subst h <;> simp [jumpOpToTest, canonJump, jumpToRaw, jumpTestToOp, hj]


/-- `canonTyped` without the self-reference of the `raw` case. -/
def good (r : Raw) (i : Instr) : Prop :=
  (match i with | .raw r' => r' = r | _ => canonTyped i = true)

theorem good_load (r : Raw) (hr : r.WF) : good r (disasmLoad r) := by
  obtain ⟨op, jt, jf, k⟩ := r
  simp only [Raw.WF] at hr
  simp only [disasmLoad, and_maskLoadDest, and_maskLoadWidth, and_maskLoadMode]
  repeat' split
  all_goals simp [good, canonTyped] at *
  all_goals omega

theorem good_store (r : Raw) (cls reg : Nat) : good r (disasmStore r cls reg) := by
  simp only [disasmStore]; split <;> simp [good, canonTyped]

theorem good_alu (r : Raw) : good r (disasmALU r) := by
  simp only [disasmALU]
  repeat' split
  all_goals simp_all [good, canonTyped]

theorem good_jump (r : Raw) : good r (disasmJump r) := by
  simp only [disasmJump]
  repeat' split
  all_goals simp [good, canonTyped]
  all_goals exact (jumpOpToTest_spec _ _ _ (by assumption) 0 0).1

theorem good_ret (r : Raw) : good r (disasmRet r) := by
  simp only [disasmRet]; repeat' split
  all_goals simp [good, canonTyped]

theorem good_misc (r : Raw) : good r (disasmMisc r) := by
  simp only [disasmMisc]; repeat' split
  all_goals simp [good, canonTyped]

theorem good_disasm (r : Raw) (hr : r.WF) : good r (disasmCore r) := by
  simp only [disasmCore]
  repeat' split
  · exact good_load r hr
  · exact good_store ..
  · exact good_store ..
  · exact good_alu r
  · exact good_jump r
  · exact good_ret r
  · exact good_misc r

/-- L1: whatever `Disassemble` returns is a canonical typed value. -/
theorem canonTyped_disasm (r : Raw) (hr : r.WF) : canonTyped (disasmCore r) = true := by
  have h := good_disasm r hr
  generalize hi : disasmCore r = i at h
  cases i <;> simp only [good] at h <;> try exact h
  subst h
  simp [canonTyped, disasm, hi, isRaw]


theorem isALUBinary_iff (op : Nat) : isALUBinary op = true ↔
    (op = 0 ∨ op = 16 ∨ op = 32 ∨ op = 48 ∨ op = 64 ∨ op = 80 ∨ op = 96 ∨ op = 112 ∨ op = 144 ∨ op = 160) := by
  simp [isALUBinary, or_assoc]

theorem jumpTestToOp_some (t c : Nat) (f : Bool) (h : jumpTestToOp t = some (c, f)) :
    (t = 0 ∧ c = 16 ∧ f = false) ∨ (t = 1 ∧ c = 16 ∧ f = true) ∨ (t = 2 ∧ c = 32 ∧ f = false) ∨
    (t = 3 ∧ c = 48 ∧ f = true) ∨ (t = 4 ∧ c = 48 ∧ f = false) ∨ (t = 5 ∧ c = 32 ∧ f = true) ∨
    (t = 6 ∧ c = 64 ∧ f = false) ∨ (t = 7 ∧ c = 64 ∧ f = true) := by
  unfold jumpTestToOp at h
  repeat' split at h
  all_goals simp at h
  all_goals simp_all

/-- L2: a canonical typed value survives `Disassemble ∘ Assemble`. -/
theorem disasm_asm_of_canon (i : Instr) (r : Raw) (hi : i.WF) (hnr : isRaw i = false)
    (hc : canonTyped i = true) (h : asm i = some r) : disasmCore r = i := by
  cases i with
  | raw r' => simp [isRaw] at hnr
  | aluOpConstant op val =>
    simp only [asm, Option.some.injEq] at h; subst h
    simp only [canonTyped, isALUBinary_iff] at hc
    rcases hc with h | h | h | h | h | h | h | h | h | h <;> subst h <;>
      simp [disasmCore, disasmALU, isALUBinary]
  | aluOpX op =>
    simp only [asm, Option.some.injEq] at h; subst h
    simp only [canonTyped, isALUBinary_iff] at hc
    rcases hc with h | h | h | h | h | h | h | h | h | h <;> subst h <;>
      simp [disasmCore, disasmALU, isALUBinary]
  | loadConstant dst val =>
    simp only [asm, assembleLoad] at h
    split at h <;> simp at h
    subst h
    rcases ‹dst = regA ∨ dst = regX› with hd | hd <;> subst hd <;> simp [disasmCore, disasmLoad]
  | loadScratch dst n =>
    simp only [asm, assembleLoad, u32OfInt] at h
    repeat' split at h
    all_goals simp at h
    all_goals (try (exfalso; omega))
    all_goals subst h
    all_goals have : ((n % 4294967296).toNat : Int) = n := by omega
    all_goals rcases ‹dst = regA ∨ dst = regX› with hd | hd <;> subst hd <;> simp [disasmCore, disasmLoad, this] at * <;> omega
  | loadAbsolute off size =>
    simp only [asm, assembleLoad] at h
    simp only [canonTyped, decide_eq_true_eq] at hc
    repeat' split at h
    all_goals simp at h
    all_goals subst h
    all_goals simp [disasmCore, disasmLoad, *] at *
    all_goals omega
  | loadIndirect off size =>
    simp only [asm, assembleLoad] at h
    repeat' split at h
    all_goals simp at h
    all_goals subst h
    all_goals simp [disasmCore, disasmLoad, *] at *
  | loadMemShift off =>
    simp [asm, assembleLoad] at h; subst h; simp [disasmCore, disasmLoad]
  | loadExtension num =>
    simp only [asm] at h
    split at h
    · simp at h
    rename_i hc
    simp at hc
    by_cases h1 : num = 1
    · subst h1; simp [assembleLoad] at h; subst h; simp [disasmCore, disasmLoad]
    · have e : u32OfInt (extOffset + num) = (4294963200 + num).toNat := by simp [u32OfInt]; omega
      simp [assembleLoad, h1, e] at h; subst h
      have h2 : 4294963199 < (4294963200 + num).toNat := by omega
      simp [disasmCore, disasmLoad, h2]; omega
  | storeScratch src n =>
    simp only [asm, u32OfInt] at h
    repeat' split at h
    all_goals simp at h
    all_goals subst h
    all_goals have : ((n % 4294967296).toNat : Int) = n := by omega
    all_goals simp [disasmCore, disasmStore, *] at *
    all_goals omega
  | negateA => simp [asm] at h; subst h; simp [disasmCore, disasmALU, isALUBinary]
  | jump skip => simp [asm] at h; subst h; simp [disasmCore, disasmJump]
  | jumpIf cond val st sf =>
    simp only [asm, jumpToRaw] at h
    split at h
    · simp at h
    rename_i c f hj
    have h8 := jumpTestToOp_some _ _ _ hj
    simp only [canonTyped, canonJump] at hc
    rcases h8 with ⟨h1, h2, h3⟩ | ⟨h1, h2, h3⟩ | ⟨h1, h2, h3⟩ | ⟨h1, h2, h3⟩ | ⟨h1, h2, h3⟩ | ⟨h1, h2, h3⟩ |
      ⟨h1, h2, h3⟩ | ⟨h1, h2, h3⟩ <;> subst h1 h2 h3 <;> simp at h hc <;> subst h <;>
      simp [disasmCore, disasmJump, jumpOpToTest, hc]
  | jumpIfX cond st sf =>
    simp only [asm, jumpToRaw] at h
    split at h
    · simp at h
    rename_i c f hj
    have h8 := jumpTestToOp_some _ _ _ hj
    simp only [canonTyped, canonJump] at hc
    rcases h8 with ⟨h1, h2, h3⟩ | ⟨h1, h2, h3⟩ | ⟨h1, h2, h3⟩ | ⟨h1, h2, h3⟩ | ⟨h1, h2, h3⟩ | ⟨h1, h2, h3⟩ |
      ⟨h1, h2, h3⟩ | ⟨h1, h2, h3⟩ <;> subst h1 h2 h3 <;> simp at h hc <;> subst h <;>
      simp [disasmCore, disasmJump, jumpOpToTest, hc]
  | retA => simp [asm] at h; subst h; simp [disasmCore, disasmRet]
  | retConstant val => simp [asm] at h; subst h; simp [disasmCore, disasmRet]
  | txa => simp [asm] at h; subst h; simp [disasmCore, disasmMisc]
  | tax => simp [asm] at h; subst h; simp [disasmCore, disasmMisc]

/-! L4: canonical raw instructions reassemble to themselves -/

theorem back_load (r : Raw) (hr : r.WF) (hcls : r.op % 8 = 0 ∨ r.op % 8 = 1)
    (i : Instr) (hi : disasmLoad r = i) (hc : canonRawFor r i = true) :
    asm i = some r := by
  obtain ⟨op, jt, jf, k⟩ := r
  simp only [Raw.WF] at hr
  simp only [disasmLoad, and_maskLoadDest, and_maskLoadWidth, and_maskLoadMode] at hi
  repeat' split at hi
  all_goals subst hi
  all_goals simp [canonRawFor] at hc
  all_goals simp [asm, assembleLoad, u32OfInt, *] at *
  all_goals (try split)
  all_goals (try simp)
  all_goals omega

theorem back_store (r : Raw) (hr : r.WF) (cls reg : Nat) (h01 : (cls = 2 ∧ reg = 0) ∨ (cls = 3 ∧ reg = 1))
    (i : Instr) (hi : disasmStore r cls reg = i) (hc : canonRawFor r i = true) : asm i = some r := by
  obtain ⟨op, jt, jf, k⟩ := r
  simp only [Raw.WF] at hr
  simp only [disasmStore] at hi
  split at hi
  all_goals subst hi
  all_goals simp [canonRawFor] at hc
  · simp [asm]
  · rcases h01 with ⟨h1, h2⟩ | ⟨h1, h2⟩ <;> subst h1 h2 <;> simp [asm, u32OfInt, *] at * <;> omega

theorem or_operator (c x : Nat) (hc : c < 16) : c ||| (x / 16 % 16 * 16) = c + x / 16 % 16 * 16 :=
  or_eq_add_of_disjoint c _ 4 (by simpa using hc) (by simp)

theorem back_alu (r : Raw) (hr : r.WF) (hcls : r.op % 8 = 4)
    (i : Instr) (hi : disasmALU r = i) (hc : canonRawFor r i = true) : asm i = some r := by
  obtain ⟨op, jt, jf, k⟩ := r
  simp only [Raw.WF] at hr
  simp only [disasmALU, and_maskOperand, and_maskOperator] at hi
  repeat' split at hi
  all_goals subst hi
  all_goals simp [canonRawFor] at hc
  all_goals simp [asm, or_operator, *] at *
  all_goals omega

theorem or_operand (c x : Nat) (hc : c < 8) : c ||| (x / 8 % 2 * 8) = c + x / 8 % 2 * 8 :=
  or_eq_add_of_disjoint c _ 3 (by simpa using hc) (by simp)

theorem back_jump (r : Raw) (hr : r.WF) (hcls : r.op % 8 = 5)
    (i : Instr) (hi : disasmJump r = i) (hc : canonRawFor r i = true) : asm i = some r := by
  obtain ⟨op, jt, jf, k⟩ := r
  simp only [Raw.WF] at hr
  simp only [disasmJump, and_maskOperand, and_maskOperator] at hi
  simp at hcls hr
  repeat' split at hi
  all_goals subst hi
  all_goals simp [canonRawFor] at hc
  · simp [asm, *] at *
  · rename_i hop hx
    simp only [asm]
    rw [(jumpOpToTest_spec _ jt jf hop 8 0).2]
    simp at hop hx
    rcases hop with h | h | h | h <;> simp [h, hc] <;> omega
  · rename_i hop hx h0
    simp only [asm]
    rw [(jumpOpToTest_spec _ jt jf hop 0 k).2]
    simp at hop hx h0
    rcases hop with h | h | h | h <;> simp [h] <;> omega
  all_goals simp [asm]

theorem back_ret (r : Raw) (i : Instr) (hi : disasmRet r = i) (hc : canonRawFor r i = true) :
    asm i = some r := by
  obtain ⟨op, jt, jf, k⟩ := r
  simp only [disasmRet] at hi
  repeat' split at hi
  all_goals subst hi
  all_goals simp [canonRawFor] at hc
  all_goals simp [asm, *] at *
  all_goals omega

theorem back_misc (r : Raw) (i : Instr) (hi : disasmMisc r = i) (hc : canonRawFor r i = true) :
    asm i = some r := by
  obtain ⟨op, jt, jf, k⟩ := r
  simp only [disasmMisc] at hi
  repeat' split at hi
  all_goals subst hi
  all_goals simp [canonRawFor] at hc
  all_goals simp [asm, *] at *
  all_goals omega

/-- L4: a canonical raw instruction survives `Assemble ∘ Disassemble`. -/
theorem asm_disasm_of_canon (r : Raw) (hr : r.WF) (hc : canonRaw r = true) : asm (disasmCore r) = some r := by
  unfold canonRaw at hc
  generalize hi : disasmCore r = i at hc
  simp only [disasmCore, and_maskCls] at hi
  repeat' split at hi
  · exact back_load r hr (by assumption) i hi hc
  · exact back_store r hr _ _ (by simp) i hi hc
  · exact back_store r hr _ _ (by simp) i hi hc
  · exact back_alu r hr (by assumption) i hi hc
  · exact back_jump r hr (by assumption) i hi hc
  · exact back_ret r i hi hc
  · exact back_misc r i hi hc

/-- L3: the encoding of a canonical typed value is a canonical raw instruction. -/
theorem canonRaw_asm (i : Instr) (r : Raw) (hi : i.WF) (hnr : isRaw i = false) (hc : canonTyped i = true)
    (h : asm i = some r) : canonRaw r = true := by
  have hd := disasm_asm_of_canon i r hi hnr hc h
  unfold canonRaw; rw [hd]
  cases i with
  | raw r' => simp [canonRawFor]
  | aluOpConstant op val =>
    simp only [asm, Option.some.injEq] at h; subst h
    simp only [canonTyped, isALUBinary_iff] at hc
    rcases hc with h | h | h | h | h | h | h | h | h | h <;> subst h <;> simp [canonRawFor]
  | aluOpX op =>
    simp only [asm, Option.some.injEq] at h; subst h
    simp only [canonTyped, isALUBinary_iff] at hc
    rcases hc with h | h | h | h | h | h | h | h | h | h <;> subst h <;> simp [canonRawFor]
  | jumpIf cond val st sf =>
    simp only [asm, jumpToRaw] at h
    split at h
    · simp at h
    rename_i c f hj
    have h8 := jumpTestToOp_some _ _ _ hj
    rcases h8 with ⟨h1, h2, h3⟩ | ⟨h1, h2, h3⟩ | ⟨h1, h2, h3⟩ | ⟨h1, h2, h3⟩ | ⟨h1, h2, h3⟩ | ⟨h1, h2, h3⟩ |
      ⟨h1, h2, h3⟩ | ⟨h1, h2, h3⟩ <;> subst h1 h2 h3 <;> simp at h <;> subst h <;> simp [canonRawFor]
  | jumpIfX cond st sf =>
    simp only [asm, jumpToRaw] at h
    split at h
    · simp at h
    rename_i c f hj
    have h8 := jumpTestToOp_some _ _ _ hj
    rcases h8 with ⟨h1, h2, h3⟩ | ⟨h1, h2, h3⟩ | ⟨h1, h2, h3⟩ | ⟨h1, h2, h3⟩ | ⟨h1, h2, h3⟩ | ⟨h1, h2, h3⟩ |
      ⟨h1, h2, h3⟩ | ⟨h1, h2, h3⟩ <;> subst h1 h2 h3 <;> simp at h <;> subst h <;> simp [canonRawFor]
  | loadExtension num =>
    simp only [asm] at h
    split at h
    · simp at h
    rename_i hc
    simp at hc
    by_cases h1 : num = 1
    · subst h1; simp [assembleLoad] at h; subst h; simp [canonRawFor]
    · have e : u32OfInt (extOffset + num) = (4294963200 + num).toNat := by simp [u32OfInt]; omega
      simp [assembleLoad, h1, e] at h; subst h
      simp [canonRawFor]; omega
  | _ =>
    simp only [asm, assembleLoad, u32OfInt] at h
    repeat' split at h
    all_goals simp at h
    all_goals (try (exfalso; omega))
    all_goals subst h
    all_goals simp [canonRawFor]
    all_goals (first | done | omega | simp_all)

/-! `Disassemble` produces values of the Go field types -/

theorem jumpOpToTest_wf (op jt jf : Nat) (h1 : jt < 256) (h2 : jf < 256) :
    (jumpOpToTest op jt jf).1 < 65536 ∧ (jumpOpToTest op jt jf).2.1 < 256 ∧ (jumpOpToTest op jt jf).2.2 < 256 := by
  unfold jumpOpToTest
  repeat' split
  all_goals simp
  all_goals omega

theorem disasmCore_wf (r : Raw) (hr : r.WF) : (disasmCore r).WF := by
  obtain ⟨op, jt, jf, k⟩ := r
  have hj := jumpOpToTest_wf (op / 16 % 16 * 16) jt jf hr.2.1 hr.2.2.1
  have hr' := hr
  simp only [Raw.WF] at hr
  simp only [disasmCore, disasmLoad, disasmStore, disasmALU, disasmJump, disasmRet, disasmMisc]
  repeat' split
  all_goals simp only [Instr.WF, int64WF, and_maskLoadDest, and_maskOperator]
  all_goals (first | exact hr' | exact hj | exact ⟨hj.1, hr.2.2.2, hj.2⟩ | (simp at *; omega) | omega | simp)


/-! ### the exported `Disassemble` (decode, then keep the decoding only if it reassembles to `r`) -/

theorem disasm_cases (r : Raw) :
    (disasm r = disasmCore r ∧ (isRaw (disasmCore r) = true ∨ asm (disasmCore r) = some r)) ∨
    (disasm r = .raw r ∧ isRaw (disasmCore r) = false ∧ asm (disasmCore r) ≠ some r) := by
  unfold disasm
  by_cases h1 : isRaw (disasmCore r) = true
  · simp [h1]
  · by_cases h2 : asm (disasmCore r) = some r
    · simp [h1, h2]
    · right; simp [h1, h2]

/-- A `RawInstruction` in the output of `Disassemble` is always the input itself. -/
theorem disasm_raw_eq (r r' : Raw) (hr : r.WF) (h : disasm r = .raw r') : r' = r := by
  rcases disasm_cases r with ⟨h1, _⟩ | ⟨h1, _⟩
  · have hg := good_disasm r hr
    rw [← h1, h] at hg
    simpa [good] using hg
  · rw [h1] at h; cases h; rfl

theorem disasm_wf (r : Raw) (hr : r.WF) : (disasm r).WF := by
  rcases disasm_cases r with ⟨h1, _⟩ | ⟨h1, _⟩ <;> rw [h1]
  · exact disasmCore_wf r hr
  · exact hr

/-- `Disassemble` keeps the decoding exactly for the canonical raw instructions. -/
theorem disasm_eq_core_iff (r : Raw) (hr : r.WF) : disasm r = disasmCore r ↔ canonRaw r = true := by
  constructor
  · intro h
    by_cases h1 : isRaw (disasmCore r) = true
    · unfold canonRaw
      cases hc : disasmCore r <;> simp [hc, isRaw] at h1
      simp [canonRawFor]
    · rcases disasm_cases r with ⟨_, h2 | h2⟩ | ⟨h2, _⟩
      · exact absurd h2 h1
      · exact canonRaw_asm _ r (disasmCore_wf r hr) (by simpa using h1) (canonTyped_disasm r hr) h2
      · rw [h2] at h; rw [← h] at h1; simp [isRaw] at h1
  · intro hc
    have := asm_disasm_of_canon r hr hc
    unfold disasm
    by_cases h1 : isRaw (disasmCore r) = true <;> simp [h1, this]

end NetVerif.Proofs.Lemmas.BpfRoundTrip
