import NetVerif.Proofs.Lemmas.Dns
/-!
The model never yields the outcome `Err.panic` (generated from `DnsTotal.lean`, which shows the
same for `Err.fuel`): together with `Lemmas/DnsChecked.lean` (checked twin = model) this is Go
panic freedom of the unpack/skip paths, as a theorem about the twin whose every index / slice is
checked.
-/
namespace NetVerif.Proofs.DnsNoPanic
open NetVerif.Model.Dns NetVerif.Proofs.Dns

def NoPanic {α : Type} (r : Except Err α) : Prop := r ≠ .error .panic

theorem NoPanic.of_error {α β : Type} {r : Except Err α} {e : Err} (h : NoPanic r) (he : r = .error e) :
    NoPanic (.error e : Except Err β) := by
  intro hf
  cases hf
  exact h he

theorem noPanic_ok {α : Type} (x : α) : NoPanic (.ok x : Except Err α) := by intro h; cases h

theorem NoPanic.map {α β : Type} {r : Except Err α} (f : α → β) (h : NoPanic r) : NoPanic (r.map f) := by
  cases r with
  | error e => exact h.of_error rfl
  | ok x => exact noPanic_ok _

theorem unpackLoop_noPanic (msg : Bytes) : ∀ (fuel cur ptr : Nat) (name : Bytes) (newOff : Nat),
    NoPanic (unpackLoop msg fuel cur ptr name newOff) := by
  intro fuel
  induction fuel with
  | zero => intro cur ptr name newOff h; simp [unpackLoop] at h
  | succ fuel ih =>
    intro cur ptr name newOff
    unfold unpackLoop
    repeat' (first | exact ih _ _ _ _ | exact noPanic_ok _ | (intro h; cases h; done) | split)

theorem unpackName_noPanic (msg : Bytes) (off : Nat) : NoPanic (unpackName msg off) :=
  unpackLoop_noPanic msg _ _ _ _ _

theorem nameOnly_noPanic (msg : Bytes) (off : Nat) : NoPanic (nameOnly msg off) := by
  unfold nameOnly
  split
  · exact noPanic_ok _
  · rename_i e he; exact (unpackName_noPanic msg off).of_error he

theorem u16At_noPanic (msg : Bytes) (off : Nat) : NoPanic (u16At msg off) := by
  unfold u16At; split
  · exact noPanic_ok _
  · intro h; cases h

theorem u32At_noPanic (msg : Bytes) (off : Nat) : NoPanic (u32At msg off) := by
  unfold u32At; split
  · exact noPanic_ok _
  · intro h; cases h

theorem bytesAt_noPanic (msg : Bytes) (off n : Nat) : NoPanic (bytesAt msg off n) := by
  unfold bytesAt; split
  · intro h; cases h
  · exact noPanic_ok _

theorem textAt_noPanic (msg : Bytes) (off : Nat) : NoPanic (textAt msg off) := by
  unfold textAt; split
  · intro h; cases h
  · split
    · intro h; cases h
    · exact noPanic_ok _

theorem u16At_bound {msg : Bytes} {off v o : Nat} (h : u16At msg off = .ok (v, o)) :
    o = off + 2 ∧ off + 2 ≤ msg.length := by
  unfold u16At at h
  split at h
  · rename_i a b rest hd
    have := congrArg List.length hd
    simp at this h
    omega
  · simp at h

theorem txtLoop_noPanic (msg : Bytes) (length : Nat) : ∀ (fuel off n : Nat), length - n < fuel →
    NoPanic (txtLoop msg length fuel off n) := by
  intro fuel
  induction fuel with
  | zero => intro off n h; omega
  | succ fuel ih =>
    intro off n h
    unfold txtLoop
    split
    · rename_i hn
      split
      · rename_i e he; exact (textAt_noPanic msg off).of_error he
      · rename_i t off' ht
        split
        · intro hf; cases hf
        · rename_i hchk
          have := ih off' (n + t.length + 1) (by omega)
          split
          · exact noPanic_ok _
          · rename_i e he; exact this.of_error he
    · exact noPanic_ok _

theorem optLoop_noPanic (msg : Bytes) (e : Nat) : ∀ (fuel off : Nat), msg.length - off < fuel →
    NoPanic (optLoop msg e fuel off) := by
  intro fuel
  induction fuel with
  | zero => intro off h; omega
  | succ fuel ih =>
    intro off h
    unfold optLoop
    split
    · split
      · rename_i e1 he; exact (u16At_noPanic msg off).of_error he
      · rename_i code off1 h1
        split
        · rename_i e2 he; exact (u16At_noPanic msg off1).of_error he
        · rename_i l off2 h2
          have b1 := u16At_bound h1
          have b2 := u16At_bound h2
          split
          · intro hf; cases hf
          · split
            · intro hf; cases hf
            · have := ih (off2 + l) (by omega)
              split
              · exact noPanic_ok _
              · rename_i e3 he; exact this.of_error he
    · exact noPanic_ok _

theorem svcbPass1_noPanic (msg : Bytes) (e : Nat) : ∀ (fuel off : Nat) (prev : Option Nat),
    msg.length - off < fuel → NoPanic (svcbPass1 msg e fuel off prev) := by
  intro fuel
  induction fuel with
  | zero => intro off prev h; omega
  | succ fuel ih =>
    intro off prev h
    unfold svcbPass1
    split
    · split
      · rename_i e1 he; exact (u16At_noPanic msg off).of_error he
      · rename_i key off1 h1
        split
        · intro hf; cases hf
        · split
          · rename_i e2 he; exact (u16At_noPanic msg off1).of_error he
          · rename_i size off2 h2
            have b1 := u16At_bound h1
            have b2 := u16At_bound h2
            split
            · intro hf; cases hf
            · have := ih (off2 + size) (some key) (by omega)
              split
              · exact noPanic_ok _
              · rename_i e3 he; exact this.of_error he
    · split
      · intro hf; cases hf
      · exact noPanic_ok _

theorem svcbPass2_noPanic (msg : Bytes) : ∀ (l : List (Nat × Nat × Nat)), NoPanic (svcbPass2 msg l) := by
  intro l
  induction l with
  | nil => exact noPanic_ok _
  | cons x l ih =>
    rcases x with ⟨k, s, v⟩
    unfold svcbPass2
    split
    · intro hf; cases hf
    · split
      · exact noPanic_ok _
      · rename_i e he; exact ih.of_error he

theorem unpackSVCB_noPanic (msg : Bytes) (off len : Nat) : NoPanic (unpackSVCB msg off len) := by
  unfold unpackSVCB
  split
  · rename_i e he; exact (u16At_noPanic msg off).of_error he
  · rename_i prio off1 h1
    split
    · rename_i e he; exact (unpackName_noPanic msg off1).of_error he
    · rename_i t off2 h2
      split
      · intro hf; cases hf
      · split
        · rename_i e he; exact (svcbPass1_noPanic msg _ _ off2 none (by omega)).of_error he
        · rename_i l h3
          split
          · rename_i e he; exact (svcbPass2_noPanic msg l).of_error he
          · exact noPanic_ok _

theorem unpackBody_noPanic (msg : Bytes) (off typ len : Nat) : NoPanic (unpackBody msg off typ len) := by
  by_cases k1 : typ = 1
  · subst k1; simp only [unpackBody, Nat.reduceEqDiff, reduceIte]; exact (bytesAt_noPanic _ _ _).map _
  by_cases k2 : typ = 2
  · subst k2; simp only [unpackBody, Nat.reduceEqDiff, reduceIte]; exact (nameOnly_noPanic _ _).map _
  by_cases k3 : typ = 5
  · subst k3; simp only [unpackBody, Nat.reduceEqDiff, reduceIte]; exact (nameOnly_noPanic _ _).map _
  by_cases k4 : typ = 6
  · subst k4
    simp only [unpackBody, Nat.reduceEqDiff, reduceIte]
    split
    · rename_i e he; exact (unpackName_noPanic msg off).of_error he
    · rename_i ns o1 _
      split
      · rename_i e he; exact (unpackName_noPanic msg o1).of_error he
      · rename_i mb o2 _
        split
        · rename_i e he; exact (u32At_noPanic msg o2).of_error he
        · rename_i a o3 _
          split
          · rename_i e he; exact (u32At_noPanic msg o3).of_error he
          · rename_i b o4 _
            split
            · rename_i e he; exact (u32At_noPanic msg o4).of_error he
            · rename_i c o5 _
              split
              · rename_i e he; exact (u32At_noPanic msg o5).of_error he
              · rename_i d o6 _
                split
                · rename_i e he; exact (u32At_noPanic msg o6).of_error he
                · exact noPanic_ok _
  by_cases k5 : typ = 12
  · subst k5; simp only [unpackBody, Nat.reduceEqDiff, reduceIte]; exact (nameOnly_noPanic _ _).map _
  by_cases k6 : typ = 15
  · subst k6
    simp only [unpackBody, Nat.reduceEqDiff, reduceIte]
    split
    · rename_i e he; exact (u16At_noPanic msg off).of_error he
    · exact (nameOnly_noPanic _ _).map _
  by_cases k7 : typ = 16
  · subst k7; simp only [unpackBody, Nat.reduceEqDiff, reduceIte]
    exact (txtLoop_noPanic msg len _ off 0 (by omega)).map _
  by_cases k8 : typ = 28
  · subst k8; simp only [unpackBody, Nat.reduceEqDiff, reduceIte]; exact (bytesAt_noPanic _ _ _).map _
  by_cases k9 : typ = 33
  · subst k9
    simp only [unpackBody, Nat.reduceEqDiff, reduceIte]
    split
    · rename_i e he; exact (u16At_noPanic msg off).of_error he
    · rename_i p o1 _
      split
      · rename_i e he; exact (u16At_noPanic msg o1).of_error he
      · rename_i w o2 _
        split
        · rename_i e he; exact (u16At_noPanic msg o2).of_error he
        · exact (nameOnly_noPanic _ _).map _
  by_cases k10 : typ = 64
  · subst k10; simp only [unpackBody, Nat.reduceEqDiff, reduceIte]; exact (unpackSVCB_noPanic _ _ _).map _
  by_cases k11 : typ = 65
  · subst k11; simp only [unpackBody, Nat.reduceEqDiff, reduceIte]; exact (unpackSVCB_noPanic _ _ _).map _
  by_cases k12 : typ = 41
  · subst k12; simp only [unpackBody, Nat.reduceEqDiff, reduceIte]
    exact (optLoop_noPanic msg _ _ off (by omega)).map _
  · simp only [unpackBody, k1, k2, k3, k4, k5, k6, k7, k8, k9, k10, k11, k12, if_false]
    exact (bytesAt_noPanic _ _ _).map _

theorem unpackQuestion_noPanic (msg : Bytes) (off : Nat) : NoPanic (unpackQuestion msg off) := by
  unfold unpackQuestion
  split
  · rename_i e he; exact (unpackName_noPanic msg off).of_error he
  · rename_i n o1 _
    split
    · rename_i e he; exact (u16At_noPanic msg o1).of_error he
    · rename_i t o2 _
      split
      · rename_i e he; exact (u16At_noPanic msg o2).of_error he
      · exact noPanic_ok _

theorem unpackRHeader_noPanic (msg : Bytes) (off : Nat) : NoPanic (unpackRHeader msg off) := by
  unfold unpackRHeader
  split
  · rename_i e he; exact (unpackName_noPanic msg off).of_error he
  · rename_i n o1 _
    split
    · rename_i e he; exact (u16At_noPanic msg o1).of_error he
    · rename_i t o2 _
      split
      · rename_i e he; exact (u16At_noPanic msg o2).of_error he
      · rename_i c o3 _
        split
        · rename_i e he; exact (u32At_noPanic msg o3).of_error he
        · rename_i ttl o4 _
          split
          · rename_i e he; exact (u16At_noPanic msg o4).of_error he
          · split
            · intro hf; cases hf
            · exact noPanic_ok _

theorem unpackResource_noPanic (msg : Bytes) (off : Nat) : NoPanic (unpackResource msg off) := by
  unfold unpackResource
  split
  · rename_i e he; exact (unpackRHeader_noPanic msg off).of_error he
  · rename_i h o1 _
    split
    · rename_i e he; exact (unpackBody_noPanic msg o1 h.typ h.length).of_error he
    · exact noPanic_ok _

theorem unpackQuestions_noPanic (msg : Bytes) : ∀ (k off : Nat), NoPanic (unpackQuestions msg k off) := by
  intro k
  induction k with
  | zero => intro off; exact noPanic_ok _
  | succ k ih =>
    intro off
    unfold unpackQuestions
    split
    · rename_i e he; exact (unpackQuestion_noPanic msg off).of_error he
    · rename_i q o1 _
      split
      · rename_i e he; exact (ih o1).of_error he
      · exact noPanic_ok _

theorem unpackResources_noPanic (msg : Bytes) : ∀ (k off : Nat), NoPanic (unpackResources msg k off) := by
  intro k
  induction k with
  | zero => intro off; exact noPanic_ok _
  | succ k ih =>
    intro off
    unfold unpackResources
    split
    · rename_i e he; exact (unpackResource_noPanic msg off).of_error he
    · rename_i r o1 _
      split
      · rename_i e he; exact (ih o1).of_error he
      · exact noPanic_ok _

theorem unpackMessageOff_noPanic (msg : Bytes) : NoPanic (unpackMessageOff msg) := by
  unfold unpackMessageOff
  split
  · rename_i e he
    intro hf; cases hf
    unfold unpackWireHeader at he
    split at he <;> simp at he
  · rename_i w _
    split
    · rename_i e he; exact (unpackQuestions_noPanic msg _ _).of_error he
    · rename_i qs o1 _
      split
      · rename_i e he; exact (unpackResources_noPanic msg _ _).of_error he
      · rename_i an o2 _
        split
        · rename_i e he; exact (unpackResources_noPanic msg _ _).of_error he
        · rename_i au o3 _
          split
          · rename_i e he; exact (unpackResources_noPanic msg _ _).of_error he
          · exact noPanic_ok _

theorem unpackMessage_noPanic (msg : Bytes) : NoPanic (unpackMessage msg) := by
  unfold unpackMessage
  split
  · exact noPanic_ok _
  · rename_i e he; exact (unpackMessageOff_noPanic msg).of_error he

theorem skipLoop_noPanic (msg : Bytes) : ∀ (fuel cur : Nat), NoPanic (skipLoop msg fuel cur) := by
  intro fuel
  induction fuel with
  | zero => intro cur h; simp [skipLoop] at h
  | succ fuel ih =>
    intro cur
    unfold skipLoop
    repeat' (first | exact ih _ | exact noPanic_ok _ | (intro h; cases h; done) | split)

theorem skip16_noPanic (msg : Bytes) (off : Nat) : NoPanic (skip16 msg off) := by
  unfold skip16; split
  · intro h; cases h
  · exact noPanic_ok _

theorem skip32_noPanic (msg : Bytes) (off : Nat) : NoPanic (skip32 msg off) := by
  unfold skip32; split
  · intro h; cases h
  · exact noPanic_ok _

theorem skipQuestion_noPanic (msg : Bytes) (off : Nat) : NoPanic (skipQuestion msg off) := by
  unfold skipQuestion
  split
  · rename_i e he; exact (skipLoop_noPanic msg _ off).of_error he
  · rename_i o1 _
    split
    · rename_i e he; exact (skip16_noPanic msg o1).of_error he
    · exact skip16_noPanic msg _

theorem skipResource_noPanic (msg : Bytes) (off : Nat) : NoPanic (skipResource msg off) := by
  unfold skipResource
  split
  · rename_i e he; exact (skipLoop_noPanic msg _ off).of_error he
  · rename_i o1 _
    split
    · rename_i e he; exact (skip16_noPanic msg o1).of_error he
    · rename_i o2 _
      split
      · rename_i e he; exact (skip16_noPanic msg o2).of_error he
      · rename_i o3 _
        split
        · rename_i e he; exact (skip32_noPanic msg o3).of_error he
        · rename_i o4 _
          split
          · rename_i e he; exact (u16At_noPanic msg o4).of_error he
          · split
            · intro h; cases h
            · exact noPanic_ok _

theorem skipQuestions_noPanic (msg : Bytes) : ∀ (k off : Nat), NoPanic (skipQuestions msg k off) := by
  intro k
  induction k with
  | zero => intro off; exact noPanic_ok _
  | succ k ih =>
    intro off
    unfold skipQuestions
    split
    · rename_i e he; exact (skipQuestion_noPanic msg off).of_error he
    · exact ih _

theorem skipResources_noPanic (msg : Bytes) : ∀ (k off : Nat), NoPanic (skipResources msg k off) := by
  intro k
  induction k with
  | zero => intro off; exact noPanic_ok _
  | succ k ih =>
    intro off
    unfold skipResources
    split
    · rename_i e he; exact (skipResource_noPanic msg off).of_error he
    · exact ih _

theorem wireHeader_noPanic (msg : Bytes) : NoPanic (unpackWireHeader msg) := by
  unfold unpackWireHeader
  split
  · exact noPanic_ok _
  · intro h; cases h

theorem skipMessage_noPanic (msg : Bytes) : NoPanic (skipMessage msg) := by
  unfold skipMessage
  split
  · rename_i e he; exact (wireHeader_noPanic msg).of_error he
  · split
    · rename_i e he; exact (skipQuestions_noPanic msg _ _).of_error he
    · split
      · rename_i e he; exact (skipResources_noPanic msg _ _).of_error he
      · split
        · rename_i e he; exact (skipResources_noPanic msg _ _).of_error he
        · exact skipResources_noPanic msg _ _

theorem walkQuestion_noPanic (msg : Bytes) (off : Nat) (s : Step) : NoPanic (walkQuestion msg off s) := by
  cases s <;> simp only [walkQuestion] <;> split <;>
    first | exact noPanic_ok _ | (rename_i e he; first | exact (unpackQuestion_noPanic msg off).of_error he | exact (skipQuestion_noPanic msg off).of_error he)

theorem skipAfterHeader_noPanic (msg : Bytes) (a b : Nat) : NoPanic (skipAfterHeader msg a b) := by
  unfold skipAfterHeader; split
  · intro h; cases h
  · exact noPanic_ok _

theorem walkResource_noPanic (msg : Bytes) (off : Nat) (s : Step) : NoPanic (walkResource msg off s) := by
  cases s <;> simp only [walkResource]
  · split
    · exact noPanic_ok _
    · rename_i e he; exact (unpackResource_noPanic msg off).of_error he
  · split
    · exact noPanic_ok _
    · rename_i e he; exact (skipResource_noPanic msg off).of_error he
  · split
    · rename_i e he; exact (unpackRHeader_noPanic msg off).of_error he
    · rename_i h o1 _
      split
      · rename_i e he; exact (unpackBody_noPanic msg o1 h.typ h.length).of_error he
      · exact noPanic_ok _
  · split
    · rename_i e he; exact (unpackRHeader_noPanic msg off).of_error he
    · rename_i h o1 _
      split
      · exact noPanic_ok _
      · rename_i e he; exact (skipAfterHeader_noPanic msg o1 h.length).of_error he

theorem walkSection_noPanic (one : Bytes → Nat → Step → Except Err (Item × Nat)) (h1 : ∀ m o s, NoPanic (one m o s))
    (msg : Bytes) : ∀ (n off : Nat) (sc : List Step), NoPanic (walkSection one msg n off sc) := by
  intro n
  induction n with
  | zero => intro off sc; exact noPanic_ok _
  | succ n ih =>
    intro off sc
    unfold walkSection
    split
    · rename_i e he; exact (h1 msg off _).of_error he
    · split
      · rename_i e he; exact (ih _ _).of_error he
      · exact noPanic_ok _

theorem walkMessage_noPanic (msg : Bytes) (sc : List Step) : NoPanic (walkMessage msg sc) := by
  unfold walkMessage
  split
  · rename_i e he; exact (wireHeader_noPanic msg).of_error he
  · split
    · rename_i e he; exact (walkSection_noPanic _ walkQuestion_noPanic msg _ _ _).of_error he
    · split
      · rename_i e he; exact (walkSection_noPanic _ walkResource_noPanic msg _ _ _).of_error he
      · split
        · rename_i e he; exact (walkSection_noPanic _ walkResource_noPanic msg _ _ _).of_error he
        · split
          · rename_i e he; exact (walkSection_noPanic _ walkResource_noPanic msg _ _ _).of_error he
          · exact noPanic_ok _

end NetVerif.Proofs.DnsNoPanic
