import NetVerif.Proofs.Lemmas.QueueGlobal
/-!
Knowledge invariant of the queue (C29): what the gate holder knows about `err`/`q` along its
continuation (`wp`), so that `get` never pops an empty slice and nothing is appended or popped
once the queue is closed.
-/
namespace NetVerif.Proofs.QueueInv
open NetVerif.Model.ChanSem NetVerif.Proofs.GateInv
set_option linter.unusedSimpArgs false
set_option linter.unusedVariables false

/-- `BExp.eval` on the abstraction (err, len q). -/
def evalA (e : Bool) (n : Nat) : BExp → Bool
  | .lit b => b
  | .errSet => e
  | .nonEmpty => decide (0 < n)
  | .or a b => evalA e n a || evalA e n b
  | .not a => !evalA e n a

theorem evalA_eq (c : BExp) (sh : QShared) : c.eval sh = evalA sh.err sh.q.length c := by
  induction c with
  | lit b => rfl
  | errSet => rfl
  | nonEmpty => cases h : sh.q <;> simp [BExp.eval, evalA, h]
  | or a b iha ihb => simp [BExp.eval, evalA, iha, ihb]
  | not a ih => simp [BExp.eval, evalA, ih]

/-- Weakest precondition, on (err, len q), for the holder's continuation up to its next gate
call: a pop needs an open, non-empty queue; an append needs an open queue. -/
def wp : List QStmt → Bool → Nat → Bool
  | [], _, _ => true
  | s :: k, e, n =>
    match s with
    | .popFront => !e && decide (0 < n) && wp k e (n - 1)
    | .append => !e && wp k e (n + 1)
    | .setErrIfNil => wp k true n
    | .retIf c _ => evalA e n c || wp k e n
    | .deferUnlock => wp k e n
    | .retIfGateErr _ => wp k e n
    | .gate _ _ => true
    | .ret _ => true

/-- Static check: right after every `lock` the continuation is fine in any state, right after
every `waitAndLock` in any state satisfying the gate condition. -/
def wpS : List QStmt → Prop
  | [] => True
  | s :: k =>
    (match s with
     | .gate .lock none => ∀ e n, wp k e n = true
     | .gate .waitAndLock none => ∀ e n, (e = true ∨ 0 < n) → wp k e n = true
     | _ => True) ∧ wpS k

theorem wpS_tail {s : QStmt} {k : List QStmt} (h : wpS (s :: k)) : wpS k := h.2

theorem wpS_bodies (m : QMeth) : wpS (queue.body m ++ [.ret .unit]) := by
  cases m <;> simp [QueueSrc.body, queue, wpS, wp, evalA]
  all_goals try (intro e n h; cases e <;> simp at h ⊢ <;> omega)

theorem wpS_unlock (v : QRet) : wpS (queue.unlock ++ [.ret v]) := by
  simp [queue, wpS]

/-- Knowledge invariant of one goroutine. -/
structure QK (sh : QShared) (qg : QG) : Prop where
  own : qg.g.cont = [] → qg.g.owns = true → wp qg.qcont sh.err sh.q.length = true
  stat : wpS qg.qcont
  lock : qg.g.cont ≠ [] → qg.g.meth = .lock → ∀ e n, wp qg.qcont e n = true
  wait : qg.g.cont ≠ [] → qg.g.meth = .waitAndLock → ∀ e n, (e = true ∨ 0 < n) → wp qg.qcont e n = true
  nopanic : qg.panicked = false

theorem idle_owns_eq {g : GG} (hg : GG.wf g) (hc : g.cont = []) : g.owns = g.holding := by
  rcases hg with ⟨_, ho⟩ | ⟨_, _, hh⟩ | ⟨_, _, _, hh⟩
  · exact ho
  · rcases hh with ⟨_, hh⟩ | ⟨_, hh | hh⟩ | ⟨_, hh⟩ <;> simp [hh, gate] at hc
  · cases hb : g.arg <;> simp [hh, hb, gate, instantiate] at hc

theorem condVal_iff (sh : QShared) : condVal sh = true ↔ (sh.err = true ∨ 0 < sh.q.length) := by
  cases h : sh.q <;> simp [condVal, h]

/-- What a step may do to the shared fields: nothing, set `err`, append one item at the back
(recording it as accepted), or pop the front item (recording it as delivered). -/
def StepKind (sh sh' : QShared) : Prop :=
  sh' = sh ∨ sh' = { sh with err := true } ∨
  (∃ x, sh' = { sh with q := sh.q ++ [x], accepted := sh.accepted ++ [x] }) ∨
  (∃ x r, sh.q = x :: r ∧ sh' = { sh with q := r, delivered := sh.delivered ++ [x] })

theorem qk_idle {sh : QShared} {qg : QG} (hgc : qg.g.cont = [])
    (hown : qg.g.owns = true → wp qg.qcont sh.err sh.q.length = true) (hst : wpS qg.qcont)
    (hp : qg.panicked = false) : QK sh qg :=
  ⟨fun _ => hown, hst, fun hne => absurd hgc hne, fun hne => absurd hgc hne, hp⟩

theorem wp_unlock (v : QRet) (e : Bool) (n : Nat) : wp (queue.unlock ++ [.ret v]) e n = true := by
  simp [queue, wp]

/-- One step of one goroutine preserves its knowledge invariant; and once the queue is closed
no step changes the shared fields any more. -/
theorem qk_step {σ σ' : Store GCh} {sh sh' : QShared} {qg qg' : QG} {a : QAct}
    (hσ : SWf σ) (hw : QWf sh qg) (hk : QK sh qg)
    (hcond : qg.g.holding = false → 0 < (σ .set).len → condVal sh = true)
    (h : qg.step queue gate σ sh a = some (σ', sh', qg')) :
    QK sh' qg' ∧ (sh.err = true → sh' = sh) ∧ StepKind sh sh' := by
  obtain ⟨hg, hidle, hrun⟩ := hw
  cases a with
  | call m v =>
    simp only [QG.step] at h
    split at h
    · rename_i hc
      simp at hc
      obtain ⟨⟨hq, hgc⟩, hp⟩ := hc
      simp at h
      obtain ⟨rfl, rfl, rfl⟩ := h
      have ho : qg.g.owns = false := by
        rcases hidle hgc with ⟨_, ho, _⟩ | hs
        · exact ho
        · simp [hq, safe] at hs
      refine ⟨⟨?_, wpS_bodies m, ?_, ?_, hp⟩, fun _ => rfl, Or.inl rfl⟩
      · intro _ h1; simp [ho] at h1
      · intro hne; exact absurd hgc hne
      · intro hne; exact absurd hgc hne
    · simp at h
  | gate a =>
    cases a with
    | call m b => simp [QG.step] at h
    | cancel =>
      simp only [QG.step, Option.map_eq_some_iff] at h
      obtain ⟨⟨σ1, g1⟩, hs, he⟩ := h
      simp at he; obtain ⟨rfl, rfl, rfl⟩ := he
      simp only [GG.step] at hs
      split at hs
      · simp at hs
      · simp at hs; obtain ⟨rfl, rfl⟩ := hs
        exact ⟨⟨hk.own, hk.stat, hk.lock, hk.wait, hk.nopanic⟩, fun _ => rfl, Or.inl rfl⟩
    | run p =>
      simp only [QG.step, Option.map_eq_some_iff] at h
      obtain ⟨⟨σ1, g1⟩, hs, he⟩ := h
      simp at he; obtain ⟨rfl, rfl, rfl⟩ := he
      have F := step_local hσ hg hs
      have hne : qg.g.cont ≠ [] := by intro hc; simp [GG.step, hc] at hs
      obtain ⟨hm, ha⟩ := F.same hne
      refine ⟨⟨?_, hk.stat, ?_, ?_, hk.nopanic⟩, fun _ => rfl, Or.inl rfl⟩
      · intro hdone hown
        simp only at hdone hown ⊢
        have hoh := idle_owns_eq F.wf hdone
        rcases hrun hne with ⟨hml, _⟩ | ⟨hmw, _⟩ | ⟨hmu, _⟩
        · exact hk.lock hne hml _ _
        · rcases F.wait hmw hne hdone with ⟨_, _, _, hl⟩ | ⟨_, _, h3, _⟩
          · have hnh : qg.g.holding = false := by
              rcases hg with ⟨hc, _⟩ | ⟨hh, _⟩ | ⟨_, _, hm', _⟩
              · exact absurd hc hne
              · exact hh
              · rw [hmw] at hm'; cases hm'
            exact hk.wait hne hmw _ _ ((condVal_iff sh).mp (hcond hnh hl))
          · rw [hoh, h3] at hown; cases hown
        · obtain ⟨_, hh'⟩ := F.unl hmu hne hdone
          rw [hoh, hh'] at hown; cases hown
      · intro hne' hml; simp only at hml ⊢; rw [hm] at hml; exact hk.lock hne hml
      · intro hne' hmw; simp only at hmw ⊢; rw [hm] at hmw; exact hk.wait hne hmw
  | stmt =>
    simp only [QG.step] at h
    split at h
    · simp at h
    · rename_i hc
      simp at hc
      obtain ⟨hgc, hp⟩ := hc
      have hsafe := hidle hgc
      have hstat := hk.stat
      split at h
      · simp at h
      · -- gate call
        rename_i m arg rest hq
        simp only [Option.map_eq_some_iff] at h
        obtain ⟨⟨σ1, g1⟩, hs, he⟩ := h
        simp at he; obtain ⟨rfl, rfl, rfl⟩ := he
        simp only [GG.step] at hs
        split at hs
        · simp at hs
          obtain ⟨rfl, rfl⟩ := hs
          rw [hq] at hstat
          rcases hsafe with ⟨hq', _⟩ | hsafe
          · simp [hq] at hq'
          · rw [hq] at hsafe
            refine ⟨⟨?_, hstat.2, ?_, ?_, hp⟩, fun _ => rfl, Or.inl rfl⟩
            · intro hcn; exact absurd hcn (instantiate_ne_nil m _)
            · intro _ hml
              simp only at hml ⊢
              subst hml
              cases arg with
              | none => exact hstat.1
              | some e => simp [safe] at hsafe
            · intro _ hmw
              simp only at hmw ⊢
              subst hmw
              cases arg with
              | none => exact hstat.1
              | some e => simp [safe] at hsafe
        · simp at hs
      · -- defer q.unlock()
        rename_i rest hq
        simp at h; obtain ⟨rfl, rfl, rfl⟩ := h
        rw [hq] at hstat
        refine ⟨qk_idle hgc (fun ho => ?_) hstat.2 hp, fun _ => rfl, Or.inl rfl⟩
        have := hk.own hgc ho
        simpa [hq, wp] using this
      · -- if err != nil { return zero, err }
        rename_i v rest hq
        rw [hq] at hstat
        rcases hsafe with ⟨hq', _⟩ | hsafe
        · simp [hq] at hq'
        · rw [hq] at hsafe
          split at h
          · rename_i hl
            simp at h; obtain ⟨rfl, rfl, rfl⟩ := h
            simp [safe, hl] at hsafe
            rw [retNow_nodefer qg v hsafe.2]
            exact ⟨qk_idle hgc (fun _ => rfl) trivial hp, fun _ => rfl, Or.inl rfl⟩
          · simp at h; obtain ⟨rfl, rfl, rfl⟩ := h
            refine ⟨qk_idle hgc (fun ho => ?_) hstat.2 hp, fun _ => rfl, Or.inl rfl⟩
            have := hk.own hgc ho
            simpa [hq, wp] using this
      · -- if c { return v }
        rename_i c v rest hq
        rw [hq] at hstat
        rcases hsafe with ⟨hq', _⟩ | hsafe
        · simp [hq] at hq'
        · rw [hq] at hsafe; simp [safe] at hsafe
          obtain ⟨⟨ho, hd⟩, _⟩ := hsafe
          split at h
          · simp at h; obtain ⟨rfl, rfl, rfl⟩ := h
            rw [retNow_defer qg v hd]
            exact ⟨qk_idle hgc (fun _ => wp_unlock v _ _) (wpS_unlock v) hp, fun _ => rfl, Or.inl rfl⟩
          · rename_i hev
            simp at h; obtain ⟨rfl, rfl, rfl⟩ := h
            refine ⟨qk_idle hgc (fun ho => ?_) hstat.2 hp, fun _ => rfl, Or.inl rfl⟩
            have := hk.own hgc ho
            rw [evalA_eq] at hev
            simpa [hq, wp, hev] using this
      · -- if q.err == nil { q.err = err }
        rename_i rest hq
        simp at h; obtain ⟨rfl, rfl, rfl⟩ := h
        rw [hq] at hstat
        refine ⟨qk_idle hgc (fun ho => ?_) hstat.2 hp, fun he => ?_, Or.inr (Or.inl rfl)⟩
        · have := hk.own hgc ho
          simpa [hq, wp] using this
        · cases sh; simp at he ⊢; exact he
      · -- append
        rename_i rest hq
        simp at h; obtain ⟨rfl, rfl, rfl⟩ := h
        rw [hq] at hstat
        rcases hsafe with ⟨hq', _⟩ | hsafe
        · simp [hq] at hq'
        · rw [hq] at hsafe; simp [safe] at hsafe
          have hw0 := hk.own hgc hsafe.1
          simp [hq, wp] at hw0
          refine ⟨qk_idle hgc (fun _ => ?_) hstat.2 hp, fun he => ?_, Or.inr (Or.inr (Or.inl ⟨_, rfl⟩))⟩
          · simpa using hw0.2
          · rw [he] at hw0; simp at hw0
      · -- pop
        rename_i rest hq
        rw [hq] at hstat
        rcases hsafe with ⟨hq', _⟩ | hsafe
        · simp [hq] at hq'
        · rw [hq] at hsafe; simp [safe] at hsafe
          have hw0 := hk.own hgc hsafe.1
          simp [hq, wp] at hw0
          split at h
          · rename_i hx
            simp [hx] at hw0
          · rename_i x r hx
            simp at h; obtain ⟨rfl, rfl, rfl⟩ := h
            refine ⟨qk_idle hgc (fun _ => ?_) hstat.2 hp, fun he => ?_, Or.inr (Or.inr (Or.inr ⟨x, r, hx, rfl⟩))⟩
            · simpa [hx] using hw0.2
            · rw [he] at hw0; simp at hw0
      · -- return v
        rename_i v rest hq
        simp at h; obtain ⟨rfl, rfl, rfl⟩ := h
        cases hd : qg.deferred
        · rw [retNow_nodefer qg v hd]
          exact ⟨qk_idle hgc (fun _ => rfl) trivial hp, fun _ => rfl, Or.inl rfl⟩
        · rw [retNow_defer qg v hd]
          exact ⟨qk_idle hgc (fun _ => wp_unlock v _ _) (wpS_unlock v) hp, fun _ => rfl, Or.inl rfl⟩

structure QInvK (c : QConfig) : Prop where
  inv : QInv c
  know : ∀ (j : Nat) (qg : QG), c.gs[j]? = some qg → QK c.sh qg

theorem qinvk_step {c c' : QConfig} {i : Nat} {a : QAct} (hI : QInvK c)
    (h : c.step queue gate i a = some c') :
    QInvK c' ∧ (c.sh.err = true → c'.sh = c.sh) ∧ StepKind c.sh c'.sh := by
  have hI' := qinv_step hI.inv h
  obtain ⟨qg, σ', sh', qg', hg, hs, rfl⟩ := qstep_cases h
  have hmem : qg ∈ c.gs := List.mem_of_getElem? hg
  have hw := hI.inv.wf qg hmem
  have F := qstep_local hI.inv.swf hw hs
  have htok := hI.inv.tok
  have hcond : qg.g.holding = false → 0 < (c.σ .set).len → condVal c.sh = true := by
    intro _ hl
    simp only [tokens, qholders] at htok
    have h0 : qholders c.gs = 0 := by simp only [qholders]; omega
    exact (hI.inv.cond h0).mp (by omega)
  obtain ⟨hk', hfrozen, hkind⟩ := qk_step hI.inv.swf hw (hI.know i qg hg) hcond hs
  have hle : holders (c.gs.map (·.g)) ≤ 1 := by simp only [qholders] at htok; omega
  refine ⟨⟨hI', ?_⟩, hfrozen, hkind⟩
  intro j x hx
  simp only at hx ⊢
  by_cases hji : j = i
  · subst hji
    have hlt : j < c.gs.length := (List.getElem?_eq_some_iff.mp hg).1
    simp [hlt] at hx; subst hx; exact hk'
  · rw [List.getElem?_set_ne (Ne.symm hji)] at hx
    have hkx := hI.know j x hx
    by_cases hsh : sh' = c.sh
    · rw [hsh]; exact hkx
    · obtain ⟨hh, _, _, _⟩ := F.excl hsh
      refine ⟨?_, hkx.stat, hkx.lock, hkx.wait, hkx.nopanic⟩
      intro hxc hxo
      exfalso
      have hxw := (hI.inv.wf x (List.mem_of_getElem? hx)).1
      have hxh : x.g.holding = true := by rw [← idle_owns_eq hxw hxc]; exact hxo
      have := holders_unique hle (i := j) (j := i) (g1 := x.g) (g2 := qg.g)
        (by simp [hx]) (by simp [hg]) hxh hh
      exact hji this

theorem qinvk_init (n : Nat) : QInvK (QConfig.init gate n) := by
  refine ⟨qinv_init n, ?_⟩
  intro j qg hj
  have : qg ∈ List.replicate n ({} : QG) := List.mem_of_getElem? hj
  simp at this
  rw [this.2]
  exact ⟨fun _ h => by simp at h, trivial, fun h => absurd rfl h, fun h => absurd rfl h, rfl⟩

theorem queue_invariant_know {c : QConfig} (h : QReachable queue gate c) : QInvK c := by
  induction h with
  | init n => exact qinvk_init n
  | step _ hs ih => exact (qinvk_step ih hs).1

end NetVerif.Proofs.QueueInv
