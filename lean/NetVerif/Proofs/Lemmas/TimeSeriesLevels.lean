/- C61: every level of a time series along a history (multi-level range theorem). -/
import NetVerif.Proofs.Lemmas.TimeSeriesHistory
namespace NetVerif.Proofs.TSRange
open NetVerif.Model.TimeSeries

/-- Regrouping on a COARSER level: the pending observations all lie in one cell of the finest grid
(`sz0`), and every coarser cell boundary is on that grid. -/
theorem LInv.regroup0 {l : Level} {n : Nat} {Hm Hp : Hist} (pt sz0 : Int) (hsz0 : 0 < sz0)
    (h : LInv l n ((pt, sumAll Hp) :: Hm)) (hgrid : pt % sz0 = 0) (hdiv : l.size % sz0 = 0)
    (hZ0 : zeroTime % sz0 = 0)
    (hin : ∀ p ∈ Hp, pt - sz0 < p.1 ∧ p.1 ≤ pt) : LInv l n (Hp ++ Hm) := by
  refine ⟨h.npos, h.szpos, h.len, h.old, h.grid, ?_, ?_⟩
  · intro i hi
    rw [h.cells i hi]
    congr 1
    rw [sumIn_append]
    simp only [sumIn]
    obtain ⟨cb1, cb2⟩ := cell_bounds l n i
    have d0 : sz0 ∣ pt := Int.dvd_of_emod_eq_zero hgrid
    have d1 : sz0 ∣ l.size := Int.dvd_of_emod_eq_zero hdiv
    have d2 : sz0 ∣ l.end_ := by
      rcases h.grid with hg | hz
      · exact Int.dvd_trans d1 (Int.dvd_of_emod_eq_zero hg)
      · rw [hz]; exact Int.dvd_of_emod_eq_zero hZ0
    have hlo : (pt - cellLo l n i) % sz0 = 0 := by
      rw [cb1]
      apply Int.emod_eq_zero_of_dvd
      have : pt - (l.end_ - l.size * n + i * l.size) = pt - l.end_ + l.size * n - i * l.size := by ring
      rw [this]
      exact Int.dvd_sub (Int.dvd_add (Int.dvd_sub d0 d2) (Dvd.dvd.mul_right d1 _)) (Dvd.dvd.mul_left d1 _)
    have hhi : (cellHi l n i + sz0 - pt) % sz0 = 0 := by
      rw [cb2]
      apply Int.emod_eq_zero_of_dvd
      have : l.end_ - l.size * n + i * l.size + l.size + sz0 - pt = l.end_ - l.size * n + i * l.size + l.size + sz0 - pt := rfl
      exact Int.dvd_sub (Int.dvd_add (Int.dvd_add (Int.dvd_add (Int.dvd_sub d2 (Dvd.dvd.mul_right d1 _)) (Dvd.dvd.mul_left d1 _)) d1) (Int.dvd_refl _)) d0
    by_cases hc : cellLo l n i < pt ∧ pt ≤ cellHi l n i
    · rw [if_pos hc]
      have h1 := mult_ge (pt - cellLo l n i) sz0 hsz0 (by omega) hlo
      have : sumIn (cellLo l n i) (cellHi l n i) Hp = sumAll Hp := by
        apply sumIn_all
        intro p hp
        have := hin p hp
        omega
      omega
    · rw [if_neg hc]
      have : sumIn (cellLo l n i) (cellHi l n i) Hp = 0 := by
        apply sumIn_empty
        intro p hp hc2
        have hpin := hin p hp
        apply hc
        have h1 : cellLo l n i < pt := by omega
        have h2 := mult_ge (cellHi l n i + sz0 - pt) sz0 hsz0 (by omega) hhi
        constructor <;> omega
      omega
  · intro p hp
    rw [List.mem_append] at hp
    rcases hp with hp | hp
    · have := hin p hp
      have := h.le_end (pt, sumAll Hp) (by simp)
      simp only at this
      omega
    · exact h.le_end p (by simp [hp])

def sumSizes : List Level → Int
  | [] => 0
  | l :: r => l.size + sumSizes r

/-- The invariant of ALL levels: each level holds exactly the observations of its cells; resolutions are
multiples of the finest one and fit `n` times into an int64 duration; ends are sorted (from `lo` upwards)
and bounded by `T + (sizes so far)` where `T` bounds every time that reached `advance`. -/
def LvInv (n : Nat) (sz0 : Int) (H : Hist) (T : Int) : Int → Int → List Level → Prop
  | _, _, [] => True
  | lo, c, l :: rest =>
    LInv l n H ∧ l.size % sz0 = 0 ∧ l.size * n ≤ maxDur ∧ lo ≤ l.end_ ∧ l.end_ ≤ T + c + l.size ∧
    LvInv n sz0 H T l.end_ (c + l.size) rest

theorem lv_mono {n : Nat} {sz0 : Int} {H : Hist} {T T' : Int} (hT : T ≤ T') :
    ∀ (ls : List Level) (lo c : Int), LvInv n sz0 H T lo c ls → LvInv n sz0 H T' lo c ls := by
  intro ls
  induction ls with
  | nil => intro _ _ _; trivial
  | cons l r ih =>
    intro lo c h
    obtain ⟨a, b, c1, d, e, f⟩ := h
    exact ⟨a, b, c1, d, by omega, ih _ _ f⟩

theorem lv_lo {n : Nat} {sz0 : Int} {H : Hist} {T : Int} (ls : List Level) (lo lo' c : Int)
    (h : LvInv n sz0 H T lo c ls) (hlo : ∀ l r, ls = l :: r → lo' ≤ l.end_) : LvInv n sz0 H T lo' c ls := by
  cases ls with
  | nil => trivial
  | cons l r =>
    obtain ⟨a, b, c1, _, e, f⟩ := h
    exact ⟨a, b, c1, hlo l r rfl, e, f⟩

theorem lv_merge {n : Nat} {sz0 : Int} {H : Hist} {T : Int} (t v : Int) :
    ∀ (ls : List Level) (lo c : Int), LvInv n sz0 H T lo c ls → t ≤ lo →
      LvInv n sz0 ((t, v) :: H) T lo c (ls.map (Level.merge n (Obs.exact v) t)) := by
  intro ls
  induction ls with
  | nil => intro _ _ _ _; trivial
  | cons l r ih =>
    intro lo c h ht
    obtain ⟨a, b, c1, d, e, f⟩ := h
    obtain ⟨m1, m2⟩ := merge_end_size n (Obs.exact v) t l
    simp only [List.map_cons]
    refine ⟨a.merge t v (by omega) c1, by rw [m2]; exact b, by rw [m2]; exact c1, by rw [m1]; exact d,
      by rw [m1, m2]; exact e, ?_⟩
    rw [m1, m2]
    exact ih _ _ f (by omega)

theorem lv_regroup {n : Nat} {sz0 : Int} {Hm Hp : Hist} {T : Int} (pt : Int) (hsz0 : 0 < sz0)
    (hgrid : pt % sz0 = 0) (hZ0 : zeroTime % sz0 = 0) (hin : ∀ p ∈ Hp, pt - sz0 < p.1 ∧ p.1 ≤ pt) :
    ∀ (ls : List Level) (lo c : Int), LvInv n sz0 ((pt, sumAll Hp) :: Hm) T lo c ls →
      LvInv n sz0 (Hp ++ Hm) T lo c ls := by
  intro ls
  induction ls with
  | nil => intro _ _ _; trivial
  | cons l r ih =>
    intro lo c h
    obtain ⟨a, b, c1, d, e, f⟩ := h
    exact ⟨LInv.regroup0 pt sz0 hsz0 a hgrid b hZ0 hin, b, c1, d, e, ih _ _ f⟩


theorem sumSizes_nonneg {n : Nat} {sz0 : Int} {H : Hist} {T : Int} :
    ∀ (ls : List Level) (lo c : Int), LvInv n sz0 H T lo c ls → 0 ≤ sumSizes ls := by
  intro ls
  induction ls with
  | nil => intro _ _ _; simp [sumSizes]
  | cons l r ih =>
    intro lo c h
    obtain ⟨a, _, _, _, _, f⟩ := h
    have := a.szpos
    have := ih _ _ f
    simp only [sumSizes]; omega

/-- `advance` over all levels: each level that is behind is brought up to the end of the previous one. -/
theorem lv_adv {n : Nat} {sz0 : Int} {H : Hist} {T : Int} :
    ∀ (ls : List Level) (lo c t : Int), LvInv n sz0 H T lo c ls → minDur ≤ t → t ≤ T + c →
      T + c + sumSizes ls ≤ maxDur →
      LvInv n sz0 H T t c (advLevels n t ls) ∧ sumSizes (advLevels n t ls) = sumSizes ls := by
  intro ls
  induction ls with
  | nil => intro _ _ _ _ _ _ _; exact ⟨trivial, rfl⟩
  | cons l r ih =>
    intro lo c t h hmin htT hcap
    obtain ⟨a, b, c1, d, e, f⟩ := h
    have hnn := sumSizes_nonneg _ _ _ f
    have hsz := a.szpos
    unfold advLevels
    by_cases hb : l.end_ < t
    · rw [if_neg (by omega)]
      simp only
      have hin : InI64 t := ⟨hmin, by simp only [sumSizes] at hcap; omega⟩
      obtain ⟨a', b1, b2, b3, _⟩ := a.advanceTo t hin hb c1
      have hrec := ih l.end_ (c + l.size) (l.advanceTo n t).end_ f (by omega) (by omega)
        (by simp only [sumSizes] at hcap; omega)
      refine ⟨⟨a', by rw [b3]; exact b, by rw [b3]; exact c1, b1, by rw [b3]; omega, ?_⟩, ?_⟩
      · rw [b3]; exact hrec.1
      · simp only [sumSizes, b3, hrec.2]
    · rw [if_pos (by omega)]
      exact ⟨⟨a, b, c1, by omega, e, f⟩, rfl⟩

theorem linv_fresh0 (n : Nat) (sz : Int) (hn : 1 ≤ n) (hsz : 0 < sz) : LInv (Level.fresh n sz) n [] :=
  linv_fresh n sz hn hsz

theorem lv_fresh (n : Nat) (sz0 : Int) (hn : 1 ≤ n) (T : Int) (hT : zeroTime ≤ T) :
    ∀ (rs : List Int) (c : Int), 0 ≤ c → (∀ r ∈ rs, 0 < r ∧ r % sz0 = 0 ∧ r * n ≤ maxDur) →
      LvInv n sz0 [] T zeroTime c (rs.map (Level.fresh n)) := by
  intro rs
  induction rs with
  | nil => intro _ _ _; trivial
  | cons r rest ih =>
    intro c hc h
    obtain ⟨h1, h2, h3⟩ := h r (by simp)
    simp only [List.map_cons]
    refine ⟨linv_fresh0 n r hn h1, h2, h3, ?_, ?_, ?_⟩
    · show zeroTime ≤ zeroTime; omega
    · show zeroTime ≤ T + c + r; omega
    · exact ih (c + r) (by omega) (fun x hx => h x (by simp [hx]))

theorem lv_sizes {n : Nat} {sz0 : Int} {H : Hist} {T : Int} :
    ∀ (ls : List Level) (lo c : Int), LvInv n sz0 H T lo c ls →
      ∀ r ∈ ls.map (·.size), 0 < r ∧ r % sz0 = 0 ∧ r * n ≤ maxDur := by
  intro ls
  induction ls with
  | nil => intro _ _ _ r hr; simp at hr
  | cons x rest ih =>
    intro lo c h r hr
    obtain ⟨a, b, c1, _, _, f⟩ := h
    simp only [List.map_cons, List.mem_cons] at hr
    rcases hr with e | e
    · subst e; exact ⟨a.szpos, b, c1⟩
    · exact ih _ _ f r e

/-! ### all levels along a history -/

theorem sumSizes_map_merge (n : Nat) (o : Obs) (t : Int) (ls : List Level) :
    sumSizes (ls.map (Level.merge n o t)) = sumSizes ls := by
  induction ls with
  | nil => rfl
  | cons l r ih => simp only [List.map_cons, sumSizes, ih, (merge_end_size n o t l).2]

structure MI (s : TS) (sz : Int) (Hm Hp : Hist) (T S : Int) : Prop where
  ri : RI s sz Hm Hp
  lv : LvInv s.n sz Hm T s.pendingTime 0 s.levels
  ss : sumSizes s.levels = S
  cap : T + S ≤ maxDur
  szpos : 0 < sz
  hz : zeroTime % sz = 0
  tz : zeroTime ≤ T

theorem mi_mergePending {s : TS} {sz : Int} {Hm Hp : Hist} {T S : Int} (h : MI s sz Hm Hp T S) :
    MI s.mergePending sz (Hp ++ Hm) [] T S := by
  obtain ⟨m1, _, _, m4, m5, _⟩ := ri_mergePending h.ri h.hz
  obtain ⟨l0, rest, r⟩ := h.ri
  refine ⟨m1, ?_, ?_, h.cap, h.szpos, h.hz, h.tz⟩
  · rw [m4, m5]
    unfold TS.mergePending
    by_cases hd : s.dirty = true
    · rw [if_pos hd]
      have hps := r.hp_sum hd
      show LvInv s.n sz (Hp ++ Hm) T s.pendingTime 0 (s.levels.map (Level.merge s.n s.pending s.pendingTime))
      have hpe : s.pending = Obs.exact (sumAll Hp) := by rw [hps]; rfl
      rw [hpe]
      exact lv_regroup s.pendingTime h.szpos r.pt_grid h.hz r.hp_in _ _ _
        (lv_merge s.pendingTime (sumAll Hp) _ _ _ h.lv (Int.le_refl _))
    · rw [if_neg hd]
      have hd' : s.dirty = false := by simpa using hd
      rw [(r.hp_clean hd').1]
      exact h.lv
  · unfold TS.mergePending
    split
    · show sumSizes (s.levels.map _) = S
      rw [sumSizes_map_merge]; exact h.ss
    · exact h.ss

theorem mi_advance {s : TS} {sz : Int} {Hm Hp : Hist} {T S : Int} (h : MI s sz Hm Hp T S) (t : Int)
    (hmin : minDur ≤ t) (hmax : t + S ≤ maxDur) :
    MI (s.advance t) sz Hm Hp (max T t) S := by
  have hin : InI64 t := ⟨hmin, by
    have := h.ss
    obtain ⟨l0, rest, r⟩ := h.ri
    have hnn := sumSizes_nonneg _ _ _ h.lv
    omega⟩
  obtain ⟨a1, _, _, a4, _, a6, _⟩ := ri_advance h.ri t hin
  obtain ⟨l0, rest, r⟩ := h.ri
  have hT : T ≤ max T t := Int.le_max_left _ _
  have hlv := lv_mono hT _ _ _ h.lv
  have hss := h.ss
  rw [r.lev] at hlv hss
  have hadv := lv_adv _ _ _ t hlv hmin (by have := Int.le_max_right T t; omega)
    (by rw [hss]; have := h.cap; omega)
  refine ⟨a1, ?_, ?_, by have := h.cap; omega, h.szpos, h.hz, by have := h.tz; omega⟩
  · rw [a4, a6]
    unfold TS.advance
    rw [r.lev]
    simp only
    by_cases hgt : t > l0.end_
    · rw [if_neg (not_not.mpr hgt)]
      show LvInv s.n sz Hm (max T t) s.pendingTime 0 (advLevels s.n t (l0 :: rest))
      apply lv_lo _ _ _ _ hadv.1
      intro l rr hl
      have h1 := hadv.1
      rw [hl] at h1
      have := h1.2.2.2.1
      have := r.pt_le
      omega
    · rw [if_pos hgt]
      rw [r.lev]; exact hlv
  · unfold TS.advance
    rw [r.lev]
    simp only
    split
    · rw [r.lev]; exact hss
    · show sumSizes (advLevels s.n t (l0 :: rest)) = S
      rw [hadv.2]; exact hss

theorem mi_add {s : TS} {sz : Int} {Hm Hp : Hist} {T S : Int} (h : MI s sz Hm Hp T S) (t v : Int)
    (hmin : minDur ≤ t) (hmax : t + S ≤ maxDur) (hnb : addBehind s t = false) :
    ∃ Hm' Hp', MI (s.addWithTime (Obs.exact v) t) sz Hm' Hp' (max T t) S ∧
      ∀ lo hi, sumIn lo hi Hm' + sumIn lo hi Hp' =
        (if lo < t ∧ t ≤ hi then v else 0) + (sumIn lo hi Hm + sumIn lo hi Hp) := by
  have hnn := sumSizes_nonneg _ _ _ h.lv
  have hin : InI64 t := ⟨hmin, by have := h.ss; omega⟩
  obtain ⟨Hm', Hp', rri, hn, hs, g1, g2, g3⟩ := ri_add h.ri h.hz t v hin hnb
  refine ⟨Hm', Hp', ⟨rri, ?_, ?_, by have := h.cap; omega, h.szpos, h.hz, by have := h.tz; omega⟩, hs⟩
  all_goals
    unfold TS.addWithTime
    have h0 : MI (if t > s.lastAdd then { s with lastAdd := t } else s) sz Hm Hp T S := by
      refine ⟨(ri_lastAdd h.ri t).1, ?_, ?_, h.cap, h.szpos, h.hz, h.tz⟩
      · split
        · exact h.lv
        · exact h.lv
      · split
        · exact h.ss
        · exact h.ss
    have hpt0 : (if t > s.lastAdd then { s with lastAdd := t } else s).pendingTime = s.pendingTime := by split <;> rfl
    have hsize0 : (if t > s.lastAdd then { s with lastAdd := t } else s).size0 = s.size0 := by split <;> rfl
    generalize (if t > s.lastAdd then { s with lastAdd := t } else s) = s0 at h0 hpt0 hsize0
    simp only
  · by_cases b1 : t > s0.pendingTime
    · rw [if_pos b1]
      obtain ⟨e1, e2⟩ := g1 (hpt0 ▸ b1)
      subst e1 e2
      have m2 := mi_mergePending (mi_advance h0 t hmin hmax)
      show LvInv ((s0.advance t).mergePending).n sz (Hp ++ Hm) (max T t) ((s0.advance t).mergePending).end0 0
        ((s0.advance t).mergePending).levels
      apply lv_lo _ _ _ _ m2.lv
      intro l rr hl
      unfold TS.end0; rw [hl]
    · rw [if_neg b1]
      by_cases b2 : t > s0.pendingTime + (-1) * s0.size0
      · rw [if_pos b2]
        obtain ⟨e1, e2⟩ := g2 (by rw [← hpt0]; exact b1) (by rw [← hpt0, ← hsize0]; exact b2)
        subst e1 e2
        exact lv_mono (Int.le_max_left _ _) _ _ _ h0.lv
      · rw [if_neg b2]
        obtain ⟨e1, e2⟩ := g3 (by rw [← hpt0]; exact b1) (by rw [← hpt0, ← hsize0]; exact b2)
        subst e1 e2
        show LvInv s0.n sz ((t, v) :: Hm) (max T t) s0.pendingTime 0 (s0.levels.map (Level.merge s0.n (Obs.exact v) t))
        exact lv_merge t v _ _ _ (lv_mono (Int.le_max_left _ _) _ _ _ h0.lv) (by omega)
  · by_cases b1 : t > s0.pendingTime
    · rw [if_pos b1]
      exact (mi_mergePending (mi_advance h0 t hmin hmax)).ss
    · rw [if_neg b1]
      by_cases b2 : t > s0.pendingTime + (-1) * s0.size0
      · rw [if_pos b2]; exact h0.ss
      · rw [if_neg b2]
        show sumSizes (s0.levels.map _) = S
        rw [sumSizes_map_merge]; exact h0.ss

theorem mi_catchUp {s : TS} {sz : Int} {Hm Hp : Hist} {T S : Int} (h : MI s sz Hm Hp T S) (now : Int)
    (hmin : minDur ≤ now) (hmax : now + S ≤ maxDur) :
    MI (s.catchUp now) sz (Hp ++ Hm) [] (max T now) S := by
  have hnn := sumSizes_nonneg _ _ _ h.lv
  have hin : InI64 now := ⟨hmin, by have := h.ss; omega⟩
  have hri := (ri_catchUp h.ri h.hz now hin).1
  have key : MI ((if s.end0 < now then s.advance now else s).mergePending) sz (Hp ++ Hm) [] (max T now) S := by
    split
    · exact mi_mergePending (mi_advance h now hmin hmax)
    · have := mi_mergePending h
      exact ⟨this.ri, lv_mono (Int.le_max_left _ _) _ _ _ this.lv, this.ss, by have := h.cap; omega, h.szpos, h.hz,
        by have := h.tz; omega⟩
  refine ⟨hri, ?_, ?_, key.cap, h.szpos, h.hz, key.tz⟩
  · unfold TS.catchUp
    show LvInv _ sz (Hp ++ Hm) (max T now) ((if s.end0 < now then s.advance now else s).mergePending).end0 0
      ((if s.end0 < now then s.advance now else s).mergePending).levels
    apply lv_lo _ _ _ _ key.lv
    intro l rr hl
    generalize (if s.end0 < now then s.advance now else s).mergePending = s2 at hl ⊢
    unfold TS.end0; rw [hl]
  · unfold TS.catchUp
    exact key.ss

theorem lv_mem {n : Nat} {sz0 : Int} {H : Hist} {T : Int} :
    ∀ (ls : List Level) (lo c : Int), LvInv n sz0 H T lo c ls → ∀ l ∈ ls, LInv l n H ∧ l.size * n ≤ maxDur := by
  intro ls
  induction ls with
  | nil => intro _ _ _ l hl; simp at hl
  | cons x r ih =>
    intro lo c h l hl
    obtain ⟨a, _, c1, _, _, f⟩ := h
    simp only [List.mem_cons] at hl
    rcases hl with e | e
    · subst e; exact ⟨a, c1⟩
    · exact ih _ _ f l e

theorem pickLevel_mem (n : Nat) (a : Int) : ∀ (ls : List Level) (l : Level), pickLevel n a ls = some l → l ∈ ls := by
  intro ls
  induction ls with
  | nil => intro l h; simp [pickLevel] at h
  | cons x r ih =>
    intro l h
    cases r with
    | nil => simp [pickLevel] at h; subst h; simp
    | cons y r' =>
      unfold pickLevel at h
      split at h
      · simp at h; subst h; simp
      · exact List.mem_cons_of_mem _ (ih l h)

/-- `[a, b)` — i.e. the cells `(a, b]` in the bucket convention of `mergeValue` — is aligned to the grid of
the level `ComputeRange` picks for `a` (the finest level whose retained window contains `a`, else the
coarsest) and starts inside that level's window. -/
def alignedPicked (s : TS) (a b : Int) : Bool :=
  match pickLevel s.mergePending.n a s.mergePending.levels with
  | none => false
  | some l => decide (l.end_ - l.size * s.mergePending.n ≤ a ∧ a ≤ b ∧ b - a ≤ maxDur ∧
                      (l.end_ - a) % l.size = 0 ∧ (b - a) % l.size = 0)

theorem mi_range {s : TS} {sz : Int} {Hm Hp : Hist} {T S : Int} (h : MI s sz Hm Hp T S) (a b : Int)
    (hal : alignedPicked s a b = true) :
    (s.range a b).2 = some ⟨sumIn a b Hm + sumIn a b Hp, false⟩ := by
  have m := mi_mergePending h
  obtain ⟨l0, rest, r⟩ := m.ri
  unfold alignedPicked at hal
  cases hp : pickLevel s.mergePending.n a s.mergePending.levels with
  | none => rw [hp] at hal; simp at hal
  | some l =>
    rw [hp] at hal
    simp only [decide_eq_true_eq] at hal
    obtain ⟨h1, h2, h3, h4, h5⟩ := hal
    obtain ⟨hl, hc⟩ := lv_mem _ _ _ m.lv l (pickLevel_mem _ _ _ _ hp)
    unfold TS.range TS.computeRange
    have c1 : ¬ (a > b) := by omega
    rw [if_neg c1]
    simp only [show ¬ ((1 : Int) < 0) by omega, if_false, hp]
    simp only [show ¬ ((1 : Int) = 0) by omega, if_false]
    have hex := extract_aligned hl s.mergePending.lastAdd a b
      (by intro p hp'; exact r.last p (by simpa using hp')) hc h1 h2 h3 h4 h5
    have ht : (1 : Int).toNat = 1 := rfl
    rw [ht, hex]
    simp only [sumIn_append]
    congr 2
    omega

theorem sumSizes_clear (n : Nat) (ls : List Level) :
    sumSizes (ls.map (fun l => Level.fresh n l.size)) = sumSizes ls := by
  induction ls with
  | nil => rfl
  | cons l r ih => simp only [List.map_cons, sumSizes, ih]; rfl

theorem mi_clear {s : TS} {sz : Int} {Hm Hp : Hist} {T S : Int} (h : MI s sz Hm Hp T S) :
    MI s.clear sz [] [] T S := by
  obtain ⟨c1, _⟩ := ri_clear h.ri h.hz
  have hn : 1 ≤ s.n := by obtain ⟨l0, rest, r⟩ := h.ri; exact r.linv.npos
  refine ⟨c1, ?_, ?_, h.cap, h.szpos, h.hz, h.tz⟩
  · show LvInv s.n sz [] T zeroTime 0 (s.levels.map (fun l => Level.fresh s.n l.size))
    have := lv_fresh s.n sz hn T h.tz (s.levels.map (·.size)) 0 (by omega) (lv_sizes _ _ _ h.lv)
    rw [List.map_map] at this
    exact this
  · show sumSizes (s.levels.map (fun l => Level.fresh s.n l.size)) = S
    rw [sumSizes_clear]; exact h.ss

/-- No `Clear` in the history (the multi-level theorem is stated for histories of adds and reads). -/
def noClear : List Op → Bool
  | [] => true
  | .clear :: _ => false
  | _ :: rest => noClear rest

/-- Every time that reaches `advance` leaves room for the level ends above it (`S` = sum of resolutions). -/
def timesFit (S : Int) : List Op → Bool
  | [] => true
  | .add t _ :: rest => decide (minDur ≤ t ∧ t + S ≤ maxDur) && timesFit S rest
  | .latest now _ _ :: rest => decide (minDur ≤ now ∧ now + S ≤ maxDur) && timesFit S rest
  | .latestBuckets now _ _ :: rest => decide (minDur ≤ now ∧ now + S ≤ maxDur) && timesFit S rest
  | _ :: rest => timesFit S rest

theorem mi_run (sz S : Int) (ops : List Op) :
    ∀ (s : TS) (Hm Hp H0 : Hist) (T : Int), MI s sz Hm Hp T S → timesFit S ops = true →
      PE s → (∀ lo hi, sumIn lo hi Hm + sumIn lo hi Hp = sumIn lo hi H0) →
      ∃ Hm' Hp' T', MI (s.run ops) sz Hm' Hp' T' S ∧
        ∀ lo hi, sumIn lo hi Hm' + sumIn lo hi Hp' = sumIn lo hi (histList ops H0) := by
  induction ops with
  | nil => intro s Hm Hp H0 T h _ _ hH; exact ⟨Hm, Hp, T, h, hH⟩
  | cons op rest ih =>
    intro s Hm Hp H0 T h hin hpe hH
    have hrun : s.run (op :: rest) = (s.step op).run rest := by simp [TS.run]
    rw [hrun]
    have hpe' := pe_step hpe op
    cases op with
    | add t v =>
      simp only [timesFit, Bool.and_eq_true, decide_eq_true_eq] at hin
      have hnb : addBehind s t = false := by
        have := noAddBehind_of_pe [.add t v] s hpe
        simp only [noAddBehind, Bool.and_eq_true, Bool.not_eq_true'] at this
        exact this.1
      obtain ⟨Hm', Hp', m', hs⟩ := mi_add h t v hin.1.1 hin.1.2 hnb
      exact ih _ Hm' Hp' ((t, v) :: H0) _ m' hin.2 hpe' (by
        intro lo hi; rw [hs lo hi, hH lo hi]; simp only [sumIn])
    | total =>
      exact ih _ _ _ H0 _ (mi_mergePending h) (by simpa [timesFit] using hin) hpe'
        (by intro lo hi; rw [sumIn_append]; simp only [sumIn]; have := hH lo hi; omega)
    | latest now level num =>
      simp only [timesFit, Bool.and_eq_true, decide_eq_true_eq] at hin
      have hst : s.step (.latest now level num) = s.catchUp now := latest_state s now level num
      rw [hst] at hpe' ⊢
      exact ih _ _ _ H0 _ (mi_catchUp h now hin.1.1 hin.1.2) hin.2 hpe'
        (by intro lo hi; rw [sumIn_append]; simp only [sumIn]; have := hH lo hi; omega)
    | latestBuckets now level num =>
      simp only [timesFit, Bool.and_eq_true, decide_eq_true_eq] at hin
      have hstep : s.step (.latestBuckets now level num) = (s.latestBuckets now level num).1 := rfl
      rw [hstep] at hpe' ⊢
      rcases latestBuckets_state s now level num with e | e
      · rw [e] at hpe' ⊢
        exact ih _ Hm Hp H0 _ h hin.2 hpe' hH
      · rw [e] at hpe' ⊢
        exact ih _ _ _ H0 _ (mi_catchUp h now hin.1.1 hin.1.2) hin.2 hpe'
          (by intro lo hi; rw [sumIn_append]; simp only [sumIn]; have := hH lo hi; omega)
    | computeRange a b num =>
      have hstep : s.step (.computeRange a b num) = (s.computeRange a b num).1 := rfl
      rw [hstep] at hpe' ⊢
      rcases computeRange_state s a b num with e | e
      · rw [e] at hpe' ⊢
        exact ih _ Hm Hp H0 _ h (by simpa [timesFit] using hin) hpe' hH
      · rw [e] at hpe' ⊢
        exact ih _ _ _ H0 _ (mi_mergePending h) (by simpa [timesFit] using hin) hpe'
          (by intro lo hi; rw [sumIn_append]; simp only [sumIn]; have := hH lo hi; omega)
    | clear =>
      exact ih _ [] [] [] _ (mi_clear h) (by simpa [timesFit] using hin) hpe' (by intro lo hi; rfl)

def resOK (n : Nat) (sz0 : Int) (rs : List Int) : Prop :=
  ∀ r ∈ rs, 0 < r ∧ r % sz0 = 0 ∧ r * n ≤ maxDur

theorem sumSizes_fresh (n : Nat) (rs : List Int) : sumSizes (rs.map (Level.fresh n)) = rs.sum := by
  induction rs with
  | nil => rfl
  | cons r rest ih => simp only [List.map_cons, sumSizes, List.sum_cons, ih]; rfl

theorem mi_init (n : Nat) (sz : Int) (rest : List Int) (hn : 1 ≤ n) (hsz : 0 < sz) (hcap : sz * n ≤ maxDur)
    (hZ : zeroTime % sz = 0) (hres : resOK n sz (sz :: rest)) (hS : zeroTime + (sz :: rest).sum ≤ maxDur) :
    MI (TS.init n (sz :: rest)) sz [] [] zeroTime (sz :: rest).sum :=
  ⟨ri_init n sz rest hn hsz hcap hZ, lv_fresh n sz hn zeroTime (Int.le_refl _) (sz :: rest) 0 (by omega) hres,
   sumSizes_fresh n (sz :: rest), hS, hsz, hZ, Int.le_refl _⟩

/-- **C61, second clause, every level.** For every configuration whose resolutions are positive multiples
of the finest one (the finest one dividing the zero time) and fit `numBuckets` times into an int64 duration, and for every
history of adds (any order, any rollovers, far jumps), reads (`Total`, `Latest`, `LatestBuckets`,
`ComputeRange`) and `Clear`s whose times leave room for the level ends (`t + Σ resolutions ≤ maxDur`): if the range
`[a, b)` is aligned to the bucket grid of the level `ComputeRange` picks (the finest level whose retained
window contains `a`) and starts inside that level's window, `Range(a, b)` reports exactly the observations
added in it — the proportional-interpolation branch of `extract` is never taken (no approximation flag). -/
theorem range_aligned_exact (n : Nat) (sz : Int) (rest : List Int) (hn : 1 ≤ n) (hsz : 0 < sz)
    (hcap : sz * n ≤ maxDur) (hZ : zeroTime % sz = 0) (hres : resOK n sz (sz :: rest))
    (hS : zeroTime + (sz :: rest).sum ≤ maxDur) (ops : List Op) (a b : Int)
    (hin : timesFit (sz :: rest).sum ops = true)
    (hal : alignedPicked ((TS.init n (sz :: rest)).run ops) a b = true) :
    (((TS.init n (sz :: rest)).run ops).range a b).2 = some ⟨obsIn a b 0 ops, false⟩ := by
  obtain ⟨Hm, Hp, T, m, hs⟩ := mi_run sz _ ops _ [] [] [] zeroTime (mi_init n sz rest hn hsz hcap hZ hres hS) hin
    (pe_init n sz rest hsz) (by intro lo hi; rfl)
  rw [mi_range m a b hal, hs a b]
  have := obsIn_histList a b ops []
  simp only [sumIn] at this
  rw [this]

end NetVerif.Proofs.TSRange
