import NetVerif.Proofs.Lemmas.HtmlTokSpan3
/-!
Fuel sufficiency for the exact tokenizer model: every loop is given more fuel
than it can use, so the `fuelOut` marker is never raised.
`rem z` is the number of unread input bytes.
-/
namespace NetVerif.Proofs.Lemmas.HtmlTokFuel
open NetVerif.Model.HtmlTokExact NetVerif.Proofs.Lemmas.HtmlTokExact NetVerif.Proofs.Lemmas.HtmlTokSpan

def rem (z : Z) : Nat := z.inp.size - z.rawEnd

theorem fo_readByte (z : Z) : (readByte z).2.fuelOut = z.fuelOut := by
  unfold readByte; split
  · rfl
  · simp only []; split <;> rfl

theorem fo_unread (z : Z) (k : Nat) : (unread z k).fuelOut = z.fuelOut := rfl

/-- a read that leaves no error has consumed one byte -/
theorem rem_read (z : Z) (h : Ok z) (hok : (readByte z).2.err = .none) :
    rem (readByte z).2 + 1 = rem z := by
  have hr := rb z h
  have := hr.2.2 hok
  obtain ⟨m1, m2, m3, m4, m5⟩ := hr.1
  unfold rem; rw [m3] at m2 ⊢; omega

theorem rem_mono {z r : Z} (m : Mono z r) : rem r ≤ rem z := by
  obtain ⟨m1, m2, m3, m4, m5⟩ := m
  unfold rem; rw [m3]; omega

theorem fo_skipWSLoop (f : Nat) (z : Z) (h : Ok z) (hf : rem z < f) : (skipWSLoop f z).fuelOut = z.fuelOut := by
  induction f generalizing z with
  | zero => omega
  | succ f ih =>
    have hr := rb z h
    have hok := ok_of_mono h hr.1
    have hfo := fo_readByte z
    simp only [skipWSLoop]
    split
    · exact hfo
    · rename_i e; simp only [ne_eq, Decidable.not_not] at e
      have := rem_read z h e
      split
      · rw [ih _ hok (by omega)]; exact hfo
      · exact hfo

theorem fo_skipWhiteSpace (z : Z) (h : Ok z) : (skipWhiteSpace z).fuelOut = z.fuelOut := by
  unfold skipWhiteSpace
  split
  · rfl
  · exact fo_skipWSLoop _ z h (by unfold rem; omega)

theorem fo_matchRawTag (t : List Nat) (z : Z) : (matchRawTag t z).2.fuelOut = z.fuelOut := by
  induction t generalizing z with
  | nil => rfl
  | cons t ts ih =>
    have hfo := fo_readByte z
    simp only [matchRawTag]
    repeat' split
    all_goals first | exact hfo | (rw [ih]; exact hfo)

theorem fo_readRawEndTag (z : Z) : (readRawEndTag z).2.fuelOut = z.fuelOut := by
  have hm := fo_matchRawTag z.rawTag z
  unfold readRawEndTag
  split
  · rename_i z1 heq; rw [heq] at hm; exact hm
  · rename_i v z1 heq; rw [heq] at hm
    have hb := fo_readByte z1
    simp only []
    repeat' split
    all_goals first | (rw [hb]; exact hm) | (simp only [unread]; rw [hb]; exact hm)

theorem fo_matchScript (w : List (Nat × Nat)) (z : Z) : (matchScript w z).2.fuelOut = z.fuelOut := by
  induction w generalizing z with
  | nil => rfl
  | cons w ws ih =>
    obtain ⟨lo, up⟩ := w
    have hfo := fo_readByte z
    simp only [matchScript]
    repeat' split
    all_goals first | exact hfo | (rw [ih]; exact hfo)

/-- generic shape of the one-byte-per-iteration loops -/
theorem fo_commentLoop (f d : Nat) (b : Bool) (z : Z) (h : Ok z) (hf : rem z < f) :
    (commentLoop f d b z).fuelOut = z.fuelOut := by
  induction f generalizing d b z with
  | zero => omega
  | succ f ih =>
    have hr := rb z h
    have hok := ok_of_mono h hr.1
    have hfo := fo_readByte z
    have hr2 := rb _ hok
    have hok2 := ok_of_mono hok hr2.1
    have hfo2 := fo_readByte (readByte z).2
    simp only [commentLoop]
    split
    · exact hfo
    · rename_i e; simp only [ne_eq, Decidable.not_not] at e
      have p1 := rem_read z h e
      have r2 := rem_mono hr2.1
      repeat' split
      all_goals first
        | exact hfo
        | (rw [hfo2]; exact hfo)
        | (rw [ih _ _ _ hok (by omega)]; exact hfo)
        | (rw [ih _ _ _ hok2 (by omega), hfo2]; exact hfo)

theorem fo_untilCloseAngleLoop (f : Nat) (z : Z) (h : Ok z) (hf : rem z < f) :
    (untilCloseAngleLoop f z).fuelOut = z.fuelOut := by
  induction f generalizing z with
  | zero => omega
  | succ f ih =>
    have hr := rb z h
    have hok := ok_of_mono h hr.1
    have hfo := fo_readByte z
    simp only [untilCloseAngleLoop]
    split
    · exact hfo
    · rename_i e; simp only [ne_eq, Decidable.not_not] at e
      have p1 := rem_read z h e
      split
      · exact hfo
      · rw [ih _ hok (by omega)]; exact hfo

theorem fo_readUntilCloseAngle (z : Z) (h : Ok z) : (readUntilCloseAngle z).fuelOut = z.fuelOut := by
  unfold readUntilCloseAngle
  exact fo_untilCloseAngleLoop _ { z with dataStart := z.rawEnd } h (by unfold rem; simp only []; omega)

theorem fo_cdataLoop (f b : Nat) (z : Z) (h : Ok z) (hf : rem z < f) : (cdataLoop f b z).fuelOut = z.fuelOut := by
  induction f generalizing b z with
  | zero => omega
  | succ f ih =>
    have hr := rb z h
    have hok := ok_of_mono h hr.1
    have hfo := fo_readByte z
    simp only [cdataLoop]
    split
    · exact hfo
    · rename_i e; simp only [ne_eq, Decidable.not_not] at e
      have p1 := rem_read z h e
      repeat' split
      all_goals first | exact hfo | (rw [ih _ _ hok (by omega)]; exact hfo)

theorem fo_tagNameLoop (f : Nat) (z : Z) (h : Ok z) (hf : rem z < f) : (tagNameLoop f z).fuelOut = z.fuelOut := by
  induction f generalizing z with
  | zero => omega
  | succ f ih =>
    have hr := rb z h
    have hok := ok_of_mono h hr.1
    have hfo := fo_readByte z
    simp only [tagNameLoop]
    split
    · exact hfo
    · rename_i e; simp only [ne_eq, Decidable.not_not] at e
      have p1 := rem_read z h e
      repeat' split
      all_goals first | exact hfo | (rw [ih _ hok (by omega)]; exact hfo)

theorem fo_attrKeyLoop (f : Nat) (z : Z) (h : Ok z) (hf : rem z < f) : (attrKeyLoop f z).fuelOut = z.fuelOut := by
  induction f generalizing z with
  | zero => omega
  | succ f ih =>
    have hr := rb z h
    have hok := ok_of_mono h hr.1
    have hfo := fo_readByte z
    simp only [attrKeyLoop]
    split
    · exact hfo
    · rename_i e; simp only [ne_eq, Decidable.not_not] at e
      have p1 := rem_read z h e
      repeat' split
      all_goals first | exact hfo | (rw [ih _ hok (by omega)]; exact hfo)

theorem fo_quotedValLoop (f q : Nat) (z : Z) (h : Ok z) (hf : rem z < f) : (quotedValLoop f q z).fuelOut = z.fuelOut := by
  induction f generalizing z with
  | zero => omega
  | succ f ih =>
    have hr := rb z h
    have hok := ok_of_mono h hr.1
    have hfo := fo_readByte z
    simp only [quotedValLoop]
    split
    · exact hfo
    · rename_i e; simp only [ne_eq, Decidable.not_not] at e
      have p1 := rem_read z h e
      repeat' split
      all_goals first | exact hfo | (rw [ih _ hok (by omega)]; exact hfo)

theorem fo_unquotedValLoop (f : Nat) (z : Z) (h : Ok z) (hf : rem z < f) : (unquotedValLoop f z).fuelOut = z.fuelOut := by
  induction f generalizing z with
  | zero => omega
  | succ f ih =>
    have hr := rb z h
    have hok := ok_of_mono h hr.1
    have hfo := fo_readByte z
    simp only [unquotedValLoop]
    split
    · exact hfo
    · rename_i e; simp only [ne_eq, Decidable.not_not] at e
      have p1 := rem_read z h e
      repeat' split
      all_goals first | exact hfo | (rw [ih _ hok (by omega)]; exact hfo)

theorem fo_plaintextLoop (f : Nat) (z : Z) (h : Ok z) (hf : rem z + 1 < f) : (plaintextLoop f z).fuelOut = z.fuelOut := by
  induction f generalizing z with
  | zero => omega
  | succ f ih =>
    have hr := rb z h
    have hok := ok_of_mono h hr.1
    have hfo := fo_readByte z
    simp only [plaintextLoop]
    split
    · rfl
    · by_cases e : (readByte z).2.err = .none
      · have p1 := rem_read z h e
        rw [ih _ hok (by omega)]; exact hfo
      · -- the read failed: the next iteration stops at once
        cases f with
        | zero => omega
        | succ f => simp only [plaintextLoop, e, ne_eq, not_false_eq_true, if_true]; exact hfo

/-! ### readScript: potential `8·rem + rank` strictly decreases on every transition -/

open NetVerif.Proofs.Lemmas.HtmlTokMaxBuf (rt rt_readByte rt_unread rt_readRawEndTag rt_matchScript rawTag_of_rt)

def rank : SS → Nat
  | .data | .esc | .dblEsc => 0
  | .dblEscStart => 9
  | .escLt => 2
  | _ => 1

theorem fo_scriptLoop (f : Nat) (st : SS) (z : Z) (h : Ok z) (hn : z.rawStart + need st ≤ z.rawEnd)
    (hl : z.rawTag.length = 6) (hf : 8 * rem z + rank st < f) : (scriptLoop f st z).fuelOut = z.fuelOut := by
  induction f generalizing st z with
  | zero => omega
  | succ f ih =>
    have hr := rb z h
    obtain ⟨m1, m2, m3, m4, m5⟩ := hr.1
    have hok := ok_of_mono h hr.1
    have hfo := fo_readByte z
    have hrt := rawTag_of_rt (rt_readByte z)
    have hre := span_readRawEndTag z h
    have hrert := rawTag_of_rt (rt_readRawEndTag z)
    have hfre := frame_of_fr (fr_readRawEndTag z)
    have hfoe := fo_readRawEndTag z
    have step : ∀ st', need st' ≤ need st + 1 → rank st' < rank st + 8 → (readByte z).2.err = .none →
        (scriptLoop f st' (readByte z).2).fuelOut = z.fuelOut := by
      intro st' hle hrk hok1
      have p := hr.2.2 hok1
      have q := rem_read z h hok1
      rw [ih st' _ hok (by rw [m4, p]; omega) (by rw [hrt]; exact hl) (by omega)]; exact hfo
    have stepU : ∀ st', need st' = 0 → rank st' < rank st → (readByte z).2.err = .none →
        (scriptLoop f st' (unread (readByte z).2)).fuelOut = z.fuelOut := by
      intro st' hle hrk hok1
      have hu := mono_unread1 z h hok1
      have q := rem_mono hu
      rw [ih st' _ (ok_of_mono h hu) (by rw [hu.2.2.2.1, hle]; have := hu.1; omega) (by simp [unread, hrt, hl]) (by omega)]
      exact hfo
    have stepE : ∀ st', need st' = 0 → rank st' < rank st → (readRawEndTag z).1 = false →
        (scriptLoop f st' (readRawEndTag z).2).fuelOut = z.fuelOut := by
      intro st' hle hrk hfalse
      have hm := hre.1 hfalse
      have q := rem_mono hm
      rw [ih st' _ (ok_of_mono h hm) (by rw [hm.2.2.2.1, hle]; have := hm.1; omega) (by rw [hrert]; exact hl) (by omega)]
      exact hfoe
    cases st <;> simp only [scriptLoop]
    case endTagOpen =>
      cases hb : (readRawEndTag z).1 with
      | true => simp only [true_or, if_true]; exact hfoe
      | false =>
        simp only [Bool.false_eq_true, false_or]
        split
        · exact hfoe
        · exact stepE _ rfl (by decide) hb
    case escEndTagOpen =>
      cases hb : (readRawEndTag z).1 with
      | true => simp only [true_or, if_true]; exact hfoe
      | false =>
        simp only [Bool.false_eq_true, false_or]
        split
        · exact hfoe
        · exact stepE _ rfl (by decide) hb
    case dblEscEnd =>
      cases hb : (readRawEndTag z).1 with
      | true =>
        simp only [if_true]
        obtain ⟨a, b, c⟩ := hre.2 hb
        simp only [need] at hn
        have hmono : Mono z { (readRawEndTag z).2 with rawEnd := (readRawEndTag z).2.rawEnd + 9 } := by
          refine ⟨?_, ?_, hfre.1, hfre.2.1, hfre.2.2⟩
          · simp only [a]; omega
          · simp only [a, hfre.1]; rw [hl] at b; omega
        have q := rem_mono hmono
        have hrk : rank SS.esc = 0 := rfl
        have hrk2 : rank SS.dblEscEnd = 1 := rfl
        rw [ih _ _ (ok_of_mono h hmono) (by simp only [need, hfre.2.1, a]; omega) (by simp only [c]; exact hl)
          (by rw [hrk]; rw [hrk2] at hf; omega)]
        exact hfoe
      | false =>
        simp only [Bool.false_eq_true, if_false]
        split
        · exact hfoe
        · exact stepE _ rfl (by decide) hb
    case dblEscStart =>
      simp only [need] at hn
      simp only [rank] at hf
      have hoku : Ok (unread z) := ⟨by show z.rawEnd - 1 ≤ z.inp.size; have h1 : z.rawEnd ≤ z.inp.size := h.1; omega, h.2⟩
      have hremu : rem (unread z) ≤ rem z + 1 := by
        show z.inp.size - (z.rawEnd - 1) ≤ z.inp.size - z.rawEnd + 1; omega
      have hms := span_matchScript scriptWord (unread z) hoku
      have hmsrt := rawTag_of_rt (rt_matchScript scriptWord (unread z))
      have hfom := fo_matchScript scriptWord (unread z)
      have hq := rem_mono hms
      obtain ⟨u1, u2, u3, u4, u5⟩ := hms
      have hok1 : Ok (matchScript scriptWord (unread z)).2 := ok_of_mono hoku ⟨u1, u2, u3, u4, u5⟩
      have hl1 : (matchScript scriptWord (unread z)).2.rawTag.length = 6 := by rw [hmsrt]; simpa [unread] using hl
      have hs1 : (matchScript scriptWord (unread z)).2.rawStart ≤ (matchScript scriptWord (unread z)).2.rawEnd := by
        have e1 : (unread z).rawEnd = z.rawEnd - 1 := rfl
        have e2 : (unread z).rawStart = z.rawStart := rfl
        rw [u4, e2]; omega
      split
      · rename_i z1 heq; rw [heq] at hfom; exact hfom
      · rename_i z1 heq
        rw [heq] at hfom hok1 hl1 hs1 hq
        simp only at hfom hok1 hl1 hs1 hq
        have hrk : rank SS.esc = 0 := rfl
        rw [ih _ _ hok1 (by simpa [need] using hs1) hl1 (by rw [hrk]; omega)]; exact hfom
      · rename_i c z1 _ _ heq
        rw [heq] at hfom hok1 hl1 hs1 hq
        simp only at hfom hok1 hl1 hs1 hq
        have hr1 := rb z1 hok1
        have hrt1 := rawTag_of_rt (rt_readByte z1)
        have hok2 := ok_of_mono hok1 hr1.1
        have hfo1 := fo_readByte z1
        split
        · rw [hfo1]; exact hfom
        · rename_i e; simp only [ne_eq, Decidable.not_not] at e
          have hm4 := hr1.1.2.2.2.1
          have q1 := rem_read z1 hok1 e
          split
          · rw [ih _ _ hok2 (by simp only [need, hm4]; have := hr1.1.1; omega) (by rw [hrt1]; exact hl1)
              (by simp only [rank]; omega), hfo1]; exact hfom
          · have hu1 := mono_unread1 z1 hok1 e
            have qu := rem_mono hu1
            rw [ih _ _ (ok_of_mono hok1 hu1) (by simp only [need, hu1.2.2.2.1]; have := hu1.1; omega)
              (by simp [unread, hrt1, hl1]) (by simp only [rank]; omega)]
            show (readByte z1).2.fuelOut = _
            rw [hfo1]; exact hfom
    all_goals
      split
      · exact hfo
      · rename_i hok1; simp only [ne_eq, Decidable.not_not] at hok1
        repeat' split
        all_goals first
          | exact step _ (by simp [need]) (by simp [rank]) hok1
          | exact stepU _ rfl (by simp [rank]) hok1

end NetVerif.Proofs.Lemmas.HtmlTokFuel
