import NetVerif.Proofs.Lemmas.SendWin
import NetVerif.Proofs.Lemmas.SendWinFlow
/-! Refinement: every wire trace produced by the mechanism model `Send` (server and client role) is
accepted by the monitor `Mon`. The simulation relation is "the endpoint's own counters never exceed
the peer's view", together with the int32 range facts that make `outflow.add/take` exact. -/
namespace NetVerif.Proofs.SendWin
open NetVerif.Model.SendWin NetVerif.Model.Flow NetVerif.Proofs.SendWinFlow

/-- per-stream part of the simulation relation (`iw` = current initial window) -/
def StrInv (iw : Int) : Option Int → Option Int → Prop
  | none, none => True
  | some a, some b => a ≤ b ∧ IsInt32 a ∧ iw - maxWindow ≤ a
  | _, _ => False

structure Live (s : Send) (m : Mon) : Prop where
  mf : s.maxFrame = m.maxFrame
  mfmin : minMaxFrame ≤ s.maxFrame
  iw : s.initWin = m.initWin
  iw0 : 0 ≤ s.initWin
  iwM : s.initWin ≤ maxWindow
  conn : s.conn ≤ m.connWin
  conn32 : IsInt32 s.conn
  str : ∀ sid, StrInv s.initWin (tget s.wins sid) (tget m.win sid)

structure Inv (s : Send) (m : Mon) : Prop where
  dead : s.dead = m.dead
  live : s.dead = false → Live s m

theorem inv_init : Inv Send.init Mon.init :=
  ⟨rfl, fun _ => ⟨rfl, by decide, rfl, by decide, by decide, by decide, by unfold IsInt32; decide, fun _ => trivial⟩⟩

theorem strInv_cases {iw : Int} {x y : Option Int} (h : StrInv iw x y) :
    (x = none ∧ y = none) ∨ ∃ a b, x = some a ∧ y = some b ∧ a ≤ b ∧ IsInt32 a ∧ iw - maxWindow ≤ a := by
  cases x <;> cases y <;> simp_all [StrInv]

/-- `flow.add(v - iw)` on one stream when SETTINGS_INITIAL_WINDOW_SIZE changes from `iw` to `v`:
whether or not the int32 check lets the add through, the stream's counter stays at or below the
peer's view (a refused add can only be an overflow upwards, never downwards). -/
theorem add_settings_str (a b c iw v : Int) (hab : a ≤ b) (ha : IsInt32 a) (hlo : iw - maxWindow ≤ a)
    (hiw0 : 0 ≤ iw) (hiwM : iw ≤ maxWindow) (hv0 : 0 ≤ v) (hvM : v ≤ maxWindow) :
    let r := (Outflow.mk a (some c)).add (v - iw)
    r.2.n ≤ b + (v - iw) ∧ IsInt32 r.2.n ∧ v - maxWindow ≤ r.2.n ∧
    (r.1 = false → a + (v - iw) > maxWindow) := by
  intro r
  have hd : IsInt32 (v - iw) := by unfold IsInt32; unfold maxWindow at *; omega
  have sp := outflow_add_spec (Outflow.mk a (some c)) (v - iw) ha hd
  unfold IsInt32 maxWindow at *
  by_cases hr : r.1 = true
  · have e := sp.2.1 hr
    have i := sp.1.1 hr
    have : r.2.n = a + (v - iw) := by show ((Outflow.mk a (some c)).add (v - iw)).2.n = _; rw [e]
    simp only at i
    refine ⟨by omega, by omega, by omega, fun h => by simp [hr] at h⟩
  · have hr' : r.1 = false := by simpa using hr
    have e := sp.2.2 hr'
    have i : ¬ (-2147483648 ≤ a + (v - iw) ∧ a + (v - iw) ≤ 2147483647) := fun h => hr (sp.1.2 h)
    have : r.2.n = a := by show ((Outflow.mk a (some c)).add (v - iw)).2.n = _; rw [e]
    refine ⟨by omega, by omega, by omega, fun _ => by omega⟩

theorem tget_addEach (conn : Int) (t : Tbl) (d : Int) (j : Nat) :
    tget (addEach conn t d).1 j = (tget t j).map (fun v => ((Outflow.mk v (some conn)).add d).2.n) := by
  induction t with
  | nil => simp [addEach]
  | cons p t ih =>
    obtain ⟨k, v⟩ := p
    by_cases h : k = j <;> simp [addEach, tget_cons, h, ih]

theorem addEach_ok (conn : Int) (t : Tbl) (d : Int) (h : (addEach conn t d).2 = true) :
    ∀ j v, tget t j = some v → ((Outflow.mk v (some conn)).add d).1 = true := by
  induction t with
  | nil => intro j v hj; simp at hj
  | cons p t ih =>
    obtain ⟨k, x⟩ := p
    simp only [addEach, Bool.and_eq_true] at h
    intro j v hj
    simp only [tget_cons] at hj
    by_cases hk : k = j
    · simp only [hk, if_true, Option.some.injEq] at hj
      subst hj; exact h.1
    · simp only [hk, if_false] at hj
      exact ih h.2 j v hj

/-- SETTINGS_INITIAL_WINDOW_SIZE := v on both sides keeps the live relation. -/
theorem live_iw {s : Send} {m : Mon} (h : Live s m) (v : Int) (hv : validIw v = true) :
    Live { s with initWin := v, wins := (addEach s.conn s.wins (v - s.initWin)).1 }
         { m with initWin := v, win := taddAll m.win (v - m.initWin) } := by
  obtain ⟨h1, h2, h3, h4, h5, h6, h7, h8⟩ := h
  simp only [validIw, decide_eq_true_eq] at hv
  refine ⟨h1, h2, rfl, hv.1, hv.2, h6, h7, ?_⟩
  intro j
  simp only [tget_addEach, tget_taddAll, ← h3]
  rcases strInv_cases (h8 j) with ⟨a, b⟩ | ⟨a, b, ea, eb, hab, ha, hlo⟩
  · simp [a, b, StrInv]
  · have := add_settings_str a b s.conn s.initWin v hab ha hlo h4 h5 hv.1 hv.2
    simp only [ea, eb, Option.map_some, StrInv]
    exact ⟨this.1, this.2.1, this.2.2.1⟩

theorem inv_dead {s : Send} {m : Mon} (hs : s.dead = true) (hm : m.dead = true) : Inv s m :=
  ⟨by rw [hs, hm], fun h => by rw [hs] at h; cases h⟩

/-- the INITIAL_WINDOW_SIZE half of a SETTINGS frame -/
theorem iw_sim (r : Role) {s : Send} {m : Mon} (hd : s.dead = false) (hm : m.dead = false) (h : Live s m)
    (iw : Option Int) :
    ∃ m', Mon.run (m.settings none iw) (s.settings r none iw).2 = .ok m' ∧ Inv (s.settings r none iw).1 m' := by
  cases iw with
  | none => exact ⟨m, rfl, ⟨by show s.dead = m.dead; rw [hd, hm], fun _ => h⟩⟩
  | some v =>
    by_cases hv : validIw v = true
    · have L := live_iw h v hv
      cases hok : (addEach s.conn s.wins (v - s.initWin)).2 with
      | true =>
        refine ⟨{ m with initWin := v, win := taddAll m.win (v - m.initWin) }, ?_, ?_⟩
        · cases r <;> simp [Send.settings, Mon.settings, hv, hok, Mon.run]
        · cases r <;> simp only [Send.settings, hv, hok, if_true] <;> exact ⟨by simp [hd, hm], fun _ => L⟩
      | false =>
        cases r with
        | server =>
          refine ⟨{ m with initWin := v, win := taddAll m.win (v - m.initWin), dead := true }, ?_, ?_⟩
          · simp [Send.settings, Mon.settings, hv, hok, Mon.run, Mon.step]
          · simp only [Send.settings, hv, hok, if_true]
            exact inv_dead rfl rfl
        | client =>
          refine ⟨{ m with initWin := v, win := taddAll m.win (v - m.initWin) }, ?_, ?_⟩
          · simp [Send.settings, Mon.settings, hv, Mon.run]
          · simp only [Send.settings, hv, if_true]
            exact ⟨by simp [hd, hm], fun _ => L⟩
    · refine ⟨{ m with dead := true }, ?_, ?_⟩
      · simp [Send.settings, Mon.settings, hv, Mon.run, Mon.step]
      · simp only [Send.settings, hv]
        exact inv_dead rfl rfl

theorem settings_sim (r : Role) {s : Send} {m : Mon} (hd : s.dead = false) (hm : m.dead = false) (h : Live s m)
    (mfs iw : Option Int) :
    ∃ m', Mon.run (m.settings mfs iw) (s.settings r mfs iw).2 = .ok m' ∧ Inv (s.settings r mfs iw).1 m' := by
  cases mfs with
  | none => exact iw_sim r hd hm h iw
  | some v =>
    by_cases hv : validMfs v = true
    · have e1 : s.settings r (some v) iw = Send.settings r { s with maxFrame := v } none iw := by
        simp [Send.settings, hv]
      have e2 : m.settings (some v) iw = Mon.settings { m with maxFrame := v } none iw := by
        simp [Mon.settings, hv]
      rw [e1, e2]
      obtain ⟨h1, h2, h3, h4, h5, h6, h7, h8⟩ := h
      simp only [validMfs, decide_eq_true_eq] at hv
      exact iw_sim r (s := { s with maxFrame := v }) (m := { m with maxFrame := v }) hd hm
        ⟨rfl, hv.1, h3, h4, h5, h6, h7, h8⟩ iw
    · refine ⟨{ m with dead := true }, ?_, ?_⟩
      · simp [Send.settings, Mon.settings, hv, Mon.run, Mon.step]
      · simp only [Send.settings, hv]
        exact inv_dead rfl rfl

/-- WINDOW_UPDATE with a legal 31-bit increment. -/
theorem wu_sim {s : Send} {m : Mon} (hd : s.dead = false) (hm : m.dead = false) (h : Live s m)
    (sid : Nat) (inc : Int) (h0 : 0 ≤ inc) (hM : inc ≤ maxWindow) :
    ∃ m', Mon.run m (.wu sid inc :: (s.windowUpdate sid inc).2) = .ok m' ∧ Inv (s.windowUpdate sid inc).1 m' := by
  obtain ⟨h1, h2, h3, h4, h5, h6, h7, h8⟩ := h
  have hinc : IsInt32 inc := by unfold IsInt32; unfold maxWindow at hM; omega
  have hneg : ¬ inc < 0 := by omega
  by_cases hs0 : sid = 0
  · subst hs0
    by_cases hz : inc = 0
    · subst hz
      refine ⟨{ m with connWin := m.connWin + 0, dead := true }, ?_, ?_⟩
      · simp [Send.windowUpdate, Mon.run, Mon.step, hm, hneg]
      · simp only [Send.windowUpdate, if_true]; exact inv_dead rfl rfl
    · have sp := outflow_add_spec (Outflow.mk s.conn none) inc h7 hinc
      cases hr : ((Outflow.mk s.conn none).add inc).1 with
      | true =>
        have e := sp.2.1 hr
        have i := sp.1.1 hr
        refine ⟨{ m with connWin := m.connWin + inc }, ?_, ?_⟩
        · simp [Send.windowUpdate, Mon.run, Mon.step, hm, hneg, hz, hr]
        · simp only [Send.windowUpdate, if_true, hz, if_false, hr, e]
          exact ⟨by simp [hd, hm], fun _ => ⟨h1, h2, h3, h4, h5, by simp only; omega, i, h8⟩⟩
      | false =>
        refine ⟨{ m with connWin := m.connWin + inc, dead := true }, ?_, ?_⟩
        · simp [Send.windowUpdate, Mon.run, Mon.step, hm, hneg, hz, hr]
        · simp only [Send.windowUpdate, if_true, hz, if_false, hr]
          exact inv_dead rfl rfl
  · by_cases hz : inc = 0
    · subst hz
      refine ⟨{ m with win := tdel (match tget m.win sid with
                                      | some w => tset m.win sid (w + 0)
                                      | none => m.win) sid }, ?_, ?_⟩
      · cases hw : tget m.win sid <;> simp [Send.windowUpdate, Mon.run, Mon.step, hm, hneg, hs0, hw]
      · simp only [Send.windowUpdate, hs0, if_false, if_true]
        refine ⟨by simp [hd, hm], fun _ => ⟨h1, h2, h3, h4, h5, h6, h7, ?_⟩⟩
        intro j
        simp only [tget_tdel]
        by_cases hj : sid = j
        · simp [hj, StrInv]
        · simp only [hj, if_false]
          cases hw : tget m.win sid with
          | none => exact h8 j
          | some w => simp only [tget_tset, hj, if_false]; exact h8 j
    · rcases strInv_cases (h8 sid) with ⟨a, b⟩ | ⟨a, b, ea, eb, hab, ha, hlo⟩
      · refine ⟨m, ?_, ?_⟩
        · simp [Send.windowUpdate, Mon.run, Mon.step, hm, hneg, hs0, hz, a, b]
        · simp only [Send.windowUpdate, hs0, hz, if_false, a]
          exact ⟨by rw [hd, hm], fun _ => ⟨h1, h2, h3, h4, h5, h6, h7, h8⟩⟩
      · have sp := outflow_add_spec (s.flow a) inc ha hinc
        cases hr : ((s.flow a).add inc).1 with
        | true =>
          have e := sp.2.1 hr
          have i := sp.1.1 hr
          refine ⟨{ m with win := tset m.win sid (b + inc) }, ?_, ?_⟩
          · simp [Send.windowUpdate, Mon.run, Mon.step, hm, hneg, hs0, hz, ea, eb, hr]
          · simp only [Send.windowUpdate, hs0, hz, if_false, ea, hr, if_true, e]
            refine ⟨by simp [hd, hm], fun _ => ⟨h1, h2, h3, h4, h5, h6, h7, ?_⟩⟩
            intro j
            simp only [tget_tset]
            by_cases hj : sid = j
            · subst hj
              simp only [if_true, ea, eb, Option.map_some, StrInv, Send.flow]
              simp only [Send.flow] at i
              exact ⟨by omega, i, by omega⟩
            · simp only [hj, if_false]; exact h8 j
        | false =>
          refine ⟨{ m with win := tdel (tset m.win sid (b + inc)) sid }, ?_, ?_⟩
          · simp [Send.windowUpdate, Mon.run, Mon.step, hm, hneg, hs0, hz, ea, eb, hr]
          · simp only [Send.windowUpdate, hs0, hz, if_false, ea, hr, Bool.false_eq_true]
            refine ⟨by simp [hd, hm], fun _ => ⟨h1, h2, h3, h4, h5, h6, h7, ?_⟩⟩
            intro j
            simp only [tget_tdel, tget_tset]
            by_cases hj : sid = j
            · simp [hj, StrInv]
            · simp only [hj, if_false]; exact h8 j

/-- what `flow.take(n)` does to the endpoint's state -/
structure Took (s s' : Send) (sid : Nat) (a : Int) (n : Nat) : Prop where
  conn : s'.conn = s.conn - n
  wins : ∀ j, tget s'.wins j = if sid = j then some (a - n) else tget s.wins j
  iw : s'.initWin = s.initWin
  mf : s'.maxFrame = s.maxFrame
  dead : s'.dead = s.dead
  bound : (n : Int) ≤ s.maxFrame ∧ (0 < n → (n : Int) ≤ a ∧ (n : Int) ≤ s.conn)

theorem avail_le (s : Send) (a : Int) : (s.flow a).available ≤ a ∧ (s.flow a).available ≤ s.conn := by
  have := outflow_available_spec (s.flow a)
  exact ⟨this.1, (this.2.1 s.conn rfl).1⟩

theorem take_some {s : Send} (h7 : IsInt32 s.conn) (sid : Nat) (a n : Int) (ha : IsInt32 a) (hn0 : 0 ≤ n)
    (hn : n ≤ (s.flow a).available) :
    s.take sid a n = some { s with conn := s.conn - n, wins := tset s.wins sid (a - n) } := by
  have sp := outflow_take_spec (s.flow a) n hn0 ha (by intro c hc; simp [Send.flow] at hc; subst hc; exact h7)
  unfold Send.take
  cases ht : (s.flow a).take n with
  | none => exact absurd (sp.1.1 ht) (by omega)
  | some g =>
    have := sp.2 g ht
    simp only [Send.flow, Option.map_some] at this
    simp [this.1, this.2.1]

theorem took_of_take {s : Send} (sid : Nat) (a : Int) (n : Nat) (ea : tget s.wins sid = some a)
    (hb : (n : Int) ≤ s.maxFrame ∧ (0 < n → (n : Int) ≤ a ∧ (n : Int) ≤ s.conn)) :
    Took s { s with conn := s.conn - n, wins := tset s.wins sid (a - n) } sid a n := by
  refine ⟨rfl, ?_, rfl, rfl, rfl, hb⟩
  intro j
  simp only [tget_tset]
  by_cases hj : sid = j
  · subst hj; simp [ea]
  · simp [hj]

/-- A DATA frame produced after a successful take is accepted by the monitor and the relation is kept. -/
theorem data_sim {s s' : Send} {m : Mon} (hd : s.dead = false) (hm : m.dead = false) (h : Live s m)
    (sid : Nat) (a : Int) (n : Nat) (fin : Bool) (ea : tget s.wins sid = some a) (tk : Took s s' sid a n) :
    ∃ m', m.step (.data sid n fin) = .ok m' ∧
      Inv (if fin then { s' with wins := tdel s'.wins sid } else s') m' := by
  obtain ⟨h1, h2, h3, h4, h5, h6, h7, h8⟩ := h
  obtain ⟨t1, t2, t3, t4, t5, t6⟩ := tk
  rcases strInv_cases (h8 sid) with ⟨x, _⟩ | ⟨a', b, ea', eb, hab, ha, hlo⟩
  · rw [ea] at x; cases x
  · rw [ea] at ea'; cases ea'
    have g1 : ¬ (n : Int) > m.maxFrame := by rw [← h1]; omega
    have g2 : ¬ (0 < n ∧ (n : Int) > b) := by intro ⟨p, q⟩; have := t6.2 p; omega
    have g3 : ¬ (0 < n ∧ (n : Int) > m.connWin) := by intro ⟨p, q⟩; have := t6.2 p; omega
    have hstep : m.step (.data sid n fin) = .ok (if fin then { m with connWin := m.connWin - n, win := tdel m.win sid }
        else { m with connWin := m.connWin - n, win := tset m.win sid (b - n) }) := by
      simp only [Mon.step, eb]
      rw [if_neg g1, if_neg g2, if_neg g3]
    refine ⟨_, hstep, ?_⟩
    have c32 : IsInt32 (s.conn - n) := by
      unfold IsInt32 at *
      by_cases p : 0 < n
      · have := t6.2 p; omega
      · have : (n : Int) = 0 := by omega
        omega
    have a32 : IsInt32 (a - n) ∧ s.initWin - maxWindow ≤ a - n := by
      unfold IsInt32 at *
      by_cases p : 0 < n
      · have := t6.2 p; unfold maxWindow at *; omega
      · have : (n : Int) = 0 := by omega
        omega
    cases fin with
    | true =>
      simp only [if_true]
      refine ⟨by simp [t5, hd, hm], fun _ => ⟨by simp [t4, h1], by simp [t4, h2], by simp [t3, h3], by simp [t3, h4],
        by simp [t3, h5], by simp only [t1]; omega, by simp only [t1]; exact c32, ?_⟩⟩
      intro j
      simp only [tget_tdel, t3]
      by_cases hj : sid = j
      · simp [hj, StrInv]
      · simp only [hj, if_false, t2]; exact h8 j
    | false =>
      simp only [Bool.false_eq_true, if_false]
      refine ⟨by simp [t5, hd, hm], fun _ => ⟨by simp [t4, h1], by simp [t4, h2], by simp [t3, h3], by simp [t3, h4],
        by simp [t3, h5], by simp only [t1]; omega, by simp only [t1]; exact c32, ?_⟩⟩
      intro j
      simp only [tget_tset, t3, t2]
      by_cases hj : sid = j
      · subst hj
        simp only [if_true, eb, Option.map_some, StrInv]
        exact ⟨by omega, a32.1, a32.2⟩
      · simp only [hj, if_false]; exact h8 j

theorem took_zero {s : Send} (sid : Nat) (a : Int) (ea : tget s.wins sid = some a) (hmf : 0 ≤ s.maxFrame) :
    Took s s sid a 0 := by
  refine ⟨by simp, ?_, rfl, rfl, rfl, by simpa using hmf, fun h => absurd h (by omega)⟩
  intro j
  by_cases hj : sid = j
  · subst hj; simp [ea]
  · simp [hj]

/-- `FrameWriteRequest.Consume`: the piece it hands to the writer is within the stream window, the
connection window, the frame-size limit and the caller's limit, and exactly that much is taken. -/
theorem consume_took {s s' : Send} (sid len : Nat) (limit a : Int) (n : Nat)
    (h7 : IsInt32 s.conn) (ha : IsInt32 a) (hmf : 0 ≤ s.maxFrame) (ea : tget s.wins sid = some a)
    (hc : s.consume sid len limit = some (n, s')) :
    Took s s' sid a n ∧ n ≤ len ∧ (0 < n → (n : Int) ≤ limit) := by
  unfold Send.consume at hc
  simp only [ea] at hc
  by_cases hl : len = 0
  · simp only [hl, if_true, Option.some.injEq, Prod.mk.injEq] at hc
    obtain ⟨rfl, rfl⟩ := hc
    exact ⟨took_zero sid a ea hmf, by omega, fun h => absurd h (by omega)⟩
  · simp only [hl, if_false] at hc
    generalize hal : (if s.maxFrame < (if limit < (s.flow a).available then limit else (s.flow a).available)
        then s.maxFrame else (if limit < (s.flow a).available then limit else (s.flow a).available)) = allowed at hc
    have hbnd : allowed ≤ s.maxFrame ∧ allowed ≤ limit ∧ allowed ≤ (s.flow a).available := by
      subst hal; split <;> split <;> omega
    have av := avail_le s a
    by_cases hz : allowed ≤ 0
    · simp [hz] at hc
    · simp only [hz, if_false] at hc
      by_cases hgt : (len : Int) > allowed
      · simp only [hgt, if_true] at hc
        rw [take_some h7 sid a allowed ha (by omega) hbnd.2.2] at hc
        simp only [Option.map_some, Option.some.injEq, Prod.mk.injEq] at hc
        obtain ⟨rfl, rfl⟩ := hc
        have e : ((allowed.toNat : Nat) : Int) = allowed := Int.toNat_of_nonneg (by omega)
        have tk := took_of_take (s := s) sid a allowed.toNat ea (by rw [e]; exact ⟨hbnd.1, fun _ => by omega⟩)
        rw [e] at tk
        exact ⟨tk, by omega, fun _ => by omega⟩
      · simp only [hgt, if_false] at hc
        rw [take_some h7 sid a len ha (by omega) (by omega)] at hc
        simp only [Option.map_some, Option.some.injEq, Prod.mk.injEq] at hc
        obtain ⟨rfl, rfl⟩ := hc
        exact ⟨took_of_take sid a len ea ⟨by omega, fun _ => by omega⟩, by omega, fun _ => by omega⟩

/-- `awaitFlowControl`: min(maxBytes, available, maxFrameSize), taken from both windows. -/
theorem await_took {s s' : Send} (sid maxBytes : Nat) (a : Int) (n : Nat)
    (h7 : IsInt32 s.conn) (ha : IsInt32 a) (hmf : 0 < s.maxFrame) (hmb : 0 < maxBytes) (ea : tget s.wins sid = some a)
    (hc : s.await sid maxBytes = some (n, s')) :
    Took s s' sid a n ∧ n ≤ maxBytes ∧ 0 < n := by
  unfold Send.await at hc
  simp only [ea] at hc
  have av := avail_le s a
  by_cases hp : (s.flow a).available > 0
  · simp only [hp, if_true] at hc
    generalize hal : (if (if (s.flow a).available > (maxBytes : Int) then (maxBytes : Int) else (s.flow a).available) > s.maxFrame
        then s.maxFrame else (if (s.flow a).available > (maxBytes : Int) then (maxBytes : Int) else (s.flow a).available)) = t2 at hc
    have hbnd : t2 ≤ s.maxFrame ∧ t2 ≤ maxBytes ∧ t2 ≤ (s.flow a).available ∧ 0 < t2 := by
      subst hal; split <;> split <;> omega
    rw [take_some h7 sid a t2 ha (by omega) hbnd.2.2.1] at hc
    simp only [Option.map_some, Option.some.injEq, Prod.mk.injEq] at hc
    obtain ⟨rfl, rfl⟩ := hc
    have e : ((t2.toNat : Nat) : Int) = t2 := Int.toNat_of_nonneg (by omega)
    have tk := took_of_take (s := s) sid a t2.toNat ea (by rw [e]; exact ⟨hbnd.1, fun _ => by omega⟩)
    rw [e] at tk
    exact ⟨tk, by omega, by omega⟩
  · simp [hp] at hc

theorem live_sclose {s : Send} {m : Mon} (h : Live s m) (sid : Nat) :
    Live { s with wins := tdel s.wins sid } { m with win := tdel m.win sid } := by
  obtain ⟨h1, h2, h3, h4, h5, h6, h7, h8⟩ := h
  refine ⟨h1, h2, h3, h4, h5, h6, h7, ?_⟩
  intro j
  simp only [tget_tdel]
  by_cases hj : sid = j
  · simp [hj, StrInv]
  · simp only [hj, if_false]; exact h8 j

def wuMon (m : Mon) (sid : Nat) (inc : Int) : Mon :=
  if sid = 0 then { m with connWin := m.connWin + inc }
  else match tget m.win sid with
    | some w => { m with win := tset m.win sid (w + inc) }
    | none => m

theorem mon_step_wu {m : Mon} (hm : m.dead = false) (sid : Nat) (inc : Int) (h0 : ¬ inc < 0) :
    m.step (.wu sid inc) = .ok (wuMon m sid inc) := by
  simp only [Mon.step, hm, h0, Bool.false_eq_true, or_self, if_false, wuMon]
  by_cases hs : sid = 0
  · simp [hs]
  · simp only [hs, if_false]
    cases tget m.win sid <;> rfl

/-- a WINDOW_UPDATE the endpoint ignores (cannot occur on the wire: the increment has 31 bits) only raises the peer's view -/
theorem live_wu_ignored {s : Send} {m : Mon} (h : Live s m) (sid : Nat) (inc : Int) (h0 : 0 ≤ inc) :
    Live s (wuMon m sid inc) := by
  obtain ⟨h1, h2, h3, h4, h5, h6, h7, h8⟩ := h
  unfold wuMon
  by_cases hs : sid = 0
  · simp only [hs, if_true]; exact ⟨h1, h2, h3, h4, h5, by simp only; omega, h7, h8⟩
  · simp only [hs, if_false]
    cases hw : tget m.win sid with
    | none => exact ⟨h1, h2, h3, h4, h5, h6, h7, h8⟩
    | some w =>
      refine ⟨h1, h2, h3, h4, h5, h6, h7, ?_⟩
      intro j
      simp only [tget_tset]
      by_cases hj : sid = j
      · subst hj
        rcases strInv_cases (h8 sid) with ⟨x, y⟩ | ⟨a, b, ea, eb, hab, ha, hlo⟩
        · rw [hw] at y; cases y
        · rw [hw] at eb; cases eb
          simp only [if_true, hw, ea, Option.map_some, StrInv]
          exact ⟨by omega, ha, hlo⟩
      · simp only [hj, if_false]; exact h8 j

/-- **Simulation step**: whatever the peer, the application and the scheduler do next, the wire events
the mechanism produces are accepted by the monitor, and the relation is kept. -/
theorem step_sim (r : Role) {s : Send} {m : Mon} (h : Inv s m) (a : Act) :
    ∃ m', m.run (s.step r a).2 = .ok m' ∧ Inv (s.step r a).1 m' := by
  cases hd : s.dead with
  | true =>
    have hm : m.dead = true := by rw [← h.dead]; exact hd
    cases a with
    | settings mfs iw => exact ⟨m, by simp [Send.step, hd, Mon.run, Mon.step, hm], by simpa [Send.step, hd] using h⟩
    | wu sid inc => exact ⟨m, by simp [Send.step, hd, Mon.run, Mon.step, hm], by simpa [Send.step, hd] using h⟩
    | sopen sid => exact ⟨m, by simp [Send.step, hd, Mon.run, Mon.step, hm], by simpa [Send.step, hd] using h⟩
    | sclose sid =>
      exact ⟨{ m with win := tdel m.win sid }, by simp [Send.step, Mon.run, Mon.step], inv_dead hd hm⟩
    | send sid len fin limit => exact ⟨m, by simp [Send.step, hd, Mon.run], by simpa [Send.step, hd] using h⟩
  | false =>
    have hm : m.dead = false := by rw [← h.dead]; exact hd
    have L := h.live hd
    cases a with
    | settings mfs iw =>
      obtain ⟨m', e, i⟩ := settings_sim r hd hm L mfs iw
      refine ⟨m', ?_, ?_⟩
      · simpa [Send.step, hd, Mon.run, Mon.step, hm] using e
      · simpa [Send.step, hd] using i
    | wu sid inc =>
      by_cases hig : inc < 0 ∨ inc > maxWindow
      · by_cases hneg : inc < 0
        · exact ⟨m, by simp [Send.step, hd, Mon.run, Mon.step, hneg], by simpa [Send.step, hd, hig] using h⟩
        · refine ⟨wuMon m sid inc, ?_, ?_⟩
          · simp only [Send.step, hd, hig, Bool.false_eq_true, false_or, if_true, Mon.run, mon_step_wu hm sid inc hneg]
          · simp only [Send.step, hd, hig, Bool.false_eq_true, false_or, if_true]
            exact ⟨by simp [wuMon, hd, hm]; split <;> (try split) <;> simp [hm], fun _ => live_wu_ignored L sid inc (by omega)⟩
      · have h0 : 0 ≤ inc := by omega
        have hM : inc ≤ maxWindow := by omega
        obtain ⟨m', e, i⟩ := wu_sim hd hm L sid inc h0 hM
        refine ⟨m', ?_, ?_⟩
        · simpa [Send.step, hd, hig] using e
        · simpa [Send.step, hd, hig] using i
    | sopen sid =>
      cases hw : tget s.wins sid with
      | some a => exact ⟨m, by simp [Send.step, hd, hw, Mon.run], by simpa [Send.step, hd, hw] using h⟩
      | none =>
        obtain ⟨h1, h2, h3, h4, h5, h6, h7, h8⟩ := L
        have hmw : tget m.win sid = none := by
          rcases strInv_cases (h8 sid) with ⟨_, y⟩ | ⟨a, b, ea, _⟩
          · exact y
          · rw [hw] at ea; cases ea
        have i0 : IsInt32 (0 : Int) := by unfold IsInt32; omega
        have iiw : IsInt32 s.initWin := by unfold IsInt32; unfold maxWindow at h5; omega
        have sp := outflow_add_spec (Outflow.mk 0 (some s.conn)) s.initWin i0 iiw
        have hr : ((Outflow.mk 0 (some s.conn)).add s.initWin).1 = true := sp.1.2 (by simpa using iiw)
        have e := sp.2.1 hr
        refine ⟨{ m with win := (sid, m.initWin) :: m.win }, ?_, ?_⟩
        · simp [Send.step, hd, hw, Mon.run, Mon.step, hm, hmw]
        · simp only [Send.step, hd, hw, Bool.false_eq_true, if_false, e]
          refine ⟨by simp [hm], fun _ => ⟨h1, h2, h3, h4, h5, h6, h7, ?_⟩⟩
          intro j
          simp only [tget_cons]
          by_cases hj : sid = j
          · simp only [hj, if_true, StrInv]
            exact ⟨by omega, by simpa using iiw, by unfold maxWindow; omega⟩
          · simp only [hj, if_false]; exact h8 j
    | sclose sid =>
      exact ⟨{ m with win := tdel m.win sid }, by simp [Send.step, Mon.run, Mon.step],
        ⟨by simp [Send.step, hd, hm], fun _ => live_sclose L sid⟩⟩
    | send sid len fin limit =>
      have hmf0 : 0 ≤ s.maxFrame := by have := L.mfmin; unfold minMaxFrame at this; omega
      cases hw : tget s.wins sid with
      | none =>
        refine ⟨m, ?_, ?_⟩
        · cases r <;> simp [Send.step, hd, Send.consume, Send.await, hw, Mon.run] <;> split <;> simp [Mon.run]
        · cases r <;> simp only [Send.step, hd, Send.consume, Send.await, hw, Bool.false_eq_true, if_false] <;>
            (try split) <;> exact h
      | some a =>
        have ha : IsInt32 a := by
          rcases strInv_cases (L.str sid) with ⟨x, _⟩ | ⟨a', b, ea, _, _, ha, _⟩
          · rw [hw] at x; cases x
          · rw [hw] at ea; cases ea; exact ha
        cases r with
        | server =>
          cases hc : s.consume sid len limit with
          | none => exact ⟨m, by simp [Send.step, hd, hc, Mon.run], by simpa [Send.step, hd, hc] using h⟩
          | some p =>
            obtain ⟨n, s'⟩ := p
            have tk := (consume_took sid len limit a n L.conn32 ha hmf0 hw hc).1
            obtain ⟨m', e, i⟩ := data_sim hd hm L sid a n (fin && decide (n = len)) hw tk
            exact ⟨m', by simp [Send.step, hd, hc, Mon.run, e], by simpa [Send.step, hd, hc] using i⟩
        | client =>
          by_cases hl : len = 0
          · obtain ⟨m', e, i⟩ := data_sim hd hm L sid a 0 fin hw (took_zero sid a hw hmf0)
            exact ⟨m', by simp [Send.step, hd, hl, hw, Mon.run, e], by simpa [Send.step, hd, hl, hw] using i⟩
          · cases hc : s.await sid len with
            | none => exact ⟨m, by simp [Send.step, hd, hl, hc, Mon.run], by simpa [Send.step, hd, hl, hc] using h⟩
            | some p =>
              obtain ⟨n, s'⟩ := p
              have tk := (await_took sid len a n L.conn32 ha (by have := L.mfmin; unfold minMaxFrame at this; omega)
                (by omega) hw hc).1
              obtain ⟨m', e, i⟩ := data_sim hd hm L sid a n (fin && decide (n = len)) hw tk
              exact ⟨m', by simp [Send.step, hd, hl, hc, Mon.run, e], by simpa [Send.step, hd, hl, hc] using i⟩

theorem mon_run_append (m : Mon) (a b : List Ev) :
    m.run (a ++ b) = match m.run a with | .ok m1 => m1.run b | .error x => .error x := by
  induction a generalizing m with
  | nil => rfl
  | cons e t ih =>
    simp only [List.cons_append, Mon.run]
    cases m.step e with
    | ok m1 => exact ih m1
    | error x => rfl

theorem run_sim (r : Role) : ∀ (acts : List Act) {s : Send} {m : Mon}, Inv s m →
    ∃ m', m.run (s.run r acts).2 = .ok m' ∧ Inv (s.run r acts).1 m'
  | [], s, m, h => ⟨m, rfl, h⟩
  | a :: t, s, m, h => by
    obtain ⟨m1, e1, i1⟩ := step_sim r h a
    obtain ⟨m2, e2, i2⟩ := run_sim r t i1
    refine ⟨m2, ?_, ?_⟩
    · simp only [Send.run, mon_run_append, e1, e2]
    · simpa [Send.run] using i2

end NetVerif.Proofs.SendWin
