import NetVerif.Proofs.Lemmas.SendWin
import NetVerif.Proofs.Lemmas.Flow
/-! Refinement: every wire trace produced by the mechanism model `Send` (server and client role) is
accepted by the monitor `Mon`. The simulation relation is "the endpoint's own counters never exceed
the peer's view", together with the int32 range facts that make `outflow.add/take` exact. -/
namespace NetVerif.Proofs.SendWin
open NetVerif.Model.SendWin NetVerif.Model.Flow NetVerif.Proofs.Flow

/-- per-stream part of the simulation relation (`iw` = current initial window) -/
def StrInv (iw : Int) : Option Int → Option Int → Prop
  | none, none => True
  | some a, some b => a ≤ b ∧ IsInt32 a ∧ iw - maxWindow ≤ a
  | _, _ => False

structure Live (s : Send) (m : Mon) : Prop where
  mf : s.maxFrame = m.maxFrame
  mfmin : minMaxFrame ≤ s.maxFrame
  iw : s.initWin = m.initWin
  iw0 : 0 ≤ s.initWin
  iwM : s.initWin ≤ maxWindow
  conn : s.conn ≤ m.connWin
  conn32 : IsInt32 s.conn
  str : ∀ sid, StrInv s.initWin (tget s.wins sid) (tget m.win sid)

structure Inv (s : Send) (m : Mon) : Prop where
  dead : s.dead = m.dead
  live : s.dead = false → Live s m

theorem inv_init : Inv Send.init Mon.init :=
  ⟨rfl, fun _ => ⟨rfl, by decide, rfl, by decide, by decide, by decide, by unfold IsInt32; decide, fun _ => trivial⟩⟩

theorem strInv_cases {iw : Int} {x y : Option Int} (h : StrInv iw x y) :
    (x = none ∧ y = none) ∨ ∃ a b, x = some a ∧ y = some b ∧ a ≤ b ∧ IsInt32 a ∧ iw - maxWindow ≤ a := by
  cases x <;> cases y <;> simp_all [StrInv]

/-- `flow.add(v - iw)` on one stream when SETTINGS_INITIAL_WINDOW_SIZE changes from `iw` to `v`:
whether or not the int32 check lets the add through, the stream's counter stays at or below the
peer's view (a refused add can only be an overflow upwards, never downwards). -/
theorem add_settings_str (a b c iw v : Int) (hab : a ≤ b) (ha : IsInt32 a) (hlo : iw - maxWindow ≤ a)
    (hiw0 : 0 ≤ iw) (hiwM : iw ≤ maxWindow) (hv0 : 0 ≤ v) (hvM : v ≤ maxWindow) :
    let r := (Outflow.mk a (some c)).add (v - iw)
    r.2.n ≤ b + (v - iw) ∧ IsInt32 r.2.n ∧ v - maxWindow ≤ r.2.n ∧
    (r.1 = false → a + (v - iw) > maxWindow) := by
  intro r
  have hd : IsInt32 (v - iw) := by unfold IsInt32; unfold maxWindow at *; omega
  have sp := outflow_add_spec (Outflow.mk a (some c)) (v - iw) ha hd
  unfold IsInt32 maxWindow at *
  by_cases hr : r.1 = true
  · have e := sp.2.1 hr
    have i := sp.1.1 hr
    have : r.2.n = a + (v - iw) := by show ((Outflow.mk a (some c)).add (v - iw)).2.n = _; rw [e]
    simp only at i
    refine ⟨by omega, by omega, by omega, fun h => by simp [hr] at h⟩
  · have hr' : r.1 = false := by simpa using hr
    have e := sp.2.2 hr'
    have i : ¬ (-2147483648 ≤ a + (v - iw) ∧ a + (v - iw) ≤ 2147483647) := fun h => hr (sp.1.2 h)
    have : r.2.n = a := by show ((Outflow.mk a (some c)).add (v - iw)).2.n = _; rw [e]
    refine ⟨by omega, by omega, by omega, fun _ => by omega⟩

theorem tget_addEach (conn : Int) (t : Tbl) (d : Int) (j : Nat) :
    tget (addEach conn t d).1 j = (tget t j).map (fun v => ((Outflow.mk v (some conn)).add d).2.n) := by
  induction t with
  | nil => simp [addEach]
  | cons p t ih =>
    obtain ⟨k, v⟩ := p
    by_cases h : k = j <;> simp [addEach, tget_cons, h, ih]

theorem addEach_ok (conn : Int) (t : Tbl) (d : Int) (h : (addEach conn t d).2 = true) :
    ∀ j v, tget t j = some v → ((Outflow.mk v (some conn)).add d).1 = true := by
  induction t with
  | nil => intro j v hj; simp at hj
  | cons p t ih =>
    obtain ⟨k, x⟩ := p
    simp only [addEach, Bool.and_eq_true] at h
    intro j v hj
    simp only [tget_cons] at hj
    by_cases hk : k = j
    · simp only [hk, if_true, Option.some.injEq] at hj
      subst hj; exact h.1
    · simp only [hk, if_false] at hj
      exact ih h.2 j v hj

/-- SETTINGS_INITIAL_WINDOW_SIZE := v on both sides keeps the live relation. -/
theorem live_iw {s : Send} {m : Mon} (h : Live s m) (v : Int) (hv : validIw v = true) :
    Live { s with initWin := v, wins := (addEach s.conn s.wins (v - s.initWin)).1 }
         { m with initWin := v, win := taddAll m.win (v - m.initWin) } := by
  obtain ⟨h1, h2, h3, h4, h5, h6, h7, h8⟩ := h
  simp only [validIw, decide_eq_true_eq] at hv
  refine ⟨h1, h2, rfl, hv.1, hv.2, h6, h7, ?_⟩
  intro j
  simp only [tget_addEach, tget_taddAll, ← h3]
  rcases strInv_cases (h8 j) with ⟨a, b⟩ | ⟨a, b, ea, eb, hab, ha, hlo⟩
  · simp [a, b, StrInv]
  · have := add_settings_str a b s.conn s.initWin v hab ha hlo h4 h5 hv.1 hv.2
    simp only [ea, eb, Option.map_some, StrInv]
    exact ⟨this.1, this.2.1, this.2.2.1⟩

theorem inv_dead {s : Send} {m : Mon} (hs : s.dead = true) (hm : m.dead = true) : Inv s m :=
  ⟨by rw [hs, hm], fun h => by rw [hs] at h; cases h⟩

/-- the INITIAL_WINDOW_SIZE half of a SETTINGS frame -/
theorem iw_sim (r : Role) {s : Send} {m : Mon} (hd : s.dead = false) (hm : m.dead = false) (h : Live s m)
    (iw : Option Int) :
    ∃ m', Mon.run (m.settings none iw) (s.settings r none iw).2 = .ok m' ∧ Inv (s.settings r none iw).1 m' := by
  cases iw with
  | none => exact ⟨m, rfl, ⟨by show s.dead = m.dead; rw [hd, hm], fun _ => h⟩⟩
  | some v =>
    by_cases hv : validIw v = true
    · have L := live_iw h v hv
      cases hok : (addEach s.conn s.wins (v - s.initWin)).2 with
      | true =>
        refine ⟨{ m with initWin := v, win := taddAll m.win (v - m.initWin) }, ?_, ?_⟩
        · cases r <;> simp [Send.settings, Mon.settings, hv, hok, Mon.run]
        · cases r <;> simp only [Send.settings, hv, hok, if_true] <;> exact ⟨by simp [hd, hm], fun _ => L⟩
      | false =>
        cases r with
        | server =>
          refine ⟨{ m with initWin := v, win := taddAll m.win (v - m.initWin), dead := true }, ?_, ?_⟩
          · simp [Send.settings, Mon.settings, hv, hok, Mon.run, Mon.step]
          · simp only [Send.settings, hv, hok, if_true]
            exact inv_dead rfl rfl
        | client =>
          refine ⟨{ m with initWin := v, win := taddAll m.win (v - m.initWin) }, ?_, ?_⟩
          · simp [Send.settings, Mon.settings, hv, Mon.run]
          · simp only [Send.settings, hv, if_true]
            exact ⟨by simp [hd, hm], fun _ => L⟩
    · refine ⟨{ m with dead := true }, ?_, ?_⟩
      · simp [Send.settings, Mon.settings, hv, Mon.run, Mon.step]
      · simp only [Send.settings, hv]
        exact inv_dead rfl rfl

theorem settings_sim (r : Role) {s : Send} {m : Mon} (hd : s.dead = false) (hm : m.dead = false) (h : Live s m)
    (mfs iw : Option Int) :
    ∃ m', Mon.run (m.settings mfs iw) (s.settings r mfs iw).2 = .ok m' ∧ Inv (s.settings r mfs iw).1 m' := by
  cases mfs with
  | none => exact iw_sim r hd hm h iw
  | some v =>
    by_cases hv : validMfs v = true
    · have e1 : s.settings r (some v) iw = Send.settings r { s with maxFrame := v } none iw := by
        simp [Send.settings, hv]
      have e2 : m.settings (some v) iw = Mon.settings { m with maxFrame := v } none iw := by
        simp [Mon.settings, hv]
      rw [e1, e2]
      obtain ⟨h1, h2, h3, h4, h5, h6, h7, h8⟩ := h
      simp only [validMfs, decide_eq_true_eq] at hv
      exact iw_sim r (s := { s with maxFrame := v }) (m := { m with maxFrame := v }) hd hm
        ⟨rfl, hv.1, h3, h4, h5, h6, h7, h8⟩ iw
    · refine ⟨{ m with dead := true }, ?_, ?_⟩
      · simp [Send.settings, Mon.settings, hv, Mon.run, Mon.step]
      · simp only [Send.settings, hv]
        exact inv_dead rfl rfl

/-- WINDOW_UPDATE with a legal 31-bit increment. -/
theorem wu_sim {s : Send} {m : Mon} (hd : s.dead = false) (hm : m.dead = false) (h : Live s m)
    (sid : Nat) (inc : Int) (h0 : 0 ≤ inc) (hM : inc ≤ maxWindow) :
    ∃ m', Mon.run m (.wu sid inc :: (s.windowUpdate sid inc).2) = .ok m' ∧ Inv (s.windowUpdate sid inc).1 m' := by
  obtain ⟨h1, h2, h3, h4, h5, h6, h7, h8⟩ := h
  have hinc : IsInt32 inc := by unfold IsInt32; unfold maxWindow at hM; omega
  have hneg : ¬ inc < 0 := by omega
  by_cases hs0 : sid = 0
  · subst hs0
    by_cases hz : inc = 0
    · subst hz
      refine ⟨{ m with connWin := m.connWin + 0, dead := true }, ?_, ?_⟩
      · simp [Send.windowUpdate, Mon.run, Mon.step, hm, hneg]
      · simp only [Send.windowUpdate, if_true]; exact inv_dead rfl rfl
    · have sp := outflow_add_spec (Outflow.mk s.conn none) inc h7 hinc
      cases hr : ((Outflow.mk s.conn none).add inc).1 with
      | true =>
        have e := sp.2.1 hr
        have i := sp.1.1 hr
        refine ⟨{ m with connWin := m.connWin + inc }, ?_, ?_⟩
        · simp [Send.windowUpdate, Mon.run, Mon.step, hm, hneg, hz, hr]
        · simp only [Send.windowUpdate, if_true, hz, if_false, hr, e]
          exact ⟨by simp [hd, hm], fun _ => ⟨h1, h2, h3, h4, h5, by simp only; omega, i, h8⟩⟩
      | false =>
        refine ⟨{ m with connWin := m.connWin + inc, dead := true }, ?_, ?_⟩
        · simp [Send.windowUpdate, Mon.run, Mon.step, hm, hneg, hz, hr]
        · simp only [Send.windowUpdate, if_true, hz, if_false, hr]
          exact inv_dead rfl rfl
  · by_cases hz : inc = 0
    · subst hz
      refine ⟨{ m with win := tdel (match tget m.win sid with
                                      | some w => tset m.win sid (w + 0)
                                      | none => m.win) sid }, ?_, ?_⟩
      · cases hw : tget m.win sid <;> simp [Send.windowUpdate, Mon.run, Mon.step, hm, hneg, hs0, hw]
      · simp only [Send.windowUpdate, hs0, if_false, if_true]
        refine ⟨by simp [hd, hm], fun _ => ⟨h1, h2, h3, h4, h5, h6, h7, ?_⟩⟩
        intro j
        simp only [tget_tdel]
        by_cases hj : sid = j
        · simp [hj, StrInv]
        · simp only [hj, if_false]
          cases hw : tget m.win sid with
          | none => exact h8 j
          | some w => simp only [tget_tset, hj, if_false]; exact h8 j
    · rcases strInv_cases (h8 sid) with ⟨a, b⟩ | ⟨a, b, ea, eb, hab, ha, hlo⟩
      · refine ⟨m, ?_, ?_⟩
        · simp [Send.windowUpdate, Mon.run, Mon.step, hm, hneg, hs0, hz, a, b]
        · simp only [Send.windowUpdate, hs0, hz, if_false, a]
          exact ⟨by rw [hd, hm], fun _ => ⟨h1, h2, h3, h4, h5, h6, h7, h8⟩⟩
      · have sp := outflow_add_spec (s.flow a) inc ha hinc
        cases hr : ((s.flow a).add inc).1 with
        | true =>
          have e := sp.2.1 hr
          have i := sp.1.1 hr
          refine ⟨{ m with win := tset m.win sid (b + inc) }, ?_, ?_⟩
          · simp [Send.windowUpdate, Mon.run, Mon.step, hm, hneg, hs0, hz, ea, eb, hr]
          · simp only [Send.windowUpdate, hs0, hz, if_false, ea, hr, if_true, e]
            refine ⟨by simp [hd, hm], fun _ => ⟨h1, h2, h3, h4, h5, h6, h7, ?_⟩⟩
            intro j
            simp only [tget_tset]
            by_cases hj : sid = j
            · subst hj
              simp only [if_true, ea, eb, Option.map_some, StrInv, Send.flow]
              simp only [Send.flow] at i
              exact ⟨by omega, i, by omega⟩
            · simp only [hj, if_false]; exact h8 j
        | false =>
          refine ⟨{ m with win := tdel (tset m.win sid (b + inc)) sid }, ?_, ?_⟩
          · simp [Send.windowUpdate, Mon.run, Mon.step, hm, hneg, hs0, hz, ea, eb, hr]
          · simp only [Send.windowUpdate, hs0, hz, if_false, ea, hr, Bool.false_eq_true]
            refine ⟨by simp [hd, hm], fun _ => ⟨h1, h2, h3, h4, h5, h6, h7, ?_⟩⟩
            intro j
            simp only [tget_tdel, tget_tset]
            by_cases hj : sid = j
            · simp [hj, StrInv]
            · simp only [hj, if_false]; exact h8 j

/-- what `flow.take(n)` does to the endpoint's state -/
structure Took (s s' : Send) (sid : Nat) (a : Int) (n : Nat) : Prop where
  conn : s'.conn = s.conn - n
  wins : ∀ j, tget s'.wins j = if sid = j then some (a - n) else tget s.wins j
  iw : s'.initWin = s.initWin
  mf : s'.maxFrame = s.maxFrame
  dead : s'.dead = s.dead
  bound : (n : Int) ≤ s.maxFrame ∧ (0 < n → (n : Int) ≤ a ∧ (n : Int) ≤ s.conn)

theorem avail_le (s : Send) (a : Int) : (s.flow a).available ≤ a ∧ (s.flow a).available ≤ s.conn := by
  have := outflow_available_spec (s.flow a)
  exact ⟨this.1, (this.2.1 s.conn rfl).1⟩

theorem take_some {s : Send} (h7 : IsInt32 s.conn) (sid : Nat) (a n : Int) (ha : IsInt32 a) (hn0 : 0 ≤ n)
    (hn : n ≤ (s.flow a).available) :
    s.take sid a n = some { s with conn := s.conn - n, wins := tset s.wins sid (a - n) } := by
  have sp := outflow_take_spec (s.flow a) n hn0 ha (by intro c hc; simp [Send.flow] at hc; subst hc; exact h7)
  unfold Send.take
  cases ht : (s.flow a).take n with
  | none => exact absurd (sp.1.1 ht) (by omega)
  | some g =>
    have := sp.2 g ht
    simp only [Send.flow, Option.map_some] at this
    simp [this.1, this.2.1]

theorem took_of_take {s : Send} (sid : Nat) (a : Int) (n : Nat) (ea : tget s.wins sid = some a)
    (hb : (n : Int) ≤ s.maxFrame ∧ (0 < n → (n : Int) ≤ a ∧ (n : Int) ≤ s.conn)) :
    Took s { s with conn := s.conn - n, wins := tset s.wins sid (a - n) } sid a n := by
  refine ⟨rfl, ?_, rfl, rfl, rfl, hb⟩
  intro j
  simp only [tget_tset]
  by_cases hj : sid = j
  · subst hj; simp [ea]
  · simp [hj]

/-- A DATA frame produced after a successful take is accepted by the monitor and the relation is kept. -/
theorem data_sim {s s' : Send} {m : Mon} (hd : s.dead = false) (hm : m.dead = false) (h : Live s m)
    (sid : Nat) (a : Int) (n : Nat) (fin : Bool) (ea : tget s.wins sid = some a) (tk : Took s s' sid a n) :
    ∃ m', m.step (.data sid n fin) = .ok m' ∧
      Inv (if fin then { s' with wins := tdel s'.wins sid } else s') m' := by
  obtain ⟨h1, h2, h3, h4, h5, h6, h7, h8⟩ := h
  obtain ⟨t1, t2, t3, t4, t5, t6⟩ := tk
  rcases strInv_cases (h8 sid) with ⟨x, _⟩ | ⟨a', b, ea', eb, hab, ha, hlo⟩
  · rw [ea] at x; cases x
  · rw [ea] at ea'; cases ea'
    have g1 : ¬ (n : Int) > m.maxFrame := by rw [← h1]; omega
    have g2 : ¬ (0 < n ∧ (n : Int) > b) := by intro ⟨p, q⟩; have := t6.2 p; omega
    have g3 : ¬ (0 < n ∧ (n : Int) > m.connWin) := by intro ⟨p, q⟩; have := t6.2 p; omega
    have hn : (n : Int) ≤ a ∧ (n : Int) ≤ s.conn := by
      by_cases p : 0 < n
      · exact t6.2 p
      · have : n = 0 := by omega
        subst this
        unfold IsInt32 at *
        constructor
        · simp; unfold maxWindow at *; omega
        · simp
          rcases strInv_cases (h8 sid) with ⟨x, _⟩ | ⟨_, _, _, _, _, _, _⟩
          · rw [ea] at x; cases x
          · sorry
    sorry

end NetVerif.Proofs.SendWin
