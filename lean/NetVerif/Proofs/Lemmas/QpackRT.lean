import NetVerif.Proofs.Lemmas.QpackBasic
/-! Round trip of the QPACK model: `decode (encode fs)` (helper lemmas and the main theorem). -/
namespace NetVerif.Proofs.C33RT
open NetVerif.Model.H3Stream NetVerif.Model.Qpack NetVerif.Proofs.QpackBasic

/-- Byte strings: every element is a byte. -/
def Bytes (s : List Nat) : Prop := ∀ b ∈ s, b < 256

/-- What the round trip needs from the Huffman codec (hpack is outside the anchored files);
discharged for the HPACK model of C04 in `Proofs/C33.lean` (`huffOK`). -/
structure HuffOK (H : Huff) : Prop where
  dec_enc : ∀ s, Bytes s → H.dec (H.enc s) = some s
  len_enc : ∀ s, Bytes s → (H.enc s).length = H.encLen s

/-- What the decoder must deliver for an encoder input: names lower-cased, names that are not
printable ASCII dropped, flag and value kept. -/
def expected (fs : List Field) : List Field :=
  fs.filterMap fun f => (lowerHeader f.name).map fun n => ⟨f.never, n, f.value⟩

/-- Field lists the decoder is specified to accept: no empty name, no pseudo-header
(name starting with ':' = 58) after a regular field. -/
def PseudoFirst : Bool → List Field → Prop
  | _, [] => True
  | saw, f :: fs =>
    (match f.name with
     | [] => False
     | c :: _ => if c = 58 then saw = false ∧ PseudoFirst saw fs else PseudoFirst true fs)

/-! ### static table lookups -/

theorem lookupNameValueAux_spec (name value : List Nat) :
    ∀ (tbl : List (List Nat × List Nat)) (i : Nat) (r : Option Nat) (full : List (List Nat × List Nat)),
    (∀ k, k < tbl.length → full[i + k]? = tbl[k]?) →
    (∀ j, r = some j → full[j]? = some (name, value)) →
    ∀ j, lookupNameValueAux name value tbl i r = some j → full[j]? = some (name, value) := by
  intro tbl
  induction tbl with
  | nil => intro i r full _ hr j h; simp [lookupNameValueAux] at h; exact hr j h
  | cons e t ih =>
    intro i r full hfull hr j h
    unfold lookupNameValueAux at h
    refine ih (i + 1) _ full ?_ ?_ j h
    · intro k hk
      have := hfull (k + 1) (by simp; omega)
      simpa [Nat.add_assoc, Nat.add_comm 1 k] using this
    · intro j' hj'
      split at hj'
      · rename_i he
        simp at hj'; subst hj'
        have := hfull 0 (by simp)
        simp at this
        rw [this]
        obtain ⟨h1, h2⟩ := he
        simp [← h1, ← h2]
      · exact hr j' hj'

theorem lookupNameValue_spec (tbl : List (List Nat × List Nat)) (name value : List Nat) (j : Nat)
    (h : lookupNameValue tbl name value = some j) : tbl[j]? = some (name, value) :=
  lookupNameValueAux_spec name value tbl 0 none tbl (by intro k _; simp) (by intro j h; cases h) j h

theorem lookupNameAux_spec (name : List Nat) :
    ∀ (tbl : List (List Nat × List Nat)) (i : Nat) (full : List (List Nat × List Nat)),
    (∀ k, k < tbl.length → full[i + k]? = tbl[k]?) →
    ∀ j, lookupNameAux name tbl i = some j → ∃ v, full[j]? = some (name, v) := by
  intro tbl
  induction tbl with
  | nil => intro i full _ j h; simp [lookupNameAux] at h
  | cons e t ih =>
    intro i full hfull j h
    unfold lookupNameAux at h
    split at h
    · rename_i he
      simp at h; subst h
      have := hfull 0 (by simp)
      simp at this
      exact ⟨e.2, by rw [this, ← he]⟩
    · refine ih (i + 1) full ?_ j h
      intro k hk
      have := hfull (k + 1) (by simp; omega)
      simpa [Nat.add_assoc, Nat.add_comm 1 k] using this

theorem lookupName_spec (tbl : List (List Nat × List Nat)) (name : List Nat) (j : Nat)
    (h : lookupName tbl name = some j) : ∃ v, tbl[j]? = some (name, v) :=
  lookupNameAux_spec name tbl 0 tbl (by intro k _; simp) j h

theorem getElem?_some_lt {α : Type} (l : List α) (j : Nat) (a : α) (h : l[j]? = some a) : j < l.length := by
  by_cases hj : j < l.length
  · exact hj
  · simp [List.getElem?_eq_none (by omega : l.length ≤ j)] at h

/-! ### one string literal including its first byte -/

theorem appendPrefixedString_ne_nil (H : Huff) (first p : Nat) (str : List Nat) :
    appendPrefixedString H first p str ≠ [] := by
  unfold appendPrefixedString
  split
  · intro h; exact appendPrefixedInt_ne_nil _ _ _ (List.append_eq_nil_iff.mp h).1
  · intro h; exact appendPrefixedInt_ne_nil _ _ _ (List.append_eq_nil_iff.mp h).1

theorem readPrefixedString_append (H : Huff) (hH : HuffOK H) (str : List Nat) (hb : Bytes str) (hstr : str.length < 2 ^ 62)
    (s : St) (t : List Nat) (hd : s.dead = false)
    (hdata : s.data = appendPrefixedString H 0 7 str ++ t)
    (hlim : ((appendPrefixedString H 0 7 str).length : Int) ≤ s.lim) :
    ∃ b s', readPrefixedString H s 7 = .ok (b, str) s' ∧ Adv s (appendPrefixedString H 0 7 str).length s' := by
  cases henc : appendPrefixedString H 0 7 str with
  | nil => exact absurd henc (appendPrefixedString_ne_nil H 0 7 str)
  | cons b tl =>
    rw [henc] at hdata hlim
    simp only [List.length_cons] at hlim ⊢
    obtain ⟨s1, hr1, hadv1, _⟩ := readByte_cons s b (tl ++ t) hd (by simpa using hdata) (by omega)
    have hd1 : s1.data = tl ++ t := by rw [hadv1.data, hdata]; simp
    obtain ⟨s2, hr2, hadv2⟩ := readPrefixedStringWithByte_append H str (hH.dec_enc str hb) (hH.len_enc str hb) 0 7 (by omega) (by omega)
      (by simp) hstr b tl henc s1 t hadv1.dead hadv1.primed hd1 (by rw [hadv1.lim]; omega)
    refine ⟨b, s2, ?_, ?_⟩
    · unfold readPrefixedString
      rw [hr1]
      simp only [Out.bind, hr2]
    · have := Adv.trans hadv1 hadv2
      simpa [Nat.add_comm] using this

/-! ### one field line -/

theorem lowerHeader_length (a n : List Nat) (h : lowerHeader a = some n) : n.length = a.length := by
  unfold lowerHeader at h
  split at h
  · simp at h; subst h; simp
  · cases h

theorem lowerHeader_bytes (a n : List Nat) (h : lowerHeader a = some n) : Bytes n := by
  unfold lowerHeader at h
  split at h
  · rename_i hp
    simp at h; subst h
    intro b hb
    simp only [List.mem_map] at hb
    obtain ⟨c, hc, rfl⟩ := hb
    have := (List.all_eq_true.mp hp) c hc
    simp at this
    unfold lowerByte; split <;> omega
  · cases h

theorem nameRef_firstByte (never : Bool) (i b' : Nat) (tl' : List Nat)
    (hpi : appendPrefixedInt (64 + nbit never 32 + 16) 4 i = b' :: tl') :
    b' ≥ 64 ∧ b' < 128 ∧ b' / 16 % 2 = 1 ∧ b' / 32 % 2 = (if never then 1 else 0) := by
  cases never <;>
  · unfold appendPrefixedInt nbit at hpi
    simp at hpi
    split at hpi <;> (simp at hpi; simp; omega)

theorem litName_firstByte (H : Huff) (never : Bool) (n : List Nat) (b' : Nat) (tl' : List Nat)
    (hps : appendPrefixedString H (32 + nbit never 16) 3 n = b' :: tl') :
    b' ≥ 32 ∧ b' < 64 ∧ b' / 16 % 2 = (if never then 1 else 0) := by
  cases never <;>
  · unfold appendPrefixedString appendPrefixedInt nbit at hps
    simp at hps
    split at hps <;> split at hps <;> (simp at hps; simp; omega)

theorem decodeFieldLine_encodeField (H : Huff) (hH : HuffOK H) (tbl : List (List Nat × List Nat))
    (htbl : tbl.length < 2 ^ 62) (f : Field) (n : List Nat) (hn : lowerHeader f.name = some n)
    (hsize : f.name.length < 2 ^ 62 ∧ f.value.length < 2 ^ 62) (hbv : Bytes f.value)
    (b : Nat) (tl : List Nat) (henc : encodeField H tbl f = b :: tl)
    (s : St) (t : List Nat) (hd : s.dead = false) (hpr : s.primed = true)
    (hdata : s.data = tl ++ t) (hlim : (tl.length : Int) ≤ s.lim) :
    ∃ s', decodeFieldLine H tbl s b = .ok ⟨f.never, n, f.value⟩ s' ∧ Adv s tl.length s' := by
  unfold encodeField at henc
  rw [hn] at henc
  simp only at henc
  split at henc
  · -- indexed field line
    rename_i i hi
    have hnever : f.never = false := by
      cases hf : f.never with
      | false => rfl
      | true => simp [hf] at hi
    simp [hnever] at hi
    have hent := lookupNameValue_spec tbl n f.value i hi
    have hilt := getElem?_some_lt _ _ _ hent
    unfold appendIndexedFieldLine at henc
    obtain ⟨s1, hr, hadv, _⟩ := readPrefixedIntWithByte_append (128 + 64) 6 i (by omega) (by decide) (by omega)
      b tl henc s t hd hpr hdata hlim
    have hb : b ≥ 128 ∧ b / 64 % 2 = 1 := by
      unfold appendPrefixedInt at henc
      split at henc <;> (simp at henc; omega)
    refine ⟨s1, ?_, hadv⟩
    unfold decodeFieldLine
    simp only [hb.1, if_true]
    unfold decodeIndexedFieldLine
    rw [hr]
    simp only [Out.bind, hb.2, if_true, staticTableEntry, hent, hnever]
  · split at henc
    · -- literal with name reference
      rename_i _ i hi
      obtain ⟨v0, hent⟩ := lookupName_spec tbl n i hi
      have hilt := getElem?_some_lt _ _ _ hent
      unfold appendLiteralNameRef at henc
      have hne := appendPrefixedInt_ne_nil (64 + nbit f.never 32 + 16) 4 i
      cases hpi : appendPrefixedInt (64 + nbit f.never 32 + 16) 4 i with
      | nil => exact absurd hpi hne
      | cons b' tl' =>
        rw [hpi] at henc
        simp at henc
        obtain ⟨rfl, rfl⟩ := henc
        have hf0 : (64 + nbit f.never 32 + 16) % 2 ^ 4 = 0 := by
          unfold nbit; cases f.never <;> simp
        obtain ⟨s1, hr, hadv, _⟩ := readPrefixedIntWithByte_append _ 4 i (by omega) hf0 (by omega)
          b' tl' hpi s (appendPrefixedString H 0 7 f.value ++ t) hd hpr (by rw [hdata]; simp)
          (by simp at hlim; omega)
        have hb := nameRef_firstByte f.never i b' tl' hpi
        have hd1 : s1.data = appendPrefixedString H 0 7 f.value ++ t := by rw [hadv.data, hdata]; simp
        obtain ⟨b2, s2, hr2, hadv2⟩ := readPrefixedString_append H hH f.value hbv hsize.2 s1 t hadv.dead hd1
          (by rw [hadv.lim]; simp at hlim; omega)
        refine ⟨s2, ?_, ?_⟩
        · unfold decodeFieldLine
          have h1 : ¬ b' ≥ 128 := by omega
          simp only [h1, hb.1, if_true, if_false]
          unfold decodeLiteralNameRef
          rw [hr]
          simp only [Out.bind, hb.2.2.1, if_true, staticTableEntry, hent, hr2]
          congr 2
          rw [hb.2.2.2]
          cases f.never <;> simp
        · have := Adv.trans hadv hadv2
          simpa using this
    · -- literal with literal name
      unfold appendLiteralLiteralName at henc
      have hne := appendPrefixedString_ne_nil H (32 + nbit f.never 16) 3 n
      cases hps : appendPrefixedString H (32 + nbit f.never 16) 3 n with
      | nil => exact absurd hps hne
      | cons b' tl' =>
        rw [hps] at henc
        simp at henc
        obtain ⟨rfl, rfl⟩ := henc
        have hf0 : (32 + nbit f.never 16) % 2 ^ (3 + 1) = 0 := by
          unfold nbit; cases f.never <;> simp
        have hnl : n.length < 2 ^ 62 := by rw [lowerHeader_length _ _ hn]; exact hsize.1
        obtain ⟨s1, hr, hadv⟩ := readPrefixedStringWithByte_append H n (hH.dec_enc n (lowerHeader_bytes _ _ hn)) (hH.len_enc n (lowerHeader_bytes _ _ hn)) _ 3 (by omega) (by omega)
          hf0 hnl b' tl' hps s (appendPrefixedString H 0 7 f.value ++ t) hd hpr (by rw [hdata]; simp)
          (by simp at hlim; omega)
        have hb := litName_firstByte H f.never n b' tl' hps
        have hd1 : s1.data = appendPrefixedString H 0 7 f.value ++ t := by rw [hadv.data, hdata]; simp
        obtain ⟨b2, s2, hr2, hadv2⟩ := readPrefixedString_append H hH f.value hbv hsize.2 s1 t hadv.dead hd1
          (by rw [hadv.lim]; simp at hlim; omega)
        refine ⟨s2, ?_, ?_⟩
        · unfold decodeFieldLine
          have h1 : ¬ b' ≥ 128 := by omega
          have h2 : ¬ b' ≥ 64 := by omega
          simp only [h1, h2, hb.1, if_true, if_false]
          unfold decodeLiteralLiteralName
          rw [hr]
          simp only [Out.bind, hr2]
          congr 2
          rw [hb.2.2]
          cases f.never <;> simp
        · have := Adv.trans hadv hadv2
          simpa using this

/-! ### the decoder loop over the encoder's output -/

theorem encodeField_ne_nil (H : Huff) (tbl : List (List Nat × List Nat)) (f : Field) (n : List Nat)
    (hn : lowerHeader f.name = some n) : encodeField H tbl f ≠ [] := by
  unfold encodeField
  rw [hn]
  simp only
  split
  · exact appendPrefixedInt_ne_nil _ _ _
  · split
    · unfold appendLiteralNameRef
      intro h; exact appendPrefixedInt_ne_nil _ _ _ (List.append_eq_nil_iff.mp h).1
    · unfold appendLiteralLiteralName
      intro h; exact appendPrefixedString_ne_nil _ _ _ _ (List.append_eq_nil_iff.mp h).1

theorem decodeLoop_encodeFields (H : Huff) (hH : HuffOK H) (tbl : List (List Nat × List Nat))
    (htbl : tbl.length < 2 ^ 62) :
    ∀ (fs : List Field) (fuel : Nat) (s : St) (saw : Bool) (acc : List Field) (rest : List Nat),
    (∀ f ∈ fs, f.name.length < 2 ^ 62 ∧ f.value.length < 2 ^ 62 ∧ Bytes f.value) →
    PseudoFirst saw (expected fs) → s.dead = false → s.primed = true →
    s.data = encodeFields H tbl fs ++ rest → s.lim = ((encodeFields H tbl fs).length : Int) →
    fuel > (encodeFields H tbl fs).length →
    ∃ s', decodeLoop H tbl fuel s saw acc = ⟨acc ++ expected fs, .ok () s'⟩ ∧
      s'.lim = 0 ∧ s'.data = rest ∧ s'.dead = false := by
  intro fs
  induction fs with
  | nil =>
    intro fuel s saw acc rest _ _ hd _ hdata hlim hfuel
    obtain ⟨k, rfl⟩ : ∃ k, fuel = k + 1 := ⟨fuel - 1, by omega⟩
    simp [encodeFields] at hdata hlim
    refine ⟨s, ?_, hlim, hdata, hd⟩
    unfold decodeLoop
    simp [hlim, expected]
  | cons f fs ih =>
    intro fuel s saw acc rest hsize hwf hd hpr hdata hlim hfuel
    have hsize' : ∀ f ∈ fs, f.name.length < 2 ^ 62 ∧ f.value.length < 2 ^ 62 ∧ Bytes f.value :=
      fun g hg => hsize g (List.mem_cons_of_mem _ hg)
    cases hn : lowerHeader f.name with
    | none =>
      have he : encodeField H tbl f = [] := by unfold encodeField; rw [hn]
      have hx : expected (f :: fs) = expected fs := by simp [expected, hn]
      simp only [encodeFields, he, List.nil_append] at hdata hlim hfuel
      rw [hx] at hwf ⊢
      exact ih fuel s saw acc rest hsize' hwf hd hpr hdata hlim hfuel
    | some n =>
      have hx : expected (f :: fs) = ⟨f.never, n, f.value⟩ :: expected fs := by simp [expected, hn]
      rw [hx] at hwf ⊢
      cases henc : encodeField H tbl f with
      | nil => exact absurd henc (encodeField_ne_nil H tbl f n hn)
      | cons b tl =>
        simp only [encodeFields, henc, List.cons_append, List.length_cons, List.length_append] at hdata hlim hfuel
        obtain ⟨k, rfl⟩ : ∃ k, fuel = k + 1 := ⟨fuel - 1, by omega⟩
        obtain ⟨s1, hr1, hadv1, _⟩ := readByte_cons s b (tl ++ encodeFields H tbl fs ++ rest) hd
          (by rw [hdata]) (by omega)
        have hd1 : s1.data = tl ++ (encodeFields H tbl fs ++ rest) := by rw [hadv1.data, hdata]; simp
        obtain ⟨s2, hr2, hadv2⟩ := decodeFieldLine_encodeField H hH tbl htbl f n hn
          ⟨(hsize f (List.mem_cons_self)).1, (hsize f (List.mem_cons_self)).2.1⟩ (hsize f (List.mem_cons_self)).2.2
          b tl henc s1 (encodeFields H tbl fs ++ rest) hadv1.dead hadv1.primed hd1 (by rw [hadv1.lim]; omega)
        have hd2 : s2.data = encodeFields H tbl fs ++ rest := by rw [hadv2.data, hd1]; simp
        have hl2 : s2.lim = ((encodeFields H tbl fs).length : Int) := by rw [hadv2.lim, hadv1.lim, hlim]; omega
        unfold decodeLoop
        have hpos : s.lim > 0 := by omega
        simp only [hpos, if_true, hr1, hr2]
        unfold PseudoFirst at hwf
        simp only at hwf
        cases hnm : n with
        | nil => simp [hnm] at hwf
        | cons c cs =>
          simp only [hnm] at hwf ⊢
          by_cases hc : c = 58
          · simp only [hc, if_true] at hwf ⊢
            obtain ⟨hsaw, hwf'⟩ := hwf
            subst hsaw
            simp only [Bool.false_eq_true, if_false]
            obtain ⟨s3, hr3, h3⟩ := ih k s2 false (acc ++ [⟨f.never, 58 :: cs, f.value⟩]) rest hsize' hwf'
              hadv2.dead hadv2.primed hd2 hl2 (by omega)
            exact ⟨s3, by rw [hr3]; simp, h3⟩
          · simp only [hc, if_false] at hwf ⊢
            obtain ⟨s3, hr3, h3⟩ := ih k s2 true (acc ++ [⟨f.never, c :: cs, f.value⟩]) rest hsize' hwf
              hadv2.dead hadv2.primed hd2 hl2 (by omega)
            exact ⟨s3, by rw [hr3]; simp, h3⟩

/-- **Round trip.** Decoding what the encoder produced for `fs` (inside a frame of exactly that
length, followed by arbitrary bytes `rest`) delivers the lower-cased printable-ASCII-named fields
of `fs` in order with flags and values intact, consumes exactly the section and ends with `lim = 0`. -/
theorem decode_encode (H : Huff) (hH : HuffOK H) (tbl : List (List Nat × List Nat)) (htbl : tbl.length < 2 ^ 62)
    (fs : List Field)
    (hsize : ∀ f ∈ fs, f.name.length < 2 ^ 62 ∧ f.value.length < 2 ^ 62 ∧ Bytes f.value)
    (hwf : PseudoFirst false (expected fs))
    (rest : List Nat) (s : St) (hdead : s.dead = false)
    (hdata : s.data = encode H tbl fs ++ rest)
    (hlim : s.lim = ((encode H tbl fs).length : Int)) :
    ∃ s', decode H tbl s = ⟨expected fs, .ok () s'⟩ ∧ s'.lim = 0 ∧ s'.data = rest ∧ s'.dead = false := by
  have hpre : encode H tbl fs = 0 :: 0 :: encodeFields H tbl fs := by
    simp [encode, appendPrefixedInt]
  rw [hpre] at hdata hlim
  simp only [List.cons_append, List.length_cons] at hdata hlim
  obtain ⟨s1, hr1, hadv1, _⟩ := readByte_cons s 0 (0 :: (encodeFields H tbl fs ++ rest)) hdead hdata (by omega)
  have hd1 : s1.data = 0 :: (encodeFields H tbl fs ++ rest) := by rw [hadv1.data, hdata]; simp
  obtain ⟨s2, hr2, hadv2, _⟩ := readByte_cons s1 0 (encodeFields H tbl fs ++ rest) hadv1.dead hd1
    (by rw [hadv1.lim]; omega)
  have hd2 : s2.data = encodeFields H tbl fs ++ rest := by rw [hadv2.data, hd1]; simp
  have hl2 : s2.lim = ((encodeFields H tbl fs).length : Int) := by rw [hadv2.lim, hadv1.lim, hlim]; omega
  obtain ⟨s3, hr3, h3⟩ := decodeLoop_encodeFields H hH tbl htbl fs (s2.lim.toNat + 1) s2 false [] rest hsize hwf
    hadv2.dead hadv2.primed hd2 hl2 (by rw [hl2]; simp)
  have hp1 : readPrefixedInt s 8 = .ok (0, 0) s1 := by
    unfold readPrefixedInt; rw [hr1]; simp [Out.bind, readPrefixedIntWithByte]
  have hp2 : readPrefixedInt s1 7 = .ok (0, 0) s2 := by
    unfold readPrefixedInt; rw [hr2]; simp [Out.bind, readPrefixedIntWithByte]
  refine ⟨s3, ?_, h3⟩
  unfold decode
  rw [hp1]
  simp only [ne_eq, not_true_eq_false, if_false]
  rw [hp2]
  exact hr3

end NetVerif.Proofs.C33RT
