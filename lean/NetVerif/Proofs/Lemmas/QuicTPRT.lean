import NetVerif.Model.QuicTransportParams
import NetVerif.Proofs.Lemmas.QuicCodec
/-! Transport parameters: marshal followed by unmarshal is the identity on valid parameter sets. -/
namespace NetVerif.Proofs.Lemmas.QuicTPRT
open NetVerif.Model.VarintQuic NetVerif.Model.QuicFrames NetVerif.Model.QuicTransportParams
open NetVerif.Proofs.Lemmas.QuicCodec

/-! ### the TLV splitter does not depend on surplus fuel -/

theorem splitTLVsF_fuel : ∀ (f g : Nat) (b : List Nat), b.length ≤ f → b.length ≤ g →
    splitTLVsF f b = splitTLVsF g b := by
  intro f
  induction f with
  | zero =>
    intro g b hf _
    have : b = [] := by cases b <;> simp_all
    subst this
    cases g <;> simp [splitTLVsF]
  | succ f ih =>
    intro g b hf hg
    cases b with
    | nil => cases g <;> simp [splitTLVsF]
    | cons x xs =>
      cases g with
      | zero => simp at hg
      | succ g =>
        simp only [splitTLVsF]
        cases h1 : takeVarint (x :: xs) with
        | none => rfl
        | some r1 =>
          obtain ⟨id, b1⟩ := r1
          simp only
          cases h2 : takeVarintBytes b1 with
          | none => rfl
          | some r2 =>
            obtain ⟨val, b2⟩ := r2
            simp only
            have l1 := takeVarint_shorter _ _ _ h1
            have l2 := takeVarintBytes_shorter _ _ _ h2
            simp at l1 hf hg
            rw [ih g b2 (by omega) (by omega)]

/-- `unmarshal` continuing from parameter set `q`. -/
def unmarshalFrom (q : TParams) (b : List Nat) : Option TParams :=
  match splitTLVs b with
  | some l => applyAll q l
  | none => none

theorem unmarshal_eq : unmarshal b = unmarshalFrom defaultParams b := rfl

theorem unmarshalFrom_nil (q : TParams) : unmarshalFrom q [] = some q := by
  simp [unmarshalFrom, splitTLVs, splitTLVsF, applyAll]

theorem splitTLVs_cons (id : Nat) (val x rest : List Nat) (h : tlvBytes id val = some x) :
    splitTLVs (x ++ rest) = (splitTLVs rest).map ((id, val) :: ·) := by
  unfold tlvBytes at h
  split at h <;> simp at h
  rename_i a b ha hb
  subst h
  have hpos := (append_length_pos id a ha).1
  unfold splitTLVs
  obtain ⟨n, hn⟩ : ∃ n, (a ++ b ++ rest).length = n + 1 := ⟨(a ++ b ++ rest).length - 1, by simp; omega⟩
  rw [hn]
  cases hab : a ++ b ++ rest with
  | nil => simp [hab] at hn
  | cons y ys =>
    have e1 : y :: ys = a ++ (b ++ rest) := by rw [← hab]; simp
    simp only [splitTLVsF]
    rw [e1, takeVarint_append id a _ ha]
    simp only [takeVarintBytes_append val rest b hb]
    have hl : rest.length ≤ n := by
      have : (a ++ b ++ rest).length = n + 1 := hn
      simp at this; omega
    rw [splitTLVsF_fuel n rest.length rest hl (Nat.le_refl _)]
    cases splitTLVsF rest.length rest <;> simp

/-- One transmitted parameter: decode it, apply it, continue. -/
theorem unmarshalFrom_tlv (q q' : TParams) (id : Nat) (val x rest : List Nat)
    (h : tlvBytes id val = some x) (ha : applyParam q id val = some q') :
    unmarshalFrom q (x ++ rest) = unmarshalFrom q' rest := by
  unfold unmarshalFrom
  rw [splitTLVs_cons id val x rest h]
  cases splitTLVs rest <;> simp [applyAll, ha]

theorem wholeVarint_enc (v : Nat) (e : List Nat) (h : appendVarint v = some e) :
    wholeVarint e = some v := by
  have := consume_append v e [] h
  simp at this
  simp [wholeVarint, this]

/-! ### valid parameter sets -/

/-- The parameter sets for which the round trip is claimed (decidable): durations are whole
milliseconds within the accepted ranges, integer parameters are in their RFC 9000 §18.2 ranges,
the stateless reset token has 16 bytes, and the preferred-address fields are either all absent
or an IPv4 (4 bytes) + IPv6 (16 bytes) address with 16-bit ports and a 16-byte token. -/
def TPValid (p : TParams) : Prop :=
  p.maxIdleTimeout % msNs = 0 ∧ p.maxIdleTimeout / msNs ≤ 4294967296 ∧
  (∀ t, p.statelessResetToken = some t → t.length = 16) ∧
  1200 ≤ p.maxUDPPayloadSize ∧ p.initialMaxStreamsBidi ≤ maxStreamsLimit ∧
  p.initialMaxStreamsUni ≤ maxStreamsLimit ∧ p.ackDelayExponent ≤ 20 ∧
  p.maxAckDelay % msNs = 0 ∧ p.maxAckDelay / msNs < 16384 ∧ 2 ≤ p.activeConnIDLimit ∧
  (∀ c, p.preferredAddrConnID = some c →
     p.preferredAddrV4.1.length = 4 ∧ p.preferredAddrV6.1.length = 16 ∧
     p.preferredAddrV4.2 < 65536 ∧ p.preferredAddrV6.2 < 65536 ∧
     ∃ t, p.preferredAddrResetToken = some t ∧ t.length = 16) ∧
  (p.preferredAddrConnID = none →
     p.preferredAddrV4 = ([], 0) ∧ p.preferredAddrV6 = ([], 0) ∧ p.preferredAddrResetToken = none)

/-- The first `k` marshalled fields taken from `p`, the others at their defaults: the state of
`unmarshalTransportParams` after the first `k` pieces. -/
def mix (k : Nat) (p : TParams) : TParams :=
  { originalDstConnID := if 0 < k then p.originalDstConnID else none,
    maxIdleTimeout := if 1 < k then p.maxIdleTimeout else 0,
    statelessResetToken := if 2 < k then p.statelessResetToken else none,
    maxUDPPayloadSize := if 3 < k then p.maxUDPPayloadSize else defaultMaxUDPPayloadSize,
    initialMaxData := if 4 < k then p.initialMaxData else 0,
    initialMaxStreamDataBidiLocal := if 5 < k then p.initialMaxStreamDataBidiLocal else 0,
    initialMaxStreamDataBidiRemote := if 6 < k then p.initialMaxStreamDataBidiRemote else 0,
    initialMaxStreamDataUni := if 7 < k then p.initialMaxStreamDataUni else 0,
    initialMaxStreamsBidi := if 8 < k then p.initialMaxStreamsBidi else 0,
    initialMaxStreamsUni := if 9 < k then p.initialMaxStreamsUni else 0,
    ackDelayExponent := if 10 < k then p.ackDelayExponent else defaultAckDelayExponent,
    maxAckDelay := if 11 < k then p.maxAckDelay else defaultMaxAckDelayMs * msNs,
    disableActiveMigration := if 12 < k then p.disableActiveMigration else false,
    preferredAddrConnID := if 13 < k then p.preferredAddrConnID else none,
    preferredAddrV4 := if 13 < k then p.preferredAddrV4 else ([], 0),
    preferredAddrV6 := if 13 < k then p.preferredAddrV6 else ([], 0),
    preferredAddrResetToken := if 13 < k then p.preferredAddrResetToken else none,
    activeConnIDLimit := if 14 < k then p.activeConnIDLimit else defaultActiveConnIDLimit,
    initialSrcConnID := if 15 < k then p.initialSrcConnID else none,
    retrySrcConnID := if 16 < k then p.retrySrcConnID else none }

theorem mix_zero (p : TParams) : mix 0 p = defaultParams := by simp [mix, defaultParams]
theorem mix_all (p : TParams) : mix 17 p = p := by cases p; simp [mix]

theorem step_bytes (q q' : TParams) (id : Nat) (v : Option (List Nat)) (x rest : List Nat)
    (h : optBytes id v = some x) (hnone : v = none → q' = q)
    (hsome : ∀ val, v = some val → applyParam q id val = some q') :
    unmarshalFrom q (x ++ rest) = unmarshalFrom q' rest := by
  cases v with
  | none => simp [optBytes] at h; subst h; simp [hnone rfl]
  | some val => exact unmarshalFrom_tlv q q' id val x rest h (hsome val rfl)

theorem step_int (q q' : TParams) (id v dflt : Nat) (x rest : List Nat)
    (h : optInt id v dflt = some x) (hd : v = dflt → q' = q)
    (hs : v ≠ dflt → ∀ e, appendVarint v = some e → applyParam q id e = some q') :
    unmarshalFrom q (x ++ rest) = unmarshalFrom q' rest := by
  unfold optInt at h
  split at h
  · rename_i hv; simp at h; subst h; simp [hd hv]
  · rename_i hv
    unfold tlvInt at h
    split at h
    · rename_i e he
      exact unmarshalFrom_tlv q q' id e x rest h (hs hv e he)
    · simp at h

theorem concatPieces_cons (o : Option (List Nat)) (rest : List (Option (List Nat))) (bs : List Nat)
    (h : concatPieces (o :: rest) = some bs) :
    ∃ x y, o = some x ∧ concatPieces rest = some y ∧ bs = x ++ y := by
  cases o with
  | none => simp [concatPieces] at h
  | some x =>
    simp only [concatPieces] at h
    split at h <;> simp at h
    exact ⟨x, _, rfl, ‹_›, h.symm⟩

attribute [local simp] idOriginalDstConnID idMaxIdleTimeout idStatelessResetToken idMaxUDPPayloadSize
  idInitialMaxData idInitialMaxStreamDataBidiLocal idInitialMaxStreamDataBidiRemote idInitialMaxStreamDataUni
  idInitialMaxStreamsBidi idInitialMaxStreamsUni idAckDelayExponent idMaxAckDelay idDisableActiveMigration
  idPreferredAddress idActiveConnIDLimit idInitialSrcConnID idRetrySrcConnID

theorem step0 (p : TParams) (x rest : List Nat) (h : optBytes idOriginalDstConnID p.originalDstConnID = some x) :
    unmarshalFrom (mix 0 p) (x ++ rest) = unmarshalFrom (mix 1 p) rest := by
  apply step_bytes _ _ _ _ _ _ h
  · intro hn; simp [mix, hn]
  · intro val hv; simp [applyParam, mix, hv]

theorem step1 (p : TParams) (hv : TPValid p) (x rest : List Nat)
    (h : optInt idMaxIdleTimeout (p.maxIdleTimeout / msNs) 0 = some x) :
    unmarshalFrom (mix 1 p) (x ++ rest) = unmarshalFrom (mix 2 p) rest := by
  obtain ⟨h1, h2, _⟩ := hv
  apply step_int _ _ _ _ _ _ _ h
  · intro hd
    have : p.maxIdleTimeout = 0 := by unfold msNs at *; omega
    simp [mix, this]
  · intro _ e he
    have hw := wholeVarint_enc _ e he
    have hgt : ¬ (p.maxIdleTimeout / msNs > 4294967296) := by omega
    have hm : p.maxIdleTimeout / msNs * msNs = p.maxIdleTimeout := by unfold msNs at *; omega
    simp [applyParam, mix, hw, hgt, hm]

theorem step2 (p : TParams) (hv : TPValid p) (x rest : List Nat)
    (h : optBytes idStatelessResetToken p.statelessResetToken = some x) :
    unmarshalFrom (mix 2 p) (x ++ rest) = unmarshalFrom (mix 3 p) rest := by
  obtain ⟨_, _, h3, _⟩ := hv
  apply step_bytes _ _ _ _ _ _ h
  · intro hn; simp [mix, hn]
  · intro val hval
    have := h3 val hval
    simp [applyParam, mix, hval, this]

theorem step3 (p : TParams) (hv : TPValid p) (x rest : List Nat)
    (h : optInt idMaxUDPPayloadSize p.maxUDPPayloadSize defaultMaxUDPPayloadSize = some x) :
    unmarshalFrom (mix 3 p) (x ++ rest) = unmarshalFrom (mix 4 p) rest := by
  obtain ⟨_, _, _, hudp, hsb, hsu, hade, _, _, hacl, _, _⟩ := hv
  apply step_int _ _ _ _ _ _ _ h
  · intro hd; simp [mix, hd]
  · intro _ e he
    have hw := wholeVarint_enc _ e he
    have hc : ¬ (p.maxUDPPayloadSize < 1200) := by omega
    simp [applyParam, mix, hw, hc]

theorem step4 (p : TParams) (hv : TPValid p) (x rest : List Nat)
    (h : optInt idInitialMaxData p.initialMaxData 0 = some x) :
    unmarshalFrom (mix 4 p) (x ++ rest) = unmarshalFrom (mix 5 p) rest := by
  obtain ⟨_, _, _, hudp, hsb, hsu, hade, _, _, hacl, _, _⟩ := hv
  apply step_int _ _ _ _ _ _ _ h
  · intro hd; simp [mix, hd]
  · intro _ e he
    have hw := wholeVarint_enc _ e he
    simp [applyParam, mix, hw]

theorem step5 (p : TParams) (hv : TPValid p) (x rest : List Nat)
    (h : optInt idInitialMaxStreamDataBidiLocal p.initialMaxStreamDataBidiLocal 0 = some x) :
    unmarshalFrom (mix 5 p) (x ++ rest) = unmarshalFrom (mix 6 p) rest := by
  obtain ⟨_, _, _, hudp, hsb, hsu, hade, _, _, hacl, _, _⟩ := hv
  apply step_int _ _ _ _ _ _ _ h
  · intro hd; simp [mix, hd]
  · intro _ e he
    have hw := wholeVarint_enc _ e he
    simp [applyParam, mix, hw]

theorem step6 (p : TParams) (hv : TPValid p) (x rest : List Nat)
    (h : optInt idInitialMaxStreamDataBidiRemote p.initialMaxStreamDataBidiRemote 0 = some x) :
    unmarshalFrom (mix 6 p) (x ++ rest) = unmarshalFrom (mix 7 p) rest := by
  obtain ⟨_, _, _, hudp, hsb, hsu, hade, _, _, hacl, _, _⟩ := hv
  apply step_int _ _ _ _ _ _ _ h
  · intro hd; simp [mix, hd]
  · intro _ e he
    have hw := wholeVarint_enc _ e he
    simp [applyParam, mix, hw]

theorem step7 (p : TParams) (hv : TPValid p) (x rest : List Nat)
    (h : optInt idInitialMaxStreamDataUni p.initialMaxStreamDataUni 0 = some x) :
    unmarshalFrom (mix 7 p) (x ++ rest) = unmarshalFrom (mix 8 p) rest := by
  obtain ⟨_, _, _, hudp, hsb, hsu, hade, _, _, hacl, _, _⟩ := hv
  apply step_int _ _ _ _ _ _ _ h
  · intro hd; simp [mix, hd]
  · intro _ e he
    have hw := wholeVarint_enc _ e he
    simp [applyParam, mix, hw]

theorem step8 (p : TParams) (hv : TPValid p) (x rest : List Nat)
    (h : optInt idInitialMaxStreamsBidi p.initialMaxStreamsBidi 0 = some x) :
    unmarshalFrom (mix 8 p) (x ++ rest) = unmarshalFrom (mix 9 p) rest := by
  obtain ⟨_, _, _, hudp, hsb, hsu, hade, _, _, hacl, _, _⟩ := hv
  apply step_int _ _ _ _ _ _ _ h
  · intro hd; simp [mix, hd]
  · intro _ e he
    have hw := wholeVarint_enc _ e he
    have hc : ¬ (p.initialMaxStreamsBidi > maxStreamsLimit) := by omega
    simp [applyParam, mix, hw, hc]

theorem step9 (p : TParams) (hv : TPValid p) (x rest : List Nat)
    (h : optInt idInitialMaxStreamsUni p.initialMaxStreamsUni 0 = some x) :
    unmarshalFrom (mix 9 p) (x ++ rest) = unmarshalFrom (mix 10 p) rest := by
  obtain ⟨_, _, _, hudp, hsb, hsu, hade, _, _, hacl, _, _⟩ := hv
  apply step_int _ _ _ _ _ _ _ h
  · intro hd; simp [mix, hd]
  · intro _ e he
    have hw := wholeVarint_enc _ e he
    have hc : ¬ (p.initialMaxStreamsUni > maxStreamsLimit) := by omega
    simp [applyParam, mix, hw, hc]

theorem step10 (p : TParams) (hv : TPValid p) (x rest : List Nat)
    (h : optInt idAckDelayExponent p.ackDelayExponent defaultAckDelayExponent = some x) :
    unmarshalFrom (mix 10 p) (x ++ rest) = unmarshalFrom (mix 11 p) rest := by
  obtain ⟨_, _, _, hudp, hsb, hsu, hade, _, _, hacl, _, _⟩ := hv
  apply step_int _ _ _ _ _ _ _ h
  · intro hd; simp [mix, hd]
  · intro _ e he
    have hw := wholeVarint_enc _ e he
    have hc : ¬ (p.ackDelayExponent > 20) := by omega
    simp [applyParam, mix, hw, hc]

theorem step11 (p : TParams) (hv : TPValid p) (x rest : List Nat)
    (h : optInt idMaxAckDelay (p.maxAckDelay / msNs) defaultMaxAckDelayMs = some x) :
    unmarshalFrom (mix 11 p) (x ++ rest) = unmarshalFrom (mix 12 p) rest := by
  obtain ⟨_, _, _, _, _, _, _, h1, h2, _⟩ := hv
  apply step_int _ _ _ _ _ _ _ h
  · intro hd
    have : p.maxAckDelay = defaultMaxAckDelayMs * msNs := by unfold msNs defaultMaxAckDelayMs at *; omega
    simp [mix, this]
  · intro _ e he
    have hw := wholeVarint_enc _ e he
    have hc : ¬ (p.maxAckDelay / msNs ≥ 16384) := by omega
    have hm : p.maxAckDelay / msNs * msNs = p.maxAckDelay := by unfold msNs at *; omega
    simp [applyParam, mix, hw, hc, hm]

theorem step12 (p : TParams) (x rest : List Nat)
    (h : (if p.disableActiveMigration then some [idDisableActiveMigration, 0] else some []) = some x) :
    unmarshalFrom (mix 12 p) (x ++ rest) = unmarshalFrom (mix 13 p) rest := by
  cases hd : p.disableActiveMigration with
  | false =>
    simp [hd] at h; subst h
    simp [mix, hd]
  | true =>
    simp [hd] at h; subst h
    have ht : tlvBytes idDisableActiveMigration [] = some [12, 0] := by decide
    exact unmarshalFrom_tlv _ _ _ [] _ rest ht (by simp [applyParam, mix, hd])

theorem step14 (p : TParams) (hv : TPValid p) (x rest : List Nat)
    (h : optInt idActiveConnIDLimit p.activeConnIDLimit defaultActiveConnIDLimit = some x) :
    unmarshalFrom (mix 14 p) (x ++ rest) = unmarshalFrom (mix 15 p) rest := by
  obtain ⟨_, _, _, hudp, hsb, hsu, hade, _, _, hacl, _, _⟩ := hv
  apply step_int _ _ _ _ _ _ _ h
  · intro hd; simp [mix, hd]
  · intro _ e he
    have hw := wholeVarint_enc _ e he
    have hc : ¬ (p.activeConnIDLimit < 2) := by omega
    simp [applyParam, mix, hw, hc]

theorem step15 (p : TParams) (x rest : List Nat) (h : optBytes idInitialSrcConnID p.initialSrcConnID = some x) :
    unmarshalFrom (mix 15 p) (x ++ rest) = unmarshalFrom (mix 16 p) rest := by
  apply step_bytes _ _ _ _ _ _ h
  · intro hn; simp [mix, hn]
  · intro val hv; simp [applyParam, mix, hv]

theorem step16 (p : TParams) (x rest : List Nat) (h : optBytes idRetrySrcConnID p.retrySrcConnID = some x) :
    unmarshalFrom (mix 16 p) (x ++ rest) = unmarshalFrom (mix 17 p) rest := by
  apply step_bytes _ _ _ _ _ _ h
  · intro hn; simp [mix, hn]
  · intro val hv; simp [applyParam, mix, hv]

private theorem u16_rt (v : Nat) (r : List Nat) (h : v < 65536) : u16of (u16be v ++ r) = v := by
  simp [u16of, u16be]; omega

theorem step13 (p : TParams) (hv : TPValid p) (x rest : List Nat) (h : prefAddrBytes p = some x) :
    unmarshalFrom (mix 13 p) (x ++ rest) = unmarshalFrom (mix 14 p) rest := by
  obtain ⟨_, _, _, _, _, _, _, _, _, _, hsome, hnone⟩ := hv
  unfold prefAddrBytes at h
  cases hc : p.preferredAddrConnID with
  | none =>
    simp [hc] at h; subst h
    obtain ⟨h4, h6, ht⟩ := hnone hc
    simp [mix, hc, h4, h6, ht]
  | some cid =>
    obtain ⟨l4, l6, p4, p6, tok, htok, ltok⟩ := hsome cid hc
    cases h4 : p.preferredAddrV4 with
    | mk v4b v4p =>
    cases h6 : p.preferredAddrV6 with
    | mk v6b v6p =>
    simp only [h4, h6] at l4 l6 p4 p6
    simp only [hc, h4, h6, htok, Option.getD_some] at h
    split at h <;> simp at h
    rename_i l c hl hcb
    subst h
    have hclen : c.length = 1 + cid.length := by
      unfold appendUint8Bytes at hcb
      split at hcb <;> simp at hcb
      subst hcb; simp; omega
    -- the bytes after the ID byte are a varint-length-prefixed value
    have hval : appendVarintBytes (v4b ++ (u16be v4p ++ (v6b ++ (u16be v6p ++ (c ++ tok))))) =
        some (l ++ (v4b ++ (u16be v4p ++ (v6b ++ (u16be v6p ++ (c ++ tok)))))) := by
      have hlen : (v4b ++ (u16be v4p ++ (v6b ++ (u16be v6p ++ (c ++ tok))))).length =
          4 + 2 + 16 + 2 + 1 + cid.length + 16 := by
        simp [u16be, l4, l6, hclen, ltok]; omega
      simp [appendVarintBytes, hlen, hl]
    have htlv : tlvBytes idPreferredAddress (v4b ++ (u16be v4p ++ (v6b ++ (u16be v6p ++ (c ++ tok))))) =
        some (idPreferredAddress :: (l ++ (v4b ++ (u16be v4p ++ (v6b ++ (u16be v6p ++ (c ++ tok))))))) := by
      have : appendVarint 13 = some [13] := by decide
      simp [tlvBytes, this, hval]
    refine unmarshalFrom_tlv _ _ _ _ _ rest htlv ?_
    -- applying it restores the four preferred-address fields
    have e24 : (v4b ++ (u16be v4p ++ (v6b ++ (u16be v6p ++ (c ++ tok))))).drop 24 = c ++ tok := by
      have : v4b ++ (u16be v4p ++ (v6b ++ (u16be v6p ++ (c ++ tok)))) =
          (v4b ++ (u16be v4p ++ (v6b ++ u16be v6p))) ++ (c ++ tok) := by simp
      rw [this]
      exact List.drop_left' (by simp [u16be, l4, l6])
    have e4 : (v4b ++ (u16be v4p ++ (v6b ++ (u16be v6p ++ (c ++ tok))))).take 4 = v4b := List.take_left' l4
    have d4 : (v4b ++ (u16be v4p ++ (v6b ++ (u16be v6p ++ (c ++ tok))))).drop 4 =
        u16be v4p ++ (v6b ++ (u16be v6p ++ (c ++ tok))) := List.drop_left' l4
    have d6 : (v4b ++ (u16be v4p ++ (v6b ++ (u16be v6p ++ (c ++ tok))))).drop 6 =
        v6b ++ (u16be v6p ++ (c ++ tok)) := by
      have : v4b ++ (u16be v4p ++ (v6b ++ (u16be v6p ++ (c ++ tok)))) =
          (v4b ++ u16be v4p) ++ (v6b ++ (u16be v6p ++ (c ++ tok))) := by simp
      rw [this]
      exact List.drop_left' (by simp [u16be, l4])
    have d22 : (v4b ++ (u16be v4p ++ (v6b ++ (u16be v6p ++ (c ++ tok))))).drop 22 =
        u16be v6p ++ (c ++ tok) := by
      have : v4b ++ (u16be v4p ++ (v6b ++ (u16be v6p ++ (c ++ tok)))) =
          (v4b ++ (u16be v4p ++ v6b)) ++ (u16be v6p ++ (c ++ tok)) := by simp
      rw [this]
      exact List.drop_left' (by simp [u16be, l4, l6])
    have t16 : (v6b ++ (u16be v6p ++ (c ++ tok))).take 16 = v6b := List.take_left' l6
    have hlen25 : ¬ ((v4b ++ (u16be v4p ++ (v6b ++ (u16be v6p ++ (c ++ tok))))).length < 4 + 2 + 16 + 2 + 1) := by
      simp [u16be, l4, l6, hclen]; omega
    simp only [applyParam, idPreferredAddress]
    simp only [show ¬ ((13 : Nat) = idOriginalDstConnID) by decide, show ¬ ((13 : Nat) = idMaxIdleTimeout) by decide,
      show ¬ ((13 : Nat) = idStatelessResetToken) by decide, show ¬ ((13 : Nat) = idMaxUDPPayloadSize) by decide,
      show ¬ ((13 : Nat) = idInitialMaxData) by decide, show ¬ ((13 : Nat) = idInitialMaxStreamDataBidiLocal) by decide,
      show ¬ ((13 : Nat) = idInitialMaxStreamDataBidiRemote) by decide,
      show ¬ ((13 : Nat) = idInitialMaxStreamDataUni) by decide, show ¬ ((13 : Nat) = idInitialMaxStreamsBidi) by decide,
      show ¬ ((13 : Nat) = idInitialMaxStreamsUni) by decide, show ¬ ((13 : Nat) = idAckDelayExponent) by decide,
      show ¬ ((13 : Nat) = idMaxAckDelay) by decide, show ¬ ((13 : Nat) = idDisableActiveMigration) by decide,
      if_false, if_true, hlen25, e24, takeUint8Bytes_append cid tok c hcb, e4, d4, d6, d22, t16,
      u16_rt v4p _ p4, u16_rt v6p _ p6]
    simp [ltok, mix, hc, h4, h6, htok]

/-- **Transport parameters round trip**: for every valid parameter set, what
`marshalTransportParameters` produces is accepted by `unmarshalTransportParams` and gives back
exactly the same parameters (all twenty fields at once). -/
theorem tp_roundtrip (p : TParams) (bs : List Nat) (hv : TPValid p) (h : marshal p = some bs) :
    unmarshal bs = some p := by
  unfold marshal marshalPieces at h
  have r0 := h
  obtain ⟨x0, y0, h0, r1, e0⟩ := concatPieces_cons _ _ _ r0
  obtain ⟨x1, y1, h1, r2, e1⟩ := concatPieces_cons _ _ _ r1
  obtain ⟨x2, y2, h2, r3, e2⟩ := concatPieces_cons _ _ _ r2
  obtain ⟨x3, y3, h3, r4, e3⟩ := concatPieces_cons _ _ _ r3
  obtain ⟨x4, y4, h4, r5, e4⟩ := concatPieces_cons _ _ _ r4
  obtain ⟨x5, y5, h5, r6, e5⟩ := concatPieces_cons _ _ _ r5
  obtain ⟨x6, y6, h6, r7, e6⟩ := concatPieces_cons _ _ _ r6
  obtain ⟨x7, y7, h7, r8, e7⟩ := concatPieces_cons _ _ _ r7
  obtain ⟨x8, y8, h8, r9, e8⟩ := concatPieces_cons _ _ _ r8
  obtain ⟨x9, y9, h9, r10, e9⟩ := concatPieces_cons _ _ _ r9
  obtain ⟨x10, y10, h10, r11, e10⟩ := concatPieces_cons _ _ _ r10
  obtain ⟨x11, y11, h11, r12, e11⟩ := concatPieces_cons _ _ _ r11
  obtain ⟨x12, y12, h12, r13, e12⟩ := concatPieces_cons _ _ _ r12
  obtain ⟨x13, y13, h13, r14, e13⟩ := concatPieces_cons _ _ _ r13
  obtain ⟨x14, y14, h14, r15, e14⟩ := concatPieces_cons _ _ _ r14
  obtain ⟨x15, y15, h15, r16, e15⟩ := concatPieces_cons _ _ _ r15
  obtain ⟨x16, y16, h16, r17, e16⟩ := concatPieces_cons _ _ _ r16
  simp [concatPieces] at r17
  subst r17
  subst e0
  subst e1
  subst e2
  subst e3
  subst e4
  subst e5
  subst e6
  subst e7
  subst e8
  subst e9
  subst e10
  subst e11
  subst e12
  subst e13
  subst e14
  subst e15
  subst e16
  rw [unmarshal_eq, ← mix_zero p]
  rw [step0 p x0 _ h0]
  rw [step1 p hv x1 _ h1]
  rw [step2 p hv x2 _ h2]
  rw [step3 p hv x3 _ h3]
  rw [step4 p hv x4 _ h4]
  rw [step5 p hv x5 _ h5]
  rw [step6 p hv x6 _ h6]
  rw [step7 p hv x7 _ h7]
  rw [step8 p hv x8 _ h8]
  rw [step9 p hv x9 _ h9]
  rw [step10 p hv x10 _ h10]
  rw [step11 p hv x11 _ h11]
  rw [step12 p x12 _ h12]
  rw [step13 p hv x13 _ h13]
  rw [step14 p hv x14 _ h14]
  rw [step15 p x15 _ h15]
  rw [step16 p x16 _ h16]
  rw [unmarshalFrom_nil, mix_all]

end NetVerif.Proofs.Lemmas.QuicTPRT
