import NetVerif.Model.QuicFrames
/-! Reader/encoder lemmas shared by the C28 (and C31) proofs. -/
namespace NetVerif.Proofs.Lemmas.QuicCodec
open NetVerif.Model.VarintQuic NetVerif.Model.QuicFrames

theorem consume_append (v : Nat) (bs tail : List Nat) (h : appendVarint v = some bs) :
    consumeVarint (bs ++ tail) = some (v, bs.length) := by
  unfold appendVarint at h
  repeat' split at h
  all_goals simp at h
  all_goals subst h
  all_goals simp [consumeVarint]
  all_goals (repeat' split)
  all_goals (try simp)
  all_goals omega

theorem append_length_pos (v : Nat) (bs : List Nat) (h : appendVarint v = some bs) :
    1 ≤ bs.length ∧ bs.length ≤ 8 := by
  unfold appendVarint at h
  repeat' split at h
  all_goals simp at h
  all_goals subst h
  all_goals simp

theorem append_lt (v : Nat) (bs : List Nat) (h : appendVarint v = some bs) : v < 4611686018427387904 := by
  unfold appendVarint at h
  repeat' split at h
  all_goals simp at h
  all_goals omega

theorem append_isSome (v : Nat) (h : v < 4611686018427387904) : ∃ bs, appendVarint v = some bs := by
  unfold appendVarint
  repeat' split
  all_goals first | exact ⟨_, rfl⟩ | omega

theorem size_eq_length (v : Nat) (bs : List Nat) (h : appendVarint v = some bs) :
    sizeVarint v = some bs.length := by
  unfold appendVarint at h
  unfold sizeVarint
  repeat' split at h
  all_goals simp at h
  all_goals subst h
  all_goals (repeat' split)
  all_goals (try simp)
  all_goals omega

theorem size_some_iff (v n : Nat) (h : sizeVarint v = some n) : ∃ bs, appendVarint v = some bs ∧ bs.length = n := by
  unfold sizeVarint at h
  unfold appendVarint
  repeat' split at h
  all_goals simp at h
  all_goals subst h
  all_goals simp [*]

theorem size_none (v : Nat) (h : sizeVarint v = none) : appendVarint v = none := by
  unfold sizeVarint at h
  unfold appendVarint
  repeat' split at h
  all_goals simp at h
  simp [*]

theorem takeVarint_append (v : Nat) (bs tail : List Nat) (h : appendVarint v = some bs) :
    takeVarint (bs ++ tail) = some (v, tail) := by
  simp [takeVarint, consume_append v bs tail h]

theorem varintBytes_roundtrip (v tail bs : List Nat) (h : appendVarintBytes v = some bs) :
    consumeVarintBytes (bs ++ tail) = some (v, bs.length) := by
  unfold appendVarintBytes at h
  split at h
  · rename_i p hp
    simp at h; subst h
    have := consume_append v.length p (v ++ tail) hp
    simp [consumeVarintBytes, List.append_assoc, this]
    omega
  · simp at h

theorem takeVarintBytes_append (v tail bs : List Nat) (h : appendVarintBytes v = some bs) :
    takeVarintBytes (bs ++ tail) = some (v, tail) := by
  simp [takeVarintBytes, varintBytes_roundtrip v tail bs h]

theorem takeUint8Bytes_append (v tail bs : List Nat) (h : appendUint8Bytes v = some bs) :
    takeUint8Bytes (bs ++ tail) = some (v, tail) := by
  unfold appendUint8Bytes at h
  split at h
  · simp at h
  · simp at h; subst h
    have : ¬ (v.length + tail.length < v.length) := by omega
    simp [takeUint8Bytes, consumeUint8Bytes, this]

/-- What a reader returns is a suffix of its input, strictly shorter. -/
theorem takeVarint_shorter (b r : List Nat) (v : Nat) (h : takeVarint b = some (v, r)) :
    r.length < b.length := by
  unfold takeVarint at h
  split at h
  · rename_i v' n hc
    simp at h
    obtain ⟨_, rfl⟩ := h
    unfold consumeVarint at hc
    repeat' split at hc
    all_goals simp at hc
    all_goals (obtain ⟨_, rfl⟩ := hc)
    all_goals simp
    all_goals omega
  · simp at h

theorem takeVarintBytes_shorter (b r p : List Nat) (h : takeVarintBytes b = some (p, r)) :
    r.length < b.length := by
  unfold takeVarintBytes at h
  split at h
  · rename_i p' n hc
    simp at h
    obtain ⟨_, rfl⟩ := h
    unfold consumeVarintBytes at hc
    split at hc
    · simp at hc
    · rename_i sz m hv
      split at hc
      · simp at hc
      · simp at hc
        obtain ⟨_, rfl⟩ := hc
        have := takeVarint_shorter b (b.drop m) sz (by simp [takeVarint, hv])
        simp at this ⊢
        omega
  · simp at h

theorem takeUint8Bytes_shorter (b r p : List Nat) (h : takeUint8Bytes b = some (p, r)) :
    r.length < b.length := by
  unfold takeUint8Bytes at h
  split at h
  · rename_i p' n hc
    simp at h
    obtain ⟨_, rfl⟩ := h
    unfold consumeUint8Bytes at hc
    split at hc
    · simp at hc
    · split at hc
      · simp at hc
      · simp at hc
        obtain ⟨_, rfl⟩ := hc
        simp
        omega
  · simp at h

end NetVerif.Proofs.Lemmas.QuicCodec
