import NetVerif.Model.SendWin
import NetVerif.Gen.C08
/-! T-tie for C08/C09: constants, `Setting.Valid`, the `allowed` computation of
`FrameWriteRequest.Consume` and the `take` computation of `awaitFlowControl`, regenerated from the
Go source on every check, equal the model. -/
namespace NetVerif.Proofs.SendWinGen
open NetVerif.Model.SendWin NetVerif.Model.Flow

theorem gen_initialMaxFrameSize_eq : NetVerif.Gen.C08.initialMaxFrameSize = initialMaxFrame := rfl
theorem gen_initialWindowSize_eq : NetVerif.Gen.C08.initialWindowSize = initialWindow := rfl
theorem gen_minMaxFrameSize_eq : NetVerif.Gen.C08.minMaxFrameSize = minMaxFrame := rfl
theorem gen_maxFrameSize_eq : NetVerif.Gen.C08.maxFrameSize = maxMaxFrame := rfl

/-- `Setting.Valid` on SETTINGS_MAX_FRAME_SIZE: PROTOCOL_ERROR exactly outside 16384..2^24-1. -/
theorem gen_settingValid_mfs (v : Int) :
    NetVerif.Gen.C08.settingValid NetVerif.Gen.C08.settingMaxFrameSize v =
      some (if validMfs v then 0 else NetVerif.Gen.C08.errCodeProtocol) := by
  unfold NetVerif.Gen.C08.settingValid NetVerif.Gen.C08.settingMaxFrameSize NetVerif.Gen.C08.errCodeProtocol
    validMfs minMaxFrame maxMaxFrame
  by_cases h : 16384 ≤ v ∧ v ≤ 16777215
  · simp [h]
  · simp [h]

/-- `Setting.Valid` on SETTINGS_INITIAL_WINDOW_SIZE (a uint32): FLOW_CONTROL_ERROR exactly above 2^31-1. -/
theorem gen_settingValid_iw (v : Int) (h0 : 0 ≤ v) :
    NetVerif.Gen.C08.settingValid NetVerif.Gen.C08.settingInitialWindowSize v =
      some (if validIw v then 0 else NetVerif.Gen.C08.errCodeFlowControl) := by
  unfold NetVerif.Gen.C08.settingValid NetVerif.Gen.C08.settingInitialWindowSize NetVerif.Gen.C08.errCodeFlowControl
    validIw maxWindow
  by_cases h : v ≤ 2147483647
  · simp [h, h0]
  · simp [h]

/-- the `allowed` value of `Consume` as the model computes it -/
def allowedOf (available limit maxFrame : Int) : Int :=
  if maxFrame < (if limit < available then limit else available) then maxFrame
  else (if limit < available then limit else available)

theorem gen_consumeAllowed_eq (available limit maxFrame : Int) :
    NetVerif.Gen.C08.consumeAllowed available limit maxFrame = some (allowedOf available limit maxFrame) := by
  unfold NetVerif.Gen.C08.consumeAllowed allowedOf
  by_cases h1 : limit < available <;> simp only [h1, if_true, if_false] <;> split <;> rfl

/-- `Send.consume` is the Go control flow around the regenerated `allowed` computation. -/
theorem consume_eq_gen (s : Send) (sid len : Nat) (limit a : Int) (ea : tget s.wins sid = some a) (hl : len ≠ 0) :
    s.consume sid len limit =
      match NetVerif.Gen.C08.consumeAllowed (s.flow a).available limit s.maxFrame with
      | none => none
      | some allowed =>
        if allowed ≤ 0 then none
        else if (len : Int) > allowed then (s.take sid a allowed).map (fun s' => (allowed.toNat, s'))
        else (s.take sid a len).map (fun s' => (len, s')) := by
  rw [gen_consumeAllowed_eq]
  unfold Send.consume allowedOf
  simp only [ea, hl, if_false]

/-- the `take` value of `awaitFlowControl` as the model computes it -/
def awaitTakeOf (a maxBytes maxFrame : Int) : Int :=
  if (if a > maxBytes then maxBytes else a) > maxFrame then maxFrame else (if a > maxBytes then maxBytes else a)

theorem gen_awaitTake_eq (a maxBytes maxFrame : Int) :
    NetVerif.Gen.C08.awaitTake a maxBytes maxFrame = some (awaitTakeOf a maxBytes maxFrame) := by
  unfold NetVerif.Gen.C08.awaitTake awaitTakeOf
  by_cases h1 : a > maxBytes <;> simp only [h1, if_true, if_false] <;> split <;> rfl

theorem await_eq_gen (s : Send) (sid maxBytes : Nat) (a : Int) (ea : tget s.wins sid = some a) :
    s.await sid maxBytes =
      if (s.flow a).available > 0 then
        match NetVerif.Gen.C08.awaitTake (s.flow a).available maxBytes s.maxFrame with
        | none => none
        | some t => (s.take sid a t).map (fun s' => (t.toNat, s'))
      else none := by
  rw [gen_awaitTake_eq]
  unfold Send.await awaitTakeOf
  simp only [ea]

/-! ### flow.go: regenerated `outflow.available/take/add` = `Model.Flow.Outflow` -/

theorem gen_wrap32_eq (x : Int) : NetVerif.Gen.C08.Flow.wrap32 x = wrap32 x := rfl

/-- Encoding of `outflow.conn` for the translated functions: flag and counter. -/
def connFlag (f : Outflow) : Int := match f.conn with | some _ => 1 | none => 0
def connN (f : Outflow) : Int := match f.conn with | some c => c | none => 0

theorem gen_outflowAvailable_eq (f : Outflow) :
    NetVerif.Gen.C08.Flow.outflowAvailable f.n (connFlag f) (connN f) = some f.available := by
  unfold NetVerif.Gen.C08.Flow.outflowAvailable Outflow.available connFlag connN
  cases hc : f.conn with
  | none => simp
  | some c =>
    by_cases h : c < f.n <;> simp [h]

theorem gen_outflowTake_eq (f : Outflow) (n : Int) :
    NetVerif.Gen.C08.Flow.outflowTake f.n (connFlag f) (connN f) n =
      (f.take n).map (fun g => (g.n, connFlag g, connN g)) := by
  unfold NetVerif.Gen.C08.Flow.outflowTake NetVerif.Gen.C08.Flow.outflowAvailableD
  rw [gen_outflowAvailable_eq]
  unfold Outflow.take
  by_cases h : n > f.available
  · simp [h]
  · simp only [Option.getD_some, h, if_false, Option.map_some]
    unfold connFlag connN
    cases hc : f.conn with
    | none => simp [gen_wrap32_eq]
    | some c => simp [gen_wrap32_eq]

theorem gen_outflowAdd_eq (f : Outflow) (n : Int) :
    NetVerif.Gen.C08.Flow.outflowAdd f.n (connFlag f) (connN f) n =
      some ((f.add n).1, (f.add n).2.n, connFlag (f.add n).2, connN (f.add n).2) := by
  unfold NetVerif.Gen.C08.Flow.outflowAdd Outflow.add
  rw [gen_wrap32_eq]
  by_cases h : (decide (wrap32 (f.n + n) > n)) = (decide (f.n > 0))
  · simp only [h, if_true]
    rfl
  · simp only [h, if_false]

end NetVerif.Proofs.SendWinGen
