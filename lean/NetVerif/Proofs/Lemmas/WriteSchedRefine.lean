import NetVerif.Proofs.Lemmas.WriteSchedSpec
/-!
Refinement: every call of the round-robin, RFC 9218 and random scheduler models is a step of the
C12 specification (`StepSpec`) under the abstraction "queue of stream id = `(qs id).toList`".
-/
namespace NetVerif.Proofs.WriteSchedRefine
open NetVerif.Model.WriteSched NetVerif.Proofs.WriteSchedLemmas NetVerif.Proofs.WriteSchedSpec

theorem Abs.ext' {a b : Abs} (h1 : a.ctl = b.ctl) (h2 : ∀ x, a.q x = b.q x) : a = b := by
  cases a; cases b
  simp only [Abs.mk.injEq]
  exact ⟨h1, funext h2⟩

theorem shift_some {q q' : WQ} {f : Frame} (h : q.shift = some (f, q')) : q.toList = f :: q'.toList := by
  cases hl : q.toList with
  | nil => rw [shift_nil hl] at h; cases h
  | cons g rest =>
    obtain ⟨q2, hs, hq2⟩ := shift_cons hl
    rw [hs] at h
    cases h
    rw [hq2]

theorem shift_none {q : WQ} (h : q.shift = none) : q.toList = [] := by
  cases hl : q.toList with
  | nil => rfl
  | cons g rest =>
    obtain ⟨q2, hs, _⟩ := shift_cons hl
    rw [hs] at h
    cases h

def absOf (control : WQ) (qs : Nat → WQ) : Abs := ⟨control.toList, fun id => (qs id).toList⟩

/-- Control frames first. -/
theorem pop_ctl_spec {strict : Prop} {control c : WQ} {qs : Nat → WQ} {f : Frame} (e : Env) (h : control.shift = some (f, c)) :
    PopSpec strict e (absOf control qs) (.frame f) e (absOf c qs) := by
  have := shift_some h
  exact PopSpec.ctl (a := absOf control qs) (f := f) (rest := c.toList) this

/-- Serving a sendable stream queue is a `whole` or `split` step of the specification. -/
theorem pop_stream_spec {strict : Prop} {control : WQ} {qs : Nat → WQ} (e : Env) (hctl : control.toList = []) (id : Nat)
    (hs : sendable e (qs id) = true) :
    ∃ e' q' f, (qs id).consume e maxInt32 = (e', q', some f) ∧
      PopSpec strict e (absOf control qs) (.frame f) e' (absOf control (upd qs id q')) := by
  have hpos : (0 : Int) < maxInt32 := by decide
  cases hl : (qs id).toList with
  | nil =>
    have : sendable e (qs id) = false := (sendable_false_iff e).2 (Or.inl hl)
    rw [this] at hs; cases hs
  | cons h rest =>
    rcases wq_consume_cons e maxInt32 hl with ⟨e', h1, h2⟩ | ⟨e', q', h1, h2, h3⟩ | ⟨e', c, r, h1, h2, h3⟩
    · have : sendable e (qs id) = false := (sendable_false_iff e).2 (Or.inr ⟨h, rest, e', hl, h1⟩)
      rw [this] at hs; cases hs
    · refine ⟨e', q', h, h2, ?_⟩
      have hp := PopSpec.whole (strict := strict) (e := e) (a := absOf control qs) (id := id) hctl hl hpos h1
      have : absOf control (upd qs id q') = ⟨[], upd (absOf control qs).q id rest⟩ := by
        apply Abs.ext'
        · exact hctl
        · intro x; by_cases hx : x = id
          · subst hx; simp [absOf, upd, h3]
          · simp [absOf, upd, hx]
      rw [this]; exact hp
    · refine ⟨e', (qs id).setHead r, c, h2, ?_⟩
      have hp := PopSpec.split (strict := strict) (e := e) (a := absOf control qs) (id := id) hctl hl hpos h1
      have : absOf control (upd qs id ((qs id).setHead r)) = ⟨[], upd (absOf control qs).q id (r :: rest)⟩ := by
        apply Abs.ext'
        · exact hctl
        · intro x; by_cases hx : x = id
          · subst hx; simp [absOf, upd, h3]
          · simp [absOf, upd, hx]
      rw [this]; exact hp

/-- `Pop` may answer "nothing" when no stream queue is sendable. -/
theorem pop_none_spec {control : WQ} {qs : Nat → WQ} (e : Env) (hctl : control.toList = [])
    (hall : ∀ id, sendable e (qs id) = false) : PopSpec True e (absOf control qs) .none e (absOf control qs) := by
  apply PopSpec.none hctl
  intro _ id f rest hq
  rcases (sendable_false_iff e).1 (hall id) with h | ⟨f', rest', e', h1, h2⟩
  · simp [absOf] at hq; rw [h] at hq; cases hq
  · simp [absOf] at hq; rw [hq] at h1; cases h1; exact ⟨e', h2⟩

theorem sendable_false_of_nil {q : WQ} (e : Env) (h : q.toList = []) : sendable e q = false :=
  (sendable_false_iff e).2 (Or.inl h)

/-- Pushing: the abstraction appends to the right FIFO. -/
theorem absOf_push_ctl (control : WQ) (qs : Nat → WQ) (f : Frame) (hc : f.isControl = true) :
    absOf (control.push f) qs = (absOf control qs).applyOp (.push f) := by
  simp [Abs.applyOp, hc, absOf, push_toList]

theorem absOf_push_str (control : WQ) (qs : Nat → WQ) (f : Frame) (hc : f.isControl = false) :
    absOf control (upd qs f.streamID ((qs f.streamID).push f)) = (absOf control qs).applyOp (.push f) := by
  simp only [Abs.applyOp, hc, Bool.false_eq_true, if_false]
  refine Abs.ext' ?_ ?_
  · rfl
  intro x
  by_cases hx : x = f.streamID
  · subst hx; simp [absOf, upd, push_toList]
  · simp [absOf, upd, hx]

theorem absOf_clear (control : WQ) (qs : Nat → WQ) (id : Nat) :
    absOf control (upd qs id {}) = (absOf control qs).applyOp (.closeS id) := by
  simp only [Abs.applyOp]
  refine Abs.ext' ?_ ?_
  · rfl
  intro x
  by_cases hx : x = id
  · subst hx; simp [absOf, upd, empty_toList]
  · simp [absOf, upd, hx]

theorem absOf_clear_of_nil (control : WQ) (qs : Nat → WQ) (id : Nat) (h : (qs id).toList = []) :
    absOf control (upd qs id {}) = absOf control qs := by
  refine Abs.ext' ?_ ?_
  · rfl
  intro x
  by_cases hx : x = id
  · subst hx; simp [absOf, upd, empty_toList, h]
  · simp [absOf, upd, hx]

theorem pushOK_stream {opn : Nat → Bool} {f : Frame} (h : pushOK opn f) (hc : f.isControl = false) :
    opn f.streamID = true := isControl_streamID_of_pushOK h hc

/-! ### Round robin -/

def absRR (s : RR) : Abs := absOf s.control s.qs

structure RRInv (s : RR) (opn : Nat → Bool) : Prop where
  mem : ∀ id, id ∈ s.ring ↔ opn id = true
  nodup : s.ring.Nodup

theorem rr_step {s : RR} {opn : Nat → Bool} {op : Op} (e : Env)
    (hi : RRInv s opn) (hwf : AbsWF (absRR s) opn) (hok : OpOK opn op) :
    ∃ e' s' r, (Sched.rr s).step e op = (e', .rr s', r) ∧ StepSpec True e (absRR s) op r e' (absRR s') ∧
      RRInv s' (opnOp opn op) := by
  cases op with
  | win id d =>
    refine ⟨envOp e (.win id d), s, .ok, ?_, StepSpec.other (by simp), by simpa [opnOp] using hi⟩
    simp only [Sched.step, envOp]; split <;> rfl
  | maxframe n =>
    exact ⟨envOp e (.maxframe n), s, .ok, rfl, StepSpec.other (by simp), by simpa [opnOp] using hi⟩
  | adjust id d x w c =>
    exact ⟨e, s, .ok, rfl, StepSpec.other (by simp), by simpa [opnOp] using hi⟩
  | openS id p c =>
    have hnot : id ∉ s.ring := by
      intro h; have := (hi.mem id).1 h; rw [hok.2.1] at this; cases this
    refine ⟨e, { s with qs := upd s.qs id ({} : WQ), ring := s.ring ++ [id] }, .ok, ?_, ?_, ?_⟩
    · simp [Sched.step, RR.openStream, hnot]
    · have h := StepSpec.other (strict := True) (e := e) (a := absRR s) (op := .openS id p c) (by simp)
      have hq : (s.qs id).toList = [] := hwf.closed id hok.2.1
      have : absRR { s with qs := upd s.qs id ({} : WQ), ring := s.ring ++ [id] } = (absRR s).applyOp (.openS id p c) := by
        simp only [absRR, Abs.applyOp]; exact absOf_clear_of_nil _ _ _ hq
      rw [this]; exact h
    · constructor
      · intro x
        simp only [opnOp, List.mem_append, List.mem_singleton]
        by_cases hx : x = id
        · subst hx; simp [upd]
        · simp [upd, hx]; exact hi.mem x
      · simp only
        rw [List.nodup_append]
        refine ⟨hi.nodup, by simp, ?_⟩
        intro a ha b hb
        simp at hb; subst hb
        intro hab; subst hab; exact hnot ha
  | closeS id =>
    have hmem : id ∈ s.ring := (hi.mem id).2 hok
    refine ⟨e, { s with qs := upd s.qs id ({} : WQ), ring := s.ring.erase id }, .ok, ?_, ?_, ?_⟩
    · simp [Sched.step, RR.closeStream, hmem]
    · have h := StepSpec.other (strict := True) (e := e) (a := absRR s) (op := .closeS id) (by simp)
      have : absRR { s with qs := upd s.qs id ({} : WQ), ring := s.ring.erase id } = (absRR s).applyOp (.closeS id) := by
        simp only [absRR]; exact absOf_clear _ _ _
      rw [this]; exact h
    · constructor
      · intro x
        simp only [opnOp]
        by_cases hx : x = id
        · subst hx; simp [upd]; exact hi.nodup.not_mem_erase
        · simp [upd, hx, List.mem_erase_of_ne hx]; exact hi.mem x
      · exact hi.nodup.erase id
  | push f =>
    by_cases hc : f.isControl = true
    · refine ⟨e, { s with control := s.control.push f }, .ok, by simp [Sched.step, RR.push, hc], ?_, ⟨by simpa [opnOp] using hi.mem, hi.nodup⟩⟩
      have h := StepSpec.other (strict := True) (e := e) (a := absRR s) (op := .push f) (by simp)
      have : absRR { s with control := s.control.push f } = (absRR s).applyOp (.push f) := by
        simp only [absRR]; exact absOf_push_ctl _ _ _ hc
      rw [this]; exact h
    · have hc' : f.isControl = false := by simpa using hc
      have hmem : f.streamID ∈ s.ring := (hi.mem _).2 (pushOK_stream hok hc')
      refine ⟨e, { s with qs := upd s.qs f.streamID ((s.qs f.streamID).push f) }, .ok,
        by simp [Sched.step, RR.push, hc', hmem], ?_, ⟨by simpa [opnOp] using hi.mem, hi.nodup⟩⟩
      have h := StepSpec.other (strict := True) (e := e) (a := absRR s) (op := .push f) (by simp)
      have : absRR { s with qs := upd s.qs f.streamID ((s.qs f.streamID).push f) } = (absRR s).applyOp (.push f) := by
        simp only [absRR]; exact absOf_push_str _ _ _ hc'
      rw [this]; exact h
  | pop hint =>
    simp only [Sched.step, RR.pop, opnOp]
    cases hsh : s.control.shift with
    | some fc =>
      obtain ⟨f, c⟩ := fc
      exact ⟨e, { s with control := c }, .frame f, rfl, StepSpec.pop (pop_ctl_spec e hsh), ⟨hi.mem, hi.nodup⟩⟩
    | none =>
      have hctl := shift_none hsh
      cases hsp : splitFirst (fun id => sendable e (s.qs id)) s.ring with
      | none =>
        refine ⟨e, s, .none, rfl, StepSpec.pop ?_, hi⟩
        apply pop_none_spec e hctl
        intro id
        by_cases hm : id ∈ s.ring
        · exact splitFirst_none hsp id hm
        · apply sendable_false_of_nil
          apply hwf.closed id
          cases ho : opn id with
          | false => rfl
          | true => exact absurd ((hi.mem id).2 ho) hm
      | some t =>
        obtain ⟨pre, id, post⟩ := t
        obtain ⟨hring, hsend, _⟩ := splitFirst_some hsp
        obtain ⟨e', q', f, hcons, hps⟩ := pop_stream_spec (strict := True) (control := s.control) e hctl id hsend
        refine ⟨e', { s with qs := upd s.qs id q', ring := post ++ pre ++ [id] }, .frame f, ?_, StepSpec.pop hps, ?_⟩
        · simp [hcons]
        · constructor
          · intro x
            rw [← hi.mem x, hring]
            simp only [List.mem_append, List.mem_cons, List.mem_singleton, List.not_mem_nil, or_false]
            constructor
            · rintro ((h | h) | h) <;> simp [h]
            · rintro (h | h | h) <;> simp [h]
          · have hnd := hi.nodup
            rw [hring] at hnd
            have hperm : (post ++ pre ++ [id]).Perm (pre ++ id :: post) := by
              have h1 : (post ++ pre ++ [id]).Perm (post ++ (pre ++ [id])) := by simp
              have h2 : (post ++ (pre ++ [id])).Perm ((pre ++ [id]) ++ post) := List.perm_append_comm
              have h3 : ((pre ++ [id]) ++ post) = pre ++ id :: post := by simp
              exact h3 ▸ (h1.trans h2)
            exact hperm.nodup_iff.2 hnd

/-! ### RFC 9218 -/

def absP9 (s : P9218) : Abs := absOf s.control s.qs

structure P9Inv (s : P9218) (opn : Nat → Bool) : Prop where
  opn : ∀ id, (s.prio id).isSome = opn id
  cls : ∀ id c, s.prio id = some c → c < 16 ∧ id ∈ s.ring c
  buf : s.bufClass < 16

theorem classOrder_complete (pref : Nat → Bool) (c : Nat) (h : c < 16) : c ∈ classOrder pref := by
  simp only [classOrder, List.mem_flatMap, List.mem_range]
  refine ⟨c / 2, by omega, ?_⟩
  split <;> simp <;> omega

theorem firstClass_none {e : Env} {qs : Nat → WQ} {ring : Nat → List Nat} {cs : List Nat}
    (h : firstClass e qs ring cs = none) : ∀ c ∈ cs, ∀ id ∈ ring c, sendable e (qs id) = false := by
  induction cs with
  | nil => simp
  | cons c cs ih =>
    unfold firstClass at h
    split at h
    · cases h
    · rename_i hnone
      intro c' hc'
      simp at hc'
      rcases hc' with rfl | hc'
      · exact splitFirst_none hnone
      · exact ih h c' hc'

theorem firstClass_some {e : Env} {qs : Nat → WQ} {ring : Nat → List Nat} {cs : List Nat}
    {c id : Nat} {pre post : List Nat} (h : firstClass e qs ring cs = some (c, pre, id, post)) :
    c ∈ cs ∧ ring c = pre ++ id :: post ∧ sendable e (qs id) = true ∧ (∀ y ∈ pre, sendable e (qs y) = false) := by
  induction cs with
  | nil => simp [firstClass] at h
  | cons c0 cs ih =>
    unfold firstClass at h
    split at h
    · rename_i pre' id' post' hsome
      simp at h
      obtain ⟨rfl, rfl, rfl, rfl⟩ := h
      obtain ⟨h1, h2, h3⟩ := splitFirst_some hsome
      exact ⟨by simp, h1, h2, h3⟩
    · obtain ⟨h1, h2⟩ := ih h
      exact ⟨by simp [h1], h2⟩

theorem p9_step {s : P9218} {opn : Nat → Bool} {op : Op} (e : Env)
    (hi : P9Inv s opn) (hwf : AbsWF (absP9 s) opn) (hok : OpOK opn op) :
    ∃ e' s' r, (Sched.p9 s).step e op = (e', .p9 s', r) ∧ StepSpec True e (absP9 s) op r e' (absP9 s') ∧
      P9Inv s' (opnOp opn op) := by
  cases op with
  | win id d =>
    refine ⟨envOp e (.win id d), s, .ok, ?_, StepSpec.other (by simp), by simpa [opnOp] using hi⟩
    simp only [Sched.step, envOp]; split <;> rfl
  | maxframe n =>
    exact ⟨envOp e (.maxframe n), s, .ok, rfl, StepSpec.other (by simp), by simpa [opnOp] using hi⟩
  | openS id p c =>
    have hnone : s.prio id = none := by
      have := hi.opn id; rw [hok.2.1] at this
      cases hp : s.prio id with
      | none => rfl
      | some _ => rw [hp] at this; cases this
    let c' := if id = s.bufId then s.bufClass else c
    have hc' : c' < 16 := by
      simp only [c']; split
      · exact hi.buf
      · exact hok.2.2
    refine ⟨e, P9218.mk s.control (upd s.qs id ({} : WQ)) (upd s.ring c' (s.ring c' ++ [id])) (upd s.prio id (some c'))
      s.pref (if id = s.bufId then 0 else s.bufId) s.bufClass, .ok, ?_, ?_, ?_⟩
    · simp [Sched.step, P9218.openStream, hnone, c']
    · have h := StepSpec.other (strict := True) (e := e) (a := absP9 s) (op := .openS id p c) (by simp)
      have hq : (s.qs id).toList = [] := hwf.closed id hok.2.1
      have : absP9 (P9218.mk s.control (upd s.qs id ({} : WQ)) (upd s.ring c' (s.ring c' ++ [id])) (upd s.prio id (some c'))
                 s.pref (if id = s.bufId then 0 else s.bufId) s.bufClass)
             = (absP9 s).applyOp (.openS id p c) := by
        simp only [absP9, Abs.applyOp]; exact absOf_clear_of_nil _ _ _ hq
      rw [this]; exact h
    · refine ⟨?_, ?_, hi.buf⟩
      · intro x
        simp only [opnOp]
        by_cases hx : x = id
        · subst hx; simp [upd]
        · simp [upd, hx]; exact hi.opn x
      · intro x cx hpx
        by_cases hx : x = id
        · subst hx
          simp [upd] at hpx
          subst hpx
          exact ⟨hc', by simp [upd]⟩
        · simp [upd, hx] at hpx
          obtain ⟨h1, h2⟩ := hi.cls x cx hpx
          refine ⟨h1, ?_⟩
          simp only [upd]
          split
          · rename_i heq; subst heq; simp [h2]
          · exact h2
  | closeS id =>
    have hsome : (s.prio id).isSome = true := by rw [hi.opn id]; exact hok
    cases hp : s.prio id with
    | none => rw [hp] at hsome; cases hsome
    | some c =>
      refine ⟨e, { s with qs := upd s.qs id ({} : WQ), prio := upd s.prio id none,
                                       ring := upd s.ring c ((s.ring c).erase id) }, .ok, ?_, ?_, ?_⟩
      · simp [Sched.step, P9218.closeStream, hp]
      · have h := StepSpec.other (strict := True) (e := e) (a := absP9 s) (op := .closeS id) (by simp)
        have : absP9 { s with qs := upd s.qs id ({} : WQ), prio := upd s.prio id none,
                                       ring := upd s.ring c ((s.ring c).erase id) } = (absP9 s).applyOp (.closeS id) := by
          simp only [absP9]; exact absOf_clear _ _ _
        rw [this]; exact h
      · refine ⟨?_, ?_, hi.buf⟩
        · intro x
          simp only [opnOp]
          by_cases hx : x = id
          · subst hx; simp [upd]
          · simp [upd, hx]; exact hi.opn x
        · intro x cx hpx
          by_cases hx : x = id
          · subst hx; simp [upd] at hpx
          · simp [upd, hx] at hpx
            obtain ⟨h1, h2⟩ := hi.cls x cx hpx
            refine ⟨h1, ?_⟩
            simp only [upd]
            split
            · rename_i heq; subst heq; exact (List.mem_erase_of_ne hx).2 h2
            · exact h2
  | adjust id d x w c =>
    cases hp : s.prio id with
    | none =>
      refine ⟨e, { s with bufId := id, bufClass := c }, .ok, by simp [Sched.step, P9218.adjustStream, hp],
        StepSpec.other (by simp), ?_⟩
      exact ⟨by simpa [opnOp] using hi.opn, hi.cls, hok.2⟩
    | some c0 =>
      refine ⟨e, { s with ring := upd (upd s.ring c0 ((s.ring c0).erase id)) c
                            (upd s.ring c0 ((s.ring c0).erase id) c ++ [id]),
                                       prio := upd s.prio id (some c) }, .ok,
        by simp [Sched.step, P9218.adjustStream, hp], StepSpec.other (by simp), ?_⟩
      refine ⟨?_, ?_, hi.buf⟩
      · intro y
        simp only [opnOp]
        by_cases hy : y = id
        · subst hy; simp [upd]; rw [← hi.opn y, hp]; rfl
        · simp [upd, hy]; exact hi.opn y
      · intro y cy hpy
        by_cases hy : y = id
        · subst hy
          simp [upd] at hpy
          subst hpy
          exact ⟨hok.2, by simp [upd]⟩
        · simp [upd, hy] at hpy
          obtain ⟨h1, h2⟩ := hi.cls y cy hpy
          refine ⟨h1, ?_⟩
          have hmem1 : y ∈ upd s.ring c0 ((s.ring c0).erase id) cy := by
            simp only [upd]; split
            · rename_i heq; subst heq; exact (List.mem_erase_of_ne hy).2 h2
            · exact h2
          simp only [upd] at hmem1 ⊢
          split
          · rename_i heq; subst heq; simp only [List.mem_append]; left; exact hmem1
          · exact hmem1
  | push f =>
    by_cases hc : f.isControl = true
    · refine ⟨e, { s with control := s.control.push f }, .ok, by simp [Sched.step, P9218.push, hc], ?_,
        ⟨by simpa [opnOp] using hi.opn, hi.cls, hi.buf⟩⟩
      have h := StepSpec.other (strict := True) (e := e) (a := absP9 s) (op := .push f) (by simp)
      have : absP9 { s with control := s.control.push f } = (absP9 s).applyOp (.push f) := by
        simp only [absP9]; exact absOf_push_ctl _ _ _ hc
      rw [this]; exact h
    · have hc' : f.isControl = false := by simpa using hc
      have hsome : (s.prio f.streamID).isSome = true := by rw [hi.opn]; exact pushOK_stream hok hc'
      refine ⟨e, { s with qs := upd s.qs f.streamID ((s.qs f.streamID).push f) }, .ok,
        by simp [Sched.step, P9218.push, hc', hsome], ?_, ⟨by simpa [opnOp] using hi.opn, hi.cls, hi.buf⟩⟩
      have h := StepSpec.other (strict := True) (e := e) (a := absP9 s) (op := .push f) (by simp)
      have : absP9 { s with qs := upd s.qs f.streamID ((s.qs f.streamID).push f) } = (absP9 s).applyOp (.push f) := by
        simp only [absP9]; exact absOf_push_str _ _ _ hc'
      rw [this]; exact h
  | pop hint =>
    simp only [Sched.step, P9218.pop, opnOp]
    cases hsh : s.control.shift with
    | some fc =>
      obtain ⟨f, c⟩ := fc
      exact ⟨e, { s with control := c }, .frame f, rfl, StepSpec.pop (pop_ctl_spec e hsh), ⟨hi.opn, hi.cls, hi.buf⟩⟩
    | none =>
      have hctl := shift_none hsh
      cases hfc : firstClass e s.qs s.ring (classOrder s.pref) with
      | none =>
        refine ⟨e, s, .none, rfl, StepSpec.pop ?_, ⟨hi.opn, hi.cls, hi.buf⟩⟩
        apply pop_none_spec (control := s.control) e hctl
        intro id
        cases hp : s.prio id with
        | none =>
          apply sendable_false_of_nil
          apply hwf.closed id
          rw [← hi.opn id, hp]; rfl
        | some c =>
          obtain ⟨h1, h2⟩ := hi.cls id c hp
          exact firstClass_none hfc c (classOrder_complete _ c h1) id h2
      | some t =>
        obtain ⟨c, pre, id, post⟩ := t
        obtain ⟨_, hring, hsend, _⟩ := firstClass_some hfc
        obtain ⟨e', q', f, hcons, hps⟩ := pop_stream_spec (strict := True) (control := s.control) e hctl id hsend
        refine ⟨e', { s with pref := upd s.pref (c / 2) (c % 2 == 0), qs := upd s.qs id q',
                                         ring := upd s.ring c (if c % 2 = 1 then post ++ pre ++ [id] else id :: (post ++ pre)) },
                .frame f, ?_, StepSpec.pop hps, ?_⟩
        · simp [hcons]
        · refine ⟨hi.opn, ?_, hi.buf⟩
          intro y cy hpy
          obtain ⟨h1, h2⟩ := hi.cls y cy hpy
          refine ⟨h1, ?_⟩
          simp only [upd]
          split
          · rename_i heq; subst heq
            rw [hring] at h2
            simp only [List.mem_append, List.mem_cons] at h2
            split <;> simp only [List.mem_append, List.mem_cons, List.mem_singleton, List.not_mem_nil, or_false]
            · rcases h2 with h | h | h <;> simp [h]
            · rcases h2 with h | h | h <;> simp [h]
          · exact h2

/-! ### Random -/

def absRand (s : Rand) : Abs := absOf s.zero s.qs

def RandInv (s : Rand) : Prop := ∀ id, id ∉ s.sq → (s.qs id).toList = []

theorem rand_step {s : Rand} {opn : Nat → Bool} {op : Op} (e : Env)
    (hi : RandInv s) (hok : OpOK opn op) :
    ∃ e' s' r, (Sched.rnd s).step e op = (e', .rnd s', r) ∧ StepSpec True e (absRand s) op r e' (absRand s') ∧
      RandInv s' := by
  cases op with
  | win id d =>
    refine ⟨envOp e (.win id d), s, .ok, ?_, StepSpec.other (by simp), hi⟩
    simp only [Sched.step, envOp]; split <;> rfl
  | maxframe n => exact ⟨envOp e (.maxframe n), s, .ok, rfl, StepSpec.other (by simp), hi⟩
  | adjust id d x w c => exact ⟨e, s, .ok, rfl, StepSpec.other (by simp), hi⟩
  | openS id p c => exact ⟨e, s, .ok, rfl, StepSpec.other (by simp), hi⟩
  | closeS id =>
    by_cases hm : id ∈ s.sq
    · refine ⟨e, { s with qs := upd s.qs id ({} : WQ), sq := s.sq.erase id }, .ok, by simp [Sched.step, Rand.closeStream, hm], ?_, ?_⟩
      · have h := StepSpec.other (strict := True) (e := e) (a := absRand s) (op := .closeS id) (by simp)
        have : absRand { s with qs := upd s.qs id ({} : WQ), sq := s.sq.erase id } = (absRand s).applyOp (.closeS id) := by
          simp only [absRand]; exact absOf_clear _ _ _
        rw [this]; exact h
      · intro x hx
        by_cases hxi : x = id
        · subst hxi; simp [upd, empty_toList]
        · simp only [upd, hxi, if_false]
          apply hi x
          intro hmem; exact hx ((List.mem_erase_of_ne hxi).2 hmem)
    · refine ⟨e, s, .ok, by simp [Sched.step, Rand.closeStream, hm], ?_, hi⟩
      have h := StepSpec.other (strict := True) (e := e) (a := absRand s) (op := .closeS id) (by simp)
      have : absRand s = (absRand s).applyOp (.closeS id) := by
        have h1 := absOf_clear s.zero s.qs id
        have h2 := absOf_clear_of_nil s.zero s.qs id (hi id hm)
        simp only [absRand]; rw [← h1, h2]
      rw [← this] at h; exact h
  | push f =>
    by_cases hc : f.isControl = true
    · refine ⟨e, { s with zero := s.zero.push f }, .ok, by simp [Sched.step, Rand.push, hc], ?_, hi⟩
      have h := StepSpec.other (strict := True) (e := e) (a := absRand s) (op := .push f) (by simp)
      have : absRand { s with zero := s.zero.push f } = (absRand s).applyOp (.push f) := by
        simp only [absRand]; exact absOf_push_ctl _ _ _ hc
      rw [this]; exact h
    · have hc' : f.isControl = false := by simpa using hc
      by_cases hm : f.streamID ∈ s.sq
      · refine ⟨e, { s with qs := upd s.qs f.streamID ((s.qs f.streamID).push f) }, .ok,
          by simp [Sched.step, Rand.push, hc', hm], ?_, ?_⟩
        · have h := StepSpec.other (strict := True) (e := e) (a := absRand s) (op := .push f) (by simp)
          have : absRand { s with qs := upd s.qs f.streamID ((s.qs f.streamID).push f) } = (absRand s).applyOp (.push f) := by
            simp only [absRand]; exact absOf_push_str _ _ _ hc'
          rw [this]; exact h
        · intro x hx
          have hxi : x ≠ f.streamID := by intro h; subst h; exact hx hm
          simp only [upd, hxi, if_false]; exact hi x hx
      · refine ⟨e, { s with qs := upd s.qs f.streamID (WQ.push {} f), sq := f.streamID :: s.sq }, .ok,
          by simp [Sched.step, Rand.push, hc', hm], ?_, ?_⟩
        · have h := StepSpec.other (strict := True) (e := e) (a := absRand s) (op := .push f) (by simp)
          have : absRand { s with qs := upd s.qs f.streamID (WQ.push {} f), sq := f.streamID :: s.sq }
              = (absRand s).applyOp (.push f) := by
            simp only [absRand, Abs.applyOp, hc', Bool.false_eq_true, if_false]
            refine Abs.ext' ?_ ?_
            · rfl
            intro x
            by_cases hx : x = f.streamID
            · subst hx; simp [absOf, upd, push_toList, hi _ hm, empty_toList]
            · simp [absOf, upd, hx]
          rw [this]; exact h
        · intro x hx
          simp only [List.mem_cons, not_or] at hx
          simp only [upd, hx.1, if_false]; exact hi x hx.2
  | pop hint =>
    simp only [Sched.step, Rand.pop]
    cases hsh : s.zero.shift with
    | some fc =>
      obtain ⟨f, c⟩ := fc
      exact ⟨e, { s with zero := c }, .frame f, rfl, StepSpec.pop (pop_ctl_spec e hsh), hi⟩
    | none =>
      have hctl := shift_none hsh
      cases hint with
      | none =>
        by_cases hany : s.sq.any (fun id => sendable e (s.qs id)) = true
        · exact ⟨e, s, .reject, by simp [hany], StepSpec.reject, hi⟩
        · refine ⟨e, s, .none, by simp [hany], StepSpec.pop ?_, hi⟩
          apply pop_none_spec (control := s.zero) e hctl
          intro id
          by_cases hm : id ∈ s.sq
          · simp only [List.any_eq_true, not_exists, not_and, Bool.not_eq_true] at hany
            exact hany id hm
          · exact sendable_false_of_nil e (hi id hm)
      | some id =>
        by_cases hm : id ∈ s.sq
        · cases hsend : sendable e (s.qs id) with
          | false =>
            refine ⟨e, s, .reject, ?_, StepSpec.reject, hi⟩
            simp only [hm, if_true]
            unfold sendable at hsend
            rcases hcq : (s.qs id).consume e maxInt32 with ⟨e1, q1, o1⟩
            rw [hcq] at hsend
            cases o1 with
            | none => rfl
            | some _ => simp at hsend
          | true =>
            obtain ⟨e', q', f, hcons, hps⟩ := pop_stream_spec (strict := True) (control := s.zero) e hctl id hsend
            by_cases hemp : q'.isEmpty = true
            · refine ⟨e', { s with qs := upd s.qs id ({} : WQ), sq := s.sq.erase id }, .frame f, by simp [hm, hcons, hemp],
                StepSpec.pop ?_, ?_⟩
              · have : absRand { s with qs := upd s.qs id ({} : WQ), sq := s.sq.erase id } = absOf s.zero (upd s.qs id q') := by
                  refine Abs.ext' ?_ ?_
                  · rfl
                  intro x
                  by_cases hx : x = id
                  · subst hx; simp [absRand, absOf, upd, (isEmpty_iff q').1 hemp, empty_toList]
                  · simp [absRand, absOf, upd, hx]
                rw [this]; exact hps
              · intro x hx
                by_cases hxi : x = id
                · subst hxi; simp [upd, empty_toList]
                · simp only [upd, hxi, if_false]
                  apply hi x
                  intro hmem; exact hx ((List.mem_erase_of_ne hxi).2 hmem)
            · refine ⟨e', { s with qs := upd s.qs id q' }, .frame f, by simp [hm, hcons, hemp], StepSpec.pop hps, ?_⟩
              intro x hx
              have hxi : x ≠ id := by intro h; subst h; exact hx hm
              simp only [upd, hxi, if_false]; exact hi x hx
        · exact ⟨e, s, .reject, by simp [hm], StepSpec.reject, hi⟩

end NetVerif.Proofs.WriteSchedRefine
