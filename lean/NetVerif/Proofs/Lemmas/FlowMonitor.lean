import NetVerif.Model.FlowMonitor
/-!
Invariants of the trace monitor `Model.FlowMonitor` (used by C10 part B and C11).
-/
namespace NetVerif.Proofs.FlowMon
open NetVerif.Model.Flow NetVerif.Model.FlowMonitor

theorem findStream_mem (ss : List StreamSt) (sid : Nat) (st : StreamSt) (h : findStream ss sid = some st) :
    st ∈ ss := by
  unfold findStream at h
  exact List.mem_of_find?_eq_some h

/-- `updStream` changes at most the stream `findStream` returns. -/
theorem updStream_forall (P : StreamSt → Prop) (ss : List StreamSt) (sid : Nat) (f : StreamSt → StreamSt)
    (h : ∀ s ∈ ss, P s) (hf : ∀ st, findStream ss sid = some st → P (f st)) :
    ∀ s ∈ updStream ss sid f, P s := by
  induction ss with
  | nil => intro s hs; simp [updStream] at hs
  | cons a rest ih =>
    intro s hs
    unfold updStream at hs
    by_cases ha : (a.id == sid) = true
    · simp only [ha, if_true] at hs
      rcases List.mem_cons.mp hs with h1 | h1
      · subst h1
        exact hf a (by simp [findStream, List.find?, ha])
      · exact h s (List.mem_cons_of_mem _ h1)
    · simp only [ha] at hs
      rcases List.mem_cons.mp hs with h1 | h1
      · subst h1; exact h _ (List.mem_cons_self ..)
      · refine ih (fun s hs => h s (List.mem_cons_of_mem _ hs)) ?_ s h1
        intro st hst
        apply hf
        have : (a.id == sid) = false := by simpa using ha
        simp [findStream, List.find?, this]
        exact hst

/-- Per-stream invariant: window within 2^31-1, and the application never got more than was accepted. -/
def SInv (s : StreamSt) : Prop := s.win ≤ maxWindow ∧ s.delivered ≤ s.bodyBytes ∧ 0 ≤ s.short

theorem advWin_spec (m : Mon) (h : m.streamInit ≤ maxWindow) :
    advWin m ≤ maxWindow ∧ 0 ≤ advWin m - m.streamInit := by
  unfold advWin initialWindowSize
  unfold maxWindow at *
  split
  · omega
  · split <;> omega

structure MInv (m : Mon) : Prop where
  conn_le : m.conn ≤ maxWindow
  init_le : m.streamInit ≤ maxWindow
  streams : ∀ s ∈ m.streams, SInv s
  /-- the monitor's window is literally 65535 + Σ WINDOW_UPDATE(0) − Σ DATA within the windows -/
  ghost : m.conn = initialWindowSize + m.sumWU - m.sumData

theorem minv_init : MInv Mon.init := by
  constructor <;> simp [Mon.init, initialWindowSize, maxWindow]

theorem flowLen_nonneg (len pad : Int) (h1 : ¬ (len < 0 ∨ pad < -1)) : 0 ≤ flowLen len pad := by
  unfold flowLen
  split <;> omega

theorem setStatus_inv (m : Mon) (sid : Nat) (st : SStatus) (h : MInv m) : MInv (setStatus m sid st) := by
  obtain ⟨h1, h2, h3, h4⟩ := h
  refine ⟨h1, h2, ?_, h4⟩
  apply updStream_forall SInv _ _ _ h3
  intro s hs
  exact h3 s (findStream_mem _ _ _ hs)

theorem updStatus_inv (ss : List StreamSt) (sid : Nat) (g : StreamSt → SStatus) (h3 : ∀ s ∈ ss, SInv s) :
    ∀ s ∈ updStream ss sid (fun s => { s with status := g s }), SInv s := by
  apply updStream_forall SInv _ _ _ h3
  intro s hs
  exact h3 s (findStream_mem _ _ _ hs)

theorem connOnlyAct_inv (m : Mon) (sid : Nat) (L : Int) (hL : 0 ≤ L) (h : MInv m) :
    MInv (connOnlyAct m sid L).m := by
  obtain ⟨h1, h2, h3, h4⟩ := h
  unfold connOnlyAct
  split
  · exact ⟨h1, h2, h3, h4⟩
  · refine ⟨by simp only; omega, h2, ?_, by simp only; omega⟩
    exact updStatus_inv _ _ (fun _ => .closed) h3

theorem dataAct_inv (m : Mon) (sid : Nat) (len pad : Int) (es : Bool) (h : MInv m) :
    MInv (dataAct m sid len pad es).m := by
  have h0 := h
  obtain ⟨h1, h2, h3, h4⟩ := h
  unfold dataAct
  by_cases hv : len < 0 ∨ pad < -1
  · simp only [hv, if_true]
    exact ⟨h1, h2, h3, h4⟩
  · have hL := flowLen_nonneg len pad hv
    simp only [hv, if_false]
    cases hf : findStream m.streams sid with
    | none => exact ⟨h1, h2, h3, h4⟩
    | some st =>
      have hst := h3 st (findStream_mem _ _ _ hf)
      have connOnly := connOnlyAct_inv m sid (flowLen len pad) hL h0
      simp only
      cases hs : st.status with
      | closed => exact connOnly
      | halfRemote => exact connOnly
      | preHeaders => exact connOnly
      | open_ =>
        simp only
        split
        · exact connOnly
        · split
          · refine ⟨h1, h2, ?_, h4⟩
            exact updStatus_inv _ _ (fun s => if es then endedStatus m s else s.status) h3
          · split
            · exact connOnly
            · split
              · exact ⟨h1, h2, h3, h4⟩
              · unfold acceptAct
                refine ⟨by simp only; omega, h2, ?_, by simp only; omega⟩
                apply updStream_forall SInv _ _ _ h3
                intro s hs'
                have := h3 s (findStream_mem _ _ _ hs')
                unfold SInv at *
                simp only
                refine ⟨by omega, ?_, by omega⟩
                split <;> omega

theorem actStep_inv (m : Mon) (a : Act) (h : MInv m) : MInv (actStep m a).m := by
  cases a with
  | reset c s =>
    simp only [actStep]
    split
    · constructor <;> simp [Mon.init, initialWindowSize, maxWindow]
    · rename_i hs
      constructor <;> simp [Mon.init, initialWindowSize, maxWindow] <;> (try (unfold maxWindow at hs; omega))
  | ereset c s =>
    simp only [actStep]
    split
    · constructor <;> simp [Mon.init, initialWindowSize, maxWindow]
    · rename_i hs
      constructor <;> simp [Mon.init, initialWindowSize, maxWindow] <;> (try (unfold maxWindow at hs; omega))
  | ack =>
    simp only [actStep]
    split
    · exact h
    · obtain ⟨h1, h2, h3, h4⟩ := h
      refine ⟨h1, h2, ?_, h4⟩
      intro s hs
      simp only [List.mem_map] at hs
      obtain ⟨a, ha, e⟩ := hs
      subst e
      have := h3 a ha
      unfold SInv at *
      simp only
      omega
  | hdr sid cl es =>
    simp only [actStep]
    obtain ⟨h1, h2, h3, h4⟩ := h
    split
    · exact ⟨h1, h2, h3, h4⟩
    · split
      · refine ⟨h1, h2, ?_, h4⟩
        intro s hs
        rcases List.mem_cons.mp hs with e | e
        · subst e
          exact ⟨(advWin_spec m h2).1, by simp, (advWin_spec m h2).2⟩
        · exact h3 s e
      · refine ⟨h1, h2, ?_, h4⟩
        intro s hs
        rcases List.mem_cons.mp hs with e | e
        · subst e
          exact ⟨(advWin_spec m h2).1, by simp, (advWin_spec m h2).2⟩
        · exact h3 s e
  | shutdown sid =>
    simp only [actStep]
    obtain ⟨h1, h2, h3, h4⟩ := h
    split
    · exact ⟨h1, h2, h3, h4⟩
    · refine ⟨h1, h2, ?_, h4⟩
      intro s hs
      rcases List.mem_cons.mp hs with e | e
      · subst e
        exact ⟨(advWin_spec m h2).1, by simp, (advWin_spec m h2).2⟩
      · exact h3 s e
  | treset c s =>
    simp only [actStep]
    split
    · constructor <;> simp [Mon.init, initialWindowSize, maxWindow]
    · rename_i hs
      constructor <;> (try simp [Mon.init, initialWindowSize, maxWindow, SInv]) <;> (try (unfold maxWindow at hs; omega))
  | req sid kind =>
    simp only [actStep]
    obtain ⟨h1, h2, h3, h4⟩ := h
    split
    · exact ⟨h1, h2, h3, h4⟩
    · refine ⟨h1, h2, ?_, h4⟩
      intro s hs
      rcases List.mem_cons.mp hs with e | e
      · subst e
        exact ⟨h2, by simp, by simp⟩
      · exact h3 s e
  | rhdr sid es =>
    obtain ⟨h1, h2, h3, h4⟩ := h
    refine ⟨h1, h2, ?_, h4⟩
    apply updStream_forall SInv _ _ _ h3
    intro s hs
    have := h3 s (findStream_mem _ _ _ hs)
    by_cases hp : s.status = .preHeaders
    · simp only [hp, if_true]; exact this
    · simp only [hp, if_false]; exact this
  | data sid len pad es => exact dataAct_inv m sid len pad es h
  | read _ => exact h
  | bclose sid =>
    simp only [actStep]
    split
    · exact setStatus_inv m sid _ h
    obtain ⟨h1, h2, h3, h4⟩ := h
    refine ⟨h1, h2, ?_, h4⟩
    apply updStream_forall SInv _ _ _ h3
    intro s hs
    exact h3 s (findStream_mem _ _ _ hs)
  | hexit sid => exact setStatus_inv m sid _ h
  | crst sid => exact setStatus_inv m sid _ h
  | quiesce => exact h

theorem obsStep_inv (fc : Option Nat) (m m' : Mon) (o : Obs) (h : MInv m) (hs : obsStep fc m o = .ok m') :
    MInv m' := by
  obtain ⟨h1, h2, h3, h4⟩ := h
  cases o with
  | set v =>
    simp only [obsStep] at hs
    split at hs
    · cases hs
    · rename_i hv
      cases hs
      exact ⟨h1, by simp only; omega, h3, h4⟩
  | wu sid n =>
    simp only [obsStep] at hs
    split at hs
    · split at hs
      · cases hs
      · split at hs
        · cases hs
        · cases hs
          exact ⟨by simp only; omega, h2, h3, by simp only; omega⟩
    · cases hf : findStream m.streams sid with
      | none => simp only [hf] at hs; cases hs; exact ⟨h1, h2, h3, h4⟩
      | some st =>
        simp only [hf] at hs
        split at hs
        · cases hs
        · rename_i hw
          cases hs
          refine ⟨h1, h2, ?_, h4⟩
          apply updStream_forall SInv _ _ _ h3
          intro s hs'
          have e : s = st := by rw [hf] at hs'; exact (Option.some.inj hs').symm
          subst e
          have := h3 s (findStream_mem _ _ _ hf)
          unfold SInv at *
          simp only
          omega
  | rst sid code =>
    simp only [obsStep] at hs
    split at hs
    · cases hs
    · cases hs; exact setStatus_inv m sid _ ⟨h1, h2, h3, h4⟩
  | goaway code =>
    simp only [obsStep] at hs
    split at hs
    · cases hs
    · cases hs; exact ⟨h1, h2, h3, h4⟩
  | rd sid n =>
    simp only [obsStep] at hs
    cases hf : findStream m.streams sid with
    | none => simp only [hf] at hs; cases hs; exact ⟨h1, h2, h3, h4⟩
    | some st =>
      simp only [hf] at hs
      split at hs
      · cases hs
      · split at hs
        · cases hs
        · rename_i hn hd
          have hstr : ∀ s ∈ updStream m.streams sid (fun s => { s with delivered := s.delivered + n }), SInv s := by
            apply updStream_forall SInv _ _ _ h3
            intro s hs'
            have e : s = st := by rw [hf] at hs'; exact (Option.some.inj hs').symm
            subst e
            have := h3 s (findStream_mem _ _ _ hf)
            unfold SInv at *
            simp only
            omega
          cases hs
          exact ⟨h1, h2, hstr, h4⟩
  | crst sid => simp only [obsStep] at hs; cases hs; exact setStatus_inv m sid _ ⟨h1, h2, h3, h4⟩
  | connerr code =>
    simp only [obsStep] at hs
    split at hs
    · cases hs
    · cases hs; exact ⟨h1, h2, h3, h4⟩
  | closed => simp only [obsStep] at hs; cases hs; exact ⟨h1, h2, h3, h4⟩
  | skipped => simp only [obsStep] at hs; cases hs; exact ⟨h1, h2, h3, h4⟩
  | other => simp only [obsStep] at hs; cases hs; exact ⟨h1, h2, h3, h4⟩

theorem obsFold_inv (fc : Option Nat) (obs : List Obs) (m m' : Mon) (h : MInv m) (hs : obsFold fc m obs = .ok m') :
    MInv m' := by
  induction obs generalizing m with
  | nil => simp only [obsFold] at hs; cases hs; exact h
  | cons o rest ih =>
    simp only [obsFold] at hs
    split at hs
    · cases hs; exact h
    · cases ho : obsStep fc m o with
      | error e => simp only [ho] at hs; cases hs
      | ok m1 =>
        simp only [ho] at hs
        exact ih m1 (obsStep_inv fc m m1 o h ho) hs

theorem finishLine_inv (act : Act) (m m' : Mon) (h : MInv m) (hs : finishLine act m = .ok m') : MInv m' := by
  obtain ⟨h1, h2, h3, h4⟩ := h
  unfold finishLine at hs
  split at hs
  · split at hs
    · cases hs
      refine ⟨h1, h2, ?_, h4⟩
      intro s hs'
      simp only [List.mem_map] at hs'
      obtain ⟨a, ha, e⟩ := hs'
      subst e
      exact h3 a ha
    · split at hs <;> cases hs
  · cases hs; exact ⟨h1, h2, h3, h4⟩

theorem liveLine_inv (m m' : Mon) (act : Act) (obs : List Obs) (h : MInv m) (hs : liveLine m act obs = .ok m') :
    MInv m' := by
  unfold liveLine at hs
  have ha := actStep_inv m act h
  simp only at hs
  split at hs
  · cases hs; exact ha
  · split at hs
    · split at hs
      · cases hs
      · exact obsFold_inv _ _ _ _ (setStatus_inv _ _ _ ha) hs
    · cases hf : obsFold none (actStep m act).m obs with
      | error e => simp only [hf] at hs; cases hs
      | ok m1 =>
        simp only [hf] at hs
        exact finishLine_inv act m1 m' (obsFold_inv _ _ _ _ ha hf) hs

theorem resetLine_inv (m m' : Mon) (l : Line) (h : MInv m) (hs : resetLine m l = .ok m') : MInv m' := by
  unfold resetLine at hs
  cases hf : obsFold none (actStep m l.act).m l.obs with
  | error e => simp only [hf] at hs; cases hs
  | ok m1 =>
    simp only [hf] at hs
    split at hs
    · cases hs; exact obsFold_inv _ _ _ _ (actStep_inv m l.act h) hf
    · cases hs

theorem lineStep_inv (m m' : Mon) (l : Line) (h : MInv m) (hs : lineStep m l = .ok m') : MInv m' := by
  unfold lineStep at hs
  split at hs
  · exact resetLine_inv m m' l h hs
  · exact resetLine_inv m m' l h hs
  · exact resetLine_inv m m' l h hs
  · split at hs
    · cases hs; exact h
    · split at hs
      · cases hs; exact h
      · exact liveLine_inv m m' _ _ h hs

theorem run_inv (tr : List Line) (m m' : Mon) (h : MInv m) (hs : run m tr = .ok m') : MInv m' := by
  induction tr generalizing m with
  | nil => simp only [run] at hs; cases hs; exact h
  | cons l rest ih =>
    simp only [run] at hs
    cases hl : lineStep m l with
    | error e => simp only [hl] at hs; cases hs
    | ok m1 => simp only [hl] at hs; exact ih m1 (lineStep_inv m m1 l h hl) hs

/-- Every prefix of an accepted trace is accepted. -/
theorem run_append (a b : List Line) (m m' : Mon) (hs : run m (a ++ b) = .ok m') :
    ∃ m1, run m a = .ok m1 ∧ run m1 b = .ok m' := by
  induction a generalizing m with
  | nil => exact ⟨m, rfl, hs⟩
  | cons l rest ih =>
    simp only [List.cons_append, run] at hs ⊢
    cases hl : lineStep m l with
    | error e => simp only [hl] at hs; cases hs
    | ok m1 => simp only [hl] at hs ⊢; exact ih m1 hs

/-! ### FLOW_CONTROL_ERROR only where the monitor expects it -/

theorem obsFold_fc (fc : Option Nat) (obs : List Obs) (m m' : Mon) (hs : obsFold fc m obs = .ok m')
    (hd : m'.dead = false) (sid : Nat) (hmem : Obs.rst sid errFlowControl ∈ obs) : fc = some sid := by
  induction obs generalizing m with
  | nil => cases hmem
  | cons o rest ih =>
    simp only [obsFold] at hs
    split at hs
    · rename_i hdead
      cases hs
      rw [hd] at hdead
      cases hdead
    · cases ho : obsStep fc m o with
      | error e => simp only [ho] at hs; cases hs
      | ok m1 =>
        simp only [ho] at hs
        rcases List.mem_cons.mp hmem with e | e
        · subst e
          simp only [obsStep] at ho
          split at ho
          · cases ho
          · rename_i hc
            by_cases hfc : fc = some sid
            · exact hfc
            · exact absurd (And.intro (by trivial) hfc) hc
        · exact ih m1 hs e

/-- Every FLOW_CONTROL_ERROR observation the monitor processes is checked against the stream
(0 = connection) on which the current line's DATA frame exceeded a window. -/
theorem obsStep_fc (fc : Option Nat) (m m' : Mon) :
    (∀ sid, obsStep fc m (.rst sid errFlowControl) = .ok m' → fc = some sid) ∧
    (obsStep fc m (.goaway errFlowControl) = .ok m' → fc = some 0) ∧
    (obsStep fc m (.connerr errFlowControl) = .ok m' → fc = some 0) := by
  refine ⟨fun sid ho => ?_, fun ho => ?_, fun ho => ?_⟩
  · simp only [obsStep] at ho
    split at ho
    · cases ho
    · rename_i hc
      by_cases hfc : fc = some sid
      · exact hfc
      · exact absurd (And.intro (by trivial) hfc) hc
  · simp only [obsStep] at ho
    split at ho
    · cases ho
    · rename_i hc
      by_cases hfc : fc = some 0
      · exact hfc
      · exact absurd (And.intro (by trivial) hfc) hc
  · simp only [obsStep] at ho
    split at ho
    · cases ho
    · rename_i hc
      by_cases hfc : fc = some 0
      · exact hfc
      · exact absurd (And.intro (by trivial) hfc) hc

/-- Unless the line's DATA frame exceeded a window of a Transport (`fc = some 0`), a trace
line that leaves the connection alive shows no connection-level FLOW_CONTROL_ERROR. -/
theorem obsFold_no_conn_fc (fc : Option Nat) (obs : List Obs) (m m' : Mon) (hs : obsFold fc m obs = .ok m')
    (hd : m'.dead = false) (hfc : fc ≠ some 0) :
    Obs.goaway errFlowControl ∉ obs ∧ Obs.connerr errFlowControl ∉ obs := by
  induction obs generalizing m with
  | nil => simp
  | cons o rest ih =>
    simp only [obsFold] at hs
    split at hs
    · rename_i hdead
      cases hs
      rw [hd] at hdead
      cases hdead
    · cases ho : obsStep fc m o with
      | error e => simp only [ho] at hs; cases hs
      | ok m1 =>
        simp only [ho] at hs
        have ih' := ih m1 hs
        constructor
        · intro hmem
          rcases List.mem_cons.mp hmem with e | e
          · subst e
            exact hfc ((obsStep_fc fc m m1).2.1 ho)
          · exact ih'.1 e
        · intro hmem
          rcases List.mem_cons.mp hmem with e | e
          · subst e
            exact hfc ((obsStep_fc fc m m1).2.2 ho)
          · exact ih'.2 e

end NetVerif.Proofs.FlowMon
