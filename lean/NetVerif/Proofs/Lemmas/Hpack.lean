import NetVerif.Model.Hpack
/-!
Lemmas about the HPACK decoder model shared by C02 and C03:
* parsers are *stable under extension of the buffer* (`Stable`): a result obtained on a prefix
  (value or non-`needMore` error) is the result on every extension;
* the `Write` loop: fuel irrelevance, unfolding equation, behaviour on `p ++ q`.
-/
namespace NetVerif.Proofs.Lemmas.Hpack
open NetVerif.Model.Hpack
open NetVerif.Model

/-! ### Stability of parsers -/

def Stable {α : Type} (p : Parser α) : Prop :=
  ∀ buf q, (∀ a rest, p buf = .ok (a, rest) → p (buf ++ q) = .ok (a, rest ++ q)) ∧
    (∀ e, p buf = .error e → e ≠ .needMore → p (buf ++ q) = .error e)

theorem stable_pure {α : Type} (a : α) : Stable (Parser.pure a) := by
  intro buf q
  constructor
  · intro a' rest h
    simp only [Parser.pure, Except.ok.injEq, Prod.mk.injEq] at h ⊢
    exact ⟨h.1, by rw [h.2]⟩
  · intro e h; simp [Parser.pure] at h

theorem stable_fail {α : Type} (e : PErr) : Stable (Parser.fail e : Parser α) := by
  intro buf q
  constructor
  · intro a rest h; simp [Parser.fail] at h
  · intro e' h _; simpa [Parser.fail] using h

theorem stable_bind {α β : Type} (p : Parser α) (f : α → Parser β)
    (hp : Stable p) (hf : ∀ a, Stable (f a)) : Stable (p.bind f) := by
  intro buf q
  constructor
  · intro b rest h
    simp only [Parser.bind] at h ⊢
    cases hpb : p buf with
    | error e => rw [hpb] at h; simp at h
    | ok ar =>
      obtain ⟨a, r⟩ := ar
      rw [hpb] at h
      simp only at h
      rw [(hp buf q).1 a r hpb]
      exact ((hf a) r q).1 b rest h
  · intro e h hne
    simp only [Parser.bind] at h ⊢
    cases hpb : p buf with
    | error e' =>
      rw [hpb] at h
      simp only [Except.error.injEq] at h
      subst h
      rw [(hp buf q).2 e' hpb hne]
    | ok ar =>
      obtain ⟨a, r⟩ := ar
      rw [hpb] at h
      simp only at h
      rw [(hp buf q).1 a r hpb]
      exact ((hf a) r q).2 e h hne

theorem stable_readVarIntLoop (i m : Nat) : Stable (fun buf => readVarIntLoop buf i m) := by
  intro buf
  induction buf generalizing i m with
  | nil =>
    intro q
    constructor
    · intro a rest h; simp [readVarIntLoop] at h
    · intro e h hne; simp only [readVarIntLoop, Except.error.injEq] at h; exact absurd h.symm hne
  | cons b p ih =>
    intro q
    simp only [List.cons_append, readVarIntLoop]
    split
    · constructor
      · intro a rest h
        simp only [Except.ok.injEq, Prod.mk.injEq] at h ⊢
        exact ⟨h.1, by rw [h.2]⟩
      · intro e h; simp at h
    · split
      · constructor
        · intro a rest h; simp at h
        · intro e h _; exact h
      · exact ih _ _ q

theorem stable_readVarInt (n : Nat) : Stable (readVarInt n) := by
  intro buf q
  cases buf with
  | nil =>
    constructor
    · intro a rest h; simp [readVarInt] at h
    · intro e h hne; simp only [readVarInt, Except.error.injEq] at h; exact absurd h.symm hne
  | cons b p =>
    simp only [List.cons_append, readVarInt]
    generalize (if n < 8 then b % 2 ^ n else b) = i
    by_cases hi : i < 2 ^ n - 1
    · simp only [hi, ↓reduceIte]
      constructor
      · intro a rest h
        simp only [Except.ok.injEq, Prod.mk.injEq] at h ⊢
        exact ⟨h.1, by rw [h.2]⟩
      · intro e h; simp at h
    · simp only [hi, ↓reduceIte]
      exact stable_readVarIntLoop _ _ p q

theorem stable_readString (m : Nat) : Stable (readString m) := by
  intro buf q
  cases buf with
  | nil =>
    constructor
    · intro a rest h; simp [readString] at h
    · intro e h hne; simp only [readString, Except.error.injEq] at h; exact absurd h.symm hne
  | cons b0 p =>
    have hv := stable_readVarInt 7 (b0 :: p) q
    simp only [List.cons_append] at hv ⊢
    simp only [readString]
    cases hr : readVarInt 7 (b0 :: p) with
    | error e =>
      constructor
      · intro a rest h; simp at h
      · intro e' h hne
        simp only [Except.error.injEq] at h
        subst h
        rw [hv.2 e hr hne]
    | ok ar =>
      obtain ⟨strLen, p'⟩ := ar
      rw [hv.1 strLen p' hr]
      simp only
      split
      · constructor
        · intro a rest h; simp at h
        · intro e h _; exact h
      · split
        · constructor
          · intro a rest h; simp at h
          · intro e h hne; simp only [Except.error.injEq] at h; exact absurd h.symm hne
        · rename_i hlen
          have hl : ¬ (p' ++ q).length < strLen := by simp only [List.length_append]; omega
          rw [if_neg hl]
          have h1 : strLen ≤ p'.length := by omega
          constructor
          · intro a rest h
            simp only [Except.ok.injEq, Prod.mk.injEq] at h ⊢
            rw [List.take_append_of_le_length h1, List.drop_append_of_le_length h1]
            exact ⟨h.1, by rw [h.2]⟩
          · intro e h; simp at h

theorem stable_parseLiteral (d : DecCore) (n : Nat) (it : IndexType) : Stable (parseLiteral d n it) := by
  unfold parseLiteral
  apply stable_bind _ _ (stable_readVarInt n)
  intro nameIdx
  split
  · split
    · exact stable_fail _
    · apply stable_bind _ _ (stable_readString _)
      intro uv; exact stable_pure _
  · apply stable_bind _ _ (stable_readString _)
    intro un
    apply stable_bind _ _ (stable_readString _)
    intro uv; exact stable_pure _

theorem stable_parseAction (d : DecCore) : Stable (parseAction d) := by
  intro buf q
  cases buf with
  | nil =>
    constructor
    · intro a rest h; simp [parseAction] at h
    · intro e h hne; simp only [parseAction, Except.error.injEq] at h; exact absurd h.symm hne
  | cons b p =>
    simp only [List.cons_append, parseAction]
    have hidx : Stable ((readVarInt 7).bind fun idx =>
        match d.at idx with
        | none => (Parser.fail .invalidIndex : Parser Action)
        | some e => Parser.pure (.indexed e)) := by
      apply stable_bind _ _ (stable_readVarInt 7)
      intro idx
      split
      · exact stable_fail _
      · exact stable_pure _
    have hupd : Stable ((readVarInt 5).bind fun size =>
        if size > d.dyn.allowedMaxSize then (Parser.fail .tableUpdateTooLarge : Parser Action)
        else Parser.pure (.sizeUpdate size)) := by
      apply stable_bind _ _ (stable_readVarInt 5)
      intro size
      split
      · exact stable_fail _
      · exact stable_pure _
    have fixed : ∀ e : PErr, (∀ (a : Action) (rest : Bytes), (Except.error e : Except PErr (Action × Bytes)) = .ok (a, rest) →
          (Except.error e : Except PErr (Action × Bytes)) = .ok (a, rest ++ q)) ∧
        (∀ e', (Except.error e : Except PErr (Action × Bytes)) = .error e' → e' ≠ .needMore →
          (Except.error e : Except PErr (Action × Bytes)) = .error e') := by
      intro e
      exact ⟨by intro a rest h; simp at h, by intro e' h _; exact h⟩
    split
    · exact hidx (b :: p) q
    · split
      · exact stable_parseLiteral d 6 .indexedTrue (b :: p) q
      · split
        · exact stable_parseLiteral d 4 .indexedFalse (b :: p) q
        · split
          · exact stable_parseLiteral d 4 .indexedNever (b :: p) q
          · split
            · split
              · exact fixed _
              · exact hupd (b :: p) q
            · exact fixed _

/-- `parseRepr` on an extension of a buffer on which it already succeeded / failed. -/
theorem parseRepr_ok_append (d : DecCore) (buf q : Bytes) (d' : DecCore) (rest : Bytes) (em : Option Field)
    (h : parseRepr d buf = .ok d' rest em) : parseRepr d (buf ++ q) = .ok d' (rest ++ q) em := by
  unfold parseRepr at h ⊢
  cases hp : parseAction d buf with
  | error e => rw [hp] at h; cases e <;> simp at h
  | ok ar =>
    obtain ⟨a, r⟩ := ar
    rw [hp] at h
    rw [(stable_parseAction d buf q).1 a r hp]
    simp only at h ⊢
    cases ha : applyAction d a with
    | err e d1 => rw [ha] at h; simp at h
    | ok d1 em1 =>
      rw [ha] at h
      simp only [PRes.ok.injEq] at h ⊢
      exact ⟨h.1, by rw [h.2.1], h.2.2⟩

theorem parseRepr_err_append (d : DecCore) (buf q : Bytes) (d' : DecCore) (e : PErr)
    (h : parseRepr d buf = .err e d') : parseRepr d (buf ++ q) = .err e d' := by
  unfold parseRepr at h ⊢
  cases hp : parseAction d buf with
  | error e' =>
    rw [hp] at h
    have hne : e' ≠ .needMore := by intro h'; subst h'; simp at h
    rw [(stable_parseAction d buf q).2 e' hp hne]
    cases e' <;> simp_all
  | ok ar =>
    obtain ⟨a, r⟩ := ar
    rw [hp] at h
    rw [(stable_parseAction d buf q).1 a r hp]
    simp only at h ⊢
    cases ha : applyAction d a with
    | err e1 d1 => rw [ha] at h; simpa using h
    | ok d1 em1 => rw [ha] at h; simp at h

/-! ### The Write loop -/

/-- Any fuel above the buffer length gives the same result. -/
theorem writeLoop_fuel (par : Bool) : ∀ (f1 f2 : Nat) (d : DecCore) (buf : Bytes) (em : List Field),
    buf.length < f1 → buf.length < f2 → writeLoop par f1 d buf em = writeLoop par f2 d buf em := by
  intro f1
  induction f1 with
  | zero => intro f2 d buf em h; omega
  | succ f1 ih =>
    intro f2 d buf em h1 h2
    cases f2 with
    | zero => omega
    | succ f2 =>
      simp only [writeLoop]
      split
      · rfl
      · split
        · rfl
        · rfl
        · rename_i d' rest e _
          split
          · rename_i hlt
            exact ih f2 _ rest _ (by omega) (by omega)
          · rfl

/-- The loop with sufficient fuel. -/
def loopG (par : Bool) (d : DecCore) (buf : Bytes) (em : List Field) : DecCore × List Field × LoopEnd :=
  writeLoop par (buf.length + 1) d buf em

/-- Unfolding equation of the loop. -/
theorem loopG_eq (par : Bool) (d : DecCore) (buf : Bytes) (em : List Field) :
    loopG par d buf em =
      if buf = [] then (d, em, .saved [])
      else match parseRepr d buf with
        | .needMore =>
          if par ∧ d.maxStrLen ≠ 0 ∧ buf.length > paranoiaBound d.maxStrLen then (d, em, .err .strLenParanoia)
          else (d, em, .saved buf)
        | .err e d' => (afterRepr buf d', em, .err e)
        | .ok d' rest e =>
          if rest.length < buf.length then
            loopG par (afterRepr buf d') rest (em ++ optToList e)
          else (d', em, .err .internal) := by
  rw [show loopG par d buf em = writeLoop par (buf.length + 1) d buf em from rfl, writeLoop]
  by_cases hnil : buf = []
  · simp [hnil]
  · simp only [hnil, ↓reduceIte]
    cases hpr : parseRepr d buf with
    | needMore => rfl
    | err e d' => rfl
    | ok d' rest e =>
      simp only
      by_cases hlt : rest.length < buf.length
      · simp only [hlt, ↓reduceIte]
        exact writeLoop_fuel par _ _ _ _ _ (by omega) (by omega)
      · simp only [hlt, ↓reduceIte]

theorem afterRepr_dyn (buf : Bytes) (d : DecCore) : (afterRepr buf d).dyn = d.dyn := by
  unfold afterRepr; split <;> rfl

theorem afterRepr_maxStrLen (buf : Bytes) (d : DecCore) : (afterRepr buf d).maxStrLen = d.maxStrLen := by
  unfold afterRepr; split <;> rfl

theorem afterRepr_emitEnabled (buf : Bytes) (d : DecCore) : (afterRepr buf d).emitEnabled = d.emitEnabled := by
  unfold afterRepr; split <;> rfl

/-- `afterRepr` only looks at the first byte. -/
theorem afterRepr_append (p q : Bytes) (d : DecCore) (hp : p ≠ []) : afterRepr (p ++ q) d = afterRepr p d := by
  cases p with
  | nil => exact absurd rfl hp
  | cons b t => rfl

/-- Ideal loop on `p ++ q`, given its result on `p`. -/
theorem loopI_append (q : Bytes) : ∀ (n : Nat) (p : Bytes) (d : DecCore) (em : List Field), p.length ≤ n →
    (∀ d1 em1 l, loopG false d p em = (d1, em1, .saved l) →
      loopG false d (p ++ q) em = loopG false d1 (l ++ q) em1) ∧
    (∀ d1 em1 e, loopG false d p em = (d1, em1, .err e) →
      loopG false d (p ++ q) em = (d1, em1, .err e)) := by
  intro n
  induction n with
  | zero =>
    intro p d em hp
    have : p = [] := List.eq_nil_of_length_eq_zero (by omega)
    subst this
    rw [loopG_eq]
    simp only [↓reduceIte, Prod.mk.injEq, LoopEnd.saved.injEq, List.nil_append, reduceCtorEq, and_false,
      false_implies, implies_true, and_true]
    intro d1 em1 l h
    rw [h.1, h.2.1, ← h.2.2]
    rfl
  | succ n ih =>
    intro p d em hp
    by_cases hnil : p = []
    · subst hnil
      exact ih [] d em (by simp)
    · have hne : p ++ q ≠ [] := by simp [hnil]
      rw [loopG_eq false d p, loopG_eq false d (p ++ q)]
      simp only [hnil, hne, ↓reduceIte]
      cases hpr : parseRepr d p with
      | needMore =>
        simp only [Bool.false_eq_true, false_and, ↓reduceIte, Prod.mk.injEq, LoopEnd.saved.injEq, reduceCtorEq,
          and_false, false_implies, implies_true, and_true]
        intro d1 em1 l h
        rw [← h.1, ← h.2.1, ← h.2.2, loopG_eq false d (p ++ q)]
        simp only [hne, ↓reduceIte, Bool.false_eq_true, false_and]
      | err e d' =>
        rw [parseRepr_err_append d p q d' e hpr]
        simp only [afterRepr_append p q _ hnil, Prod.mk.injEq, reduceCtorEq, and_false, false_implies, implies_true, true_and]
        intro d1 em1 e1 h
        exact h
      | ok d' rest e =>
        rw [parseRepr_ok_append d p q d' rest e hpr]
        simp only [afterRepr_append p q _ hnil, List.length_append, Nat.add_lt_add_iff_right]
        by_cases hlt : rest.length < p.length
        · simp only [hlt, ↓reduceIte]
          exact ih rest _ _ (by omega)
        · simp only [hlt, ↓reduceIte, Prod.mk.injEq, reduceCtorEq, and_false, false_implies, implies_true, true_and]
          intro d1 em1 e1 h
          exact h

/-- Re-running the ideal loop on what it left over leaves it over again. -/
theorem loopI_saved_idem : ∀ (n : Nat) (p : Bytes) (d : DecCore) (em : List Field), p.length ≤ n →
    ∀ d1 em1 l, loopG false d p em = (d1, em1, .saved l) →
      ∀ em', loopG false d1 l em' = (d1, em', .saved l) := by
  intro n
  induction n with
  | zero =>
    intro p d em hp d1 em1 l h em'
    have : p = [] := List.eq_nil_of_length_eq_zero (by omega)
    subst this
    rw [loopG_eq] at h
    simp only [↓reduceIte, Prod.mk.injEq, LoopEnd.saved.injEq] at h
    rw [← h.1, ← h.2.2, loopG_eq]
    simp
  | succ n ih =>
    intro p d em hp d1 em1 l h em'
    by_cases hnil : p = []
    · subst hnil
      exact ih [] d em (by simp) d1 em1 l h em'
    · rw [loopG_eq] at h
      simp only [hnil, ↓reduceIte] at h
      cases hpr : parseRepr d p with
      | needMore =>
        rw [hpr] at h
        simp only [Bool.false_eq_true, false_and, ↓reduceIte, Prod.mk.injEq, LoopEnd.saved.injEq] at h
        rw [← h.1, ← h.2.2, loopG_eq]
        simp [hnil, hpr]
      | err e d' => rw [hpr] at h; simp at h
      | ok d' rest e =>
        rw [hpr] at h
        simp only at h
        by_cases hlt : rest.length < p.length
        · simp only [hlt, ↓reduceIte] at h
          exact ih rest _ _ (by omega) d1 em1 l h em'
        · simp [hlt] at h

/-- Emitted fields accumulate in front. -/
theorem loopG_emits (par : Bool) : ∀ (n : Nat) (p : Bytes) (d : DecCore) (em : List Field), p.length ≤ n →
    loopG par d p em = ((loopG par d p []).1, em ++ (loopG par d p []).2.1, (loopG par d p []).2.2) := by
  intro n
  induction n with
  | zero =>
    intro p d em hp
    have : p = [] := List.eq_nil_of_length_eq_zero (by omega)
    subst this
    rw [loopG_eq, loopG_eq par d [] []]
    simp
  | succ n ih =>
    intro p d em hp
    by_cases hnil : p = []
    · subst hnil
      exact ih [] d em (by simp)
    · rw [loopG_eq par d p em, loopG_eq par d p []]
      simp only [hnil, ↓reduceIte]
      cases hpr : parseRepr d p with
      | needMore => simp only; split <;> simp
      | err e d' => simp
      | ok d' rest e =>
        simp only
        by_cases hlt : rest.length < p.length
        · simp only [hlt, ↓reduceIte, List.nil_append]
          rw [ih rest _ (em ++ optToList e) (by omega), ih rest _ (optToList e) (by omega)]
          simp
        · simp [hlt]

/-- With the paranoia branch not taken, the real loop is the ideal loop. -/
theorem writeLoop_real_ideal : ∀ (f : Nat) (d : DecCore) (buf : Bytes) (em : List Field),
    (writeLoop true f d buf em).2.2 ≠ .err .strLenParanoia →
      writeLoop false f d buf em = writeLoop true f d buf em := by
  intro f
  induction f with
  | zero => intro d buf em _; rfl
  | succ f ih =>
    intro d buf em h
    simp only [writeLoop] at h ⊢
    split
    · rfl
    · rename_i hne
      simp only [hne, ↓reduceIte] at h
      cases hpr : parseRepr d buf with
      | needMore =>
        rw [hpr] at h
        simp only at h ⊢
        by_cases hc : (d.maxStrLen ≠ 0 ∧ buf.length > paranoiaBound d.maxStrLen)
        · simp [hc] at h
        · simp only [Bool.false_eq_true, false_and, ↓reduceIte, true_and, hc]
      | err e d' => rfl
      | ok d' rest e =>
        rw [hpr] at h
        simp only at h ⊢
        split
        · rename_i hlt
          simp only [hlt, ↓reduceIte] at h
          exact ih _ _ _ h
        · rfl

end NetVerif.Proofs.Lemmas.Hpack
