import NetVerif.Proofs.Lemmas.TimeSeriesRange
namespace NetVerif.Proofs.TSRange
open NetVerif.Model.TimeSeries

def InI64 (t : Int) : Prop := minDur ≤ t ∧ t ≤ maxDur

theorem advLevels_head (n : Nat) (t : Int) (l0 : Level) (rest : List Level) (h : l0.end_ < t) :
    ∃ rest', advLevels n t (l0 :: rest) = l0.advanceTo n t :: rest' := by
  unfold advLevels
  simp only [not_lt]
  rw [if_neg (by omega)]
  exact ⟨_, rfl⟩

/-- `advance` on the finest level. -/
theorem ri_advance {s : TS} {sz : Int} {Hm Hp : Hist} (h : RI s sz Hm Hp) (t : Int) (hin : InI64 t) :
    RI (s.advance t) sz Hm Hp ∧ (s.advance t).dirty = s.dirty ∧ (s.advance t).pending = s.pending ∧
    (s.advance t).pendingTime = s.pendingTime ∧ (s.advance t).lastAdd = s.lastAdd ∧ (s.advance t).n = s.n ∧
    t ≤ (s.advance t).end0 ∧ (s.end0 < t → (s.advance t).end0 - sz < t) ∧ (t ≤ s.end0 → (s.advance t).end0 = s.end0) := by
  obtain ⟨l0, rest, r⟩ := h
  have he0 : s.end0 = l0.end_ := by unfold TS.end0; rw [r.lev]
  unfold TS.advance
  rw [r.lev]
  simp only
  by_cases hgt : t > l0.end_
  · rw [if_neg (not_not.mpr hgt)]
    obtain ⟨rest', hr⟩ := advLevels_head s.n t l0 rest hgt
    obtain ⟨a, b, c, d, _⟩ := r.linv.advanceTo t hin hgt (by rw [r.size]; exact r.cap)
    rw [hr]
    refine ⟨⟨l0.advanceTo s.n t, rest', ?_⟩, rfl, rfl, rfl, rfl, rfl, ?_, ?_, ?_⟩
    · exact ⟨rfl, by rw [d, r.size], a, r.cap, by have := r.pt_le; show s.pendingTime ≤ _; omega,
        r.pt_grid, r.hp_in, r.hp_clean, r.hp_sum, r.last⟩
    · show t ≤ TS.end0 _
      unfold TS.end0; exact b
    · intro _
      show TS.end0 _ - sz < t
      unfold TS.end0; simp only; rw [← r.size]; exact c
    · intro hle; rw [he0] at hle; omega
  · rw [if_pos hgt]
    refine ⟨⟨l0, rest, r⟩, rfl, rfl, rfl, rfl, rfl, by rw [he0]; omega, fun hx => by rw [he0] at hx; omega, fun _ => rfl⟩


/-- An add "behind an advanced level" (see Proofs/C61). -/
def addBehind (s : TS) (t : Int) : Bool := decide (s.pendingTime < t ∧ t ≤ s.end0 - s.size0)

theorem ri_lastAdd {s : TS} {sz : Int} {Hm Hp : Hist} (h : RI s sz Hm Hp) (t : Int) :
    RI (if t > s.lastAdd then { s with lastAdd := t } else s) sz Hm Hp ∧
    t ≤ (if t > s.lastAdd then { s with lastAdd := t } else s).lastAdd := by
  obtain ⟨l0, rest, r⟩ := h
  by_cases c : t > s.lastAdd
  · rw [if_pos c]
    refine ⟨⟨l0, rest, ⟨r.lev, r.size, r.linv, r.cap, r.pt_le, r.pt_grid, r.hp_in, r.hp_clean, r.hp_sum, ?_⟩⟩, Int.le_refl _⟩
    intro p hp
    have := r.last p hp
    show p.1 ≤ t
    omega
  · rw [if_neg c]
    exact ⟨⟨l0, rest, r⟩, by omega⟩

theorem ri_add {s : TS} {sz : Int} {Hm Hp : Hist} (h : RI s sz Hm Hp) (hZ : zeroTime % sz = 0) (t v : Int) (hin : InI64 t)
    (hnb : addBehind s t = false) :
    ∃ Hm' Hp', RI (s.addWithTime (Obs.exact v) t) sz Hm' Hp' ∧ (s.addWithTime (Obs.exact v) t).n = s.n ∧
      (∀ lo hi, sumIn lo hi Hm' + sumIn lo hi Hp' =
        (if lo < t ∧ t ≤ hi then v else 0) + (sumIn lo hi Hm + sumIn lo hi Hp)) ∧
      (t > s.pendingTime → Hm' = Hp ++ Hm ∧ Hp' = [(t, v)]) ∧
      (¬ t > s.pendingTime → t > s.pendingTime + (-1) * s.size0 → Hm' = Hm ∧ Hp' = (t, v) :: Hp) ∧
      (¬ t > s.pendingTime → ¬ t > s.pendingTime + (-1) * s.size0 → Hm' = (t, v) :: Hm ∧ Hp' = Hp) := by
  unfold TS.addWithTime
  obtain ⟨h0, hla⟩ := ri_lastAdd h t
  have hnb0 : addBehind (if t > s.lastAdd then { s with lastAdd := t } else s) t = false := by
    split <;> exact hnb
  have hn0 : (if t > s.lastAdd then { s with lastAdd := t } else s).n = s.n := by split <;> rfl
  have hpt0 : (if t > s.lastAdd then { s with lastAdd := t } else s).pendingTime = s.pendingTime := by split <;> rfl
  have hsize0 : (if t > s.lastAdd then { s with lastAdd := t } else s).size0 = s.size0 := by split <;> rfl
  generalize (if t > s.lastAdd then { s with lastAdd := t } else s) = s0 at h0 hla hnb0 hn0 hpt0 hsize0
  simp only
  by_cases b1 : t > s0.pendingTime
  · -- new pending bucket
    rw [if_pos b1]
    obtain ⟨a1, a2, a3, a4, a5, a6, a7, a8, a9⟩ := ri_advance h0 t hin
    obtain ⟨m1, m2, m3, m4, m5, m6⟩ := ri_mergePending a1 hZ
    obtain ⟨l0, rest, r⟩ := m1
    have hsz0 : s0.size0 = sz := by
      obtain ⟨l, rs, r0⟩ := h0
      unfold TS.size0; rw [r0.lev]; exact r0.size
    -- end' - sz < t ≤ end'
    have hwin : (s0.advance t).end0 - sz < t := by
      by_cases c : s0.end0 < t
      · exact a8 c
      · rw [a9 (by omega)]
        unfold addBehind at hnb0
        simp only [decide_eq_false_iff_not, not_and, hsz0] at hnb0
        have := hnb0 b1
        omega
    have hend : ((s0.advance t).mergePending).end0 = (s0.advance t).end0 := by
      obtain ⟨la, ra, rr⟩ := a1
      obtain ⟨l', r', e1, e2, _⟩ := m6 la ra rr.lev
      unfold TS.end0; rw [e1, rr.lev]; exact e2
    have hend0 : ((s0.advance t).mergePending).end0 = l0.end_ := by unfold TS.end0; rw [r.lev]
    refine ⟨Hp ++ Hm, [(t, v)], ⟨l0, rest, ?_⟩, by show ((s0.advance t).mergePending).n = s.n; rw [m4, a6, hn0], ?_⟩
    · refine ⟨r.lev, r.size, r.linv, r.cap, ?_, ?_, ?_, ?_, ?_, ?_⟩
      · show ((s0.advance t).mergePending).end0 ≤ l0.end_
        rw [hend0]
      · show ((s0.advance t).mergePending).end0 % sz = 0
        rw [hend0]
        rcases r.linv.grid with g | z
        · rw [← r.size]; exact g
        · rw [z]; exact hZ
      · intro p hp
        simp only [List.mem_singleton] at hp
        subst hp
        show ((s0.advance t).mergePending).end0 - sz < t ∧ t ≤ ((s0.advance t).mergePending).end0
        rw [hend]; exact ⟨hwin, a7⟩
      · intro hc; simp at hc
      · intro _; simp [sumAll, Obs.exact]
      · intro p hp
        have hl : ((s0.advance t).mergePending).lastAdd = s0.lastAdd := by rw [m3, a5]
        show p.1 ≤ ((s0.advance t).mergePending).lastAdd
        rw [hl]
        simp only [List.mem_append, List.mem_singleton] at hp
        rcases hp with hp | hp
        · have := r.last p (by simpa using hp)
          rw [hl] at this; exact this
        · subst hp; exact hla
    · refine ⟨?_, fun _ => ⟨rfl, rfl⟩, fun hc => absurd (hpt0 ▸ b1) hc, fun hc => absurd (hpt0 ▸ b1) hc⟩
      intro lo hi
      rw [sumIn_append]
      simp only [sumIn]
      omega
  · rw [if_neg b1]
    obtain ⟨l0, rest, r⟩ := h0
    have hsz0 : s0.size0 = sz := by unfold TS.size0; rw [r.lev]; exact r.size
    by_cases b2 : t > s0.pendingTime + (-1) * s0.size0
    · -- joins the pending bucket
      rw [if_pos b2]
      rw [hsz0] at b2
      refine ⟨Hm, (t, v) :: Hp, ⟨l0, rest, ?_⟩, hn0, ?_⟩
      · refine ⟨r.lev, r.size, r.linv, r.cap, r.pt_le, r.pt_grid, ?_, ?_, ?_, ?_⟩
        · intro p hp
          simp only [List.mem_cons] at hp
          rcases hp with hp | hp
          · subst hp
            show s0.pendingTime - sz < t ∧ t ≤ s0.pendingTime
            omega
          · exact r.hp_in p hp
        · intro hc; simp at hc
        · intro _
          show Obs.add s0.pending (Obs.exact v) = _
          by_cases hd : s0.dirty = true
          · rw [r.hp_sum hd]; simp [Obs.add, Obs.exact, sumAll]; omega
          · have hd' : s0.dirty = false := by simpa using hd
            obtain ⟨e1, e2⟩ := r.hp_clean hd'
            rw [e1, e2]; simp [Obs.add, Obs.exact, Obs.zero, sumAll]
        · intro p hp
          simp only [List.mem_append, List.mem_cons] at hp
          rcases hp with hp | hp | hp
          · exact r.last p (by simp [hp])
          · subst hp; exact hla
          · exact r.last p (by simp [hp])
      · refine ⟨?_, fun hc => absurd (hpt0 ▸ hc) b1, fun _ _ => ⟨rfl, rfl⟩,
          fun _ hc => absurd (by rw [← hpt0, ← hsize0, hsz0]; exact b2) hc⟩
        intro lo hi
        simp only [sumIn]
        omega
    · -- merged straight into the levels
      rw [if_neg b2]
      rw [hsz0] at b2
      have hsp := r.linv.szpos
      rw [r.size] at hsp
      have hte : t ≤ l0.end_ := by have := r.pt_le; omega
      have hm := r.linv.merge t v hte (by rw [r.size]; exact r.cap)
      have hsz : (l0.merge s0.n (Obs.exact v) t).size = l0.size := by unfold Level.merge; simp only; split <;> rfl
      have hend : (l0.merge s0.n (Obs.exact v) t).end_ = l0.end_ := by unfold Level.merge; simp only; split <;> rfl
      refine ⟨(t, v) :: Hm, Hp, ⟨l0.merge s0.n (Obs.exact v) t, rest.map (Level.merge s0.n (Obs.exact v) t), ?_⟩, hn0, ?_⟩
      · refine ⟨by simp [TS.mergeValue, r.lev], by rw [hsz, r.size], hm, r.cap, by rw [hend]; exact r.pt_le,
          r.pt_grid, r.hp_in, r.hp_clean, r.hp_sum, ?_⟩
        intro p hp
        simp only [List.cons_append, List.mem_cons] at hp
        rcases hp with hp | hp
        · subst hp; exact hla
        · exact r.last p hp
      · refine ⟨?_, fun hc => absurd (hpt0 ▸ hc) b1,
          fun _ hc => absurd (by rw [← hpt0, ← hsize0, hsz0] at hc; exact hc) b2, fun _ _ => ⟨rfl, rfl⟩⟩
        intro lo hi
        simp only [sumIn]
        omega


theorem ri_catchUp {s : TS} {sz : Int} {Hm Hp : Hist} (h : RI s sz Hm Hp) (hZ : zeroTime % sz = 0) (now : Int) (hin : InI64 now) :
    RI (s.catchUp now) sz (Hp ++ Hm) [] ∧ (s.catchUp now).n = s.n := by
  have key : ∀ s1 : TS, RI s1 sz (Hp ++ Hm) [] → s1.n = s.n →
      RI { s1 with pendingTime := s1.end0 } sz (Hp ++ Hm) [] ∧ ({ s1 with pendingTime := s1.end0 } : TS).n = s.n := by
    intro s1 h1 hn
    obtain ⟨l0, rest, r⟩ := h1
    have he : s1.end0 = l0.end_ := by unfold TS.end0; rw [r.lev]
    refine ⟨⟨l0, rest, ⟨r.lev, r.size, r.linv, r.cap, ?_, ?_, by simp, r.hp_clean, r.hp_sum, r.last⟩⟩, hn⟩
    · show s1.end0 ≤ l0.end_
      rw [he]
    · show s1.end0 % sz = 0
      rw [he]
      rcases r.linv.grid with g | z
      · rw [← r.size]; exact g
      · rw [z]; exact hZ
  unfold TS.catchUp
  by_cases c : s.end0 < now
  · rw [if_pos c]
    obtain ⟨a1, _, _, _, _, a6, _⟩ := ri_advance h now hin
    obtain ⟨m1, _, _, m4, _⟩ := ri_mergePending a1 hZ
    exact key _ m1 (by rw [m4, a6])
  · rw [if_neg c]
    obtain ⟨m1, _, _, m4, _⟩ := ri_mergePending h hZ
    exact key _ m1 m4

/-- The fresh / cleared state. -/
theorem linv_fresh (n : Nat) (sz : Int) (hn : 1 ≤ n) (hsz : 0 < sz) :
    LInv (Level.fresh n sz) n [] := by
  refine ⟨hn, hsz, by simp [Level.fresh], by simp [Level.fresh]; omega, Or.inr rfl, ?_, by simp⟩
  intro i _
  unfold logical Level.fresh
  simp only [sumIn]
  have : (List.replicate n (none : Option Obs)).getD ((0 + i) % n) none = none := by
    simp only [List.getD_eq_getElem?_getD, List.getElem?_replicate]
    split <;> rfl
  rw [this]; rfl

theorem ri_init (n : Nat) (sz : Int) (rest : List Int) (hn : 1 ≤ n) (hsz : 0 < sz) (hcap : sz * n ≤ maxDur)
    (hZ : zeroTime % sz = 0) : RI (TS.init n (sz :: rest)) sz [] [] := by
  refine ⟨Level.fresh n sz, rest.map (Level.fresh n), ⟨by simp [TS.init], rfl, linv_fresh n sz hn hsz, hcap,
    Int.le_refl _, hZ, by simp, fun _ => ⟨rfl, rfl⟩, fun h => by simp [TS.init] at h, by simp⟩⟩

theorem ri_clear {s : TS} {sz : Int} {Hm Hp : Hist} (h : RI s sz Hm Hp) (hZ : zeroTime % sz = 0) :
    RI s.clear sz [] [] ∧ s.clear.n = s.n := by
  obtain ⟨l0, rest, r⟩ := h
  have hsp := r.linv.szpos
  rw [r.size] at hsp
  refine ⟨⟨Level.fresh s.n sz, rest.map (fun l => Level.fresh s.n l.size), ⟨by simp [TS.clear, r.lev, r.size], rfl,
    linv_fresh s.n sz r.linv.npos hsp, r.cap, Int.le_refl _, hZ, by simp, fun _ => ⟨rfl, rfl⟩,
    fun h => by simp [TS.clear] at h, by simp⟩⟩, rfl⟩

/-- `(a, b]` is aligned to the bucket grid of the finest level and starts inside its window. -/
def alignedFinest (s : TS) (a b : Int) : Bool :=
  match s.levels with
  | [] => false
  | l :: _ => decide (l.end_ - l.size * s.n ≤ a ∧ a ≤ b ∧ b - a ≤ maxDur ∧
                      (l.end_ - a) % l.size = 0 ∧ (b - a) % l.size = 0)

theorem pickLevel_first (n : Nat) (a : Int) (l0 : Level) (rest : List Level)
    (h : l0.end_ - l0.size * n ≤ a) : pickLevel n a (l0 :: rest) = some l0 := by
  cases rest with
  | nil => rfl
  | cons l1 r =>
    unfold pickLevel
    have : ¬ (a < l0.end_ + -l0.size * (n : Int)) := by
      have : l0.end_ + -l0.size * (n : Int) = l0.end_ - l0.size * n := by ring
      rw [this]; omega
    rw [if_pos this]

/-- `Range(a, b)` on a state that satisfies the invariant. -/
theorem ri_range {s : TS} {sz : Int} {Hm Hp : Hist} (h : RI s sz Hm Hp) (hZ : zeroTime % sz = 0) (a b : Int)
    (hal : alignedFinest s a b = true) :
    (s.range a b).2 = some ⟨sumIn a b Hm + sumIn a b Hp, false⟩ := by
  obtain ⟨m1, _, m3, m4, _, m6⟩ := ri_mergePending h hZ
  obtain ⟨l0, rest, r0⟩ := h
  obtain ⟨l1, rest1, hl1, he, hs⟩ := m6 l0 rest r0.lev
  obtain ⟨l1', rest1', r1⟩ := m1
  have e1 : l1' = l1 := by
    have := r1.lev; rw [hl1] at this; injection this with x _; exact x.symm
  subst e1
  unfold alignedFinest at hal
  rw [r0.lev] at hal
  simp only [decide_eq_true_eq] at hal
  obtain ⟨h1, h2, h3, h4, h5⟩ := hal
  unfold TS.range TS.computeRange
  have c1 : ¬ (a > b) := by omega
  rw [if_neg c1]
  simp only [show ¬ ((1 : Int) < 0) by omega, if_false]
  rw [hl1, m4]
  have hpick : pickLevel s.n a (l1' :: rest1) = some l1' := by
    apply pickLevel_first; rw [he, hs]; exact h1
  rw [hpick]
  simp only [show ¬ ((1 : Int) = 0) by omega, if_false]
  have hex := extract_aligned (n := s.n) (by have := r1.linv; rw [m4] at this; exact this) s.mergePending.lastAdd a b
    (by intro p hp; exact r1.last p (by simpa using hp))
    (by rw [r1.size]; have := r1.cap; rw [m4] at this; exact this)
    (by rw [he, hs]; exact h1) h2 h3 (by rw [he, hs]; exact h4) (by rw [hs]; exact h5)
  have ht : (1 : Int).toNat = 1 := rfl
  rw [ht, hex]
  simp only [sumIn_append]
  congr 2
  omega


/-! ### histories -/

def inI64 (t : Int) : Bool := decide (minDur ≤ t ∧ t ≤ maxDur)

/-- Every time that reaches `advance` is inside the range where `Time.UnixNano` is defined. -/
def timesInRange : List Op → Bool
  | [] => true
  | .add t _ :: rest => inI64 t && timesInRange rest
  | .latest now _ _ :: rest => inI64 now && timesInRange rest
  | .latestBuckets now _ _ :: rest => inI64 now && timesInRange rest
  | _ :: rest => timesInRange rest

def noAddBehind (s : TS) : List Op → Bool
  | [] => true
  | .add t v :: rest => !addBehind s t && noAddBehind (s.step (.add t v)) rest
  | op :: rest => noAddBehind (s.step op) rest

/-- Sum of the observations of a history whose time lies in `(a, b]`, restarting at `Clear`. -/
def obsIn (a b : Int) (acc : Int) : List Op → Int
  | [] => acc
  | .add t v :: rest => obsIn a b (if a < t ∧ t ≤ b then acc + v else acc) rest
  | .clear :: rest => obsIn a b 0 rest
  | _ :: rest => obsIn a b acc rest

/-- The observations since the last `Clear` (newest first). -/
def histList : List Op → Hist → Hist
  | [], acc => acc
  | .add t v :: rest, acc => histList rest ((t, v) :: acc)
  | .clear :: rest, _ => histList rest []
  | _ :: rest, acc => histList rest acc

theorem obsIn_histList (a b : Int) (ops : List Op) :
    ∀ acc : Hist, obsIn a b (sumIn a b acc) ops = sumIn a b (histList ops acc) := by
  induction ops with
  | nil => intro acc; rfl
  | cons op rest ih =>
    intro acc
    cases op with
    | add t v =>
      simp only [obsIn, histList]
      rw [← ih ((t, v) :: acc)]
      congr 1
      simp only [sumIn]
      split <;> omega
    | clear => simp only [obsIn, histList]; exact ih []
    | total => simp only [obsIn, histList]; exact ih acc
    | latest _ _ _ => simp only [obsIn, histList]; exact ih acc
    | latestBuckets _ _ _ => simp only [obsIn, histList]; exact ih acc
    | computeRange _ _ _ => simp only [obsIn, histList]; exact ih acc

theorem latest_state (s : TS) (now level num : Int) : (s.latest now level num).1 = s.catchUp now := by
  unfold TS.latest
  simp only
  split
  · rfl
  · split <;> rfl

theorem latestBuckets_state (s : TS) (now level num : Int) :
    (s.latestBuckets now level num).1 = s ∨ (s.latestBuckets now level num).1 = s.catchUp now := by
  unfold TS.latestBuckets
  split
  · left; rfl
  · split
    · left; rfl
    · right
      simp only
      split <;> rfl

theorem computeRange_state (s : TS) (a b num : Int) :
    (s.computeRange a b num).1 = s ∨ (s.computeRange a b num).1 = s.mergePending := by
  unfold TS.computeRange
  split
  · left; rfl
  · split
    · left; rfl
    · simp only
      split
      · left; rfl
      · right; split <;> rfl

theorem ri_run (sz : Int) (hZ : zeroTime % sz = 0) (ops : List Op) :
    ∀ (s : TS) (Hm Hp H0 : Hist), RI s sz Hm Hp → timesInRange ops = true → noAddBehind s ops = true →
      (∀ lo hi, sumIn lo hi Hm + sumIn lo hi Hp = sumIn lo hi H0) →
      ∃ Hm' Hp', RI (s.run ops) sz Hm' Hp' ∧
        ∀ lo hi, sumIn lo hi Hm' + sumIn lo hi Hp' = sumIn lo hi (histList ops H0) := by
  induction ops with
  | nil => intro s Hm Hp H0 h _ _ hH; exact ⟨Hm, Hp, h, hH⟩
  | cons op rest ih =>
    intro s Hm Hp H0 h hin hnb hH
    have hrun : s.run (op :: rest) = (s.step op).run rest := by simp [TS.run]
    rw [hrun]
    cases op with
    | add t v =>
      simp only [timesInRange, Bool.and_eq_true, inI64, decide_eq_true_eq] at hin
      simp only [noAddBehind, Bool.and_eq_true, Bool.not_eq_true'] at hnb
      obtain ⟨Hm', Hp', r', _, hs, _⟩ := ri_add h hZ t v hin.1 hnb.1
      exact ih _ Hm' Hp' ((t, v) :: H0) r' hin.2 hnb.2 (by
        intro lo hi; rw [hs lo hi, hH lo hi]; simp only [sumIn])
    | total =>
      obtain ⟨m1, _⟩ := ri_mergePending h hZ
      exact ih _ _ _ H0 m1 hin hnb (by intro lo hi; rw [sumIn_append]; simp only [sumIn]; have := hH lo hi; omega)
    | latest now level num =>
      simp only [timesInRange, Bool.and_eq_true, inI64, decide_eq_true_eq] at hin
      have hst : s.step (.latest now level num) = s.catchUp now := latest_state s now level num
      rw [hst]
      simp only [noAddBehind, hst] at hnb
      obtain ⟨m1, _⟩ := ri_catchUp h hZ now hin.1
      exact ih _ _ _ H0 m1 hin.2 hnb (by intro lo hi; rw [sumIn_append]; simp only [sumIn]; have := hH lo hi; omega)
    | latestBuckets now level num =>
      simp only [timesInRange, Bool.and_eq_true, inI64, decide_eq_true_eq] at hin
      have hstep : s.step (.latestBuckets now level num) = (s.latestBuckets now level num).1 := rfl
      simp only [noAddBehind] at hnb
      rw [hstep] at hnb ⊢
      rcases latestBuckets_state s now level num with e | e
      · rw [e] at hnb ⊢
        exact ih _ Hm Hp H0 h hin.2 hnb hH
      · rw [e] at hnb ⊢
        obtain ⟨m1, _⟩ := ri_catchUp h hZ now hin.1
        exact ih _ _ _ H0 m1 hin.2 hnb (by intro lo hi; rw [sumIn_append]; simp only [sumIn]; have := hH lo hi; omega)
    | computeRange a b num =>
      have hstep : s.step (.computeRange a b num) = (s.computeRange a b num).1 := rfl
      simp only [noAddBehind] at hnb
      simp only [timesInRange] at hin
      rw [hstep] at hnb ⊢
      rcases computeRange_state s a b num with e | e
      · rw [e] at hnb ⊢
        exact ih _ Hm Hp H0 h hin hnb hH
      · rw [e] at hnb ⊢
        obtain ⟨m1, _⟩ := ri_mergePending h hZ
        exact ih _ _ _ H0 m1 hin hnb (by intro lo hi; rw [sumIn_append]; simp only [sumIn]; have := hH lo hi; omega)
    | clear =>
      simp only [noAddBehind] at hnb
      simp only [timesInRange] at hin
      obtain ⟨c1, _⟩ := ri_clear h hZ
      exact ih _ [] [] [] c1 hin hnb (by intro lo hi; rfl)

/-- **Bucket-aligned ranges of the finest level are exact** — any configuration whose finest resolution
`sz` is positive, divides the zero time and fits `numBuckets` times into an int64 duration; any
history with in-range times and no add behind an advanced level. -/
theorem range_exact_general (n : Nat) (sz : Int) (rest : List Int) (hn : 1 ≤ n) (hsz : 0 < sz)
    (hcap : sz * n ≤ maxDur) (hZ : zeroTime % sz = 0) (ops : List Op) (a b : Int)
    (hin : timesInRange ops = true) (hnb : noAddBehind (TS.init n (sz :: rest)) ops = true)
    (hal : alignedFinest ((TS.init n (sz :: rest)).run ops) a b = true) :
    (((TS.init n (sz :: rest)).run ops).range a b).2 = some ⟨obsIn a b 0 ops, false⟩ := by
  obtain ⟨Hm, Hp, r, hs⟩ := ri_run sz hZ ops _ [] [] [] (ri_init n sz rest hn hsz hcap hZ) hin hnb (by intro lo hi; rfl)
  rw [ri_range r hZ a b hal, hs a b]
  have := obsIn_histList a b ops []
  simp only [sumIn] at this
  rw [this]


/-! ### `pendingTime` stays in step with the finest level (after the repair of `Latest`/`LatestBuckets`) -/

/-- `pendingTime = levels[0].end` and a positive finest resolution. -/
def PE (s : TS) : Prop := s.pendingTime = s.end0 ∧ 0 < s.size0

theorem merge_end_size (n : Nat) (o : Obs) (t : Int) (l : Level) :
    (l.merge n o t).end_ = l.end_ ∧ (l.merge n o t).size = l.size := by
  unfold Level.merge; simp only; split <;> exact ⟨rfl, rfl⟩

theorem end0_mergeValue (s : TS) (o : Obs) (t : Int) :
    (s.mergeValue o t).end0 = s.end0 ∧ (s.mergeValue o t).size0 = s.size0 ∧
    (s.mergeValue o t).pendingTime = s.pendingTime := by
  cases hl : s.levels with
  | nil => simp [TS.mergeValue, TS.end0, TS.size0, hl]
  | cons l r =>
    obtain ⟨h1, h2⟩ := merge_end_size s.n o t l
    simp [TS.mergeValue, TS.end0, TS.size0, hl, h1, h2]

theorem end0_mergePending (s : TS) :
    s.mergePending.end0 = s.end0 ∧ s.mergePending.size0 = s.size0 ∧ s.mergePending.pendingTime = s.pendingTime := by
  unfold TS.mergePending
  split
  · obtain ⟨a, b, c⟩ := end0_mergeValue s s.pending s.pendingTime
    exact ⟨a, b, c⟩
  · exact ⟨rfl, rfl, rfl⟩

theorem pe_mergePending {s : TS} (h : PE s) : PE s.mergePending := by
  obtain ⟨a, b, c⟩ := end0_mergePending s
  unfold PE; rw [a, b, c]; exact h

theorem rotLoop_size (n : Nat) (t : Int) : ∀ (fuel : Nat) (l : Level), (rotLoop n fuel t l).size = l.size := by
  intro fuel
  induction fuel with
  | zero => intro l; rfl
  | succ k ih =>
    intro l
    show (if t > l.end_ then rotLoop n k t (l.rotate n) else l).size = l.size
    split
    · rw [ih]; rfl
    · rfl

theorem advanceTo_size (n : Nat) (t : Int) (l : Level) : (l.advanceTo n t).size = l.size := by
  unfold Level.advanceTo
  simp only
  rw [rotLoop_size]
  split <;> rfl

theorem size0_advance (s : TS) (t : Int) : (s.advance t).size0 = s.size0 := by
  unfold TS.advance
  cases hl : s.levels with
  | nil => rfl
  | cons l0 rest =>
    simp only
    by_cases hc : t > l0.end_
    · rw [if_neg (not_not.mpr hc)]
      obtain ⟨rest', hr⟩ := advLevels_head s.n t l0 rest hc
      unfold TS.size0
      simp only [hl, hr]
      exact advanceTo_size s.n t l0
    · rw [if_pos hc]

theorem pe_add {s : TS} (h : PE s) (o : Obs) (t : Int) : PE (s.addWithTime o t) := by
  unfold TS.addWithTime
  have h0 : PE (if t > s.lastAdd then { s with lastAdd := t } else s) := by
    split
    · exact h
    · exact h
  generalize (if t > s.lastAdd then { s with lastAdd := t } else s) = s0 at h0
  simp only
  split
  · obtain ⟨a, b, _⟩ := end0_mergePending (s0.advance t)
    refine ⟨rfl, ?_⟩
    show 0 < ((s0.advance t).mergePending).size0
    rw [b, size0_advance]; exact h0.2
  · split
    · exact h0
    · obtain ⟨a, b, c⟩ := end0_mergeValue s0 o t
      unfold PE; rw [a, b, c]; exact h0

theorem pe_catchUp {s : TS} (h : PE s) (now : Int) : PE (s.catchUp now) := by
  unfold TS.catchUp
  refine ⟨rfl, ?_⟩
  show 0 < ((if s.end0 < now then s.advance now else s).mergePending).size0
  rw [(end0_mergePending _).2.1]
  split
  · rw [size0_advance]; exact h.2
  · exact h.2

theorem pe_clear {s : TS} (h : PE s) : PE s.clear := by
  unfold PE TS.clear TS.end0 TS.size0 at *
  cases hl : s.levels with
  | nil => simp [hl] at h ⊢
  | cons l r => simp [hl, Level.fresh] at h ⊢; exact h.2

theorem pe_step {s : TS} (h : PE s) (op : Op) : PE (s.step op) := by
  cases op with
  | add t v => exact pe_add h _ t
  | total => exact pe_mergePending h
  | latest now level num => rw [show s.step (.latest now level num) = s.catchUp now from latest_state s now level num]; exact pe_catchUp h now
  | latestBuckets now level num =>
    rcases latestBuckets_state s now level num with e | e
    · show PE (s.latestBuckets now level num).1; rw [e]; exact h
    · show PE (s.latestBuckets now level num).1; rw [e]; exact pe_catchUp h now
  | computeRange a b num =>
    rcases computeRange_state s a b num with e | e
    · show PE (s.computeRange a b num).1; rw [e]; exact h
    · show PE (s.computeRange a b num).1; rw [e]; exact pe_mergePending h
  | clear => exact pe_clear h

/-- With `pendingTime` in step, no add is ever "behind an advanced level". -/
theorem noAddBehind_of_pe (ops : List Op) : ∀ s : TS, PE s → noAddBehind s ops = true := by
  induction ops with
  | nil => intro s _; rfl
  | cons op rest ih =>
    intro s h
    cases op with
    | add t v =>
      simp only [noAddBehind, Bool.and_eq_true, Bool.not_eq_true']
      refine ⟨?_, ih _ (pe_step h _)⟩
      unfold addBehind
      simp only [decide_eq_false_iff_not, not_and]
      intro h1
      have := h.1; have := h.2
      omega
    | total => exact ih _ (pe_step h _)
    | latest _ _ _ => exact ih _ (pe_step h _)
    | latestBuckets _ _ _ => exact ih _ (pe_step h _)
    | computeRange _ _ _ => exact ih _ (pe_step h _)
    | clear => exact ih _ (pe_step h _)

theorem pe_init (n : Nat) (sz : Int) (rest : List Int) (hsz : 0 < sz) : PE (TS.init n (sz :: rest)) := by
  unfold PE TS.init TS.end0 TS.size0
  simp [Level.fresh, hsz]

/-- **Bucket-aligned ranges of the finest level are exact, for every history with in-range times.** -/
theorem range_exact_full (n : Nat) (sz : Int) (rest : List Int) (hn : 1 ≤ n) (hsz : 0 < sz)
    (hcap : sz * n ≤ maxDur) (hZ : zeroTime % sz = 0) (ops : List Op) (a b : Int)
    (hin : timesInRange ops = true)
    (hal : alignedFinest ((TS.init n (sz :: rest)).run ops) a b = true) :
    (((TS.init n (sz :: rest)).run ops).range a b).2 = some ⟨obsIn a b 0 ops, false⟩ :=
  range_exact_general n sz rest hn hsz hcap hZ ops a b hin
    (noAddBehind_of_pe ops _ (pe_init n sz rest hsz)) hal

end NetVerif.Proofs.TSRange
