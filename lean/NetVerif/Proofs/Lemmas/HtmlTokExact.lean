import NetVerif.Model.HtmlTokExact
/-!
Frame lemmas for the exact tokenizer model: no function called from `Next`
writes `rawStart`, the input, `maxBuf`, the reader's final error or
`allowCDATA`. (`Next` itself sets `rawStart := rawEnd` in its first statement.)
-/
namespace NetVerif.Proofs.Lemmas.HtmlTokExact
open NetVerif.Model.HtmlTokExact

/-- The fields no sub-function of `Next` ever writes. -/
def fr (z : Z) : Nat × Array Nat × Nat × Err × Bool :=
  (z.rawStart, z.inp, z.maxBuf, z.finalErr, z.allowCDATA)

@[simp, grind =] theorem fr_readByte (z : Z) : fr (readByte z).2 = fr z := by
  unfold readByte fr
  split
  · rfl
  · simp only []; split <;> rfl
@[simp, grind =] theorem fr_unread (z : Z) (k : Nat) : fr (unread z k) = fr z := rfl
@[simp, grind =] theorem fr_outOfFuel (z : Z) : fr (outOfFuel z) = fr z := rfl

@[simp, grind =] theorem fr_skipWSLoop (f : Nat) (z : Z) : fr (skipWSLoop f z) = fr z := by
  induction f generalizing z with
  | zero => rfl
  | succ f ih =>
    simp only [skipWSLoop]
    repeat' split
    all_goals grind
@[simp, grind =] theorem fr_skipWhiteSpace (z : Z) : fr (skipWhiteSpace z) = fr z := by
  unfold skipWhiteSpace; split <;> simp

@[simp, grind =] theorem fr_matchRawTag (t : List Nat) (z : Z) : fr (matchRawTag t z).2 = fr z := by
  induction t generalizing z with
  | nil => rfl
  | cons t ts ih =>
    simp only [matchRawTag]
    repeat' split
    all_goals grind
@[simp, grind =] theorem fr_readRawEndTag (z : Z) : fr (readRawEndTag z).2 = fr z := by
  unfold readRawEndTag
  repeat' split
  all_goals grind

@[simp, grind =] theorem fr_matchScript (w : List (Nat × Nat)) (z : Z) : fr (matchScript w z).2 = fr z := by
  induction w generalizing z with
  | nil => rfl
  | cons w ws ih =>
    obtain ⟨lo, up⟩ := w
    simp only [matchScript]
    repeat' split
    all_goals grind

theorem fr_setRawEnd (z : Z) (k : Nat) : fr { z with rawEnd := k } = fr z := rfl

@[simp, grind =] theorem fr_scriptLoop (f : Nat) (st : SS) (z : Z) : fr (scriptLoop f st z) = fr z := by
  induction f generalizing st z with
  | zero => rfl
  | succ f ih =>
    cases st <;> simp only [scriptLoop] <;> (repeat' split) <;> grind [fr_setRawEnd]

@[simp, grind =] theorem fr_readScript (z : Z) : fr (readScript z) = fr z := by
  unfold readScript
  show fr (scriptLoop _ _ z) = fr z
  simp

@[simp, grind =] theorem fr_rawLoop (f : Nat) (z : Z) : fr (rawLoop f z) = fr z := by
  induction f generalizing z with
  | zero => rfl
  | succ f ih =>
    simp only [rawLoop]
    repeat' split
    all_goals grind

@[simp, grind =] theorem fr_readRawOrRCDATA (z : Z) : fr (readRawOrRCDATA z) = fr z := by
  unfold readRawOrRCDATA
  split
  · show fr (readScript z) = fr z; simp
  · show fr (rawLoop _ z) = fr z; simp

@[simp, grind =] theorem fr_commentLoop (f d : Nat) (b : Bool) (z : Z) : fr (commentLoop f d b z) = fr z := by
  induction f generalizing d b z with
  | zero => rfl
  | succ f ih =>
    simp only [commentLoop]
    repeat' split
    all_goals grind
@[simp, grind =] theorem fr_readComment (z : Z) : fr (readComment z) = fr z := by simp [readComment]

@[simp, grind =] theorem fr_untilCloseAngleLoop (f : Nat) (z : Z) : fr (untilCloseAngleLoop f z) = fr z := by
  induction f generalizing z with
  | zero => rfl
  | succ f ih =>
    simp only [untilCloseAngleLoop]
    repeat' split
    all_goals grind
@[simp, grind =] theorem fr_readUntilCloseAngle (z : Z) : fr (readUntilCloseAngle z) = fr z := by
  unfold readUntilCloseAngle
  rw [fr_untilCloseAngleLoop]; rfl

@[simp, grind =] theorem fr_matchWord (ci : Bool) (w : List Nat) (z : Z) : fr (matchWord ci w z).2 = fr z := by
  induction w generalizing z with
  | nil => rfl
  | cons w ws ih =>
    simp only [matchWord]
    repeat' split
    all_goals first | grind | (have := fr_readByte z; simp_all [fr])

@[simp, grind =] theorem fr_readDoctype (z : Z) : fr (readDoctype z).2 = fr z := by
  unfold readDoctype
  repeat' split
  all_goals grind

@[simp, grind =] theorem fr_cdataLoop (f b : Nat) (z : Z) : fr (cdataLoop f b z) = fr z := by
  induction f generalizing b z with
  | zero => rfl
  | succ f ih =>
    simp only [cdataLoop]
    repeat' split
    all_goals grind

theorem fr_setDataStart (z : Z) (k : Nat) : fr { z with dataStart := k } = fr z := rfl

@[simp, grind =] theorem fr_readCDATA (z : Z) : fr (readCDATA z).2 = fr z := by
  unfold readCDATA
  repeat' split
  all_goals grind [fr_setDataStart]

@[simp, grind =] theorem fr_readMarkupDeclaration (z : Z) : fr (readMarkupDeclaration z).2 = fr z := by
  unfold readMarkupDeclaration
  simp only []
  repeat' split
  all_goals grind [fr_setDataStart]

theorem fr_setDataEnd (z : Z) (k : Nat) : fr { z with dataEnd := k } = fr z := rfl
theorem fr_setPkEnd (z : Z) (k : Nat) : fr { z with pkEnd := k } = fr z := rfl
theorem fr_setPkStart (z : Z) (k : Nat) : fr { z with pkStart := k } = fr z := rfl
theorem fr_setPvEnd (z : Z) (k : Nat) : fr { z with pvEnd := k } = fr z := rfl
theorem fr_setPvStart (z : Z) (k : Nat) : fr { z with pvStart := k } = fr z := rfl
theorem fr_setPv (z : Z) (a b : Nat) : fr { z with pvStart := a, pvEnd := b } = fr z := rfl
theorem fr_setRawTag (z : Z) (t : List Nat) : fr { z with rawTag := t } = fr z := rfl
theorem fr_setAttr (z : Z) (a b : Nat) (c : List (List Nat)) :
    fr { z with nAttr := a, lastValEnd := b, attrNames := c } = fr z := rfl

@[simp, grind =] theorem fr_tagNameLoop (f : Nat) (z : Z) : fr (tagNameLoop f z) = fr z := by
  induction f generalizing z with
  | zero => rfl
  | succ f ih =>
    simp only [tagNameLoop]
    repeat' split
    all_goals grind [fr_setDataEnd]
@[simp, grind =] theorem fr_readTagName (z : Z) : fr (readTagName z) = fr z := by
  unfold readTagName; rw [fr_tagNameLoop]; rfl

@[simp, grind =] theorem fr_attrKeyLoop (f : Nat) (z : Z) : fr (attrKeyLoop f z) = fr z := by
  induction f generalizing z with
  | zero => rfl
  | succ f ih =>
    simp only [attrKeyLoop]
    repeat' split
    all_goals grind [fr_setPkEnd]
@[simp, grind =] theorem fr_readTagAttrKey (z : Z) : fr (readTagAttrKey z) = fr z := by
  unfold readTagAttrKey; rw [fr_attrKeyLoop]; rfl

@[simp, grind =] theorem fr_quotedValLoop (f q : Nat) (z : Z) : fr (quotedValLoop f q z) = fr z := by
  induction f generalizing z with
  | zero => rfl
  | succ f ih =>
    simp only [quotedValLoop]
    repeat' split
    all_goals grind [fr_setPvEnd]
@[simp, grind =] theorem fr_unquotedValLoop (f : Nat) (z : Z) : fr (unquotedValLoop f z) = fr z := by
  induction f generalizing z with
  | zero => rfl
  | succ f ih =>
    simp only [unquotedValLoop]
    repeat' split
    all_goals grind [fr_setPvEnd]

@[simp, grind =] theorem fr_readTagAttrVal (z : Z) : fr (readTagAttrVal z) = fr z := by
  unfold readTagAttrVal
  simp only []
  repeat' split
  all_goals grind [fr_setPv, fr_setPvStart]

@[simp, grind =] theorem fr_tagLoop (f : Nat) (sa : Bool) (z : Z) : fr (tagLoop f sa z) = fr z := by
  induction f generalizing z with
  | zero => rfl
  | succ f ih =>
    simp only [tagLoop]
    repeat' split
    all_goals grind [fr_setAttr]

@[simp, grind =] theorem fr_readTag (sa : Bool) (z : Z) : fr (readTag sa z) = fr z := by
  unfold readTag
  simp only []
  repeat' split
  all_goals grind [fr_setAttr]

@[simp, grind =] theorem fr_readStartTag (z : Z) : fr (readStartTag z).2 = fr z := by
  unfold readStartTag
  simp only []
  repeat' split
  all_goals grind [fr_setRawTag]

@[simp, grind =] theorem fr_plaintextLoop (f : Nat) (z : Z) : fr (plaintextLoop f z) = fr z := by
  induction f generalizing z with
  | zero => rfl
  | succ f ih =>
    simp only [plaintextLoop]
    repeat' split
    all_goals grind

theorem fr_setRawEndDataEnd (z : Z) (a b : Nat) : fr { z with rawEnd := a, dataEnd := b } = fr z := rfl

@[simp, grind =] theorem fr_finishText (z : Z) : fr (finishText z).2 = fr z := by
  unfold finishText; split <;> rfl

@[simp, grind =] theorem fr_endTagOpen (z : Z) : fr (endTagOpen z).2 = fr z := by
  unfold endTagOpen
  simp only []
  repeat' split
  all_goals grind

@[simp, grind =] theorem fr_dispatch (k c : Nat) (z : Z) : fr (dispatch k c z).2 = fr z := by
  unfold dispatch
  repeat' split
  all_goals first | grind | rfl

@[simp, grind =] theorem fr_mainLoop (f : Nat) (z : Z) : fr (mainLoop f z).2 = fr z := by
  induction f generalizing z with
  | zero => rfl
  | succ f ih =>
    simp only [mainLoop]
    repeat' split
    all_goals grind

@[simp, grind =] theorem fr_rawTextAttempt (z : Z) : fr (rawTextAttempt z) = fr z := by
  unfold rawTextAttempt
  split
  · show fr (plaintextLoop _ z) = fr z; simp
  · simp

/-- `Next` starts the new token exactly where the previous one ended and leaves
the input and configuration alone. -/
theorem next_frame (z : Z) :
    (next z).2.rawStart = z.rawEnd ∧ (next z).2.inp = z.inp ∧ (next z).2.maxBuf = z.maxBuf := by
  have key : fr (next z).2 = fr (startToken z) := by
    unfold next
    simp only []
    repeat' split
    all_goals grind
  simp only [fr, startToken, Prod.mk.injEq] at key
  exact ⟨key.1, key.2.1, key.2.2.1⟩

end NetVerif.Proofs.Lemmas.HtmlTokExact
