/- C61: the finest level of a time series along a history — level invariant (circular buckets hold exactly
the observations of their cell), `advance`/`mergeValue`/`extract` lemmas. Used by Proofs/C61. -/
import Mathlib.Tactic.Linarith
import Mathlib.Tactic.Ring
import NetVerif.Model.TimeSeries
namespace NetVerif.Proofs.TSRange
open NetVerif.Model.TimeSeries

abbrev Hist := List (Int × Int)

/-- Sum of the observations whose time lies in `(lo, hi]`. -/
def sumIn (lo hi : Int) : Hist → Int
  | [] => 0
  | p :: r => (if lo < p.1 ∧ p.1 ≤ hi then p.2 else 0) + sumIn lo hi r

def sumAll : Hist → Int
  | [] => 0
  | p :: r => p.2 + sumAll r

theorem sumIn_append (lo hi : Int) (a b : Hist) : sumIn lo hi (a ++ b) = sumIn lo hi a + sumIn lo hi b := by
  induction a with
  | nil => simp [sumIn]
  | cons p r ih => simp [sumIn, ih]; omega

theorem sumIn_empty (lo hi : Int) (H : Hist) (h : ∀ p ∈ H, ¬ (lo < p.1 ∧ p.1 ≤ hi)) : sumIn lo hi H = 0 := by
  induction H with
  | nil => rfl
  | cons p r ih =>
    simp only [sumIn]
    rw [if_neg (h p (by simp)), ih (fun q hq => h q (by simp [hq]))]
    rfl

theorem sumIn_all (lo hi : Int) (H : Hist) (h : ∀ p ∈ H, lo < p.1 ∧ p.1 ≤ hi) : sumIn lo hi H = sumAll H := by
  induction H with
  | nil => rfl
  | cons p r ih =>
    simp only [sumIn, sumAll]
    rw [if_pos (h p (by simp)), ih (fun q hq => h q (by simp [hq]))]

/-- Splitting a range at an interior point. -/
theorem sumIn_split (lo mid hi : Int) (H : Hist) (h1 : lo ≤ mid) (h2 : mid ≤ hi) :
    sumIn lo hi H = sumIn lo mid H + sumIn mid hi H := by
  induction H with
  | nil => rfl
  | cons p r ih =>
    simp only [sumIn, ih]
    by_cases c1 : lo < p.1 ∧ p.1 ≤ mid <;> by_cases c2 : mid < p.1 ∧ p.1 ≤ hi <;>
      by_cases c3 : lo < p.1 ∧ p.1 ≤ hi <;> simp [c1, c2, c3] <;> omega

/-! ### bucket slots -/

theorem getD_modify (l : List (Option Obs)) (k j : Nat) (f : Option Obs → Option Obs) (hk : k < l.length) :
    (l.modify k f).getD j none = if j = k then f (l.getD k none) else l.getD j none := by
  simp only [List.getD_eq_getElem?_getD, List.getElem?_modify]
  by_cases h : j = k
  · subst h
    simp [hk]
  · have : ¬ k = j := fun e => h e.symm
    simp [h, this]

theorem valB_clearB (x : Option Obs) : valB (clearB x) = Obs.zero := by
  cases x <;> rfl

theorem valB_addB (o : Obs) (x : Option Obs) : valB (addB o x) = Obs.add (valB x) o := by
  cases x <;> rfl

theorem add_zero_obs (a : Obs) : Obs.add a Obs.zero = a := by
  cases a; simp [Obs.add, Obs.zero]

/-- Logical bucket `i` (0 = oldest) of a circular level. -/
def logical (l : Level) (n i : Nat) : Obs := valB (l.buckets.getD ((l.oldest + i) % n) none)

theorem mod_inj (n a i j : Nat) (hi : i < n) (hj : j < n) (h : (a + i) % n = (a + j) % n) : i = j := by
  have h1 := Nat.mod_add_div (a + i) n
  have h2 := Nat.mod_add_div (a + j) n
  -- (a+i) - (a+j) is a multiple of n with absolute value < n
  rcases Nat.lt_or_ge i j with c | c
  · have : (a + j) - (a + i) = n * ((a + j) / n - (a + i) / n) := by
      have hle : (a + i) / n ≤ (a + j) / n := Nat.div_le_div_right (by omega)
      rw [Nat.mul_sub]; omega
    have hlt : (a + j) - (a + i) < n := by omega
    rcases Nat.eq_zero_or_pos ((a + j) / n - (a + i) / n) with z | p
    · rw [z] at this; omega
    · have : n ≤ n * ((a + j) / n - (a + i) / n) := Nat.le_mul_of_pos_right n p
      omega
  · rcases Nat.eq_or_lt_of_le c with e | c
    · exact e.symm
    · have : (a + i) - (a + j) = n * ((a + i) / n - (a + j) / n) := by
        have hle : (a + j) / n ≤ (a + i) / n := Nat.div_le_div_right (by omega)
        rw [Nat.mul_sub]; omega
      have hlt : (a + i) - (a + j) < n := by omega
      rcases Nat.eq_zero_or_pos ((a + i) / n - (a + j) / n) with z | p
      · rw [z] at this; omega
      · have : n ≤ n * ((a + i) / n - (a + j) / n) := Nat.le_mul_of_pos_right n p
        omega

theorem lt_one_of_mul_lt (k sz : Int) (hsz : 0 < sz) (h : k * sz < sz) : k < 1 := by
  by_contra hc
  have : 1 ≤ k := by omega
  nlinarith

theorem cell_iff (e sz t m : Int) (hsz : 0 < sz) (ht : t ≤ e) :
    (e - (m + 1) * sz < t ∧ t ≤ e - m * sz) ↔ (e - t) / sz = m := by
  have h1 := Int.emod_add_mul_ediv (e - t) sz
  have h2 := Int.emod_nonneg (e - t) (by omega : sz ≠ 0)
  have h3 := Int.emod_lt_of_pos (e - t) hsz
  generalize (e - t) / sz = q at *
  generalize (e - t) % sz = r at *
  constructor
  · rintro ⟨a, b⟩
    have c1 : (m - q) * sz < sz := by nlinarith
    have c2 : (q - m) * sz < sz := by nlinarith
    have := lt_one_of_mul_lt _ _ hsz c1
    have := lt_one_of_mul_lt _ _ hsz c2
    omega
  · intro h
    subst h
    constructor <;> nlinarith

theorem tdiv_nonneg_eq (x sz : Int) (hx : 0 ≤ x) (hsz : 0 < sz) : x.tdiv sz = x / sz :=
  Int.tdiv_eq_ediv_of_nonneg hx

/-! ### the invariant of one level -/

def cellLo (l : Level) (n i : Nat) : Int := l.end_ - (((n : Int) - 1 - i) + 1) * l.size
def cellHi (l : Level) (n i : Nat) : Int := l.end_ - ((n : Int) - 1 - i) * l.size

structure LInv (l : Level) (n : Nat) (H : Hist) : Prop where
  npos : 1 ≤ n
  szpos : 0 < l.size
  len : l.buckets.length = n
  old : l.oldest < n
  grid : l.end_ % l.size = 0 ∨ l.end_ = zeroTime
  cells : ∀ i, i < n → logical l n i = ⟨sumIn (cellLo l n i) (cellHi l n i) H, false⟩
  le_end : ∀ p ∈ H, p.1 ≤ l.end_

theorem LInv.rotate {l : Level} {n : Nat} {H : Hist} (h : LInv l n H) (hg : l.end_ % l.size = 0) :
    LInv (l.rotate n) n H := by
  have hn := h.npos
  refine ⟨h.npos, h.szpos, by simp [Level.rotate, h.len], Nat.mod_lt _ (by omega), ?_, ?_, ?_⟩
  · left
    show (l.end_ + l.size) % l.size = 0
    rw [Int.add_emod_right]; exact hg
  · intro i hi
    unfold logical
    show valB ((l.buckets.modify l.oldest clearB).getD (((l.oldest + 1) % n + i) % n) none) = _
    rw [Nat.mod_add_mod, getD_modify _ _ _ _ (by rw [h.len]; exact h.old)]
    by_cases hlast : i = n - 1
    · have e : (l.oldest + 1 + i) % n = l.oldest := by
        rw [show l.oldest + 1 + i = l.oldest + n by omega, Nat.add_mod_right, Nat.mod_eq_of_lt h.old]
      rw [if_pos e, valB_clearB]
      have : sumIn (cellLo (l.rotate n) n i) (cellHi (l.rotate n) n i) H = 0 := by
        apply sumIn_empty
        intro p hp hc
        have := h.le_end p hp
        have hlo : cellLo (l.rotate n) n i = l.end_ := by
          unfold cellLo Level.rotate
          simp only
          have : ((n : Int) - 1 - (i : Int)) = 0 := by omega
          rw [this]; ring
        rw [hlo] at hc
        omega
      rw [this]; rfl
    · have hne : ¬ ((l.oldest + 1 + i) % n = l.oldest) := by
        intro e
        have e0 : (l.oldest + 0) % n = l.oldest := by simp [Nat.mod_eq_of_lt h.old]
        have := mod_inj n l.oldest (i + 1) 0 (by omega) (by omega) (by
          rw [e0, show l.oldest + (i + 1) = l.oldest + 1 + i by omega]; exact e)
        omega
      rw [if_neg hne]
      have hc := h.cells (i + 1) (by omega)
      unfold logical at hc
      rw [show l.oldest + 1 + i = l.oldest + (i + 1) by omega, hc]
      have e1 : cellLo (l.rotate n) n i = cellLo l n (i + 1) := by
        unfold cellLo Level.rotate; simp only; push_cast; ring
      have e2 : cellHi (l.rotate n) n i = cellHi l n (i + 1) := by
        unfold cellHi Level.rotate; simp only; push_cast; ring
      rw [e1, e2]
  · intro p hp
    have := h.le_end p hp
    have := h.szpos
    show p.1 ≤ l.end_ + l.size
    omega

/-- `rotLoop` keeps the invariant and ends with `end - size < t ≤ end` when started with
`end - size < t` … or simply `t ≤ end` when it does nothing. -/
theorem LInv.rotLoop {n : Nat} {H : Hist} (fuel : Nat) (t : Int) :
    ∀ {l : Level}, LInv l n H → l.end_ % l.size = 0 → (t - l.end_).toNat ≤ fuel →
      LInv (rotLoop n fuel t l) n H ∧ (rotLoop n fuel t l).end_ % l.size = 0 ∧ t ≤ (rotLoop n fuel t l).end_ ∧
      (rotLoop n fuel t l).size = l.size ∧
      ((l.end_ < t ∨ l.end_ - l.size < t) → (rotLoop n fuel t l).end_ - l.size < t) ∧
      (t ≤ l.end_ → rotLoop n fuel t l = l) := by
  induction fuel with
  | zero =>
    intro l h hg hf
    have e : NetVerif.Model.TimeSeries.rotLoop n 0 t l = l := rfl
    rw [e]
    refine ⟨h, hg, by omega, rfl, ?_, fun _ => rfl⟩
    intro hc; rcases hc with c | c <;> omega
  | succ k ih =>
    intro l h hg hf
    have e : NetVerif.Model.TimeSeries.rotLoop n (k + 1) t l =
        if t > l.end_ then NetVerif.Model.TimeSeries.rotLoop n k t (l.rotate n) else l := rfl
    rw [e]
    by_cases hc : t > l.end_
    · rw [if_pos hc]
      have hsz := h.szpos
      have hr := h.rotate hg
      have hg' : (l.rotate n).end_ % (l.rotate n).size = 0 := by
        show (l.end_ + l.size) % l.size = 0
        rw [Int.add_emod_right]; exact hg
      have hf' : (t - (l.rotate n).end_).toNat ≤ k := by
        show (t - (l.end_ + l.size)).toNat ≤ k
        omega
      obtain ⟨a, g2, b, c, d, e⟩ := ih hr hg' hf'
      have hs : (l.rotate n).size = l.size := rfl
      refine ⟨a, by rw [hs] at g2; exact g2, b, by rw [c, hs], ?_, fun hle => by omega⟩
      intro _
      have := d (Or.inr (by show l.end_ + l.size - l.size < t; omega))
      rw [hs] at this
      exact this
    · rw [if_neg hc]
      refine ⟨h, hg, by omega, rfl, ?_, fun _ => rfl⟩
      intro hx; rcases hx with c | c <;> omega

theorem wrap64_id (t : Int) (h : minDur ≤ t ∧ t ≤ maxDur) : wrap64 t = t := by
  unfold wrap64; unfold minDur maxDur at h; omega

theorem getD_map_clearB (l : List (Option Obs)) (k : Nat) :
    (l.map clearB).getD k none = clearB (l.getD k none) := by
  simp only [List.getD_eq_getElem?_getD, List.getElem?_map]
  cases l[k]? <;> rfl

/-- A multiple of `sz` that is greater than `-sz` is non-negative. -/
theorem mult_nonneg (k sz : Int) (hsz : 0 < sz) (h : -sz < k * sz) : 0 ≤ k * sz := by
  by_contra hc
  have : k < 0 := by
    by_contra hk
    have : 0 ≤ k := by omega
    nlinarith
  nlinarith

theorem LInv.farReset {l : Level} {n : Nat} {H : Hist} (h : LInv l n H) (t : Int)
    (hin : minDur ≤ t ∧ t ≤ maxDur) (hfar : ¬ (t < l.end_ + l.size * n)) (hcap : l.size * n ≤ maxDur) :
    LInv (l.farReset t) n H ∧ (l.farReset t).end_ - l.size < t ∧ (l.farReset t).size = l.size ∧
    (l.farReset t).end_ % l.size = 0 := by
  have hsz := h.szpos
  have hE : (l.farReset t).end_ = t.tdiv l.size * l.size := by
    unfold Level.farReset; simp only; rw [wrap64_id t hin]
  have m1 := Int.mul_tdiv_add_tmod t l.size
  have m2 := Int.tmod_lt_of_pos t hsz
  have m3 := Int.lt_tmod_of_pos t hsz
  have hnn : (0 : Int) ≤ l.size * n := by positivity
  have hn1 : l.size ≤ l.size * n := by
    have : (1 : Int) ≤ n := by have := h.npos; omega
    nlinarith
  have hkey : l.end_ ≤ (l.farReset t).end_ - l.size * n := by
    rw [hE]
    rcases h.grid with hg | hz
    · -- end is a multiple of size
      have g1 := Int.emod_add_mul_ediv l.end_ l.size
      rw [hg] at g1
      have hmul : -l.size < (t.tdiv l.size - n - l.end_ / l.size) * l.size := by nlinarith
      have := mult_nonneg _ _ hsz hmul
      nlinarith
    · -- the level never advanced: its end is the zero time, far below every in-range time
      rw [hz]
      unfold zeroTime
      unfold minDur maxDur at hin
      unfold maxDur at hcap
      nlinarith
  have hstrong : (l.farReset t).end_ % l.size = 0 := by
    rw [hE]; exact Int.mul_emod_left _ _
  refine ⟨⟨h.npos, h.szpos, by simp [Level.farReset, h.len], h.old, ?_, ?_, ?_⟩, ?_, rfl, hstrong⟩
  · left; exact hstrong
  · intro i hi
    unfold logical
    show valB ((l.buckets.map clearB).getD ((l.oldest + i) % n) none) = _
    rw [getD_map_clearB, valB_clearB]
    have : sumIn (cellLo (l.farReset t) n i) (cellHi (l.farReset t) n i) H = 0 := by
      apply sumIn_empty
      intro p hp hc
      have hple := h.le_end p hp
      have hlo : (l.farReset t).end_ - l.size * n ≤ cellLo (l.farReset t) n i := by
        unfold cellLo
        show (l.farReset t).end_ - l.size * n ≤ (l.farReset t).end_ - (((n : Int) - 1 - i) + 1) * l.size
        have : (0 : Int) ≤ (i : Int) * l.size := by positivity
        nlinarith
      omega
    rw [this]; rfl
  · intro p hp
    have := h.le_end p hp
    omega
  · rw [hE]; nlinarith

/-- One level of `advance`: afterwards the level is current for `t` (and on its grid). -/
theorem LInv.advanceTo {l : Level} {n : Nat} {H : Hist} (h : LInv l n H) (t : Int)
    (hin : minDur ≤ t ∧ t ≤ maxDur) (hlt : l.end_ < t) (hcap : l.size * n ≤ maxDur) :
    LInv (l.advanceTo n t) n H ∧ t ≤ (l.advanceTo n t).end_ ∧ (l.advanceTo n t).end_ - l.size < t ∧
    (l.advanceTo n t).size = l.size ∧ (l.advanceTo n t).end_ % l.size = 0 := by
  unfold Level.advanceTo
  by_cases hfar : ¬ (t < l.end_ + l.size * n)
  · simp only [hfar, not_false_eq_true, if_true]
    obtain ⟨a, b, c, g⟩ := h.farReset t hin hfar hcap
    obtain ⟨r1, rg, r2, r3, r4, r5⟩ := LInv.rotLoop (n := n) (H := H) _ t a (by rw [c]; exact g) (Nat.le_refl _)
    refine ⟨r1, r2, ?_, by rw [r3, c], by rw [c] at rg; exact rg⟩
    by_cases hle : t ≤ (l.farReset t).end_
    · rw [r5 hle]; exact b
    · have := r4 (Or.inl (by omega))
      rw [c] at this; exact this
  · simp only [hfar, if_false]
    have hg : l.end_ % l.size = 0 := by
      rcases h.grid with hg | hz
      · exact hg
      · exfalso
        rw [hz] at hfar
        unfold zeroTime at hfar
        unfold minDur maxDur at hin
        unfold maxDur at hcap
        omega
    obtain ⟨r1, rg, r2, r3, r4, _⟩ := LInv.rotLoop (n := n) (H := H) _ t h hg (Nat.le_refl _)
    exact ⟨r1, r2, r4 (Or.inl hlt), r3, rg⟩

/-- Which logical bucket `mergeValue` touches, in terms of the exact quotient. -/
theorem satq (x sz : Int) (n : Nat) (hx : 0 ≤ x) (hsz : 0 < sz) (hcap : sz * n ≤ maxDur) :
    (satDur x).tdiv sz = x / sz ∨ ((n : Int) ≤ (satDur x).tdiv sz ∧ (n : Int) ≤ x / sz) := by
  unfold satDur
  have hmin : ¬ (x < minDur) := by unfold minDur; omega
  rw [if_neg hmin]
  by_cases hb : x > maxDur
  · rw [if_pos hb]
    right
    have hm : (0 : Int) ≤ maxDur := by unfold maxDur; omega
    rw [Int.tdiv_eq_ediv_of_nonneg hm]
    constructor
    · exact Int.le_ediv_of_mul_le hsz (by nlinarith)
    · exact Int.le_ediv_of_mul_le hsz (by nlinarith)
  · rw [if_neg hb]
    left
    exact Int.tdiv_eq_ediv_of_nonneg hx

theorem obs_add_exact (a v : Int) : Obs.add ⟨a, false⟩ (Obs.exact v) = ⟨v + a, false⟩ := by
  simp [Obs.add, Obs.exact]; omega

theorem LInv.merge {l : Level} {n : Nat} {H : Hist} (h : LInv l n H) (t v : Int) (ht : t ≤ l.end_)
    (hcap : l.size * n ≤ maxDur) :
    LInv (l.merge n (Obs.exact v) t) n ((t, v) :: H) := by
  have hsz := h.szpos
  have hn := h.npos
  have hx : 0 ≤ l.end_ - t := by omega
  have hq := satq (l.end_ - t) l.size n hx hsz hcap
  -- per-cell membership
  have hcell : ∀ i : Nat, i < n →
      ((cellLo l n i < t ∧ t ≤ cellHi l n i) ↔ (l.end_ - t) / l.size = (n : Int) - 1 - i) := by
    intro i _
    unfold cellLo cellHi
    exact cell_iff l.end_ l.size t ((n : Int) - 1 - i) hsz ht
  unfold Level.merge
  simp only
  by_cases hidx : 0 ≤ ((n : Int) - 1) - (satDur (l.end_ - t)).tdiv l.size ∧
      ((n : Int) - 1) - (satDur (l.end_ - t)).tdiv l.size < n
  · rw [if_pos hidx]
    have hqe : (satDur (l.end_ - t)).tdiv l.size = (l.end_ - t) / l.size := by
      rcases hq with e | ⟨a, _⟩
      · exact e
      · omega
    rw [hqe] at hidx ⊢
    generalize hqd : (l.end_ - t) / l.size = q at *
    have hqn : 0 ≤ q := by rw [← hqd]; exact Int.ediv_nonneg hx (by omega)
    obtain ⟨k, hk⟩ : ∃ k : Nat, ((n : Int) - 1 - q).toNat = k := ⟨_, rfl⟩
    have hkq : (k : Int) = (n : Int) - 1 - q := by omega
    have hkn : k < n := by omega
    rw [hk]
    refine ⟨h.npos, h.szpos, by simp [h.len], h.old, h.grid, ?_, ?_⟩
    · intro i hi
      unfold logical
      show valB ((l.buckets.modify ((l.oldest + k) % n) (addB (Obs.exact v))).getD ((l.oldest + i) % n) none) = _
      rw [getD_modify _ _ _ _ (by rw [h.len]; exact Nat.mod_lt _ (by omega))]
      have hc := h.cells i hi
      unfold logical at hc
      have hcl : cellLo (Level.mk l.oldest l.newest l.end_ l.size (l.buckets.modify ((l.oldest + k) % n) (addB (Obs.exact v)))) n i = cellLo l n i := rfl
      have hch : cellHi (Level.mk l.oldest l.newest l.end_ l.size (l.buckets.modify ((l.oldest + k) % n) (addB (Obs.exact v)))) n i = cellHi l n i := rfl
      simp only [sumIn]
      by_cases hik : i = k
      · subst hik
        rw [if_pos rfl, valB_addB, hc]
        have : cellLo l n i < t ∧ t ≤ cellHi l n i := (hcell i hi).2 (by omega)
        show Obs.add _ _ = Obs.mk ((if cellLo l n i < t ∧ t ≤ cellHi l n i then v else 0) + _) false
        rw [if_pos this]
        exact obs_add_exact _ _
      · have hne : ¬ ((l.oldest + i) % n = (l.oldest + k) % n) := fun e => hik (mod_inj n l.oldest i k hi hkn e)
        rw [if_neg hne, hc]
        have : ¬ (cellLo l n i < t ∧ t ≤ cellHi l n i) := by
          intro hc2
          have := (hcell i hi).1 hc2
          omega
        show _ = Obs.mk ((if cellLo l n i < t ∧ t ≤ cellHi l n i then v else 0) + _) false
        rw [if_neg this, Int.zero_add]
        rfl
    · intro p hp
      simp only [List.mem_cons] at hp
      rcases hp with e | hp
      · rw [e]; exact ht
      · exact h.le_end p hp
  · rw [if_neg hidx]
    have hqn : (n : Int) ≤ (l.end_ - t) / l.size := by
      rcases hq with e | ⟨_, b⟩
      · rw [e] at hidx
        have : 0 ≤ (l.end_ - t) / l.size := Int.ediv_nonneg hx (by omega)
        omega
      · exact b
    refine ⟨h.npos, h.szpos, h.len, h.old, h.grid, ?_, ?_⟩
    · intro i hi
      rw [h.cells i hi]
      simp only [sumIn]
      have : ¬ (cellLo l n i < t ∧ t ≤ cellHi l n i) := by
        intro hc2
        have := (hcell i hi).1 hc2
        omega
      rw [if_neg this, Int.zero_add]
    · intro p hp
      simp only [List.mem_cons] at hp
      rcases hp with e | hp
      · rw [e]; exact ht
      · exact h.le_end p hp

/-! ### `extract` on a level that satisfies the invariant -/

theorem match_valB (res : Obs) (x : Option Obs) :
    (match x with | none => res | some y => Obs.add res y) = Obs.add res (valB x) := by
  cases x with
  | none => simp [valB, add_zero_obs]
  | some y => rfl

theorem mult_ge (x sz : Int) (hsz : 0 < sz) (hx : 0 < x) (hm : x % sz = 0) : sz ≤ x := by
  have := Int.emod_add_mul_ediv x sz
  rw [hm] at this
  have hq : 0 < x / sz := by
    by_contra hc
    have : x / sz ≤ 0 := by omega
    nlinarith
  nlinarith

theorem tail_zero {l : Level} {n : Nat} {H : Hist} (h : LInv l n H) (a s b : Int)
    (h1 : l.end_ ≤ s) (h2 : a ≤ s) (h3 : s ≤ b) : sumIn a b H = sumIn a s H := by
  rw [sumIn_split a s b H h2 h3]
  have : sumIn s b H = 0 := by
    apply sumIn_empty
    intro p hp hc
    have := h.le_end p hp
    omega
  omega

theorem cell_bounds (l : Level) (n j : Nat) :
    cellLo l n j = l.end_ - l.size * n + j * l.size ∧ cellHi l n j = l.end_ - l.size * n + j * l.size + l.size := by
  unfold cellLo cellHi
  constructor <;> ring

theorem inner_spec {l : Level} {n : Nat} {H : Hist} (h : LInv l n H) (lastAdd a b : Int)
    (hlast : ∀ p ∈ H, p.1 ≤ lastAdd) :
    ∀ (fuel j : Nat) (s : Int) (res : Obs),
      s = l.end_ - l.size * n + j * l.size → a ≤ s → s ≤ b → (b - s) % l.size = 0 →
      res = ⟨sumIn a s H, false⟩ → n + 1 ≤ fuel + j →
      (extractInner n l lastAdd a b fuel ⟨(j : Int), s, res, false⟩).res = ⟨sumIn a b H, false⟩ := by
  have hsz := h.szpos
  intro fuel
  induction fuel with
  | zero =>
    intro j s res hs ha hb _ hres hf
    have e : extractInner n l lastAdd a b 0 ⟨(j : Int), s, res, false⟩ = ⟨(j : Int), s, res, false⟩ := rfl
    rw [e, hres]
    have hend : l.end_ ≤ s := by
      have : (n : Int) ≤ j := by omega
      rw [hs]; nlinarith
    rw [tail_zero h a s b hend ha hb]
  | succ k ih =>
    intro j s res hs ha hb hgb hres hf
    unfold extractInner
    simp only
    by_cases hcond : ((j : Int) < n ∧ s < b)
    · rw [if_neg (not_not.mpr hcond)]
      obtain ⟨hjn, hsb⟩ := hcond
      have hjn' : j < n := by omega
      have hstep : s + l.size ≤ b := by
        have := mult_ge (b - s) l.size hsz (by omega) hgb
        omega
      have hgb' : (b - (s + l.size)) % l.size = 0 := by
        have : b - (s + l.size) = (b - s) - l.size := by ring
        rw [this, Int.sub_emod_right]; exact hgb
      have hs' : s + l.size = l.end_ - l.size * n + ((j + 1 : Nat) : Int) * l.size := by
        rw [hs]; push_cast; ring
      obtain ⟨cb1, cb2⟩ := cell_bounds l n j
      have hcellv := h.cells j hjn'
      unfold logical at hcellv
      rw [cb1, cb2, ← hs] at hcellv
      by_cases hskip : (if s + l.size > lastAdd then lastAdd else s + l.size) < a
      · -- clamped below the range start: the bucket is empty
        rw [if_neg (not_not.mpr hskip)]
        have hla : lastAdd < a := by
          by_cases c : s + l.size > lastAdd
          · rw [if_pos c] at hskip; exact hskip
          · rw [if_neg c] at hskip; omega
        have hz : sumIn s (s + l.size) H = 0 := by
          apply sumIn_empty
          intro p hp hc
          have := hlast p hp
          omega
        have := ih (j + 1) (s + l.size) res hs' (by omega) hstep hgb'
          (by rw [hres, sumIn_split a s (s + l.size) H ha (by omega), hz, Int.add_zero]) (by omega)
        simpa using this
      · rw [if_pos hskip]
        have hfull : ¬ (s < a) ∧ ¬ ((if s + l.size > lastAdd then lastAdd else s + l.size) > b) := by
          constructor
          · omega
          · by_cases c : s + l.size > lastAdd
            · rw [if_pos c]; omega
            · rw [if_neg c]; omega
        rw [if_pos hfull, if_neg hfull.2]
        have hidx : ((j : Int).toNat + l.oldest) % n = (l.oldest + j) % n := by
          rw [Int.toNat_natCast, Nat.add_comm]
        rw [hidx]
        have hsplit := sumIn_split a s (s + l.size) H ha (by omega)
        generalize l.buckets.getD ((l.oldest + j) % n) none = x at hcellv
        cases x with
        | none =>
          have hz : sumIn s (s + l.size) H = 0 := by
            simp only [valB, Obs.zero, Obs.mk.injEq, and_true] at hcellv
            omega
          have := ih (j + 1) (s + l.size) res hs' (by omega) hstep hgb'
            (by rw [hres, hsplit, hz, Int.add_zero]) (by omega)
          simpa using this
        | some y =>
          simp only [valB] at hcellv
          have hres' : Obs.add res y = ⟨sumIn a (s + l.size) H, false⟩ := by
            rw [hres, hcellv, hsplit]
            simp [Obs.add]
          have := ih (j + 1) (s + l.size) (Obs.add res y) hs' (by omega) hstep hgb' hres' (by omega)
          simpa using this
    · rw [if_pos hcond, hres]
      simp only
      have hend_or : l.end_ ≤ s ∨ s = b := by
        by_cases c : (j : Int) < n
        · right
          have : ¬ s < b := fun x => hcond ⟨c, x⟩
          omega
        · left
          have : (n : Int) ≤ j := by omega
          rw [hs]; nlinarith
      rcases hend_or with c | c
      · rw [tail_zero h a s b c ha hb]
      · rw [c]

theorem emod_shift (e a sz : Int) (n : Nat) (h : (e - a) % sz = 0) : (a - (e - sz * n)) % sz = 0 := by
  have h1 : sz ∣ (e - a) := Int.dvd_of_emod_eq_zero h
  have h2 : sz ∣ (a - (e - sz * n)) := by
    have : a - (e - sz * n) = -(e - a) + sz * n := by ring
    rw [this]
    exact Int.dvd_add (Int.dvd_neg.mpr h1) (Int.dvd_mul_right _ _)
  exact Int.emod_eq_zero_of_dvd h2

theorem sumIn_self (a : Int) (H : Hist) : sumIn a a H = 0 := by
  apply sumIn_empty; intro p _ hc; omega

theorem zero_res (a : Int) (H : Hist) : Obs.zero = ⟨sumIn a a H, false⟩ := by
  rw [sumIn_self]; rfl

/-- **A bucket-aligned range of the finest level reports exactly the observations in it.** -/
theorem extract_aligned {l : Level} {n : Nat} {H : Hist} (h : LInv l n H) (lastAdd a b : Int)
    (hlast : ∀ p ∈ H, p.1 ≤ lastAdd) (hcap : l.size * n ≤ maxDur)
    (ha : l.end_ - l.size * n ≤ a) (hab : a ≤ b) (hspan : b - a ≤ maxDur)
    (hga : (l.end_ - a) % l.size = 0) (hgb : (b - a) % l.size = 0) :
    extract n l lastAdd a b 1 = [⟨sumIn a b H, false⟩] := by
  have hsz := h.szpos
  have hiv : (satDur (b - a)).tdiv ((1 : Nat) : Int) = b - a := by
    unfold satDur
    have h1 : ¬ (b - a < minDur) := by unfold minDur; omega
    have h2 : ¬ (b - a > maxDur) := by omega
    rw [if_neg h1, if_neg h2]; simp
  have hS0 : l.end_ + -l.size * (n : Int) = l.end_ - l.size * n := by ring
  unfold extract
  simp only [hiv, hS0]
  unfold extractOuter
  simp only
  unfold extractOuter
  have hb' : a + (b - a) = b := by ring
  rw [hb']
  congr 1
  by_cases hgt : a > l.end_ - l.size * n
  · rw [if_pos hgt]
    have hx : 0 ≤ a - (l.end_ - l.size * n) := by omega
    have hdiv := emod_shift l.end_ a l.size n hga
    have hmul := Int.emod_add_mul_ediv (a - (l.end_ - l.size * n)) l.size
    rw [hdiv] at hmul
    rcases satq (a - (l.end_ - l.size * n)) l.size n hx hsz hcap with e | ⟨d1, d2⟩
    · rw [e]
      have hq : 0 ≤ (a - (l.end_ - l.size * n)) / l.size := Int.ediv_nonneg hx (by omega)
      obtain ⟨j, hj⟩ := Int.eq_ofNat_of_zero_le hq
      rw [hj]
      have hs : l.end_ - l.size * n + (j : Int) * l.size = a := by
        rw [hj] at hmul; nlinarith
      rw [hs]
      exact inner_spec h lastAdd a b hlast (n + 1) j a Obs.zero hs.symm (by omega) hab
        (by simpa using hgb) (zero_res a H) (by omega)
    · -- saturated start index: beyond the window
      unfold extractInner
      have hc : ¬ ((satDur (a - (l.end_ - l.size * n))).tdiv l.size < n ∧
          l.end_ - l.size * n + (satDur (a - (l.end_ - l.size * n))).tdiv l.size * l.size < b) := by
        intro hc; omega
      simp only [hc, not_false_eq_true, if_true]
      have hae : l.end_ ≤ a := by nlinarith
      have : sumIn a b H = 0 := by
        apply sumIn_empty
        intro p hp hc
        have := h.le_end p hp
        omega
      rw [this]; rfl
  · rw [if_neg hgt]
    have hA : l.end_ - l.size * n = a := by omega
    have hs : a = l.end_ - l.size * n + ((0 : Nat) : Int) * l.size := by simp; omega
    have := inner_spec h lastAdd a b hlast (n + 1) 0 a Obs.zero hs (by omega) hab
        (by simpa using hgb) (zero_res a H) (by omega)
    simp only [Int.zero_mul, Int.add_zero, hA]
    simpa using this

/-! ### the whole time series: invariant of the finest level along a history -/

/-- Regrouping: what was merged as one observation at the (grid-aligned) pending time is the sum of
observations that all lie in the same cell. -/
theorem LInv.regroup {l : Level} {n : Nat} {Hm Hp : Hist} (pt : Int)
    (h : LInv l n ((pt, sumAll Hp) :: Hm)) (hgrid : pt % l.size = 0) (hZ : zeroTime % l.size = 0)
    (hin : ∀ p ∈ Hp, pt - l.size < p.1 ∧ p.1 ≤ pt) : LInv l n (Hp ++ Hm) := by
  have hsz := h.szpos
  refine ⟨h.npos, h.szpos, h.len, h.old, h.grid, ?_, ?_⟩
  · intro i hi
    rw [h.cells i hi]
    congr 1
    rw [sumIn_append]
    simp only [sumIn]
    obtain ⟨cb1, cb2⟩ := cell_bounds l n i
    -- cell bounds are on the grid
    have hlo : (pt - cellLo l n i) % l.size = 0 := by
      have : pt - cellLo l n i = pt - l.end_ + l.size * ((n : Int) - i) := by rw [cb1]; ring
      rw [this, Int.add_mul_emod_self_left]
      have d1 : l.size ∣ pt := Int.dvd_of_emod_eq_zero hgrid
      have d2 : l.size ∣ l.end_ := by
        rcases h.grid with hg | hz
        · exact Int.dvd_of_emod_eq_zero hg
        · rw [hz]; exact Int.dvd_of_emod_eq_zero hZ
      exact Int.emod_eq_zero_of_dvd (Int.dvd_sub d1 d2)
    have hhi : cellHi l n i = cellLo l n i + l.size := by rw [cb1, cb2]
    by_cases hc : cellLo l n i < pt ∧ pt ≤ cellHi l n i
    · rw [if_pos hc]
      have hpt : pt = cellHi l n i := by
        have := mult_ge (pt - cellLo l n i) l.size hsz (by omega) hlo
        omega
      have : sumIn (cellLo l n i) (cellHi l n i) Hp = sumAll Hp := by
        apply sumIn_all
        intro p hp
        have := hin p hp
        omega
      omega
    · rw [if_neg hc]
      have : sumIn (cellLo l n i) (cellHi l n i) Hp = 0 := by
        apply sumIn_empty
        intro p hp hc2
        have hpin := hin p hp
        apply hc
        have h1 : cellLo l n i < pt := by omega
        have := mult_ge (pt - cellLo l n i) l.size hsz (by omega) hlo
        have hlo2 : (cellHi l n i + l.size - pt) % l.size = 0 := by
          have : cellHi l n i + l.size - pt = -(pt - cellLo l n i) + l.size * 2 := by rw [hhi]; ring
          rw [this, Int.add_mul_emod_self_left]
          exact Int.emod_eq_zero_of_dvd (Int.dvd_neg.mpr (Int.dvd_of_emod_eq_zero hlo))
        have := mult_ge (cellHi l n i + l.size - pt) l.size hsz (by omega) hlo2
        constructor <;> omega
      omega
  · intro p hp
    rw [List.mem_append] at hp
    rcases hp with hp | hp
    · have := hin p hp
      have := h.le_end (pt, sumAll Hp) (by simp)
      simp only at this
      omega
    · exact h.le_end p (by simp [hp])

structure RInv (s : TS) (sz : Int) (l0 : Level) (rest : List Level) (Hm Hp : Hist) : Prop where
  lev : s.levels = l0 :: rest
  size : l0.size = sz
  linv : LInv l0 s.n Hm
  cap : sz * s.n ≤ maxDur
  pt_le : s.pendingTime ≤ l0.end_
  pt_grid : s.pendingTime % sz = 0
  hp_in : ∀ p ∈ Hp, s.pendingTime - sz < p.1 ∧ p.1 ≤ s.pendingTime
  hp_clean : s.dirty = false → Hp = [] ∧ s.pending = Obs.zero
  hp_sum : s.dirty = true → s.pending = ⟨sumAll Hp, false⟩
  last : ∀ p ∈ Hm ++ Hp, p.1 ≤ s.lastAdd

/-- `RI s sz Hm Hp`: some finest level carries the invariant. -/
def RI (s : TS) (sz : Int) (Hm Hp : Hist) : Prop := ∃ l0 rest, RInv s sz l0 rest Hm Hp

theorem ri_mergePending {s : TS} {sz : Int} {Hm Hp : Hist} (h : RI s sz Hm Hp) (hZ : zeroTime % sz = 0) :
    RI s.mergePending sz (Hp ++ Hm) [] ∧ s.mergePending.dirty = false ∧
    s.mergePending.lastAdd = s.lastAdd ∧ s.mergePending.n = s.n ∧ s.mergePending.pendingTime = s.pendingTime ∧
    (∀ l0 rest, s.levels = l0 :: rest → ∃ l0' rest', s.mergePending.levels = l0' :: rest' ∧
        l0'.end_ = l0.end_ ∧ l0'.size = l0.size) := by
  obtain ⟨l0, rest, r⟩ := h
  unfold TS.mergePending
  by_cases hd : s.dirty = true
  · rw [if_pos hd]
    have hps := r.hp_sum hd
    have hm := r.linv.merge s.pendingTime (sumAll Hp) r.pt_le (by rw [r.size]; exact r.cap)
    have hpe : Obs.exact (sumAll Hp) = s.pending := by rw [hps]; rfl
    rw [hpe] at hm
    have hm2 := LInv.regroup s.pendingTime hm (by
        show s.pendingTime % (l0.merge s.n s.pending s.pendingTime).size = 0
        have : (l0.merge s.n s.pending s.pendingTime).size = l0.size := by unfold Level.merge; simp only; split <;> rfl
        rw [this, r.size]; exact r.pt_grid)
      (by
        have : (l0.merge s.n s.pending s.pendingTime).size = l0.size := by unfold Level.merge; simp only; split <;> rfl
        rw [this, r.size]; exact hZ)
      (by
        have : (l0.merge s.n s.pending s.pendingTime).size = l0.size := by unfold Level.merge; simp only; split <;> rfl
        rw [this, r.size]; exact r.hp_in)
    have hsz : (l0.merge s.n s.pending s.pendingTime).size = l0.size := by unfold Level.merge; simp only; split <;> rfl
    have hend : (l0.merge s.n s.pending s.pendingTime).end_ = l0.end_ := by unfold Level.merge; simp only; split <;> rfl
    refine ⟨⟨l0.merge s.n s.pending s.pendingTime, rest.map (Level.merge s.n s.pending s.pendingTime), ?_⟩, rfl, rfl, rfl, rfl, ?_⟩
    · refine ⟨by simp [TS.mergeValue, r.lev], by rw [hsz, r.size], hm2, r.cap, by rw [hend]; exact r.pt_le,
        r.pt_grid, by simp, fun _ => ⟨rfl, rfl⟩, fun h => by simp at h, ?_⟩
      intro p hp
      have := r.last p (by simp only [List.append_nil, List.mem_append] at hp ⊢; tauto)
      exact this
    · intro l0' rest' hl
      rw [r.lev] at hl
      injection hl with h1 h2
      subst h1
      exact ⟨l0.merge s.n s.pending s.pendingTime, rest.map (Level.merge s.n s.pending s.pendingTime),
        by simp [TS.mergeValue, r.lev], hend, hsz⟩
  · rw [if_neg hd]
    have hd' : s.dirty = false := by simpa using hd
    obtain ⟨hnil, hz⟩ := r.hp_clean hd'
    subst hnil
    refine ⟨⟨l0, rest, ?_⟩, hd', rfl, rfl, rfl, ?_⟩
    · simpa using r
    · intro l0' rest' hl
      exact ⟨l0', rest', hl, rfl, rfl⟩
end NetVerif.Proofs.TSRange
