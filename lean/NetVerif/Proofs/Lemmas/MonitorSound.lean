import NetVerif.Model.ChanSemMonitor
/-!
Soundness of the stress-trace monitors (V-tie of C29 and C58): every trace a monitor accepts
satisfies the property it stands for, at every prefix.
-/
namespace NetVerif.Proofs.MonitorSound
open NetVerif.Model.ChanSemMonitor

/-! ### gate -/

theorem gmon_run_inside (m m' : GMon) (es : List GEv) (h : m.run es = .ok m') :
    inside m.holder.toList es = m'.holder.toList := by
  induction es generalizing m with
  | nil => simp [GMon.run] at h; subst h; rfl
  | cons e es ih =>
    simp only [GMon.run] at h
    split at h
    · rename_i m1 hs
      have := ih m1 h
      rw [← this]
      cases e with
      | acq gid how set =>
        simp only [GMon.step] at hs
        split at hs
        · simp at hs
        · rename_i hn
          have hm1 : m1.holder = some gid := by
            repeat' split at hs
            all_goals first | (simp at hs; done) | (simp at hs; rw [← hs])
          simp [inside, hn, hm1]
      | rel gid set =>
        simp only [GMon.step] at hs
        split at hs
        · rename_i hh
          simp at hs; subst hs
          simp [inside, hh]
        · simp at hs
      | miss gid =>
        simp only [GMon.step] at hs
        split at hs
        · simp at hs
        · simp at hs; subst hs; simp [inside]
      | fin =>
        simp only [GMon.step] at hs
        split at hs
        · simp at hs; subst hs; simp [inside]
        · simp at hs
    · simp at h

theorem gmon_run_append (m m' : GMon) (a b : List GEv) (h : m.run (a ++ b) = .ok m') :
    ∃ m1, m.run a = .ok m1 ∧ m1.run b = .ok m' := by
  induction a generalizing m with
  | nil => exact ⟨m, rfl, h⟩
  | cons e es ih =>
    simp only [List.cons_append, GMon.run] at h ⊢
    split at h
    · rename_i m1 hs

      exact ih m1 h
    · simp at h

/-- **Gate monitor soundness**: in every prefix of an accepted trace at most one goroutine is
inside the gate (between its `acq` and its `rel`). -/
theorem gate_monitor_sound (b : Bool) (es : List GEv) (m' : GMon)
    (h : ({ holder := none, cond := b } : GMon).run es = .ok m') :
    ∀ pre suf, es = pre ++ suf → (inside [] pre).length ≤ 1 := by
  intro pre suf he
  subst he
  obtain ⟨m1, h1, _⟩ := gmon_run_append _ _ _ _ h
  have := gmon_run_inside _ _ _ h1
  simp at this
  rw [this]
  cases m1.holder <;> simp

/-! ### LimitListener -/

theorem lmon_run_open (m m' : LMon) (es : List LEv) (h : m.run es = .ok m') :
    openOf m.opened es = m'.opened ∧ m'.limit = m.limit ∧
    (m.opened.length ≤ m.limit → m'.opened.length ≤ m'.limit) := by
  induction es generalizing m with
  | nil => simp [LMon.run] at h; subst h; exact ⟨rfl, rfl, id⟩
  | cons e es ih =>
    simp only [LMon.run] at h
    split at h
    · rename_i m1 hs
      obtain ⟨i1, i2, i3⟩ := ih m1 h
      have key : openOf m.opened (e :: es) = openOf m1.opened es ∧ m1.limit = m.limit ∧
          (m.opened.length ≤ m.limit → m1.opened.length ≤ m1.limit) := by
        cases e with
        | iacc id =>
          simp only [LMon.step] at hs
          split at hs
          · simp at hs
          · split at hs
            · simp at hs
            · rename_i hl
              simp at hs; subst hs
              simp [openOf]; omega
        | iclose id =>
          simp only [LMon.step] at hs
          split at hs
          · simp at hs; subst hs
            simp [openOf]
            intro hle
            have := List.length_erase_le (a := id) (l := m.opened)
            omega
          · rename_i hno
            split at hs
            · simp at hs; subst hs
              simp [openOf, List.erase_of_not_mem hno]
            · simp at hs
        | ainv a => simp [LMon.step] at hs; subst hs; simp [openOf]
        | acc a =>
          simp only [LMon.step] at hs
          split at hs
          · simp at hs
          · simp at hs; subst hs; simp [openOf]
        | aerr a => simp [LMon.step] at hs; subst hs; simp [openOf]
        | lret => simp [LMon.step] at hs; subst hs; simp [openOf]
        | other => simp [LMon.step] at hs; subst hs; simp [openOf]
      obtain ⟨k1, k2, k3⟩ := key
      exact ⟨by rw [k1, i1], by rw [i2, k2], fun hle => i3 (k3 hle)⟩
    · simp at h

theorem lmon_run_append (m m' : LMon) (a b : List LEv) (h : m.run (a ++ b) = .ok m') :
    ∃ m1, m.run a = .ok m1 ∧ m1.run b = .ok m' := by
  induction a generalizing m with
  | nil => exact ⟨m, rfl, h⟩
  | cons e es ih =>
    simp only [List.cons_append, LMon.run] at h ⊢
    split at h
    · rename_i m1 hs

      exact ih m1 h
    · simp at h

/-- **Listener monitor soundness**: in every prefix of an accepted trace the number of
connections handed out by the wrapped listener and not yet closed is at most the limit. -/
theorem listener_monitor_sound (n : Nat) (es : List LEv) (m' : LMon)
    (h : ({ limit := n } : LMon).run es = .ok m') :
    ∀ pre suf, es = pre ++ suf → (openOf [] pre).length ≤ n := by
  intro pre suf he
  subst he
  obtain ⟨m1, h1, _⟩ := lmon_run_append _ _ _ _ h
  obtain ⟨k1, k2, k3⟩ := lmon_run_open _ _ _ h1
  simp at k1 k2 k3
  rw [k1, ← k2]; exact k3

/-! ### queue -/

theorem lookup_isSome_of_mem {α β : Type} [DecidableEq α] (a : α) (l : List (α × β))
    (h : a ∈ l.map (·.1)) : (lookup a l).isSome = true := by
  induction l with
  | nil => simp at h
  | cons x xs ih =>
    obtain ⟨x1, x2⟩ := x
    simp only [lookup]
    split
    · rfl
    · rename_i hne
      simp at h
      rcases h with h | h
      · exact absurd h.symm hne
      · exact ih (by simpa using h)

/-- What one accepted event does to the delivered list. -/
theorem qmon_step_deliv (m m' : QMon) (e : QEv) (h : m.step e = .ok m') :
    (m'.deliv.map (·.1) = m.deliv.map (·.1) ∧ deliveredOf [e] = []) ∨
    (∃ c p k, e = .gitem c p k ∧ m'.deliv.map (·.1) = (p, k) :: m.deliv.map (·.1) ∧
      (p, k) ∉ m.deliv.map (·.1)) := by
  cases e with
  | gitem c p k =>
    right
    refine ⟨c, p, k, rfl, ?_⟩
    simp only [QMon.step] at h
    split at h
    · simp at h
    · repeat' split at h
      all_goals first | (simp at h; done) | skip
      all_goals (
        simp at h; subst h
        refine ⟨rfl, ?_⟩
        intro hmem
        have := lookup_isSome_of_mem (p, k) m.deliv hmem
        simp_all)
  | pinv p k =>
    left; simp only [QMon.step] at h
    split at h
    · simp at h
    · simp at h; subst h; simp [deliveredOf]
  | pret p k ok =>
    left; simp only [QMon.step] at h
    repeat' split at h
    all_goals first | (simp at h; done) | (simp at h; subst h; simp [deliveredOf])
  | ginv c => left; simp [QMon.step] at h; subst h; simp [deliveredOf]
  | gclosed c =>
    left; simp only [QMon.step] at h
    repeat' split at h
    all_goals first | (simp at h; done) | (simp at h; subst h; simp [deliveredOf])
  | gctx c =>
    left; simp only [QMon.step] at h
    repeat' split at h
    all_goals first | (simp at h; done) | (simp at h; subst h; simp [deliveredOf])
  | cinv => left; simp [QMon.step] at h; subst h; simp [deliveredOf]
  | cret =>
    left; simp only [QMon.step] at h
    repeat' split at h
    all_goals first | (simp at h; done) | (simp at h; subst h; simp [deliveredOf])
  | fin d =>
    left; simp only [QMon.step] at h
    repeat' split at h
    all_goals first | (simp at h; done) | (simp at h; subst h; simp [deliveredOf])

theorem deliveredOf_cons (e : QEv) (es : List QEv) :
    deliveredOf (e :: es) = deliveredOf [e] ++ deliveredOf es := by
  cases e <;> simp [deliveredOf]

theorem qmon_run_deliv (m m' : QMon) (es : List QEv) (h : m.run es = .ok m')
    (hn : (m.deliv.map (·.1)).Nodup) :
    m'.deliv.map (·.1) = (deliveredOf es).reverse ++ m.deliv.map (·.1) ∧ (m'.deliv.map (·.1)).Nodup := by
  induction es generalizing m with
  | nil => simp [QMon.run] at h; subst h; simp [deliveredOf, hn]
  | cons e es ih =>
    simp only [QMon.run] at h
    split at h
    · rename_i m1 hs
      rcases qmon_step_deliv m m1 e hs with ⟨h1, h2⟩ | ⟨c, p, k, rfl, h1, h2⟩
      · obtain ⟨i1, i2⟩ := ih m1 h (by rw [h1]; exact hn)
        refine ⟨?_, i2⟩
        rw [i1, h1, deliveredOf_cons, h2]; simp
      · obtain ⟨i1, i2⟩ := ih m1 h (by rw [h1]; exact List.nodup_cons.mpr ⟨h2, hn⟩)
        refine ⟨?_, i2⟩
        rw [i1, h1]; simp [deliveredOf]
    · simp at h

/-- **Queue monitor soundness (exactly-once part)**: in an accepted trace no item is delivered
twice. (The monitor additionally rejects phantom items, lost items in drained runs, real-time
FIFO inversions per producer and deliveries / accepted puts after close returned — see
`QMon.step`.) -/
theorem queue_monitor_no_duplicates (es : List QEv) (m' : QMon)
    (h : ({} : QMon).run es = .ok m') : (deliveredOf es).Nodup := by
  obtain ⟨h1, h2⟩ := qmon_run_deliv {} m' es h (by simp)
  rw [h1] at h2
  have h3 : (deliveredOf es).reverse.Nodup := by simpa using h2
  unfold List.Nodup at *
  exact (List.pairwise_reverse.mp h3).imp (fun hab => Ne.symm hab)

end NetVerif.Proofs.MonitorSound
