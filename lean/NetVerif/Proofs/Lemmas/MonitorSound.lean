import NetVerif.Model.ChanSemMonitor
/-!
Soundness of the stress-trace monitors (V-tie of C29 and C58): every trace a monitor accepts
satisfies the property it stands for, at every prefix.
-/
namespace NetVerif.Proofs.MonitorSound
set_option linter.unusedSimpArgs false
open NetVerif.Model.ChanSemMonitor

/-! ### gate -/

theorem gmon_run_inside (m m' : GMon) (es : List GEv) (h : m.run es = .ok m') :
    inside m.holder.toList es = m'.holder.toList := by
  induction es generalizing m with
  | nil => simp [GMon.run] at h; subst h; rfl
  | cons e es ih =>
    simp only [GMon.run] at h
    split at h
    · rename_i m1 hs
      have := ih m1 h
      rw [← this]
      cases e with
      | acq gid how set =>
        simp only [GMon.step] at hs
        split at hs
        · simp at hs
        · rename_i hn
          have hm1 : m1.holder = some gid := by
            repeat' split at hs
            all_goals first | (simp at hs; done) | (simp at hs; rw [← hs])
          simp [inside, hn, hm1]
      | rel gid set =>
        simp only [GMon.step] at hs
        split at hs
        · rename_i hh
          simp at hs; subst hs
          simp [inside, hh]
        · simp at hs
      | miss gid =>
        simp only [GMon.step] at hs
        split at hs
        · simp at hs
        · simp at hs; subst hs; simp [inside]
      | fin =>
        simp only [GMon.step] at hs
        split at hs
        · simp at hs; subst hs; simp [inside]
        · simp at hs
    · simp at h

theorem gmon_run_append (m m' : GMon) (a b : List GEv) (h : m.run (a ++ b) = .ok m') :
    ∃ m1, m.run a = .ok m1 ∧ m1.run b = .ok m' := by
  induction a generalizing m with
  | nil => exact ⟨m, rfl, h⟩
  | cons e es ih =>
    simp only [List.cons_append, GMon.run] at h ⊢
    split at h
    · rename_i m1 hs

      exact ih m1 h
    · simp at h

/-- **Gate monitor soundness**: in every prefix of an accepted trace at most one goroutine is
inside the gate (between its `acq` and its `rel`). -/
theorem gate_monitor_sound (b : Bool) (es : List GEv) (m' : GMon)
    (h : ({ holder := none, cond := b } : GMon).run es = .ok m') :
    ∀ pre suf, es = pre ++ suf → (inside [] pre).length ≤ 1 := by
  intro pre suf he
  subst he
  obtain ⟨m1, h1, _⟩ := gmon_run_append _ _ _ _ h
  have := gmon_run_inside _ _ _ h1
  simp at this
  rw [this]
  cases m1.holder <;> simp

/-! ### generic: lookup in association lists -/

theorem lookup_filter_ne {α β : Type} [DecidableEq α] (a c : α) (l : List (α × β)) :
    lookup a (l.filter (fun x => x.1 ≠ c)) = if a = c then none else lookup a l := by
  induction l with
  | nil => simp [lookup]
  | cons x xs ih =>
    obtain ⟨x1, x2⟩ := x
    by_cases hx : x1 = c
    · subst hx
      simp only [List.filter, lookup, ne_eq, not_true_eq_false, decide_false]
      rw [ih]
      by_cases ha : a = x1
      · simp [ha]
      · have : ¬ x1 = a := fun h => ha h.symm
        simp [ha, this]
    · have hd : decide (x1 ≠ c) = true := by simp [hx]
      simp only [List.filter, hd, lookup]
      rw [ih]
      by_cases ha : a = c
      · subst ha
        simp [hx]
      · simp [ha]

theorem lookup_filter_ne' {α β : Type} [DecidableEq α] (a c : α) (l : List (α × β)) :
    lookup a (l.filter (fun x => !decide (x.1 = c))) = if a = c then none else lookup a l := by
  have : (fun x : α × β => !decide (x.1 = c)) = (fun x => decide (x.1 ≠ c)) := by
    funext x; simp
  rw [this]; exact lookup_filter_ne a c l

/-! ### LimitListener -/

theorem lmon_run_open (m m' : LMon) (es : List LEv) (h : m.run es = .ok m') :
    openOf m.opened es = m'.opened ∧ m'.limit = m.limit ∧
    (m.opened.length ≤ m.limit → m'.opened.length ≤ m'.limit) := by
  induction es generalizing m with
  | nil => simp [LMon.run] at h; subst h; exact ⟨rfl, rfl, id⟩
  | cons e es ih =>
    simp only [LMon.run] at h
    split at h
    · rename_i m1 hs
      obtain ⟨i1, i2, i3⟩ := ih m1 h
      have key : openOf m.opened (e :: es) = openOf m1.opened es ∧ m1.limit = m.limit ∧
          (m.opened.length ≤ m.limit → m1.opened.length ≤ m1.limit) := by
        cases e with
        | iacc id =>
          simp only [LMon.step] at hs
          split at hs
          · simp at hs
          · split at hs
            · simp at hs
            · rename_i hl
              simp at hs; subst hs
              simp [openOf]; omega
        | iclose id =>
          simp only [LMon.step] at hs
          split at hs
          · simp at hs; subst hs
            simp [openOf]
            intro hle
            have := List.length_erase_le (a := id) (l := m.opened)
            omega
          · rename_i hno
            split at hs
            · simp at hs; subst hs
              simp [openOf, List.erase_of_not_mem hno]
            · simp at hs
        | ainv a => simp [LMon.step] at hs; subst hs; simp [openOf]
        | acc a =>
          simp only [LMon.step] at hs
          split at hs
          · simp at hs
          · split at hs
            · simp at hs
            · simp at hs; subst hs; simp [openOf]
        | aerr a => simp [LMon.step] at hs; subst hs; simp [openOf]
        | lret => simp [LMon.step] at hs; subst hs; simp [openOf]
        | other => simp [LMon.step] at hs; subst hs; simp [openOf]
      obtain ⟨k1, k2, k3⟩ := key
      exact ⟨by rw [k1, i1], by rw [i2, k2], fun hle => i3 (k3 hle)⟩
    · simp at h

theorem lmon_run_append (m m' : LMon) (a b : List LEv) (h : m.run (a ++ b) = .ok m') :
    ∃ m1, m.run a = .ok m1 ∧ m1.run b = .ok m' := by
  induction a generalizing m with
  | nil => exact ⟨m, rfl, h⟩
  | cons e es ih =>
    simp only [List.cons_append, LMon.run] at h ⊢
    split at h
    · rename_i m1 hs
      exact ih m1 h
    · simp at h

/-- **Listener monitor soundness (limit)**: in every prefix of an accepted trace the number of
connections handed out by the wrapped listener and not yet closed is at most the limit. -/
theorem listener_monitor_sound (n : Nat) (es : List LEv) (m' : LMon)
    (h : ({ limit := n } : LMon).run es = .ok m') :
    ∀ pre suf, es = pre ++ suf → (openOf [] pre).length ≤ n := by
  intro pre suf he
  subst he
  obtain ⟨m1, h1, _⟩ := lmon_run_append _ _ _ _ h
  obtain ⟨k1, k2, k3⟩ := lmon_run_open _ _ _ h1
  simp at k1 k2 k3
  rw [k1, ← k2]; exact k3

/-- `x` is the trace before acceptor `a`'s pending Accept invocation in `pre`. -/
def PendingAccept (pre : List LEv) (a : Nat) (x : List LEv) : Prop :=
  ∃ y, pre = x ++ LEv.ainv a :: y ∧ ∀ e ∈ y, e ≠ LEv.ainv a ∧ e ≠ LEv.acc a ∧ e ≠ LEv.aerr a

/-- Representation invariant of the listener monitor. -/
def LRep (m : LMon) (pre : List LEv) : Prop :=
  m.hist = pre ∧ ∀ a x, lookup a m.ainv = some x → PendingAccept pre a x

theorem pendingAccept_snoc {pre : List LEv} {a : Nat} {x : List LEv} {e : LEv}
    (h : PendingAccept pre a x) (h1 : e ≠ .ainv a) (h2 : e ≠ .acc a) (h3 : e ≠ .aerr a) :
    PendingAccept (pre ++ [e]) a x := by
  obtain ⟨y, rfl, hy⟩ := h
  refine ⟨y ++ [e], by simp, ?_⟩
  intro e' he'
  simp at he'
  rcases he' with he' | rfl
  · exact hy e' he'
  · exact ⟨h1, h2, h3⟩

/-- Accept-after-close clause for one event. -/
def LOK (pre : List LEv) : LEv → Prop
  | .acc a => ∃ x, PendingAccept pre a x ∧ LEv.lret ∉ x
  | _ => True

theorem lmon_step_rep (m m' : LMon) (pre : List LEv) (e : LEv) (hr : LRep m pre)
    (h : m.step e = .ok m') : LOK pre e ∧ LRep m' (pre ++ [e]) := by
  obtain ⟨hh, hl⟩ := hr
  have keep : ∀ (b : Nat), (∀ a, e ≠ .ainv a) → (∀ a, e ≠ .acc a) → (∀ a, e ≠ .aerr a) →
      ∀ a x, lookup a m.ainv = some x → PendingAccept (pre ++ [e]) a x :=
    fun _ h1 h2 h3 a x hx => pendingAccept_snoc (hl a x hx) (h1 a) (h2 a) (h3 a)
  have filt : ∀ (a0 : Nat), (e = .acc a0 ∨ e = .aerr a0) →
      ∀ a x, lookup a (m.ainv.filter (fun x => !decide (x.1 = a0))) = some x → PendingAccept (pre ++ [e]) a x := by
    intro a0 he a x hx
    rw [lookup_filter_ne'] at hx
    split at hx
    · simp at hx
    · rename_i hne
      refine pendingAccept_snoc (hl a x hx) ?_ ?_ ?_ <;>
        (rcases he with rfl | rfl <;> simp <;> first | exact fun h => hne h.symm | skip)
  cases e with
  | iacc id =>
    simp only [LMon.step] at h
    split at h
    · simp at h
    · split at h
      · simp at h
      · simp at h; subst h
        exact ⟨trivial, by simp [hh], keep 0 (by simp) (by simp) (by simp)⟩
  | iclose id =>
    simp only [LMon.step] at h
    split at h
    · simp at h; subst h
      exact ⟨trivial, by simp [hh], keep 0 (by simp) (by simp) (by simp)⟩
    · split at h
      · simp at h; subst h
        exact ⟨trivial, by simp [hh], keep 0 (by simp) (by simp) (by simp)⟩
      · simp at h
  | ainv a0 =>
    simp [LMon.step] at h; subst h
    refine ⟨trivial, by simp [hh], ?_⟩
    intro a x hx
    simp only [lookup] at hx
    split at hx
    · rename_i ha
      simp at hx; subst hx; subst ha
      exact ⟨[], by simp [hh], by simp⟩
    · rename_i hne
      rw [lookup_filter_ne'] at hx
      split at hx
      · simp at hx
      · refine pendingAccept_snoc (hl a x hx) ?_ ?_ ?_ <;> simp
        exact fun h => hne h
  | acc a0 =>
    simp only [LMon.step] at h
    split at h
    · simp at h
    · rename_i x0 hx0
      split at h
      · simp at h
      · rename_i hnl
        simp at h; subst h
        exact ⟨⟨x0, hl a0 x0 hx0, hnl⟩, by simp [hh], filt a0 (Or.inl rfl)⟩
  | aerr a0 =>
    simp [LMon.step] at h; subst h
    exact ⟨trivial, by simp [hh], filt a0 (Or.inr rfl)⟩
  | lret =>
    simp [LMon.step] at h; subst h
    exact ⟨trivial, by simp [hh], keep 0 (by simp) (by simp) (by simp)⟩
  | other =>
    simp [LMon.step] at h; subst h
    exact ⟨trivial, by simp [hh], keep 0 (by simp) (by simp) (by simp)⟩

theorem lmon_run_ok (m m' : LMon) (pre0 es : List LEv) (hr : LRep m pre0) (h : m.run es = .ok m') :
    ∀ pre e suf, es = pre ++ e :: suf → LOK (pre0 ++ pre) e := by
  induction es generalizing m pre0 with
  | nil => intro pre e suf he; simp at he
  | cons e0 es ih =>
    simp only [LMon.run] at h
    split at h
    · rename_i m1 hs
      obtain ⟨hok, hr1⟩ := lmon_step_rep m m1 pre0 e0 hr hs
      intro pre e suf he
      cases pre with
      | nil => simp at he; obtain ⟨rfl, rfl⟩ := he; simpa using hok
      | cons p ps =>
        simp at he; obtain ⟨rfl, rfl⟩ := he
        have := ih m1 (pre0 ++ [e0]) hr1 h ps e suf rfl
        simpa using this
    · simp at h

/-- **Listener monitor soundness (Accept after Close)**: in an accepted trace, whenever an
acceptor gets a connection, its Accept call had been invoked (`x` = the trace before that
invocation) before any `Close()` had returned. -/
theorem listener_monitor_accept_after_close (n : Nat) (es : List LEv) (m' : LMon)
    (h : ({ limit := n } : LMon).run es = .ok m') :
    ∀ pre a suf, es = pre ++ LEv.acc a :: suf → ∃ x, PendingAccept pre a x ∧ LEv.lret ∉ x := by
  intro pre a suf he
  have := lmon_run_ok { limit := n } m' [] es ⟨rfl, by intro a x hx; simp [lookup] at hx⟩ h pre _ suf he
  simpa [LOK] using this

/-! ### queue -/

/-- `a` is the trace before consumer `c`'s pending `get` invocation in `pre`. -/
def PendingGet (pre : List QEv) (c : Nat) (a : List QEv) : Prop :=
  ∃ b, pre = a ++ QEv.ginv c :: b ∧ ∀ e ∈ b, evConsumer e ≠ some c

/-- `a` is the trace before the invocation of `put (p,k)` in `pre`. -/
def PutInvokedAt (pre : List QEv) (p k : Nat) (a : List QEv) : Prop :=
  ∃ b, pre = a ++ QEv.pinv p k :: b

/-- The property clause each accepted event stands for (`pre` = the trace before it). -/
def QOK (pre : List QEv) : QEv → Prop
  | .pinv p k => (p, k) ∉ putInvokedOf pre
  /- a put that was accepted had been invoked before close returned -/
  | .pret p k true => ∃ a, PutInvokedAt pre p k a ∧ QEv.cret ∉ a
  /- a put is rejected only once close was called, and a rejected item is never delivered -/
  | .pret p k false => QEv.cinv ∈ pre ∧ (p, k) ∉ deliveredOf pre
  /- a delivered item was put (no phantom), not delivered before (exactly once), not rejected;
     FIFO in real time: no later item of the same producer was delivered before this get was even
     invoked; and the get was invoked before close returned -/
  | .gitem c p k => (p, k) ∈ putInvokedOf pre ∧ (p, k) ∉ deliveredOf pre ∧ (p, k) ∉ rejectedOf pre ∧
      ∃ a, PendingGet pre c a ∧ (∀ k', (p, k') ∈ deliveredOf a → ¬ k < k') ∧ QEv.cret ∉ a
  /- the closed error is reported only once close was called -/
  | .gclosed c => QEv.cinv ∈ pre ∧ ∃ a, PendingGet pre c a
  | .gctx c => ∃ a, PendingGet pre c a
  | .cret => QEv.cinv ∈ pre
  /- drained runs lose nothing: every accepted item was delivered -/
  | .fin true => ∀ it ∈ acceptedOf pre, it ∈ deliveredOf pre
  | _ => True

def QRep (m : QMon) (pre : List QEv) : Prop :=
  m.hist = pre ∧ (∀ c a, lookup c m.ginv = some a → PendingGet pre c a) ∧
  (∀ p k a, lookup (p, k) m.pinv = some a → PutInvokedAt pre p k a)

theorem pendingGet_snoc {pre : List QEv} {c : Nat} {a : List QEv} {e : QEv}
    (h : PendingGet pre c a) (he : evConsumer e ≠ some c) : PendingGet (pre ++ [e]) c a := by
  obtain ⟨b, rfl, hb⟩ := h
  refine ⟨b ++ [e], by simp, ?_⟩
  intro e' he'
  simp at he'
  rcases he' with he' | rfl
  · exact hb e' he'
  · exact he

theorem putInvokedAt_snoc {pre : List QEv} {p k : Nat} {a : List QEv} (e : QEv)
    (h : PutInvokedAt pre p k a) : PutInvokedAt (pre ++ [e]) p k a := by
  obtain ⟨b, rfl⟩ := h
  exact ⟨b ++ [e], by simp⟩

/-- The bookkeeping of `QMon.step` keeps the representation invariant. -/
theorem qrep_next (m : QMon) (pre : List QEv) (e : QEv) (hr : QRep m pre) :
    QRep { hist := m.hist ++ [e],
           pinv := (match e with
             | .pinv p k => ((p, k), m.hist) :: m.pinv
             | _ => m.pinv),
           ginv := (match evConsumer e with
             | some c =>
               let f := m.ginv.filter (fun x => x.1 ≠ c)
               (match e with
                | .ginv _ => (c, m.hist) :: f
                | _ => f)
             | none => m.ginv) } (pre ++ [e]) := by
  obtain ⟨hh, hg, hp⟩ := hr
  refine ⟨by simp [hh], ?_, ?_⟩
  · intro c a hl
    simp only at hl
    cases hc : evConsumer e with
    | none =>
      rw [hc] at hl
      exact pendingGet_snoc (hg c a hl) (by rw [hc]; simp)
    | some c0 =>
      rw [hc] at hl
      simp only at hl
      have hfil : ∀ a', lookup c (m.ginv.filter (fun x => x.1 ≠ c0)) = some a' →
          PendingGet (pre ++ [e]) c a' := by
        intro a' hl'
        rw [lookup_filter_ne] at hl'
        split at hl'
        · simp at hl'
        · rename_i hne
          exact pendingGet_snoc (hg c a' hl') (by rw [hc]; simp; exact fun h => hne h.symm)
      cases e with
      | ginv c1 =>
        simp [evConsumer] at hc; subst hc
        simp only [lookup] at hl
        split at hl
        · rename_i hcc
          simp at hl; subst hl; subst hcc
          exact ⟨[], by simp [hh], by simp⟩
        · exact hfil a hl
      | gitem c1 p k => exact hfil a hl
      | gclosed c1 => exact hfil a hl
      | gctx c1 => exact hfil a hl
      | pinv p k => simp [evConsumer] at hc
      | pret p k ok => simp [evConsumer] at hc
      | cinv => simp [evConsumer] at hc
      | cret => simp [evConsumer] at hc
      | fin d => simp [evConsumer] at hc
  · intro p k a hl
    simp only at hl
    cases e with
    | pinv p1 k1 =>
      simp only [lookup] at hl
      split at hl
      · rename_i heq
        simp at hl; subst hl
        simp at heq; obtain ⟨rfl, rfl⟩ := heq
        exact ⟨[], by simp [hh]⟩
      · exact putInvokedAt_snoc _ (hp p k a hl)
    | pret _ _ _ => exact putInvokedAt_snoc _ (hp p k a hl)
    | ginv _ => exact putInvokedAt_snoc _ (hp p k a hl)
    | gitem _ _ _ => exact putInvokedAt_snoc _ (hp p k a hl)
    | gclosed _ => exact putInvokedAt_snoc _ (hp p k a hl)
    | gctx _ => exact putInvokedAt_snoc _ (hp p k a hl)
    | cinv => exact putInvokedAt_snoc _ (hp p k a hl)
    | cret => exact putInvokedAt_snoc _ (hp p k a hl)
    | fin _ => exact putInvokedAt_snoc _ (hp p k a hl)

theorem qmon_check_ok (m : QMon) (pre : List QEv) (e : QEv) (hr : QRep m pre)
    (hc : m.check e = none) : QOK pre e := by
  obtain ⟨hh, hg, hp⟩ := hr
  cases e with
  | pinv p k =>
    simp only [QMon.check] at hc
    split at hc
    · simp at hc
    · rename_i hn; rw [hh] at hn; exact hn
  | pret p k ok =>
    simp only [QMon.check] at hc
    split at hc
    · simp at hc
    · rename_i a ha
      cases ok with
      | true =>
        simp at hc
        exact ⟨a, hp p k a ha, hc⟩
      | false =>
        simp at hc
        rw [hh] at hc
        by_cases h1 : QEv.cinv ∈ pre <;> by_cases h2 : (p, k) ∈ deliveredOf pre <;> simp [h1, h2] at hc
        exact ⟨h1, h2⟩
  | ginv c => trivial
  | gitem c p k =>
    simp only [QMon.check] at hc
    split at hc
    · simp at hc
    · rename_i a ha
      repeat' split at hc
      all_goals first | (simp at hc; done) | skip
      rename_i h1 h2 h3 h4 h5
      rw [hh] at h1 h2 h3
      refine ⟨by simpa using h1, h2, h3, a, hg c a ha, ?_, h5⟩
      intro k' hk' hlt
      apply h4
      simp only [List.any_eq_true]
      exact ⟨(p, k'), hk', by simp [hlt]⟩
  | gclosed c =>
    simp only [QMon.check] at hc
    repeat' split at hc
    all_goals first | (simp at hc; done) | skip
    rename_i h1 h2
    rw [hh] at h2
    cases hl : lookup c m.ginv with
    | none => simp [hl] at h1
    | some a => exact ⟨by simpa using h2, a, hg c a hl⟩
  | gctx c =>
    simp only [QMon.check] at hc
    split at hc
    · simp at hc
    · rename_i h1
      cases hl : lookup c m.ginv with
      | none => simp [hl] at h1
      | some a => exact ⟨a, hg c a hl⟩
  | cinv => trivial
  | cret =>
    simp only [QMon.check] at hc
    split at hc
    · simp at hc
    · rename_i h1; rw [hh] at h1; show QEv.cinv ∈ pre; simpa using h1
  | fin d =>
    cases d with
    | false => trivial
    | true =>
      simp only [QMon.check] at hc
      split at hc
      · simp at hc
      · rename_i h1
        rw [hh] at h1
        simp at h1
        intro it hit
        exact h1 it.1 it.2 hit

theorem qmon_step_rep (m m' : QMon) (pre : List QEv) (e : QEv) (hr : QRep m pre)
    (h : m.step e = .ok m') : QOK pre e ∧ QRep m' (pre ++ [e]) := by
  simp only [QMon.step] at h
  split at h
  · simp at h
  · rename_i hc
    cases h
    exact ⟨qmon_check_ok m pre e hr hc, qrep_next m pre e hr⟩

theorem qmon_run_ok (m m' : QMon) (pre0 es : List QEv) (hr : QRep m pre0) (h : m.run es = .ok m') :
    ∀ pre e suf, es = pre ++ e :: suf → QOK (pre0 ++ pre) e := by
  induction es generalizing m pre0 with
  | nil => intro pre e suf he; simp at he
  | cons e0 es ih =>
    simp only [QMon.run] at h
    split at h
    · rename_i m1 hs
      obtain ⟨hok, hr1⟩ := qmon_step_rep m m1 pre0 e0 hr hs
      intro pre e suf he
      cases pre with
      | nil => simp at he; obtain ⟨rfl, rfl⟩ := he; simpa using hok
      | cons p ps =>
        simp at he; obtain ⟨rfl, rfl⟩ := he
        have := ih m1 (pre0 ++ [e0]) hr1 h ps e suf rfl
        simpa using this
    · simp at h

/-- **Queue monitor soundness**: every event of an accepted trace satisfies its property clause
`QOK` with respect to the trace before it: no phantom, duplicated or rejected item is delivered;
real-time FIFO per producer; nothing is delivered by a get invoked after close returned; nothing
is accepted by a put invoked after close returned; rejections and closed errors only after close
was called; drained runs lose no accepted item. -/
theorem queue_monitor_sound (es : List QEv) (m' : QMon) (h : ({} : QMon).run es = .ok m') :
    ∀ pre e suf, es = pre ++ e :: suf → QOK pre e := by
  intro pre e suf he
  have := qmon_run_ok {} m' [] es
    ⟨rfl, by intro c a hl; simp [lookup] at hl, by intro p k a hl; simp [lookup] at hl⟩ h pre e suf he
  simpa using this

theorem deliveredOf_append (a b : List QEv) : deliveredOf (a ++ b) = deliveredOf a ++ deliveredOf b := by
  induction a with
  | nil => rfl
  | cons e es ih => cases e <;> simp [deliveredOf, ih]

/-- Corollary (exactly-once part): in an accepted trace no item is delivered twice. -/
theorem queue_monitor_no_duplicates (es : List QEv) (m' : QMon)
    (h : ({} : QMon).run es = .ok m') : (deliveredOf es).Nodup := by
  have hs := queue_monitor_sound es m' h
  -- induction over prefixes, from the right
  suffices H : ∀ n, (deliveredOf (es.take n)).Nodup by
    have := H es.length; simpa using this
  intro n
  induction n with
  | zero => simp [deliveredOf]
  | succ n ih =>
    by_cases hn : n < es.length
    · have hsplit : es = es.take n ++ es[n] :: es.drop (n + 1) := by
        simp
      rw [List.take_add_one, List.getElem?_eq_getElem hn]
      simp only [Option.toList]
      rw [deliveredOf_append]
      have hok := hs (es.take n) es[n] (es.drop (n + 1)) hsplit
      cases he : es[n] with
      | gitem c p k =>
        rw [he] at hok
        simp only [deliveredOf, List.append_nil]
        rw [List.nodup_append]
        refine ⟨ih, by simp, ?_⟩
        intro x hx y hy
        simp at hy; subst hy
        intro hxy; subst hxy
        exact hok.2.1 hx
      | pinv _ _ => simpa [deliveredOf] using ih
      | pret _ _ _ => simpa [deliveredOf] using ih
      | ginv _ => simpa [deliveredOf] using ih
      | gclosed _ => simpa [deliveredOf] using ih
      | gctx _ => simpa [deliveredOf] using ih
      | cinv => simpa [deliveredOf] using ih
      | cret => simpa [deliveredOf] using ih
      | fin _ => simpa [deliveredOf] using ih
    · have : es.take (n + 1) = es.take n := by
        rw [List.take_of_length_le (by omega), List.take_of_length_le (by omega)]
      rw [this]; exact ih

end NetVerif.Proofs.MonitorSound
