import NetVerif.Model.QuicStream
import NetVerif.Proofs.C24
import NetVerif.Proofs.C30
/-! Receive side of a QUIC stream: byte-level refinement through the chunked pipe (C19).
Invariant `RI w s spec`: the stream's pipe refines the byte map `spec` (C30), and every received,
not yet discarded offset holds the sender's byte `w[x]`. -/
namespace NetVerif.Proofs.Lemmas.QuicRecv
open NetVerif.Model NetVerif.Model.QuicStream
open NetVerif.Model.Rangeset (RS Rg)
open NetVerif.Proofs.C24 (Mem WF mem_add wf_add)
open NetVerif.Proofs.C30 (Spec Inv Rel specWrite specDiscard writeAt_refines discard_refines read_returns_written
  peek_prefix byteAt)

/-- the sender's byte at stream offset `x` -/
def wAt (w : List Nat) (x : Int) : Option Nat := if 0 ≤ x then w[x.toNat]? else none

/-- a STREAM frame that carries a slice of the sender's byte sequence -/
def FrameOf (w : List Nat) (off : Int) (b : List Nat) : Prop :=
  0 ≤ off ∧ off + b.length ≤ w.length ∧ ∀ i : Nat, i < b.length → b[i]? = wAt w (off + i)

structure RI (w : List Nat) (s : Stream) (spec : Spec) : Prop where
  inv : Inv chunk s.inp
  rel : Rel s.inp spec
  wf : WF s.inset
  cov : ∀ x, Mem s.inset x → 0 ≤ x ∧ x < s.inp.stop ∧ x < w.length
  dat : ∀ x, s.inp.start ≤ x → Mem s.inset x → spec.data x = wAt w x
  st0 : 0 ≤ s.inp.start
  buf : ∀ i : Nat, i < s.inbuf.length → s.inbuf[i]? = wAt w (s.inp.start + i)
  bufcov : ∀ x, s.inp.start ≤ x → x < s.inp.start + s.inbuf.length → Mem s.inset x
  off : s.inbufoff ≤ s.inbuf.length

/-- The range `handleData` records after the duplicate trim. -/
def trimOff (s : Stream) (off e : Int) : Int :=
  match s.inset with
  | r0 :: _ => if r0.s ≤ off ∧ off < r0.e then (if e ≤ r0.e then e else r0.e) else off
  | [] => off

/-- shape of an accepted `handleData` on an open stream -/
theorem handleData_shape (c : Conn) (s : Stream) (off : Int) (b : List Nat) (fin : Bool)
    (h0 : (handleData c s off b fin).2.2 = 0) (hopen : ¬ (s.inclosed.isSet = true ∨ s.inresetcode ≠ -1)) :
    let t := (handleData c s off b fin).2.1
    let o' := trimOff s off (off + b.length)
    t.inp = (pipeWrite s.inp (b.drop (o' - off).toNat) o').1 ∧
    t.inset = Rangeset.add s.inset o' (off + b.length) ∧
    t.inbuf = s.inbuf ∧ t.inbufoff = s.inbufoff ∧ t.inclosed = s.inclosed ∧ t.inresetcode = s.inresetcode ∧
    t.insize = (if fin then off + b.length else s.insize) ∧
    t.panicked = (s.panicked || (pipeWrite s.inp (b.drop (o' - off).toNat) o').2) := by
  unfold handleData at h0 ⊢
  simp only [] at h0 ⊢
  by_cases h1 : checkStreamBounds s.inwin s.insize s.inp.stop (off + b.length) fin = 0
  · simp only [h1, ne_eq, not_true_eq_false, if_false, hopen] at h0 ⊢
    by_cases h3 : s.insize = -1 ∧ off + (b.length : Int) > s.inp.stop
    · simp only [h3, and_self, if_true] at h0 ⊢
      by_cases h5 : (bytesReceived c.usedLimit c.sentLimit (off + b.length - s.inp.stop)).1 = 0
      · simp only [h5, ne_eq, not_true_eq_false, if_false] at h0 ⊢
        unfold trimOff
        cases hs : s.inset with
        | nil => cases fin <;> simp
        | cons r0 rest => by_cases hc : r0.s ≤ off ∧ off < r0.e <;> cases fin <;> simp [hc]
      · simp [h5] at h0
    · simp only [h3, if_false, ne_eq, not_true_eq_false] at h0 ⊢
      unfold trimOff
      cases hs : s.inset with
      | nil => cases fin <;> simp
      | cons r0 rest => by_cases hc : r0.s ≤ off ∧ off < r0.e <;> cases fin <;> simp [hc]
  · simp [h1] at h0


theorem trimOff_facts (s : Stream) (off e : Int) (hoe : off ≤ e) :
    off ≤ trimOff s off e ∧ trimOff s off e ≤ e ∧ ∀ x, off ≤ x → x < trimOff s off e → Mem s.inset x := by
  unfold trimOff
  cases hs : s.inset with
  | nil => simp; omega
  | cons r0 rest =>
    by_cases hc : r0.s ≤ off ∧ off < r0.e
    · simp only [hc, and_self, if_true]
      by_cases he : e ≤ r0.e
      · simp only [he, if_true]
        exact ⟨by omega, by omega, fun x h1 h2 => ⟨r0, by simp, by omega, by omega⟩⟩
      · simp only [he, if_false]
        exact ⟨by omega, by omega, fun x h1 h2 => ⟨r0, by simp, by omega, by omega⟩⟩
    · simp only [hc, if_false]
      exact ⟨by omega, by omega, fun x h1 h2 => by omega⟩

/-- **`handleData` keeps the byte-level invariant** for every frame that carries a slice of `w`
(any offset: in order, duplicate, overlapping, out of order). -/
theorem handleData_RI (w : List Nat) (c : Conn) (s : Stream) (spec : Spec) (off : Int) (b : List Nat) (fin : Bool)
    (h : RI w s spec) (hf : FrameOf w off b)
    (h0 : (handleData c s off b fin).2.2 = 0) (hopen : ¬ (s.inclosed.isSet = true ∨ s.inresetcode ≠ -1)) :
    ∃ spec', RI w (handleData c s off b fin).2.1 spec' ∧ (handleData c s off b fin).2.1.inp.start = s.inp.start ∧
      (handleData c s off b fin).2.1.panicked = s.panicked := by
  have hshape := handleData_shape c s off b fin h0 hopen
  simp only [] at hshape
  obtain ⟨e1, e2, e3, e4, _, _, _, e8⟩ := hshape
  have hlen : (0 : Int) ≤ b.length := Int.natCast_nonneg _
  have htr := trimOff_facts s off (off + b.length) (by omega)
  generalize ho : trimOff s off (off + b.length) = o' at *
  have hk : ((o' - off).toNat : Int) = o' - off := Int.toNat_of_nonneg (by omega)
  have hb'len : ((b.drop (o' - off).toNat).length : Int) = off + b.length - o' := by
    rw [List.length_drop]; omega
  have hwr := writeAt_refines chunk (by decide) s.inp spec (b.drop (o' - off).toNat) o' h.inv h.rel
  have hpw : pipeWrite s.inp (b.drop (o' - off).toNat) o' = Pipe.writeAt chunk s.inp (b.drop (o' - off).toNat) o' := rfl
  rw [hpw] at e1 e8
  generalize handleData c s off b fin = r at *
  obtain ⟨hp, hinv', hrel'⟩ := hwr
  refine ⟨specWrite spec (b.drop (o' - off).toNat) o', ?_, ?_, by rw [e8, hp]; simp⟩
  · have hstart : (specWrite spec (b.drop (o' - off).toNat) o').start = spec.start := by
      unfold specWrite; split <;> rfl
    have hstop : spec.stop ≤ (specWrite spec (b.drop (o' - off).toNat) o').stop ∧
        (off + b.length ≤ spec.start ∨ off + b.length ≤ (specWrite spec (b.drop (o' - off).toNat) o').stop) := by
      unfold specWrite; rw [hb'len]
      split
      · exact ⟨Int.le_refl _, Or.inl (by omega)⟩
      · simp only []; split <;> exact ⟨by omega, Or.inr (by omega)⟩
    have hle := h.inv.1
    have r1 := h.rel.1; have r2 := h.rel.2.1
    have hmem : ∀ x, Mem r.2.1.inset x ↔ (Mem s.inset x ∨ (o' ≤ x ∧ x < off + b.length)) := by
      intro x; rw [e2]; exact mem_add _ _ _ h.wf htr.2.1 x
    refine ⟨by rw [e1]; exact hinv', by rw [e1]; exact hrel', by rw [e2]; exact wf_add _ _ _ h.wf htr.2.1, ?_, ?_, ?_, ?_, ?_, ?_⟩
    · intro x hx
      rw [e1, hrel'.2.1]
      rcases (hmem x).1 hx with hx | hx
      · have := h.cov x hx; exact ⟨this.1, by omega, this.2.2⟩
      · refine ⟨by have := hf.1; omega, ?_, by have := hf.2.1; omega⟩
        rcases hstop.2 with h1 | h1 <;> omega
    · intro x hx hm
      rw [e1, hrel'.1, hstart, ← r1] at hx
      have hold : ¬ (o' ≤ x ∧ x < off + b.length) → spec.data x = wAt w x := fun hn => by
        rcases (hmem x).1 hm with h1 | h1
        · exact h.dat x hx h1
        · exact absurd h1 hn
      unfold specWrite
      rw [hb'len]
      split
      · apply hold; omega
      · simp only []
        by_cases hin : spec.start ≤ x ∧ o' ≤ x ∧ x < o' + (off + ↑b.length - o')
        · rw [if_pos hin]
          rw [List.getElem?_drop]
          have hidx : (o' - off).toNat + (x - o').toNat = (x - off).toNat := by omega
          rw [hidx]
          have hi := hf.2.2 (x - off).toNat (by omega)
          rw [hi]; congr 1; omega
        · rw [if_neg hin]; apply hold; omega
    · rw [e1, hrel'.1, hstart, ← r1]; exact h.st0
    · intro i hi; rw [e3] at hi ⊢; rw [e1, hrel'.1, hstart, ← r1]; exact h.buf i hi
    · intro x h1 h2
      rw [e1, hrel'.1, hstart, ← r1] at h1 h2; rw [e3] at h2
      exact (hmem x).2 (Or.inl (h.bufcov x h1 h2))
    · rw [e3, e4]; exact h.off
  · rw [e1, hrel'.1]; unfold specWrite; have := h.rel.1; split <;> simp [this]


/-- **`pipe.copy` of received bytes returns the sender's bytes**: for `k` bytes from the pipe start that
all lie in the received set, through the chunked representation (C30 `read_returns_written`). -/
theorem copy_bytes (w : List Nat) (s : Stream) (spec : Spec) (h : RI w s spec) (k : Nat)
    (hk : ∀ x, s.inp.start ≤ x → x < s.inp.start + k → Mem s.inset x) :
    ∃ bytes, Pipe.copy s.inp s.inp.start k = some bytes ∧ bytes.length = k ∧
      ∀ i : Nat, i < k → bytes[i]? = wAt w (s.inp.start + i) := by
  have hstop : s.inp.start + k ≤ s.inp.stop := by
    by_cases h0 : k = 0
    · subst h0; have := h.inv.1; simpa using this
    · have := (h.cov (s.inp.start + k - 1) (hk _ (by omega) (by omega))).2.1; omega
  have r1 := h.rel.1; have r2 := h.rel.2.1
  obtain ⟨cs, e1, e2, e3⟩ := read_returns_written chunk (by decide) s.inp spec s.inp.start k h.inv h.rel
    (by omega) (Int.natCast_nonneg _) (by omega)
  refine ⟨cs.flatten, by unfold Pipe.copy; rw [e1]; rfl, by omega, ?_⟩
  intro i hi
  have hm := hk (s.inp.start + i) (by omega) (by omega)
  have hd := h.dat _ (by omega) hm
  have hx := (h.cov _ hm)
  have hsome : ∃ v, wAt w (s.inp.start + i) = some v := by
    unfold wAt; rw [if_pos hx.1]
    exact ⟨w[(s.inp.start + ↑i).toNat]'(by omega), List.getElem?_eq_getElem (by omega)⟩
  obtain ⟨v, hv⟩ := hsome
  rw [hv]
  exact e3 i v (by omega) (by rw [hd, hv])

/-- position of the reader: bytes consumed from the pipe plus bytes consumed from the fast-path buffer -/
def pos (s : Stream) : Int := s.inp.start + s.inbufoff

/-- the bytes a `Read` handed out -/
def bytesOf : ReadRes → List Nat
  | .data b _ => b
  | _ => []

/-- **fast path**: while `inbuf` holds unread bytes, `Read` returns exactly the sender's next bytes and
advances the position by their number; the pipe is not touched. -/
theorem read_fast (w : List Nat) (c : Conn) (s : Stream) (spec : Spec) (n : Nat) (h : RI w s spec)
    (hw : s.writeOnly = false) (hf : s.inbuf.length > s.inbufoff) :
    let r := QuicStream.read c s n
    RI w r.2.1 spec ∧ pos r.2.1 = pos s + (bytesOf r.2.2).length ∧
    (bytesOf r.2.2).length = min n (s.inbuf.length - s.inbufoff) ∧
    (∀ i : Nat, i < (bytesOf r.2.2).length → (bytesOf r.2.2)[i]? = wAt w (pos s + i)) ∧ r.2.2 ≠ .panic := by
  have hr : QuicStream.read c s n = (c, { s with inbufoff := s.inbufoff + min n (s.inbuf.length - s.inbufoff) },
      .data ((s.inbuf.drop s.inbufoff).take (min n (s.inbuf.length - s.inbufoff))) false) := by
    unfold QuicStream.read; simp [hw, hf]
  rw [hr]
  simp only [bytesOf]
  have hlen : ((s.inbuf.drop s.inbufoff).take (min n (s.inbuf.length - s.inbufoff))).length =
      min n (s.inbuf.length - s.inbufoff) := by
    rw [List.length_take, List.length_drop]; omega
  refine ⟨⟨h.inv, h.rel, h.wf, h.cov, h.dat, h.st0, h.buf, h.bufcov, ?_⟩, ?_, hlen, ?_, by simp⟩
  · show s.inbufoff + min n (s.inbuf.length - s.inbufoff) ≤ s.inbuf.length; omega
  · unfold pos; simp only []; rw [hlen]; omega
  · intro i hi
    rw [hlen] at hi
    rw [List.getElem?_take_of_lt (by omega), List.getElem?_drop]
    have := h.buf (s.inbufoff + i) (by omega)
    rw [this]; unfold pos; congr 1; omega


/-- `in.discardBefore(t)` with the fast-path buffer empty keeps the invariant. -/
theorem discard_RI (w : List Nat) (s : Stream) (spec : Spec) (h : RI w s spec) (t : Int) (ht : s.inp.start ≤ t) :
    RI w { s with inp := Pipe.discardBefore s.inp t, inbuf := [], inbufoff := 0 } (specDiscard spec t) := by
  have hd := discard_refines chunk s.inp spec t h.inv h.rel (by rw [← h.rel.1]; exact ht)
  have hstop : s.inp.stop ≤ (Pipe.discardBefore s.inp t).stop := by
    unfold Pipe.discardBefore; simp only []; split <;> omega
  have hstart : (Pipe.discardBefore s.inp t).start = t := rfl
  refine ⟨hd.1, hd.2, h.wf, ?_, ?_, ?_, ?_, ?_, ?_⟩
  · intro x hx; have := h.cov x hx; exact ⟨this.1, by show x < (Pipe.discardBefore s.inp t).stop; omega, this.2.2⟩
  · intro x hx hm
    show (specDiscard spec t).data x = wAt w x
    have hx' : t ≤ x := hx
    unfold specDiscard; simp only []; exact h.dat x (by omega) hm
  · show 0 ≤ t; have := h.st0; omega
  · intro i hi; simp at hi
  · intro x h1 h2
    have h1' : t ≤ x := h1
    have h2' : x < t + ((([] : List Nat).length : Nat) : Int) := h2
    simp at h2'; omega
  · simp

/-- bytes parked in the fast-path buffer by `in.peek` are the sender's bytes. -/
theorem peek_bytes (w : List Nat) (s : Stream) (spec : Spec) (h : RI w s spec) (m : Int) (hm : 0 ≤ m)
    (hcov : ∀ x, s.inp.start ≤ x → x < s.inp.start + m → Mem s.inset x) :
    ∃ pb, Pipe.peek s.inp m = some pb ∧ (pb.length : Int) ≤ m ∧
      ∀ i : Nat, i < pb.length → pb[i]? = wAt w (s.inp.start + i) := by
  obtain ⟨pb, e1, e2, e3⟩ := peek_prefix chunk s.inp m h.inv hm
  refine ⟨pb, e1, e2, fun i hi => ?_⟩
  rw [e3 i hi]
  have hmem := hcov (s.inp.start + i) (by omega) (by omega)
  have hc := h.cov _ hmem
  have hd := h.dat _ (by omega) hmem
  have hsome : ∃ v, wAt w (s.inp.start + i) = some v := by
    unfold wAt; rw [if_pos hc.1]
    exact ⟨w[(s.inp.start + ↑i).toNat]'(by omega), List.getElem?_eq_getElem (by omega)⟩
  obtain ⟨v, hv⟩ := hsome
  rw [hv]
  exact h.rel.2.2.1 _ v (by have := NetVerif.Proofs.C30.headOff_le_start chunk s.inp h.inv; omega)
    (by rw [← h.rel.2.1]; exact hc.2.1) (by rw [hd, hv])


/-- a freshly created stream satisfies the invariant for any sender sequence -/
theorem fresh_RI (w : List Nat) (s : Stream) (h1 : s.inp = Pipe.empty) (h2 : s.inset = []) (h3 : s.inbuf = [])
    (h4 : s.inbufoff = 0) : RI w s Spec.empty := by
  refine ⟨by rw [h1]; exact NetVerif.Proofs.C30.inv_empty chunk, by rw [h1]; exact NetVerif.Proofs.C30.rel_empty,
    by rw [h2]; exact ⟨0, trivial⟩, ?_, ?_, by rw [h1]; decide, ?_, ?_, by rw [h3, h4]; simp⟩
  · intro x hx; rw [h2] at hx; simp at hx
  · intro x _ hx; rw [h2] at hx; simp at hx
  · intro i hi; rw [h3] at hi; simp at hi
  · intro x a b; rw [h3] at b; simp at b; omega

/-- deliver one frame (a refused frame aborts the connection: the state is kept) -/
def feed (cs : Conn × Stream) (f : Int × List Nat × Bool) : Conn × Stream :=
  let r := handleData cs.1 cs.2 f.1 f.2.1 f.2.2
  if r.2.2 = 0 then (r.1, r.2.1) else cs

def isOpen (s : Stream) : Prop := ¬ (s.inclosed.isSet = true ∨ s.inresetcode ≠ -1)

/-- **All arrival orders.** After ANY sequence of STREAM frames that carry slices of one sender byte
sequence `w` (in order, reordered, duplicated, overlapping, across chunk boundaries), the byte-level
invariant holds: the chunked pipe refines a byte map in which every received, undiscarded offset holds
`w[x]`; the read position has not moved and no pipe primitive panicked. -/
theorem frames_RI (w : List Nat) (frames : List (Int × List Nat × Bool))
    (hf : ∀ f ∈ frames, FrameOf w f.1 f.2.1) :
    ∀ (c : Conn) (s : Stream) (spec : Spec), RI w s spec → isOpen s →
      ∃ spec', RI w (frames.foldl feed (c, s)).2 spec' ∧ isOpen (frames.foldl feed (c, s)).2 ∧
        (frames.foldl feed (c, s)).2.inp.start = s.inp.start ∧ (frames.foldl feed (c, s)).2.panicked = s.panicked ∧
        (frames.foldl feed (c, s)).2.inbuf = s.inbuf ∧ (frames.foldl feed (c, s)).2.inbufoff = s.inbufoff := by
  induction frames with
  | nil => intro c s spec h ho; exact ⟨spec, h, ho, rfl, rfl, rfl, rfl⟩
  | cons f rest ih =>
    intro c s spec h ho
    simp only [List.foldl_cons]
    have hfr := hf f (by simp)
    by_cases h0 : (handleData c s f.1 f.2.1 f.2.2).2.2 = 0
    · have hfeed : feed (c, s) f = ((handleData c s f.1 f.2.1 f.2.2).1, (handleData c s f.1 f.2.1 f.2.2).2.1) := by
        unfold feed; simp [h0]
      rw [hfeed]
      obtain ⟨spec1, h1, hs1, hp1⟩ := handleData_RI w c s spec f.1 f.2.1 f.2.2 h hfr h0 ho
      have hsh := handleData_shape c s f.1 f.2.1 f.2.2 h0 ho
      simp only [] at hsh
      have ho1 : isOpen (handleData c s f.1 f.2.1 f.2.2).2.1 := by
        unfold isOpen; rw [hsh.2.2.2.2.1, hsh.2.2.2.2.2.1]; exact ho
      obtain ⟨spec', a1, a2, a3, a4, a5, a6⟩ := ih (fun g hg => hf g (by simp [hg])) _ _ spec1 h1 ho1
      exact ⟨spec', a1, a2, by rw [a3, hs1], by rw [a4, hp1], by rw [a5, hsh.2.2.1], by rw [a6, hsh.2.2.2.1]⟩
    · have hfeed : feed (c, s) f = (c, s) := by unfold feed; simp [h0]
      rw [hfeed]
      exact ih (fun g hg => hf g (by simp [hg])) c s spec h ho

end NetVerif.Proofs.Lemmas.QuicRecv
