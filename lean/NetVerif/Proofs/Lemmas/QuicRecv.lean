import NetVerif.Model.QuicStream
import NetVerif.Proofs.C24
import NetVerif.Proofs.C30
/-! Receive side of a QUIC stream: byte-level refinement through the chunked pipe (C19).
Invariant `RI w s spec`: the stream's pipe refines the byte map `spec` (C30), and every received,
not yet discarded offset holds the sender's byte `w[x]`. -/
namespace NetVerif.Proofs.Lemmas.QuicRecv
open NetVerif.Model NetVerif.Model.QuicStream
open NetVerif.Model.Rangeset (RS Rg)
open NetVerif.Proofs.C24 (Mem WF mem_add wf_add)
open NetVerif.Proofs.C30 (Spec Inv Rel specWrite specDiscard writeAt_refines discard_refines read_returns_written
  peek_prefix byteAt)

/-- the sender's byte at stream offset `x` -/
def wAt (w : List Nat) (x : Int) : Option Nat := if 0 ≤ x then w[x.toNat]? else none

/-- a STREAM frame that carries a slice of the sender's byte sequence -/
def FrameOf (w : List Nat) (off : Int) (b : List Nat) : Prop :=
  0 ≤ off ∧ off + b.length ≤ w.length ∧ ∀ i : Nat, i < b.length → b[i]? = wAt w (off + i)

structure RI (w : List Nat) (s : Stream) (spec : Spec) : Prop where
  inv : Inv chunk s.inp
  rel : Rel s.inp spec
  wf : WF s.inset
  cov : ∀ x, Mem s.inset x → 0 ≤ x ∧ x < s.inp.stop ∧ x < w.length
  dat : ∀ x, s.inp.start ≤ x → Mem s.inset x → spec.data x = wAt w x
  st0 : 0 ≤ s.inp.start
  buf : ∀ i : Nat, i < s.inbuf.length → s.inbuf[i]? = wAt w (s.inp.start + i)
  bufcov : ∀ x, s.inp.start ≤ x → x < s.inp.start + s.inbuf.length → Mem s.inset x
  off : s.inbufoff ≤ s.inbuf.length

/-- The range `handleData` records after the duplicate trim. -/
def trimOff (s : Stream) (off e : Int) : Int :=
  match s.inset with
  | r0 :: _ => if r0.s ≤ off ∧ off < r0.e then (if e ≤ r0.e then e else r0.e) else off
  | [] => off

/-- shape of an accepted `handleData` on an open stream -/
theorem handleData_shape (c : Conn) (s : Stream) (off : Int) (b : List Nat) (fin : Bool)
    (h0 : (handleData c s off b fin).2.2 = 0) (hopen : ¬ (s.inclosed.isSet = true ∨ s.inresetcode ≠ -1)) :
    let t := (handleData c s off b fin).2.1
    let o' := trimOff s off (off + b.length)
    t.inp = (pipeWrite s.inp (b.drop (o' - off).toNat) o').1 ∧
    t.inset = Rangeset.add s.inset o' (off + b.length) ∧
    t.inbuf = s.inbuf ∧ t.inbufoff = s.inbufoff ∧ t.inclosed = s.inclosed ∧ t.inresetcode = s.inresetcode ∧
    t.insize = (if fin then off + b.length else s.insize) ∧
    t.panicked = (s.panicked || (pipeWrite s.inp (b.drop (o' - off).toNat) o').2) := by
  unfold handleData at h0 ⊢
  simp only [] at h0 ⊢
  by_cases h1 : checkStreamBounds s.inwin s.insize s.inp.stop (off + b.length) fin = 0
  · simp only [h1, ne_eq, not_true_eq_false, if_false, hopen] at h0 ⊢
    by_cases h3 : s.insize = -1 ∧ off + (b.length : Int) > s.inp.stop
    · simp only [h3, and_self, if_true] at h0 ⊢
      by_cases h5 : (bytesReceived c.usedLimit c.sentLimit (off + b.length - s.inp.stop)).1 = 0
      · simp only [h5, ne_eq, not_true_eq_false, if_false] at h0 ⊢
        unfold trimOff
        cases hs : s.inset with
        | nil => cases fin <;> simp
        | cons r0 rest => by_cases hc : r0.s ≤ off ∧ off < r0.e <;> cases fin <;> simp [hc]
      · simp [h5] at h0
    · simp only [h3, if_false, ne_eq, not_true_eq_false] at h0 ⊢
      unfold trimOff
      cases hs : s.inset with
      | nil => cases fin <;> simp
      | cons r0 rest => by_cases hc : r0.s ≤ off ∧ off < r0.e <;> cases fin <;> simp [hc]
  · simp [h1] at h0


theorem trimOff_facts (s : Stream) (off e : Int) (hoe : off ≤ e) :
    off ≤ trimOff s off e ∧ trimOff s off e ≤ e ∧ ∀ x, off ≤ x → x < trimOff s off e → Mem s.inset x := by
  unfold trimOff
  cases hs : s.inset with
  | nil => simp; omega
  | cons r0 rest =>
    by_cases hc : r0.s ≤ off ∧ off < r0.e
    · simp only [hc, and_self, if_true]
      by_cases he : e ≤ r0.e
      · simp only [he, if_true]
        exact ⟨by omega, by omega, fun x h1 h2 => ⟨r0, by simp, by omega, by omega⟩⟩
      · simp only [he, if_false]
        exact ⟨by omega, by omega, fun x h1 h2 => ⟨r0, by simp, by omega, by omega⟩⟩
    · simp only [hc, if_false]
      exact ⟨by omega, by omega, fun x h1 h2 => by omega⟩

/-- **`handleData` keeps the byte-level invariant** for every frame that carries a slice of `w`
(any offset: in order, duplicate, overlapping, out of order). -/
theorem handleData_RI (w : List Nat) (c : Conn) (s : Stream) (spec : Spec) (off : Int) (b : List Nat) (fin : Bool)
    (h : RI w s spec) (hf : FrameOf w off b)
    (h0 : (handleData c s off b fin).2.2 = 0) (hopen : ¬ (s.inclosed.isSet = true ∨ s.inresetcode ≠ -1)) :
    ∃ spec', RI w (handleData c s off b fin).2.1 spec' ∧ (handleData c s off b fin).2.1.inp.start = s.inp.start ∧
      (handleData c s off b fin).2.1.panicked = s.panicked := by
  have hshape := handleData_shape c s off b fin h0 hopen
  simp only [] at hshape
  obtain ⟨e1, e2, e3, e4, _, _, _, e8⟩ := hshape
  have hlen : (0 : Int) ≤ b.length := Int.natCast_nonneg _
  have htr := trimOff_facts s off (off + b.length) (by omega)
  generalize ho : trimOff s off (off + b.length) = o' at *
  have hk : ((o' - off).toNat : Int) = o' - off := Int.toNat_of_nonneg (by omega)
  have hb'len : ((b.drop (o' - off).toNat).length : Int) = off + b.length - o' := by
    rw [List.length_drop]; omega
  have hwr := writeAt_refines chunk (by decide) s.inp spec (b.drop (o' - off).toNat) o' h.inv h.rel
  have hpw : pipeWrite s.inp (b.drop (o' - off).toNat) o' = Pipe.writeAt chunk s.inp (b.drop (o' - off).toNat) o' := rfl
  rw [hpw] at e1 e8
  generalize handleData c s off b fin = r at *
  obtain ⟨hp, hinv', hrel'⟩ := hwr
  refine ⟨specWrite spec (b.drop (o' - off).toNat) o', ?_, ?_, by rw [e8, hp]; simp⟩
  · have hstart : (specWrite spec (b.drop (o' - off).toNat) o').start = spec.start := by
      unfold specWrite; split <;> rfl
    have hstop : spec.stop ≤ (specWrite spec (b.drop (o' - off).toNat) o').stop ∧
        (off + b.length ≤ spec.start ∨ off + b.length ≤ (specWrite spec (b.drop (o' - off).toNat) o').stop) := by
      unfold specWrite; rw [hb'len]
      split
      · exact ⟨Int.le_refl _, Or.inl (by omega)⟩
      · simp only []; split <;> exact ⟨by omega, Or.inr (by omega)⟩
    have hle := h.inv.1
    have r1 := h.rel.1; have r2 := h.rel.2.1
    have hmem : ∀ x, Mem r.2.1.inset x ↔ (Mem s.inset x ∨ (o' ≤ x ∧ x < off + b.length)) := by
      intro x; rw [e2]; exact mem_add _ _ _ h.wf htr.2.1 x
    refine ⟨by rw [e1]; exact hinv', by rw [e1]; exact hrel', by rw [e2]; exact wf_add _ _ _ h.wf htr.2.1, ?_, ?_, ?_, ?_, ?_, ?_⟩
    · intro x hx
      rw [e1, hrel'.2.1]
      rcases (hmem x).1 hx with hx | hx
      · have := h.cov x hx; exact ⟨this.1, by omega, this.2.2⟩
      · refine ⟨by have := hf.1; omega, ?_, by have := hf.2.1; omega⟩
        rcases hstop.2 with h1 | h1 <;> omega
    · intro x hx hm
      rw [e1, hrel'.1, hstart, ← r1] at hx
      have hold : ¬ (o' ≤ x ∧ x < off + b.length) → spec.data x = wAt w x := fun hn => by
        rcases (hmem x).1 hm with h1 | h1
        · exact h.dat x hx h1
        · exact absurd h1 hn
      unfold specWrite
      rw [hb'len]
      split
      · apply hold; omega
      · simp only []
        by_cases hin : spec.start ≤ x ∧ o' ≤ x ∧ x < o' + (off + ↑b.length - o')
        · rw [if_pos hin]
          rw [List.getElem?_drop]
          have hidx : (o' - off).toNat + (x - o').toNat = (x - off).toNat := by omega
          rw [hidx]
          have hi := hf.2.2 (x - off).toNat (by omega)
          rw [hi]; congr 1; omega
        · rw [if_neg hin]; apply hold; omega
    · rw [e1, hrel'.1, hstart, ← r1]; exact h.st0
    · intro i hi; rw [e3] at hi ⊢; rw [e1, hrel'.1, hstart, ← r1]; exact h.buf i hi
    · intro x h1 h2
      rw [e1, hrel'.1, hstart, ← r1] at h1 h2; rw [e3] at h2
      exact (hmem x).2 (Or.inl (h.bufcov x h1 h2))
    · rw [e3, e4]; exact h.off
  · rw [e1, hrel'.1]; unfold specWrite; have := h.rel.1; split <;> simp [this]


/-- **`pipe.copy` of received bytes returns the sender's bytes**: for `k` bytes from the pipe start that
all lie in the received set, through the chunked representation (C30 `read_returns_written`). -/
theorem copy_bytes (w : List Nat) (s : Stream) (spec : Spec) (h : RI w s spec) (k : Nat)
    (hk : ∀ x, s.inp.start ≤ x → x < s.inp.start + k → Mem s.inset x) :
    ∃ bytes, Pipe.copy s.inp s.inp.start k = some bytes ∧ bytes.length = k ∧
      ∀ i : Nat, i < k → bytes[i]? = wAt w (s.inp.start + i) := by
  have hstop : s.inp.start + k ≤ s.inp.stop := by
    by_cases h0 : k = 0
    · subst h0; have := h.inv.1; simpa using this
    · have := (h.cov (s.inp.start + k - 1) (hk _ (by omega) (by omega))).2.1; omega
  have r1 := h.rel.1; have r2 := h.rel.2.1
  obtain ⟨cs, e1, e2, e3⟩ := read_returns_written chunk (by decide) s.inp spec s.inp.start k h.inv h.rel
    (by omega) (Int.natCast_nonneg _) (by omega)
  refine ⟨cs.flatten, by unfold Pipe.copy; rw [e1]; rfl, by omega, ?_⟩
  intro i hi
  have hm := hk (s.inp.start + i) (by omega) (by omega)
  have hd := h.dat _ (by omega) hm
  have hx := (h.cov _ hm)
  have hsome : ∃ v, wAt w (s.inp.start + i) = some v := by
    unfold wAt; rw [if_pos hx.1]
    exact ⟨w[(s.inp.start + ↑i).toNat]'(by omega), List.getElem?_eq_getElem (by omega)⟩
  obtain ⟨v, hv⟩ := hsome
  rw [hv]
  exact e3 i v (by omega) (by rw [hd, hv])

/-- position of the reader: bytes consumed from the pipe plus bytes consumed from the fast-path buffer -/
def pos (s : Stream) : Int := s.inp.start + s.inbufoff

/-- the bytes a `Read` handed out -/
def bytesOf : ReadRes → List Nat
  | .data b _ => b
  | _ => []

/-- **fast path**: while `inbuf` holds unread bytes, `Read` returns exactly the sender's next bytes and
advances the position by their number; the pipe is not touched. -/
theorem read_fast (w : List Nat) (c : Conn) (s : Stream) (spec : Spec) (n : Nat) (h : RI w s spec)
    (hw : s.writeOnly = false) (hf : s.inbuf.length > s.inbufoff) :
    let r := QuicStream.read c s n
    RI w r.2.1 spec ∧ pos r.2.1 = pos s + (bytesOf r.2.2).length ∧
    (bytesOf r.2.2).length = min n (s.inbuf.length - s.inbufoff) ∧
    (∀ i : Nat, i < (bytesOf r.2.2).length → (bytesOf r.2.2)[i]? = wAt w (pos s + i)) ∧ r.2.2 ≠ .panic := by
  have hr : QuicStream.read c s n = (c, { s with inbufoff := s.inbufoff + min n (s.inbuf.length - s.inbufoff) },
      .data ((s.inbuf.drop s.inbufoff).take (min n (s.inbuf.length - s.inbufoff))) false) := by
    unfold QuicStream.read; simp [hw, hf]
  rw [hr]
  simp only [bytesOf]
  have hlen : ((s.inbuf.drop s.inbufoff).take (min n (s.inbuf.length - s.inbufoff))).length =
      min n (s.inbuf.length - s.inbufoff) := by
    rw [List.length_take, List.length_drop]; omega
  refine ⟨⟨h.inv, h.rel, h.wf, h.cov, h.dat, h.st0, h.buf, h.bufcov, ?_⟩, ?_, hlen, ?_, by simp⟩
  · show s.inbufoff + min n (s.inbuf.length - s.inbufoff) ≤ s.inbuf.length; omega
  · unfold pos; simp only []; rw [hlen]; omega
  · intro i hi
    rw [hlen] at hi
    rw [List.getElem?_take_of_lt (by omega), List.getElem?_drop]
    have := h.buf (s.inbufoff + i) (by omega)
    rw [this]; unfold pos; congr 1; omega


/-- `in.discardBefore(t)` with the fast-path buffer empty keeps the invariant. -/
theorem discard_RI (w : List Nat) (s : Stream) (spec : Spec) (h : RI w s spec) (t : Int) (ht : s.inp.start ≤ t) :
    RI w { s with inp := Pipe.discardBefore s.inp t, inbuf := [], inbufoff := 0 } (specDiscard spec t) := by
  have hd := discard_refines chunk s.inp spec t h.inv h.rel (by rw [← h.rel.1]; exact ht)
  have hstop : s.inp.stop ≤ (Pipe.discardBefore s.inp t).stop := by
    unfold Pipe.discardBefore; simp only []; split <;> omega
  have hstart : (Pipe.discardBefore s.inp t).start = t := rfl
  refine ⟨hd.1, hd.2, h.wf, ?_, ?_, ?_, ?_, ?_, ?_⟩
  · intro x hx; have := h.cov x hx; exact ⟨this.1, by show x < (Pipe.discardBefore s.inp t).stop; omega, this.2.2⟩
  · intro x hx hm
    show (specDiscard spec t).data x = wAt w x
    have hx' : t ≤ x := hx
    unfold specDiscard; simp only []; exact h.dat x (by omega) hm
  · show 0 ≤ t; have := h.st0; omega
  · intro i hi; simp at hi
  · intro x h1 h2
    have h1' : t ≤ x := h1
    have h2' : x < t + ((([] : List Nat).length : Nat) : Int) := h2
    simp at h2'; omega
  · simp

/-- bytes parked in the fast-path buffer by `in.peek` are the sender's bytes. -/
theorem peek_bytes (w : List Nat) (s : Stream) (spec : Spec) (h : RI w s spec) (m : Int) (hm : 0 ≤ m)
    (hcov : ∀ x, s.inp.start ≤ x → x < s.inp.start + m → Mem s.inset x) :
    ∃ pb, Pipe.peek s.inp m = some pb ∧ (pb.length : Int) ≤ m ∧
      ∀ i : Nat, i < pb.length → pb[i]? = wAt w (s.inp.start + i) := by
  obtain ⟨pb, e1, e2, e3⟩ := peek_prefix chunk s.inp m h.inv hm
  refine ⟨pb, e1, e2, fun i hi => ?_⟩
  rw [e3 i hi]
  have hmem := hcov (s.inp.start + i) (by omega) (by omega)
  have hc := h.cov _ hmem
  have hd := h.dat _ (by omega) hmem
  have hsome : ∃ v, wAt w (s.inp.start + i) = some v := by
    unfold wAt; rw [if_pos hc.1]
    exact ⟨w[(s.inp.start + ↑i).toNat]'(by omega), List.getElem?_eq_getElem (by omega)⟩
  obtain ⟨v, hv⟩ := hsome
  rw [hv]
  exact h.rel.2.2.1 _ v (by have := NetVerif.Proofs.C30.headOff_le_start chunk s.inp h.inv; omega)
    (by rw [← h.rel.2.1]; exact hc.2.1) (by rw [hd, hv])


/-- a freshly created stream satisfies the invariant for any sender sequence -/
theorem fresh_RI (w : List Nat) (s : Stream) (h1 : s.inp = Pipe.empty) (h2 : s.inset = []) (h3 : s.inbuf = [])
    (h4 : s.inbufoff = 0) : RI w s Spec.empty := by
  refine ⟨by rw [h1]; exact NetVerif.Proofs.C30.inv_empty chunk, by rw [h1]; exact NetVerif.Proofs.C30.rel_empty,
    by rw [h2]; exact ⟨0, trivial⟩, ?_, ?_, by rw [h1]; decide, ?_, ?_, by rw [h3, h4]; simp⟩
  · intro x hx; rw [h2] at hx; simp at hx
  · intro x _ hx; rw [h2] at hx; simp at hx
  · intro i hi; rw [h3] at hi; simp at hi
  · intro x a b; rw [h3] at b; simp at b; omega

/-- deliver one frame (a refused frame aborts the connection: the state is kept) -/
def feed (cs : Conn × Stream) (f : Int × List Nat × Bool) : Conn × Stream :=
  let r := handleData cs.1 cs.2 f.1 f.2.1 f.2.2
  if r.2.2 = 0 then (r.1, r.2.1) else cs

def isOpen (s : Stream) : Prop := ¬ (s.inclosed.isSet = true ∨ s.inresetcode ≠ -1)

/-- **All arrival orders.** After ANY sequence of STREAM frames that carry slices of one sender byte
sequence `w` (in order, reordered, duplicated, overlapping, across chunk boundaries), the byte-level
invariant holds: the chunked pipe refines a byte map in which every received, undiscarded offset holds
`w[x]`; the read position has not moved and no pipe primitive panicked. -/
theorem frames_RI (w : List Nat) (frames : List (Int × List Nat × Bool))
    (hf : ∀ f ∈ frames, FrameOf w f.1 f.2.1) :
    ∀ (c : Conn) (s : Stream) (spec : Spec), RI w s spec → isOpen s →
      ∃ spec', RI w (frames.foldl feed (c, s)).2 spec' ∧ isOpen (frames.foldl feed (c, s)).2 ∧
        (frames.foldl feed (c, s)).2.inp.start = s.inp.start ∧ (frames.foldl feed (c, s)).2.panicked = s.panicked ∧
        (frames.foldl feed (c, s)).2.inbuf = s.inbuf ∧ (frames.foldl feed (c, s)).2.inbufoff = s.inbufoff := by
  induction frames with
  | nil => intro c s spec h ho; exact ⟨spec, h, ho, rfl, rfl, rfl, rfl⟩
  | cons f rest ih =>
    intro c s spec h ho
    simp only [List.foldl_cons]
    have hfr := hf f (by simp)
    by_cases h0 : (handleData c s f.1 f.2.1 f.2.2).2.2 = 0
    · have hfeed : feed (c, s) f = ((handleData c s f.1 f.2.1 f.2.2).1, (handleData c s f.1 f.2.1 f.2.2).2.1) := by
        unfold feed; simp [h0]
      rw [hfeed]
      obtain ⟨spec1, h1, hs1, hp1⟩ := handleData_RI w c s spec f.1 f.2.1 f.2.2 h hfr h0 ho
      have hsh := handleData_shape c s f.1 f.2.1 f.2.2 h0 ho
      simp only [] at hsh
      have ho1 : isOpen (handleData c s f.1 f.2.1 f.2.2).2.1 := by
        unfold isOpen; rw [hsh.2.2.2.2.1, hsh.2.2.2.2.2.1]; exact ho
      obtain ⟨spec', a1, a2, a3, a4, a5, a6⟩ := ih (fun g hg => hf g (by simp [hg])) _ _ spec1 h1 ho1
      exact ⟨spec', a1, a2, by rw [a3, hs1], by rw [a4, hp1], by rw [a5, hsh.2.2.1], by rw [a6, hsh.2.2.2.1]⟩
    · have hfeed : feed (c, s) f = (c, s) := by unfold feed; simp [h0]
      rw [hfeed]
      exact ih (fun g hg => hf g (by simp [hg])) c s spec h ho


/-! ### the slow path of `Read` -/

/-- `RI` only looks at these fields. -/
theorem RI_fields {w : List Nat} {s t : Stream} {spec : Spec} (h : RI w s spec) (h1 : t.inp = s.inp)
    (h2 : t.inset = s.inset) (h3 : t.inbuf = s.inbuf) (h4 : t.inbufoff = s.inbufoff) : RI w t spec :=
  ⟨by rw [h1]; exact h.inv, by rw [h1]; exact h.rel, by rw [h2]; exact h.wf, by rw [h2, h1]; exact h.cov,
   by rw [h1, h2]; exact h.dat, by rw [h1]; exact h.st0, by rw [h3, h1]; exact h.buf,
   by rw [h1, h3, h2]; exact h.bufcov, by rw [h3, h4]; exact h.off⟩

/-- everything before the read position (consumed or parked) has been received -/
def Pre (s : Stream) : Prop := ∀ x, 0 ≤ x → x < s.inp.start + s.inbuf.length → Mem s.inset x

/-- if `[0, p]` is received, the first stored range is `[0, e)` with `p < e` -/
theorem head_covers (r0 : Rg) (rest : RS) (p : Int) (hwf : WF (r0 :: rest)) (hp : 0 ≤ p)
    (hall : ∀ x, 0 ≤ x → x ≤ p → Mem (r0 :: rest) x) (hnn : ∀ x, Mem (r0 :: rest) x → 0 ≤ x) :
    r0.s = 0 ∧ p < r0.e := by
  obtain ⟨b, hb⟩ := hwf
  have hne : r0.s < r0.e := hb.2.1
  have h0 : r0.s ≤ 0 := NetVerif.Proofs.C24.chain_head_le hb (hall 0 (Int.le_refl _) hp)
  have h1 : 0 ≤ r0.s := hnn r0.s ⟨r0, by simp, Int.le_refl _, hne⟩
  refine ⟨by omega, ?_⟩
  apply Int.not_le.1
  intro hle
  have hm := hall r0.e (by omega) hle
  rw [NetVerif.Proofs.C24.mem_cons] at hm
  rcases hm with hm | hm
  · omega
  · have := NetVerif.Proofs.C24.chain_lt_of_mem hb.2.2 hm; omega


/-- `Read`, slow path, step 1: drop what the fast path consumed -/
def prep (s : Stream) : Stream :=
  if s.inbufoff > 0 then
    { s with inp := Pipe.discardBefore s.inp (s.inp.start + s.inbufoff), inbufoff := 0, inbuf := [] }
  else s

/-- `Read`, slow path, the rest (verbatim from the model) -/
def slowBody (c : Conn) (s : Stream) (n : Nat) : Conn × Stream × ReadRes :=
  if s.inresetcode ≠ -1 then (c, s, .errReset) else
  if s.inclosed.isSet then (c, s, .errClosed) else
  if s.insize = s.inp.start then (c, s, .eof) else
  match s.inset with
  | [] => (c, { s with panicked := true }, .panic)
  | r0 :: _ =>
    if r0.s ≠ 0 ∨ r0.e ≤ s.inp.start then (c, { s with panicked := true }, .panic) else
    let size := r0.e - s.inp.start
    let n' : Int := if size < n then size else n
    let start := s.inp.start
    let e := start + n'
    match Pipe.copy s.inp start n'.toNat with
    | none => (c, { s with panicked := true }, .panic)
    | some bytes =>
      let s := { s with inp := Pipe.discardBefore s.inp e }
      if e = s.insize then (c.bytesReadOffLoop n', s, .data bytes true) else
      let (s, extra) :=
        if r0.s ≤ s.inp.start ∧ r0.e > s.inp.start then
          match Pipe.peek s.inp (r0.e - s.inp.start) with
          | some pb => ({ s with inbuf := pb }, (pb.length : Int))
          | none => ({ s with panicked := true }, 0)
        else (s, 0)
      let s :=
        if s.insize = -1 ∨ s.insize > s.inwin then
          let newWindow := s.inp.start + s.inbuf.length + s.inmaxbuf
          if shouldUpdateFlowControl s.inmaxbuf (newWindow - s.inwin) then { s with insendmax := .unsent } else s
        else s
      (c.bytesReadOffLoop (n' + extra), s, .data bytes false)

theorem read_eq_slow (c : Conn) (s : Stream) (n : Nat) (hw : s.writeOnly = false)
    (hnf : ¬ s.inbuf.length > s.inbufoff) :
    QuicStream.read c s n = if !s.canRead then (c, s, .blocked) else slowBody c (prep s) n := by
  unfold QuicStream.read
  have h1 : ¬ (s.writeOnly = true) := by simp [hw]
  rw [if_neg h1, if_neg hnf]
  rfl


theorem prep_RI (w : List Nat) (s : Stream) (spec : Spec) (h : RI w s spec) (hp : Pre s)
    (hnf : ¬ s.inbuf.length > s.inbufoff) :
    ∃ spec1, RI w (prep s) spec1 ∧ (prep s).inbuf = [] ∧ (prep s).inbufoff = 0 ∧ (prep s).inp.start = pos s ∧
      Pre (prep s) ∧ (prep s).inset = s.inset ∧ (prep s).insize = s.insize ∧ (prep s).inclosed = s.inclosed ∧
      (prep s).inresetcode = s.inresetcode ∧ (prep s).panicked = s.panicked := by
  have hoff := h.off
  have hlen : s.inbuf.length = s.inbufoff := by omega
  unfold prep
  by_cases h0 : s.inbufoff > 0
  · rw [if_pos h0]
    refine ⟨_, discard_RI w s spec h (s.inp.start + s.inbufoff) (by omega), rfl, rfl, rfl, ?_, rfl, rfl, rfl, rfl, rfl⟩
    intro x hx hx2
    have hx2' : x < s.inp.start + s.inbufoff + ((([] : List Nat).length : Nat) : Int) := hx2
    simp at hx2'
    exact hp x hx (by omega)
  · rw [if_neg h0]
    have hnil : s.inbuf = [] := List.eq_nil_of_length_eq_zero (by omega)
    exact ⟨spec, h, hnil, by omega, by unfold pos; omega, hp, rfl, rfl, rfl, rfl, rfl⟩


/-- what one `Read` guarantees -/
structure ReadPost (w : List Nat) (p0 : Int) (t : Stream) (res : ReadRes) : Prop where
  ri : ∃ spec', RI w t spec'
  pre : Pre t
  adv : pos t = p0 + (bytesOf res).length
  bytes : ∀ i : Nat, i < (bytesOf res).length → (bytesOf res)[i]? = wAt w (p0 + i)
  nopanic : res ≠ .panic
  opn : isOpen t

/-- which result the slow path produces -/
def SlowShape (s : Stream) (n : Nat) (res : ReadRes) : Prop :=
  (s.insize = s.inp.start ∧ res = .eof) ∨
  (s.insize ≠ s.inp.start ∧ ∃ bytes, res = .data bytes (decide (s.inp.start + (bytes.length : Int) = s.insize)) ∧
    (0 < bytes.length ↔ 0 < n))

theorem slowBody_post (w : List Nat) (c : Conn) (s : Stream) (spec : Spec) (n : Nat) (h : RI w s spec)
    (hb : s.inbuf = []) (hbo : s.inbufoff = 0) (hp : Pre s) (ho : isOpen s)
    (hcr : Rangeset.contains s.inset s.inp.start = true ∨ s.insize = s.inp.start) :
    ReadPost w s.inp.start (slowBody c s n).2.1 (slowBody c s n).2.2 ∧ SlowShape s n (slowBody c s n).2.2 ∧
      (slowBody c s n).2.1.insize = s.insize ∧ (slowBody c s n).2.1.inset = s.inset := by
  have hpos : pos s = s.inp.start := by unfold pos; rw [hbo]; simp
  have hself : ReadPost w s.inp.start s .eof :=
    ⟨⟨spec, h⟩, hp, by simp [bytesOf, hpos], by intro i hi; simp [bytesOf] at hi, by simp, ho⟩
  unfold isOpen at ho
  have ho1 : ¬ (s.inresetcode ≠ -1) := fun x => ho (Or.inr x)
  have ho2 : ¬ (s.inclosed.isSet = true) := fun x => ho (Or.inl x)
  unfold slowBody
  rw [if_neg ho1, if_neg ho2]
  by_cases hz : s.insize = s.inp.start
  · rw [if_pos hz]; exact ⟨hself, Or.inl ⟨hz, rfl⟩, rfl, rfl⟩
  · rw [if_neg hz]
    have hmem : Mem s.inset s.inp.start := by
      rcases hcr with h1 | h1
      · exact (NetVerif.Proofs.C24.contains_iff _ h.wf _).1 h1
      · exact absurd h1 hz
    split
    · rename_i hs; rw [hs] at hmem; simp at hmem
    · rename_i r0 rest hs
      have hwf : WF (r0 :: rest) := by rw [← hs]; exact h.wf
      have hhead := head_covers r0 rest s.inp.start hwf h.st0
        (fun x h1 h2 => by
          rw [← hs]
          by_cases hx : x = s.inp.start
          · rw [hx]; exact hmem
          · exact hp x h1 (by rw [hb]; simp; omega))
        (fun x hx => (h.cov x (by rw [hs]; exact hx)).1)
      have hr0 : ∀ x, 0 ≤ x → x < r0.e → Mem s.inset x := fun x h1 h2 => by
        rw [hs]; exact ⟨r0, by simp, by omega, h2⟩
      rw [if_neg (by omega)]
      -- the copy
      simp only []
      generalize hn' : (if r0.e - s.inp.start < (n : Int) then r0.e - s.inp.start else (n : Int)) = n'
      have hn'0 : 0 ≤ n' ∧ s.inp.start + n' ≤ r0.e := by rw [← hn']; split <;> omega
      have hk : (n'.toNat : Int) = n' := Int.toNat_of_nonneg hn'0.1
      obtain ⟨bytes, e1, e2, e3⟩ := copy_bytes w s spec h n'.toNat
        (fun x h1 h2 => hr0 x (by have := h.st0; omega) (by omega))
      rw [e1]
      simp only []
      -- the state after the discard
      have hd := discard_RI w s spec h (s.inp.start + n') (by omega)
      have hs2 : RI w { s with inp := Pipe.discardBefore s.inp (s.inp.start + n') } (specDiscard spec (s.inp.start + n')) :=
        RI_fields hd rfl rfl (by simp [hb]) (by simp [hbo])
      have hbytes : ∀ i : Nat, i < bytes.length → bytes[i]? = wAt w (s.inp.start + i) := fun i hi => e3 i (by omega)
      have hlenpos : 0 < bytes.length ↔ 0 < n := by
        rw [e2]; rw [← hn'] at hk ⊢
        split at hk <;> (split <;> omega)
      by_cases heof : s.inp.start + n' = s.insize
      · rw [if_pos heof]
        refine ⟨?_, Or.inr ⟨hz, bytes, ?_, hlenpos⟩, rfl, rfl⟩
        rotate_left
        · show ReadRes.data bytes true = ReadRes.data bytes (decide (s.inp.start + (bytes.length : Int) = s.insize))
          rw [e2, hk]; simp [heof]
        refine ⟨⟨_, hs2⟩, ?_, ?_, hbytes, by simp, ?_⟩
        · intro x h1 h2
          have h2' : x < s.inp.start + n' + (s.inbuf.length : Int) := h2
          rw [hb] at h2'; simp at h2'
          exact hr0 x h1 (by omega)
        · show s.inp.start + n' + (s.inbufoff : Int) = s.inp.start + bytes.length
          rw [hbo, e2]; simp; omega
        · exact fun x => ho x
      · rw [if_neg heof]
        have hfin : ∀ (t : Stream) (spec' : Spec) (ex : Int), RI w t spec' → Pre t →
            t.inp.start = s.inp.start + n' → t.inbufoff = 0 → t.inclosed = s.inclosed → t.inresetcode = s.inresetcode →
            ReadPost w s.inp.start
              (if t.insize = -1 ∨ t.insize > t.inwin then
                 (if shouldUpdateFlowControl t.inmaxbuf (t.inp.start + t.inbuf.length + t.inmaxbuf - t.inwin) = true
                  then { t with insendmax := .unsent } else t) else t) (.data bytes false) ∧
            SlowShape s n (.data bytes false) ∧
            (if t.insize = -1 ∨ t.insize > t.inwin then
                 (if shouldUpdateFlowControl t.inmaxbuf (t.inp.start + t.inbuf.length + t.inmaxbuf - t.inwin) = true
                  then { t with insendmax := .unsent } else t) else t).insize = t.insize ∧
            (if t.insize = -1 ∨ t.insize > t.inwin then
                 (if shouldUpdateFlowControl t.inmaxbuf (t.inp.start + t.inbuf.length + t.inmaxbuf - t.inwin) = true
                  then { t with insendmax := .unsent } else t) else t).inset = t.inset := by
          intro t spec' ex hri hpre hst hoff hc1 hc2
          refine ⟨?_, Or.inr ⟨hz, bytes, ?_, hlenpos⟩, by split <;> (try split) <;> rfl, by split <;> (try split) <;> rfl⟩
          rotate_left
          · show ReadRes.data bytes false = ReadRes.data bytes (decide (s.inp.start + (bytes.length : Int) = s.insize))
            rw [e2, hk]; simp [heof]
          have base : ∀ u : Stream, u.inp = t.inp → u.inset = t.inset → u.inbuf = t.inbuf → u.inbufoff = t.inbufoff →
              u.inclosed = t.inclosed → u.inresetcode = t.inresetcode → ReadPost w s.inp.start u (.data bytes false) := by
            intro u a1 a2 a3 a4 a5 a6
            refine ⟨⟨spec', RI_fields hri a1 a2 a3 a4⟩, ?_, ?_, hbytes, by simp, ?_⟩
            · intro x h1 h2; rw [a2]; rw [a1, a3] at h2; exact hpre x h1 h2
            · unfold pos; rw [a1, a4, hst, hoff]; simp [bytesOf, e2]; omega
            · unfold isOpen; rw [a5, a6, hc1, hc2]; exact fun x => ho x
          split
          · split
            · exact base _ rfl rfl rfl rfl rfl rfl
            · exact base _ rfl rfl rfl rfl rfl rfl
          · exact base _ rfl rfl rfl rfl rfl rfl
        by_cases hmore : r0.s ≤ s.inp.start + n' ∧ r0.e > s.inp.start + n'
        · -- park the rest of the chunk in inbuf
          have hpk := peek_bytes w _ _ hs2 (r0.e - (s.inp.start + n')) (by omega)
            (fun x h1 h2 => by
              have h1' : s.inp.start + n' ≤ x := h1
              have h2' : x < s.inp.start + n' + (r0.e - (s.inp.start + n')) := h2
              exact hr0 x (by have := h.st0; omega) (by omega))
          obtain ⟨pb, p1, p2, p3⟩ := hpk
          have hcond : r0.s ≤ (Pipe.discardBefore s.inp (s.inp.start + n')).start ∧
              r0.e > (Pipe.discardBefore s.inp (s.inp.start + n')).start := hmore
          simp only []
          rw [if_pos hcond]
          have p1' : Pipe.peek (Pipe.discardBefore s.inp (s.inp.start + n'))
              (r0.e - (Pipe.discardBefore s.inp (s.inp.start + n')).start) = some pb := p1
          rw [p1']
          simp only []
          refine hfin { s with inp := Pipe.discardBefore s.inp (s.inp.start + n'), inbuf := pb } (specDiscard spec (s.inp.start + n')) pb.length ?_ ?_ rfl hbo rfl rfl
          · refine ⟨hs2.inv, hs2.rel, hs2.wf, hs2.cov, hs2.dat, hs2.st0, ?_, ?_, by simp [hbo]⟩
            · intro i hi; exact p3 i hi
            · intro x h1 h2
              have h1' : s.inp.start + n' ≤ x := h1
              have h2' : x < s.inp.start + n' + (pb.length : Int) := h2
              exact hr0 x (by have := h.st0; omega) (by omega)
          · intro x h1 h2
            have h2' : x < s.inp.start + n' + (pb.length : Int) := h2
            exact hr0 x h1 (by omega)
        · have hcond : ¬ (r0.s ≤ (Pipe.discardBefore s.inp (s.inp.start + n')).start ∧
              r0.e > (Pipe.discardBefore s.inp (s.inp.start + n')).start) := hmore
          simp only []
          rw [if_neg hcond]
          simp only []
          refine hfin { s with inp := Pipe.discardBefore s.inp (s.inp.start + n') } _ 0 hs2 ?_ rfl hbo rfl rfl
          intro x h1 h2
          have h2' : x < s.inp.start + n' + (s.inbuf.length : Int) := h2
          rw [hb] at h2'; simp at h2'
          exact hr0 x h1 (by omega)


/-- **`Read`, every path**: on an open stream whose state satisfies the byte-level invariant, `Read(n)`
returns exactly the sender's bytes `w[pos, pos+k)` (k = number of bytes returned, possibly 0), advances
the position by k, keeps the invariant, and no pipe primitive panics. -/
theorem read_post (w : List Nat) (c : Conn) (s : Stream) (spec : Spec) (n : Nat) (h : RI w s spec) (hp : Pre s)
    (ho : isOpen s) :
    ReadPost w (pos s) (QuicStream.read c s n).2.1 (QuicStream.read c s n).2.2 := by
  have hnone : ∀ res : ReadRes, bytesOf res = [] → res ≠ .panic → ReadPost w (pos s) s res := fun res h1 h2 =>
    ⟨⟨spec, h⟩, hp, by rw [h1]; simp, by intro i hi; rw [h1] at hi; simp at hi, h2, ho⟩
  cases hw : s.writeOnly
  case true =>
    have hr : QuicStream.read c s n = (c, s, .errWriteOnly) := by unfold QuicStream.read; simp [hw]
    rw [hr]; exact hnone _ rfl (by simp)
  by_cases hf : s.inbuf.length > s.inbufoff
  · have hfast := read_fast w c s spec n h hw hf
    simp only [] at hfast
    have hr : QuicStream.read c s n = (c, { s with inbufoff := s.inbufoff + min n (s.inbuf.length - s.inbufoff) },
        .data ((s.inbuf.drop s.inbufoff).take (min n (s.inbuf.length - s.inbufoff))) false) := by
      unfold QuicStream.read; simp [hw, hf]
    rw [hr] at hfast ⊢
    exact ⟨⟨spec, hfast.1⟩, hp, hfast.2.1, hfast.2.2.2.1, hfast.2.2.2.2, ho⟩
  · rw [read_eq_slow c s n hw hf]
    cases hcan : s.canRead
    · simp only [Bool.not_false, if_true]
      exact hnone _ rfl (by simp)
    · simp only [Bool.not_true, Bool.false_eq_true, if_false]
      obtain ⟨spec1, h1, b1, b2, b3, b4, b5, b6, b7, b8, _⟩ := prep_RI w s spec h hp hf
      have hlen : (s.inbuf.length : Int) = s.inbufoff := by have := h.off; omega
      have ho' : isOpen (prep s) := by unfold isOpen; rw [b7, b8]; exact ho
      have hcr : Rangeset.contains (prep s).inset (prep s).inp.start = true ∨ (prep s).insize = (prep s).inp.start := by
        rw [b5, b6, b3]
        unfold Stream.canRead at hcan
        unfold isOpen at ho
        simp only [Bool.or_eq_true, decide_eq_true_eq] at hcan
        unfold pos
        rw [← hlen]
        rcases hcan with ((h1 | h1) | h1) | h1
        · exact Or.inl h1
        · exact Or.inr h1
        · exact absurd (Or.inr h1) ho
        · exact absurd (Or.inl h1) ho
      have := (slowBody_post w c (prep s) spec1 n h1 b1 b2 b4 ho' hcr).1
      rw [b3] at this
      exact this


/-- one delivered frame: invariant, received-prefix fact and read position are kept -/
theorem feed_post (w : List Nat) (c : Conn) (s : Stream) (spec : Spec) (f : Int × List Nat × Bool)
    (h : RI w s spec) (hp : Pre s) (ho : isOpen s) (hf : FrameOf w f.1 f.2.1) :
    (∃ spec', RI w (feed (c, s) f).2 spec') ∧ Pre (feed (c, s) f).2 ∧ isOpen (feed (c, s) f).2 ∧
      pos (feed (c, s) f).2 = pos s := by
  by_cases h0 : (handleData c s f.1 f.2.1 f.2.2).2.2 = 0
  · have hfeed : feed (c, s) f = ((handleData c s f.1 f.2.1 f.2.2).1, (handleData c s f.1 f.2.1 f.2.2).2.1) := by
      unfold feed; simp [h0]
    rw [hfeed]
    obtain ⟨spec1, h1, hs1, _⟩ := handleData_RI w c s spec f.1 f.2.1 f.2.2 h hf h0 ho
    have hsh := handleData_shape c s f.1 f.2.1 f.2.2 h0 ho
    simp only [] at hsh
    obtain ⟨_, e2, e3, e4, e5, e6, _, _⟩ := hsh
    have hlen : (0 : Int) ≤ f.2.1.length := Int.natCast_nonneg _
    have htr := trimOff_facts s f.1 (f.1 + f.2.1.length) (by omega)
    refine ⟨⟨spec1, h1⟩, ?_, by unfold isOpen; rw [e5, e6]; exact ho, by unfold pos; rw [hs1, e4]⟩
    intro x hx hx2
    show Mem (handleData c s f.1 f.2.1 f.2.2).2.1.inset x
    rw [e2, mem_add _ _ _ h.wf htr.2.1]
    left
    have hx2' : x < (handleData c s f.1 f.2.1 f.2.2).2.1.inp.start + ((handleData c s f.1 f.2.1 f.2.2).2.1.inbuf.length : Int) := hx2
    rw [hs1, e3] at hx2'
    exact hp x hx hx2'
  · have hfeed : feed (c, s) f = (c, s) := by unfold feed; simp [h0]
    rw [hfeed]; exact ⟨⟨spec, h⟩, hp, ho, rfl⟩


/-! ### final size -/

/-- a recorded final size bounds everything received -/
def FinInv (s : Stream) : Prop := s.insize = -1 ∨ (0 ≤ s.insize ∧ ∀ x, Mem s.inset x → x < s.insize)

theorem handleData_ok_bounds (c : Conn) (s : Stream) (off : Int) (b : List Nat) (fin : Bool)
    (h0 : (handleData c s off b fin).2.2 = 0) :
    checkStreamBounds s.inwin s.insize s.inp.stop (off + b.length) fin = 0 := by
  unfold handleData at h0
  simp only [] at h0
  by_cases h1 : checkStreamBounds s.inwin s.insize s.inp.stop (off + b.length) fin = 0
  · exact h1
  · simp [h1] at h0

/-- a delivered frame keeps `FinInv`, and **a recorded final size never changes** -/
theorem feed_fin (w : List Nat) (c : Conn) (s : Stream) (spec : Spec) (f : Int × List Nat × Bool)
    (h : RI w s spec) (hfi : FinInv s) (ho : isOpen s) (hf : FrameOf w f.1 f.2.1) :
    FinInv (feed (c, s) f).2 ∧ (s.insize ≠ -1 → (feed (c, s) f).2.insize = s.insize) := by
  by_cases h0 : (handleData c s f.1 f.2.1 f.2.2).2.2 = 0
  · have hfeed : feed (c, s) f = ((handleData c s f.1 f.2.1 f.2.2).1, (handleData c s f.1 f.2.1 f.2.2).2.1) := by
      unfold feed; simp [h0]
    rw [hfeed]
    have hsh := handleData_shape c s f.1 f.2.1 f.2.2 h0 ho
    simp only [] at hsh
    obtain ⟨_, e2, _, _, _, _, e7, _⟩ := hsh
    have hcb := handleData_ok_bounds c s f.1 f.2.1 f.2.2 h0
    have hlen : (0 : Int) ≤ f.2.1.length := Int.natCast_nonneg _
    have htr := trimOff_facts s f.1 (f.1 + f.2.1.length) (by omega)
    have hmem : ∀ x, Mem (handleData c s f.1 f.2.1 f.2.2).2.1.inset x →
        Mem s.inset x ∨ (f.1 ≤ x ∧ x < f.1 + f.2.1.length) := by
      intro x hx; rw [e2, mem_add _ _ _ h.wf htr.2.1] at hx
      rcases hx with hx | hx
      · exact Or.inl hx
      · exact Or.inr ⟨by omega, hx.2⟩
    unfold checkStreamBounds errFlowControl errFinalSize at hcb
    have hf0 := hf.1
    show FinInv (handleData c s f.1 f.2.1 f.2.2).2.1 ∧ _
    unfold FinInv
    rw [e7]
    rcases hfi with hfi | hfi
    · -- no final size so far
      refine ⟨?_, fun hne => absurd hfi hne⟩
      by_cases hfin : f.2.2 = true
      case neg => rw [if_neg hfin]; exact Or.inl hfi
      case pos =>
        right
        rw [if_pos hfin]
        refine ⟨by omega, fun x hx => ?_⟩
        rcases hmem x hx with h1 | h1
        · have := (h.cov x h1).2.1
          rw [hfin] at hcb
          split at hcb
          · simp at hcb
          · split at hcb
            · simp at hcb
            · split at hcb
              · simp at hcb
              · split at hcb
                · simp at hcb
                · rename_i hlt; simp at hlt; omega
        · exact h1.2
    · -- final size known: it stays, and the frame lies below it
      have hne : s.insize ≠ -1 := by omega
      have hle : f.1 + (f.2.1.length : Int) ≤ s.insize ∧ (f.2.2 = true → f.1 + (f.2.1.length : Int) = s.insize) := by
        split at hcb
        · simp at hcb
        · split at hcb
          · simp at hcb
          · split at hcb
            · simp at hcb
            · rename_i h2 h3
              constructor
              · have : ¬ (f.1 + (f.2.1.length : Int) > s.insize) := fun hgt => h2 ⟨hne, hgt⟩
                omega
              · intro ht
                apply Classical.byContradiction
                intro hcontra
                exact h3 ⟨ht, hne, hcontra⟩
      have hsame : (if f.2.2 = true then f.1 + (f.2.1.length : Int) else s.insize) = s.insize := by
        split
        · rename_i ht; exact hle.2 ht
        · rfl
      rw [hsame]
      refine ⟨Or.inr ⟨hfi.1, fun x hx => ?_⟩, fun _ => rfl⟩
      rcases hmem x hx with h1 | h1
      · exact hfi.2 x h1
      · omega
  · have hfeed : feed (c, s) f = (c, s) := by unfold feed; simp [h0]
    rw [hfeed]; exact ⟨hfi, fun _ => rfl⟩


/-- `Read` reported io.EOF (alone, or together with the last bytes) -/
def isEOF (res : ReadRes) : Prop := res = .eof ∨ ∃ b, res = .data b true

/-- **EOF and availability of one `Read`**, on an open stream satisfying the invariants. -/
theorem read_more (w : List Nat) (c : Conn) (s : Stream) (spec : Spec) (n : Nat) (h : RI w s spec) (hp : Pre s)
    (ho : isOpen s) (hfi : FinInv s) (hw : s.writeOnly = false) :
    (isEOF (QuicStream.read c s n).2.2 ↔
      (s.insize ≠ -1 ∧ ¬ s.inbuf.length > s.inbufoff ∧ pos (QuicStream.read c s n).2.1 = s.insize)) ∧
    (0 < n → (0 < (bytesOf (QuicStream.read c s n).2.2).length ↔ Mem s.inset (pos s))) ∧
    (QuicStream.read c s n).2.1.insize = s.insize ∧ (QuicStream.read c s n).2.1.inset = s.inset := by
  have hpos0 : 0 ≤ pos s := by unfold pos; have := h.st0; omega
  by_cases hf : s.inbuf.length > s.inbufoff
  · have hr : QuicStream.read c s n = (c, { s with inbufoff := s.inbufoff + min n (s.inbuf.length - s.inbufoff) },
        .data ((s.inbuf.drop s.inbufoff).take (min n (s.inbuf.length - s.inbufoff))) false) := by
      unfold QuicStream.read; simp [hw, hf]
    rw [hr]
    refine ⟨⟨?_, fun hx => absurd hf hx.2.1⟩, ?_, rfl, rfl⟩
    · rintro (hx | ⟨b, hx⟩) <;> simp at hx
    · intro hn
      have hm : Mem s.inset (pos s) := h.bufcov _ (by unfold pos; omega) (by unfold pos; omega)
      simp only [bytesOf, List.length_take, List.length_drop]
      constructor
      · exact fun _ => hm
      · intro _; omega
  · rw [read_eq_slow c s n hw hf]
    have hlen : (s.inbuf.length : Int) = s.inbufoff := by have := h.off; omega
    cases hcan : s.canRead
    · simp only [Bool.not_false, if_true]
      unfold Stream.canRead at hcan
      simp only [Bool.or_eq_false_iff, decide_eq_false_iff_not] at hcan
      obtain ⟨⟨⟨h1, h2⟩, _⟩, _⟩ := hcan
      have hne : s.insize ≠ pos s := by unfold pos; rw [← hlen]; exact h2
      have hnm : ¬ Mem s.inset (pos s) := by
        intro hm
        have := (NetVerif.Proofs.C24.contains_iff _ h.wf _).2 hm
        unfold pos at this; rw [← hlen, h1] at this; exact absurd this (by simp)
      refine ⟨⟨?_, fun hx => absurd hx.2.2.symm hne⟩, fun _ => ⟨fun hx => by simp [bytesOf] at hx, fun hx => absurd hx hnm⟩, by first | rfl | trivial, by first | rfl | trivial⟩
      rintro (hx | ⟨b, hx⟩) <;> simp at hx
    · simp only [Bool.not_true, Bool.false_eq_true, if_false]
      obtain ⟨spec1, h1, b1, b2, b3, b4, b5, b6, b7, b8, _⟩ := prep_RI w s spec h hp hf
      have ho' : isOpen (prep s) := by unfold isOpen; rw [b7, b8]; exact ho
      have hcr : Rangeset.contains (prep s).inset (prep s).inp.start = true ∨ (prep s).insize = (prep s).inp.start := by
        rw [b5, b6, b3]
        unfold Stream.canRead at hcan
        unfold isOpen at ho
        simp only [Bool.or_eq_true, decide_eq_true_eq] at hcan
        unfold pos
        rw [← hlen]
        rcases hcan with ((h1 | h1) | h1) | h1
        · exact Or.inl h1
        · exact Or.inr h1
        · exact absurd (Or.inr h1) ho
        · exact absurd (Or.inl h1) ho
      obtain ⟨hpost, hshape, hk1, hk2⟩ := slowBody_post w c (prep s) spec1 n h1 b1 b2 b4 ho' hcr
      rw [b3] at hpost
      have hadv := hpost.adv
      generalize slowBody c (prep s) n = r at *
      refine ⟨?_, ?_, by rw [hk1, b6], by rw [hk2, b5]⟩
      · unfold SlowShape at hshape
        rw [b6, b3] at hshape
        rcases hshape with ⟨e1, e2⟩ | ⟨e1, bytes, e2, _⟩
        · rw [e2] at hadv ⊢
          simp only [bytesOf, List.length_nil] at hadv
          exact ⟨fun _ => ⟨by omega, hf, by omega⟩, fun _ => Or.inl rfl⟩
        · rw [e2] at hadv ⊢
          simp only [bytesOf] at hadv
          constructor
          · rintro (hx | ⟨b, hx⟩)
            · simp at hx
            · simp only [ReadRes.data.injEq, decide_eq_true_eq] at hx
              exact ⟨by omega, hf, by omega⟩
          · rintro ⟨_, _, hx⟩
            exact Or.inr ⟨bytes, by simp; omega⟩
      · intro hn
        unfold SlowShape at hshape
        rw [b6, b3] at hshape
        rcases hshape with ⟨e1, e2⟩ | ⟨e1, bytes, e2, e3⟩
        · rw [e2]
          simp only [bytesOf, List.length_nil]
          refine ⟨fun hx => by omega, fun hm => ?_⟩
          rcases hfi with hfi | hfi
          · omega
          · have := hfi.2 _ hm; omega
        · rw [e2]
          simp only [bytesOf]
          refine ⟨fun _ => ?_, fun _ => e3.2 hn⟩
          rcases hcr with hc | hc
          · have := (NetVerif.Proofs.C24.contains_iff _ h1.wf _).1 hc
            rw [b5, b3] at this; exact this
          · rw [b6, b3] at hc; exact absurd hc e1

end NetVerif.Proofs.Lemmas.QuicRecv
