import NetVerif.Model.HtmlTokExact
import NetVerif.Proofs.Lemmas.HtmlTokExact
/-!
Span order for the exact tokenizer model: every function keeps
`rawStart ≤ rawEnd ≤ len(input)`; backups (`z.raw.end--`, `z.raw.end = z.data.start`,
`z.raw.end -= 3+len(rawTag)`) never cross the start of the current token.
This is the no-panic invariant of the Go code (no negative slice bound).
-/
namespace NetVerif.Proofs.Lemmas.HtmlTokSpan
open NetVerif.Model.HtmlTokExact NetVerif.Proofs.Lemmas.HtmlTokExact

/-- the cursor is inside the input and the reader does terminate with an error -/
def Ok (z : Z) : Prop := z.rawEnd ≤ z.inp.size ∧ z.finalErr ≠ .none

/-- `r` is `z` after a function that only moved the cursor forward (net). -/
def Mono (z r : Z) : Prop :=
  z.rawEnd ≤ r.rawEnd ∧ r.rawEnd ≤ r.inp.size ∧ r.inp = z.inp ∧ r.rawStart = z.rawStart ∧ r.finalErr = z.finalErr

theorem Mono.refl (z : Z) (h : Ok z) : Mono z z := ⟨Nat.le_refl _, h.1, rfl, rfl, rfl⟩

theorem rb (z : Z) (h : Ok z) :
    Mono z (readByte z).2 ∧ (readByte z).2.rawEnd ≤ z.rawEnd + 1 ∧
    ((readByte z).2.err = .none → (readByte z).2.rawEnd = z.rawEnd + 1) := by
  obtain ⟨h1, h2⟩ := h
  unfold readByte Mono
  split
  · simp_all
  · simp only []
    split <;> simp <;> omega

theorem mono_unread1 (z : Z) (h : Ok z) (hok : (readByte z).2.err = .none) :
    Mono z (unread (readByte z).2) := by
  obtain ⟨a, b, c⟩ := rb z h
  have := c hok
  obtain ⟨a1, a2, a3, a4, a5⟩ := a
  refine ⟨?_, ?_, a3, a4, a5⟩
  · simp only [unread]; omega
  · simp only [unread]; omega

theorem ok_of_mono {z r : Z} (h : Ok z) (m : Mono z r) : Ok r := by
  unfold Ok Mono at *; grind

theorem Mono.trans {a b c : Z} (h1 : Mono a b) (h2 : Mono b c) : Mono a c := by
  unfold Mono at *; grind

theorem mono_outOfFuel (z : Z) (h : Ok z) : Mono z (outOfFuel z) := Mono.refl z h

theorem mono_skipWSLoop (f : Nat) (z : Z) (h : Ok z) : Mono z (skipWSLoop f z) := by
  induction f generalizing z with
  | zero => exact mono_outOfFuel z h
  | succ f ih =>
    have hr := rb z h
    have hu := mono_unread1 z h
    have hok := ok_of_mono h hr.1
    simp only [skipWSLoop]
    repeat' split
    all_goals grind [Mono.trans]

theorem mono_skipWhiteSpace (z : Z) (h : Ok z) : Mono z (skipWhiteSpace z) := by
  unfold skipWhiteSpace
  split
  · exact Mono.refl z h
  · exact mono_skipWSLoop _ z h

theorem frame_of_fr {z r : Z} (h : fr r = fr z) :
    r.inp = z.inp ∧ r.rawStart = z.rawStart ∧ r.finalErr = z.finalErr := by
  simp only [fr, Prod.mk.injEq] at h
  exact ⟨h.2.1, h.1, h.2.2.2.1⟩

/-- a cursor-only update that stays inside the input -/
theorem mono_setRawEnd (z : Z) (k : Nat) (h1 : z.rawEnd ≤ k) (h2 : k ≤ z.inp.size) :
    Mono z { z with rawEnd := k } := ⟨h1, h2, rfl, rfl, rfl⟩

/-! ### readRawEndTag -/

theorem span_matchRawTag (t : List Nat) (z : Z) (h : Ok z) :
    Mono z (matchRawTag t z).2 ∧
    (∀ v, (matchRawTag t z).1 = some v → (matchRawTag t z).2.rawEnd = z.rawEnd + t.length) := by
  induction t generalizing z with
  | nil => exact ⟨Mono.refl z h, fun _ _ => by simp [matchRawTag]⟩
  | cons t ts ih =>
    have hr := rb z h
    have hu := mono_unread1 z h
    have hok := ok_of_mono h hr.1
    have hi := ih (readByte z).2 hok
    simp only [matchRawTag]
    split
    · exact ⟨hr.1, fun v hv => by simp at hv⟩
    · rename_i e; simp only [ne_eq, Decidable.not_not] at e
      split
      · exact ⟨hu e, fun v hv => by simp at hv⟩
      · refine ⟨hr.1.trans hi.1, fun v hv => ?_⟩
        rw [hi.2 v hv, hr.2.2 e]; simp only [List.length_cons]; omega

/-- `readRawEndTag`: on failure the cursor did not move backwards; on success it is
exactly two bytes (the `</`) before where it was, and the whole tag was inside the input. -/
theorem span_readRawEndTag (z : Z) (h : Ok z) :
    ((readRawEndTag z).1 = false → Mono z (readRawEndTag z).2) ∧
    ((readRawEndTag z).1 = true →
      (readRawEndTag z).2.rawEnd = z.rawEnd - 2 ∧ z.rawEnd + z.rawTag.length + 1 ≤ z.inp.size ∧
      (readRawEndTag z).2.rawTag = z.rawTag) := by
  have hm := span_matchRawTag z.rawTag z h
  have hfr := fr_matchRawTag z.rawTag z
  unfold readRawEndTag
  split
  · rename_i z1 heq
    rw [heq] at hm
    exact ⟨fun _ => hm.1, fun e => by simp at e⟩
  · rename_i v z1 heq
    rw [heq] at hm hfr
    simp only at hm hfr
    have hok1 := ok_of_mono h hm.1
    have hr := rb z1 hok1
    have hu := mono_unread1 z1 hok1
    have hlen := hm.2 v rfl
    have hrt1 : z1.rawTag = z.rawTag := by
      have := NetVerif.Proofs.Lemmas.HtmlTokExact.fr_matchRawTag z.rawTag z
      -- rawTag is not in `fr`; prove it directly
      clear this
      have key : ∀ (t : List Nat) (z : Z), (matchRawTag t z).2.rawTag = z.rawTag := by
        intro t
        induction t with
        | nil => intro z; rfl
        | cons t ts ih =>
          intro z
          have hb : (readByte z).2.rawTag = z.rawTag := by
            unfold readByte; split
            · rfl
            · simp only []; split <;> rfl
          simp only [matchRawTag]
          repeat' split
          all_goals first | exact hb | (simp only [unread]; exact hb) | (rw [ih]; exact hb)
      have := key z.rawTag z
      rw [heq] at this; exact this
    have hrtb : (readByte z1).2.rawTag = z1.rawTag := by
      unfold readByte; split
      · rfl
      · simp only []; split <;> rfl
    simp only []
    split
    · exact ⟨fun _ => hm.1.trans hr.1, fun e => by simp at e⟩
    · rename_i e; simp only [ne_eq, Decidable.not_not] at e
      split
      · refine ⟨fun e' => by simp at e', fun _ => ?_⟩
        have h1 := hr.2.2 e
        obtain ⟨m1, m2, m3, m4, m5⟩ := hr.1
        obtain ⟨n1, n2, n3, n4, n5⟩ := hm.1
        refine ⟨?_, ?_, ?_⟩
        · simp only [unread, h1, hlen, hrtb, hrt1]; omega
        · rw [h1, hlen, m3, n3] at m2; omega
        · simp only [unread, hrtb, hrt1]
      · exact ⟨fun _ => hm.1.trans (hu e), fun e' => by simp at e'⟩

end NetVerif.Proofs.Lemmas.HtmlTokSpan
