import NetVerif.Proofs.Lemmas.WriteSchedRefine
import NetVerif.Model.WriteSched7540
/-!
Refinement of the (repaired) RFC 7540 priority scheduler model to the C12 FIFO specification.

The priority tree (parent/kids links, weights, byte counts, sibling sorting) decides only WHICH ready
node `Pop` serves.  What C12 needs is independent of the tree shape:
* tree surgery (`setParent`, `addBytes`, sorting, re-linking in `AdjustStream`) never touches a node's
  queue, state or id, nor the id ↦ node map (`Same`);
* only nodes that are mapped and open (or the root) ever have a non-empty queue (`P7Inv.emp`), so whatever
  node the walk serves, it is the queue of an open stream;
* nodes leave the map only by `removeNode`, which is applied to closed or idle nodes (empty queues).
The clause "`Pop` returns nothing only if nothing is sendable" needs reachability of every node from the
root and is NOT proved here (`StepSpec False`).
-/
namespace NetVerif.Proofs.WriteSched7540
open NetVerif.Model.WriteSched NetVerif.Model.WriteSched.P7540 NetVerif.Proofs.WriteSchedLemmas
  NetVerif.Proofs.WriteSchedSpec NetVerif.Proofs.WriteSchedRefine

/-! ### Store access -/

theorem length_modNode (s : P7540) (a : Nat) (f : Node → Node) : (s.modNode a f).store.length = s.store.length := by
  simp [modNode, setNode]

theorem node_modNode_ne (s : P7540) {a b : Nat} (f : Node → Node) (h : b ≠ a) : (s.modNode a f).node b = s.node b := by
  simp only [modNode, setNode, node, List.getD_eq_getElem?_getD]
  rw [List.getElem?_set]
  have : ¬ a = b := fun hh => h hh.symm
  simp [this]

theorem node_modNode_self (s : P7540) {a : Nat} (f : Node → Node) (h : a < s.store.length) :
    (s.modNode a f).node a = f (s.node a) := by
  simp only [modNode, setNode, node, List.getD_eq_getElem?_getD]
  rw [List.getElem?_set]
  simp [h]

theorem node_of_ge (s : P7540) {a : Nat} (h : s.store.length ≤ a) : s.node a = {} := by
  simp only [node, List.getD_eq_getElem?_getD]
  rw [List.getElem?_eq_none h]; rfl

/-- `f` leaves queue, state and id alone. -/
def Keeps (f : Node → Node) : Prop := ∀ n, (f n).q = n.q ∧ (f n).state = n.state ∧ (f n).id = n.id

def Fields (n m : Node) : Prop := m.q = n.q ∧ m.state = n.state ∧ m.id = n.id

theorem fields_modNode (s : P7540) (a : Nat) {f : Node → Node} (hf : Keeps f) (i : Nat) :
    Fields (s.node i) ((s.modNode a f).node i) := by
  by_cases hi : i = a
  · subst hi
    by_cases hl : i < s.store.length
    · rw [node_modNode_self s f hl]; exact hf _
    · have h1 : s.node i = {} := node_of_ge s (by omega)
      have h2 : (s.modNode i f).node i = {} := node_of_ge _ (by rw [length_modNode]; omega)
      rw [h1, h2]; exact ⟨rfl, rfl, rfl⟩
  · rw [node_modNode_ne s f hi]; exact ⟨rfl, rfl, rfl⟩

/-- `s'` differs from `s` only in tree links, weights, byte counters, the throttle limit. -/
structure Same (s s' : P7540) : Prop where
  len : s'.store.length = s.store.length
  nd : ∀ i, Fields (s.node i) (s'.node i)
  nodes : s'.nodes = s.nodes
  closedL : s'.closedL = s.closedL
  idleL : s'.idleL = s.idleL
  maxClosed : s'.maxClosed = s.maxClosed
  maxIdle : s'.maxIdle = s.maxIdle

theorem Same.refl (s : P7540) : Same s s := ⟨rfl, fun _ => ⟨rfl, rfl, rfl⟩, rfl, rfl, rfl, rfl, rfl⟩

theorem Same.trans {a b c : P7540} (h1 : Same a b) (h2 : Same b c) : Same a c :=
  ⟨h2.len.trans h1.len,
   fun i => ⟨(h2.nd i).1.trans (h1.nd i).1, (h2.nd i).2.1.trans (h1.nd i).2.1, (h2.nd i).2.2.trans (h1.nd i).2.2⟩,
   h2.nodes.trans h1.nodes, h2.closedL.trans h1.closedL, h2.idleL.trans h1.idleL,
   h2.maxClosed.trans h1.maxClosed, h2.maxIdle.trans h1.maxIdle⟩

theorem same_modNode (s : P7540) (a : Nat) {f : Node → Node} (hf : Keeps f) : Same s (s.modNode a f) :=
  ⟨length_modNode s a f, fields_modNode s a hf, rfl, rfl, rfl, rfl, rfl⟩

theorem same_setParent {s s' : P7540} {n : Nat} {p : Option Nat} (h : s.setParent n p = some s') : Same s s' := by
  unfold setParent at h
  split at h
  · cases h
  · split at h
    · cases h; exact Same.refl s
    · have k1 : ∀ (t : P7540), Same t (match (s.node n).parent with
          | some p => t.modNode p fun pn => { pn with kids := pn.kids.erase n }
          | none => t) := by
        intro t; split
        · exact same_modNode t _ (fun _ => ⟨rfl, rfl, rfl⟩)
        · exact Same.refl t
      have k2 := k1 s
      have k3 : ∀ t : P7540, Same t (t.modNode n fun nn => { nn with parent := p }) :=
        fun t => same_modNode t _ (fun _ => ⟨rfl, rfl, rfl⟩)
      cases p with
      | none => simp only at h; cases h; exact k2.trans (k3 _)
      | some pp =>
        simp only at h; cases h
        exact (k2.trans (k3 _)).trans (same_modNode _ _ (fun _ => ⟨rfl, rfl, rfl⟩))

theorem same_setParent! (s : P7540) (n : Nat) (p : Option Nat) : Same s (s.setParent! n p) := by
  unfold setParent!
  cases h : s.setParent n p with
  | none => exact Same.refl s
  | some s' => exact same_setParent h

theorem same_addBytes_up (b : Int) (fuel : Nat) : ∀ (s : P7540) (x : Option Nat), Same s (addBytes.up b fuel s x) := by
  induction fuel with
  | zero => intro s x; unfold addBytes.up; exact Same.refl s
  | succ k ih =>
    intro s x
    cases x with
    | none => unfold addBytes.up; exact Same.refl s
    | some x =>
      unfold addBytes.up
      apply Same.trans ?_ (ih _ _)
      exact same_modNode _ _ (fun _ => ⟨rfl, rfl, rfl⟩)

theorem same_addBytes (s : P7540) (n : Nat) (b : Int) : Same s (s.addBytes n b) := by
  unfold addBytes
  apply Same.trans ?_ (same_addBytes_up b _ _ _)
  exact same_modNode _ _ (fun _ => ⟨rfl, rfl, rfl⟩)

theorem same_limit (s : P7540) (l : Int) : Same s { s with limit := l } :=
  ⟨rfl, fun _ => ⟨rfl, rfl, rfl⟩, rfl, rfl, rfl, rfl, rfl⟩

/-! ### `Pop`: the walk serves at most one node and otherwise changes nothing C12 can see -/

/-- `s'` is `s` with the queue of node `nid` replaced by `q'` (plus invisible changes). -/
structure SameQ (s s' : P7540) (nid : Nat) (q' : WQ) : Prop where
  len : s'.store.length = s.store.length
  self : (s'.node nid).q = q' ∧ (s'.node nid).state = (s.node nid).state ∧ (s'.node nid).id = (s.node nid).id
  nd : ∀ i, i ≠ nid → Fields (s.node i) (s'.node i)
  nodes : s'.nodes = s.nodes
  closedL : s'.closedL = s.closedL
  idleL : s'.idleL = s.idleL
  maxClosed : s'.maxClosed = s.maxClosed
  maxIdle : s'.maxIdle = s.maxIdle

theorem SameQ.of_same_left {a b c : P7540} {nid : Nat} {q' : WQ} (h1 : Same a b) (h2 : SameQ b c nid q') :
    SameQ a c nid q' :=
  ⟨h2.len.trans h1.len,
   ⟨h2.self.1, h2.self.2.1.trans (h1.nd nid).2.1, h2.self.2.2.trans (h1.nd nid).2.2⟩,
   fun i hi => ⟨(h2.nd i hi).1.trans (h1.nd i).1, (h2.nd i hi).2.1.trans (h1.nd i).2.1, (h2.nd i hi).2.2.trans (h1.nd i).2.2⟩,
   h2.nodes.trans h1.nodes, h2.closedL.trans h1.closedL, h2.idleL.trans h1.idleL,
   h2.maxClosed.trans h1.maxClosed, h2.maxIdle.trans h1.maxIdle⟩

theorem SameQ.of_same_right {a b c : P7540} {nid : Nat} {q' : WQ} (h1 : SameQ a b nid q') (h2 : Same b c) :
    SameQ a c nid q' :=
  ⟨h2.len.trans h1.len,
   ⟨(h2.nd nid).1.trans h1.self.1, (h2.nd nid).2.1.trans h1.self.2.1, (h2.nd nid).2.2.trans h1.self.2.2⟩,
   fun i hi => ⟨(h2.nd i).1.trans (h1.nd i hi).1, (h2.nd i).2.1.trans (h1.nd i hi).2.1, (h2.nd i).2.2.trans (h1.nd i hi).2.2⟩,
   h2.nodes.trans h1.nodes, h2.closedL.trans h1.closedL, h2.idleL.trans h1.idleL,
   h2.maxClosed.trans h1.maxClosed, h2.maxIdle.trans h1.maxIdle⟩

/-- What a walk can do, relative to the state `s` it started from. -/
inductive WalkRes (e : Env) (s : P7540) : Env → P7540 → Option Frame → Prop
  | none {s'} : Same s s' → s'.limit = s.limit → WalkRes e s e s' none
  | some {e' s' nid limit q' f} : 0 < limit → nid < s.store.length → (s.node nid).q.toList ≠ [] →
      (s.node nid).q.consume e limit = (e', q', some f) → SameQ s s' nid q' → 0 < s'.limit →
      WalkRes e s e' s' (some f)

theorem isEmpty_false_toList {q : WQ} (h : q.isEmpty = false) : q.toList ≠ [] := by
  intro hh; rw [(isEmpty_iff q).2 hh] at h; cases h

theorem visit_spec (e : Env) (s : P7540) (n : Nat) (op : Bool) (hl : 0 < s.limit) (hn : n < s.store.length)
    (hq : (s.node n).q.toList ≠ []) :
    WalkRes e s (visit e s n op).1 (visit e s n op).2.1 (visit e s n op).2.2 := by
  generalize hv : visit e s n op = v
  unfold visit at hv
  split at hv
  · subst hv; exact WalkRes.none (Same.refl s) rfl
  · rename_i e' q' f hc
    have hpos : (0 : Int) < s.visitLimit op := by
      unfold visitLimit; split
      · exact hl
      · decide
    have hsq : SameQ s (s.modNode n fun nn => { nn with q := q' }) n q' :=
      ⟨length_modNode _ _ _, by rw [node_modNode_self s _ hn]; exact ⟨rfl, rfl, rfl⟩,
       fun i hi => by rw [node_modNode_ne s _ hi]; exact ⟨rfl, rfl, rfl⟩, rfl, rfl, rfl, rfl, rfl⟩
    have hsq2 := hsq.of_same_right (same_addBytes _ n f.dataSize)
    have hup : ∀ (b : Int) (fuel : Nat) (t : P7540) (x : Option Nat), (addBytes.up b fuel t x).limit = t.limit := by
      intro b fuel
      induction fuel with
      | zero => intro t x; unfold addBytes.up; rfl
      | succ k ih =>
        intro t x
        cases x with
        | none => unfold addBytes.up; rfl
        | some x => unfold addBytes.up; rw [ih]; rfl
    have hlim0 : ((s.modNode n fun nn => { nn with q := q' }).addBytes n f.dataSize).limit = s.limit := by
      unfold addBytes
      simp only [hup]; rfl
    have hav : ∀ t : P7540, 0 < t.limit → Same t (t.afterVisit op) ∧ 0 < (t.afterVisit op).limit := by
      intro t ht
      unfold afterVisit
      split
      · refine ⟨same_limit _ _, ?_⟩
        simp only; split
        · decide
        · omega
      · split
        · exact ⟨same_limit _ _, by simp⟩
        · exact ⟨Same.refl t, ht⟩
    obtain ⟨h1, h2⟩ := hav _ (by rw [hlim0]; exact hl)
    subst hv
    exact WalkRes.some hpos hn hq hc (hsq2.of_same_right h1) h2

theorem walkRes_of_same {e : Env} {s s1 : P7540} (h : Same s s1) (hlim : s1.limit = s.limit) {e' : Env} {s' : P7540}
    {r : Option Frame} (hw : WalkRes e s1 e' s' r) : WalkRes e s e' s' r := by
  cases hw with
  | none h2 h3 => exact WalkRes.none (h.trans h2) (h3.trans hlim)
  | some hpos hn hq hc hsq hl' =>
    rename_i nid limit q' f
    have hqeq : (s1.node nid).q = (s.node nid).q := (h.nd nid).1
    refine WalkRes.some hpos (by rw [← h.len]; exact hn) (by rw [← hqeq]; exact hq) (by rw [← hqeq]; exact hc)
      (hsq.of_same_left h) hl'

theorem walkRes_none_env {e e' : Env} {s s' : P7540} {r : Option Frame} (h : WalkRes e s e' s' r) (hr : r = none) :
    e' = e := by
  cases h with
  | none _ _ => rfl
  | some _ _ _ _ _ _ => cases hr

theorem walk_spec (fuel : Nat) : ∀ (e : Env) (s : P7540) (n : Nat) (op : Bool), 0 < s.limit →
    WalkRes e s (walk fuel e s n op).1 (walk fuel e s n op).2.1 (walk fuel e s n op).2.2 := by
  induction fuel with
  | zero => intro e s n op _; unfold walk; exact WalkRes.none (Same.refl s) rfl
  | succ fu ih =>
    intro e s n op hl
    unfold walk
    -- the node itself
    have hfirst : WalkRes e s
        (if (s.node n).q.isEmpty = true then (e, s, (none : Option Frame)) else visit e s n op).1
        (if (s.node n).q.isEmpty = true then (e, s, (none : Option Frame)) else visit e s n op).2.1
        (if (s.node n).q.isEmpty = true then (e, s, (none : Option Frame)) else visit e s n op).2.2 := by
      split
      · exact WalkRes.none (Same.refl s) rfl
      · rename_i hne
        have hq := isEmpty_false_toList (by simpa using hne)
        have hn : n < s.store.length := by
          apply Classical.byContradiction; intro hge
          rw [node_of_ge s (by omega)] at hq; exact hq rfl
        exact visit_spec e s n op hl hn hq
    rcases hr : (if (s.node n).q.isEmpty = true then (e, s, (none : Option Frame)) else visit e s n op) with ⟨e1, s1, r1⟩
    rw [hr] at hfirst
    cases r1 with
    | some f => simpa using hfirst
    | none =>
      simp only
      cases hk : (s.node n).kids with
      | nil => simp only; exact WalkRes.none (Same.refl s) rfl
      | cons k0 ks =>
        simp only
        -- state after the optional sort
        generalize hs2 : (if (ks.any fun k => (s.node k).weight != (s.node k0).weight) = true then
            s.modNode n fun nn => { nn with kids := insertionSort (fun a b => less (s.node a) (s.node b)) (k0 :: ks) }
          else s) = s2
        have hsame2 : Same s s2 ∧ s2.limit = s.limit := by
          rw [← hs2]; split
          · exact ⟨same_modNode s n (fun _ => ⟨rfl, rfl, rfl⟩), rfl⟩
          · exact ⟨Same.refl s, rfl⟩
        have hl2 : 0 < s2.limit := by rw [hsame2.2]; exact hl
        -- the loop over the kids
        have hloop : ∀ (l : List Nat) (op' : Bool) (acc : Env × P7540 × Option Frame),
            WalkRes e s2 acc.1 acc.2.1 acc.2.2 → (acc.2.2 = none → acc.1 = e) →
            WalkRes e s2
              (l.foldl (fun (acc : Env × P7540 × Option Frame) k =>
                match acc with
                | (_, _, some _) => acc
                | (e', s', none) => walk fu e' s' k op') acc).1
              (l.foldl (fun (acc : Env × P7540 × Option Frame) k =>
                match acc with
                | (_, _, some _) => acc
                | (e', s', none) => walk fu e' s' k op') acc).2.1
              (l.foldl (fun (acc : Env × P7540 × Option Frame) k =>
                match acc with
                | (_, _, some _) => acc
                | (e', s', none) => walk fu e' s' k op') acc).2.2 := by
          intro l op'
          induction l with
          | nil => intro acc h _; simpa using h
          | cons x xs ihl =>
            intro acc h he
            simp only [List.foldl_cons]
            obtain ⟨ea, sa, ra⟩ := acc
            cases ra with
            | some f => exact ihl _ h (by intro hh; cases hh)
            | none =>
              simp only
              have hea : ea = e := he rfl
              subst hea
              cases h with
              | none hsm hlm =>
                have hla : 0 < sa.limit := by rw [hlm]; exact hl2
                have hw := ih ea sa x op' hla
                have hw' := walkRes_of_same hsm hlm hw
                apply ihl _ hw'
                intro hnone
                exact walkRes_none_env hw hnone
        have := hloop (s2.node n).kids
          (if (s.node n).id != 0 then op || (s.node n).state == 0 else op) (e, s2, none)
          (WalkRes.none (Same.refl s2) rfl) (fun _ => rfl)
        exact walkRes_of_same hsame2.1 hsame2.2 this

/-! ### Abstraction and invariant -/

def absP7 (s : P7540) : Abs :=
  ⟨(s.node 0).q.toList, fun id => if id = 0 then [] else
      match s.lookup id with
      | some n => (s.node n).q.toList
      | none => []⟩

/-- Map/queue part of the invariant (`opn`: open streams, `ever`: ids ever opened). -/
structure CoreInv (s : P7540) (opn ever : Nat → Bool) : Prop where
  root : s.lookup 0 = some 0
  rootlen : 0 < s.store.length
  rootid : (s.node 0).id = 0
  rootst : (s.node 0).state = 0
  map : ∀ id n, s.lookup id = some n → n < s.store.length ∧ (s.node n).id = id
  opn : ∀ id, opn id = true ↔ (id ≠ 0 ∧ ∃ n, s.lookup id = some n ∧ (s.node n).state = 0)
  emp : ∀ n, n ≠ 0 → (s.node n).q.toList ≠ [] → ∃ id, s.lookup id = some n ∧ (s.node n).state = 0
  ever : ∀ id n, id ≠ 0 → s.lookup id = some n → (s.node n).state ≠ 2 → ever id = true
  lim : 0 < s.limit

/-- The closed / idle lists hold mapped nodes in the right state, without repetition. -/
structure ListInv (s : P7540) : Prop where
  closedL : ∀ x ∈ s.closedL, (s.node x).state = 1 ∧ s.lookup (s.node x).id = some x
  idleL : ∀ x ∈ s.idleL, (s.node x).state = 2 ∧ s.lookup (s.node x).id = some x
  closedNodup : s.closedL.Nodup
  idleNodup : s.idleL.Nodup

theorem CoreInv.zero_iff {s : P7540} {opn ever : Nat → Bool} (h : CoreInv s opn ever) {id n : Nat}
    (hl : s.lookup id = some n) : n = 0 ↔ id = 0 := by
  constructor
  · intro hn; subst hn; have := (h.map id 0 hl).2; rw [h.rootid] at this; exact this.symm
  · intro hi; subst hi; rw [h.root] at hl; cases hl; rfl

theorem CoreInv.inj {s : P7540} {opn ever : Nat → Bool} (h : CoreInv s opn ever) {a b n : Nat}
    (ha : s.lookup a = some n) (hb : s.lookup b = some n) : a = b := by
  rw [← (h.map a n ha).2, ← (h.map b n hb).2]

theorem lookup_of_nodes {s s' : P7540} (h : s'.nodes = s.nodes) (id : Nat) : s'.lookup id = s.lookup id := by
  simp [lookup, h]

theorem abs_same {s s' : P7540} (h : Same s s') : absP7 s' = absP7 s := by
  refine Abs.ext' ?_ ?_
  · simp [absP7, (h.nd 0).1]
  · intro id
    simp only [absP7, lookup_of_nodes h.nodes]
    split
    · rfl
    · split
      · rename_i n _; rw [(h.nd n).1]
      · rfl

theorem core_same {s s' : P7540} {opn ever : Nat → Bool} (hi : CoreInv s opn ever) (h : Same s s')
    (hl : 0 < s'.limit) : CoreInv s' opn ever := by
  have hlk := lookup_of_nodes h.nodes
  refine ⟨by rw [hlk]; exact hi.root, by rw [h.len]; exact hi.rootlen, by rw [(h.nd 0).2.2]; exact hi.rootid,
    by rw [(h.nd 0).2.1]; exact hi.rootst, ?_, ?_, ?_, ?_, hl⟩
  · intro id n hn; rw [hlk] at hn; rw [h.len, (h.nd n).2.2]; exact hi.map id n hn
  · intro id; rw [hi.opn id]
    constructor
    · rintro ⟨h0, n, h1, h2⟩; exact ⟨h0, n, by rw [hlk]; exact h1, by rw [(h.nd n).2.1]; exact h2⟩
    · rintro ⟨h0, n, h1, h2⟩; exact ⟨h0, n, by rw [hlk] at h1; exact h1, by rw [(h.nd n).2.1] at h2; exact h2⟩
  · intro n hn hq; rw [(h.nd n).1] at hq
    obtain ⟨id, h1, h2⟩ := hi.emp n hn hq
    exact ⟨id, by rw [hlk]; exact h1, by rw [(h.nd n).2.1]; exact h2⟩
  · intro id n h0 h1 h2; rw [hlk] at h1; rw [(h.nd n).2.1] at h2; exact hi.ever id n h0 h1 h2

theorem list_same {s s' : P7540} (hi : ListInv s) (h : Same s s') : ListInv s' := by
  have hlk := lookup_of_nodes h.nodes
  refine ⟨?_, ?_, by rw [h.closedL]; exact hi.closedNodup, by rw [h.idleL]; exact hi.idleNodup⟩
  · intro x hx; rw [h.closedL] at hx
    rw [(h.nd x).2.1, (h.nd x).2.2, hlk]; exact hi.closedL x hx
  · intro x hx; rw [h.idleL] at hx
    rw [(h.nd x).2.1, (h.nd x).2.2, hlk]; exact hi.idleL x hx

/-- After replacing the queue of the root. -/
theorem abs_sameQ_root {s s' : P7540} {opn ever : Nat → Bool} {q' : WQ} (hi : CoreInv s opn ever)
    (h : SameQ s s' 0 q') : absP7 s' = ⟨q'.toList, (absP7 s).q⟩ := by
  refine Abs.ext' ?_ ?_
  · simp [absP7, h.self.1]
  · intro id
    simp only [absP7, lookup_of_nodes h.nodes]
    split
    · rfl
    · rename_i hid
      cases hl : s.lookup id with
      | none => rfl
      | some n =>
        simp only
        have hn : n ≠ 0 := fun hh => hid ((hi.zero_iff hl).1 hh)
        rw [(h.nd n hn).1]

/-- After replacing the queue of the node of stream `id`. -/
theorem abs_sameQ_node {s s' : P7540} {opn ever : Nat → Bool} {q' : WQ} {id nid : Nat} (hi : CoreInv s opn ever)
    (hl : s.lookup id = some nid) (hid : id ≠ 0) (h : SameQ s s' nid q') :
    absP7 s' = ⟨(absP7 s).ctl, upd (absP7 s).q id q'.toList⟩ := by
  have hn0 : nid ≠ 0 := fun hh => hid ((hi.zero_iff hl).1 hh)
  refine Abs.ext' ?_ ?_
  · simp [absP7, (h.nd 0 (Ne.symm hn0)).1]
  · intro x
    simp only [absP7, lookup_of_nodes h.nodes, upd]
    by_cases hx : x = id
    · subst hx; simp [hid, hl, h.self.1]
    · simp only [hx, if_false]
      split
      · rfl
      · cases hlx : s.lookup x with
        | none => rfl
        | some n =>
          simp only
          have : n ≠ nid := fun hh => hx (hi.inj (hh ▸ hlx) hl)
          rw [(h.nd n this).1]

theorem core_sameQ {s s' : P7540} {opn ever : Nat → Bool} {q' : WQ} {nid : Nat} (hi : CoreInv s opn ever)
    (h : SameQ s s' nid q') (hl : 0 < s'.limit)
    (hq : q'.toList ≠ [] → nid ≠ 0 → ∃ id, s.lookup id = some nid ∧ (s.node nid).state = 0) :
    CoreInv s' opn ever := by
  have hlk := lookup_of_nodes h.nodes
  have hst : ∀ n, (s'.node n).state = (s.node n).state := by
    intro n; by_cases hn : n = nid
    · subst hn; exact h.self.2.1
    · exact (h.nd n hn).2.1
  have hidf : ∀ n, (s'.node n).id = (s.node n).id := by
    intro n; by_cases hn : n = nid
    · subst hn; exact h.self.2.2
    · exact (h.nd n hn).2.2
  refine ⟨by rw [hlk]; exact hi.root, by rw [h.len]; exact hi.rootlen, by rw [hidf]; exact hi.rootid,
    by rw [hst]; exact hi.rootst, ?_, ?_, ?_, ?_, hl⟩
  · intro id n hn; rw [hlk] at hn; rw [h.len, hidf]; exact hi.map id n hn
  · intro id; rw [hi.opn id]
    constructor
    · rintro ⟨h0, n, h1, h2⟩; exact ⟨h0, n, by rw [hlk]; exact h1, by rw [hst]; exact h2⟩
    · rintro ⟨h0, n, h1, h2⟩; exact ⟨h0, n, by rw [hlk] at h1; exact h1, by rw [hst] at h2; exact h2⟩
  · intro n hn hqn
    by_cases hnn : n = nid
    · subst hnn
      rw [h.self.1] at hqn
      obtain ⟨id, h1, h2⟩ := hq hqn hn
      exact ⟨id, by rw [hlk]; exact h1, by rw [hst]; exact h2⟩
    · rw [(h.nd n hnn).1] at hqn
      obtain ⟨id, h1, h2⟩ := hi.emp n hn hqn
      exact ⟨id, by rw [hlk]; exact h1, by rw [hst]; exact h2⟩
  · intro id n h0 h1 h2; rw [hlk] at h1; rw [hst] at h2; exact hi.ever id n h0 h1 h2

theorem list_sameQ {s s' : P7540} {q' : WQ} {nid : Nat} (hi : ListInv s) (h : SameQ s s' nid q') : ListInv s' := by
  have hlk := lookup_of_nodes h.nodes
  have hst : ∀ n, (s'.node n).state = (s.node n).state := by
    intro n; by_cases hn : n = nid
    · subst hn; exact h.self.2.1
    · exact (h.nd n hn).2.1
  have hidf : ∀ n, (s'.node n).id = (s.node n).id := by
    intro n; by_cases hn : n = nid
    · subst hn; exact h.self.2.2
    · exact (h.nd n hn).2.2
  refine ⟨?_, ?_, by rw [h.closedL]; exact hi.closedNodup, by rw [h.idleL]; exact hi.idleNodup⟩
  · intro x hx; rw [h.closedL] at hx; rw [hst, hidf, hlk]; exact hi.closedL x hx
  · intro x hx; rw [h.idleL] at hx; rw [hst, hidf, hlk]; exact hi.idleL x hx

/-- `modNode` with a function that only changes the queue. -/
theorem sameQ_modNode (s : P7540) {n : Nat} (hn : n < s.store.length) (f : Node → Node)
    (hf : ∀ m, (f m).state = m.state ∧ (f m).id = m.id) : SameQ s (s.modNode n f) n (f (s.node n)).q :=
  ⟨length_modNode _ _ _, by rw [node_modNode_self s _ hn]; exact ⟨rfl, (hf _).1, (hf _).2⟩,
   fun i hi => by rw [node_modNode_ne s _ hi]; exact ⟨rfl, rfl, rfl⟩, rfl, rfl, rfl, rfl, rfl⟩

/-! ### Push -/

theorem p7_push {s : P7540} {opn ever : Nat → Bool} {f : Frame} (hc : CoreInv s opn ever) (hli : ListInv s)
    (hok : pushOK opn f) :
    ∃ s', s.push f = (s', .ok) ∧ absP7 s' = (absP7 s).applyOp (.push f) ∧ CoreInv s' opn ever ∧ ListInv s' := by
  by_cases hctl : f.isControl = true
  · have hsq := sameQ_modNode s hc.rootlen (fun nn => { nn with q := nn.q.push f }) (fun _ => ⟨rfl, rfl⟩)
    refine ⟨s.modNode 0 fun nn => { nn with q := nn.q.push f }, by simp [P7540.push, hctl], ?_, ?_, list_sameQ hli hsq⟩
    · rw [abs_sameQ_root hc hsq]
      simp [Abs.applyOp, hctl, push_toList, absP7]
    · exact core_sameQ hc hsq hc.lim (fun _ h0 => absurd rfl h0)
  · have hctl' : f.isControl = false := by simpa using hctl
    have hopen := pushOK_stream hok hctl'
    obtain ⟨hid, n, hl, hst⟩ := (hc.opn _).1 hopen
    have hn := (hc.map _ n hl).1
    have hsq := sameQ_modNode s hn (fun nn => { nn with q := nn.q.push f }) (fun _ => ⟨rfl, rfl⟩)
    refine ⟨s.modNode n fun nn => { nn with q := nn.q.push f }, by simp [P7540.push, hctl', hl], ?_, ?_, list_sameQ hli hsq⟩
    · rw [abs_sameQ_node hc hl hid hsq]
      simp only [Abs.applyOp, hctl', Bool.false_eq_true, if_false, push_toList]
      refine Abs.ext' rfl ?_
      intro x
      simp only [upd]
      split
      · simp [absP7, hid, hl]
      · rfl
    · exact core_sameQ hc hsq hc.lim (fun _ _ => ⟨_, hl, hst⟩)

/-! ### Pop -/

theorem same_afterVisit (t : P7540) (op : Bool) (ht : 0 < t.limit) :
    Same t (t.afterVisit op) ∧ 0 < (t.afterVisit op).limit := by
  unfold afterVisit
  split
  · refine ⟨same_limit _ _, ?_⟩
    simp only; split
    · decide
    · omega
  · split
    · exact ⟨same_limit _ _, by simp⟩
    · exact ⟨Same.refl t, ht⟩

theorem addBytes_limit (s : P7540) (n : Nat) (b : Int) : (s.addBytes n b).limit = s.limit := by
  have hup : ∀ (fuel : Nat) (t : P7540) (x : Option Nat), (addBytes.up b fuel t x).limit = t.limit := by
    intro fuel
    induction fuel with
    | zero => intro t x; unfold addBytes.up; rfl
    | succ k ih =>
      intro t x
      cases x with
      | none => unfold addBytes.up; rfl
      | some x => unfold addBytes.up; rw [ih]; rfl
  unfold addBytes
  simp only [hup]; rfl

/-- A successful visit of node `n` consumed from `n`'s queue and changed nothing else C12 can see. -/
theorem visit_some {e e' : Env} {s : P7540} {n : Nat} {op : Bool} {f : Frame} {q' : WQ} (hl : 0 < s.limit)
    (hn : n < s.store.length) (hcons : (s.node n).q.consume e (s.visitLimit op) = (e', q', some f)) :
    ∃ s', visit e s n op = (e', s', some f) ∧ SameQ s s' n q' ∧ 0 < s'.limit := by
  have hsq := sameQ_modNode s hn (fun nn => { nn with q := q' }) (fun _ => ⟨rfl, rfl⟩)
  have hsq2 := hsq.of_same_right (same_addBytes _ n f.dataSize)
  have hlim : ((s.modNode n fun nn => { nn with q := q' }).addBytes n f.dataSize).limit = s.limit := by
    rw [addBytes_limit]; rfl
  obtain ⟨h1, h2⟩ := same_afterVisit ((s.modNode n fun nn => { nn with q := q' }).addBytes n f.dataSize) op
    (by rw [hlim]; exact hl)
  exact ⟨_, by simp [visit, hcons], hsq2.of_same_right h1, h2⟩

theorem ctl_consume {f : Frame} (hf : f.isControl = true) (e : Env) (n : Int) : f.consume e n = (e, .whole f) := by
  rcases consume_cases e n f with ⟨h1, _⟩ | ⟨sid, tag, off, len, fin, last, rfl, _, _⟩
  · exact h1
  · simp [Frame.isControl] at hf

theorem visitLimit_pos (s : P7540) (op : Bool) (hl : 0 < s.limit) : 0 < s.visitLimit op := by
  unfold visitLimit; split
  · exact hl
  · decide

theorem p7_pop {s : P7540} {opn ever : Nat → Bool} (e : Env) (hc : CoreInv s opn ever) (hli : ListInv s)
    (hwf : AbsWF (absP7 s) opn) :
    ∃ e' s' r, s.pop e = (e', s', r) ∧ PopSpec False e (absP7 s) r e' (absP7 s') ∧ CoreInv s' opn ever ∧ ListInv s' := by
  cases hroot : (s.node 0).q.toList with
  | cons f rest =>
    -- control frames first
    have hf := hwf.ctl f (by simp [absP7, hroot])
    rcases wq_consume_cons e (s.visitLimit false) hroot with ⟨e1, h1, _⟩ | ⟨e1, q1, h1, h2, h3⟩ | ⟨e1, c, r, h1, _, _⟩
    · rw [ctl_consume hf.1] at h1; cases h1
    · rw [ctl_consume hf.1] at h1; cases h1
      obtain ⟨s', hv, hsq, hl'⟩ := visit_some (op := false) hc.lim hc.rootlen h2
      have hne : (s.node 0).q.isEmpty = false := by
        cases hh : (s.node 0).q.isEmpty with
        | false => rfl
        | true => rw [(isEmpty_iff _).1 hh] at hroot; cases hroot
      refine ⟨e, s', .frame f, ?_, ?_, core_sameQ hc hsq hl' (fun _ h0 => absurd rfl h0), list_sameQ hli hsq⟩
      · unfold P7540.pop walk
        simp [hne, hv]
      · rw [abs_sameQ_root hc hsq, h3]
        exact PopSpec.ctl (a := absP7 s) (by simp [absP7, hroot])
    · rw [ctl_consume hf.1] at h1; cases h1
  | nil =>
    have hctl : (absP7 s).ctl = [] := by simp [absP7, hroot]
    have hw := walk_spec (s.store.length + 1) e s 0 false hc.lim
    rcases hp : walk (s.store.length + 1) e s 0 false with ⟨e', s', r⟩
    rw [hp] at hw
    cases r with
    | none =>
      refine ⟨e', s', .none, by simp [P7540.pop, hp], ?_, ?_, ?_⟩
      · cases hw with
        | none hs hlim =>
          rw [abs_same hs]
          exact PopSpec.none hctl (fun h => h.elim)
      · cases hw with
        | none hs hlim => exact core_same hc hs (by rw [hlim]; exact hc.lim)
      · cases hw with
        | none hs hlim => exact list_same hli hs
    | some f =>
      refine ⟨e', s', .frame f, by simp [P7540.pop, hp], ?_⟩
      cases hw with
      | some hpos hn hq hcons hsq hl' =>
        rename_i nid limit q'
        have hn0 : nid ≠ 0 := by intro hh; subst hh; exact hq hroot
        obtain ⟨id, hlk, hst⟩ := hc.emp nid hn0 hq
        have hid : id ≠ 0 := fun hh => hn0 ((hc.zero_iff hlk).2 hh)
        have hcore := core_sameQ hc hsq hl' (fun _ _ => ⟨id, hlk, hst⟩)
        refine ⟨?_, hcore, list_sameQ hli hsq⟩
        rw [abs_sameQ_node hc hlk hid hsq, hctl]
        cases hql : (s.node nid).q.toList with
        | nil => exact absurd hql hq
        | cons h rest =>
          have haq : (absP7 s).q id = h :: rest := by simp [absP7, hid, hlk, hql]
          rcases wq_consume_cons e limit hql with ⟨e1, h1, h2⟩ | ⟨e1, q1, h1, h2, h3⟩ | ⟨e1, c, r, h1, h2, h3⟩
          · rw [h2] at hcons; cases hcons
          · rw [h2] at hcons; cases hcons
            rw [h3]
            exact PopSpec.whole hctl haq hpos h1
          · rw [h2] at hcons; cases hcons
            rw [h3]
            exact PopSpec.split hctl haq hpos h1

/-! ### Limits are untouched by tree surgery -/

theorem limit_modNode (s : P7540) (a : Nat) (f : Node → Node) : (s.modNode a f).limit = s.limit := rfl

theorem limit_setParent {s s' : P7540} {n : Nat} {p : Option Nat} (h : s.setParent n p = some s') : s'.limit = s.limit := by
  unfold setParent at h
  split at h
  · cases h
  · split at h
    · cases h; rfl
    · have k1 : ∀ (t : P7540), (match (s.node n).parent with
          | some p => t.modNode p fun pn => { pn with kids := pn.kids.erase n }
          | none => t).limit = t.limit := by
        intro t; split <;> rfl
      cases p with
      | none => simp only at h; cases h; rw [limit_modNode]; exact k1 s
      | some pp => simp only at h; cases h; rw [limit_modNode, limit_modNode]; exact k1 s

theorem limit_setParent! (s : P7540) (n : Nat) (p : Option Nat) : (s.setParent! n p).limit = s.limit := by
  unfold setParent!
  cases h : s.setParent n p with
  | none => rfl
  | some s' => exact limit_setParent h

/-! ### `removeNode` -/

/-- `s'` is `s` with the map entry of node `x`'s id removed (plus invisible changes). -/
structure Removed (s s' : P7540) (x : Nat) : Prop where
  len : s'.store.length = s.store.length
  nd : ∀ i, Fields (s.node i) (s'.node i)
  nodes : s'.nodes = s.nodes.filter fun p => p.1 != (s.node x).id
  closedL : s'.closedL = s.closedL
  idleL : s'.idleL = s.idleL
  maxClosed : s'.maxClosed = s.maxClosed
  maxIdle : s'.maxIdle = s.maxIdle
  limit : s'.limit = s.limit

theorem removeNode_kidsLoop (x : Nat) (fuel : Nat) : ∀ s : P7540,
    Same s (removeNode.kidsLoop x fuel s) ∧ (removeNode.kidsLoop x fuel s).limit = s.limit := by
  induction fuel with
  | zero => intro s; unfold removeNode.kidsLoop; exact ⟨Same.refl s, rfl⟩
  | succ k ih =>
    intro s
    unfold removeNode.kidsLoop
    split
    · exact ⟨Same.refl s, rfl⟩
    · obtain ⟨h1, h2⟩ := ih (s.setParent! _ (s.node x).parent)
      exact ⟨(same_setParent! _ _ _).trans h1, by rw [h2, limit_setParent!]⟩

theorem removeNode_spec (s : P7540) (x : Nat) : Removed s (s.removeNode x) x := by
  unfold removeNode
  obtain ⟨h1, h2⟩ := removeNode_kidsLoop x (s.store.length + 1) s
  have h3 := same_setParent! (removeNode.kidsLoop x (s.store.length + 1) s) x none
  have h4 := h1.trans h3
  refine ⟨h4.len, h4.nd, ?_, h4.closedL, h4.idleL, h4.maxClosed, h4.maxIdle, ?_⟩
  · simp only [h4.nodes, (h4.nd x).2.2]
  · simp only [limit_setParent!, h2]

theorem lookup_filter (l : List (Nat × Nat)) (k a : Nat) :
    (l.filter fun p => p.1 != k).lookup a = if a = k then none else l.lookup a := by
  induction l with
  | nil => simp
  | cons p l ih =>
    obtain ⟨pk, pv⟩ := p
    by_cases hk : pk = k
    · subst hk
      simp only [List.filter, bne_self_eq_false, ih]
      by_cases ha : a = pk
      · simp [ha]
      · have : (a == pk) = false := by simpa using ha
        simp [List.lookup, this, ha]
    · have hk' : (pk != k) = true := by simpa using hk
      simp only [List.filter, hk', List.lookup]
      by_cases ha : a = pk
      · subst ha; simp [hk]
      · have : (a == pk) = false := by simpa using ha
        simp only [this, ih]

theorem removed_lookup {s s' : P7540} {x : Nat} (h : Removed s s' x) (a : Nat) :
    s'.lookup a = if a = (s.node x).id then none else s.lookup a := by
  simp only [lookup, h.nodes, lookup_filter]

/-- Removing a mapped node that is not open (closed or idle, hence with an empty queue). -/
theorem core_removed {s s' : P7540} {opn ever : Nat → Bool} {x : Nat} (hc : CoreInv s opn ever) (h : Removed s s' x)
    (hx0 : x ≠ 0) (hst : (s.node x).state ≠ 0) (hlk : s.lookup (s.node x).id = some x) :
    CoreInv s' opn ever ∧ absP7 s' = absP7 s := by
  have hidx : (s.node x).id ≠ 0 := fun hh => hx0 ((hc.zero_iff hlk).2 hh)
  have hl := removed_lookup h
  have hne : ∀ {a n}, s.lookup a = some n → (s.node n).state = 0 → a ≠ (s.node x).id := by
    intro a n ha hs hh; subst hh; rw [hlk] at ha; cases ha; exact hst hs
  constructor
  · refine ⟨?_, by rw [h.len]; exact hc.rootlen, by rw [(h.nd 0).2.2]; exact hc.rootid,
      by rw [(h.nd 0).2.1]; exact hc.rootst, ?_, ?_, ?_, ?_, by rw [h.limit]; exact hc.lim⟩
    · rw [hl]; simp [Ne.symm hidx, hc.root]
    · intro id n hn
      rw [hl] at hn
      split at hn
      · cases hn
      · rw [h.len, (h.nd n).2.2]; exact hc.map id n hn
    · intro id; rw [hc.opn id]
      constructor
      · rintro ⟨h0, n, h1, h2⟩
        refine ⟨h0, n, ?_, by rw [(h.nd n).2.1]; exact h2⟩
        rw [hl]; simp [hne h1 h2, h1]
      · rintro ⟨h0, n, h1, h2⟩
        rw [hl] at h1
        split at h1
        · cases h1
        · exact ⟨h0, n, h1, by rw [(h.nd n).2.1] at h2; exact h2⟩
    · intro n hn hq
      rw [(h.nd n).1] at hq
      obtain ⟨id, h1, h2⟩ := hc.emp n hn hq
      refine ⟨id, ?_, by rw [(h.nd n).2.1]; exact h2⟩
      rw [hl]; simp [hne h1 h2, h1]
    · intro id n h0 h1 h2
      rw [hl] at h1
      split at h1
      · cases h1
      · rw [(h.nd n).2.1] at h2; exact hc.ever id n h0 h1 h2
  · refine Abs.ext' ?_ ?_
    · simp [absP7, (h.nd 0).1]
    · intro id
      simp only [absP7, hl]
      by_cases hid0 : id = 0
      · simp [hid0]
      · simp only [hid0, if_false]
        by_cases hie : id = (s.node x).id
        · simp only [hie, if_true, hlk]
          cases hq : (s.node x).q.toList with
          | nil => rfl
          | cons f r =>
            obtain ⟨_, _, h2⟩ := hc.emp x hx0 (by rw [hq]; simp)
            exact absurd h2 hst
        · simp only [hie, if_false]
          cases hls : s.lookup id with
          | none => rfl
          | some n => simp only; rw [(h.nd n).1]

/-- List members other than the removed node stay mapped. -/
theorem list_removed {s s' : P7540} {opn ever : Nat → Bool} {x : Nat} (hc : CoreInv s opn ever) (h : Removed s s' x)
    (hlk : s.lookup (s.node x).id = some x) (st : Nat) (l : List Nat) (hx : x ∉ l)
    (hl : ∀ y ∈ l, (s.node y).state = st ∧ s.lookup (s.node y).id = some y) :
    ∀ y ∈ l, (s'.node y).state = st ∧ s'.lookup (s'.node y).id = some y := by
  intro y hy
  obtain ⟨h1, h2⟩ := hl y hy
  refine ⟨by rw [(h.nd y).2.1]; exact h1, ?_⟩
  rw [(h.nd y).2.2, removed_lookup h]
  have : (s.node y).id ≠ (s.node x).id := by
    intro hh; rw [hh, hlk] at h2; cases h2; exact hx hy
  simp [this, h2]

/-! ### The closed / idle lists -/

/-- `s'` agrees with `s` on store fields C12 can see and on the map (lists may differ). -/
structure SameC (s s' : P7540) : Prop where
  len : s'.store.length = s.store.length
  nd : ∀ i, Fields (s.node i) (s'.node i)
  nodes : s'.nodes = s.nodes
  limit : 0 < s'.limit

theorem abs_sameC {s s' : P7540} (h : SameC s s') : absP7 s' = absP7 s := by
  refine Abs.ext' ?_ ?_
  · simp [absP7, (h.nd 0).1]
  · intro id
    simp only [absP7, lookup_of_nodes h.nodes]
    split
    · rfl
    · split
      · rename_i n _; rw [(h.nd n).1]
      · rfl

theorem core_sameC {s s' : P7540} {opn ever : Nat → Bool} (hi : CoreInv s opn ever) (h : SameC s s') :
    CoreInv s' opn ever := by
  have hlk := lookup_of_nodes h.nodes
  refine ⟨by rw [hlk]; exact hi.root, by rw [h.len]; exact hi.rootlen, by rw [(h.nd 0).2.2]; exact hi.rootid,
    by rw [(h.nd 0).2.1]; exact hi.rootst, ?_, ?_, ?_, ?_, h.limit⟩
  · intro id n hn; rw [hlk] at hn; rw [h.len, (h.nd n).2.2]; exact hi.map id n hn
  · intro id; rw [hi.opn id]
    constructor
    · rintro ⟨h0, n, h1, h2⟩; exact ⟨h0, n, by rw [hlk]; exact h1, by rw [(h.nd n).2.1]; exact h2⟩
    · rintro ⟨h0, n, h1, h2⟩; exact ⟨h0, n, by rw [hlk] at h1; exact h1, by rw [(h.nd n).2.1] at h2; exact h2⟩
  · intro n hn hq; rw [(h.nd n).1] at hq
    obtain ⟨id, h1, h2⟩ := hi.emp n hn hq
    exact ⟨id, by rw [hlk]; exact h1, by rw [(h.nd n).2.1]; exact h2⟩
  · intro id n h0 h1 h2; rw [hlk] at h1; rw [(h.nd n).2.1] at h2; exact hi.ever id n h0 h1 h2

def stOf (c : Bool) : Nat := if c then 1 else 2

/-- invariant of one of the two lists -/
def LInv (s : P7540) (c : Bool) : Prop :=
  (∀ x ∈ s.getList c, (s.node x).state = stOf c ∧ s.lookup (s.node x).id = some x) ∧ (s.getList c).Nodup

theorem listInv_iff (s : P7540) : ListInv s ↔ (LInv s true ∧ LInv s false) := by
  constructor
  · intro h; exact ⟨⟨h.closedL, h.closedNodup⟩, ⟨h.idleL, h.idleNodup⟩⟩
  · rintro ⟨⟨h1, h2⟩, ⟨h3, h4⟩⟩; exact ⟨h1, h3, h2, h4⟩

theorem getList_setList_same (s : P7540) (c : Bool) (l : List Nat) : (s.setList c l).getList c = l := by
  cases c <;> rfl

theorem getList_setList_other (s : P7540) (c : Bool) (l : List Nat) : (s.setList c l).getList (!c) = s.getList (!c) := by
  cases c <;> rfl

theorem setList_fields (s : P7540) (c : Bool) (l : List Nat) :
    (s.setList c l).store = s.store ∧ (s.setList c l).nodes = s.nodes ∧ (s.setList c l).limit = s.limit ∧
    (s.setList c l).maxClosed = s.maxClosed ∧ (s.setList c l).maxIdle = s.maxIdle := by
  cases c <;> exact ⟨rfl, rfl, rfl, rfl, rfl⟩

theorem sameC_setList (s : P7540) (c : Bool) (l : List Nat) (hl : 0 < s.limit) : SameC s (s.setList c l) := by
  obtain ⟨h1, h2, h3, _, _⟩ := setList_fields s c l
  refine ⟨by rw [h1], fun i => ?_, h2, by rw [h3]; exact hl⟩
  have : (s.setList c l).node i = s.node i := by simp [node, h1]
  rw [this]; exact ⟨rfl, rfl, rfl⟩

/-- transfer of a list invariant along `SameC`, for an explicitly given list -/
theorem linv_transfer {s s' : P7540} (h : SameC s s') (st : Nat) (l : List Nat)
    (hl : ∀ x ∈ l, (s.node x).state = st ∧ s.lookup (s.node x).id = some x) :
    ∀ x ∈ l, (s'.node x).state = st ∧ s'.lookup (s'.node x).id = some x := by
  intro x hx
  rw [(h.nd x).2.1, (h.nd x).2.2, lookup_of_nodes h.nodes]; exact hl x hx

theorem stOf_ne (c : Bool) : stOf c ≠ stOf (!c) := by cases c <;> decide
theorem stOf_ne_zero (c : Bool) : stOf c ≠ 0 := by cases c <;> decide

/-- `evictHead` keeps everything; it can only drop the oldest member of the list. -/
theorem evict_spec {s : P7540} {opn ever : Nat → Bool} (c : Bool) (hc : CoreInv s opn ever)
    (h1 : LInv s c) (h2 : LInv s (!c)) :
    CoreInv (s.evictHead c) opn ever ∧ LInv (s.evictHead c) c ∧ LInv (s.evictHead c) (!c) ∧
    absP7 (s.evictHead c) = absP7 s ∧
    (∀ y, y ∈ (s.evictHead c).getList c → y ∈ s.getList c) ∧
    (∀ y, y ∉ s.getList c → (s.node y).state ≠ 0 ∨ True → Fields (s.node y) ((s.evictHead c).node y) ∧
        (s.lookup (s.node y).id = some y → (s.evictHead c).lookup (s.node y).id = some y)) ∧
    (s.evictHead c).maxClosed = s.maxClosed ∧ (s.evictHead c).maxIdle = s.maxIdle := by
  have hcase : s.evictHead c = s ∨ ∃ x rest, s.getList c = x :: rest ∧ s.evictHead c = (s.removeNode x).setList c rest := by
    unfold evictHead
    by_cases hfull : (s.getList c).length = (if c = true then s.maxClosed else s.maxIdle)
    · rw [if_pos hfull]
      cases hg : s.getList c with
      | nil => left; rfl
      | cons x rest => right; exact ⟨x, rest, rfl, rfl⟩
    · rw [if_neg hfull]; left; rfl
  rcases hcase with hs | ⟨x, rest, hg, hs⟩
  · rw [hs]; exact ⟨hc, h1, h2, rfl, fun y hy => hy, fun y _ _ => ⟨⟨rfl, rfl, rfl⟩, fun h => h⟩, rfl, rfl⟩
  · rw [hs]
    have hxm : x ∈ s.getList c := by rw [hg]; simp
    obtain ⟨hxs, hxl⟩ := h1.1 x hxm
    have hx0 : x ≠ 0 := by
      intro hh; subst hh; rw [hc.rootst] at hxs; exact stOf_ne_zero c hxs.symm
    have hxst : (s.node x).state ≠ 0 := by rw [hxs]; exact stOf_ne_zero c
    have hrem := removeNode_spec s x
    obtain ⟨hcore, habs⟩ := core_removed hc hrem hx0 hxst hxl
    have hsc := sameC_setList (s.removeNode x) c rest hcore.lim
    have hnd : (x :: rest).Nodup := by rw [← hg]; exact h1.2
    have hxrest : x ∉ rest := (List.nodup_cons.1 hnd).1
    have hxother : x ∉ s.getList (!c) := by
      intro hm; have := (h2.1 x hm).1; rw [hxs] at this; exact stOf_ne c this
    refine ⟨core_sameC hcore hsc, ?_, ?_, ?_, ?_, ?_, ?_, ?_⟩
    · rw [LInv, getList_setList_same]
      refine ⟨linv_transfer hsc _ rest ?_, (List.nodup_cons.1 hnd).2⟩
      exact list_removed hc hrem hxl _ rest hxrest (fun y hy => h1.1 y (by rw [hg]; simp [hy]))
    · rw [LInv, getList_setList_other]
      have hl2 : (s.removeNode x).getList (!c) = s.getList (!c) := by
        cases c <;> simp [getList, hrem.closedL, hrem.idleL]
      rw [hl2]
      refine ⟨linv_transfer hsc _ _ ?_, h2.2⟩
      exact list_removed hc hrem hxl _ _ hxother h2.1
    · rw [abs_sameC hsc, habs]
    · intro y hy; rw [getList_setList_same] at hy; rw [hg]; exact List.mem_cons_of_mem _ hy
    · intro y hy _
      have hyx : y ≠ x := by intro hh; subst hh; exact hy (by rw [hg]; exact List.mem_cons_self)
      have hf1 := hrem.nd y
      have hf2 := hsc.nd y
      refine ⟨⟨hf2.1.trans hf1.1, hf2.2.1.trans hf1.2.1, hf2.2.2.trans hf1.2.2⟩, ?_⟩
      intro hly
      rw [lookup_of_nodes hsc.nodes, removed_lookup hrem]
      have : (s.node y).id ≠ (s.node x).id := by
        intro hh; rw [hh, hxl] at hly; cases hly; exact hyx rfl
      simp [this, hly]
    · rw [(setList_fields _ c rest).2.2.2.1, hrem.maxClosed]
    · rw [(setList_fields _ c rest).2.2.2.2, hrem.maxIdle]

/-- `addClosedOrIdleNode(list, max, n)` for a mapped node `n` in the right state that is not on the list. -/
theorem addCOI_spec {s : P7540} {opn ever : Nat → Bool} (c : Bool) (n : Nat) (hc : CoreInv s opn ever)
    (hli : ListInv s) (hnst : (s.node n).state = stOf c) (hnlk : s.lookup (s.node n).id = some n)
    (hnin : n ∉ s.getList c) :
    CoreInv (s.addClosedOrIdle c n) opn ever ∧ ListInv (s.addClosedOrIdle c n) ∧
      absP7 (s.addClosedOrIdle c n) = absP7 s := by
  obtain ⟨h1, h2⟩ : LInv s c ∧ LInv s (!c) := by
    have := (listInv_iff s).1 hli
    cases c
    · exact ⟨this.2, this.1⟩
    · exact this
  unfold addClosedOrIdle
  by_cases hmax : (if c = true then s.maxClosed else s.maxIdle) = 0
  · rw [if_pos hmax]; exact ⟨hc, hli, rfl⟩
  · rw [if_neg hmax]
    simp only
    obtain ⟨e1, e2, e3, e4, e5, e6, _, _⟩ := evict_spec c hc h1 h2
    have hsc := sameC_setList (s.evictHead c) c ((s.evictHead c).getList c ++ [n]) e1.lim
    obtain ⟨hf, hlk'⟩ := e6 n hnin (Or.inr trivial)
    refine ⟨core_sameC e1 hsc, ?_, by rw [abs_sameC hsc, e4]⟩
    have hnot : n ∉ (s.evictHead c).getList c := fun hm => hnin (e5 n hm)
    have hA : LInv ((s.evictHead c).setList c ((s.evictHead c).getList c ++ [n])) c := by
      rw [LInv, getList_setList_same]
      refine ⟨linv_transfer hsc _ _ ?_, ?_⟩
      · intro y hy
        simp only [List.mem_append, List.mem_singleton] at hy
        rcases hy with hy | rfl
        · exact e2.1 y hy
        · refine ⟨by rw [hf.2.1]; exact hnst, ?_⟩
          rw [hf.2.2]; exact hlk' hnlk
      · rw [List.nodup_append]
        refine ⟨e2.2, by simp, ?_⟩
        intro a ha b hb
        simp at hb; subst hb
        intro hab; subst hab; exact hnot ha
    have hB : LInv ((s.evictHead c).setList c ((s.evictHead c).getList c ++ [n])) (!c) := by
      rw [LInv, getList_setList_other]
      exact ⟨linv_transfer hsc _ _ e3.1, e3.2⟩
    apply (listInv_iff _).2
    cases c
    · exact ⟨hB, hA⟩
    · exact ⟨hA, hB⟩

/-! ### CloseStream -/

/-- `s'` is `s` with node `n` marked closed and its queue detached. -/
structure Marked (s s' : P7540) (n : Nat) : Prop where
  len : s'.store.length = s.store.length
  self : (s'.node n).q = {} ∧ (s'.node n).state = 1 ∧ (s'.node n).id = (s.node n).id
  nd : ∀ i, i ≠ n → Fields (s.node i) (s'.node i)
  nodes : s'.nodes = s.nodes
  closedL : s'.closedL = s.closedL
  idleL : s'.idleL = s.idleL
  maxClosed : s'.maxClosed = s.maxClosed
  maxIdle : s'.maxIdle = s.maxIdle
  limit : s'.limit = s.limit

theorem closeMark_spec (s : P7540) {n : Nat} (hn : n < s.store.length) : Marked s (s.closeMark n) n := by
  have hA := node_modNode_self s (fun nn => { nn with state := 1 }) hn
  have hB := same_addBytes (s.modNode n fun nn => { nn with state := 1 }) n
    (-((s.modNode n fun nn => { nn with state := 1 }).node n).bytes)
  have hBlen : n < ((s.modNode n fun nn => { nn with state := 1 }).addBytes n
      (-((s.modNode n fun nn => { nn with state := 1 }).node n).bytes)).store.length := by
    rw [hB.len, length_modNode]; exact hn
  have hC := node_modNode_self _ (fun nn => { nn with q := ({} : WQ) }) hBlen
  have hmain : Marked s (((s.modNode n fun nn => { nn with state := 1 }).addBytes n
      (-((s.modNode n fun nn => { nn with state := 1 }).node n).bytes)).modNode n fun nn => { nn with q := {} }) n := by
    refine ⟨by rw [length_modNode, hB.len, length_modNode], ?_, ?_, ?_, ?_, ?_, ?_, ?_, ?_⟩
    · rw [hC]
      refine ⟨rfl, ?_, ?_⟩
      · show (P7540.node _ n).state = 1
        rw [(hB.nd n).2.1, hA]
      · show (P7540.node _ n).id = _
        rw [(hB.nd n).2.2, hA]
    · intro i hi
      rw [node_modNode_ne _ _ hi]
      have h1 := hB.nd i
      rw [node_modNode_ne s _ hi] at h1
      exact h1
    · show (P7540.addBytes _ n _).nodes = _; rw [hB.nodes]; rfl
    · show (P7540.addBytes _ n _).closedL = _; rw [hB.closedL]; rfl
    · show (P7540.addBytes _ n _).idleL = _; rw [hB.idleL]; rfl
    · show (P7540.addBytes _ n _).maxClosed = _; rw [hB.maxClosed]; rfl
    · show (P7540.addBytes _ n _).maxIdle = _; rw [hB.maxIdle]; rfl
    · show (P7540.addBytes _ n _).limit = _; rw [addBytes_limit]; rfl
  exact ⟨hmain.len, hmain.self, hmain.nd, hmain.nodes, hmain.closedL, hmain.idleL, hmain.maxClosed, hmain.maxIdle,
    hmain.limit⟩

theorem p7_close {s : P7540} {opn ever : Nat → Bool} {id : Nat} (hc : CoreInv s opn ever) (hli : ListInv s)
    (hok : opn id = true) :
    ∃ s', s.closeStream id = (s', .ok) ∧ absP7 s' = (absP7 s).applyOp (.closeS id) ∧
      CoreInv s' (upd opn id false) ever ∧ ListInv s' := by
  obtain ⟨hid, n, hl, hst⟩ := (hc.opn id).1 hok
  have hn := (hc.map id n hl).1
  have hnid := (hc.map id n hl).2
  have hn0 : n ≠ 0 := fun hh => hid ((hc.zero_iff hl).1 hh)
  have hm := closeMark_spec s hn
  have hlk := lookup_of_nodes hm.nodes
  have hstf : ∀ i, i ≠ n → (s.closeMark n |>.node i).state = (s.node i).state := fun i hi => (hm.nd i hi).2.1
  have hidf : ∀ i, ((s.closeMark n).node i).id = (s.node i).id := by
    intro i; by_cases hi : i = n
    · subst hi; exact hm.self.2.2
    · exact (hm.nd i hi).2.2
  -- the marked state
  have hcore : CoreInv (s.closeMark n) (upd opn id false) ever := by
    refine ⟨by rw [hlk]; exact hc.root, by rw [hm.len]; exact hc.rootlen, by rw [hidf]; exact hc.rootid,
      by rw [hstf 0 (Ne.symm hn0)]; exact hc.rootst, ?_, ?_, ?_, ?_, by rw [hm.limit]; exact hc.lim⟩
    · intro a m hma; rw [hlk] at hma; rw [hm.len, hidf]; exact hc.map a m hma
    · intro a
      by_cases ha : a = id
      · subst ha
        simp only [upd, if_true]
        constructor
        · intro h; cases h
        · rintro ⟨_, m, h1, h2⟩
          rw [hlk, hl] at h1; cases h1
          rw [hm.self.2.1] at h2; cases h2
      · simp only [upd, ha, if_false]
        rw [hc.opn a]
        constructor
        · rintro ⟨h0, m, h1, h2⟩
          have hmn : m ≠ n := fun hh => ha (hc.inj (hh ▸ h1) hl)
          exact ⟨h0, m, by rw [hlk]; exact h1, by rw [hstf m hmn]; exact h2⟩
        · rintro ⟨h0, m, h1, h2⟩
          rw [hlk] at h1
          have hmn : m ≠ n := fun hh => ha (hc.inj (hh ▸ h1) hl)
          exact ⟨h0, m, h1, by rw [hstf m hmn] at h2; exact h2⟩
    · intro m hm0 hq
      by_cases hmn : m = n
      · subst hmn; rw [hm.self.1] at hq; exact absurd rfl hq
      · rw [(hm.nd m hmn).1] at hq
        obtain ⟨a, h1, h2⟩ := hc.emp m hm0 hq
        exact ⟨a, by rw [hlk]; exact h1, by rw [hstf m hmn]; exact h2⟩
    · intro a m h0 h1 h2
      rw [hlk] at h1
      by_cases hmn : m = n
      · subst hmn
        have := hc.inj h1 hl; subst this
        exact hc.ever a m h0 h1 (by rw [hst]; decide)
      · rw [hstf m hmn] at h2; exact hc.ever a m h0 h1 h2
  have habs : absP7 (s.closeMark n) = (absP7 s).applyOp (.closeS id) := by
    simp only [Abs.applyOp]
    refine Abs.ext' ?_ ?_
    · simp [absP7, (hm.nd 0 (Ne.symm hn0)).1]
    · intro a
      simp only [absP7, hlk, upd]
      by_cases ha : a = id
      · subst ha; simp [hid, hl, hm.self.1, empty_toList]
      · simp only [ha, if_false]
        split
        · rfl
        · cases hla : s.lookup a with
          | none => rfl
          | some m =>
            simp only
            have hmn : m ≠ n := fun hh => ha (hc.inj (hh ▸ hla) hl)
            rw [(hm.nd m hmn).1]
  have hnc : n ∉ s.closedL := by
    intro hmem; have := (hli.closedL n hmem).1; rw [hst] at this; cases this
  have hni : n ∉ s.idleL := by
    intro hmem; have := (hli.idleL n hmem).1; rw [hst] at this; cases this
  have hlist : ListInv (s.closeMark n) := by
    refine ⟨?_, ?_, by rw [hm.closedL]; exact hli.closedNodup, by rw [hm.idleL]; exact hli.idleNodup⟩
    · intro x hx; rw [hm.closedL] at hx
      have hxn : x ≠ n := fun hh => hnc (hh ▸ hx)
      rw [hstf x hxn, hidf, hlk]; exact hli.closedL x hx
    · intro x hx; rw [hm.idleL] at hx
      have hxn : x ≠ n := fun hh => hni (hh ▸ hx)
      rw [hstf x hxn, hidf, hlk]; exact hli.idleL x hx
  have hnlk : (s.closeMark n).lookup ((s.closeMark n).node n).id = some n := by
    rw [hidf, hlk, hnid]; exact hl
  have hunf : s.closeStream id = (if (s.closeMark n).maxClosed > 0 then ((s.closeMark n).addClosedOrIdle true n, Res.ok)
      else ((s.closeMark n).removeNode n, Res.ok)) := by
    simp [closeStream, hid, hl, hst]
  rw [hunf]
  by_cases hmc : (s.closeMark n).maxClosed > 0
  · rw [if_pos hmc]
    obtain ⟨h1, h2, h3⟩ := addCOI_spec true n hcore hlist (by rw [hm.self.2.1]; rfl) hnlk
      (by show n ∉ (s.closeMark n).closedL; rw [hm.closedL]; exact hnc)
    exact ⟨_, rfl, by rw [h3, habs], h1, h2⟩
  · rw [if_neg hmc]
    have hrem := removeNode_spec (s.closeMark n) n
    obtain ⟨h1, h3⟩ := core_removed hcore hrem hn0 (by rw [hm.self.2.1]; decide) hnlk
    refine ⟨_, rfl, by rw [h3, habs], h1, ?_⟩
    refine ⟨?_, ?_, by rw [hrem.closedL]; exact hlist.closedNodup, by rw [hrem.idleL]; exact hlist.idleNodup⟩
    · rw [hrem.closedL]
      exact list_removed hcore hrem hnlk 1 _ (by rw [hm.closedL]; exact hnc) hlist.closedL
    · rw [hrem.idleL]
      exact list_removed hcore hrem hnlk 2 _ (by rw [hm.idleL]; exact hni) hlist.idleL

/-! ### New nodes (OpenStream of a fresh id, AdjustStream creating an idle node) -/

structure Added (s s' : P7540) (id st nid : Nat) : Prop where
  nidEq : nid = s.store.length
  len : s'.store.length = s.store.length + 1
  old : ∀ i, i < s.store.length → Fields (s.node i) (s'.node i)
  new : (s'.node nid).q = {} ∧ (s'.node nid).state = st ∧ (s'.node nid).id = id
  nodes : s'.nodes = (id, nid) :: s.nodes
  closedL : s'.closedL = s.closedL
  idleL : s'.idleL = s.idleL
  maxClosed : s'.maxClosed = s.maxClosed
  maxIdle : s'.maxIdle = s.maxIdle
  limit : s'.limit = s.limit

theorem getD_append_left {l : List Node} {x : Node} {i : Nat} (h : i < l.length) : (l ++ [x]).getD i {} = l.getD i {} := by
  simp only [List.getD_eq_getElem?_getD]
  rw [List.getElem?_append_left h]

theorem getD_append_right {l : List Node} {x : Node} : (l ++ [x]).getD l.length {} = x := by
  simp [List.getD_eq_getElem?_getD]

theorem addNode_spec (s : P7540) (id st parent : Nat) :
    Added s (s.addNode id st parent).1 id st (s.addNode id st parent).2 := by
  -- the state right after `newNode`
  let A : P7540 := { s.poolGet with store := s.poolGet.store ++ [{ id := id, q := {}, weight := 15, state := st }] }
  have hAlen : A.store.length = s.store.length + 1 := by simp [A, poolGet]
  have hAold : ∀ i, i < s.store.length → A.node i = s.node i := by
    intro i hi; simp only [A, node, poolGet]; exact getD_append_left hi
  have hAnew : A.node s.store.length = { id := id, q := {}, weight := 15, state := st } := by
    simp only [A, node, poolGet]; exact getD_append_right
  have hB := same_setParent! A s.store.length (some parent)
  have heq : s.addNode id st parent =
      ({ (A.setParent! s.store.length (some parent)) with nodes := (id, s.store.length) :: (A.setParent! s.store.length (some parent)).nodes },
       s.store.length) := by
    simp [addNode, newNode, A, poolGet]
  rw [heq]
  refine ⟨rfl, ?_, ?_, ?_, ?_, ?_, ?_, ?_, ?_, ?_⟩
  · show (A.setParent! _ _).store.length = _; rw [hB.len, hAlen]
  · intro i hi
    show Fields (s.node i) ((A.setParent! _ _).node i)
    have := hB.nd i; rw [hAold i hi] at this; exact this
  · have := hB.nd s.store.length; rw [hAnew] at this; exact this
  · show (id, s.store.length) :: (A.setParent! _ _).nodes = _; rw [hB.nodes]; rfl
  · show (A.setParent! _ _).closedL = _; rw [hB.closedL]; rfl
  · show (A.setParent! _ _).idleL = _; rw [hB.idleL]; rfl
  · show (A.setParent! _ _).maxClosed = _; rw [hB.maxClosed]; rfl
  · show (A.setParent! _ _).maxIdle = _; rw [hB.maxIdle]; rfl
  · show (A.setParent! _ _).limit = _; rw [limit_setParent!]; rfl

theorem added_lookup {s s' : P7540} {id st nid : Nat} (h : Added s s' id st nid) (a : Nat) :
    s'.lookup a = if a = id then some nid else s.lookup a := by
  simp only [lookup, h.nodes, List.lookup]
  by_cases ha : a = id
  · subst ha; simp
  · have : (a == id) = false := by simpa using ha
    simp [this, ha]

theorem core_added {s s' : P7540} {opn ever : Nat → Bool} {id st nid : Nat} (hc : CoreInv s opn ever)
    (h : Added s s' id st nid) (hnone : s.lookup id = none) (hid : id ≠ 0) (hst : st = 0 ∨ st = 2) :
    CoreInv s' (if st = 0 then upd opn id true else opn) (if st = 0 then upd ever id true else ever) ∧
      absP7 s' = absP7 s := by
  have hl := added_lookup h
  have hold : ∀ a m, s.lookup a = some m → m < s.store.length ∧ a ≠ id := by
    intro a m ham; refine ⟨(hc.map a m ham).1, ?_⟩
    intro hh; subst hh; rw [hnone] at ham; cases ham
  have hnid := h.nidEq
  constructor
  · refine ⟨?_, by rw [h.len]; omega, by rw [(h.old 0 hc.rootlen).2.2]; exact hc.rootid,
      by rw [(h.old 0 hc.rootlen).2.1]; exact hc.rootst, ?_, ?_, ?_, ?_, by rw [h.limit]; exact hc.lim⟩
    · rw [hl]; simp [Ne.symm hid, hc.root]
    · intro a m ham
      rw [hl] at ham
      split at ham
      · rename_i ha; cases ham; subst ha
        exact ⟨by rw [h.len, hnid]; omega, h.new.2.2⟩
      · obtain ⟨h1, _⟩ := hold a m ham
        exact ⟨by rw [h.len]; omega, by rw [(h.old m h1).2.2]; exact (hc.map a m ham).2⟩
    · intro a
      have key : (a ≠ 0 ∧ ∃ m, s'.lookup a = some m ∧ (s'.node m).state = 0) ↔
          ((a = id ∧ st = 0) ∨ (a ≠ id ∧ opn a = true)) := by
        rw [hc.opn a]
        constructor
        · rintro ⟨h0, m, h1, h2⟩
          rw [hl] at h1
          split at h1
          · rename_i ha; cases h1; left; exact ⟨ha, by rw [h.new.2.1] at h2; exact h2⟩
          · rename_i ha
            obtain ⟨hm, _⟩ := hold a m h1
            right; exact ⟨ha, h0, m, h1, by rw [(h.old m hm).2.1] at h2; exact h2⟩
        · rintro (⟨ha, hs0⟩ | ⟨ha, h0, m, h1, h2⟩)
          · subst ha; exact ⟨hid, nid, by rw [hl]; simp, by rw [h.new.2.1]; exact hs0⟩
          · obtain ⟨hm, _⟩ := hold a m h1
            exact ⟨h0, m, by rw [hl]; simp [ha, h1], by rw [(h.old m hm).2.1]; exact h2⟩
      rw [key]
      have hopnid : opn id = false := by
        cases ho : opn id with
        | false => rfl
        | true => obtain ⟨_, m, h1, _⟩ := (hc.opn id).1 ho; rw [hnone] at h1; cases h1
      by_cases ha : a = id
      · subst ha
        rcases hst with hs | hs
        · simp [hs, upd]
        · simp [hs, hopnid]
      · rcases hst with hs | hs
        · simp [hs, upd, ha]
        · simp [hs, ha]
    · intro m hm0 hq
      have hlt : m < s.store.length := by
        apply Classical.byContradiction; intro hge
        by_cases hmn : m = nid
        · subst hmn; rw [h.new.1] at hq; exact hq rfl
        · have : s'.store.length ≤ m := by rw [h.len]; omega
          rw [node_of_ge s' this] at hq; exact hq rfl
      rw [(h.old m hlt).1] at hq
      obtain ⟨a, h1, h2⟩ := hc.emp m hm0 hq
      obtain ⟨_, ha⟩ := hold a m h1
      exact ⟨a, by rw [hl]; simp [ha, h1], by rw [(h.old m hlt).2.1]; exact h2⟩
    · intro a m h0 h1 h2
      rw [hl] at h1
      split at h1
      · rename_i ha; cases h1; subst ha
        rw [h.new.2.1] at h2
        rcases hst with hs | hs
        · simp [hs, upd]
        · exact absurd hs h2
      · rename_i ha
        obtain ⟨hm, _⟩ := hold a m h1
        rw [(h.old m hm).2.1] at h2
        have := hc.ever a m h0 h1 h2
        rcases hst with hs | hs
        · simp [hs, upd, ha, this]
        · simp [hs, this]
  · refine Abs.ext' ?_ ?_
    · simp [absP7, (h.old 0 hc.rootlen).1]
    · intro a
      simp only [absP7, hl]
      by_cases ha0 : a = 0
      · simp [ha0]
      · simp only [ha0, if_false]
        by_cases ha : a = id
        · subst ha; simp [hnone, h.new.1, empty_toList]
        · simp only [ha, if_false]
          cases hla : s.lookup a with
          | none => rfl
          | some m => simp only; rw [(h.old m (hold a m hla).1).1]

theorem list_added {s s' : P7540} {opn ever : Nat → Bool} {id st nid : Nat} (hc : CoreInv s opn ever) (hli : ListInv s)
    (h : Added s s' id st nid) (hnone : s.lookup id = none) : ListInv s' := by
  have hl := added_lookup h
  have tr : ∀ (stt : Nat) (l : List Nat), (∀ x ∈ l, (s.node x).state = stt ∧ s.lookup (s.node x).id = some x) →
      ∀ x ∈ l, (s'.node x).state = stt ∧ s'.lookup (s'.node x).id = some x := by
    intro stt l hl0 x hx
    obtain ⟨h1, h2⟩ := hl0 x hx
    have hlt := (hc.map _ x h2).1
    rw [(h.old x hlt).2.1, (h.old x hlt).2.2, hl]
    have : (s.node x).id ≠ id := by intro hh; rw [hh, hnone] at h2; cases h2
    simp [this, h1, h2]
  exact ⟨by rw [h.closedL]; exact tr 1 _ hli.closedL, by rw [h.idleL]; exact tr 2 _ hli.idleL,
    by rw [h.closedL]; exact hli.closedNodup, by rw [h.idleL]; exact hli.idleNodup⟩

/-! ### OpenStream -/

theorem p7_open {s : P7540} {opn ever : Nat → Bool} {id pusher : Nat} (hc : CoreInv s opn ever) (hli : ListInv s)
    (hid : id ≠ 0) (hopn : opn id = false) (hfresh : ever id = false) :
    ∃ s', s.openStream id pusher = (s', .ok) ∧ absP7 s' = absP7 s ∧
      CoreInv s' (upd opn id true) (upd ever id true) ∧ ListInv s' := by
  cases hl : s.lookup id with
  | some cur =>
    -- the node exists: it can only be an idle node created by AdjustStream
    have hst2 : (s.node cur).state = 2 := by
      apply Classical.byContradiction; intro hne
      have := hc.ever id cur hid hl hne; rw [hfresh] at this; cases this
    have hcur := (hc.map id cur hl).1
    have hcur0 : cur ≠ 0 := fun hh => hid ((hc.zero_iff hl).1 hh)
    have hself := node_modNode_self s (fun n => { n with state := 0 }) hcur
    have hne : ∀ i, i ≠ cur → (s.modNode cur fun n => { n with state := 0 }).node i = s.node i :=
      fun i hi => node_modNode_ne s _ hi
    generalize hT : (s.modNode cur fun n => { n with state := 0 }) = T at hself hne
    have hTlen : T.store.length = s.store.length := by rw [← hT]; exact length_modNode _ _ _
    have hTnodes : T.lookup = s.lookup := by rw [← hT]; rfl
    have hTlim : T.limit = s.limit := by rw [← hT]; rfl
    have hTcl : T.closedL = s.closedL := by rw [← hT]; rfl
    have hTabs : absP7 T = absP7 s := by
      refine Abs.ext' ?_ ?_
      · simp only [absP7]; rw [hne 0 (Ne.symm hcur0)]
      · intro a
        simp only [absP7, hTnodes]
        split
        · rfl
        · cases hla : s.lookup a with
          | none => rfl
          | some m =>
            simp only
            by_cases hm : m = cur
            · subst hm; rw [hself]
            · rw [hne m hm]
    have hTcore : CoreInv T (upd opn id true) (upd ever id true) := by
      refine ⟨by rw [hTnodes]; exact hc.root, by rw [hTlen]; exact hc.rootlen,
        by rw [hne 0 (Ne.symm hcur0)]; exact hc.rootid,
        by rw [hne 0 (Ne.symm hcur0)]; exact hc.rootst, ?_, ?_, ?_, ?_, by rw [hTlim]; exact hc.lim⟩
      · intro a m ham
        rw [hTnodes] at ham
        rw [hTlen]
        by_cases hm : m = cur
        · subst hm; rw [hself]; exact hc.map a m ham
        · rw [hne m hm]; exact hc.map a m ham
      · intro a
        rw [hTnodes]
        by_cases ha : a = id
        · subst ha; simp only [upd, if_true, true_iff]
          exact ⟨hid, cur, hl, by rw [hself]⟩
        · simp only [upd, ha, if_false]
          rw [hc.opn a]
          constructor
          · rintro ⟨h0, m, h1, h2⟩
            have hm : m ≠ cur := fun hh => ha (hc.inj (hh ▸ h1) hl)
            exact ⟨h0, m, h1, by rw [hne m hm]; exact h2⟩
          · rintro ⟨h0, m, h1, h2⟩
            have hm : m ≠ cur := fun hh => ha (hc.inj (hh ▸ h1) hl)
            exact ⟨h0, m, h1, by rw [hne m hm] at h2; exact h2⟩
      · intro m hm0 hq
        rw [hTnodes]
        by_cases hm : m = cur
        · subst hm; exact ⟨id, hl, by rw [hself]⟩
        · rw [hne m hm] at hq ⊢
          exact hc.emp m hm0 hq
      · intro a m h0 h1 h2
        rw [hTnodes] at h1
        by_cases ha : a = id
        · simp [upd, ha]
        · simp only [upd, ha, if_false]
          have hm : m ≠ cur := fun hh => ha (hc.inj (hh ▸ h1) hl)
          rw [hne m hm] at h2
          exact hc.ever a m h0 h1 h2
    have hTclosed : ∀ x ∈ s.closedL, (T.node x).state = 1 ∧ T.lookup (T.node x).id = some x := by
      intro x hx
      have hxc : x ≠ cur := by intro hh; subst hh; have := (hli.closedL x hx).1; rw [hst2] at this; cases this
      rw [hne x hxc, hTnodes]; exact hli.closedL x hx
    have hTidle : ∀ x ∈ s.idleL.erase cur, (T.node x).state = 2 ∧ T.lookup (T.node x).id = some x := by
      intro x hx
      have hxc : x ≠ cur := by intro hh; subst hh; exact (hli.idleNodup.not_mem_erase) hx
      rw [hne x hxc, hTnodes]; exact hli.idleL x (List.mem_of_mem_erase hx)
    have hsc : SameC T { T with idleL := s.idleL.erase cur } := ⟨rfl, fun _ => ⟨rfl, rfl, rfl⟩, rfl, hTcore.lim⟩
    refine ⟨{ T with idleL := s.idleL.erase cur }, by rw [← hT]; simp [openStream, hl, hst2], ?_, core_sameC hTcore hsc, ?_⟩
    · rw [abs_sameC hsc, hTabs]
    · exact ⟨by show ∀ x ∈ T.closedL, _; rw [hTcl]; exact linv_transfer hsc 1 _ hTclosed,
        linv_transfer hsc 2 _ hTidle, by show T.closedL.Nodup; rw [hTcl]; exact hli.closedNodup,
        hli.idleNodup.erase cur⟩
  | none =>
    have hadd := addNode_spec s id 0 ((s.lookup pusher).getD 0)
    obtain ⟨h1, h2⟩ := core_added hc hadd hl hid (Or.inl rfl)
    have h3 := list_added hc hli hadd hl
    simp only [if_true] at h1
    rcases hA : s.addNode id 0 ((s.lookup pusher).getD 0) with ⟨s1, nid⟩
    rw [hA] at hadd h1 h2 h3
    simp only at hadd h1 h2 h3
    have hsc : SameC s1 { s1 with maxID := if id > s1.maxID then id else s1.maxID } :=
      ⟨rfl, fun _ => ⟨rfl, rfl, rfl⟩, rfl, h1.lim⟩
    refine ⟨{ s1 with maxID := if id > s1.maxID then id else s1.maxID }, by simp [openStream, hl, hA], ?_, core_sameC h1 hsc, ?_⟩
    · rw [abs_sameC hsc, h2]
    · exact ⟨linv_transfer hsc 1 _ h3.closedL, linv_transfer hsc 2 _ h3.idleL, h3.closedNodup, h3.idleNodup⟩

/-! ### AdjustStream -/

theorem adjust_fold (n : Nat) (l : List Nat) : ∀ s : P7540,
    Same s (l.foldl (fun s k => if (k != n) = true then s.setParent! k (some n) else s) s) ∧
    (l.foldl (fun s k => if (k != n) = true then s.setParent! k (some n) else s) s).limit = s.limit := by
  induction l with
  | nil => intro s; exact ⟨Same.refl s, rfl⟩
  | cons k ks ih =>
    intro s
    simp only [List.foldl_cons]
    split
    · obtain ⟨h1, h2⟩ := ih (s.setParent! k (some n))
      exact ⟨(same_setParent! _ _ _).trans h1, by rw [h2, limit_setParent!]⟩
    · exact ih s

theorem adjustLink_spec (s : P7540) (n dep : Nat) (excl : Bool) (w : Nat) :
    Same s (s.adjustLink n dep excl w).1 ∧ (s.adjustLink n dep excl w).1.limit = s.limit ∧
      (s.adjustLink n dep excl w).2 = .ok := by
  unfold adjustLink
  cases s.lookup dep with
  | none =>
    simp only
    refine ⟨(same_setParent! _ _ _).trans (same_modNode _ _ (fun _ => ⟨rfl, rfl, rfl⟩)), ?_, trivial⟩
    rw [limit_modNode, limit_setParent!]
  | some parent =>
    simp only
    by_cases hnp : n = parent
    · rw [if_pos hnp]; exact ⟨Same.refl s, rfl, rfl⟩
    · rw [if_neg hnp]
      simp only
      -- step 1: move the parent out of n's subtree if needed
      have hA : ∀ t : P7540, Same t (if isAncestor t n (t.store.length + 1) (t.node parent).parent = true
          then t.setParent! parent (t.node n).parent else t) ∧
          (if isAncestor t n (t.store.length + 1) (t.node parent).parent = true
          then t.setParent! parent (t.node n).parent else t).limit = t.limit := by
        intro t; split
        · exact ⟨same_setParent! _ _ _, limit_setParent! _ _ _⟩
        · exact ⟨Same.refl t, rfl⟩
      obtain ⟨a1, a2⟩ := hA s
      -- step 2: exclusive
      have hB : ∀ t : P7540, Same t (if excl = true then
            (t.node parent).kids.foldl (fun s k => if (k != n) = true then s.setParent! k (some n) else s) t else t) ∧
          (if excl = true then
            (t.node parent).kids.foldl (fun s k => if (k != n) = true then s.setParent! k (some n) else s) t else t).limit
            = t.limit := by
        intro t; split
        · exact adjust_fold n _ t
        · exact ⟨Same.refl t, rfl⟩
      obtain ⟨b1, b2⟩ := hB (if isAncestor s n (s.store.length + 1) (s.node parent).parent = true
          then s.setParent! parent (s.node n).parent else s)
      refine ⟨((a1.trans b1).trans (same_setParent! _ _ _)).trans (same_modNode _ _ (fun _ => ⟨rfl, rfl, rfl⟩)), ?_, trivial⟩
      rw [limit_modNode, limit_setParent!, b2, a2]

theorem p7_adjust {s : P7540} {opn ever : Nat → Bool} {id dep w : Nat} {excl : Bool} (hc : CoreInv s opn ever)
    (hli : ListInv s) (hid : id ≠ 0) :
    ∃ s', s.adjustStream id dep excl w = (s', .ok) ∧ absP7 s' = absP7 s ∧ CoreInv s' opn ever ∧ ListInv s' := by
  -- first half
  have hfind : s.adjustFind id = none ∨ ∃ s1 n, s.adjustFind id = some (s1, n) ∧ absP7 s1 = absP7 s ∧
      CoreInv s1 opn ever ∧ ListInv s1 := by
    unfold adjustFind
    cases hl : s.lookup id with
    | some n => right; exact ⟨s, n, rfl, rfl, hc, hli⟩
    | none =>
      simp only
      by_cases hcond : id ≤ s.maxID ∨ s.maxIdle = 0
      · left; rw [if_pos hcond]
      · right
        rw [if_neg hcond]
        have hsc0 : SameC s { s with maxID := id } := ⟨rfl, fun _ => ⟨rfl, rfl, rfl⟩, rfl, hc.lim⟩
        have hc0 := core_sameC hc hsc0
        have hli0 : ListInv { s with maxID := id } :=
          ⟨linv_transfer hsc0 1 _ hli.closedL, linv_transfer hsc0 2 _ hli.idleL, hli.closedNodup, hli.idleNodup⟩
        have hl0 : ({ s with maxID := id } : P7540).lookup id = none := hl
        have hadd := addNode_spec { s with maxID := id } id 2 0
        obtain ⟨h1, h2⟩ := core_added hc0 hadd hl0 hid (Or.inr rfl)
        have h3 := list_added hc0 hli0 hadd hl0
        have h20 : ¬ (2 = 0) := by decide
        simp only [h20, if_false] at h1
        rcases hA : ({ s with maxID := id } : P7540).addNode id 2 0 with ⟨s1, nid⟩
        rw [hA] at hadd h1 h2 h3
        simp only at hadd h1 h2 h3
        have hnin : nid ∉ s1.getList false := by
          show nid ∉ s1.idleL
          rw [hadd.idleL]
          intro hm
          have := (hc0.map _ nid (hli0.idleL nid hm).2).1
          rw [hadd.nidEq] at this; exact Nat.lt_irrefl _ this
        have hlkn : s1.lookup (s1.node nid).id = some nid := by
          rw [hadd.new.2.2, added_lookup hadd]; simp
        obtain ⟨c1, c2, c3⟩ := addCOI_spec false nid h1 h3 (by rw [hadd.new.2.1]; rfl) hlkn hnin
        refine ⟨s1.addClosedOrIdle false nid, nid, rfl, ?_, c1, c2⟩
        rw [c3, h2, abs_sameC hsc0]
  unfold adjustStream
  rw [if_neg hid]
  rcases hfind with hnone | ⟨s1, n, hsome, ha, hc1, hl1⟩
  · rw [hnone]; exact ⟨s, rfl, rfl, hc, hli⟩
  · rw [hsome]
    simp only
    obtain ⟨hs, hlim, hok⟩ := adjustLink_spec s1 n dep excl w
    refine ⟨(s1.adjustLink n dep excl w).1, ?_, by rw [abs_same hs, ha],
      core_same hc1 hs (by rw [hlim]; exact hc1.lim), list_same hl1 hs⟩
    rw [← hok]

end NetVerif.Proofs.WriteSched7540
