import NetVerif.Proofs.Lemmas.WriteSchedRefine
import NetVerif.Model.WriteSched7540
/-!
Refinement of the (repaired) RFC 7540 priority scheduler model to the C12 FIFO specification.

The priority tree (parent/kids links, weights, byte counts, sibling sorting) decides only WHICH ready
node `Pop` serves.  What C12 needs is independent of the tree shape:
* tree surgery (`setParent`, `addBytes`, sorting, re-linking in `AdjustStream`) never touches a node's
  queue, state or id, nor the id ↦ node map (`Same`);
* only nodes that are mapped and open (or the root) ever have a non-empty queue (`P7Inv.emp`), so whatever
  node the walk serves, it is the queue of an open stream;
* nodes leave the map only by `removeNode`, which is applied to closed or idle nodes (empty queues).
The clause "`Pop` returns nothing only if nothing is sendable" needs reachability of every node from the
root and is NOT proved here (`StepSpec False`).
-/
namespace NetVerif.Proofs.WriteSched7540
open NetVerif.Model.WriteSched NetVerif.Model.WriteSched.P7540 NetVerif.Proofs.WriteSchedLemmas
  NetVerif.Proofs.WriteSchedSpec NetVerif.Proofs.WriteSchedRefine

/-! ### Store access -/

theorem length_modNode (s : P7540) (a : Nat) (f : Node → Node) : (s.modNode a f).store.length = s.store.length := by
  simp [modNode, setNode]

theorem node_modNode_ne (s : P7540) {a b : Nat} (f : Node → Node) (h : b ≠ a) : (s.modNode a f).node b = s.node b := by
  simp only [modNode, setNode, node, List.getD_eq_getElem?_getD]
  rw [List.getElem?_set]
  have : ¬ a = b := fun hh => h hh.symm
  simp [this]

theorem node_modNode_self (s : P7540) {a : Nat} (f : Node → Node) (h : a < s.store.length) :
    (s.modNode a f).node a = f (s.node a) := by
  simp only [modNode, setNode, node, List.getD_eq_getElem?_getD]
  rw [List.getElem?_set]
  simp [h]

theorem node_of_ge (s : P7540) {a : Nat} (h : s.store.length ≤ a) : s.node a = {} := by
  simp only [node, List.getD_eq_getElem?_getD]
  rw [List.getElem?_eq_none h]; rfl

/-- `f` leaves queue, state and id alone. -/
def Keeps (f : Node → Node) : Prop := ∀ n, (f n).q = n.q ∧ (f n).state = n.state ∧ (f n).id = n.id

def Fields (n m : Node) : Prop := m.q = n.q ∧ m.state = n.state ∧ m.id = n.id

theorem fields_modNode (s : P7540) (a : Nat) {f : Node → Node} (hf : Keeps f) (i : Nat) :
    Fields (s.node i) ((s.modNode a f).node i) := by
  by_cases hi : i = a
  · subst hi
    by_cases hl : i < s.store.length
    · rw [node_modNode_self s f hl]; exact hf _
    · have h1 : s.node i = {} := node_of_ge s (by omega)
      have h2 : (s.modNode i f).node i = {} := node_of_ge _ (by rw [length_modNode]; omega)
      rw [h1, h2]; exact ⟨rfl, rfl, rfl⟩
  · rw [node_modNode_ne s f hi]; exact ⟨rfl, rfl, rfl⟩

/-- `s'` differs from `s` only in tree links, weights, byte counters, the throttle limit. -/
structure Same (s s' : P7540) : Prop where
  len : s'.store.length = s.store.length
  nd : ∀ i, Fields (s.node i) (s'.node i)
  nodes : s'.nodes = s.nodes
  closedL : s'.closedL = s.closedL
  idleL : s'.idleL = s.idleL
  maxClosed : s'.maxClosed = s.maxClosed
  maxIdle : s'.maxIdle = s.maxIdle

theorem Same.refl (s : P7540) : Same s s := ⟨rfl, fun _ => ⟨rfl, rfl, rfl⟩, rfl, rfl, rfl, rfl, rfl⟩

theorem Same.trans {a b c : P7540} (h1 : Same a b) (h2 : Same b c) : Same a c :=
  ⟨h2.len.trans h1.len,
   fun i => ⟨(h2.nd i).1.trans (h1.nd i).1, (h2.nd i).2.1.trans (h1.nd i).2.1, (h2.nd i).2.2.trans (h1.nd i).2.2⟩,
   h2.nodes.trans h1.nodes, h2.closedL.trans h1.closedL, h2.idleL.trans h1.idleL,
   h2.maxClosed.trans h1.maxClosed, h2.maxIdle.trans h1.maxIdle⟩

theorem same_modNode (s : P7540) (a : Nat) {f : Node → Node} (hf : Keeps f) : Same s (s.modNode a f) :=
  ⟨length_modNode s a f, fields_modNode s a hf, rfl, rfl, rfl, rfl, rfl⟩

theorem same_setParent {s s' : P7540} {n : Nat} {p : Option Nat} (h : s.setParent n p = some s') : Same s s' := by
  unfold setParent at h
  split at h
  · cases h
  · split at h
    · cases h; exact Same.refl s
    · have k1 : ∀ (t : P7540), Same t (match (s.node n).parent with
          | some p => t.modNode p fun pn => { pn with kids := pn.kids.erase n }
          | none => t) := by
        intro t; split
        · exact same_modNode t _ (fun _ => ⟨rfl, rfl, rfl⟩)
        · exact Same.refl t
      have k2 := k1 s
      have k3 : ∀ t : P7540, Same t (t.modNode n fun nn => { nn with parent := p }) :=
        fun t => same_modNode t _ (fun _ => ⟨rfl, rfl, rfl⟩)
      cases p with
      | none => simp only at h; cases h; exact k2.trans (k3 _)
      | some pp =>
        simp only at h; cases h
        exact (k2.trans (k3 _)).trans (same_modNode _ _ (fun _ => ⟨rfl, rfl, rfl⟩))

theorem same_setParent! (s : P7540) (n : Nat) (p : Option Nat) : Same s (s.setParent! n p) := by
  unfold setParent!
  cases h : s.setParent n p with
  | none => exact Same.refl s
  | some s' => exact same_setParent h

theorem same_addBytes_up (b : Int) (fuel : Nat) : ∀ (s : P7540) (x : Option Nat), Same s (addBytes.up b fuel s x) := by
  induction fuel with
  | zero => intro s x; unfold addBytes.up; exact Same.refl s
  | succ k ih =>
    intro s x
    cases x with
    | none => unfold addBytes.up; exact Same.refl s
    | some x =>
      unfold addBytes.up
      apply Same.trans ?_ (ih _ _)
      exact same_modNode _ _ (fun _ => ⟨rfl, rfl, rfl⟩)

theorem same_addBytes (s : P7540) (n : Nat) (b : Int) : Same s (s.addBytes n b) := by
  unfold addBytes
  apply Same.trans ?_ (same_addBytes_up b _ _ _)
  exact same_modNode _ _ (fun _ => ⟨rfl, rfl, rfl⟩)

theorem same_limit (s : P7540) (l : Int) : Same s { s with limit := l } :=
  ⟨rfl, fun _ => ⟨rfl, rfl, rfl⟩, rfl, rfl, rfl, rfl, rfl⟩

/-! ### `Pop`: the walk serves at most one node and otherwise changes nothing C12 can see -/

/-- `s'` is `s` with the queue of node `nid` replaced by `q'` (plus invisible changes). -/
structure SameQ (s s' : P7540) (nid : Nat) (q' : WQ) : Prop where
  len : s'.store.length = s.store.length
  self : (s'.node nid).q = q' ∧ (s'.node nid).state = (s.node nid).state ∧ (s'.node nid).id = (s.node nid).id
  nd : ∀ i, i ≠ nid → Fields (s.node i) (s'.node i)
  nodes : s'.nodes = s.nodes
  closedL : s'.closedL = s.closedL
  idleL : s'.idleL = s.idleL
  maxClosed : s'.maxClosed = s.maxClosed
  maxIdle : s'.maxIdle = s.maxIdle

theorem SameQ.of_same_left {a b c : P7540} {nid : Nat} {q' : WQ} (h1 : Same a b) (h2 : SameQ b c nid q') :
    SameQ a c nid q' :=
  ⟨h2.len.trans h1.len,
   ⟨h2.self.1, h2.self.2.1.trans (h1.nd nid).2.1, h2.self.2.2.trans (h1.nd nid).2.2⟩,
   fun i hi => ⟨(h2.nd i hi).1.trans (h1.nd i).1, (h2.nd i hi).2.1.trans (h1.nd i).2.1, (h2.nd i hi).2.2.trans (h1.nd i).2.2⟩,
   h2.nodes.trans h1.nodes, h2.closedL.trans h1.closedL, h2.idleL.trans h1.idleL,
   h2.maxClosed.trans h1.maxClosed, h2.maxIdle.trans h1.maxIdle⟩

theorem SameQ.of_same_right {a b c : P7540} {nid : Nat} {q' : WQ} (h1 : SameQ a b nid q') (h2 : Same b c) :
    SameQ a c nid q' :=
  ⟨h2.len.trans h1.len,
   ⟨(h2.nd nid).1.trans h1.self.1, (h2.nd nid).2.1.trans h1.self.2.1, (h2.nd nid).2.2.trans h1.self.2.2⟩,
   fun i hi => ⟨(h2.nd i).1.trans (h1.nd i hi).1, (h2.nd i).2.1.trans (h1.nd i hi).2.1, (h2.nd i).2.2.trans (h1.nd i hi).2.2⟩,
   h2.nodes.trans h1.nodes, h2.closedL.trans h1.closedL, h2.idleL.trans h1.idleL,
   h2.maxClosed.trans h1.maxClosed, h2.maxIdle.trans h1.maxIdle⟩

/-- What a walk can do, relative to the state `s` it started from. -/
inductive WalkRes (e : Env) (s : P7540) : Env → P7540 → Option Frame → Prop
  | none {s'} : Same s s' → s'.limit = s.limit → WalkRes e s e s' none
  | some {e' s' nid limit q' f} : 0 < limit → nid < s.store.length → (s.node nid).q.toList ≠ [] →
      (s.node nid).q.consume e limit = (e', q', some f) → SameQ s s' nid q' → 0 < s'.limit →
      WalkRes e s e' s' (some f)

theorem isEmpty_false_toList {q : WQ} (h : q.isEmpty = false) : q.toList ≠ [] := by
  intro hh; rw [(isEmpty_iff q).2 hh] at h; cases h

theorem visit_spec (e : Env) (s : P7540) (n : Nat) (op : Bool) (hl : 0 < s.limit) (hn : n < s.store.length)
    (hq : (s.node n).q.toList ≠ []) :
    WalkRes e s (visit e s n op).1 (visit e s n op).2.1 (visit e s n op).2.2 := by
  generalize hv : visit e s n op = v
  unfold visit at hv
  split at hv
  · subst hv; exact WalkRes.none (Same.refl s) rfl
  · rename_i e' q' f hc
    have hpos : (0 : Int) < s.visitLimit op := by
      unfold visitLimit; split
      · exact hl
      · decide
    have hsq : SameQ s (s.modNode n fun nn => { nn with q := q' }) n q' :=
      ⟨length_modNode _ _ _, by rw [node_modNode_self s _ hn]; exact ⟨rfl, rfl, rfl⟩,
       fun i hi => by rw [node_modNode_ne s _ hi]; exact ⟨rfl, rfl, rfl⟩, rfl, rfl, rfl, rfl, rfl⟩
    have hsq2 := hsq.of_same_right (same_addBytes _ n f.dataSize)
    have hup : ∀ (b : Int) (fuel : Nat) (t : P7540) (x : Option Nat), (addBytes.up b fuel t x).limit = t.limit := by
      intro b fuel
      induction fuel with
      | zero => intro t x; unfold addBytes.up; rfl
      | succ k ih =>
        intro t x
        cases x with
        | none => unfold addBytes.up; rfl
        | some x => unfold addBytes.up; rw [ih]; rfl
    have hlim0 : ((s.modNode n fun nn => { nn with q := q' }).addBytes n f.dataSize).limit = s.limit := by
      unfold addBytes
      simp only [hup]; rfl
    have hav : ∀ t : P7540, 0 < t.limit → Same t (t.afterVisit op) ∧ 0 < (t.afterVisit op).limit := by
      intro t ht
      unfold afterVisit
      split
      · refine ⟨same_limit _ _, ?_⟩
        simp only; split
        · decide
        · omega
      · split
        · exact ⟨same_limit _ _, by simp⟩
        · exact ⟨Same.refl t, ht⟩
    obtain ⟨h1, h2⟩ := hav _ (by rw [hlim0]; exact hl)
    subst hv
    exact WalkRes.some hpos hn hq hc (hsq2.of_same_right h1) h2

theorem walkRes_of_same {e : Env} {s s1 : P7540} (h : Same s s1) (hlim : s1.limit = s.limit) {e' : Env} {s' : P7540}
    {r : Option Frame} (hw : WalkRes e s1 e' s' r) : WalkRes e s e' s' r := by
  cases hw with
  | none h2 h3 => exact WalkRes.none (h.trans h2) (h3.trans hlim)
  | some hpos hn hq hc hsq hl' =>
    rename_i nid limit q' f
    have hqeq : (s1.node nid).q = (s.node nid).q := (h.nd nid).1
    refine WalkRes.some hpos (by rw [← h.len]; exact hn) (by rw [← hqeq]; exact hq) (by rw [← hqeq]; exact hc)
      (hsq.of_same_left h) hl'

theorem walkRes_none_env {e e' : Env} {s s' : P7540} {r : Option Frame} (h : WalkRes e s e' s' r) (hr : r = none) :
    e' = e := by
  cases h with
  | none _ _ => rfl
  | some _ _ _ _ _ _ => cases hr

theorem walk_spec (fuel : Nat) : ∀ (e : Env) (s : P7540) (n : Nat) (op : Bool), 0 < s.limit →
    WalkRes e s (walk fuel e s n op).1 (walk fuel e s n op).2.1 (walk fuel e s n op).2.2 := by
  induction fuel with
  | zero => intro e s n op _; unfold walk; exact WalkRes.none (Same.refl s) rfl
  | succ fu ih =>
    intro e s n op hl
    unfold walk
    -- the node itself
    have hfirst : WalkRes e s
        (if (s.node n).q.isEmpty = true then (e, s, (none : Option Frame)) else visit e s n op).1
        (if (s.node n).q.isEmpty = true then (e, s, (none : Option Frame)) else visit e s n op).2.1
        (if (s.node n).q.isEmpty = true then (e, s, (none : Option Frame)) else visit e s n op).2.2 := by
      split
      · exact WalkRes.none (Same.refl s) rfl
      · rename_i hne
        have hq := isEmpty_false_toList (by simpa using hne)
        have hn : n < s.store.length := by
          apply Classical.byContradiction; intro hge
          rw [node_of_ge s (by omega)] at hq; exact hq rfl
        exact visit_spec e s n op hl hn hq
    rcases hr : (if (s.node n).q.isEmpty = true then (e, s, (none : Option Frame)) else visit e s n op) with ⟨e1, s1, r1⟩
    rw [hr] at hfirst
    cases r1 with
    | some f => simpa using hfirst
    | none =>
      simp only
      cases hk : (s.node n).kids with
      | nil => simp only; exact WalkRes.none (Same.refl s) rfl
      | cons k0 ks =>
        simp only
        -- state after the optional sort
        generalize hs2 : (if (ks.any fun k => (s.node k).weight != (s.node k0).weight) = true then
            s.modNode n fun nn => { nn with kids := insertionSort (fun a b => less (s.node a) (s.node b)) (k0 :: ks) }
          else s) = s2
        have hsame2 : Same s s2 ∧ s2.limit = s.limit := by
          rw [← hs2]; split
          · exact ⟨same_modNode s n (fun _ => ⟨rfl, rfl, rfl⟩), rfl⟩
          · exact ⟨Same.refl s, rfl⟩
        have hl2 : 0 < s2.limit := by rw [hsame2.2]; exact hl
        -- the loop over the kids
        have hloop : ∀ (l : List Nat) (op' : Bool) (acc : Env × P7540 × Option Frame),
            WalkRes e s2 acc.1 acc.2.1 acc.2.2 → (acc.2.2 = none → acc.1 = e) →
            WalkRes e s2
              (l.foldl (fun (acc : Env × P7540 × Option Frame) k =>
                match acc with
                | (_, _, some _) => acc
                | (e', s', none) => walk fu e' s' k op') acc).1
              (l.foldl (fun (acc : Env × P7540 × Option Frame) k =>
                match acc with
                | (_, _, some _) => acc
                | (e', s', none) => walk fu e' s' k op') acc).2.1
              (l.foldl (fun (acc : Env × P7540 × Option Frame) k =>
                match acc with
                | (_, _, some _) => acc
                | (e', s', none) => walk fu e' s' k op') acc).2.2 := by
          intro l op'
          induction l with
          | nil => intro acc h _; simpa using h
          | cons x xs ihl =>
            intro acc h he
            simp only [List.foldl_cons]
            obtain ⟨ea, sa, ra⟩ := acc
            cases ra with
            | some f => exact ihl _ h (by intro hh; cases hh)
            | none =>
              simp only
              have hea : ea = e := he rfl
              subst hea
              cases h with
              | none hsm hlm =>
                have hla : 0 < sa.limit := by rw [hlm]; exact hl2
                have hw := ih ea sa x op' hla
                have hw' := walkRes_of_same hsm hlm hw
                apply ihl _ hw'
                intro hnone
                exact walkRes_none_env hw hnone
        have := hloop (s2.node n).kids
          (if (s.node n).id != 0 then op || (s.node n).state == 0 else op) (e, s2, none)
          (WalkRes.none (Same.refl s2) rfl) (fun _ => rfl)
        exact walkRes_of_same hsame2.1 hsame2.2 this

/-! ### Abstraction and invariant -/

def absP7 (s : P7540) : Abs :=
  ⟨(s.node 0).q.toList, fun id => if id = 0 then [] else
      match s.lookup id with
      | some n => (s.node n).q.toList
      | none => []⟩

/-- Map/queue part of the invariant (`opn`: open streams, `ever`: ids ever opened). -/
structure CoreInv (s : P7540) (opn ever : Nat → Bool) : Prop where
  root : s.lookup 0 = some 0
  rootlen : 0 < s.store.length
  rootid : (s.node 0).id = 0
  rootst : (s.node 0).state = 0
  map : ∀ id n, s.lookup id = some n → n < s.store.length ∧ (s.node n).id = id
  opn : ∀ id, opn id = true ↔ (id ≠ 0 ∧ ∃ n, s.lookup id = some n ∧ (s.node n).state = 0)
  emp : ∀ n, n ≠ 0 → (s.node n).q.toList ≠ [] → ∃ id, s.lookup id = some n ∧ (s.node n).state = 0
  ever : ∀ id n, id ≠ 0 → s.lookup id = some n → (s.node n).state ≠ 2 → ever id = true
  lim : 0 < s.limit

/-- The closed / idle lists hold mapped nodes in the right state, without repetition. -/
structure ListInv (s : P7540) : Prop where
  closedL : ∀ x ∈ s.closedL, (s.node x).state = 1 ∧ s.lookup (s.node x).id = some x
  idleL : ∀ x ∈ s.idleL, (s.node x).state = 2 ∧ s.lookup (s.node x).id = some x
  closedNodup : s.closedL.Nodup
  idleNodup : s.idleL.Nodup

theorem CoreInv.zero_iff {s : P7540} {opn ever : Nat → Bool} (h : CoreInv s opn ever) {id n : Nat}
    (hl : s.lookup id = some n) : n = 0 ↔ id = 0 := by
  constructor
  · intro hn; subst hn; have := (h.map id 0 hl).2; rw [h.rootid] at this; exact this.symm
  · intro hi; subst hi; rw [h.root] at hl; cases hl; rfl

theorem CoreInv.inj {s : P7540} {opn ever : Nat → Bool} (h : CoreInv s opn ever) {a b n : Nat}
    (ha : s.lookup a = some n) (hb : s.lookup b = some n) : a = b := by
  rw [← (h.map a n ha).2, ← (h.map b n hb).2]

theorem lookup_of_nodes {s s' : P7540} (h : s'.nodes = s.nodes) (id : Nat) : s'.lookup id = s.lookup id := by
  simp [lookup, h]

theorem abs_same {s s' : P7540} (h : Same s s') : absP7 s' = absP7 s := by
  refine Abs.ext' ?_ ?_
  · simp [absP7, (h.nd 0).1]
  · intro id
    simp only [absP7, lookup_of_nodes h.nodes]
    split
    · rfl
    · split
      · rename_i n _; rw [(h.nd n).1]
      · rfl

theorem core_same {s s' : P7540} {opn ever : Nat → Bool} (hi : CoreInv s opn ever) (h : Same s s')
    (hl : 0 < s'.limit) : CoreInv s' opn ever := by
  have hlk := lookup_of_nodes h.nodes
  refine ⟨by rw [hlk]; exact hi.root, by rw [h.len]; exact hi.rootlen, by rw [(h.nd 0).2.2]; exact hi.rootid,
    by rw [(h.nd 0).2.1]; exact hi.rootst, ?_, ?_, ?_, ?_, hl⟩
  · intro id n hn; rw [hlk] at hn; rw [h.len, (h.nd n).2.2]; exact hi.map id n hn
  · intro id; rw [hi.opn id]
    constructor
    · rintro ⟨h0, n, h1, h2⟩; exact ⟨h0, n, by rw [hlk]; exact h1, by rw [(h.nd n).2.1]; exact h2⟩
    · rintro ⟨h0, n, h1, h2⟩; exact ⟨h0, n, by rw [hlk] at h1; exact h1, by rw [(h.nd n).2.1] at h2; exact h2⟩
  · intro n hn hq; rw [(h.nd n).1] at hq
    obtain ⟨id, h1, h2⟩ := hi.emp n hn hq
    exact ⟨id, by rw [hlk]; exact h1, by rw [(h.nd n).2.1]; exact h2⟩
  · intro id n h0 h1 h2; rw [hlk] at h1; rw [(h.nd n).2.1] at h2; exact hi.ever id n h0 h1 h2

theorem list_same {s s' : P7540} (hi : ListInv s) (h : Same s s') : ListInv s' := by
  have hlk := lookup_of_nodes h.nodes
  refine ⟨?_, ?_, by rw [h.closedL]; exact hi.closedNodup, by rw [h.idleL]; exact hi.idleNodup⟩
  · intro x hx; rw [h.closedL] at hx
    rw [(h.nd x).2.1, (h.nd x).2.2, hlk]; exact hi.closedL x hx
  · intro x hx; rw [h.idleL] at hx
    rw [(h.nd x).2.1, (h.nd x).2.2, hlk]; exact hi.idleL x hx

/-- After replacing the queue of the root. -/
theorem abs_sameQ_root {s s' : P7540} {opn ever : Nat → Bool} {q' : WQ} (hi : CoreInv s opn ever)
    (h : SameQ s s' 0 q') : absP7 s' = ⟨q'.toList, (absP7 s).q⟩ := by
  refine Abs.ext' ?_ ?_
  · simp [absP7, h.self.1]
  · intro id
    simp only [absP7, lookup_of_nodes h.nodes]
    split
    · rfl
    · rename_i hid
      cases hl : s.lookup id with
      | none => rfl
      | some n =>
        simp only
        have hn : n ≠ 0 := fun hh => hid ((hi.zero_iff hl).1 hh)
        rw [(h.nd n hn).1]

/-- After replacing the queue of the node of stream `id`. -/
theorem abs_sameQ_node {s s' : P7540} {opn ever : Nat → Bool} {q' : WQ} {id nid : Nat} (hi : CoreInv s opn ever)
    (hl : s.lookup id = some nid) (hid : id ≠ 0) (h : SameQ s s' nid q') :
    absP7 s' = ⟨(absP7 s).ctl, upd (absP7 s).q id q'.toList⟩ := by
  have hn0 : nid ≠ 0 := fun hh => hid ((hi.zero_iff hl).1 hh)
  refine Abs.ext' ?_ ?_
  · simp [absP7, (h.nd 0 (Ne.symm hn0)).1]
  · intro x
    simp only [absP7, lookup_of_nodes h.nodes, upd]
    by_cases hx : x = id
    · subst hx; simp [hid, hl, h.self.1]
    · simp only [hx, if_false]
      split
      · rfl
      · cases hlx : s.lookup x with
        | none => rfl
        | some n =>
          simp only
          have : n ≠ nid := fun hh => hx (hi.inj (hh ▸ hlx) hl)
          rw [(h.nd n this).1]

theorem core_sameQ {s s' : P7540} {opn ever : Nat → Bool} {q' : WQ} {nid : Nat} (hi : CoreInv s opn ever)
    (h : SameQ s s' nid q') (hl : 0 < s'.limit)
    (hq : q'.toList ≠ [] → nid ≠ 0 → ∃ id, s.lookup id = some nid ∧ (s.node nid).state = 0) :
    CoreInv s' opn ever := by
  have hlk := lookup_of_nodes h.nodes
  have hst : ∀ n, (s'.node n).state = (s.node n).state := by
    intro n; by_cases hn : n = nid
    · subst hn; exact h.self.2.1
    · exact (h.nd n hn).2.1
  have hidf : ∀ n, (s'.node n).id = (s.node n).id := by
    intro n; by_cases hn : n = nid
    · subst hn; exact h.self.2.2
    · exact (h.nd n hn).2.2
  refine ⟨by rw [hlk]; exact hi.root, by rw [h.len]; exact hi.rootlen, by rw [hidf]; exact hi.rootid,
    by rw [hst]; exact hi.rootst, ?_, ?_, ?_, ?_, hl⟩
  · intro id n hn; rw [hlk] at hn; rw [h.len, hidf]; exact hi.map id n hn
  · intro id; rw [hi.opn id]
    constructor
    · rintro ⟨h0, n, h1, h2⟩; exact ⟨h0, n, by rw [hlk]; exact h1, by rw [hst]; exact h2⟩
    · rintro ⟨h0, n, h1, h2⟩; exact ⟨h0, n, by rw [hlk] at h1; exact h1, by rw [hst] at h2; exact h2⟩
  · intro n hn hqn
    by_cases hnn : n = nid
    · subst hnn
      rw [h.self.1] at hqn
      obtain ⟨id, h1, h2⟩ := hq hqn hn
      exact ⟨id, by rw [hlk]; exact h1, by rw [hst]; exact h2⟩
    · rw [(h.nd n hnn).1] at hqn
      obtain ⟨id, h1, h2⟩ := hi.emp n hn hqn
      exact ⟨id, by rw [hlk]; exact h1, by rw [hst]; exact h2⟩
  · intro id n h0 h1 h2; rw [hlk] at h1; rw [hst] at h2; exact hi.ever id n h0 h1 h2

theorem list_sameQ {s s' : P7540} {q' : WQ} {nid : Nat} (hi : ListInv s) (h : SameQ s s' nid q') : ListInv s' := by
  have hlk := lookup_of_nodes h.nodes
  have hst : ∀ n, (s'.node n).state = (s.node n).state := by
    intro n; by_cases hn : n = nid
    · subst hn; exact h.self.2.1
    · exact (h.nd n hn).2.1
  have hidf : ∀ n, (s'.node n).id = (s.node n).id := by
    intro n; by_cases hn : n = nid
    · subst hn; exact h.self.2.2
    · exact (h.nd n hn).2.2
  refine ⟨?_, ?_, by rw [h.closedL]; exact hi.closedNodup, by rw [h.idleL]; exact hi.idleNodup⟩
  · intro x hx; rw [h.closedL] at hx; rw [hst, hidf, hlk]; exact hi.closedL x hx
  · intro x hx; rw [h.idleL] at hx; rw [hst, hidf, hlk]; exact hi.idleL x hx

/-- `modNode` with a function that only changes the queue. -/
theorem sameQ_modNode (s : P7540) {n : Nat} (hn : n < s.store.length) (f : Node → Node)
    (hf : ∀ m, (f m).state = m.state ∧ (f m).id = m.id) : SameQ s (s.modNode n f) n (f (s.node n)).q :=
  ⟨length_modNode _ _ _, by rw [node_modNode_self s _ hn]; exact ⟨rfl, (hf _).1, (hf _).2⟩,
   fun i hi => by rw [node_modNode_ne s _ hi]; exact ⟨rfl, rfl, rfl⟩, rfl, rfl, rfl, rfl, rfl⟩

/-! ### Push -/

theorem p7_push {s : P7540} {opn ever : Nat → Bool} {f : Frame} (hc : CoreInv s opn ever) (hli : ListInv s)
    (hok : pushOK opn f) :
    ∃ s', s.push f = (s', .ok) ∧ absP7 s' = (absP7 s).applyOp (.push f) ∧ CoreInv s' opn ever ∧ ListInv s' := by
  by_cases hctl : f.isControl = true
  · have hsq := sameQ_modNode s hc.rootlen (fun nn => { nn with q := nn.q.push f }) (fun _ => ⟨rfl, rfl⟩)
    refine ⟨s.modNode 0 fun nn => { nn with q := nn.q.push f }, by simp [P7540.push, hctl], ?_, ?_, list_sameQ hli hsq⟩
    · rw [abs_sameQ_root hc hsq]
      simp [Abs.applyOp, hctl, push_toList, absP7]
    · exact core_sameQ hc hsq hc.lim (fun _ h0 => absurd rfl h0)
  · have hctl' : f.isControl = false := by simpa using hctl
    have hopen := pushOK_stream hok hctl'
    obtain ⟨hid, n, hl, hst⟩ := (hc.opn _).1 hopen
    have hn := (hc.map _ n hl).1
    have hsq := sameQ_modNode s hn (fun nn => { nn with q := nn.q.push f }) (fun _ => ⟨rfl, rfl⟩)
    refine ⟨s.modNode n fun nn => { nn with q := nn.q.push f }, by simp [P7540.push, hctl', hl], ?_, ?_, list_sameQ hli hsq⟩
    · rw [abs_sameQ_node hc hl hid hsq]
      simp only [Abs.applyOp, hctl', Bool.false_eq_true, if_false, push_toList]
      refine Abs.ext' rfl ?_
      intro x
      simp only [upd]
      split
      · simp [absP7, hid, hl]
      · rfl
    · exact core_sameQ hc hsq hc.lim (fun _ _ => ⟨_, hl, hst⟩)

/-! ### Pop -/

theorem same_afterVisit (t : P7540) (op : Bool) (ht : 0 < t.limit) :
    Same t (t.afterVisit op) ∧ 0 < (t.afterVisit op).limit := by
  unfold afterVisit
  split
  · refine ⟨same_limit _ _, ?_⟩
    simp only; split
    · decide
    · omega
  · split
    · exact ⟨same_limit _ _, by simp⟩
    · exact ⟨Same.refl t, ht⟩

theorem addBytes_limit (s : P7540) (n : Nat) (b : Int) : (s.addBytes n b).limit = s.limit := by
  have hup : ∀ (fuel : Nat) (t : P7540) (x : Option Nat), (addBytes.up b fuel t x).limit = t.limit := by
    intro fuel
    induction fuel with
    | zero => intro t x; unfold addBytes.up; rfl
    | succ k ih =>
      intro t x
      cases x with
      | none => unfold addBytes.up; rfl
      | some x => unfold addBytes.up; rw [ih]; rfl
  unfold addBytes
  simp only [hup]; rfl

/-- A successful visit of node `n` consumed from `n`'s queue and changed nothing else C12 can see. -/
theorem visit_some {e e' : Env} {s : P7540} {n : Nat} {op : Bool} {f : Frame} {q' : WQ} (hl : 0 < s.limit)
    (hn : n < s.store.length) (hcons : (s.node n).q.consume e (s.visitLimit op) = (e', q', some f)) :
    ∃ s', visit e s n op = (e', s', some f) ∧ SameQ s s' n q' ∧ 0 < s'.limit := by
  have hsq := sameQ_modNode s hn (fun nn => { nn with q := q' }) (fun _ => ⟨rfl, rfl⟩)
  have hsq2 := hsq.of_same_right (same_addBytes _ n f.dataSize)
  have hlim : ((s.modNode n fun nn => { nn with q := q' }).addBytes n f.dataSize).limit = s.limit := by
    rw [addBytes_limit]; rfl
  obtain ⟨h1, h2⟩ := same_afterVisit ((s.modNode n fun nn => { nn with q := q' }).addBytes n f.dataSize) op
    (by rw [hlim]; exact hl)
  exact ⟨_, by simp [visit, hcons], hsq2.of_same_right h1, h2⟩

theorem ctl_consume {f : Frame} (hf : f.isControl = true) (e : Env) (n : Int) : f.consume e n = (e, .whole f) := by
  rcases consume_cases e n f with ⟨h1, _⟩ | ⟨sid, tag, off, len, fin, last, rfl, _, _⟩
  · exact h1
  · simp [Frame.isControl] at hf

theorem visitLimit_pos (s : P7540) (op : Bool) (hl : 0 < s.limit) : 0 < s.visitLimit op := by
  unfold visitLimit; split
  · exact hl
  · decide

theorem p7_pop {s : P7540} {opn ever : Nat → Bool} (e : Env) (hc : CoreInv s opn ever) (hli : ListInv s)
    (hwf : AbsWF (absP7 s) opn) :
    ∃ e' s' r, s.pop e = (e', s', r) ∧ PopSpec False e (absP7 s) r e' (absP7 s') ∧ CoreInv s' opn ever ∧ ListInv s' := by
  cases hroot : (s.node 0).q.toList with
  | cons f rest =>
    -- control frames first
    have hf := hwf.ctl f (by simp [absP7, hroot])
    rcases wq_consume_cons e (s.visitLimit false) hroot with ⟨e1, h1, _⟩ | ⟨e1, q1, h1, h2, h3⟩ | ⟨e1, c, r, h1, _, _⟩
    · rw [ctl_consume hf.1] at h1; cases h1
    · rw [ctl_consume hf.1] at h1; cases h1
      obtain ⟨s', hv, hsq, hl'⟩ := visit_some (op := false) hc.lim hc.rootlen h2
      have hne : (s.node 0).q.isEmpty = false := by
        cases hh : (s.node 0).q.isEmpty with
        | false => rfl
        | true => rw [(isEmpty_iff _).1 hh] at hroot; cases hroot
      refine ⟨e, s', .frame f, ?_, ?_, core_sameQ hc hsq hl' (fun _ h0 => absurd rfl h0), list_sameQ hli hsq⟩
      · unfold P7540.pop walk
        simp [hne, hv]
      · rw [abs_sameQ_root hc hsq, h3]
        exact PopSpec.ctl (a := absP7 s) (by simp [absP7, hroot])
    · rw [ctl_consume hf.1] at h1; cases h1
  | nil =>
    have hctl : (absP7 s).ctl = [] := by simp [absP7, hroot]
    have hw := walk_spec (s.store.length + 1) e s 0 false hc.lim
    rcases hp : walk (s.store.length + 1) e s 0 false with ⟨e', s', r⟩
    rw [hp] at hw
    cases r with
    | none =>
      refine ⟨e', s', .none, by simp [P7540.pop, hp], ?_, ?_, ?_⟩
      · cases hw with
        | none hs hlim =>
          rw [abs_same hs]
          exact PopSpec.none hctl (fun h => h.elim)
      · cases hw with
        | none hs hlim => exact core_same hc hs (by rw [hlim]; exact hc.lim)
      · cases hw with
        | none hs hlim => exact list_same hli hs
    | some f =>
      refine ⟨e', s', .frame f, by simp [P7540.pop, hp], ?_⟩
      cases hw with
      | some hpos hn hq hcons hsq hl' =>
        rename_i nid limit q'
        have hn0 : nid ≠ 0 := by intro hh; subst hh; exact hq hroot
        obtain ⟨id, hlk, hst⟩ := hc.emp nid hn0 hq
        have hid : id ≠ 0 := fun hh => hn0 ((hc.zero_iff hlk).2 hh)
        have hcore := core_sameQ hc hsq hl' (fun _ _ => ⟨id, hlk, hst⟩)
        refine ⟨?_, hcore, list_sameQ hli hsq⟩
        rw [abs_sameQ_node hc hlk hid hsq, hctl]
        cases hql : (s.node nid).q.toList with
        | nil => exact absurd hql hq
        | cons h rest =>
          have haq : (absP7 s).q id = h :: rest := by simp [absP7, hid, hlk, hql]
          rcases wq_consume_cons e limit hql with ⟨e1, h1, h2⟩ | ⟨e1, q1, h1, h2, h3⟩ | ⟨e1, c, r, h1, h2, h3⟩
          · rw [h2] at hcons; cases hcons
          · rw [h2] at hcons; cases hcons
            rw [h3]
            exact PopSpec.whole hctl haq hpos h1
          · rw [h2] at hcons; cases hcons
            rw [h3]
            exact PopSpec.split hctl haq hpos h1

/-! ### Limits are untouched by tree surgery -/

theorem limit_modNode (s : P7540) (a : Nat) (f : Node → Node) : (s.modNode a f).limit = s.limit := rfl

theorem limit_setParent {s s' : P7540} {n : Nat} {p : Option Nat} (h : s.setParent n p = some s') : s'.limit = s.limit := by
  unfold setParent at h
  split at h
  · cases h
  · split at h
    · cases h; rfl
    · have k1 : ∀ (t : P7540), (match (s.node n).parent with
          | some p => t.modNode p fun pn => { pn with kids := pn.kids.erase n }
          | none => t).limit = t.limit := by
        intro t; split <;> rfl
      cases p with
      | none => simp only at h; cases h; rw [limit_modNode]; exact k1 s
      | some pp => simp only at h; cases h; rw [limit_modNode, limit_modNode]; exact k1 s

theorem limit_setParent! (s : P7540) (n : Nat) (p : Option Nat) : (s.setParent! n p).limit = s.limit := by
  unfold setParent!
  cases h : s.setParent n p with
  | none => rfl
  | some s' => exact limit_setParent h

/-! ### `removeNode` -/

/-- `s'` is `s` with the map entry of node `x`'s id removed (plus invisible changes). -/
structure Removed (s s' : P7540) (x : Nat) : Prop where
  len : s'.store.length = s.store.length
  nd : ∀ i, Fields (s.node i) (s'.node i)
  nodes : s'.nodes = s.nodes.filter fun p => p.1 != (s.node x).id
  closedL : s'.closedL = s.closedL
  idleL : s'.idleL = s.idleL
  maxClosed : s'.maxClosed = s.maxClosed
  maxIdle : s'.maxIdle = s.maxIdle
  limit : s'.limit = s.limit

theorem removeNode_kidsLoop (x : Nat) (fuel : Nat) : ∀ s : P7540,
    Same s (removeNode.kidsLoop x fuel s) ∧ (removeNode.kidsLoop x fuel s).limit = s.limit := by
  induction fuel with
  | zero => intro s; unfold removeNode.kidsLoop; exact ⟨Same.refl s, rfl⟩
  | succ k ih =>
    intro s
    unfold removeNode.kidsLoop
    split
    · exact ⟨Same.refl s, rfl⟩
    · obtain ⟨h1, h2⟩ := ih (s.setParent! _ (s.node x).parent)
      exact ⟨(same_setParent! _ _ _).trans h1, by rw [h2, limit_setParent!]⟩

theorem removeNode_spec (s : P7540) (x : Nat) : Removed s (s.removeNode x) x := by
  unfold removeNode
  obtain ⟨h1, h2⟩ := removeNode_kidsLoop x (s.store.length + 1) s
  have h3 := same_setParent! (removeNode.kidsLoop x (s.store.length + 1) s) x none
  have h4 := h1.trans h3
  refine ⟨h4.len, h4.nd, ?_, h4.closedL, h4.idleL, h4.maxClosed, h4.maxIdle, ?_⟩
  · simp only [h4.nodes, (h4.nd x).2.2]
  · simp only [limit_setParent!, h2]

theorem lookup_filter (l : List (Nat × Nat)) (k a : Nat) :
    (l.filter fun p => p.1 != k).lookup a = if a = k then none else l.lookup a := by
  induction l with
  | nil => simp
  | cons p l ih =>
    obtain ⟨pk, pv⟩ := p
    by_cases hk : pk = k
    · subst hk
      simp only [List.filter, bne_self_eq_false, ih]
      by_cases ha : a = pk
      · simp [ha]
      · have : (a == pk) = false := by simpa using ha
        simp [List.lookup, this, ha]
    · have hk' : (pk != k) = true := by simpa using hk
      simp only [List.filter, hk', List.lookup]
      by_cases ha : a = pk
      · subst ha; simp [hk]
      · have : (a == pk) = false := by simpa using ha
        simp only [this, ih]

theorem removed_lookup {s s' : P7540} {x : Nat} (h : Removed s s' x) (a : Nat) :
    s'.lookup a = if a = (s.node x).id then none else s.lookup a := by
  simp only [lookup, h.nodes, lookup_filter]

/-- Removing a mapped node that is not open (closed or idle, hence with an empty queue). -/
theorem core_removed {s s' : P7540} {opn ever : Nat → Bool} {x : Nat} (hc : CoreInv s opn ever) (h : Removed s s' x)
    (hx0 : x ≠ 0) (hst : (s.node x).state ≠ 0) (hlk : s.lookup (s.node x).id = some x) :
    CoreInv s' opn ever ∧ absP7 s' = absP7 s := by
  have hidx : (s.node x).id ≠ 0 := fun hh => hx0 ((hc.zero_iff hlk).2 hh)
  have hl := removed_lookup h
  have hne : ∀ {a n}, s.lookup a = some n → (s.node n).state = 0 → a ≠ (s.node x).id := by
    intro a n ha hs hh; subst hh; rw [hlk] at ha; cases ha; exact hst hs
  constructor
  · refine ⟨?_, by rw [h.len]; exact hc.rootlen, by rw [(h.nd 0).2.2]; exact hc.rootid,
      by rw [(h.nd 0).2.1]; exact hc.rootst, ?_, ?_, ?_, ?_, by rw [h.limit]; exact hc.lim⟩
    · rw [hl]; simp [Ne.symm hidx, hc.root]
    · intro id n hn
      rw [hl] at hn
      split at hn
      · cases hn
      · rw [h.len, (h.nd n).2.2]; exact hc.map id n hn
    · intro id; rw [hc.opn id]
      constructor
      · rintro ⟨h0, n, h1, h2⟩
        refine ⟨h0, n, ?_, by rw [(h.nd n).2.1]; exact h2⟩
        rw [hl]; simp [hne h1 h2, h1]
      · rintro ⟨h0, n, h1, h2⟩
        rw [hl] at h1
        split at h1
        · cases h1
        · exact ⟨h0, n, h1, by rw [(h.nd n).2.1] at h2; exact h2⟩
    · intro n hn hq
      rw [(h.nd n).1] at hq
      obtain ⟨id, h1, h2⟩ := hc.emp n hn hq
      refine ⟨id, ?_, by rw [(h.nd n).2.1]; exact h2⟩
      rw [hl]; simp [hne h1 h2, h1]
    · intro id n h0 h1 h2
      rw [hl] at h1
      split at h1
      · cases h1
      · rw [(h.nd n).2.1] at h2; exact hc.ever id n h0 h1 h2
  · refine Abs.ext' ?_ ?_
    · simp [absP7, (h.nd 0).1]
    · intro id
      simp only [absP7, hl]
      by_cases hid0 : id = 0
      · simp [hid0]
      · simp only [hid0, if_false]
        by_cases hie : id = (s.node x).id
        · simp only [hie, if_true, hlk]
          cases hq : (s.node x).q.toList with
          | nil => rfl
          | cons f r =>
            obtain ⟨_, _, h2⟩ := hc.emp x hx0 (by rw [hq]; simp)
            exact absurd h2 hst
        · simp only [hie, if_false]
          cases hls : s.lookup id with
          | none => rfl
          | some n => simp only; rw [(h.nd n).1]

/-- List members other than the removed node stay mapped. -/
theorem list_removed {s s' : P7540} {opn ever : Nat → Bool} {x : Nat} (hc : CoreInv s opn ever) (h : Removed s s' x)
    (hlk : s.lookup (s.node x).id = some x) (st : Nat) (l : List Nat) (hx : x ∉ l)
    (hl : ∀ y ∈ l, (s.node y).state = st ∧ s.lookup (s.node y).id = some y) :
    ∀ y ∈ l, (s'.node y).state = st ∧ s'.lookup (s'.node y).id = some y := by
  intro y hy
  obtain ⟨h1, h2⟩ := hl y hy
  refine ⟨by rw [(h.nd y).2.1]; exact h1, ?_⟩
  rw [(h.nd y).2.2, removed_lookup h]
  have : (s.node y).id ≠ (s.node x).id := by
    intro hh; rw [hh, hlk] at h2; cases h2; exact hx hy
  simp [this, h2]

end NetVerif.Proofs.WriteSched7540
