import NetVerif.Proofs.Lemmas.WriteSchedRefine
import NetVerif.Model.WriteSched7540
/-!
Refinement of the (repaired) RFC 7540 priority scheduler model to the C12 FIFO specification.

The priority tree (parent/kids links, weights, byte counts, sibling sorting) decides only WHICH ready
node `Pop` serves.  What C12 needs is independent of the tree shape:
* tree surgery (`setParent`, `addBytes`, sorting, re-linking in `AdjustStream`) never touches a node's
  queue, state or id, nor the id ↦ node map (`Same`);
* only nodes that are mapped and open (or the root) ever have a non-empty queue (`P7Inv.emp`), so whatever
  node the walk serves, it is the queue of an open stream;
* nodes leave the map only by `removeNode`, which is applied to closed or idle nodes (empty queues).
The clause "`Pop` returns nothing only if nothing is sendable" needs reachability of every node from the
root and is NOT proved here (`StepSpec False`).
-/
namespace NetVerif.Proofs.WriteSched7540
open NetVerif.Model.WriteSched NetVerif.Model.WriteSched.P7540 NetVerif.Proofs.WriteSchedLemmas
  NetVerif.Proofs.WriteSchedSpec NetVerif.Proofs.WriteSchedRefine

/-! ### Store access -/

theorem length_modNode (s : P7540) (a : Nat) (f : Node → Node) : (s.modNode a f).store.length = s.store.length := by
  simp [modNode, setNode]

theorem node_modNode_ne (s : P7540) {a b : Nat} (f : Node → Node) (h : b ≠ a) : (s.modNode a f).node b = s.node b := by
  simp only [modNode, setNode, node, List.getD_eq_getElem?_getD]
  rw [List.getElem?_set]
  have : ¬ a = b := fun hh => h hh.symm
  simp [this]

theorem node_modNode_self (s : P7540) {a : Nat} (f : Node → Node) (h : a < s.store.length) :
    (s.modNode a f).node a = f (s.node a) := by
  simp only [modNode, setNode, node, List.getD_eq_getElem?_getD]
  rw [List.getElem?_set]
  simp [h]

theorem node_of_ge (s : P7540) {a : Nat} (h : s.store.length ≤ a) : s.node a = {} := by
  simp only [node, List.getD_eq_getElem?_getD]
  rw [List.getElem?_eq_none h]; rfl

/-- `f` leaves queue, state and id alone. -/
def Keeps (f : Node → Node) : Prop := ∀ n, (f n).q = n.q ∧ (f n).state = n.state ∧ (f n).id = n.id

def Fields (n m : Node) : Prop := m.q = n.q ∧ m.state = n.state ∧ m.id = n.id

theorem fields_modNode (s : P7540) (a : Nat) {f : Node → Node} (hf : Keeps f) (i : Nat) :
    Fields (s.node i) ((s.modNode a f).node i) := by
  by_cases hi : i = a
  · subst hi
    by_cases hl : i < s.store.length
    · rw [node_modNode_self s f hl]; exact hf _
    · have h1 : s.node i = {} := node_of_ge s (by omega)
      have h2 : (s.modNode i f).node i = {} := node_of_ge _ (by rw [length_modNode]; omega)
      rw [h1, h2]; exact ⟨rfl, rfl, rfl⟩
  · rw [node_modNode_ne s f hi]; exact ⟨rfl, rfl, rfl⟩

/-- `s'` differs from `s` only in tree links, weights, byte counters, the throttle limit. -/
structure Same (s s' : P7540) : Prop where
  len : s'.store.length = s.store.length
  nd : ∀ i, Fields (s.node i) (s'.node i)
  nodes : s'.nodes = s.nodes
  closedL : s'.closedL = s.closedL
  idleL : s'.idleL = s.idleL
  maxClosed : s'.maxClosed = s.maxClosed
  maxIdle : s'.maxIdle = s.maxIdle

theorem Same.refl (s : P7540) : Same s s := ⟨rfl, fun _ => ⟨rfl, rfl, rfl⟩, rfl, rfl, rfl, rfl, rfl⟩

theorem Same.trans {a b c : P7540} (h1 : Same a b) (h2 : Same b c) : Same a c :=
  ⟨h2.len.trans h1.len,
   fun i => ⟨(h2.nd i).1.trans (h1.nd i).1, (h2.nd i).2.1.trans (h1.nd i).2.1, (h2.nd i).2.2.trans (h1.nd i).2.2⟩,
   h2.nodes.trans h1.nodes, h2.closedL.trans h1.closedL, h2.idleL.trans h1.idleL,
   h2.maxClosed.trans h1.maxClosed, h2.maxIdle.trans h1.maxIdle⟩

theorem same_modNode (s : P7540) (a : Nat) {f : Node → Node} (hf : Keeps f) : Same s (s.modNode a f) :=
  ⟨length_modNode s a f, fields_modNode s a hf, rfl, rfl, rfl, rfl, rfl⟩

theorem same_setParent {s s' : P7540} {n : Nat} {p : Option Nat} (h : s.setParent n p = some s') : Same s s' := by
  unfold setParent at h
  split at h
  · cases h
  · split at h
    · cases h; exact Same.refl s
    · have k1 : ∀ (t : P7540), Same t (match (s.node n).parent with
          | some p => t.modNode p fun pn => { pn with kids := pn.kids.erase n }
          | none => t) := by
        intro t; split
        · exact same_modNode t _ (fun _ => ⟨rfl, rfl, rfl⟩)
        · exact Same.refl t
      have k2 := k1 s
      have k3 : ∀ t : P7540, Same t (t.modNode n fun nn => { nn with parent := p }) :=
        fun t => same_modNode t _ (fun _ => ⟨rfl, rfl, rfl⟩)
      cases p with
      | none => simp only at h; cases h; exact k2.trans (k3 _)
      | some pp =>
        simp only at h; cases h
        exact (k2.trans (k3 _)).trans (same_modNode _ _ (fun _ => ⟨rfl, rfl, rfl⟩))

theorem same_setParent! (s : P7540) (n : Nat) (p : Option Nat) : Same s (s.setParent! n p) := by
  unfold setParent!
  cases h : s.setParent n p with
  | none => exact Same.refl s
  | some s' => exact same_setParent h

theorem same_addBytes_up (b : Int) (fuel : Nat) : ∀ (s : P7540) (x : Option Nat), Same s (addBytes.up b fuel s x) := by
  induction fuel with
  | zero => intro s x; unfold addBytes.up; exact Same.refl s
  | succ k ih =>
    intro s x
    cases x with
    | none => unfold addBytes.up; exact Same.refl s
    | some x =>
      unfold addBytes.up
      exact (same_modNode s x (fun _ => ⟨rfl, rfl, rfl⟩)).trans (ih _ _)

theorem same_addBytes (s : P7540) (n : Nat) (b : Int) : Same s (s.addBytes n b) := by
  unfold addBytes
  exact (same_modNode s n (fun _ => ⟨rfl, rfl, rfl⟩)).trans (same_addBytes_up b _ _ _)

theorem same_limit (s : P7540) (l : Int) : Same s { s with limit := l } :=
  ⟨rfl, fun _ => ⟨rfl, rfl, rfl⟩, rfl, rfl, rfl, rfl, rfl⟩

/-! ### `Pop`: the walk serves at most one node and otherwise changes nothing C12 can see -/

/-- `s'` is `s` with the queue of node `nid` replaced by `q'` (plus invisible changes). -/
structure SameQ (s s' : P7540) (nid : Nat) (q' : WQ) : Prop where
  len : s'.store.length = s.store.length
  self : (s'.node nid).q = q' ∧ (s'.node nid).state = (s.node nid).state ∧ (s'.node nid).id = (s.node nid).id
  nd : ∀ i, i ≠ nid → Fields (s.node i) (s'.node i)
  nodes : s'.nodes = s.nodes
  closedL : s'.closedL = s.closedL
  idleL : s'.idleL = s.idleL
  maxClosed : s'.maxClosed = s.maxClosed
  maxIdle : s'.maxIdle = s.maxIdle

theorem SameQ.of_same_left {a b c : P7540} {nid : Nat} {q' : WQ} (h1 : Same a b) (h2 : SameQ b c nid q') :
    SameQ a c nid q' :=
  ⟨h2.len.trans h1.len,
   ⟨h2.self.1, h2.self.2.1.trans (h1.nd nid).2.1, h2.self.2.2.trans (h1.nd nid).2.2⟩,
   fun i hi => ⟨(h2.nd i hi).1.trans (h1.nd i).1, (h2.nd i hi).2.1.trans (h1.nd i).2.1, (h2.nd i hi).2.2.trans (h1.nd i).2.2⟩,
   h2.nodes.trans h1.nodes, h2.closedL.trans h1.closedL, h2.idleL.trans h1.idleL,
   h2.maxClosed.trans h1.maxClosed, h2.maxIdle.trans h1.maxIdle⟩

theorem SameQ.of_same_right {a b c : P7540} {nid : Nat} {q' : WQ} (h1 : SameQ a b nid q') (h2 : Same b c) :
    SameQ a c nid q' :=
  ⟨h2.len.trans h1.len,
   ⟨(h2.nd nid).1.trans h1.self.1, (h2.nd nid).2.1.trans h1.self.2.1, (h2.nd nid).2.2.trans h1.self.2.2⟩,
   fun i hi => ⟨(h2.nd i).1.trans (h1.nd i hi).1, (h2.nd i).2.1.trans (h1.nd i hi).2.1, (h2.nd i).2.2.trans (h1.nd i hi).2.2⟩,
   h2.nodes.trans h1.nodes, h2.closedL.trans h1.closedL, h2.idleL.trans h1.idleL,
   h2.maxClosed.trans h1.maxClosed, h2.maxIdle.trans h1.maxIdle⟩

/-- What a walk can do, relative to the state `s` it started from. -/
inductive WalkRes (e : Env) (s : P7540) : Env → P7540 → Option Frame → Prop
  | none {s'} : Same s s' → s'.limit = s.limit → WalkRes e s e s' none
  | some {e' s' nid limit q' f} : 0 < limit → nid < s.store.length → (s.node nid).q.toList ≠ [] →
      (s.node nid).q.consume e limit = (e', q', some f) → SameQ s s' nid q' → 0 < s'.limit →
      WalkRes e s e' s' (some f)

theorem isEmpty_false_toList {q : WQ} (h : q.isEmpty = false) : q.toList ≠ [] := by
  intro hh; rw [(isEmpty_iff q).2 hh] at h; cases h

theorem visit_spec (e : Env) (s : P7540) (n : Nat) (op : Bool) (hl : 0 < s.limit) (hn : n < s.store.length)
    (hq : (s.node n).q.toList ≠ []) :
    WalkRes e s (visit e s n op).1 (visit e s n op).2.1 (visit e s n op).2.2 := by
  unfold visit
  rcases hc : (s.node n).q.consume e (if op = true then s.limit else maxInt32) with ⟨e', q', o⟩
  cases o with
  | none => simp only; exact WalkRes.none (Same.refl s) rfl
  | some f =>
    simp only
    have hpos : (0 : Int) < (if op = true then s.limit else maxInt32) := by
      split
      · exact hl
      · decide
    have hsq : SameQ s (s.modNode n fun nn => { nn with q := q' }) n q' :=
      ⟨length_modNode _ _ _, by rw [node_modNode_self s _ hn]; exact ⟨rfl, rfl, rfl⟩,
       fun i hi => by rw [node_modNode_ne s _ hi]; exact ⟨rfl, rfl, rfl⟩, rfl, rfl, rfl, rfl, rfl⟩
    have hsq2 := hsq.of_same_right (same_addBytes _ n f.dataSize)
    have hlim0 : ((s.modNode n fun nn => { nn with q := q' }).addBytes n f.dataSize).limit = s.limit := by
      unfold addBytes
      have : ∀ (b : Int) (fuel : Nat) (t : P7540) (x : Option Nat), (addBytes.up b fuel t x).limit = t.limit := by
        intro b fuel
        induction fuel with
        | zero => intro t x; unfold addBytes.up; rfl
        | succ k ih =>
          intro t x
          cases x with
          | none => unfold addBytes.up; rfl
          | some x => unfold addBytes.up; rw [ih]; rfl
      rw [this]; rfl
    refine WalkRes.some hpos hn hq hc ?_ ?_
    · split
      · exact hsq2.of_same_right (same_limit _ _)
      · split
        · exact hsq2.of_same_right (same_limit _ _)
        · exact hsq2
    · split
      · simp only; split <;> simp only [hlim0] <;> first | decide | omega
      · split
        · simp only; decide
        · rw [hlim0]; exact hl

theorem walkRes_of_same {e : Env} {s s1 : P7540} (h : Same s s1) (hlim : s1.limit = s.limit) {e' : Env} {s' : P7540}
    {r : Option Frame} (hw : WalkRes e s1 e' s' r) : WalkRes e s e' s' r := by
  cases hw with
  | none h2 h3 => exact WalkRes.none (h.trans h2) (h3.trans hlim)
  | some hpos hn hq hc hsq hl' =>
    rename_i nid limit q' f
    have hqeq : (s1.node nid).q = (s.node nid).q := (h.nd nid).1
    refine WalkRes.some hpos (by rw [← h.len]; exact hn) (by rw [← hqeq]; exact hq) (by rw [← hqeq]; exact hc)
      (hsq.of_same_left h) hl'

theorem walk_spec (fuel : Nat) : ∀ (e : Env) (s : P7540) (n : Nat) (op : Bool), 0 < s.limit →
    WalkRes e s (walk fuel e s n op).1 (walk fuel e s n op).2.1 (walk fuel e s n op).2.2 := by
  induction fuel with
  | zero => intro e s n op _; unfold walk; exact WalkRes.none (Same.refl s) rfl
  | succ k ih =>
    intro e s n op hl
    unfold walk
    -- the node itself
    have hfirst : WalkRes e s
        (if (s.node n).q.isEmpty = true then (e, s, (none : Option Frame)) else visit e s n op).1
        (if (s.node n).q.isEmpty = true then (e, s, (none : Option Frame)) else visit e s n op).2.1
        (if (s.node n).q.isEmpty = true then (e, s, (none : Option Frame)) else visit e s n op).2.2 := by
      split
      · exact WalkRes.none (Same.refl s) rfl
      · rename_i hne
        have hq := isEmpty_false_toList (by simpa using hne)
        have hn : n < s.store.length := by
          apply Classical.byContradiction; intro hge
          rw [node_of_ge s (by omega)] at hq; exact hq rfl
        exact visit_spec e s n op hl hn hq
    rcases hr : (if (s.node n).q.isEmpty = true then (e, s, (none : Option Frame)) else visit e s n op) with ⟨e1, s1, r1⟩
    rw [hr] at hfirst
    cases r1 with
    | some f => simpa using hfirst
    | none =>
      simp only
      cases hk : (s.node n).kids with
      | nil => simp only; exact WalkRes.none (Same.refl s) rfl
      | cons k0 ks =>
        simp only
        -- state after the optional sort
        generalize hs2 : (if (ks.any fun k => (s.node k).weight != (s.node k0).weight) = true then
            s.modNode n fun nn => { nn with kids := insertionSort (fun a b => less (s.node a) (s.node b)) (k0 :: ks) }
          else s) = s2
        have hsame2 : Same s s2 ∧ s2.limit = s.limit := by
          rw [← hs2]; split
          · exact ⟨same_modNode s n (fun _ => ⟨rfl, rfl, rfl⟩), rfl⟩
          · exact ⟨Same.refl s, rfl⟩
        have hl2 : 0 < s2.limit := by rw [hsame2.2]; exact hl
        -- the loop over the kids
        have hloop : ∀ (l : List Nat) (op' : Bool) (acc : Env × P7540 × Option Frame),
            WalkRes e s2 acc.1 acc.2.1 acc.2.2 → (acc.2.2 = none → acc.1 = e) →
            WalkRes e s2
              (l.foldl (fun (acc : Env × P7540 × Option Frame) k =>
                match acc with
                | (_, _, some _) => acc
                | (e', s', none) => walk k e' s' k op') acc).1
              (l.foldl (fun (acc : Env × P7540 × Option Frame) k =>
                match acc with
                | (_, _, some _) => acc
                | (e', s', none) => walk k e' s' k op') acc).2.1
              (l.foldl (fun (acc : Env × P7540 × Option Frame) k =>
                match acc with
                | (_, _, some _) => acc
                | (e', s', none) => walk k e' s' k op') acc).2.2 := by
          intro l op'
          induction l with
          | nil => intro acc h _; simpa using h
          | cons x xs ihl =>
            intro acc h he
            simp only [List.foldl_cons]
            obtain ⟨ea, sa, ra⟩ := acc
            cases ra with
            | some f => exact ihl _ h (by intro hh; cases hh)
            | none =>
              simp only
              have hea : ea = e := he rfl
              subst hea
              cases h with
              | none hsm hlm =>
                have hla : 0 < sa.limit := by rw [hlm]; exact hl2
                have hw := ih ea sa x op' hla
                have hw' := walkRes_of_same hsm hlm hw
                apply ihl _ hw'
                intro hnone
                cases hw with
                | none _ _ => rfl
                | some _ _ _ _ _ _ => rw [← hnone]; simp at hnone
        have := hloop (s2.node n).kids
          (if (s.node n).id != 0 then op || (s.node n).state == 0 else op) (e, s2, none)
          (WalkRes.none (Same.refl s2) rfl) (fun _ => rfl)
        exact walkRes_of_same hsame2.1 hsame2.2 this

end NetVerif.Proofs.WriteSched7540
