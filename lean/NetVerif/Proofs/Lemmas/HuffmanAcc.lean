import NetVerif.Proofs.Lemmas.Huffman
/-!
Arithmetic behind `AppendHuffmanString`'s 64-bit accumulator: bit lists vs. numbers, big-endian
bytes, the shift-or step modulo 2^64 and the extraction of 32 pending bits.
-/
namespace NetVerif.Proofs.Lemmas.HuffmanAcc
open NetVerif.Model.Huffman
open NetVerif.Proofs.Lemmas.Huffman

theorem bitsToNat_append (p q : List Bool) :
    bitsToNat (p ++ q) = bitsToNat p * 2 ^ q.length + bitsToNat q := by
  induction p with
  | nil => simp [bitsToNat]
  | cons b p ih =>
    simp only [List.cons_append, bitsToNat, List.length_append, ih, Nat.pow_add, Nat.add_mul]
    cases b <;> simp <;> omega

theorem bitsToNat_lt (p : List Bool) : bitsToNat p < 2 ^ p.length := by
  induction p with
  | nil => simp [bitsToNat]
  | cons b p ih =>
    simp only [bitsToNat, List.length_cons, Nat.pow_succ]
    cases b <;> simp <;> omega

theorem bitsToNat_natToBits (k v : Nat) : bitsToNat (natToBits k v) = v % 2 ^ k := by
  induction k with
  | zero => simp [natToBits, bitsToNat, Nat.mod_one]
  | succ k ih =>
    simp only [natToBits, bitsToNat, natToBits_length, ih]
    rw [Nat.mod_pow_succ]
    rcases Nat.mod_two_eq_zero_or_one (v / 2 ^ k) with h | h <;> simp [h] <;> omega

theorem bitsToNat_ones (k : Nat) : bitsToNat (List.replicate k true) = 2 ^ k - 1 := by
  induction k with
  | zero => rfl
  | succ k ih =>
    simp only [List.replicate_succ, bitsToNat, List.length_replicate, ih, ↓reduceIte, Nat.pow_succ]
    have : 0 < 2 ^ k := Nat.two_pow_pos k
    omega

theorem pow8 (k : Nat) : 2 ^ (8 * (k + 1)) = 256 * 2 ^ (8 * k) := by
  rw [Nat.mul_succ, Nat.pow_add]; omega

/-- `beBytes k` only looks at the low `8k` bits. -/
theorem beBytes_mod : ∀ (k a r : Nat), beBytes k (a * 2 ^ (8 * k) + r) = beBytes k r := by
  intro k
  induction k with
  | zero => intro a r; rfl
  | succ k ih =>
    intro a r
    simp only [beBytes]
    have hp : 0 < 2 ^ (8 * k) := Nat.two_pow_pos _
    have e : a * 2 ^ (8 * (k + 1)) + r = r + (a * 256) * 2 ^ (8 * k) := by
      rw [pow8, Nat.mul_assoc, Nat.mul_comm 256, Nat.add_comm]
    congr 1
    · rw [e, Nat.add_mul_div_right _ _ hp, Nat.add_mul_mod_self_right]
    · rw [e, Nat.add_comm]
      exact ih (a * 256) r

theorem packBits_append (d q : List Bool) (h : d.length % 8 = 0) :
    packBits (d ++ q) = packBits d ++ packBits q := by
  fun_induction packBits d with
  | case1 b0 b1 b2 b3 b4 b5 b6 b7 rest ih =>
    have : rest.length % 8 = 0 := by simp at h; omega
    simp only [List.cons_append, packBits, ih this]
  | case2 d hne =>
    match d, hne, h with
    | [], _, _ => rfl
    | [_], _, h => simp at h
    | [_, _], _, h => simp at h
    | [_, _, _], _, h => simp at h
    | [_, _, _, _], _, h => simp at h
    | [_, _, _, _, _], _, h => simp at h
    | [_, _, _, _, _, _], _, h => simp at h
    | [_, _, _, _, _, _, _], _, h => simp at h
    | b0 :: b1 :: b2 :: b3 :: b4 :: b5 :: b6 :: b7 :: rest, hne, _ => exact absurd rfl (hne _ _ _ _ _ _ _ _ _)

/-- Packing `8k` bits gives the `k` big-endian bytes of their value. -/
theorem packBits_eq_beBytes : ∀ (k : Nat) (q : List Bool), q.length = 8 * k →
    packBits q = beBytes k (bitsToNat q) := by
  intro k
  induction k with
  | zero =>
    intro q hq
    have : q = [] := List.eq_nil_of_length_eq_zero (by omega)
    subst this; rfl
  | succ k ih =>
    intro q hq
    match q, hq with
    | b0 :: b1 :: b2 :: b3 :: b4 :: b5 :: b6 :: b7 :: rest, hq =>
      have hr : rest.length = 8 * k := by simp at hq; omega
      have happ := bitsToNat_append [b0, b1, b2, b3, b4, b5, b6, b7] rest
      simp only [List.cons_append, List.nil_append] at happ
      have hB := bitsToNat_lt [b0, b1, b2, b3, b4, b5, b6, b7]
      have hR := bitsToNat_lt rest
      simp only [List.length_cons, List.length_nil] at hB
      rw [hr] at happ hR
      have hp : 0 < 2 ^ (8 * k) := Nat.two_pow_pos _
      simp only [packBits, beBytes]
      congr 1
      · rw [happ, Nat.add_comm, Nat.add_mul_div_right _ _ hp, Nat.div_eq_of_lt hR, Nat.zero_add,
          Nat.mod_eq_of_lt (by omega)]
      · rw [ih rest hr, happ, beBytes_mod]
    | [], hq => simp at hq
    | [_], hq => simp at hq; omega
    | [_, _], hq => simp at hq; omega
    | [_, _, _], hq => simp at hq; omega
    | [_, _, _, _], hq => simp at hq; omega
    | [_, _, _, _, _], hq => simp at hq; omega
    | [_, _, _, _, _, _], hq => simp at hq; omega
    | [_, _, _, _, _, _, _], hq => simp at hq; omega

/-- `x<<L | code` in uint64, when `x` is the value of all bits so far modulo 2^64. -/
theorem step_x (V L code : Nat) (hL : L < 64) (hc : code < 2 ^ L) :
    (((V % 2 ^ 64) <<< L) % 2 ^ 64) ||| code = (V * 2 ^ L + code) % 2 ^ 64 := by
  rw [Nat.shiftLeft_eq]
  have h1 : (V % 2 ^ 64) * 2 ^ L % 2 ^ 64 = V * 2 ^ L % 2 ^ 64 := by
    rw [Nat.mul_mod, Nat.mod_mod, ← Nat.mul_mod]
  rw [h1]
  have h64 : (2 : Nat) ^ 64 = 2 ^ (64 - L) * 2 ^ L := by
    rw [← Nat.pow_add]; congr 1; omega
  have h2 : V * 2 ^ L % 2 ^ 64 = (V % 2 ^ (64 - L)) * 2 ^ L := by
    rw [h64, Nat.mul_mod_mul_right]
  have hh : V % 2 ^ (64 - L) < 2 ^ (64 - L) := Nat.mod_lt _ (Nat.two_pow_pos _)
  have hbound : (V % 2 ^ (64 - L)) * 2 ^ L + code < 2 ^ 64 := by
    have : (V % 2 ^ (64 - L) + 1) * 2 ^ L ≤ 2 ^ (64 - L) * 2 ^ L := Nat.mul_le_mul_right _ hh
    rw [Nat.add_mul, Nat.one_mul, ← h64] at this
    omega
  have hc64 : code < 2 ^ 64 := Nat.lt_of_lt_of_le hc (Nat.pow_le_pow_right (by omega) (by omega))
  rw [Nat.add_mod, h2, Nat.mod_eq_of_lt hc64, Nat.mod_eq_of_lt hbound]
  rw [← Nat.shiftLeft_eq, Nat.shiftLeft_add_eq_or_of_lt hc]

/-- `uint32(x >> n)` picks the 32 bits above the `n` pending ones. -/
theorem extract32 (D W R n : Nat) (hn : n ≤ 32) (hW : W < 2 ^ 32) (hR : R < 2 ^ n) :
    ((((D * 2 ^ 32 + W) * 2 ^ n + R) % 2 ^ 64) >>> n) % 2 ^ 32 = W := by
  rw [Nat.shiftRight_eq_div_pow]
  have h64 : (2 : Nat) ^ 64 = 2 ^ n * 2 ^ (64 - n) := by
    rw [← Nat.pow_add]; congr 1; omega
  rw [h64, Nat.mod_mul_right_div_self]
  have hd : (2 : Nat) ^ 32 ∣ 2 ^ (64 - n) := Nat.pow_dvd_pow 2 (by omega)
  rw [Nat.mod_mod_of_dvd _ hd]
  have hp : 0 < 2 ^ n := Nat.two_pow_pos n
  rw [Nat.add_comm, Nat.add_mul_div_right _ _ hp, Nat.div_eq_of_lt hR, Nat.zero_add,
    Nat.add_comm, Nat.add_mul_mod_self_right, Nat.mod_eq_of_lt hW]

theorem beBytes_mod64 (k V : Nat) (hk : k ≤ 8) : beBytes k (V % 2 ^ 64) = beBytes k V := by
  have h64 : (2 : Nat) ^ 64 = 2 ^ (64 - 8 * k) * 2 ^ (8 * k) := by
    rw [← Nat.pow_add]; congr 1; omega
  have e : V = (V / 2 ^ 64 * 2 ^ (64 - 8 * k)) * 2 ^ (8 * k) + V % 2 ^ 64 := by
    have := Nat.div_add_mod V (2 ^ 64)
    rw [Nat.mul_assoc, ← h64, Nat.mul_comm]
    exact this.symm
  conv => rhs; rw [e]
  rw [beBytes_mod]

end NetVerif.Proofs.Lemmas.HuffmanAcc
