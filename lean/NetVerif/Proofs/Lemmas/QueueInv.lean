import NetVerif.Model.QueueSem
import NetVerif.Proofs.Lemmas.GateInv
/-!
Invariant lemmas for the queue (C29, layer 2): one step of one goroutine.
-/
namespace NetVerif.Proofs.QueueInv
open NetVerif.Model.ChanSem NetVerif.Proofs.GateInv
set_option linter.unusedSimpArgs false
set_option linter.unusedVariables false

/-- Per-goroutine invariant of a queue user. -/
def QWf (sh : QShared) (qg : QG) : Prop :=
  GG.wf qg.g ∧
  (qg.g.cont = [] →
     (qg.qcont = [] ∧ qg.g.owns = false ∧ qg.deferred = false) ∨
     safe qg.g.owns qg.deferred (decide (qg.g.last = some .err)) qg.qcont = true) ∧
  (qg.g.cont ≠ [] →
     (qg.g.meth = .lock ∧ safe true qg.deferred false qg.qcont = true) ∨
     (qg.g.meth = .waitAndLock ∧ safe true qg.deferred false qg.qcont = true ∧
        safe false qg.deferred true qg.qcont = true) ∨
     (qg.g.meth = .unlock ∧ safe false qg.deferred false qg.qcont = true ∧ qg.g.arg = condVal sh))

/-- Everything one step of one queue goroutine does. -/
structure QFacts (σ : Store GCh) (sh : QShared) (qg : QG) (σ' : Store GCh) (sh' : QShared) (qg' : QG) : Prop where
  swf : SWf σ'
  wf : QWf sh' qg'
  cons : tokens σ' + b2n qg'.g.holding = tokens σ + b2n qg.g.holding
  frame : qg'.g.holding = qg.g.holding → σ' = σ
  /-- `err`/`q` are touched only by the goroutine that holds the gate, between gate calls -/
  excl : sh' ≠ sh → qg.g.holding = true ∧ qg.g.cont = [] ∧ qg'.g.holding = true ∧ qg'.g.cont = []
  /-- the gate is released with the recomputed condition -/
  release : qg.g.holding = true → qg'.g.holding = false →
    sh' = sh ∧ (σ' .set).len = (σ .set).len + b2n (condVal sh) ∧
    (σ' .unset).len = (σ .unset).len + b2n (!condVal sh)
  fifo : sh.accepted = sh.delivered ++ sh.q → sh'.accepted = sh'.delivered ++ sh'.q
  /-- closing is permanent -/
  closed : sh.err = true → sh'.err = true

theorem safe_bodies (f : Bool) (m : QMeth) : safe false false f (queue.body m ++ [.ret .unit]) = true := by
  cases f <;> cases m <;> decide

theorem safe_unlock (f : Bool) (v : QRet) : safe true false f (queue.unlock ++ [.ret v]) = true := by
  cases f <;> cases v <;> decide

theorem qstep_gate {σ σ' : Store GCh} {sh sh' : QShared} {qg qg' : QG} {a : GAct}
    (hσ : SWf σ) (hw : QWf sh qg) (h : qg.step queue gate σ sh (.gate a) = some (σ', sh', qg')) :
    QFacts σ sh qg σ' sh' qg' := by
  obtain ⟨hg, hidle, hrun⟩ := hw
  cases a with
  | call m b => simp [QG.step] at h
  | cancel =>
    simp only [QG.step, Option.map_eq_some_iff] at h
    obtain ⟨⟨σ1, g1⟩, hs, he⟩ := h
    simp at he; obtain ⟨rfl, rfl, rfl⟩ := he
    have F := step_local hσ hg hs
    have hs' := hs
    simp only [GG.step] at hs'
    split at hs'
    · simp at hs'
    · simp at hs'; obtain ⟨rfl, rfl⟩ := hs'
      exact { swf := F.swf, wf := ⟨F.wf, hidle, hrun⟩, cons := F.cons, frame := fun _ => rfl,
              excl := fun h => absurd rfl h, release := fun h1 h2 => by simp [h1] at h2,
              fifo := id, closed := id }
  | run p =>
    simp only [QG.step, Option.map_eq_some_iff] at h
    obtain ⟨⟨σ1, g1⟩, hs, he⟩ := h
    simp at he; obtain ⟨rfl, rfl, rfl⟩ := he
    have F := step_local hσ hg hs
    have hne : qg.g.cont ≠ [] := by
      intro hc; simp [GG.step, hc] at hs
    have hr := hrun hne
    refine { swf := F.swf, wf := ⟨F.wf, ?_, ?_⟩, cons := F.cons, frame := F.frame,
             excl := fun h => absurd rfl h, release := ?_, fifo := id, closed := id }
    · -- the gate call completed: the result decides how the continuation goes on
      intro hdone
      right
      simp only
      have hown : g1.owns = g1.holding := by
        rcases F.wf with ⟨_, ho⟩ | ⟨_, _, hh⟩ | ⟨_, _, _, hh⟩
        · exact ho
        · rcases hh with ⟨_, hh⟩ | ⟨_, hh | hh⟩ | ⟨_, hh⟩ <;> simp [hh, gate] at hdone
        · cases hb : g1.arg <;> simp [hh, hb, gate, instantiate] at hdone
      rcases hr with ⟨hm, hs1⟩ | ⟨hm, hs1, hs2⟩ | ⟨hm, hs1, _⟩
      · obtain ⟨_, hh'⟩ := F.lockDone hm hne hdone
        have hl : g1.last ≠ some .err := by
          cases hx : qg.g.holding
          · obtain ⟨_, _, _, hk⟩ := F.acquire hx hh'
            rcases hk with ⟨_, _, hk⟩ | ⟨_, _, _, hk⟩
            · simp [hk hm]
            · simp [hk]
          · have := (F.lockDone hm hne hdone).1; simp [hx] at this
        simp [hown, hh', hl, hs1]
      · rcases F.wait hm hne hdone with ⟨h1, h2, _⟩ | ⟨h1, _, h3, _⟩
        · simp [hown, h2, h1, hs1]
        · simp [hown, h3, h1, hs2]
      · obtain ⟨hh, hh'⟩ := F.unl hm hne hdone
        obtain ⟨_, _, _, ho, _⟩ := F.release hh hh'
        have hl : g1.last ≠ some .err := by
          -- `unlock` falls off its end: no result
          have hwf := hg
          rcases hwf with ⟨hc, _⟩ | ⟨_, _, hx⟩ | ⟨_, _, _, hc⟩
          · exact absurd hc hne
          · rcases hx with ⟨hm', _⟩ | ⟨hm', _⟩ | ⟨hm', _⟩ <;> (rw [hm] at hm'; cases hm')
          · cases hb : qg.g.arg <;> simp [hb, gate, instantiate] at hc <;>
              (cases p with
               | dflt => simp [GG.step, hc, Sel.step] at hs
               | arm k =>
                 match k with
                 | 0 =>
                   simp [GG.step, hc, Sel.step, Arm.enabled, Arm.fire, GG.after] at hs
                   obtain ⟨_, _, rfl⟩ := hs
                   simp
                 | k+1 => simp [GG.step, hc, Sel.step] at hs)
        simp [ho, hl, hs1]
    · intro hne'
      obtain ⟨hm, ha⟩ := F.same hne
      simp only
      rw [hm, ha]
      exact hr
    · intro hh hh'
      obtain ⟨hm, _, _, _, h1, h2⟩ := F.release hh hh'
      rcases hr with ⟨hm', _⟩ | ⟨hm', _⟩ | ⟨_, _, harg⟩
      · rw [hm] at hm'; cases hm'
      · rw [hm] at hm'; cases hm'
      · rw [harg] at h1 h2; exact ⟨rfl, h1, h2⟩

theorem instantiate_ne_nil (m : GMeth) (b : Bool) : instantiate (gate.body m) b ≠ [] := by
  cases m <;> cases b <;> simp [GateSrc.body, gate, instantiate]

theorem qstep_call {σ σ' : Store GCh} {sh sh' : QShared} {qg qg' : QG} {m : QMeth} {v : Nat}
    (hσ : SWf σ) (hw : QWf sh qg) (h : qg.step queue gate σ sh (.call m v) = some (σ', sh', qg')) :
    QFacts σ sh qg σ' sh' qg' := by
  obtain ⟨hg, hidle, hrun⟩ := hw
  simp only [QG.step] at h
  split at h
  · rename_i hc
    simp at hc
    obtain ⟨⟨hq, hgc⟩, hp⟩ := hc
    simp at h
    obtain ⟨rfl, rfl, rfl⟩ := h
    have ho : qg.g.owns = false := by
      rcases hidle hgc with ⟨_, ho, _⟩ | hs
      · exact ho
      · simp [hq, safe] at hs
    have hgw : GG.wf { qg.g with ctx := false } := by
      rcases hg with h | h | h
      · exact Or.inl h
      · exact Or.inr (Or.inl h)
      · exact Or.inr (Or.inr h)
    refine { swf := hσ, wf := ⟨hgw, ?_, ?_⟩, cons := rfl, frame := fun _ => rfl,
             excl := fun h => absurd rfl h, release := fun h1 h2 => by simp [h1] at h2,
             fifo := id, closed := id }
    · intro _
      right
      simp only [ho]
      exact safe_bodies _ m
    · intro hne; exact absurd hgc hne
  · simp at h

theorem condExp_eval (sh : QShared) : condExp.eval sh = condVal sh := rfl

theorem retNow_nodefer (qg : QG) (v : QRet) (hd : qg.deferred = false) :
    retNow queue qg v = { qg with qcont := [], result := some v } := by
  simp [retNow, hd]

theorem retNow_defer (qg : QG) (v : QRet) (hd : qg.deferred = true) :
    retNow queue qg v = { qg with deferred := false, qcont := queue.unlock ++ [.ret v] } := by
  simp [retNow, hd]

theorem qwf_idle {sh : QShared} {qg : QG} (hg : GG.wf qg.g) (hgc : qg.g.cont = [])
    (h : (qg.qcont = [] ∧ qg.g.owns = false ∧ qg.deferred = false) ∨
         safe qg.g.owns qg.deferred (decide (qg.g.last = some .err)) qg.qcont = true) : QWf sh qg :=
  ⟨hg, fun _ => h, fun hne => absurd hgc hne⟩

/-- A step that touches neither the channels, nor the shared fields, nor the gate machine. -/
theorem qfacts_local {σ : Store GCh} {sh : QShared} {qg qg' : QG} (hσ : SWf σ)
    (hgeq : qg'.g = qg.g) (hw : QWf sh qg') : QFacts σ sh qg σ sh qg' :=
  { swf := hσ, wf := hw, cons := by rw [hgeq], frame := fun _ => rfl, excl := fun h => absurd rfl h,
    release := fun h1 h2 => (by rw [hgeq, h1] at h2; cases h2), fifo := id, closed := id }

/-- A data statement executed by the holder. -/
theorem qfacts_data {σ : Store GCh} {sh sh' : QShared} {qg qg' : QG} (hσ : SWf σ)
    (hgeq : qg'.g = qg.g) (hw : QWf sh' qg') (hh : qg.g.holding = true) (hgc : qg.g.cont = [])
    (hf : sh.accepted = sh.delivered ++ sh.q → sh'.accepted = sh'.delivered ++ sh'.q)
    (hc : sh.err = true → sh'.err = true) : QFacts σ sh qg σ sh' qg' :=
  { swf := hσ, wf := hw, cons := by rw [hgeq], frame := fun _ => rfl,
    excl := fun _ => ⟨hh, hgc, by rw [hgeq]; exact hh, by rw [hgeq]; exact hgc⟩,
    release := fun h1 h2 => (by rw [hgeq, h1] at h2; cases h2), fifo := hf, closed := hc }

theorem qstep_stmt {σ σ' : Store GCh} {sh sh' : QShared} {qg qg' : QG}
    (hσ : SWf σ) (hw : QWf sh qg) (h : qg.step queue gate σ sh .stmt = some (σ', sh', qg')) :
    QFacts σ sh qg σ' sh' qg' := by
  obtain ⟨hg, hidle, hrun⟩ := hw
  simp only [QG.step] at h
  split at h
  · simp at h
  · rename_i hc
    simp at hc
    obtain ⟨hgc, hp⟩ := hc
    have hown : qg.g.owns = qg.g.holding := by
      rcases hg with ⟨_, ho⟩ | ⟨_, _, hh⟩ | ⟨_, _, _, hh⟩
      · exact ho
      · rcases hh with ⟨_, hh⟩ | ⟨_, hh | hh⟩ | ⟨_, hh⟩ <;> simp [hh, gate] at hgc
      · cases hb : qg.g.arg <;> simp [hh, hb, gate, instantiate] at hgc
    have hsafe := hidle hgc
    split at h
    · simp at h
    · -- q.gate.m(arg)
      rename_i m arg rest hq
      simp only [Option.map_eq_some_iff] at h
      obtain ⟨⟨σ1, g1⟩, hs, he⟩ := h
      simp at he; obtain ⟨rfl, rfl, rfl⟩ := he
      have F := step_local hσ hg hs
      obtain ⟨hh, ho⟩ := F.idle hgc
      have hs' := hs
      simp only [GG.step] at hs'
      split at hs'
      · simp at hs'
        obtain ⟨rfl, rfl⟩ := hs'
        rcases hsafe with ⟨hq', _⟩ | hsafe
        · simp [hq] at hq'
        · rw [hq] at hsafe
          refine { swf := F.swf, wf := ⟨F.wf, ?_, ?_⟩, cons := F.cons, frame := fun _ => rfl,
                   excl := fun h => absurd rfl h,
                   release := fun h1 h2 => by simp at h2; simp [h1] at h2,
                   fifo := id, closed := id }
          · intro hcn; exact absurd hcn (instantiate_ne_nil m _)
          · intro _
            simp only
            cases m with
            | lock =>
              cases arg with
              | none => simp [safe] at hsafe; exact Or.inl ⟨rfl, hsafe.2⟩
              | some e => simp [safe] at hsafe
            | waitAndLock =>
              cases arg with
              | none => simp [safe] at hsafe; exact Or.inr (Or.inl ⟨rfl, hsafe.1.2, hsafe.2⟩)
              | some e => simp [safe] at hsafe
            | lockIfSet => simp [safe] at hsafe
            | unlock =>
              cases arg with
              | none => simp [safe] at hsafe
              | some e =>
                simp [safe] at hsafe
                obtain ⟨⟨_, rfl⟩, hs2⟩ := hsafe
                exact Or.inr (Or.inr ⟨rfl, hs2, by simp [condExp_eval]⟩)
      · simp at hs'
    · -- defer q.unlock()
      rename_i rest hq
      simp at h; obtain ⟨rfl, rfl, rfl⟩ := h
      rcases hsafe with ⟨hq', _⟩ | hsafe
      · simp [hq] at hq'
      · rw [hq] at hsafe; simp [safe] at hsafe
        obtain ⟨⟨ho, hd⟩, hs2⟩ := hsafe
        exact qfacts_local hσ rfl (qwf_idle hg hgc (Or.inr hs2))
    · -- if err != nil { return zero, err }
      rename_i v rest hq
      rcases hsafe with ⟨hq', _⟩ | hsafe
      · simp [hq] at hq'
      · rw [hq] at hsafe
        split at h
        · rename_i hl
          simp at h; obtain ⟨rfl, rfl, rfl⟩ := h
          simp [safe, hl] at hsafe
          rw [retNow_nodefer qg v hsafe.2]
          exact qfacts_local hσ rfl (qwf_idle hg hgc (Or.inl ⟨rfl, hsafe.1, hsafe.2⟩))
        · rename_i hl
          simp at h; obtain ⟨rfl, rfl, rfl⟩ := h
          simp [safe, hl] at hsafe
          exact qfacts_local hσ rfl (qwf_idle hg hgc (Or.inr (by simp [hl, hsafe])))
    · -- if c { return v }
      rename_i c v rest hq
      rcases hsafe with ⟨hq', _⟩ | hsafe
      · simp [hq] at hq'
      · rw [hq] at hsafe; simp [safe] at hsafe
        obtain ⟨⟨ho, hd⟩, hs2⟩ := hsafe
        split at h
        · simp at h; obtain ⟨rfl, rfl, rfl⟩ := h
          rw [retNow_defer qg v hd]
          exact qfacts_local hσ rfl (qwf_idle hg hgc (Or.inr (by simp only [ho]; exact safe_unlock _ v)))
        · simp at h; obtain ⟨rfl, rfl, rfl⟩ := h
          exact qfacts_local hσ rfl (qwf_idle hg hgc (Or.inr hs2))
    · -- if q.err == nil { q.err = err }
      rename_i rest hq
      simp at h; obtain ⟨rfl, rfl, rfl⟩ := h
      rcases hsafe with ⟨hq', _⟩ | hsafe
      · simp [hq] at hq'
      · rw [hq] at hsafe; simp [safe] at hsafe
        obtain ⟨ho, hs2⟩ := hsafe
        exact qfacts_data hσ rfl (qwf_idle hg hgc (Or.inr hs2)) (by rw [← hown, ho]) hgc id (fun _ => rfl)
    · -- q.q = append(q.q, v)
      rename_i rest hq
      simp at h; obtain ⟨rfl, rfl, rfl⟩ := h
      rcases hsafe with ⟨hq', _⟩ | hsafe
      · simp [hq] at hq'
      · rw [hq] at hsafe; simp [safe] at hsafe
        obtain ⟨ho, hs2⟩ := hsafe
        exact qfacts_data hσ rfl (qwf_idle hg hgc (Or.inr hs2)) (by rw [← hown, ho]) hgc
          (fun hf => by simp [hf]) id
    · -- pop
      rename_i rest hq
      rcases hsafe with ⟨hq', _⟩ | hsafe
      · simp [hq] at hq'
      · rw [hq] at hsafe
        have hsafe0 := hsafe
        simp [safe] at hsafe
        obtain ⟨ho, hs2⟩ := hsafe
        split at h
        · simp at h; obtain ⟨rfl, rfl, rfl⟩ := h
          exact qfacts_local hσ rfl (qwf_idle hg hgc (Or.inr (by simp only [hq]; exact hsafe0)))
        · rename_i x r hx
          simp at h; obtain ⟨rfl, rfl, rfl⟩ := h
          exact qfacts_data hσ rfl (qwf_idle hg hgc (Or.inr hs2)) (by rw [← hown, ho]) hgc
            (fun hf => by simp [hf, hx]) id
    · -- return v
      rename_i v rest hq
      simp at h; obtain ⟨rfl, rfl, rfl⟩ := h
      rcases hsafe with ⟨hq', _⟩ | hsafe
      · simp [hq] at hq'
      · rw [hq] at hsafe; simp [safe] at hsafe
        cases hd : qg.deferred
        · simp [hd] at hsafe
          rw [retNow_nodefer qg v hd]
          exact qfacts_local hσ rfl (qwf_idle hg hgc (Or.inl ⟨rfl, hsafe, hd⟩))
        · simp [hd] at hsafe
          rw [retNow_defer qg v hd]
          exact qfacts_local hσ rfl (qwf_idle hg hgc (Or.inr (by simp only [hsafe]; exact safe_unlock _ v)))

end NetVerif.Proofs.QueueInv
