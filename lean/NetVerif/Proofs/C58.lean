import NetVerif.Model.LimitListener
import NetVerif.Gen.C58
import NetVerif.Proofs.Lemmas.MonitorSound
/-!
C58 — LimitListener never exceeds its connection limit.

Theorems over every configuration reachable in the ChanSem semantics of `netutil/listen.go`
(`Model.LimitListener`), for any limit `n`, any number of goroutines calling Accept, Close
and Conn.Close (repeatedly) in any interleaving.
-/
namespace NetVerif.Proofs.C58
open NetVerif.Model.ChanSem NetVerif.Model.LimitListener
set_option linter.unusedSimpArgs false
set_option linter.unusedVariables false
set_option linter.unusedSectionVars false

/-- T-tie: the DSL term regenerated from `netutil/listen.go` is the modelled one. -/
theorem gen_listen : NetVerif.Gen.C58.listen = listen := by decide

/-! ### counting -/

theorem cnt_set {α : Type} (f : α → Bool) (l : List α) (i : Nat) (x x' : α) (h : l[i]? = some x) :
    cnt f (l.set i x') + (if f x then 1 else 0) = cnt f l + (if f x' then 1 else 0) := by
  induction l generalizing i with
  | nil => simp at h
  | cons y ys ih =>
    cases i with
    | zero => simp at h; subst h; simp [cnt]; omega
    | succ i => simp at h; have := ih i h; simp [cnt] at this ⊢; omega

theorem cnt_append {α : Type} (f : α → Bool) (l : List α) (x : α) :
    cnt f (l ++ [x]) = cnt f l + (if f x then 1 else 0) := by
  simp [cnt]

theorem cnt_le_cnt {α : Type} (f g : α → Bool) (l : List α) (h : ∀ x ∈ l, f x = true → g x = true) :
    cnt f l ≤ cnt g l := by
  induction l with
  | nil => simp [cnt]
  | cons y ys ih =>
    have h1 := ih (fun x hx => h x (List.mem_cons_of_mem _ hx))
    have h2 := h y (List.mem_cons_self)
    simp [cnt] at h1 ⊢
    cases hf : f y <;> cases hg : g y <;> simp_all <;> omega

theorem cnt_replicate_false {α : Type} (f : α → Bool) (x : α) (m : Nat) (h : f x = false) :
    cnt f (List.replicate m x) = 0 := by
  induction m with
  | zero => rfl
  | succ m ih => simp [List.replicate_succ, cnt, h]

/-! ### invariants -/

/-- Every connection record was returned by Accept; the semaphore was released for it at most
once, and only after its Close was called. -/
def ConnOK (cn : LConn) : Prop :=
  cn.returned = true ∧ (cn.released = true → cn.closeCalled = true) ∧
  cn.releases = (if cn.released then 1 else 0)

/-- Where a goroutine can be, and what it knows there. -/
def LGwf (c : LConfig) (g : LG) : Prop :=
  (g.cont = [] ∧ g.slot = false) ∨
  (g.meth = .accept ∧
     ((g.cont = listen.accept ∧ g.slot = false) ∨
      (g.cont = listen.accept.drop 1 ∧ g.slot = true ∧ g.draining = false) ∨
      (g.cont = listen.accept.drop 2 ∧ g.slot = true ∧ g.draining = false ∧ (g.err = false → g.conn = true)) ∨
      (g.cont = listen.accept.drop 3 ∧ g.slot = true ∧ g.draining = false ∧ g.conn = true))) ∨
  (g.meth = .close ∧ g.slot = false ∧
     (g.cont = listen.close ∨ (g.cont = listen.close.drop 1 ∧ c.innerClosed = true) ∨
      (g.cont = listen.close.drop 2 ∧ c.closeOnceDone = true ∧ c.innerClosed = true))) ∨
  (∃ k cn, g.meth = .connClose k ∧ g.slot = false ∧ c.conns[k]? = some cn ∧
     (g.cont = listen.connClose ∨ (g.cont = listen.connClose.drop 1 ∧ cn.closeCalled = true) ∨
      (g.cont = listen.connClose.drop 2 ∧ cn.released = true)))

/-- An Accept invoked after a Close has returned never obtains a connection. -/
def AfterOK (c : LConfig) (g : LG) : Prop :=
  (g.afterClose = true → c.closeReturned = true) ∧
  (g.afterClose = true → g.meth = .accept → g.conn = false ∧ (g.cont = [] → g.result = some .err))

structure LInv (c : LConfig) : Prop where
  cap : (c.σ .sem).cap = c.n
  le : (c.σ .sem).len ≤ c.n
  semOpen : (c.σ .sem).closed = false
  /-- every token in the semaphore belongs to a goroutine inside Accept or to a returned,
  not yet released connection -/
  tok : (c.σ .sem).len = cnt (fun g => g.slot) c.gs + cnt (fun cn => !cn.released) c.conns
  conns : ∀ cn ∈ c.conns, ConnOK cn
  gwf : ∀ g ∈ c.gs, LGwf c g ∧ AfterOK c g
  closed : c.closeReturned = true → c.innerClosed = true ∧ c.closeOnceDone = true
  done : c.closeOnceDone = true → (c.σ .done).closed = true

/-- Monotone growth of the shared state (what other goroutines rely on). -/
def Ext (c c' : LConfig) : Prop :=
  (c.innerClosed = true → c'.innerClosed = true) ∧ (c.closeOnceDone = true → c'.closeOnceDone = true) ∧
  (c.closeReturned = true → c'.closeReturned = true) ∧
  ∀ (k : Nat) (cn : LConn), c.conns[k]? = some cn → ∃ cn' : LConn, c'.conns[k]? = some cn' ∧
    (cn.closeCalled = true → cn'.closeCalled = true) ∧ (cn.released = true → cn'.released = true)

theorem wf_ext {c c' : LConfig} {g : LG} (h : LGwf c g ∧ AfterOK c g) (e : Ext c c') :
    LGwf c' g ∧ AfterOK c' g := by
  obtain ⟨e1, e2, e3, e4⟩ := e
  obtain ⟨hw, ha1, ha2⟩ := h
  refine ⟨?_, fun h => e3 (ha1 h), ha2⟩
  rcases hw with h | h | ⟨hm, hs, h⟩ | ⟨k, cn, hm, hs, hk, h⟩
  · exact Or.inl h
  · exact Or.inr (Or.inl h)
  · refine Or.inr (Or.inr (Or.inl ⟨hm, hs, ?_⟩))
    rcases h with h | ⟨h, hi⟩ | ⟨h, hi, hj⟩
    · exact Or.inl h
    · exact Or.inr (Or.inl ⟨h, e1 hi⟩)
    · exact Or.inr (Or.inr ⟨h, e2 hi, e1 hj⟩)
  · obtain ⟨cn', hk', hc1, hc2⟩ := e4 k cn hk
    refine Or.inr (Or.inr (Or.inr ⟨k, cn', hm, hs, hk', ?_⟩))
    rcases h with h | ⟨h, hi⟩ | ⟨h, hi⟩
    · exact Or.inl h
    · exact Or.inr (Or.inl ⟨h, hc1 hi⟩)
    · exact Or.inr (Or.inr ⟨h, hc2 hi⟩)

theorem ext_refl (c : LConfig) : Ext c c := ⟨id, id, id, fun _ cn h => ⟨cn, h, id, id⟩⟩

def cntR (l : List LConn) : Nat := cnt (fun cn => !cn.released) l
def s2n (b : Bool) : Nat := if b then 1 else 0

/-- Everything one step of one goroutine does. -/
structure LFacts (c : LConfig) (g : LG) (c1 : LConfig) (g' : LG) : Prop where
  gs : c1.gs = c.gs
  n : c1.n = c.n
  ext : Ext c c1
  wf : LGwf c1 g' ∧ AfterOK c1 g'
  cap : (c1.σ .sem).cap = (c.σ .sem).cap
  semOpen : (c1.σ .sem).closed = (c.σ .sem).closed
  le : (c1.σ .sem).len ≤ c.n
  tok : (c1.σ .sem).len + s2n g.slot + cntR c.conns = (c.σ .sem).len + s2n g'.slot + cntR c1.conns
  conns : ∀ cn ∈ c1.conns, ConnOK cn
  closed : c1.closeReturned = true → c1.innerClosed = true ∧ c1.closeOnceDone = true
  done : c1.closeOnceDone = true → (c1.σ .done).closed = true

macro "lfin" : tactic => `(tactic| (
  constructor <;>
    simp_all [LGwf, AfterOK, Ext, listen, finish, s2n, cntR, ListenSrc.body, upd] <;> omega))

theorem lstep_call {c c1 : LConfig} {g g' : LG} {m : LMeth} (hI : LInv c)
    (hw : LGwf c g) (ha1 : g.afterClose = true → c.closeReturned = true)
    (h : g.step listen c (.call m) = some (c1, g')) : LFacts c g c1 g' := by
  obtain ⟨hcap, hle, hopen, htok, hconns, -, hclosed, hdone⟩ := hI
  simp only [LG.step] at h
  split at h
  · rename_i hc
    simp at hc
    cases m with
    | accept => simp at h; obtain ⟨rfl, rfl⟩ := h; lfin
    | close => simp at h; obtain ⟨rfl, rfl⟩ := h; lfin
    | connClose k =>
      simp at h
      split at h
      · rename_i cn hk
        split at h
        · simp at h; obtain ⟨rfl, rfl⟩ := h; lfin
        · simp at h
      · simp at h
  · simp at h

theorem ext_set {c : LConfig} {k : Nat} {cn cn' : LConn} (hk : c.conns[k]? = some cn)
    (h1 : cn.closeCalled = true → cn'.closeCalled = true) (h2 : cn.released = true → cn'.released = true)
    (c' : LConfig) (hc : c'.conns = c.conns.set k cn')
    (e1 : c.innerClosed = true → c'.innerClosed = true) (e2 : c.closeOnceDone = true → c'.closeOnceDone = true)
    (e3 : c.closeReturned = true → c'.closeReturned = true) : Ext c c' := by
  refine ⟨e1, e2, e3, ?_⟩
  intro j x hj
  have hlt := (List.getElem?_eq_some_iff.mp hk).1
  by_cases hjk : j = k
  · subst hjk
    rw [hk] at hj; cases hj
    exact ⟨cn', by rw [hc]; simp [hlt], h1, h2⟩
  · refine ⟨x, ?_, id, id⟩
    rw [hc, List.getElem?_set_ne (Ne.symm hjk)]; exact hj

section
variable {c c1 : LConfig} {g g' : LG} {ch : Nat} (hI : LInv c)
  (ha1 : g.afterClose = true → c.closeReturned = true)
  (ha2 : g.afterClose = true → g.meth = .accept → g.conn = false ∧ (g.cont = [] → g.result = some .err))
  (h : g.step listen c (.stmt ch) = some (c1, g'))
include hI ha1 ha2 h

theorem lstep_acc0 (hm : g.meth = .accept) (hc : g.cont = listen.accept) (hs : g.slot = false) :
    LFacts c g c1 g' := by
  obtain ⟨hcap, hle, hopen, htok, hconns, -, hclosed, hdone⟩ := hI
  simp only [listen, List.drop] at hc
  simp only [LG.step, hc] at h
  split at h
  · split at h
    · simp at h; obtain ⟨rfl, rfl⟩ := h; lfin
    · split at h
      · simp at h
      · simp at h; obtain ⟨rfl, rfl⟩ := h; lfin
  · match ch with
    | 0 =>
      simp [runSingle, listen, Sel.step, Arm.enabled, Arm.fire] at h
      by_cases hx : 0 < (c.σ LCh.done).len <;> by_cases hy : (c.σ LCh.done).closed = true <;>
        simp [hx, hy] at h <;> (obtain ⟨rfl, rfl⟩ := h; lfin)
    | 1 =>
      simp [runSingle, listen, Sel.step, Arm.enabled, Arm.fire] at h
      by_cases hx : (c.σ LCh.sem).len < (c.σ LCh.sem).cap <;> simp [hx] at h
      obtain ⟨rfl, rfl⟩ := h
      lfin
    | k+2 => simp [runSingle, listen, Sel.step] at h

theorem lstep_acc1 (hm : g.meth = .accept) (hc : g.cont = listen.accept.drop 1) (hs : g.slot = true)
    (hd : g.draining = false) : LFacts c g c1 g' := by
  obtain ⟨hcap, hle, hopen, htok, hconns, -, hclosed, hdone⟩ := hI
  simp only [listen, List.drop] at hc
  simp only [LG.step, hc] at h
  split at h
  · simp at h; obtain ⟨rfl, rfl⟩ := h; lfin
  · split at h
    · simp at h
    · simp at h; obtain ⟨rfl, rfl⟩ := h; lfin

theorem lstep_acc2 (hm : g.meth = .accept) (hc : g.cont = listen.accept.drop 2) (hs : g.slot = true)
    (hd : g.draining = false) (he : g.err = false → g.conn = true) : LFacts c g c1 g' := by
  obtain ⟨hcap, hle, hopen, htok, hconns, -, hclosed, hdone⟩ := hI
  simp only [listen, List.drop] at hc
  simp only [LG.step, hc] at h
  split at h
  · simp [runSingle, listen, Sel.step, Arm.enabled, Arm.fire, hopen] at h
    by_cases hx : 0 < (c.σ LCh.sem).len <;> simp [hx] at h
    obtain ⟨rfl, rfl⟩ := h
    lfin
  · simp at h; obtain ⟨rfl, rfl⟩ := h; lfin

theorem lstep_acc3 (hm : g.meth = .accept) (hc : g.cont = listen.accept.drop 3) (hs : g.slot = true)
    (hd : g.draining = false) (he : g.conn = true) : LFacts c g c1 g' := by
  obtain ⟨hcap, hle, hopen, htok, hconns, -, hclosed, hdone⟩ := hI
  simp only [listen, List.drop] at hc
  simp only [LG.step, hc] at h
  simp [he] at h
  obtain ⟨rfl, rfl⟩ := h
  refine { gs := rfl, n := rfl, ext := ?_, wf := ?_, cap := rfl, semOpen := rfl, le := hle, tok := ?_,
           conns := ?_, closed := hclosed, done := hdone }
  · refine ⟨id, id, id, ?_⟩
    intro k cn hk
    refine ⟨cn, ?_, id, id⟩
    simp only
    rw [List.getElem?_append_left (List.getElem?_eq_some_iff.mp hk).1]; exact hk
  · simp_all [LGwf, AfterOK, finish]
  · simp [cntR, cnt_append, finish, s2n, hs]; omega
  · intro cn hcn
    simp at hcn
    rcases hcn with hcn | rfl
    · exact hconns cn hcn
    · simp [ConnOK]

theorem lstep_close (hm : g.meth = .close) (hs : g.slot = false)
    (hp : g.cont = listen.close ∨ (g.cont = listen.close.drop 1 ∧ c.innerClosed = true) ∨
      (g.cont = listen.close.drop 2 ∧ c.closeOnceDone = true ∧ c.innerClosed = true)) :
    LFacts c g c1 g' := by
  obtain ⟨hcap, hle, hopen, htok, hconns, -, hclosed, hdone⟩ := hI
  rcases hp with hc | ⟨hc, hi⟩ | ⟨hc, hi, hj⟩
  · simp only [listen, List.drop] at hc
    simp [LG.step, hc, hm] at h
    obtain ⟨rfl, rfl⟩ := h
    lfin
  · simp only [listen, List.drop] at hc
    simp only [LG.step, hc] at h
    split at h
    · simp at h; obtain ⟨rfl, rfl⟩ := h; lfin
    · simp at h; obtain ⟨rfl, rfl⟩ := h; lfin
  · simp only [listen, List.drop] at hc
    simp [LG.step, hc, hm] at h
    obtain ⟨rfl, rfl⟩ := h
    lfin

theorem lstep_connClose {k : Nat} {cn : LConn} (hm : g.meth = .connClose k) (hs : g.slot = false)
    (hk : c.conns[k]? = some cn)
    (hp : g.cont = listen.connClose ∨ (g.cont = listen.connClose.drop 1 ∧ cn.closeCalled = true) ∨
      (g.cont = listen.connClose.drop 2 ∧ cn.released = true)) :
    LFacts c g c1 g' := by
  obtain ⟨hcap, hle, hopen, htok, hconns, -, hclosed, hdone⟩ := hI
  have hlt := (List.getElem?_eq_some_iff.mp hk).1
  have hcn := hconns cn (List.mem_of_getElem? hk)
  rcases hp with hc | ⟨hc, hi⟩ | ⟨hc, hi⟩
  · simp only [listen, List.drop] at hc
    simp [LG.step, hc, hm, hk] at h
    obtain ⟨rfl, rfl⟩ := h
    refine { gs := rfl, n := rfl, ext := ?_, wf := ?_, cap := rfl, semOpen := rfl, le := hle, tok := ?_,
             conns := ?_, closed := hclosed, done := hdone }
    · exact ext_set (cn' := { cn with closeCalled := true }) hk (fun _ => rfl) id _ rfl id id id
    · refine ⟨Or.inr (Or.inr (Or.inr ⟨k, { cn with closeCalled := true }, rfl, hs, ?_, ?_⟩)), ha1, ?_⟩
      · simp [hlt]
      · simp [listen]
      · simp [hm]
    · have := cnt_set (fun cn : LConn => !cn.released) c.conns k cn { cn with closeCalled := true } hk
      simp [cntR] at this ⊢; omega
    · intro x hx
      rcases List.mem_or_eq_of_mem_set hx with hx | rfl
      · exact hconns x hx
      · obtain ⟨h1, h2, h3⟩ := hcn; exact ⟨h1, fun _ => rfl, h3⟩
  · simp only [listen, List.drop] at hc
    simp only [LG.step, hc, hm, hk] at h
    split at h
    · simp at h; obtain ⟨rfl, rfl⟩ := h
      refine { gs := rfl, n := rfl, ext := ext_refl c, wf := ?_, cap := rfl, semOpen := rfl, le := hle,
               tok := by simp, conns := hconns, closed := hclosed, done := hdone }
      refine ⟨Or.inr (Or.inr (Or.inr ⟨k, cn, by simp [hm], hs, hk, ?_⟩)), ha1, ?_⟩
      · simp [listen]; assumption
      · simp [hm]
    · rename_i hnr
      simp [runSingle, listen, Sel.step, Arm.enabled, Arm.fire, hopen] at h
      by_cases hx : 0 < (c.σ LCh.sem).len <;> simp [hx] at h
      obtain ⟨rfl, rfl⟩ := h
      have hnr' : cn.released = false := by simpa using hnr
      refine { gs := rfl, n := rfl, ext := ?_, wf := ?_, cap := by simp [upd], semOpen := by simp [upd, hopen],
               le := by simp [upd]; omega, tok := ?_, conns := ?_, closed := hclosed,
               done := by simpa [upd] using hdone }
      · exact ext_set (cn' := { cn with released := true, releases := cn.releases + 1 }) hk id (fun _ => rfl) _ rfl id id id
      · refine ⟨Or.inr (Or.inr (Or.inr ⟨k, { cn with released := true, releases := cn.releases + 1 }, by simp [hm], hs, ?_, ?_⟩)), ha1, ?_⟩
        · simp [hlt]
        · simp [listen]
        · simp [hm]
      · have := cnt_set (fun cn : LConn => !cn.released) c.conns k cn
          { cn with released := true, releases := cn.releases + 1 } hk
        simp [cntR, hnr', upd] at this ⊢; omega
      · intro x hx
        rcases List.mem_or_eq_of_mem_set hx with hx | rfl
        · exact hconns x hx
        · obtain ⟨h1, h2, h3⟩ := hcn
          refine ⟨h1, fun _ => hi, ?_⟩
          simp [hnr'] at h3 ⊢; exact h3
  · simp only [listen, List.drop] at hc
    simp [LG.step, hc, hm] at h
    obtain ⟨rfl, rfl⟩ := h
    refine { gs := rfl, n := rfl, ext := ext_refl c, wf := ?_, cap := rfl, semOpen := rfl, le := hle,
             tok := by simp [finish], conns := hconns, closed := hclosed, done := hdone }
    simp_all [LGwf, AfterOK, finish]

end

theorem lstep_local {c c1 : LConfig} {g g' : LG} {a : LAct} (hI : LInv c)
    (hg : LGwf c g ∧ AfterOK c g) (h : g.step listen c a = some (c1, g')) : LFacts c g c1 g' := by
  obtain ⟨hw, ha1, ha2⟩ := hg
  cases a with
  | call m => exact lstep_call hI hw ha1 h
  | stmt ch =>
    rcases hw with ⟨hc, hs⟩ | ⟨hm, hp⟩ | ⟨hm, hs, hp⟩ | ⟨k, cn, hm, hs, hk, hp⟩
    · simp [LG.step, hc] at h
    · rcases hp with ⟨hc, hs⟩ | ⟨hc, hs, hd⟩ | ⟨hc, hs, hd, he⟩ | ⟨hc, hs, hd, he⟩
      · exact lstep_acc0 hI ha1 ha2 h hm hc hs
      · exact lstep_acc1 hI ha1 ha2 h hm hc hs hd
      · exact lstep_acc2 hI ha1 ha2 h hm hc hs hd he
      · exact lstep_acc3 hI ha1 ha2 h hm hc hs hd he
    · exact lstep_close hI ha1 ha2 h hm hs hp
    · exact lstep_connClose hI ha1 ha2 h hm hs hk hp

theorem lstep_cases {c c' : LConfig} {i : Nat} {a : LAct} (h : c.step listen i a = some c') :
    ∃ g c1 g', c.gs[i]? = some g ∧ g.step listen c a = some (c1, g') ∧
      c' = { c1 with gs := c.gs.set i g' } := by
  simp only [LConfig.step] at h
  split at h
  · simp at h
  · rename_i g hg
    split at h
    · simp at h
    · rename_i c1 g' hs
      simp only [Option.some.injEq] at h
      exact ⟨g, c1, g', hg, hs, h.symm⟩

theorem linv_step {c c' : LConfig} {i : Nat} {a : LAct} (hI : LInv c)
    (h : c.step listen i a = some c') : LInv c' := by
  obtain ⟨g, c1, g', hg, hs, rfl⟩ := lstep_cases h
  have hmem : g ∈ c.gs := List.mem_of_getElem? hg
  have F := lstep_local hI (hI.gwf g hmem) hs
  have hset := cnt_set (fun g : LG => g.slot) c.gs i g g' hg
  constructor
  · simp only; rw [F.cap, F.n]; exact hI.cap
  · simp only; rw [F.n]; exact F.le
  · simp only; rw [F.semOpen]; exact hI.semOpen
  · have := F.tok
    have := hI.tok
    simp only [s2n, cntR] at *
    omega
  · exact F.conns
  · intro x hx
    rcases List.mem_or_eq_of_mem_set hx with hx | rfl
    · exact wf_ext (hI.gwf x hx) F.ext
    · exact F.wf
  · exact F.closed
  · exact F.done

theorem linv_init (n m : Nat) : LInv (LConfig.init listen n m) := by
  constructor <;> simp [LConfig.init, cnt_replicate_false, cnt, LGwf, AfterOK]

/-- **Invariant** of every reachable configuration. -/
theorem listener_invariant {c : LConfig} (h : LReachable listen c) : LInv c := by
  induction h with
  | init n m => exact linv_init n m
  | step _ hs ih => exact linv_step ih hs

/-- The limit of a reachable configuration is the `n` given to `LimitListener`. -/
theorem semaphore_capacity_is_limit {c : LConfig} (h : LReachable listen c) :
    (c.σ .sem).cap = c.n ∧ (c.σ .sem).len ≤ c.n :=
  ⟨(listener_invariant h).cap, (listener_invariant h).le⟩

/-- Token accounting: every value in the semaphore channel belongs to a goroutine that is
inside Accept past `acquire`, or to a returned connection whose `releaseOnce` has not fired. -/
theorem semaphore_accounting {c : LConfig} (h : LReachable listen c) :
    (c.σ .sem).len = cnt (fun g => g.slot) c.gs + cnt (fun cn => !cn.released) c.conns :=
  (listener_invariant h).tok

/-- **C58**: at every point of every interleaving, the number of accepted connections that
have not been closed is at most `n`. -/
theorem limit_never_exceeded {c : LConfig} (h : LReachable listen c) : openConns c ≤ c.n := by
  have hI := listener_invariant h
  have h1 : openConns c ≤ cnt (fun cn => !cn.released) c.conns := by
    apply cnt_le_cnt
    intro cn hcn hx
    obtain ⟨_, h2, _⟩ := hI.conns cn hcn
    simp at hx ⊢
    cases hr : cn.released
    · rfl
    · have := h2 hr; simp [this] at hx
  have := hI.tok
  have := hI.le
  omega

/-- Closing a connection, even several times and concurrently, releases the semaphore exactly
once: the release counter of a connection is 0 before `releaseOnce` fires and 1 ever after. -/
theorem conn_released_at_most_once {c : LConfig} (h : LReachable listen c) :
    ∀ cn ∈ c.conns, cn.releases ≤ 1 ∧ (cn.released = true ↔ cn.releases = 1) ∧
      (cn.released = true → cn.closeCalled = true) := by
  intro cn hcn
  obtain ⟨_, h2, h3⟩ := (listener_invariant h).conns cn hcn
  cases hr : cn.released <;> simp [hr] at h3 h2 ⊢ <;> simp [h3, h2]

/-- ... and a `Conn.Close` call returns only after the release has happened. -/
theorem conn_close_returns_released {c : LConfig} (h : LReachable listen c) {i k : Nat} {g : LG}
    (hg : c.gs[i]? = some g) (hm : g.meth = .connClose k) (hc : g.cont = [.retErr]) :
    ∃ cn, c.conns[k]? = some cn ∧ cn.released = true ∧ cn.releases = 1 := by
  have hI := listener_invariant h
  obtain ⟨hw, _⟩ := hI.gwf g (List.mem_of_getElem? hg)
  rcases hw with ⟨hc', _⟩ | ⟨hm', _⟩ | ⟨hm', _⟩ | ⟨k', cn, hm', _, hk, hp⟩
  · simp [hc] at hc'
  · simp [hm] at hm'
  · simp [hm] at hm'
  · rw [hm] at hm'; cases hm'
    rcases hp with hp | ⟨hp, _⟩ | ⟨_, hr⟩
    · simp [hc, listen] at hp
    · simp [hc, listen] at hp
    · obtain ⟨_, _, h3⟩ := hI.conns cn (List.mem_of_getElem? hk)
      exact ⟨cn, hk, hr, by simp [hr] at h3; exact h3⟩

/-- Once a `Close()` has returned, the `done` channel is closed and the wrapped listener is
closed. -/
theorem after_close_done_closed {c : LConfig} (h : LReachable listen c) (hc : c.closeReturned = true) :
    (c.σ .done).closed = true ∧ c.innerClosed = true := by
  have hI := listener_invariant h
  obtain ⟨h1, h2⟩ := hI.closed hc
  exact ⟨hI.done h2, h1⟩

/-- **Accept after Close returns an error**: a completed Accept call that was invoked after
some Close() had returned has result `err` (it never hands out a connection). -/
theorem accept_after_close_returns_error {c : LConfig} (h : LReachable listen c) {i : Nat} {g : LG}
    (hg : c.gs[i]? = some g) (hm : g.meth = .accept) (ha : g.afterClose = true) (hidle : g.cont = []) :
    g.result = some .err := by
  obtain ⟨_, _, h2⟩ := (listener_invariant h).gwf g (List.mem_of_getElem? hg)
  exact (h2 ha hm).2 hidle

theorem cnt_pos {α : Type} (f : α → Bool) {l : List α} {i : Nat} {x : α} (h : l[i]? = some x)
    (hx : f x = true) : 1 ≤ cnt f l := by
  induction l generalizing i with
  | nil => simp at h
  | cons y ys ih =>
    cases i with
    | zero => simp at h; subst h; simp [cnt, hx]
    | succ i => simp at h; have := ih h; simp [cnt] at this ⊢; omega

/-- **... without blocking**: once a Close() has returned, a goroutine anywhere inside Accept
always has an enabled step; in particular the `acquire` select is never blocked on the
semaphore because its `<-l.done` arm is ready. -/
theorem accept_after_close_never_blocks {c : LConfig} (h : LReachable listen c)
    (hcl : c.closeReturned = true) {i : Nat} {g : LG}
    (hg : c.gs[i]? = some g) (hm : g.meth = .accept) (hrun : g.cont ≠ []) :
    ∃ ch c', c.step listen i (.stmt ch) = some c' := by
  have hI := listener_invariant h
  obtain ⟨hdone, hinner⟩ := after_close_done_closed h hcl
  obtain ⟨hw, _⟩ := hI.gwf g (List.mem_of_getElem? hg)
  rcases hw with ⟨hc, _⟩ | ⟨_, hp⟩ | ⟨hm', _⟩ | ⟨k', cn, hm', _⟩
  · exact absurd hc hrun
  · rcases hp with ⟨hc, hs⟩ | ⟨hc, hs, hd⟩ | ⟨hc, hs, hd, he⟩ | ⟨hc, hs, hd, he⟩
    · refine ⟨0, ?_⟩
      simp only [listen, List.drop] at hc
      cases hdr : g.draining <;>
        simp [LConfig.step, hg, LG.step, hc, hdr, runSingle, listen, Sel.step, Arm.enabled, hdone]
    · refine ⟨0, ?_⟩
      simp only [listen, List.drop] at hc
      simp [LConfig.step, hg, LG.step, hc]
    · refine ⟨0, ?_⟩
      simp only [listen, List.drop] at hc
      have h1 := cnt_pos (fun g : LG => g.slot) hg hs
      have h2 := hI.tok
      have h3 : 0 < (c.σ LCh.sem).len := by omega
      cases her : g.err <;>
        simp [LConfig.step, hg, LG.step, hc, her, runSingle, listen, Sel.step, Arm.enabled, h3]
    · refine ⟨0, ?_⟩
      simp only [listen, List.drop] at hc
      simp [LConfig.step, hg, LG.step, hc, he]
  · simp [hm] at hm'
  · simp [hm] at hm'

/-- **Accept's error path gives the slot back, a returned connection keeps exactly one**: a
goroutine that is not inside a call owns no semaphore token — whatever its last Accept returned
(an error of the wrapped listener, temporary or not, or a connection).  With
`semaphore_accounting` this says: every token is owned either by an Accept still in progress or
by exactly one returned connection whose `releaseOnce` has not fired; a failed Accept leaves
nothing behind, and no connection is ever returned without a token. -/
theorem accept_returns_without_spare_slot {c : LConfig} (h : LReachable listen c) {i : Nat} {g : LG}
    (hg : c.gs[i]? = some g) (hidle : g.cont = []) : g.slot = false := by
  obtain ⟨hw, _⟩ := (listener_invariant h).gwf g (List.mem_of_getElem? hg)
  rcases hw with ⟨_, hs⟩ | ⟨_, hp⟩ | ⟨_, _, hp⟩ | ⟨k, cn, _, _, _, hp⟩
  · exact hs
  · rcases hp with ⟨hc, _⟩ | ⟨hc, _⟩ | ⟨hc, _⟩ | ⟨hc, _⟩ <;> simp [hidle, listen] at hc
  · rcases hp with hc | ⟨hc, _⟩ | ⟨hc, _⟩ <;> simp [hidle, listen] at hc
  · rcases hp with hc | ⟨hc, _⟩ | ⟨hc, _⟩ <;> simp [hidle, listen] at hc

/-- The step that returns a connection creates its record with the release still pending and
moves the goroutine's token to it: the semaphore is untouched. -/
theorem accept_return_transfers_slot {c c' : LConfig} {i : Nat} {g : LG} (h : LReachable listen c)
    (hg : c.gs[i]? = some g) (hc : g.cont = [.retConn])
    (hs : c.step listen i (.stmt 0) = some c') :
    c'.σ = c.σ ∧ c'.conns = c.conns ++ [{ returned := true }] ∧ g.slot = true := by
  obtain ⟨hw, _⟩ := (listener_invariant h).gwf g (List.mem_of_getElem? hg)
  have hslot : g.slot = true ∧ g.conn = true := by
    rcases hw with ⟨hc', _⟩ | ⟨_, hp⟩ | ⟨_, _, hp⟩ | ⟨k, cn, _, _, _, hp⟩
    · simp [hc] at hc'
    · rcases hp with ⟨hc', _⟩ | ⟨hc', _⟩ | ⟨hc', _⟩ | ⟨_, h1, _, h2⟩
      · simp [hc, listen] at hc'
      · simp [hc, listen] at hc'
      · simp [hc, listen] at hc'
      · exact ⟨h1, h2⟩
    · rcases hp with hc' | ⟨hc', _⟩ | ⟨hc', _⟩ <;> simp [hc, listen] at hc'
    · rcases hp with hc' | ⟨hc', _⟩ | ⟨hc', _⟩ <;> simp [hc, listen] at hc'
  simp [LConfig.step, hg, LG.step, hc, hslot.2] at hs
  subst hs
  exact ⟨rfl, rfl, hslot.1⟩

/-! ## V-tie: soundness of the trace monitor -/

open NetVerif.Model.ChanSemMonitor in
/-- Every listener trace the monitor accepts has at most `n` accepted-and-unclosed connections
at every prefix. -/
theorem listener_monitor_sound (n : Nat) (es : List LEv) (m' : LMon)
    (h : ({ limit := n } : LMon).run es = .ok m') :
    ∀ pre suf, es = pre ++ suf → (openOf [] pre).length ≤ n :=
  NetVerif.Proofs.MonitorSound.listener_monitor_sound n es m' h

/-! ## Non-vacuity -/

def runSteps (c : LConfig) : List (Nat × LAct) → Option LConfig
  | [] => some c
  | (i, a) :: r => match c.step listen i a with
    | some c' => runSteps c' r
    | none => none

theorem reachable_runSteps {c c' : LConfig} (steps : List (Nat × LAct)) (h : LReachable listen c)
    (hr : runSteps c steps = some c') : LReachable listen c' := by
  induction steps generalizing c with
  | nil => simp [runSteps] at hr; subst hr; exact h
  | cons s r ih =>
    obtain ⟨i, a⟩ := s
    simp only [runSteps] at hr
    split at hr
    · rename_i c1 hs; exact ih (LReachable.step h hs) hr
    · simp at hr

/-- A reachable configuration with limit 1 in which one connection is accepted and unclosed
(goroutine 0 called Accept: acquire, wrapped Accept, return) and goroutine 1 has called Accept and
now sits at the `acquire` select with the semaphore full. -/
def demoSteps : List (Nat × LAct) :=
  [(0, .call .accept), (0, .stmt 1), (0, .stmt 1), (0, .stmt 0), (0, .stmt 0), (1, .call .accept)]

example : ∃ c, LReachable listen c ∧ openConns c = 1 ∧ c.n = 1 ∧ (c.σ .sem).len = 1 := by
  have hs : (runSteps (LConfig.init listen 1 2) demoSteps).isSome = true := by rfl
  refine ⟨(runSteps (LConfig.init listen 1 2) demoSteps).get hs, ?_, by rfl, by rfl, by rfl⟩
  exact reachable_runSteps demoSteps (LReachable.init 1 2) (Option.some_get hs).symm

end NetVerif.Proofs.C58
