import NetVerif.Model.Dns
import NetVerif.Gen.C36
import NetVerif.Proofs.Lemmas.Dns
import NetVerif.Proofs.Lemmas.DnsNames
import NetVerif.Proofs.Lemmas.DnsMsg
/-!
C36 — DNS messages round-trip through Pack/Unpack and the Builder: message level.
(T-tie, header and name-level theorems of this property are in `Lemmas/DnsNames.lean`, the
per-record lemmas in `Lemmas/DnsMsg.lean`; all in namespace `NetVerif.Proofs.C36`/`DnsMsg`.)

For every well-formed message `m` (canonical names, integer fields within their Go types,
4/16-byte addresses, unknown bodies under types without a decoder; every record type of the
package: A, AAAA, NS, CNAME, PTR, MX, TXT, SOA, SRV, OPT, SVCB, HTTPS, unknown), with and
without compression (`Message.Pack`, Builder with and without `EnableCompression`):
`Unpack (pack m) = m` (`m` with the `Type`/`Length` header fields that packing fills in).
Before the `ptr-depth` repair (`Name.pack` now asks `compressionDepth` before it emits a
pointer) this was false with compression; the old witness `deepMessage` is kept as an example.
-/
namespace NetVerif.Proofs.C36
open NetVerif NetVerif.Model.Dns NetVerif.Proofs.Dns NetVerif.Proofs.DnsMsg

/-- C36, full strength, for either packer: whenever packing returns bytes, unpacking them
returns the message. -/
def MessageStatement : Prop :=
  ∀ (m : Message) (comp : Option CompMap) (bytes : Bytes), (comp = none ∨ comp = some []) →
    WFMessage m → packMessageWith m comp = .ok bytes →
    ∃ l1 l2 l3, l1.length = m.answers.length ∧ l2.length = m.authorities.length ∧
      l3.length = m.additionals.length ∧ unpackMessage bytes = .ok (normMessage m l1 l2 l3)

/-- **Round trip**, with compression (`Message.Pack`, Builder + `EnableCompression`: `some []`)
and without (`none`). -/
theorem message_holds : MessageStatement :=
  fun m comp bytes hcomp hwf hp => packMessage_spec m comp bytes hcomp hwf hp

/-- `Unpack (Pack m) = m`. -/
theorem message_roundtrip (m : Message) (bytes : Bytes) (hwf : WFMessage m)
    (hp : packMessage m = .ok bytes) :
    ∃ l1 l2 l3, l1.length = m.answers.length ∧ l2.length = m.authorities.length ∧
      l3.length = m.additionals.length ∧ unpackMessage bytes = .ok (normMessage m l1 l2 l3) :=
  packMessage_spec m (some []) bytes (Or.inr rfl) hwf hp

/-- The Builder without `EnableCompression`. -/
theorem message_roundtrip_nocomp (m : Message) (bytes : Bytes) (hwf : WFMessage m)
    (hp : packMessageWith m none = .ok bytes) :
    ∃ l1 l2 l3, l1.length = m.answers.length ∧ l2.length = m.authorities.length ∧
      l3.length = m.additionals.length ∧ unpackMessage bytes = .ok (normMessage m l1 l2 l3) :=
  packMessage_spec m none bytes (Or.inl rfl) hwf hp

/-- **Builder with and without compression** decode to the same message (same header, questions,
record names, classes, TTLs and bodies; only the `Length` header fields, which count packed
bytes, may differ). -/
theorem builder_compression_same_message (m : Message) (b0 b1 : Bytes) (hwf : WFMessage m)
    (h0 : packMessageWith m none = .ok b0) (h1 : packMessageWith m (some []) = .ok b1) :
    ∃ l1 l2 l3 k1 k2 k3, unpackMessage b0 = .ok (normMessage m l1 l2 l3) ∧
      unpackMessage b1 = .ok (normMessage m k1 k2 k3) := by
  rcases message_roundtrip_nocomp m b0 hwf h0 with ⟨l1, l2, l3, _, _, _, hu0⟩
  rcases message_roundtrip m b1 hwf h1 with ⟨k1, k2, k3, _, _, _, hu1⟩
  exact ⟨l1, l2, l3, k1, k2, k3, hu0, hu1⟩

/-- Old witness of finding `ptr-depth` at message level: twelve questions "a.", "a.a.", … -/
def deepMessage : Message :=
  { hdr := { id := 0, response := false, opCode := 0, authoritative := false, truncated := false,
             recursionDesired := false, recursionAvailable := false, authenticData := false,
             checkingDisabled := false, rCode := 0 },
    questions := deepNames.map (fun p => { name := p.2, typ := 1, cls := 1 }),
    answers := [], authorities := [], additionals := [] }

theorem deepMessage_wf : WFMessage deepMessage := by
  refine ⟨by decide, by decide, by decide, ?_, by simp [deepMessage], by simp [deepMessage], by simp [deepMessage]⟩
  intro q hq
  simp only [deepMessage, List.mem_map] at hq
  rcases hq with ⟨p, hp, rfl⟩
  exact ⟨deepNames_canonical p hp, by simp, by simp⟩

/-- The old witness now round-trips through `Message.Pack` (compression on) … -/
theorem deepMessage_ok :
    ∃ bytes, packMessage deepMessage = .ok bytes ∧ unpackMessage bytes = .ok deepMessage := by
  refine ⟨(packMessage deepMessage).toOption.getD [], ?_, ?_⟩ <;> decide +kernel

/-- … and through the Builder without compression. -/
theorem deepMessage_nocomp_ok :
    ∃ bytes, packMessageWith deepMessage none = .ok bytes ∧ unpackMessage bytes = .ok deepMessage := by
  refine ⟨(packMessageWith deepMessage none).toOption.getD [], ?_, ?_⟩ <;> decide +kernel

example : ∃ bytes, packMessage deepMessage = .ok bytes := ⟨_, deepMessage_ok.choose_spec.1⟩

end NetVerif.Proofs.C36
