import NetVerif.Model.Dns
import NetVerif.Gen.C36
import NetVerif.Proofs.Lemmas.Dns
import NetVerif.Proofs.Lemmas.DnsNames
import NetVerif.Proofs.Lemmas.DnsMsg
import NetVerif.Proofs.Lemmas.DnsBuilder
/-!
C36 — DNS messages round-trip through Pack/Unpack and the Builder: message level.
(T-tie, header and name-level theorems of this property are in `Lemmas/DnsNames.lean`, the
per-record lemmas in `Lemmas/DnsMsg.lean`; all in namespace `NetVerif.Proofs.C36`/`DnsMsg`.)

For every well-formed message `m` (canonical names, integer fields within their Go types,
4/16-byte addresses, unknown bodies under types without a decoder; every record type of the
package: A, AAAA, NS, CNAME, PTR, MX, TXT, SOA, SRV, OPT, SVCB, HTTPS, unknown), with and
without compression (`Message.Pack`, Builder with and without `EnableCompression`):
`Unpack (pack m) = m` (`m` with the `Type`/`Length` header fields that packing fills in).
Before the `ptr-depth` repair (`Name.pack` now asks `compressionDepth` before it emits a
pointer) this was false with compression; the old witness `deepMessage` is kept as an example.
-/
namespace NetVerif.Proofs.C36
open NetVerif NetVerif.Model.Dns NetVerif.Proofs.Dns NetVerif.Proofs.DnsMsg NetVerif.Proofs.DnsBuilder

/-- C36, full strength, for either packer: whenever packing returns bytes, unpacking them
returns the message. -/
def MessageStatement : Prop :=
  ∀ (m : Message) (comp : Option CompMap) (bytes : Bytes), (comp = none ∨ comp = some []) →
    WFMessage m → packMessageWith m comp = .ok bytes →
    ∃ l1 l2 l3, l1.length = m.answers.length ∧ l2.length = m.authorities.length ∧
      l3.length = m.additionals.length ∧ unpackMessage bytes = .ok (normMessage m l1 l2 l3)

/-- **Round trip**, with compression (`Message.Pack`, Builder + `EnableCompression`: `some []`)
and without (`none`). -/
theorem message_holds : MessageStatement :=
  fun m comp bytes hcomp hwf hp => packMessage_spec m comp bytes hcomp hwf hp

/-- `Unpack (Pack m) = m`. -/
theorem message_roundtrip (m : Message) (bytes : Bytes) (hwf : WFMessage m)
    (hp : packMessage m = .ok bytes) :
    ∃ l1 l2 l3, l1.length = m.answers.length ∧ l2.length = m.authorities.length ∧
      l3.length = m.additionals.length ∧ unpackMessage bytes = .ok (normMessage m l1 l2 l3) :=
  packMessage_spec m (some []) bytes (Or.inr rfl) hwf hp

/-- The Builder without `EnableCompression`. -/
theorem message_roundtrip_nocomp (m : Message) (bytes : Bytes) (hwf : WFMessage m)
    (hp : packMessageWith m none = .ok bytes) :
    ∃ l1 l2 l3, l1.length = m.answers.length ∧ l2.length = m.authorities.length ∧
      l3.length = m.additionals.length ∧ unpackMessage bytes = .ok (normMessage m l1 l2 l3) :=
  packMessage_spec m none bytes (Or.inl rfl) hwf hp

/-- **Builder with and without compression** decode to the same message (same header, questions,
record names, classes, TTLs and bodies; only the `Length` header fields, which count packed
bytes, may differ). -/
theorem builder_compression_same_message (m : Message) (b0 b1 : Bytes) (hwf : WFMessage m)
    (h0 : packMessageWith m none = .ok b0) (h1 : packMessageWith m (some []) = .ok b1) :
    ∃ l1 l2 l3 k1 k2 k3, unpackMessage b0 = .ok (normMessage m l1 l2 l3) ∧
      unpackMessage b1 = .ok (normMessage m k1 k2 k3) := by
  rcases message_roundtrip_nocomp m b0 hwf h0 with ⟨l1, l2, l3, _, _, _, hu0⟩
  rcases message_roundtrip m b1 hwf h1 with ⟨k1, k2, k3, _, _, _, hu1⟩
  exact ⟨l1, l2, l3, k1, k2, k3, hu0, hu1⟩

/-- Old witness of finding `ptr-depth` at message level: twelve questions "a.", "a.a.", … -/
def deepMessage : Message :=
  { hdr := { id := 0, response := false, opCode := 0, authoritative := false, truncated := false,
             recursionDesired := false, recursionAvailable := false, authenticData := false,
             checkingDisabled := false, rCode := 0 },
    questions := deepNames.map (fun p => { name := p.2, typ := 1, cls := 1 }),
    answers := [], authorities := [], additionals := [] }

theorem deepMessage_wf : WFMessage deepMessage := by
  refine ⟨by decide, by decide, by decide, ?_, by simp [deepMessage], by simp [deepMessage], by simp [deepMessage]⟩
  intro q hq
  simp only [deepMessage, List.mem_map] at hq
  rcases hq with ⟨p, hp, rfl⟩
  exact ⟨deepNames_canonical p hp, by simp, by simp⟩

/-- The old witness now round-trips through `Message.Pack` (compression on) … -/
theorem deepMessage_ok :
    ∃ bytes, packMessage deepMessage = .ok bytes ∧ unpackMessage bytes = .ok deepMessage := by
  refine ⟨(packMessage deepMessage).toOption.getD [], ?_, ?_⟩ <;> decide +kernel

/-- … and through the Builder without compression. -/
theorem deepMessage_nocomp_ok :
    ∃ bytes, packMessageWith deepMessage none = .ok bytes ∧ unpackMessage bytes = .ok deepMessage := by
  refine ⟨(packMessageWith deepMessage none).toOption.getD [], ?_, ?_⟩ <;> decide +kernel

example : ∃ bytes, packMessage deepMessage = .ok bytes := ⟨_, deepMessage_ok.choose_spec.1⟩

/-! ## The Builder -/

/-- **"Building the same message with a Builder"**: for every accepted call sequence (every call
returned nil; `EnableCompression`, if at all, before the first record; records well formed) the
bytes `Finish` returns are exactly the bytes `Message.Pack` (with compression) resp.
`AppendPack` without the map (without) produces for the message the calls describe … -/
theorem builder_bytes_eq_pack (h : Header) (compress : Bool) (ops : List BOp)
    (hops : ∀ op ∈ ops, op ≠ .enableCompression ∧ WFOp op)
    (hacc : ∀ e ∈ ((startBuilder h compress).run ops).2, e = none) :
    packMessageWith (describe h ops) (startComp compress) =
      .ok ((startBuilder h compress).run ops).1.bytes :=
  builder_eq_pack h compress ops hops hacc

/-- … hence they unpack to that message, with and without compression. -/
theorem builder_roundtrip (h : Header) (compress : Bool) (ops : List BOp)
    (hh : h.id < 65536 ∧ h.opCode < 16 ∧ h.rCode < 16)
    (hops : ∀ op ∈ ops, op ≠ .enableCompression ∧ WFOp op)
    (hacc : ∀ e ∈ ((startBuilder h compress).run ops).2, e = none) :
    ∃ l1 l2 l3, unpackMessage ((startBuilder h compress).run ops).1.bytes =
      .ok (normMessage (describe h ops) l1 l2 l3) := by
  rcases builder_describe_wf h compress ops hops hacc with ⟨hhdr, hwf⟩
  have hm : WFMessage (describe h ops) := by
    refine ⟨by rw [hhdr]; exact hh.1, by rw [hhdr]; exact hh.2.1, by rw [hhdr]; exact hh.2.2, ?_, ?_, ?_, ?_⟩
    · intro q hq; exact hwf (.q q) (by simp [recs, hq])
    · intro r hr; exact hwf (.r r) (by simp [recs, hr])
    · intro r hr; exact hwf (.r r) (by simp [recs, hr])
    · intro r hr; exact hwf (.r r) (by simp [recs, hr])
  have hcomp : startComp compress = none ∨ startComp compress = some [] := by
    cases compress <;> simp [startComp]
  rcases message_holds (describe h ops) (startComp compress) _ hcomp hm
    (builder_eq_pack h compress ops hops hacc) with ⟨l1, l2, l3, _, _, _, hu⟩
  exact ⟨l1, l2, l3, hu⟩

/-- **A failed call** changes nothing but (possibly) the compression map. -/
theorem builder_failed_call (b : Builder) (op : BOp) (h : (b.step op).2 ≠ none) :
    (b.step op).1.msg = b.msg ∧ (b.step op).1.sec = b.sec ∧ (b.step op).1.id = b.id ∧
    (b.step op).1.bits = b.bits ∧ (b.step op).1.nq = b.nq ∧ (b.step op).1.na = b.na ∧
    (b.step op).1.nu = b.nu ∧ (b.step op).1.nr = b.nr :=
  step_failed b op h

/-- The stale-map quirk, precisely: `Name.pack` has already entered the suffixes of the header name
of the failed record ("foo.example." at 12, "example." at 16) into the map when the body fails
(a 256-byte TXT string); the bytes are discarded, the entries are not. The next record
"bar.example." is then compressed against offset 16 - which now holds that record's own pointer:
the Builder returns, without any error, a message that does not unpack. -/
def zeroHeader : Header :=
  { id := 7, response := false, opCode := 0, authoritative := false, truncated := false,
    recursionDesired := false, recursionAvailable := false, authenticData := false,
    checkingDisabled := false, rCode := 0 }

def staleOps : List BOp :=
  [.start 3,
   .resource { hdr := { name := [102,111,111,46,101,120,97,109,112,108,101,46], typ := 0, cls := 1, ttl := 0, length := 0 },
               body := .txt [List.replicate 256 65] },
   .resource { hdr := { name := [98,97,114,46,101,120,97,109,112,108,101,46], typ := 0, cls := 1, ttl := 60, length := 0 },
               body := .a [1, 2, 3, 4] },
   .finish]

theorem stale_map_quirk :
    ((startBuilder zeroHeader true).run staleOps).2 = [none, some .stringTooLong, none, none] ∧
    unpackMessage ((startBuilder zeroHeader true).run staleOps).1.bytes = .error .tooManyPtr := by
  constructor <;> decide +kernel

/-- Known finding `header-4bit-overflow` (literal): without the hypothesis `rCode < 16` the header
round trip fails - RCode 16 (BADVERS) comes back as RCode 0 with CheckingDisabled set. -/
theorem header_overflow_false :
    headerOfBits zeroHeader.id ({ zeroHeader with rCode := 16 } : Header).bits ≠ { zeroHeader with rCode := 16 } := by
  decide

end NetVerif.Proofs.C36
