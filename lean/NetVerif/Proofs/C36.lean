import NetVerif.Model.Dns
import NetVerif.Gen.C36
/-!
C36 — DNS messages round-trip through Pack/Unpack and the Builder.
-/
namespace NetVerif.Proofs.C36
open NetVerif NetVerif.Model.Dns

/-- T-tie: the constants and limits regenerated from message.go are the model's. -/
theorem gen_constants_eq :
    Gen.C36.typeA = typeA ∧ Gen.C36.typeNS = typeNS ∧ Gen.C36.typeCNAME = typeCNAME ∧
    Gen.C36.typeSOA = typeSOA ∧ Gen.C36.typePTR = typePTR ∧ Gen.C36.typeMX = typeMX ∧
    Gen.C36.typeTXT = typeTXT ∧ Gen.C36.typeAAAA = typeAAAA ∧ Gen.C36.typeSRV = typeSRV ∧
    Gen.C36.typeOPT = typeOPT ∧ Gen.C36.typeSVCB = typeSVCB ∧ Gen.C36.typeHTTPS = typeHTTPS ∧
    Gen.C36.headerLen = headerLen ∧ Gen.C36.nonEncodedNameMax = nameMax ∧
    Gen.C36.ptrLimit = ptrLimit ∧ Gen.C36.segLimit = segLimit ∧ Gen.C36.maxPtr = maxPtr ∧
    Gen.C36.textMax = textMax ∧ Gen.C36.uint16Len = 2 ∧ Gen.C36.uint32Len = 4 := by
  decide

end NetVerif.Proofs.C36
