import NetVerif.Model.Dns
import NetVerif.Gen.C36
import NetVerif.Proofs.Lemmas.Dns
import NetVerif.Proofs.Lemmas.DnsNames
import NetVerif.Proofs.Lemmas.DnsMsg
/-!
C36 — DNS messages round-trip through Pack/Unpack and the Builder: message level.
(T-tie, header and name-level theorems of this property are in `Lemmas/DnsNames.lean`, the
per-record lemmas in `Lemmas/DnsMsg.lean`; all in namespace `NetVerif.Proofs.C36`/`DnsMsg`.)

For every well-formed message `m` (canonical names, integer fields within their Go types,
4/16-byte addresses, unknown bodies under types without a decoder; every record type of the
package: A, AAAA, NS, CNAME, PTR, MX, TXT, SOA, SRV, OPT, SVCB, HTTPS, unknown):
* without compression (the Builder's default) `Unpack (pack m) = m` exactly (`m` with the
  `Type`/`Length` header fields that packing fills in);
* with compression (`Message.Pack`, Builder + `EnableCompression`) the same holds unless
  `Name.unpack` hits its pointer budget: the full statement is FALSE for the code as it is
  (`message_full_false`, finding `ptr-depth`), `message_holds_partial` is what holds.
-/
namespace NetVerif.Proofs.C36
open NetVerif NetVerif.Model.Dns NetVerif.Proofs.Dns NetVerif.Proofs.DnsMsg

/-- **Round trip without compression** (Builder without `EnableCompression`): whenever packing
returns bytes, unpacking them returns the message. -/
theorem message_roundtrip_nocomp (m : Message) (bytes : Bytes) (hwf : WFMessage m)
    (hp : packMessageWith m none = .ok bytes) :
    ∃ l1 l2 l3, l1.length = m.answers.length ∧ l2.length = m.authorities.length ∧
      l3.length = m.additionals.length ∧ unpackMessage bytes = .ok (normMessage m l1 l2 l3) := by
  rcases packMessage_spec m none bytes (Or.inl rfl) hwf hp with ⟨l1, l2, l3, h1, h2, h3, h⟩
  refine ⟨l1, l2, l3, h1, h2, h3, ?_⟩
  rcases h with h | ⟨hs, _⟩
  · exact h
  · simp at hs

/-- C36 for `Message.Pack` (compression always on), full strength. FALSE (`message_full_false`). -/
def MessageStatement : Prop :=
  ∀ (m : Message) (bytes : Bytes), WFMessage m → packMessage m = .ok bytes →
    ∃ l1 l2 l3, unpackMessage bytes = .ok (normMessage m l1 l2 l3)

/-- **Round trip with compression, what holds**: `Unpack (Pack m)` is `m`, or `Unpack` fails
with `errTooManyPtr` (the excluded region: a decidable predicate on the packed bytes). -/
theorem message_holds_partial (m : Message) (bytes : Bytes) (hwf : WFMessage m)
    (hp : packMessage m = .ok bytes) :
    (∃ l1 l2 l3, l1.length = m.answers.length ∧ l2.length = m.authorities.length ∧
      l3.length = m.additionals.length ∧ unpackMessage bytes = .ok (normMessage m l1 l2 l3)) ∨
    unpackMessage bytes = .error .tooManyPtr := by
  rcases packMessage_spec m (some []) bytes (Or.inr rfl) hwf hp with ⟨l1, l2, l3, h1, h2, h3, h⟩
  rcases h with h | ⟨_, h⟩
  · exact Or.inl ⟨l1, l2, l3, h1, h2, h3, h⟩
  · exact Or.inr h

/-- **Builder with and without compression** decode to the same message (same header, questions,
record names, classes, TTLs and bodies; only the `Length` header fields, which count packed
bytes, may differ) - again up to the pointer budget. -/
theorem builder_compression_same_message (m : Message) (b0 b1 : Bytes) (hwf : WFMessage m)
    (h0 : packMessageWith m none = .ok b0) (h1 : packMessageWith m (some []) = .ok b1) :
    ∃ l1 l2 l3 k1 k2 k3, unpackMessage b0 = .ok (normMessage m l1 l2 l3) ∧
      (unpackMessage b1 = .ok (normMessage m k1 k2 k3) ∨ unpackMessage b1 = .error .tooManyPtr) := by
  rcases message_roundtrip_nocomp m b0 hwf h0 with ⟨l1, l2, l3, _, _, _, hu0⟩
  rcases packMessage_spec m (some []) b1 (Or.inr rfl) hwf h1 with ⟨k1, k2, k3, _, _, _, h⟩
  refine ⟨l1, l2, l3, k1, k2, k3, hu0, ?_⟩
  rcases h with h | ⟨_, h⟩
  · exact Or.inl h
  · exact Or.inr h

/-- Witness of the finding at message level: twelve questions "a.", "a.a.", … -/
def deepMessage : Message :=
  { hdr := { id := 0, response := false, opCode := 0, authoritative := false, truncated := false,
             recursionDesired := false, recursionAvailable := false, authenticData := false,
             checkingDisabled := false, rCode := 0 },
    questions := deepNames.map (fun p => { name := p.2, typ := 1, cls := 1 }),
    answers := [], authorities := [], additionals := [] }

theorem deepMessage_wf : WFMessage deepMessage := by
  refine ⟨by decide, by decide, by decide, ?_, by simp [deepMessage], by simp [deepMessage], by simp [deepMessage]⟩
  intro q hq
  simp only [deepMessage, List.mem_map] at hq
  rcases hq with ⟨p, hp, rfl⟩
  exact ⟨deepNames_canonical p hp, by simp, by simp⟩

theorem deepMessage_fails :
    ∃ bytes, packMessage deepMessage = .ok bytes ∧ unpackMessage bytes = .error .tooManyPtr := by
  refine ⟨(packMessage deepMessage).toOption.getD [], ?_, ?_⟩ <;> decide

/-- **Finding `ptr-depth`** at message level. -/
theorem message_full_false : ¬ MessageStatement := by
  intro h
  rcases deepMessage_fails with ⟨bytes, hp, hu⟩
  rcases h deepMessage bytes deepMessage_wf hp with ⟨l1, l2, l3, hok⟩
  rw [hu] at hok
  cases hok

/-- The same message goes through when built without compression (non-vacuity of
`message_roundtrip_nocomp`, and the Builder default is not affected by the finding). -/
theorem deepMessage_nocomp_ok :
    ∃ bytes, packMessageWith deepMessage none = .ok bytes ∧ unpackMessage bytes = .ok deepMessage := by
  refine ⟨(packMessageWith deepMessage none).toOption.getD [], ?_, ?_⟩ <;> decide +kernel

end NetVerif.Proofs.C36
