import NetVerif.Model.H2Client
/-! # C18 — HTTP/2 client GOAWAY handling (first theorems; grown below) -/
namespace NetVerif.Proofs.C18
open NetVerif.Model.H2Client

/-- `setGoAway` leaves a stream alone exactly when the server's last-stream-id covers it. -/
theorem classify_keep_iff (last code id : Nat) : classify last code id = .keep ↔ id ≤ last := by
  unfold classify
  split
  · simp [*]
  · split <;> simp [*]

end NetVerif.Proofs.C18
