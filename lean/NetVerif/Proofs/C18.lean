import NetVerif.Model.H2Client
import NetVerif.Proofs.C17
/-!
# C18 — HTTP/2 client GOAWAY handling

Part 1: the mechanism (`setGoAway` classification, `canRetryError` / `shouldRetryRequest`,
the retry loop of `roundTripViaPool`, no new stream after GOAWAY for all histories).
Part 2: soundness of the trace monitor `accepts18`.
-/
namespace NetVerif.Proofs.C18
open NetVerif.Model.H2Client
open NetVerif.Proofs.C17 (step run Act)

/-! ## Part 1: mechanism -/

/-- `setGoAway` leaves a stream alone exactly when the server's last-stream-id covers it. -/
theorem classify_keep_iff (last code id : Nat) : classify last code id = .keep ↔ id ≤ last := by
  unfold classify
  by_cases h1 : id ≤ last
  · rw [if_pos h1]
    exact ⟨fun _ => h1, fun _ => rfl⟩
  · rw [if_neg h1]
    by_cases h2 : id = 1 ∧ code ≠ 0
    · rw [if_pos h2]
      constructor
      · intro h; cases h
      · intro h; exact absurd h h1
    · rw [if_neg h2]
      constructor
      · intro h; cases h
      · intro h; exact absurd h h1

theorem classify_failFirst_iff (last code id : Nat) :
    classify last code id = .failFirst ↔ last < id ∧ id = 1 ∧ code ≠ 0 := by
  unfold classify
  by_cases h1 : id ≤ last
  · rw [if_pos h1]
    constructor
    · intro h; cases h
    · intro h; omega
  · rw [if_neg h1]
    by_cases h2 : id = 1 ∧ code ≠ 0
    · rw [if_pos h2]
      exact ⟨fun _ => ⟨by omega, h2⟩, fun _ => rfl⟩
    · rw [if_neg h2]
      constructor
      · intro h; cases h
      · intro h; exact absurd h.2 h2

theorem classify_retryable_iff (last code id : Nat) :
    classify last code id = .retryable ↔ last < id ∧ ¬(id = 1 ∧ code ≠ 0) := by
  unfold classify
  by_cases h1 : id ≤ last
  · rw [if_pos h1]
    constructor
    · intro h; cases h
    · intro h; omega
  · rw [if_neg h1]
    by_cases h2 : id = 1 ∧ code ≠ 0
    · rw [if_pos h2]
      constructor
      · intro h; cases h
      · intro h; exact absurd h2 h.2
    · rw [if_neg h2]
      exact ⟨fun _ => ⟨by omega, h2⟩, fun _ => rfl⟩

/-- Every in-flight stream gets exactly one verdict: the verdict list of `setGoAway` is
`cc.streams` itself, each paired with the value of the total function `classify`. -/
theorem setGoAway_one_verdict_per_stream (c : CC) (last code : Nat) :
    (c.setGoAway last code).2.map Prod.fst = c.streams ∧
    ∀ p ∈ (c.setGoAway last code).2, p.2 = classify last (mergeCode c code) p.1 := by
  constructor
  · simp [CC.setGoAway, List.map_map, Function.comp_def]
  · intro p hp
    simp [CC.setGoAway] at hp
    obtain ⟨id, _, rfl⟩ := hp
    rfl

/-- The literal statement of C18 for the streams above last-stream-id. -/
def AllAboveLastRetryable : Prop :=
  ∀ last code id : Nat, last < id → classify last code id = .retryable

/-- It is false of the code as it is: stream 1 with a non-NO error code is failed, not retried
(by design, see the comment in `setGoAway`). Witness: GOAWAY(last = 0, code = 2), stream 1. -/
theorem full_false : ¬ AllAboveLastRetryable := by
  intro h
  have := h 0 2 1 (by omega)
  simp [classify] at this

/-- Outside that region the statement holds. -/
theorem holds_partial (last code id : Nat) (h : last < id) (hx : ¬(id = 1 ∧ code ≠ 0)) :
    classify last code id = .retryable :=
  (classify_retryable_iff last code id).mpr ⟨h, hx⟩

/-- `errClientConnGotGoAway` is retryable; the request is replayed unless it has a body that
cannot be re-obtained. -/
theorem gotGoAway_retry_iff (b : BodyK) : shouldRetry b .gotGoAway = true ↔ b ≠ .once := by
  cases b <;> simp [shouldRetry, canRetryError]

theorem unusable_always_retried (b : BodyK) : shouldRetry b .unusable = true := by
  cases b <;> simp [shouldRetry, canRetryError]

theorem other_never_retried (b : BodyK) : shouldRetry b .other = false := by
  cases b <;> simp [shouldRetry, canRetryError]

/-- The loop of `roundTripViaPool`: one attempt per element of `outs` (`none` = a response or
a final error from the pool), continuing only after a retryable failure and `retry <= 6`.
Returns the number of attempts made. -/
def attempts (b : BodyK) : Nat → List (Option ErrK) → Nat
  | _, [] => 0
  | retry, o :: rest =>
    1 + (match o with
         | some e => if retry ≤ 6 ∧ shouldRetry b e = true then attempts b (retry + 1) rest else 0
         | none => 0)

def retryableCount (b : BodyK) (outs : List (Option ErrK)) : Nat :=
  (outs.filter (fun o => match o with | some e => shouldRetry b e | none => false)).length

/-- A request is sent at most once more per retryable failure ... -/
theorem attempts_le_retryable (b : BodyK) (retry : Nat) (outs : List (Option ErrK)) :
    attempts b retry outs ≤ 1 + retryableCount b outs := by
  induction outs generalizing retry with
  | nil => simp [attempts]
  | cons o rest ih =>
    simp only [attempts]
    cases o with
    | none => simp
    | some e =>
      by_cases h : retry ≤ 6 ∧ shouldRetry b e = true
      · have ih' := ih (retry + 1)
        have hf : retryableCount b (some e :: rest) = retryableCount b rest + 1 := by
          simp [retryableCount, h.2]
        dsimp only
        rw [if_pos h, hf]
        omega
      · dsimp only
        rw [if_neg h]
        omega

/-- ... and at most 8 times in all. -/
theorem attempts_bounded (b : BodyK) (retry : Nat) (outs : List (Option ErrK)) :
    attempts b retry outs ≤ 8 - retry ∨ attempts b retry outs ≤ 1 := by
  induction outs generalizing retry with
  | nil => right; simp [attempts]
  | cons o rest ih =>
    simp only [attempts]
    cases o with
    | none => right; simp
    | some e =>
      by_cases h : retry ≤ 6 ∧ shouldRetry b e = true
      · simp only [h, and_self, if_true]
        rcases ih (retry + 1) with h1 | h1
        · left; omega
        · left; omega
      · right; simp [h]

/-- After GOAWAY the connection opens no stream: `awaitOpenSlotForStreamLocked` never returns nil. -/
theorem goaway_blocks_open (c : CC) (h : c.goAway = true) : step c .openStream = none := by
  simp only [step]
  split
  · rename_i hgo
    exfalso
    have hcl := C17.await_go_not_closed c hgo
    unfold CC.await at hgo
    simp [hcl] at hgo
    split at hgo
    · cases hgo
    · rename_i hidle
      simp at hidle
      unfold CC.idleCanTake at hidle
      simp [CC.isUsable, h, hcl] at hidle
  · rfl

theorem step_goAway_sticky (c c' : CC) (a : Act) (hs : step c a = some c') (h : c.goAway = true) :
    c'.goAway = true := by
  cases a <;> simp [step] at hs
  case reserve => subst hs; unfold CC.reserve; split <;> simp [h]
  case enter => subst hs; simpa [CC.decrReservation] using h
  case release => subst hs; simpa [CC.decrReservation] using h
  case openStream => obtain ⟨_, hs⟩ := hs; subst hs; simpa [CC.addStream] using h
  case forget => subst hs; simpa [CC.forget] using h
  case cancelReset id => subst hs; unfold CC.noteCancelReset CC.forget; split <;> simp [h]
  case settings m =>
    subst hs; unfold CC.settings
    cases m with
    | none => simp only; split <;> simp [h]
    | some v => simp [h]
  case pingAck => subst hs; unfold CC.pingAck; split <;> simp [h]
  case frameRead => subst hs; simpa [CC.frameRead] using h
  case goAway => subst hs; simp [CC.setGoAway]
  case close => subst hs; simpa using h
  case doNotReuse => subst hs; simpa using h

/-- C18, first clause, for all histories: once GOAWAY has been processed, no stream is opened on
that connection whatever happens afterwards (the log of opened IDs stays empty). -/
theorem no_stream_after_goaway (c : CC) (h : c.goAway = true) (acts : List Act) (c' : CC)
    (log : List Nat) (hr : run c acts = some (c', log)) : log = [] := by
  induction acts generalizing c c' log with
  | nil => simp [run] at hr; exact hr.2
  | cons a as ih =>
    simp only [run] at hr
    split at hr
    · cases hr
    · rename_i c1 hs
      split at hr
      · cases hr
      · rename_i c2 log2 hr2
        have hg := step_goAway_sticky c c1 a hs h
        have hl := ih c1 hg c2 log2 hr2
        simp only [Option.some.injEq, Prod.mk.injEq] at hr
        obtain ⟨_, rfl⟩ := hr
        by_cases ha : a = .openStream
        · subst ha
          rw [goaway_blocks_open c h] at hs
          cases hs
        · simp [ha, hl]

/-- ... in particular right after `setGoAway`. -/
theorem no_stream_after_setGoAway (c : CC) (last code : Nat) (acts : List Act) (c' : CC)
    (log : List Nat) (hr : run (c.setGoAway last code).1 acts = some (c', log)) : log = [] :=
  no_stream_after_goaway _ (by simp [CC.setGoAway]) acts c' log hr

/-- The pool never hands out a connection that has received GOAWAY (unless it is the closed,
never-used kind that fails its one request without opening a stream). -/
theorem goaway_not_selected (c : CC) (h : c.goAway = true) (hr : c.reserve.1 = true) :
    c.nextID = 1 ∧ c.closed = true := by
  unfold CC.reserve at hr
  split at hr
  · rename_i hc
    unfold CC.idleCanTake at hc
    simp [CC.isUsable, h] at hc
    exact ⟨hc.2.1.1.1, hc.2.1.2⟩
  · cases hr

/-! T-tie: the conditions of `setGoAway` / `canRetryError` regenerated from the Go source -/

theorem gen_classify_eq (last code id : Nat) :
    classify last code id =
      if NetVerif.Gen.C17.goAwayKeeps id last then .keep
      else if NetVerif.Gen.C17.goAwayFailsFirst id code then .failFirst else .retryable := by
  unfold classify NetVerif.Gen.C17.goAwayKeeps NetVerif.Gen.C17.goAwayFailsFirst
  by_cases h1 : id ≤ last
  · simp [h1]
  · by_cases h2 : id = 1 ∧ code ≠ 0
    · simp [h2]
    · simp [h1]
      all_goals (intro hid; exact Decidable.byContradiction (fun hc => h2 ⟨hid, hc⟩))

/-- exactly the two sentinel errors the model's `canRetryError` accepts (besides REFUSED_STREAM) -/
theorem gen_retrySentinels_eq :
    NetVerif.Gen.C17.retrySentinels = ["errClientConnUnusable", "errClientConnGotGoAway"] ∧
    canRetryError .unusable = true ∧ canRetryError .gotGoAway = true ∧ canRetryError .other = false := by
  exact ⟨rfl, rfl, rfl, rfl⟩

theorem gen_retryStreamCode_eq : NetVerif.Gen.C17.retryStreamCode = 7 ∧ canRetryError .refusedStream = true :=
  ⟨rfl, rfl⟩

/-! Non-vacuity -/
example : classify 3 0 5 = .retryable := by decide
example : classify 3 0 3 = .keep := by decide
example : classify 0 2 1 = .failFirst := by decide
example : attempts .replayable 0 [some .gotGoAway, some .gotGoAway, none] = 3 := by decide
example : attempts .once 0 [some .gotGoAway, none] = 1 := by decide

/-! ## Part 2: the trace monitor -/

/-- The property of a whole trace: every event passes `check18` in the state reached by the
events before it. -/
def Prop18 (strict : Bool) (tr : List Ev) : Prop :=
  ∀ pre e post, tr = pre ++ e :: post → check18 (specState18 strict pre) e = true

theorem run18_ok (s s' : S18) (tr : List Ev) (h : run18 s tr = .ok s') :
    ∀ pre e post, tr = pre ++ e :: post → check18 (pre.foldl S18.upd s) e = true := by
  induction tr generalizing s with
  | nil => intro pre e post hp; simp at hp
  | cons a as ih =>
    simp only [run18] at h
    split at h
    · rename_i hc
      intro pre e post hp
      cases pre with
      | nil =>
        simp at hp
        obtain ⟨rfl, _⟩ := hp
        simpa using hc
      | cons p ps =>
        simp at hp
        obtain ⟨rfl, rfl⟩ := hp
        simpa using ih (s.upd a) h ps e post rfl
    · cases h

/-- Soundness: an accepted trace satisfies `Prop18`. -/
theorem accepted18_prop (strict : Bool) (tr : List Ev) (h : accepts18 strict tr = true) :
    Prop18 strict tr := by
  unfold accepts18 at h
  split at h
  · rename_i s' hr
    intro pre e post hp
    simpa [specState18] using run18_ok _ s' tr hr pre e post hp
  · cases h

theorem fold_strict (s : S18) (tr : List Ev) : (tr.foldl S18.upd s).strict = s.strict := by
  induction tr generalizing s with
  | nil => rfl
  | cons a as ih => simp [List.foldl_cons, ih, S18.upd]

/-- The monitor's wire component is the specification-level wire state. -/
theorem fold_w (s : S18) (tr : List Ev) (c : Nat) :
    (tr.foldl S18.upd s).w c = tr.foldl (fun w e => w.upd c e) (s.w c) := by
  induction tr generalizing s with
  | nil => rfl
  | cons a as ih => simp [List.foldl_cons, ih, S18.upd]

theorem spec_w (strict : Bool) (tr : List Ev) (c : Nat) :
    (specState18 strict tr).w c = wireState c tr := by
  simp [specState18, wireState, fold_w]

theorem upd_goneAway_sticky (w : WConn) (c : Nat) (e : Ev) (h : w.goneAway = true) :
    (w.upd c e).goneAway = true := by
  cases e <;> simp only [WConn.upd] <;> (try split) <;> simp_all

theorem fold_goneAway_sticky (w : WConn) (c : Nat) (tr : List Ev) (h : w.goneAway = true) :
    (tr.foldl (fun w e => w.upd c e) w).goneAway = true := by
  induction tr generalizing w with
  | nil => exact h
  | cons a as ih => exact ih _ (upd_goneAway_sticky w c a h)

theorem goneAway_of_mem (c last code : Nat) (tr : List Ev) (h : Ev.goaway c last code ∈ tr) :
    (wireState c tr).goneAway = true := by
  obtain ⟨pre, post, rfl⟩ := List.append_of_mem h
  simp only [wireState, List.foldl_append, List.foldl_cons]
  apply fold_goneAway_sticky
  simp [WConn.upd]

/-- C18, first clause on accepted traces: after GOAWAY on a connection no HEADERS opens a new
stream on it ... -/
theorem accepted18_no_stream_after_goaway (strict : Bool) (tr pre post : List Ev)
    (c id r last code : Nat) (es : Bool) (h : accepts18 strict tr = true)
    (hp : tr = pre ++ .hdr c id r es :: post) : Ev.goaway c last code ∉ pre := by
  intro hm
  have hc := accepted18_prop strict tr h pre _ post hp
  have hg := goneAway_of_mem c last code pre hm
  simp only [check18, wireCheck, Bool.and_eq_true, Bool.not_eq_true'] at hc
  have := hc.1.2
  rw [spec_w] at this
  simp [hg] at this

/-- ... and the pool does not select it. -/
theorem accepted18_no_pick_after_goaway (strict : Bool) (tr pre post : List Ev)
    (c r last code : Nat) (f : Bool) (h : accepts18 strict tr = true)
    (hp : tr = pre ++ .pick r c f :: post) : Ev.goaway c last code ∉ pre := by
  intro hm
  have hc := accepted18_prop strict tr h pre _ post hp
  have hg := goneAway_of_mem c last code pre hm
  simp only [check18, wireCheck, Bool.and_eq_true, Bool.not_eq_true'] at hc
  have := hc.1.2
  rw [spec_w] at this
  simp [hg] at this

theorem bump1_conns (rs : Nat → RSt) (l : List Nat) (r : Nat) : (bump rs l r).conns = (rs r).conns := by
  simp only [bump]
  split <;> rfl

/-- the connections recorded for a request only grow -/
theorem upd_conns_mono (s : S18) (e : Ev) (r c : Nat) (h : c ∈ (s.rs r).conns) :
    c ∈ ((s.upd e).rs r).conns := by
  cases e <;> simp only [S18.upd, setAt] <;> (try split) <;> simp_all [bump1_conns]

theorem fold_conns_mono (s : S18) (tr : List Ev) (r c : Nat) (h : c ∈ (s.rs r).conns) :
    c ∈ ((tr.foldl S18.upd s).rs r).conns := by
  induction tr generalizing s with
  | nil => exact h
  | cons a as ih => exact ih _ (upd_conns_mono s a r c h)

/-- C18 on accepted traces: a request is never sent twice on the same connection. -/
theorem accepted18_distinct_conns (strict : Bool) (tr pre mid post : List Ev)
    (c id c' id' r : Nat) (es es' : Bool) (h : accepts18 strict tr = true)
    (hp : tr = pre ++ .hdr c id r es :: (mid ++ .hdr c' id' r es' :: post)) : c ≠ c' := by
  intro hcc
  subst hcc
  have hc := accepted18_prop strict tr h (pre ++ .hdr c id r es :: mid) (.hdr c id' r es') post (by simp [hp])
  simp only [check18, Bool.and_eq_true, Bool.not_eq_true'] at hc
  have hnot := hc.2
  have hin : c ∈ ((specState18 strict (pre ++ .hdr c id r es :: mid)).rs r).conns := by
    simp only [specState18, List.foldl_append, List.foldl_cons]
    apply fold_conns_mono
    simp [S18.upd, setAt]
  simp [List.contains_eq_mem, hin] at hnot

/-- C18 on accepted traces: the pool is asked for a connection for request `r` only while the
request has a selection left: the first one, plus one per abort classified retryable for a
replayable request, plus one per connection that went away under a queued request. -/
theorem accepted18_pick_within_credits (strict : Bool) (tr pre post : List Ev) (r c : Nat) (f : Bool)
    (h : accepts18 strict tr = true) (hp : tr = pre ++ .pick r c f :: post) :
    ((specState18 strict pre).rs r).picks < ((specState18 strict pre).rs r).credits := by
  have hc := accepted18_prop strict tr h pre _ post hp
  simp only [check18, Bool.and_eq_true, decide_eq_true_eq] at hc
  exact hc.2

/-- C18 on accepted traces: at the end of every step nothing is owed — every stream a GOAWAY
did not cover has been abandoned, every replayable request has been handed to the pool again,
every other one has returned the error the classification prescribes. -/
theorem accepted18_step_discharged (strict : Bool) (tr pre post : List Ev)
    (h : accepts18 strict tr = true) (hp : tr = pre ++ .eol :: post) :
    (specState18 strict pre).owe = [] := by
  have hc := accepted18_prop strict tr h pre _ post hp
  simpa [check18] using hc

/-- C18 on accepted traces: a GOAWAY / connection error is returned by RoundTrip only when a
GOAWAY or close classified the request that way (nothing fails silently for another reason). -/
theorem accepted18_errors_explained (strict : Bool) (tr pre post : List Ev) (r : Nat) (k : DoneK)
    (h : accepts18 strict tr = true) (hp : tr = pre ++ .done r k :: post) (hk : errKind k = true) :
    Owe.fail r k ∈ (specState18 strict pre).owe := by
  have hc := accepted18_prop strict tr h pre _ post hp
  simp only [check18, hk, Bool.not_true, Bool.false_or] at hc
  simpa [List.contains_eq_mem] using hc

/-- C18 on accepted traces: streams covered by the GOAWAY of the current step are not reset. -/
theorem accepted18_kept_not_reset (strict : Bool) (tr pre post : List Ev) (c id code : Nat)
    (h : accepts18 strict tr = true) (hp : tr = pre ++ .crst c id code :: post) :
    (c, id) ∉ (specState18 strict pre).keep := by
  have hc := accepted18_prop strict tr h pre _ post hp
  simpa [check18, List.contains_eq_mem] using hc

/-! Non-vacuity: a GOAWAY that aborts one replayable and one non-replayable request. -/
def demo18 : List Ev :=
  [.req 0 .none, .req 1 .once, .pick 0 0 true, .hdr 0 1 0 true, .pick 1 0 false, .hdr 0 3 1 false, .eol,
   .goaway 0 1 0, .crst 0 3 8, .done 1 .noReplay, .eol,
   .goaway 0 0 0, .crst 0 1 8, .pick 0 1 true, .hdr 1 1 0 true, .eol]

example : accepts18 false demo18 = true := by decide
-- the aborted request is dropped (no new selection): rejected at the end of the step
example : accepts18 false [.req 0 .none, .pick 0 0 true, .hdr 0 1 0 true, .eol,
    .goaway 0 0 0, .crst 0 1 8, .eol] = false := by decide
-- a stream is opened after GOAWAY: rejected
example : accepts18 false [.req 0 .none, .req 1 .none, .pick 0 0 true, .hdr 0 1 0 true, .eol,
    .goaway 0 1 0, .eol, .pick 1 0 false] = false := by decide
-- replayed on the same connection: rejected
example : accepts18 false [.req 0 .none, .pick 0 0 true, .hdr 0 1 0 true, .eol,
    .srst 0 1 7, .pick 0 0 false, .hdr 0 3 0 true] = false := by decide

end NetVerif.Proofs.C18
