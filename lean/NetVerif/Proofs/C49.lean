import NetVerif.Model.Bpf
import NetVerif.Model.BpfVM
namespace NetVerif.Proofs.C49
open NetVerif NetVerif.Model.Bpf NetVerif.Model.BpfVM

theorem placeholder : runTyped [.retConstant 7] [] = .ret 7 := by decide

end NetVerif.Proofs.C49
