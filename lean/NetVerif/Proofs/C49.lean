import NetVerif.Model.Bpf
import NetVerif.Model.BpfVM
import NetVerif.Proofs.Lemmas.BpfVM
import NetVerif.Gen.C48
/-!
C49 — the BPF VM computes classic BPF semantics on every packet.

Model: `Model/BpfVM.lean` (`newVM` = NewVM's acceptance, `runTyped` = VM.Run, `runRaw` = reference
classic-BPF interpreter over raw instructions) and `Model/Bpf.lean` (`asmProg` = Assemble).

Proved for ALL programs and ALL packets (no size bounds):
* `run_terminates_safely` — an accepted program made of implemented instructions ends in a return or in
  the `ok = false` halt (result 0): no Go panic, no "unknown Instruction" error, never runs off the end;
* `fuel_sufficient` — fuel = program length is enough for both machines on every program (forward jumps);
* `run_eq_ref_partial` — if moreover every ALU instruction uses one of the ten exported operators, then
  `runTyped p pkt = runRaw (asm p) pkt`.
The statement without the ALU-operator restriction is false on the unchanged code (`full_false`): NewVM
and Assemble do not validate `ALUOp`, Run treats an unknown operator as a no-op, the assembled opcode is
something else (known finding `aluop-unknown`).
-/
namespace NetVerif.Proofs.C49
open NetVerif NetVerif.Model.Bpf NetVerif.Model.BpfVM NetVerif.Proofs.Lemmas.BpfVM

/-- The constants the VM dispatches on are the regenerated constants of constants.go. -/
theorem gen_vm_constants_eq :
    Gen.C48.RegA = regA ∧ Gen.C48.RegX = regX ∧ Gen.C48.ExtLen = extLen ∧
    Gen.C48.ALUOpAdd = aluOpAdd ∧ Gen.C48.ALUOpSub = aluOpSub ∧ Gen.C48.ALUOpMul = aluOpMul ∧
    Gen.C48.ALUOpDiv = aluOpDiv ∧ Gen.C48.ALUOpOr = aluOpOr ∧ Gen.C48.ALUOpAnd = aluOpAnd ∧
    Gen.C48.ALUOpShiftLeft = aluOpShiftLeft ∧ Gen.C48.ALUOpShiftRight = aluOpShiftRight ∧
    Gen.C48.ALUOpMod = aluOpMod ∧ Gen.C48.ALUOpXor = aluOpXor ∧
    Gen.C48.JumpEqual = jumpEqual ∧ Gen.C48.JumpNotEqual = jumpNotEqual ∧
    Gen.C48.JumpGreaterThan = jumpGreaterThan ∧ Gen.C48.JumpLessThan = jumpLessThan ∧
    Gen.C48.JumpGreaterOrEqual = jumpGreaterOrEqual ∧ Gen.C48.JumpLessOrEqual = jumpLessOrEqual ∧
    Gen.C48.JumpBitsSet = jumpBitsSet ∧ Gen.C48.JumpBitsNotSet = jumpBitsNotSet := by
  decide

/-- Fuel = program length suffices, for every program (accepted or not) of either machine. -/
theorem fuel_sufficient (p : List Instr) (rp : List Raw) (pkt : List Nat) :
    runTyped p pkt ≠ .outOfFuel ∧ runRaw rp pkt ≠ .outOfFuel :=
  ⟨runFuel_fuel stepTyped p pkt p.length 0 State.init (by omega),
   runFuel_fuel stepRaw rp pkt rp.length 0 State.init (by omega)⟩

/-- Run terminates without panicking (and without error) on every accepted program that uses only
implemented instructions, for every packet. -/
theorem run_terminates_safely (p : List Instr) (pkt : List Nat) (hvm : newVM p = true)
    (himpl : ∀ i ∈ p, implemented i = true) :
    (∃ v, runTyped p pkt = .ret v) ∨ runTyped p pkt = .halt := by
  have hne := (newVM_parts p hvm).1
  have hpos : 0 < p.length := List.length_pos_iff.mpr hne
  exact run_safe p pkt hvm himpl p.length 0 State.init hpos (by omega)

/-- Per-instruction refinement, exported: one dispatch step of `VM.Run` equals one step of the reference
interpreter on the assembled instruction. -/
theorem step_refines (i : Instr) (r : Raw) (c : Nat) (s : State) (pkt : List Nat)
    (himpl : implemented i = true) (hk : aluKnown i = true)
    (hc : checkInstr c i = true) (ha : asm i = some r) : stepTyped i s pkt = stepRaw r s pkt :=
  step_eq i r c s pkt himpl hk hc ha

/-- C49 on the region the unchanged code satisfies: accepted program, implemented instructions, exported
ALU operators ⇒ Run = reference interpreter on the assembled program (same outcome, in particular the
same verdict), for every packet. Missing for the full statement: unknown `ALUOp` values (`full_false`). -/
theorem run_eq_ref_partial (p : List Instr) (pkt : List Nat) (hvm : newVM p = true)
    (himpl : ∀ i ∈ p, implemented i = true) (hk : ∀ i ∈ p, aluKnown i = true) :
    ∃ rp, asmProg p = some rp ∧ runTyped p pkt = runRaw rp pkt := by
  obtain ⟨_, hchk, _, rp, hasm⟩ := newVM_parts p hvm
  obtain ⟨hlen, hget⟩ := asmProg_get p rp hasm
  refine ⟨rp, hasm, ?_⟩
  unfold runTyped runRaw
  rw [hlen]
  apply runFuel_congr stepTyped stepRaw p rp pkt hlen
  intro pc i hi
  obtain ⟨r, hr, hrp⟩ := hget pc i hi
  have hmem : i ∈ p := List.mem_of_getElem? hi
  exact ⟨r, hrp, fun s => step_eq i r _ s pkt (himpl i hmem) (hk i hmem) (checkAll_get p hchk pc i hi) hr⟩

/-- The reference interpreter accepts the assembled program on that region: it ends in a return or in a
return-0 halt (never an invalid opcode, never off the end). -/
theorem ref_valid_partial (p : List Instr) (pkt : List Nat) (hvm : newVM p = true)
    (himpl : ∀ i ∈ p, implemented i = true) (hk : ∀ i ∈ p, aluKnown i = true) :
    ∃ rp, asmProg p = some rp ∧ ((∃ v, runRaw rp pkt = .ret v) ∨ runRaw rp pkt = .halt) := by
  obtain ⟨rp, h1, h2⟩ := run_eq_ref_partial p pkt hvm himpl hk
  exact ⟨rp, h1, h2 ▸ run_terminates_safely p pkt hvm himpl⟩

/-- C49 as stated: every accepted program without NegateA (and without pass-through RawInstructions). -/
def Statement : Prop :=
  ∀ (p : List Instr) (pkt : List Nat), newVM p = true → (∀ i ∈ p, i.WF ∧ implemented i = true) →
    ((∃ v, runTyped p pkt = .ret v) ∨ runTyped p pkt = .halt) ∧
    ∃ rp, asmProg p = some rp ∧ runTyped p pkt = runRaw rp pkt

/-- Witness: `[LoadConstant A 1, LoadConstant X 2, ALUOpConstant{Op: 8, Val: 5}, RetA]` is accepted; Run
returns 1 (unknown operator = no-op); the program assembles to `ld #1; ldx #2; add x; ret a`, which
returns 3. -/
theorem witness_aluop :
    newVM [.loadConstant 0 1, .loadConstant 1 2, .aluOpConstant 8 5, .retA] = true ∧
    runTyped [.loadConstant 0 1, .loadConstant 1 2, .aluOpConstant 8 5, .retA] [] = .ret 1 ∧
    asmProg [.loadConstant 0 1, .loadConstant 1 2, .aluOpConstant 8 5, .retA] =
      some [⟨0x00, 0, 0, 1⟩, ⟨0x01, 0, 0, 2⟩, ⟨0x0c, 0, 0, 5⟩, ⟨0x16, 0, 0, 0⟩] ∧
    runRaw [⟨0x00, 0, 0, 1⟩, ⟨0x01, 0, 0, 2⟩, ⟨0x0c, 0, 0, 5⟩, ⟨0x16, 0, 0, 0⟩] [] = .ret 3 := by
  decide

theorem full_false : ¬ Statement := by
  intro h
  obtain ⟨_, rp, h1, h2⟩ := h [.loadConstant 0 1, .loadConstant 1 2, .aluOpConstant 8 5, .retA] []
    (by decide) (by decide)
  obtain ⟨_, w2, w3, w4⟩ := witness_aluop
  rw [w3] at h1
  cases h1
  rw [w2, w4] at h2
  exact absurd h2 (by decide)

/-- C49 with the excluded region as a decidable predicate (`aluKnown`). -/
theorem holds_partial (p : List Instr) (pkt : List Nat) (hvm : newVM p = true)
    (himpl : ∀ i ∈ p, i.WF ∧ implemented i = true) (hk : ∀ i ∈ p, aluKnown i = true) :
    ((∃ v, runTyped p pkt = .ret v) ∨ runTyped p pkt = .halt) ∧
    ∃ rp, asmProg p = some rp ∧ runTyped p pkt = runRaw rp pkt :=
  ⟨run_terminates_safely p pkt hvm (fun i hi => (himpl i hi).2),
   run_eq_ref_partial p pkt hvm (fun i hi => (himpl i hi).2) hk⟩

/-! ### Run is a function of program and packet only -/

/-- `Run` leaves the VM value unchanged. -/
theorem run_preserves_vm (v : VM) (pkt : List Nat) : (v.run pkt).1 = v := rfl

/-- Every call in a history of `Run` calls on one VM returns what a fresh run returns:
`runSeq v pkts = pkts.map (runTyped v.filter)`. -/
theorem runSeq_eq_map (v : VM) (pkts : List (List Nat)) : v.runSeq pkts = pkts.map (runTyped v.filter) := by
  induction pkts generalizing v with
  | nil => rfl
  | cons pkt rest ih => simp [VM.runSeq, VM.run, ih]

/-- Independence of previous runs: after ANY history of earlier packets, `Run(pkt)` gives the same result. -/
theorem run_independent_of_history (v : VM) (history : List (List Nat)) (pkt : List Nat) :
    (v.runSeq (history ++ [pkt])).getLast? = some (runTyped v.filter pkt) := by
  simp [runSeq_eq_map]

/-- Every run starts with zeroed scratch memory: a slot that is read before being written yields 0
(whatever was stored there by earlier runs). -/
theorem fresh_scratch_zero (dst : Nat) (n : Int) (pkt : List Nat) (h0 : 0 ≤ n) (h1 : n < 16)
    (hd : dst = regA) : runTyped [.loadScratch dst n, .retA] pkt = .ret 0 := by
  subst hd
  simp [runTyped, runFuel, stepTyped, State.init, h0, h1]

/-- The demo of seeded change c49b in the model: `if pkt[0] == 1 { M[5] = 1500 }; return M[5]` run on
`[0,0xaa]`, `[1,0xaa]`, `[0,0xaa]` returns 0, 1500, 0. -/
example : VM.runSeq ⟨[.loadAbsolute 0 1, .jumpIf jumpNotEqual 1 2 0, .loadConstant 0 1500, .storeScratch 0 5,
    .loadScratch 0 5, .retA]⟩ [[0, 0xaa], [1, 0xaa], [0, 0xaa]] = [.ret 0, .ret 1500, .ret 0] := by decide

/-! ### non-vacuity -/

/-- An accepted program with every kind of implemented instruction (IPv4/TCP-port style filter), run on a
packet: both machines return the same non-zero verdict. -/
example :
    let p : List Instr := [.loadAbsolute 0 1, .aluOpConstant aluOpAnd 0xf0, .jumpIf jumpNotEqual 0x40 11 0,
      .loadMemShift 0, .loadIndirect 2 2, .jumpIf jumpEqual 80 0 8, .storeScratch 0 3, .loadExtension 1,
      .tax, .loadScratch 0 3, .aluOpX aluOpAdd, .jumpIfX jumpGreaterThan 1 0, .txa, .aluOpConstant aluOpShiftLeft 33,
      .retConstant 0xffff, .retA]
    newVM p = true ∧ p.all (fun i => implemented i && aluKnown i && decide i.WF) = true ∧
    runTyped p [0x45, 0, 0, 0, 0, 0, 0, 0, 0, 0, 0, 0, 0, 0, 0, 0, 0, 0, 0, 0, 0, 0, 0, 80] = .ret 65535 := by
  decide

end NetVerif.Proofs.C49
