import NetVerif.Model.XsrfToken
import NetVerif.Model.HmacSha1
import NetVerif.Proofs.Lemmas.XsrfStrings
import NetVerif.Gen.C57
/-!
C57 — XSRF tokens are bound to key, user, action and time window.

The MAC is an uninterpreted function `mac` (every theorem below is for ALL `mac`);
"never valid for another key/user/action" is proved in the form "… unless the MAC
collides on two distinct (key, message) pairs" (`other_triple_needs_collision`), and
unconditionally false under `CollisionFree mac` (`never_valid_for_other`).

Two literal-reading exceptions of the code as it is are proved and recorded as known
findings: issue times at/before 1 ms before the Unix epoch (`full_false`,
`pre_epoch_token_never_valid`) and HMAC's own key equivalence (`hmac_equivalent_key`).
-/
namespace NetVerif.Proofs.C57
open NetVerif NetVerif.Model.Xsrf NetVerif.Proofs.Lemmas.XsrfStrings

/-! ### MAC input: injective in (user, action, millisecond) -/

theorem clean_injective (a b : Bytes) (h : clean a = clean b) : a = b :=
  Lemmas.XsrfStrings.clean_injective a b h

theorem clean_no_colon (s : Bytes) : 58 ∉ clean s := Lemmas.XsrfStrings.clean_no_colon s

/-- `clean` is literally the two `ReplaceAll` passes and equals the one-pass escaping. -/
theorem clean_single_pass (s : Bytes) : clean s = s.flatMap cleanByte := clean_eq_flatMap s

def Int64 (i : Int) : Prop := -9223372036854775808 ≤ i ∧ i ≤ 9223372036854775807

theorem macInput_injective (u a u' a' : Bytes) (m m' : Int) (hm : Int64 m) (hm' : Int64 m')
    (h : macInput u a m = macInput u' a' m') : u = u' ∧ a = a' ∧ m = m' := by
  unfold macInput at h
  unfold Int64 at hm hm'
  obtain ⟨h1, h2⟩ := split_unique _ _ _ _ (clean_no_colon u) (clean_no_colon u') h
  obtain ⟨h3, h4⟩ := split_unique _ _ _ _ (clean_no_colon a) (clean_no_colon a') h2
  exact ⟨clean_injective _ _ h1, clean_injective _ _ h3, decInt_inj _ _ (by omega) (by omega) h4⟩

/-! ### arithmetic of the millisecond rounding -/

theorem wrap64_id (x : Int) (h : Int64 x) : wrap64 x = x := by
  unfold Int64 at h; unfold wrap64; omega

theorem wrap64_range (x : Int) : Int64 (wrap64 x) := by
  unfold Int64 wrap64; omega

theorem milliTime_int64 (t : Int) : Int64 (milliTime t) := by
  have h := wrap64_range (t + 999999)
  unfold Int64 at *
  unfold milliTime
  generalize wrap64 (t + 999999) = w at h
  rw [Int.tdiv_eq_ediv]
  have hsg : Int.sign 1000000 = 1 := rfl
  rw [hsg]
  split <;> omega

/-- Clock values for which no int64 effect occurs (years 1824 … 2116). -/
def Sane (t : Int) : Prop := -4611686018427387904 ≤ t ∧ t ≤ 4611686018427387904

/-- From the epoch minus 999999 ns on, the token's millisecond is the clock rounded UP. -/
theorem milliTime_ceil (t : Int) (hs : Sane t) (h : -999999 ≤ t) :
    0 ≤ milliTime t ∧ (milliTime t - 1) * 1000000 < t ∧ t ≤ milliTime t * 1000000 := by
  unfold Sane at hs
  unfold milliTime
  rw [wrap64_id _ (by unfold Int64; omega), Int.tdiv_eq_ediv_of_nonneg (by omega)]
  omega

/-- Regenerating at the issue time of a non-negative millisecond gives the same millisecond. -/
theorem milliTime_issue (m : Int) (h0 : 0 ≤ m) (h1 : m ≤ 4611686018428) :
    milliTime (wrap64 (m * 1000000)) = m := by
  unfold milliTime
  rw [wrap64_id (m * 1000000) (by unfold Int64; omega),
    wrap64_id (m * 1000000 + 999999) (by unfold Int64; omega),
    Int.tdiv_eq_ediv_of_nonneg (by omega)]
  omega

/-- …and for a negative millisecond it gives the NEXT one (truncating division). -/
theorem milliTime_issue_neg (m : Int) (h0 : m < 0) (h1 : -4611686018428 ≤ m) :
    milliTime (wrap64 (m * 1000000)) = m + 1 := by
  unfold milliTime
  rw [wrap64_id (m * 1000000) (by unfold Int64; omega),
    wrap64_id (m * 1000000 + 999999) (by unfold Int64; omega), Int.tdiv_eq_ediv]
  have hsg : Int.sign 1000000 = 1 := rfl
  rw [hsg]
  split
  · rename_i h; rcases h with h | h <;> omega
  · omega

/-! ### validation of a generated token -/

theorem token_split (mac : Bytes → Bytes → Bytes) (key u a : Bytes) (t : Int) :
    splitLast (tokenAt mac key u a t) =
      some (mac key (macInput u a (milliTime t)), decInt (milliTime t)) := by
  unfold tokenAt
  exact splitLast_append _ _ (decInt_no_colon _)

theorem tokenAt_congr (mac : Bytes → Bytes → Bytes) (key u a : Bytes) (t t' : Int)
    (h : milliTime t = milliTime t') : tokenAt mac key u a t = tokenAt mac key u a t' := by
  unfold tokenAt; rw [h]

/-- The checks `validTokenAtTime` performs on a freshly generated token, spelled out. -/
theorem check_generated (mac : Bytes → Bytes → Bytes) (key u a key' u' a' : Bytes) (t now timeout : Int) :
    checkAt mac (tokenAt mac key u a t) key' u' a' now timeout =
      (let issue := wrap64 (milliTime t * 1000000)
       if satSub now issue ≥ timeout then false
       else if issue > now + 60000000000 then false
       else decide (tokenAt mac key u a t = tokenAt mac key' u' a' issue)) := by
  have hm := milliTime_int64 t
  unfold checkAt
  simp only [token_split, parseInt64_decInt _ hm.1 hm.2]

/-- The validity window (exact, including both edges): a token generated at clock `t` (not before
the epoch) is valid for its own triple exactly when `issue − 1 min ≤ now < issue + timeout`. -/
theorem window_exact (mac : Bytes → Bytes → Bytes) (key u a : Bytes) (t now timeout : Int)
    (ht : Sane t) (hnow : Sane now) (hpost : -999999 ≤ t) :
    checkAt mac (tokenAt mac key u a t) key u a now timeout =
      decide (milliTime t * 1000000 - 60000000000 ≤ now ∧ now < milliTime t * 1000000 + timeout) := by
  obtain ⟨hm0, hm1, hm2⟩ := milliTime_ceil t ht hpost
  unfold Sane at ht hnow
  rw [check_generated]
  have hmi := milliTime_issue (milliTime t) hm0 (by omega)
  have hw : wrap64 (milliTime t * 1000000) = milliTime t * 1000000 := wrap64_id _ (by unfold Int64; omega)
  have htok : tokenAt mac key u a t = tokenAt mac key u a (wrap64 (milliTime t * 1000000)) :=
    tokenAt_congr mac key u a _ _ hmi.symm
  simp only []
  rw [← htok, hw]
  unfold satSub
  simp only []
  by_cases h1 : now - milliTime t * 1000000 ≥ timeout
  · have : ¬ (now < milliTime t * 1000000 + timeout) := by omega
    repeat' split
    all_goals simp
    all_goals omega
  · by_cases h2 : milliTime t * 1000000 > now + 60000000000
    · repeat' split
      all_goals simp
      all_goals omega
    · repeat' split
      all_goals simp
      all_goals omega

/-- Public-API form: `Valid`'s answer for a token from `Generate` with explicit clocks. -/
theorem valid_generated (mac : Bytes → Bytes → Bytes) (key u a tok : Bytes) (t now timeout : Int)
    (ht : Sane t) (hnow : Sane now) (hpost : -999999 ≤ t)
    (hg : generateWith mac key u a t = some tok) :
    validWith mac tok key u a now timeout =
      some (decide (milliTime t * 1000000 - 60000000000 ≤ now ∧ now < milliTime t * 1000000 + timeout)) := by
  unfold generateWith at hg
  unfold validWith
  split at hg
  · simp at hg
  · rename_i hk
    simp at hg; subst hg
    simp only [hk]
    rw [window_exact mac key u a t now timeout ht hnow hpost]
    simp

/-- Empty keys panic on both sides and nothing else does. -/
theorem panics_iff_empty_key (mac : Bytes → Bytes → Bytes) (tok key u a : Bytes) (t now timeout : Int) :
    (generateWith mac key u a t = none ↔ key = []) ∧ (validWith mac tok key u a now timeout = none ↔ key = []) := by
  unfold generateWith validWith
  cases key <;> simp

/-! ### arbitrary (attacker-chosen) token strings -/

/-- Soundness of acceptance: whatever string is accepted is exactly the token the generator
produces for this key/user/action at the issue time it names, and that time is in the window. -/
theorem accepted_is_generated (mac : Bytes → Bytes → Bytes) (tok key u a : Bytes) (now timeout : Int)
    (h : checkAt mac tok key u a now timeout = true) :
    ∃ millis : Int, Int64 millis ∧
      tok = tokenAt mac key u a (wrap64 (millis * 1000000)) ∧
      satSub now (wrap64 (millis * 1000000)) < timeout ∧
      wrap64 (millis * 1000000) ≤ now + 60000000000 ∧
      milliTime (wrap64 (millis * 1000000)) = millis := by
  unfold checkAt at h
  split at h
  · simp at h
  · rename_i pre suffix hsplit
    split at h
    · simp at h
    · rename_i millis hparse
      simp only [] at h
      split at h
      · simp at h
      · split at h
        · simp at h
        · rename_i h1 h2
          simp at h
          have hs := token_split mac key u a (wrap64 (millis * 1000000))
          rw [← h, hsplit] at hs
          simp at hs
          have hm64 := milliTime_int64 (wrap64 (millis * 1000000))
          have hp := parseInt64_decInt _ hm64.1 hm64.2
          rw [← hs.2, hparse] at hp
          simp at hp
          refine ⟨millis, ?_, h, by omega, by omega, hp.symm⟩
          rw [hp]; exact hm64

/-! ### binding to key, user and action -/

def CollisionFree (mac : Bytes → Bytes → Bytes) : Prop :=
  ∀ k1 m1 k2 m2, mac k1 m1 = mac k2 m2 → k1 = k2 ∧ m1 = m2

/-- If a generated token is accepted for a different (key, user, action) — including ones that
differ only in where ':' or '_' appear — then the MAC collides on two DISTINCT (key, message) pairs. -/
theorem other_triple_needs_collision (mac : Bytes → Bytes → Bytes) (key u a key' u' a' : Bytes)
    (t now timeout : Int) (hne : (key, u, a) ≠ (key', u', a'))
    (h : checkAt mac (tokenAt mac key u a t) key' u' a' now timeout = true) :
    ∃ k1 m1 k2 m2, (k1, m1) ≠ (k2, m2) ∧ mac k1 m1 = mac k2 m2 := by
  rw [check_generated] at h
  simp only [] at h
  split at h
  · simp at h
  · split at h
    · simp at h
    · simp at h
      have s1 := token_split mac key u a t
      have s2 := token_split mac key' u' a' (wrap64 (milliTime t * 1000000))
      rw [h] at s1
      rw [s1] at s2
      simp at s2
      obtain ⟨hmac, hdec⟩ := s2
      have hm1 := milliTime_int64 t
      have hm2 := milliTime_int64 (wrap64 (milliTime t * 1000000))
      have hmm : milliTime t = milliTime (wrap64 (milliTime t * 1000000)) := by
        unfold Int64 at hm1 hm2
        exact decInt_inj _ _ (by omega) (by omega) hdec
      refine ⟨key, macInput u a (milliTime t), key', macInput u' a' (milliTime t), ?_, ?_⟩
      · intro heq
        simp at heq
        obtain ⟨hk, hi⟩ := heq
        obtain ⟨hu, ha, _⟩ := macInput_injective _ _ _ _ _ _ hm1 hm1 hi
        exact hne (by rw [hk, hu, ha])
      · rw [hmac, ← hmm]

theorem never_valid_for_other (mac : Bytes → Bytes → Bytes) (hcf : CollisionFree mac)
    (key u a key' u' a' : Bytes) (t now timeout : Int) (hne : (key, u, a) ≠ (key', u', a')) :
    checkAt mac (tokenAt mac key u a t) key' u' a' now timeout = false := by
  cases hc : checkAt mac (tokenAt mac key u a t) key' u' a' now timeout with
  | false => rfl
  | true =>
    obtain ⟨k1, m1, k2, m2, hd, he⟩ := other_triple_needs_collision mac key u a key' u' a' t now timeout hne hc
    obtain ⟨e1, e2⟩ := hcf k1 m1 k2 m2 he
    exact absurd (by rw [e1, e2]) hd

/-- The ':' / '_' clause concretely: ("a:b","c") and ("a","b:c") have different MAC inputs. -/
theorem separator_confusion_distinct (m : Int) :
    macInput [97, 58, 98] [99] m ≠ macInput [97] [98, 58, 99] m ∧
    macInput [97, 95, 99, 98] [] m ≠ macInput [97, 58, 98] [] m := by
  constructor <;> (unfold macInput; simp [clean, replaceColon, replaceUnderscore])

/-! ### the property: full statement, refutation, partial -/

/-- ⌈t / 1 ms⌉. -/
def ceilMs (t : Int) : Int := -((-t) / 1000000)

/-- C57 for one issue clock `t`. -/
def HoldsAt (t : Int) : Prop :=
  ∀ (mac : Bytes → Bytes → Bytes) (key u a : Bytes) (now timeout : Int), Sane now →
    (checkAt mac (tokenAt mac key u a t) key u a now timeout =
        decide (ceilMs t * 1000000 - 60000000000 ≤ now ∧ now < ceilMs t * 1000000 + timeout)) ∧
    (CollisionFree mac → ∀ key' u' a', (key, u, a) ≠ (key', u', a') →
        checkAt mac (tokenAt mac key u a t) key' u' a' now timeout = false)

/-- C57 at full (literal) strength: all issue clocks. -/
def FullStatement : Prop := ∀ t : Int, Sane t → HoldsAt t

/-- Excluded region: clocks at or before 1 ms before the Unix epoch. -/
def PreEpoch (t : Int) : Prop := t < -999999

instance (t : Int) : Decidable (PreEpoch t) := by unfold PreEpoch; infer_instance

theorem ceilMs_eq_milliTime (t : Int) (hs : Sane t) (h : ¬ PreEpoch t) : ceilMs t = milliTime t := by
  unfold PreEpoch at h
  obtain ⟨_, h1, h2⟩ := milliTime_ceil t hs (by omega)
  unfold ceilMs; omega

/-- C57 for every clock from 999999 ns before the epoch on. Missing w.r.t. `FullStatement`:
`PreEpoch` clocks (Go's `/` truncates toward zero there). -/
theorem holds_partial (t : Int) (hs : Sane t) (h : ¬ PreEpoch t) : HoldsAt t := by
  intro mac key u a now timeout hnow
  refine ⟨?_, fun hcf key' u' a' hne => never_valid_for_other mac hcf key u a key' u' a' t now timeout hne⟩
  rw [ceilMs_eq_milliTime t hs h]
  exact window_exact mac key u a t now timeout hs hnow (by unfold PreEpoch at h; omega)

/-- A token whose millisecond is negative (clock ≤ −1999999 ns) is never valid, at any time,
with any timeout, for any MAC: `validTokenAtTime` regenerates it with millisecond + 1. -/
theorem pre_epoch_token_never_valid (mac : Bytes → Bytes → Bytes) (key u a : Bytes) (t now timeout : Int)
    (hs : Sane t) (h : t ≤ -1999999) :
    checkAt mac (tokenAt mac key u a t) key u a now timeout = false := by
  have hm : milliTime t < 0 ∧ -4611686018428 ≤ milliTime t := by
    unfold Sane at hs
    unfold milliTime
    rw [wrap64_id _ (by unfold Int64; omega), Int.tdiv_eq_ediv]
    have hsg : Int.sign 1000000 = 1 := rfl
    rw [hsg]
    split
    · rename_i h'; rcases h' with h' | h' <;> omega
    · omega
  rw [check_generated]
  simp only []
  have hreg := milliTime_issue_neg (milliTime t) hm.1 hm.2
  repeat' split
  all_goals (try rfl)
  simp
  intro heq
  have s1 := token_split mac key u a t
  have s2 := token_split mac key u a (wrap64 (milliTime t * 1000000))
  rw [heq, s2, hreg] at s1
  simp at s1
  have hm64 := milliTime_int64 t
  unfold Int64 at hm64
  have := decInt_inj _ _ (by omega) (by omega) s1.2
  omega

/-- The literal statement is false on the code as it is: witness `t = −2 ms` (a token issued then
is invalid even at `now = t`, although `⌈t⌉ − 1 min ≤ now < ⌈t⌉ + 24 h`). -/
theorem full_false : ¬ FullStatement := by
  intro hfull
  have hs : Sane (-2000000) := by unfold Sane; omega
  have h := (hfull (-2000000) hs (fun _ _ => []) [107] [] [] (-2000000) 86400000000000 hs).1
  rw [pre_epoch_token_never_valid _ _ _ _ _ _ _ hs (by omega)] at h
  revert h
  unfold ceilMs
  decide

/-! ### HMAC's own key equivalence (second literal-reading exception) -/

theorem hmac_key_block_padding : Model.HmacSha1.keyBlock [107] = Model.HmacSha1.keyBlock [107, 0] := by decide

/-- For the concrete HMAC the token of key "k" is accepted for key "k\x00" exactly when it is
accepted for "k": `CollisionFree` is not satisfiable by HMAC itself on such key pairs. -/
theorem hmac_equivalent_key (tok u a : Bytes) (now timeout : Int) :
    checkAt Model.HmacSha1.mac tok [107, 0] u a now timeout = checkAt Model.HmacSha1.mac tok [107] u a now timeout := by
  have hmac : ∀ m, Model.HmacSha1.mac [107, 0] m = Model.HmacSha1.mac [107] m := by
    intro m; unfold Model.HmacSha1.mac Model.HmacSha1.hmacSha1; rw [hmac_key_block_padding]
  unfold checkAt tokenAt
  simp only [hmac]

theorem hmac_not_collisionFree : ¬ CollisionFree Model.HmacSha1.mac := by
  intro h
  have hmac : Model.HmacSha1.mac [107, 0] [] = Model.HmacSha1.mac [107] [] := by
    unfold Model.HmacSha1.mac Model.HmacSha1.hmacSha1; rw [hmac_key_block_padding]
  have := (h _ _ _ _ hmac).1
  simp at this

/-! ### Tie to the source: constants and data regenerated from xsrf.go -/

/-- Generic `strings.ReplaceAll(s, old, new)` for a one-byte `old`. -/
def replaceAll1 (s : Bytes) (p : List Nat × List Nat) : Bytes :=
  s.flatMap (fun c => if [c] = p.1 then p.2 else [c])

theorem gen_clean_eq (s : Bytes) : clean s = Gen.C57.cleanPairs.foldl replaceAll1 s := by
  unfold clean replaceColon replaceUnderscore Gen.C57.cleanPairs replaceAll1
  simp

theorem gen_milliTime_eq (t : Int) :
    milliTime t = Int.tdiv (wrap64 (t + Gen.C57.roundAdd)) Gen.C57.roundDiv := rfl

theorem gen_formats_eq (mac : Bytes → Bytes → Bytes) (key u a : Bytes) (t : Int) :
    -- "%s:%s:%d" and "%s:%d": the separators of the MAC input and of the token are the format's ':'
    Gen.C57.macFormat = [37, 115, 58, 37, 115, 58, 37, 100] ∧ Gen.C57.tokenFormat = [37, 115, 58, 37, 100] ∧
    macInput u a (milliTime t) = clean u ++ [58] ++ clean a ++ [58] ++ decInt (milliTime t) ∧
    tokenAt mac key u a t = mac key (macInput u a (milliTime t)) ++ [58] ++ decInt (milliTime t) := by
  refine ⟨by decide, by decide, ?_, ?_⟩
  · unfold macInput; simp
  · unfold tokenAt; simp

theorem gen_check_consts_eq :
    Gen.C57.timeoutNs = defaultTimeoutNs ∧ Gen.C57.graceNs = graceNs ∧ Gen.C57.issueMul = 1000000 ∧
    Gen.C57.expiredOp = [62, 61] ∧ Gen.C57.parseBase = 10 ∧ Gen.C57.parseBits = 64 := by decide

/-- `checkAt` written with the regenerated constants (the model's literals are these). -/
theorem gen_checkAt_eq (mac : Bytes → Bytes → Bytes) (token key u a : Bytes) (now timeout : Int) :
    checkAt mac token key u a now timeout =
      (match splitLast token with
       | none => false
       | some (_, suffix) =>
         match parseInt64 suffix with
         | none => false
         | some millis =>
           let issue := wrap64 (millis * Gen.C57.issueMul)
           if satSub now issue ≥ timeout then false
           else if issue > now + Gen.C57.graceNs then false
           else decide (token = tokenAt mac key u a issue)) := rfl

/-! ### Non-vacuity -/
example : Sane 1577836800000000001 ∧ ¬ PreEpoch 1577836800000000001 ∧ milliTime 1577836800000000001 = 1577836800001 := by
  unfold Sane PreEpoch; decide
example : clean [97, 58, 95, 98] = [97, 95, 99, 95, 95, 98] := by decide
example : decInt (-1577836800001) = [45, 49, 53, 55, 55, 56, 51, 54, 56, 48, 48, 48, 48, 49] := by decide
example : parseInt64 [43, 53] = some 5 ∧ parseInt64 [45] = none ∧ parseInt64 [53, 95] = none := by decide
example : checkAt (fun k m => k ++ m) (tokenAt (fun k m => k ++ m) [107] [117] [97] 5000000) [107] [117] [97] 6000000 1000001 = true := by decide
example : checkAt (fun k m => k ++ m) (tokenAt (fun k m => k ++ m) [107] [117] [97] 5000000) [107] [117] [97] 6000000 1000000 = false := by decide

end NetVerif.Proofs.C57
