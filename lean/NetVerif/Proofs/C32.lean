import NetVerif.Model.QuicStream
import NetVerif.Model.QuicMonitor
import NetVerif.Gen.C20
import NetVerif.Proofs.Lemmas.QuicMonitor
/-!
C32 — QUIC stream resets carry consistent final sizes.

Mechanism theorems on the exact stream model (`Model/QuicStream.lean`, D-tied state for state):
after `resetInternal` no STREAM frame is emitted, RESET_STREAM carries `outmaxsent`, which the send
path keeps equal to the highest offset ever placed in a STREAM frame; `checkStreamBounds` answers
FINAL_SIZE_ERROR exactly for the three contradictions; after a reset `Read` errors and never
reports EOF (slow path; bytes parked in the lock-free buffer before the reset are still handed out).
Monitor theorems: accepted traces satisfy the wire-level statement.
-/
namespace NetVerif.Proofs.C32
open NetVerif.Model NetVerif.Model.QuicStream

/-! ### T-tie (shared generated file Gen/C20.lean) -/
theorem gen_checkStreamBounds_eq (inwin insize inEnd e : Int) (fin : Bool) :
    Gen.C20.checkStreamBounds inwin insize inEnd e fin = some (checkStreamBounds inwin insize inEnd e fin) := by
  unfold Gen.C20.checkStreamBounds checkStreamBounds errFlowControl errFinalSize
  repeat' split
  all_goals first | rfl | (simp_all; done) | (exfalso; simp_all; omega) | (exfalso; simp_all)

theorem gen_errFinalSize : Gen.C20.errFinalSize = errFinalSize := by decide

/-! ### receive side -/

/-- FINAL_SIZE_ERROR exactly for the three contradictions (within the stream window):
data past a known final size, a changed final size, a final size below data already received. -/
theorem checkStreamBounds_final_iff (inwin insize inEnd e : Int) (fin : Bool) (hw : e ≤ inwin) :
    checkStreamBounds inwin insize inEnd e fin = errFinalSize ↔
      ((insize ≠ -1 ∧ e > insize) ∨ (fin = true ∧ insize ≠ -1 ∧ e ≠ insize) ∨ (fin = true ∧ e < inEnd)) := by
  unfold checkStreamBounds errFlowControl errFinalSize
  repeat' split
  all_goals simp_all
  all_goals omega

/-- Beyond the window the answer is FLOW_CONTROL_ERROR, never FINAL_SIZE_ERROR. -/
theorem checkStreamBounds_window_first (inwin insize inEnd e : Int) (fin : Bool) (hw : e > inwin) :
    checkStreamBounds inwin insize inEnd e fin = errFlowControl := by
  unfold checkStreamBounds; simp [hw]

/-- The only results are nil, FLOW_CONTROL_ERROR and FINAL_SIZE_ERROR. -/
theorem checkStreamBounds_codes (inwin insize inEnd e : Int) (fin : Bool) :
    checkStreamBounds inwin insize inEnd e fin = 0 ∨ checkStreamBounds inwin insize inEnd e fin = errFlowControl ∨
      checkStreamBounds inwin insize inEnd e fin = errFinalSize := by
  unfold checkStreamBounds; repeat' split
  all_goals simp

/-- `handleReset` refuses a RESET_STREAM exactly when `checkStreamBounds` does (or the connection
window is overrun), and an accepted first reset records the code and the final size. -/
theorem handleReset_records (c : Conn) (s : Stream) (code final : Int)
    (h0 : (handleReset c s code final).2.2 = 0) (hr : s.inresetcode = -1) :
    (handleReset c s code final).2.1.inresetcode = code ∧ (handleReset c s code final).2.1.insize = final ∧
      checkStreamBounds s.inwin s.insize s.inp.stop final true = 0 := by
  unfold handleReset at *
  simp only [] at *
  by_cases h1 : checkStreamBounds s.inwin s.insize s.inp.stop final true = 0
  · simp only [h1, ne_eq, not_true_eq_false, if_false, hr] at *
    by_cases h2 : s.insize = -1
    · simp only [h2, if_true] at *
      by_cases h3 : (bytesReceived c.usedLimit c.sentLimit (final - s.inp.stop)).1 = 0
      · simp [h3]
      · simp [h3] at h0
    · simp [h2]
  · simp [h1] at h0

/-- After a reset was recorded, `Read` never reports EOF: once the lock-free buffer is drained
(slow path) it fails with the reset error. -/
theorem read_after_reset (c : Conn) (s : Stream) (n : Nat) (hr : s.inresetcode ≠ -1) (hw : s.writeOnly = false) :
    (s.inbuf.length ≤ s.inbufoff → (read c s n).2.2 = .errReset) ∧
    (∀ b, (read c s n).2.2 ≠ .data b true) ∧ (read c s n).2.2 ≠ .eof := by
  have hcan : s.canRead = true := by
    unfold Stream.canRead; simp [hr]
  refine ⟨?_, ?_, ?_⟩
  · intro hle
    unfold QuicStream.read
    have : ¬ (s.inbuf.length > s.inbufoff) := by omega
    simp only [hw, this, hcan]
    by_cases h0 : s.inbufoff > 0 <;> simp [h0, hr]
  · intro b
    unfold QuicStream.read
    simp only [hw]
    by_cases hf : s.inbuf.length > s.inbufoff
    · simp only [hf, if_true]; simp
    · simp only [hf, hcan]
      by_cases h0 : s.inbufoff > 0 <;> simp [h0, hr]
  · unfold QuicStream.read
    simp only [hw]
    by_cases hf : s.inbuf.length > s.inbufoff
    · simp only [hf, if_true]; simp
    · simp only [hf, hcan]
      by_cases h0 : s.inbufoff > 0 <;> simp [h0, hr]

/-- **No dangling fast-path buffer after a reset** (repaired code, `discardInbufLocked`): an accepted
first RESET_STREAM empties `inbuf`, so every later `Read` fails with the reset error at once — it can
no longer hand out bytes through a buffer the pipe has released. -/
theorem handleReset_clears_inbuf (c : Conn) (s : Stream) (code final : Int)
    (h0 : (handleReset c s code final).2.2 = 0) (hr : s.inresetcode = -1) (hcode : code ≠ -1)
    (hw : s.writeOnly = false) (c' : Conn) (n : Nat) :
    (handleReset c s code final).2.1.inbuf = [] ∧ (handleReset c s code final).2.1.inbufoff = 0 ∧
      (QuicStream.read c' (handleReset c s code final).2.1 n).2.2 = .errReset := by
  have hrec := handleReset_records c s code final h0 hr
  have hclr : (handleReset c s code final).2.1.inbuf = [] ∧ (handleReset c s code final).2.1.inbufoff = 0 ∧
      (handleReset c s code final).2.1.writeOnly = s.writeOnly := by
    unfold handleReset at h0 ⊢
    simp only [] at h0 ⊢
    by_cases h1 : checkStreamBounds s.inwin s.insize s.inp.stop final true = 0
    · simp only [h1, ne_eq, not_true_eq_false, if_false, hr] at h0 ⊢
      by_cases h2 : s.insize = -1
      · simp only [h2, if_true] at h0 ⊢
        by_cases h3 : (bytesReceived c.usedLimit c.sentLimit (final - s.inp.stop)).1 = 0
        · simp [h3]
        · simp [h3] at h0
      · simp [h2]
    · simp [h1] at h0
  refine ⟨hclr.1, hclr.2.1, ?_⟩
  have hne : (handleReset c s code final).2.1.inresetcode ≠ -1 := by rw [hrec.1]; exact hcode
  have := (read_after_reset c' (handleReset c s code final).2.1 n hne (by rw [hclr.2.2]; exact hw)).1
  apply this
  rw [hclr.1, hclr.2.1]; simp

/-! ### send side -/

/-- `resetInternal` (Reset or STOP_SENDING) marks the stream reset, drops everything unsent and
leaves `outmaxsent` untouched. -/
theorem resetInternal_spec (s : Stream) (code : Int) (u : Bool) (hro : s.readOnly = false) :
    (resetInternal s code u).outreset.isSet = true ∧ (resetInternal s code u).outmaxsent = s.outmaxsent ∧
      (s.outreset.isSet = false → (resetInternal s code u).outunsent = []) := by
  unfold resetInternal
  simp only [hro]
  by_cases hu : u = true <;> by_cases hs : s.outreset.isSet = true <;> simp_all [SV.isSet]

/-- Once the stream is reset, `appendOutFramesLocked` emits no STREAM frame: the only frame it can add
is RESET_STREAM, whose final size is `outmaxsent`; `outmaxsent` and the connection counters do not move. -/
theorem appendOutFrames_after_reset (c : Conn) (s : Stream) (w : Writer) (pn : Int) (pto : Bool)
    (hr : s.outreset.isSet = true) :
    let r := appendOutFrames c s w pn pto
    (r.2.2.1.frames = w.frames ∨ r.2.2.1.frames = w.frames ++ [.resetStream s.id s.outresetcode s.outmaxsent]) ∧
      r.2.1.outmaxsent = s.outmaxsent ∧ r.1 = c ∧ r.2.1.outreset.isSet = true := by
  unfold appendOutFrames
  simp only [hr, if_true]
  by_cases h1 : s.outreset.shouldSendPTO pto = true
  · simp only [h1, if_true]
    by_cases h2 : w.avail < 1 + szv s.id + szv s.outresetcode + szv s.outmaxsent
    · simp [Writer.resetStream, h2, hr]
    · simp only [Writer.resetStream, h2, if_false, Writer.put, frameOpensStream]
      split <;> simp [SV.isSet]
  · simp [h1, hr]

/-- A reset stream stays reset under acknowledgements and losses (so no later call re-enters the STREAM loop). -/
theorem reset_sticky (s : Stream) (pn st en : Int) (fin acked : Bool) (r : Rec) (hr : s.outreset.isSet = true) :
    (ackOrLossData s pn st en fin acked).outreset.isSet = true ∧ (ackOrLoss s pn r acked).outreset.isSet = true ∧
    (ackOrLossData s pn st en fin acked).outmaxsent = s.outmaxsent ∧ (ackOrLoss s pn r acked).outmaxsent = s.outmaxsent := by
  refine ⟨?_, ?_, ?_, ?_⟩
  · unfold ackOrLossData; simp only []; split <;> simp [hr]
  · unfold ackOrLoss; cases r <;> simp [hr, SV.ackOrLoss]
    all_goals (split <;> try split) <;> simp_all [SV.isSet]
  · unfold ackOrLossData; simp only []; split <;> simp [hr]
  · unfold ackOrLoss; cases r <;> simp

/-! ### monitor -/
open NetVerif.Model.QuicMonitor in
/-- Every trace the C32 monitor accepts: a RESET_STREAM's final size equals the highest offset sent
before it, all RESET_STREAMs of a stream agree, no STREAM frame follows a RESET_STREAM of the same
stream and sender, and no EOF is reported on a stream after its RESET_STREAM was received. -/
theorem monitor_sound (tr : List Ev) (h : accepts 32 tr = true) :
    (∀ pre suf s id final, tr = pre ++ .txReset s id final :: suf →
        final = highSent pre s id ∧ ∀ f ∈ txResetFinals pre s id, f = final) ∧
    (∀ pre suf s id off len fin, tr = pre ++ .txStream s id off len fin :: suf → hasTxReset pre s id = false) ∧
    (∀ pre suf s id, tr = pre ++ .eof s id :: suf → hasRxReset pre s id = false) := by
  have hall := (NetVerif.Proofs.Lemmas.QuicMonitor.accepts_iff 32 tr).1 h
  refine ⟨?_, ?_, ?_⟩
  · intro pre suf s id final heq
    have := hall pre _ suf heq
    simp only [okEv] at this
    simp at this
    exact ⟨this.1, fun f hf => this.2 f hf⟩
  · intro pre suf s id off len fin heq
    have := hall pre _ suf heq
    simp only [okEv] at this
    simp at this
    exact this.2
  · intro pre suf s id heq
    have := hall pre _ suf heq
    simp only [okEv] at this
    simpa using this

end NetVerif.Proofs.C32
