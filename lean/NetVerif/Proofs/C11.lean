import NetVerif.Proofs.Lemmas.Flow
import NetVerif.Proofs.Lemmas.FlowMonitor
/-!
C11 — HTTP/2 endpoints enforce their advertised receive windows.

Part A (mechanism, `http2/flow.go`): `inflow.take` / `takeInflows` accept a frame of `n`
flow-controlled bytes iff `n` fits in the advertised window(s) — exact at the boundary — and
a refused frame leaves every window untouched.
Part B (monitor): on every trace accepted by `Model.FlowMonitor`, a DATA frame beyond an
advertised window is answered with RST_STREAM(FLOW_CONTROL_ERROR) on its stream and changes
nothing (no byte of it is accepted for delivery); FLOW_CONTROL_ERROR never appears for DATA
within the windows; the application never receives more bytes than were accepted.
-/
namespace NetVerif.Proofs.C11
open NetVerif.Model.Flow NetVerif.Proofs.Flow NetVerif.Model.FlowMonitor NetVerif.Proofs.FlowMon

/-! ## Part A -/

/-- `take` accepts iff `n ≤ avail`; accepted: window shrinks by exactly `n`; refused: unchanged. -/
theorem take_accepts_iff (f : Inflow) (n : Int) :
    ((f.take n).1 = true ↔ n ≤ f.avail) ∧
    ((f.take n).1 = true → (f.take n).2 = { f with avail := f.avail - n }) ∧
    ((f.take n).1 = false → (f.take n).2 = f) := take_spec f n

/-- The boundary is exact: a frame of exactly the window is accepted, one more byte is not. -/
theorem take_boundary (f : Inflow) :
    (f.take f.avail).1 = true ∧ (f.take (f.avail + 1)).1 = false := by
  unfold Inflow.take
  constructor
  · simp
  · have : f.avail + 1 > f.avail := by omega
    simp [this]

/-- `takeInflows` (connection + stream) accepts iff `n` fits in both; all-or-nothing. -/
theorem takeInflows_accepts_iff (f1 f2 : Inflow) (n : Int) :
    ((takeInflows f1 f2 n).1 = true ↔ (n ≤ f1.avail ∧ n ≤ f2.avail)) ∧
    ((takeInflows f1 f2 n).1 = true →
        (takeInflows f1 f2 n).2 = ({ f1 with avail := f1.avail - n }, { f2 with avail := f2.avail - n })) ∧
    ((takeInflows f1 f2 n).1 = false → (takeInflows f1 f2 n).2 = (f1, f2)) := takeInflows_spec f1 f2 n

/-- The window that `take` enforces is the window the peer was told about: a refund only
becomes usable by the peer once `add` has returned it as a WINDOW_UPDATE increment
(`avail` moves by exactly the increment; buffered credit is not enforceable room). -/
theorem enforced_window_is_advertised (f f' : Inflow) (n r : Int) (h : f.add n = some (r, f')) :
    f'.avail = f.avail + r ∧ (r = 0 → ∀ k, (f'.take k).1 = (f.take k).1) := by
  have s := add_spec f f' n r h
  refine ⟨s.2.2.2.1, ?_⟩
  intro hr k
  have : f'.avail = f.avail := by have := s.2.2.2.1; omega
  unfold Inflow.take
  rw [this]
  by_cases hk : k > f.avail <;> simp [hk]

/-! ## Part B -/

/-- The branch of `processData` a DATA frame takes (server and Transport): not delivered and
charged to the connection window only (`connOnly`), empty, or delivered. -/
def ConnOnly (st : StreamSt) (len L : Int) : Prop :=
  st.status ≠ .open_ ∨ (st.declCL ≠ -1 ∧ st.bodyBytes + len > st.declCL) ∨ (L ≠ 0 ∧ st.isHead = true ∧ len > 0)

instance (st : StreamSt) (len L : Int) : Decidable (ConnOnly st len L) := by unfold ConnOnly; exact inferInstance

/-- Which DATA frames the monitor classifies as beyond the advertised window: the frame is a
DATA frame on a known stream and its flow-controlled length exceeds the connection window,
or — when it is delivered to an open stream — the stream window the endpoint ENFORCES,
`win - short` (`short = 0` except for the known finding `pre-ack-small-stream-window`, see
`PreAckStatement`). The error is expected on the stream for a server, on the connection
(stream 0) for a Transport. -/
theorem excess_iff (m : Mon) (sid : Nat) (len pad : Int) (es : Bool) (t : Nat) :
    (dataAct m sid len pad es).expectFC = some t ↔
      t = fcTarget m sid ∧ ¬ (len < 0 ∨ pad < -1) ∧ ∃ st, findStream m.streams sid = some st ∧
        (if ConnOnly st len (flowLen len pad) then flowLen len pad > m.conn
         else flowLen len pad ≠ 0 ∧ (flowLen len pad > m.conn ∨ flowLen len pad > st.win - st.short)) := by
  unfold dataAct
  by_cases hv : len < 0 ∨ pad < -1
  · simp [hv]
  · simp only [hv, if_false, not_false_eq_true, true_and]
    cases hf : findStream m.streams sid with
    | none => simp
    | some st =>
      simp only [Option.some.injEq, exists_eq_left']
      have co : ∀ (_ : ConnOnly st len (flowLen len pad)),
          ((connOnlyAct m sid (flowLen len pad)).expectFC = some t ↔
            t = fcTarget m sid ∧ (if ConnOnly st len (flowLen len pad) then flowLen len pad > m.conn
              else flowLen len pad ≠ 0 ∧ (flowLen len pad > m.conn ∨ flowLen len pad > st.win - st.short))) := by
        intro hc
        unfold connOnlyAct
        by_cases hx : flowLen len pad > m.conn
        · rw [if_pos hx, if_pos hc]
          constructor
          · intro h; exact ⟨(Option.some.inj h).symm, hx⟩
          · intro h; exact congrArg some h.1.symm
        · rw [if_neg hx, if_pos hc]
          constructor
          · intro h; cases h
          · intro h; exact absurd h.2 hx
      cases hs : st.status with
      | closed => exact co (Or.inl (by simp [hs]))
      | halfRemote => exact co (Or.inl (by simp [hs]))
      | preHeaders => exact co (Or.inl (by simp [hs]))
      | open_ =>
        simp only
        by_cases hcl : st.declCL ≠ -1 ∧ st.bodyBytes + len > st.declCL
        · rw [if_pos hcl]
          exact co (Or.inr (Or.inl hcl))
        · rw [if_neg hcl]
          by_cases h0 : flowLen len pad = 0
          · have hn : ¬ ConnOnly st len (flowLen len pad) := by
              unfold ConnOnly; simp [hs, hcl, h0]
            rw [if_pos h0, if_neg hn]
            constructor
            · intro h; cases h
            · intro h; exact absurd h0 h.2.1
          · rw [if_neg h0]
            by_cases hh : st.isHead = true ∧ len > 0
            · rw [if_pos hh]
              exact co (Or.inr (Or.inr ⟨h0, hh.1, hh.2⟩))
            · have hn : ¬ ConnOnly st len (flowLen len pad) := by
                unfold ConnOnly
                simp only [hs, ne_eq, not_true_eq_false, false_or, hcl, not_and]
                intro _ h1 h2
                exact hh ⟨h1, h2⟩
              rw [if_neg hh, if_neg hn]
              by_cases hx : flowLen len pad > m.conn ∨ flowLen len pad > st.win - st.short
              · rw [if_pos hx]
                constructor
                · intro h; exact ⟨(Option.some.inj h).symm, h0, hx⟩
                · intro h; exact congrArg some h.1.symm
              · rw [if_neg hx]
                constructor
                · intro h; simp [acceptAct] at h
                · intro h; exact absurd h.2.2 hx

/-- A refused frame changes nothing: no window moves and no byte is accepted for delivery. -/
theorem refused_changes_nothing (m : Mon) (sid : Nat) (len pad : Int) (es : Bool) (t : Nat)
    (h : (dataAct m sid len pad es).expectFC = some t) : (dataAct m sid len pad es).m = m := by
  have co : (connOnlyAct m sid (flowLen len pad)).expectFC = some t →
      (connOnlyAct m sid (flowLen len pad)).m = m := by
    unfold connOnlyAct
    by_cases hx : flowLen len pad > m.conn
    · rw [if_pos hx]; intro _; rfl
    · rw [if_neg hx]; intro h; cases h
  unfold dataAct at h ⊢
  by_cases hv : len < 0 ∨ pad < -1
  · simp [hv] at h
  · simp only [hv, if_false] at h ⊢
    cases hf : findStream m.streams sid with
    | none => simp [hf] at h
    | some st =>
      simp only [hf] at h ⊢
      cases hs : st.status with
      | closed => simp only [hs] at h ⊢; exact co h
      | halfRemote => simp only [hs] at h ⊢; exact co h
      | preHeaders => simp only [hs] at h ⊢; exact co h
      | open_ =>
        simp only [hs] at h ⊢
        by_cases hcl : st.declCL ≠ -1 ∧ st.bodyBytes + len > st.declCL
        · rw [if_pos hcl] at h ⊢; exact co h
        · rw [if_neg hcl] at h ⊢
          by_cases h0 : flowLen len pad = 0
          · rw [if_pos h0] at h; cases h
          · rw [if_neg h0] at h ⊢
            by_cases hh : st.isHead = true ∧ len > 0
            · rw [if_pos hh] at h ⊢; exact co h
            · rw [if_neg hh] at h ⊢
              by_cases hx : flowLen len pad > m.conn ∨ flowLen len pad > st.win - st.short
              · rw [if_pos hx]
              · rw [if_neg hx] at h; simp [acceptAct] at h

/-- On a live connection a line that does not open a connection is handled by `liveLine`. -/
theorem lineStep_live (m : Mon) (act : Act) (obs : List Obs) (hs : m.started = true) (hd : m.dead = false)
    (hr : ∀ c s, act ≠ .reset c s ∧ act ≠ .treset c s ∧ act ≠ .ereset c s) :
    lineStep m ⟨act, obs⟩ = liveLine m (effAct act obs) obs := by
  unfold lineStep
  cases act with
  | reset c s => exact absurd rfl (hr c s).1
  | treset c s => exact absurd rfl (hr c s).2.1
  | ereset c s => exact absurd rfl (hr c s).2.2
  | _ => simp [hs, hd]

/-- **Excess ⇒ FLOW_CONTROL_ERROR.** If the monitor accepts a DATA line whose frame is beyond
an advertised window, the line reports FLOW_CONTROL_ERROR: RST_STREAM on that stream (server),
or a connection error — GOAWAY or the application-visible ConnectionError — (Transport). -/
theorem excess_is_refused (m m' : Mon) (sid : Nat) (len pad : Int) (es : Bool) (obs : List Obs) (t : Nat)
    (hs : m.started = true) (hd : m.dead = false)
    (h : lineStep m ⟨.data sid len pad es, obs⟩ = .ok m')
    (hx : (dataAct m sid len pad es).expectFC = some t) :
    hasFC t obs = true ∧
    (t ≠ 0 → Obs.rst t errFlowControl ∈ obs) ∧
    (t = 0 → Obs.goaway errFlowControl ∈ obs ∨ Obs.connerr errFlowControl ∈ obs) := by
  rw [lineStep_live m _ obs hs hd (by intro c s; simp)] at h
  have hm := refused_changes_nothing m sid len pad es t hx
  unfold liveLine at h
  simp only [effAct, actStep, hx, hm, hd] at h
  have hc : hasFC t obs = true := by
    by_cases hc : hasFC t obs = true
    · exact hc
    · simp [hc] at h
  refine ⟨hc, fun ht => ?_, fun ht => ?_⟩
  · simpa [hasFC, ht] using hc
  · subst ht
    simpa [hasFC] using hc

theorem finishLine_dead (act : Act) (m m' : Mon) (h : finishLine act m = .ok m') : m'.dead = m.dead := by
  unfold finishLine at h
  split at h
  · by_cases hr : (m.dead || residueOK m) = true
    · simp only [hr, if_true] at h; cases h; rfl
    · simp only [hr] at h
      by_cases hneg : m.configured - m.conn < 0 <;> simp [hneg] at h
  · cases h; rfl

/-- **Within the window ⇒ never FLOW_CONTROL_ERROR.** On an accepted line that leaves the
connection alive: RST_STREAM(FLOW_CONTROL_ERROR) on `sid` appears only if the line is a DATA
frame classified as beyond an advertised window with the error expected on `sid`; and unless a
connection-level report is expected (Transport excess), there is no GOAWAY / ConnectionError
with FLOW_CONTROL_ERROR. (Lines on which the connection dies are covered observation by
observation: `Proofs.FlowMon.obsStep_fc`.) -/
theorem fc_only_on_excess (m m' : Mon) (act : Act) (obs : List Obs) (sid : Nat)
    (hs : m.started = true) (hd : m.dead = false) (hr : ∀ c s, act ≠ .reset c s ∧ act ≠ .treset c s ∧ act ≠ .ereset c s)
    (h : lineStep m ⟨act, obs⟩ = .ok m') (hd' : m'.dead = false) :
    (Obs.rst sid errFlowControl ∈ obs → (actStep m (effAct act obs)).expectFC = some sid) ∧
    ((actStep m (effAct act obs)).expectFC ≠ some 0 →
        Obs.goaway errFlowControl ∉ obs ∧ Obs.connerr errFlowControl ∉ obs) := by
  rw [lineStep_live m act obs hs hd hr] at h
  unfold liveLine at h
  simp only at h
  by_cases hda : (actStep m (effAct act obs)).m.dead = true
  · simp only [hda, if_true] at h
    cases h
    rw [hd'] at hda
    cases hda
  · simp only [hda] at h
    cases he : (actStep m (effAct act obs)).expectFC with
    | some s0 =>
      simp only [he] at h
      by_cases hc : hasFC s0 obs = true
      · simp only [hc, Bool.not_true] at h
        exact ⟨fun hmem => obsFold_fc _ _ _ _ h hd' sid hmem,
               fun hne => obsFold_no_conn_fc _ _ _ _ h hd' hne⟩
      · simp [hc] at h
    | none =>
      simp only [he] at h
      cases hf : obsFold none (actStep m (effAct act obs)).m obs with
      | error e => simp only [hf] at h; cases h
      | ok m1 =>
        simp only [hf] at h
        have hd1 : m1.dead = false := by rw [← finishLine_dead _ m1 m' h]; exact hd'
        refine ⟨fun hmem => ?_, fun _ => obsFold_no_conn_fc _ _ _ _ hf hd1 (by simp)⟩
        have := obsFold_fc _ _ _ _ hf hd1 sid hmem
        cases this

/-- **No excess byte is delivered.** On every prefix of an accepted trace, for every stream the
number of bytes the application has read is at most the number of payload bytes that were
within the advertised windows (refused frames add nothing: `refused_changes_nothing`). -/
theorem delivered_le_accepted (pre suf : List Line) (m : Mon) (h : run Mon.init (pre ++ suf) = .ok m) :
    ∃ mp, run Mon.init pre = .ok mp ∧ ∀ s ∈ mp.streams, s.delivered ≤ s.bodyBytes := by
  obtain ⟨mp, h1, _⟩ := run_append pre suf Mon.init m h
  have i := run_inv pre Mon.init mp minv_init h1
  exact ⟨mp, h1, fun s hs => (i.streams s hs).2.1⟩

/-! #### non-vacuity: the boundary trace of corpus/C11 (exactly the window is accepted,
one byte more is refused with FLOW_CONTROL_ERROR), and a trace the monitor rejects. -/

def boundaryTrace : List Line :=
  [⟨.reset 70000 30000, [.set 30000, .wu 0 4465, .other]⟩,
   ⟨.hdr 1 (-1) false, []⟩,
   ⟨.data 1 30000 (-1) false, []⟩,
   ⟨.data 1 1 (-1) false, [.rst 1 3, .wu 0 30000]⟩]

example : ∃ m, run Mon.init boundaryTrace = .ok m ∧ m.dead = false := ⟨_, rfl, rfl⟩

/-- accepting the excess byte silently is rejected -/
example : run Mon.init (boundaryTrace.take 3 ++ [⟨.data 1 1 (-1) false, []⟩]) = .error "excess-data-not-refused" := rfl

/-- a FLOW_CONTROL_ERROR for a frame within the window is rejected -/
example : run Mon.init (boundaryTrace.take 2 ++ [⟨.data 1 30000 (-1) false, [.rst 1 3]⟩]) =
    .error "flow-control-error-within-window" := rfl

/-- Transport: exactly the stream window is accepted; one more byte is a connection error. -/
def transportBoundary : List Line :=
  [⟨.treset 100000 20000, [.set 20000, .wu 0 100000, .other]⟩,
   ⟨.req 3 0, []⟩,
   ⟨.rhdr 3 false, []⟩,
   ⟨.data 3 16384 (-1) false, []⟩,
   ⟨.data 3 3616 (-1) false, []⟩]

example : ∃ m, run Mon.init transportBoundary = .ok m ∧ m.dead = false := ⟨_, rfl, rfl⟩
example : ∃ m, run Mon.init (transportBoundary ++ [⟨.data 3 1 (-1) false, [.connerr 3, .closed]⟩]) = .ok m ∧ m.dead = true :=
  ⟨_, rfl, rfl⟩
example : run Mon.init (transportBoundary ++ [⟨.data 3 1 (-1) false, [.closed]⟩]) = .error "excess-data-not-refused" := rfl
example : run Mon.init (transportBoundary.take 4 ++ [⟨.data 3 3616 (-1) false, [.connerr 3, .closed]⟩]) =
    .error "flow-control-error-within-window" := rfl

/-! #### stream window before the SETTINGS ACK (known finding `pre-ack-small-stream-window`) -/

/-- The statement of C11 for stream windows: a DATA frame that is delivered to an open stream
and fits the connection window and the stream window ADVERTISED to the peer (`win`: the
protocol default 65535 until the peer has acknowledged a smaller SETTINGS_INITIAL_WINDOW_SIZE)
is never refused. -/
def PreAckStatement : Prop :=
  ∀ (m : Mon) (sid : Nat) (len pad : Int) (es : Bool) (st : StreamSt),
    findStream m.streams sid = some st → ¬ ConnOnly st len (flowLen len pad) → ¬ (len < 0 ∨ pad < -1) →
    flowLen len pad ≤ m.conn → flowLen len pad ≤ st.win →
    (dataAct m sid len pad es).expectFC = none

/-- Server configured with a 1000-byte stream window; the client opens stream 1 before it has
acknowledged the server's SETTINGS (corpus/C11/preack.rigs.ops, recorded from the real server). -/
def preAckTrace : List Line :=
  [⟨.ereset 65535 1000, [.set 1000, .other]⟩,
   ⟨.hdr 1 (-1) false, []⟩]

def mPreAck : Mon :=
  match run Mon.init preAckTrace with
  | .ok m => m
  | .error _ => Mon.init

/-- **C11.pre_ack_statement_false.** 2000 bytes on stream 1 are within the advertised 65535 but the
server (as modelled, and as it is) refuses them with FLOW_CONTROL_ERROR. -/
theorem pre_ack_statement_false : ¬ PreAckStatement := by
  intro h
  have hf : ∃ st, findStream mPreAck.streams 1 = some st ∧ st.win = 65535 ∧ st.short = 64535 := ⟨_, rfl, rfl, rfl⟩
  obtain ⟨st, h1, h2, h3⟩ := hf
  have := h mPreAck 1 2000 (-1) true st h1 (by
      have hs : st.status = .open_ ∧ st.declCL = -1 ∧ st.isHead = false := by
        have : findStream mPreAck.streams 1 = some ⟨1, .open_, 65535, -1, 0, 0, false, false, false, 64535⟩ := rfl
        rw [h1] at this
        cases this
        exact ⟨rfl, rfl, rfl⟩
      unfold ConnOnly
      simp [hs.1, hs.2.1, hs.2.2])
    (by decide) (by decide) (by rw [h2]; decide)
  have e : (dataAct mPreAck 1 2000 (-1) true).expectFC = some 1 := rfl
  rw [e] at this
  cases this

/-- **C11.pre_ack_holds_partial.** Outside the excluded region (`short = 0`: the peer has acknowledged
the SETTINGS, or the configured window is at least 65535) the statement holds: a delivered frame
within the connection window and the advertised stream window is never refused. -/
theorem pre_ack_holds_partial (m : Mon) (sid : Nat) (len pad : Int) (es : Bool) (st : StreamSt)
    (hf : findStream m.streams sid = some st) (hc : ¬ ConnOnly st len (flowLen len pad))
    (hv : ¬ (len < 0 ∨ pad < -1)) (h1 : flowLen len pad ≤ m.conn) (h2 : flowLen len pad ≤ st.win)
    (hs : st.short = 0) : (dataAct m sid len pad es).expectFC = none := by
  cases he : (dataAct m sid len pad es).expectFC with
  | none => rfl
  | some t =>
    have := (excess_iff m sid len pad es t).mp he
    obtain ⟨_, _, st', hf', hx⟩ := this
    rw [hf] at hf'
    cases hf'
    rw [if_neg hc, hs] at hx
    omega

/-- After the acknowledgement no stream is in the excluded region. -/
theorem ack_clears_short (m : Mon) (h : m.acked = false) :
    ∀ s ∈ (actStep m .ack).m.streams, s.short = 0 := by
  simp only [actStep, h]
  intro s hs
  simp only [Bool.false_eq_true, if_false, List.mem_map] at hs
  obtain ⟨a, _, e⟩ := hs
  subst e
  rfl

/-! #### literal wire reading for the Transport (known finding `transport-goaway-not-flushed`) -/

/-- The literal reading: whenever a Transport line with DATA beyond an advertised window is
accepted, GOAWAY(FLOW_CONTROL_ERROR) is on the wire. `excess_is_refused` proves the weaker
"GOAWAY on the wire or ConnectionError(FLOW_CONTROL_ERROR) at the application". -/
def WireStatement : Prop :=
  ∀ (m m' : Mon) (sid : Nat) (len pad : Int) (es : Bool) (obs : List Obs),
    m.started = true → m.dead = false →
    lineStep m ⟨.data sid len pad es, obs⟩ = .ok m' →
    (dataAct m sid len pad es).expectFC = some 0 → Obs.goaway errFlowControl ∈ obs

/-- Monitor state after `transportBoundary` (stream 3 has exactly 0 bytes of window left). -/
def mBoundary : Mon :=
  match run Mon.init transportBoundary with
  | .ok m => m
  | .error _ => Mon.init

/-- **C11.wire_statement_false.** The trace recorded from the real Transport (corpus/C11/tboundary.rigs.ops
case 0: the connection error reaches the application, the connection is closed, no GOAWAY is
flushed) is accepted and contains no GOAWAY. -/
theorem wire_statement_false : ¬ WireStatement := by
  intro h
  have hl : ∃ m', lineStep mBoundary ⟨.data 3 1 (-1) false, [.connerr 3, .closed]⟩ = .ok m' := ⟨_, rfl⟩
  obtain ⟨m', hm'⟩ := hl
  have := h mBoundary m' 3 1 (-1) false [.connerr 3, .closed] rfl rfl hm' rfl
  simp at this

end NetVerif.Proofs.C11
