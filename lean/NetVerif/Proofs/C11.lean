import NetVerif.Proofs.Lemmas.Flow
import NetVerif.Proofs.Lemmas.FlowMonitor
/-!
C11 — HTTP/2 endpoints enforce their advertised receive windows.

Part A (mechanism, `http2/flow.go`): `inflow.take` / `takeInflows` accept a frame of `n`
flow-controlled bytes iff `n` fits in the advertised window(s) — exact at the boundary — and
a refused frame leaves every window untouched.
Part B (monitor): on every trace accepted by `Model.FlowMonitor`, a DATA frame beyond an
advertised window is answered with RST_STREAM(FLOW_CONTROL_ERROR) on its stream and changes
nothing (no byte of it is accepted for delivery); FLOW_CONTROL_ERROR never appears for DATA
within the windows; the application never receives more bytes than were accepted.
-/
namespace NetVerif.Proofs.C11
open NetVerif.Model.Flow NetVerif.Proofs.Flow NetVerif.Model.FlowMonitor NetVerif.Proofs.FlowMon

/-! ## Part A -/

/-- `take` accepts iff `n ≤ avail`; accepted: window shrinks by exactly `n`; refused: unchanged. -/
theorem take_accepts_iff (f : Inflow) (n : Int) :
    ((f.take n).1 = true ↔ n ≤ f.avail) ∧
    ((f.take n).1 = true → (f.take n).2 = { f with avail := f.avail - n }) ∧
    ((f.take n).1 = false → (f.take n).2 = f) := take_spec f n

/-- The boundary is exact: a frame of exactly the window is accepted, one more byte is not. -/
theorem take_boundary (f : Inflow) :
    (f.take f.avail).1 = true ∧ (f.take (f.avail + 1)).1 = false := by
  unfold Inflow.take
  constructor
  · simp
  · have : f.avail + 1 > f.avail := by omega
    simp [this]

/-- `takeInflows` (connection + stream) accepts iff `n` fits in both; all-or-nothing. -/
theorem takeInflows_accepts_iff (f1 f2 : Inflow) (n : Int) :
    ((takeInflows f1 f2 n).1 = true ↔ (n ≤ f1.avail ∧ n ≤ f2.avail)) ∧
    ((takeInflows f1 f2 n).1 = true →
        (takeInflows f1 f2 n).2 = ({ f1 with avail := f1.avail - n }, { f2 with avail := f2.avail - n })) ∧
    ((takeInflows f1 f2 n).1 = false → (takeInflows f1 f2 n).2 = (f1, f2)) := takeInflows_spec f1 f2 n

/-- The window that `take` enforces is the window the peer was told about: a refund only
becomes usable by the peer once `add` has returned it as a WINDOW_UPDATE increment
(`avail` moves by exactly the increment; buffered credit is not enforceable room). -/
theorem enforced_window_is_advertised (f f' : Inflow) (n r : Int) (h : f.add n = some (r, f')) :
    f'.avail = f.avail + r ∧ (r = 0 → ∀ k, (f'.take k).1 = (f.take k).1) := by
  have s := add_spec f f' n r h
  refine ⟨s.2.2.2.1, ?_⟩
  intro hr k
  have : f'.avail = f.avail := by have := s.2.2.2.1; omega
  unfold Inflow.take
  rw [this]
  by_cases hk : k > f.avail <;> simp [hk]

/-! ## Part B -/

/-- Which DATA frames the monitor classifies as beyond the advertised window: the frame is a
DATA frame on a known stream and its flow-controlled length exceeds the connection window,
or — when the stream is open, within its declared Content-Length and the frame non-empty —
the stream window. -/
theorem excess_iff (m : Mon) (sid : Nat) (len pad : Int) (es : Bool) (sid' : Nat) :
    (dataAct m sid len pad es).expectFC = some sid' ↔
      sid' = sid ∧ ¬ (len < 0 ∨ pad < -1) ∧ ∃ st, findStream m.streams sid = some st ∧
        (if st.status = .open_ ∧ ¬ (st.declCL ≠ -1 ∧ st.bodyBytes + len > st.declCL)
         then flowLen len pad ≠ 0 ∧ (flowLen len pad > m.conn ∨ flowLen len pad > st.win)
         else flowLen len pad > m.conn) := by
  unfold dataAct
  by_cases hv : len < 0 ∨ pad < -1
  · simp [hv]
  · simp only [hv, if_false, not_false_eq_true, true_and]
    cases hf : findStream m.streams sid with
    | none => simp
    | some st =>
      simp only [Option.some.injEq, exists_eq_left']
      cases hs : st.status with
      | closed =>
        by_cases hc : flowLen len pad > m.conn <;> simp [hc, eq_comm]
      | halfRemote =>
        by_cases hc : flowLen len pad > m.conn <;> simp [hc, eq_comm]
      | open_ =>
        by_cases hcl : st.declCL ≠ -1 ∧ st.bodyBytes + len > st.declCL
        · by_cases hc : flowLen len pad > m.conn <;> simp [hcl, hc, eq_comm]
        · by_cases h0 : flowLen len pad = 0
          · simp [hcl, h0]
          · by_cases hx : flowLen len pad > m.conn ∨ flowLen len pad > st.win
            · simp [hcl, h0, hx, eq_comm]
            · simp [hcl, h0, hx]

/-- A refused frame changes nothing: no window moves and no byte is accepted for delivery. -/
theorem refused_changes_nothing (m : Mon) (sid : Nat) (len pad : Int) (es : Bool) (sid' : Nat)
    (h : (dataAct m sid len pad es).expectFC = some sid') : (dataAct m sid len pad es).m = m := by
  unfold dataAct at h ⊢
  by_cases hv : len < 0 ∨ pad < -1
  · simp [hv] at h
  · simp only [hv, if_false] at h ⊢
    cases hf : findStream m.streams sid with
    | none => simp [hf] at h
    | some st =>
      simp only [hf] at h ⊢
      cases hs : st.status with
      | closed =>
        simp only [hs] at h ⊢
        by_cases hc : flowLen len pad > m.conn <;> simp [hc] at h ⊢
      | halfRemote =>
        simp only [hs] at h ⊢
        by_cases hc : flowLen len pad > m.conn <;> simp [hc] at h ⊢
      | open_ =>
        simp only [hs] at h ⊢
        by_cases hcl : st.declCL ≠ -1 ∧ st.bodyBytes + len > st.declCL
        · by_cases hc : flowLen len pad > m.conn <;> simp [hcl, hc] at h ⊢
        · by_cases h0 : flowLen len pad = 0
          · simp [hcl, h0] at h
          · by_cases hx : flowLen len pad > m.conn ∨ flowLen len pad > st.win
            · simp [hcl, h0, hx]
            · simp [hcl, h0, hx] at h

/-- On a live connection a non-reset line is handled by `liveLine`. -/
theorem lineStep_live (m : Mon) (act : Act) (obs : List Obs) (hs : m.started = true) (hd : m.dead = false)
    (hr : ∀ c s, act ≠ .reset c s) :
    lineStep m ⟨act, obs⟩ = liveLine m (effAct act obs) obs := by
  unfold lineStep
  cases act with
  | reset c s => exact absurd rfl (hr c s)
  | _ => simp [hs, hd]

/-- **Excess ⇒ FLOW_CONTROL_ERROR.** If the monitor accepts a DATA line whose frame is beyond
an advertised window, the line contains RST_STREAM(FLOW_CONTROL_ERROR) on that stream. -/
theorem excess_is_refused (m m' : Mon) (sid : Nat) (len pad : Int) (es : Bool) (obs : List Obs) (sid' : Nat)
    (hs : m.started = true) (hd : m.dead = false)
    (h : lineStep m ⟨.data sid len pad es, obs⟩ = .ok m')
    (hx : (dataAct m sid len pad es).expectFC = some sid') :
    Obs.rst sid' errFlowControl ∈ obs := by
  rw [lineStep_live m _ obs hs hd (by intro c s; simp)] at h
  have hm := refused_changes_nothing m sid len pad es sid' hx
  unfold liveLine at h
  simp only [effAct, actStep, hx, hm, hd] at h
  by_cases hc : hasFC sid' obs = true
  · simpa [hasFC] using hc
  · simp [hc] at h

theorem finishLine_dead (act : Act) (m m' : Mon) (h : finishLine act m = .ok m') : m'.dead = m.dead := by
  unfold finishLine at h
  split at h
  · by_cases hr : (m.dead || residueOK m) = true
    · simp only [hr, if_true] at h; cases h; rfl
    · simp only [hr] at h
      by_cases hneg : m.configured - m.conn < 0 <;> simp [hneg] at h
  · cases h; rfl

/-- **Within the window ⇒ never FLOW_CONTROL_ERROR.** If an accepted line on a live connection
shows RST_STREAM(FLOW_CONTROL_ERROR) on stream `sid`, the line is a DATA frame that the
monitor classified as beyond an advertised window, on that very stream; and no accepted line
shows GOAWAY(FLOW_CONTROL_ERROR). -/
theorem fc_only_on_excess (m m' : Mon) (act : Act) (obs : List Obs) (sid : Nat)
    (hs : m.started = true) (hd : m.dead = false) (hr : ∀ c s, act ≠ .reset c s)
    (h : lineStep m ⟨act, obs⟩ = .ok m') (hd' : m'.dead = false) :
    (Obs.rst sid errFlowControl ∈ obs → (actStep m (effAct act obs)).expectFC = some sid) ∧
    Obs.goaway errFlowControl ∉ obs := by
  rw [lineStep_live m act obs hs hd hr] at h
  unfold liveLine at h
  simp only at h
  by_cases hda : (actStep m (effAct act obs)).m.dead = true
  · simp only [hda, if_true] at h
    cases h
    rw [hd'] at hda
    cases hda
  · simp only [hda] at h
    cases he : (actStep m (effAct act obs)).expectFC with
    | some s0 =>
      simp only [he] at h
      by_cases hc : hasFC s0 obs = true
      · simp only [hc, Bool.not_true] at h
        exact ⟨fun hmem => obsFold_fc _ _ _ _ h hd' sid hmem, obsFold_no_goaway_fc _ _ _ _ h hd'⟩
      · simp [hc] at h
    | none =>
      simp only [he] at h
      cases hf : obsFold none (actStep m (effAct act obs)).m obs with
      | error e => simp only [hf] at h; cases h
      | ok m1 =>
        simp only [hf] at h
        have hd1 : m1.dead = false := by rw [← finishLine_dead _ m1 m' h]; exact hd'
        refine ⟨fun hmem => ?_, obsFold_no_goaway_fc _ _ _ _ hf hd1⟩
        have := obsFold_fc _ _ _ _ hf hd1 sid hmem
        cases this

/-- **No excess byte is delivered.** On every prefix of an accepted trace, for every stream the
number of bytes the application has read is at most the number of payload bytes that were
within the advertised windows (refused frames add nothing: `refused_changes_nothing`). -/
theorem delivered_le_accepted (pre suf : List Line) (m : Mon) (h : run Mon.init (pre ++ suf) = .ok m) :
    ∃ mp, run Mon.init pre = .ok mp ∧ ∀ s ∈ mp.streams, s.delivered ≤ s.bodyBytes := by
  obtain ⟨mp, h1, _⟩ := run_append pre suf Mon.init m h
  have i := run_inv pre Mon.init mp minv_init h1
  exact ⟨mp, h1, fun s hs => (i.streams s hs).2⟩

/-! #### non-vacuity: the boundary trace of corpus/C11 (exactly the window is accepted,
one byte more is refused with FLOW_CONTROL_ERROR), and a trace the monitor rejects. -/

def boundaryTrace : List Line :=
  [⟨.reset 70000 30000, [.set 30000, .wu 0 4465, .other]⟩,
   ⟨.hdr 1 (-1) false, []⟩,
   ⟨.data 1 30000 (-1) false, []⟩,
   ⟨.data 1 1 (-1) false, [.rst 1 3, .wu 0 30000]⟩]

example : ∃ m, run Mon.init boundaryTrace = .ok m ∧ m.dead = false := ⟨_, rfl, rfl⟩

/-- accepting the excess byte silently is rejected -/
example : run Mon.init (boundaryTrace.take 3 ++ [⟨.data 1 1 (-1) false, []⟩]) = .error "excess-data-not-refused" := rfl

/-- a FLOW_CONTROL_ERROR for a frame within the window is rejected -/
example : run Mon.init (boundaryTrace.take 2 ++ [⟨.data 1 30000 (-1) false, [.rst 1 3]⟩]) =
    .error "flow-control-error-within-window" := rfl

end NetVerif.Proofs.C11
