import NetVerif.Model.QuicFrames
import NetVerif.Model.QuicTransportParams
import NetVerif.Model.QuicPacket
import NetVerif.Gen.C28
import NetVerif.Proofs.Lemmas.QuicCodec
import NetVerif.Proofs.Lemmas.QuicTPRT
import NetVerif.Proofs.Lemmas.QuicPacketRT
/-!
C28 — QUIC frame, packet and transport-parameter codecs round-trip safely.
-/
namespace NetVerif.Proofs.C28
open NetVerif NetVerif.Model.VarintQuic NetVerif.Model.QuicFrames NetVerif.Model.QuicTransportParams
open NetVerif.Proofs.Lemmas.QuicCodec

/-! ### T-tie: constants regenerated from the Go source equal the model's -/

theorem gen_frame_types :
    Gen.C28.frameTypePadding = ftPadding ∧ Gen.C28.frameTypePing = ftPing ∧
    Gen.C28.frameTypeAck = ftAck ∧ Gen.C28.frameTypeAckECN = ftAckECN ∧
    Gen.C28.frameTypeResetStream = ftResetStream ∧ Gen.C28.frameTypeStopSending = ftStopSending ∧
    Gen.C28.frameTypeCrypto = ftCrypto ∧ Gen.C28.frameTypeNewToken = ftNewToken ∧
    Gen.C28.frameTypeStreamBase = ftStreamBase ∧ Gen.C28.frameTypeMaxData = ftMaxData ∧
    Gen.C28.frameTypeMaxStreamData = ftMaxStreamData ∧ Gen.C28.frameTypeMaxStreamsBidi = ftMaxStreamsBidi ∧
    Gen.C28.frameTypeMaxStreamsUni = ftMaxStreamsUni ∧ Gen.C28.frameTypeDataBlocked = ftDataBlocked ∧
    Gen.C28.frameTypeStreamDataBlocked = ftStreamDataBlocked ∧
    Gen.C28.frameTypeStreamsBlockedBidi = ftStreamsBlockedBidi ∧
    Gen.C28.frameTypeStreamsBlockedUni = ftStreamsBlockedUni ∧
    Gen.C28.frameTypeNewConnectionID = ftNewConnectionID ∧
    Gen.C28.frameTypeRetireConnectionID = ftRetireConnectionID ∧
    Gen.C28.frameTypePathChallenge = ftPathChallenge ∧ Gen.C28.frameTypePathResponse = ftPathResponse ∧
    Gen.C28.frameTypeConnectionCloseTransport = ftConnectionCloseTransport ∧
    Gen.C28.frameTypeConnectionCloseApplication = ftConnectionCloseApplication ∧
    Gen.C28.frameTypeHandshakeDone = ftHandshakeDone ∧
    Gen.C28.streamOffBit = streamOffBit ∧ Gen.C28.streamLenBit = streamLenBit ∧
    Gen.C28.streamFinBit = streamFinBit ∧ Gen.C28.maxStreamsLimit = maxStreamsLimit := by decide

theorem gen_param_ids :
    Gen.C28.paramOriginalDestinationConnectionID = idOriginalDstConnID ∧
    Gen.C28.paramMaxIdleTimeout = idMaxIdleTimeout ∧
    Gen.C28.paramStatelessResetToken = idStatelessResetToken ∧
    Gen.C28.paramMaxUDPPayloadSize = idMaxUDPPayloadSize ∧
    Gen.C28.paramInitialMaxData = idInitialMaxData ∧
    Gen.C28.paramInitialMaxStreamDataBidiLocal = idInitialMaxStreamDataBidiLocal ∧
    Gen.C28.paramInitialMaxStreamDataBidiRemote = idInitialMaxStreamDataBidiRemote ∧
    Gen.C28.paramInitialMaxStreamDataUni = idInitialMaxStreamDataUni ∧
    Gen.C28.paramInitialMaxStreamsBidi = idInitialMaxStreamsBidi ∧
    Gen.C28.paramInitialMaxStreamsUni = idInitialMaxStreamsUni ∧
    Gen.C28.paramAckDelayExponent = idAckDelayExponent ∧
    Gen.C28.paramMaxAckDelay = idMaxAckDelay ∧
    Gen.C28.paramDisableActiveMigration = idDisableActiveMigration ∧
    Gen.C28.paramPreferredAddress = idPreferredAddress ∧
    Gen.C28.paramActiveConnectionIDLimit = idActiveConnIDLimit ∧
    Gen.C28.paramInitialSourceConnectionID = idInitialSrcConnID ∧
    Gen.C28.paramRetrySourceConnectionID = idRetrySrcConnID ∧
    Gen.C28.defaultParamMaxUDPPayloadSize = defaultMaxUDPPayloadSize ∧
    Gen.C28.defaultParamAckDelayExponent = defaultAckDelayExponent ∧
    Gen.C28.defaultParamMaxAckDelayMilliseconds = defaultMaxAckDelayMs ∧
    Gen.C28.defaultParamActiveConnIDLimit = defaultActiveConnIDLimit := by decide

theorem gen_packet_consts :
    Gen.C28.maxConnIDLen = Model.QuicPacket.maxConnIDLen ∧
    Gen.C28.headerProtectionSampleSize = Model.QuicPacket.sampleSize ∧
    Gen.C28.aeadOverhead = Model.QuicPacket.aeadOverhead ∧
    Gen.C28.headerFormLong = 128 ∧ Gen.C28.fixedBit = 64 ∧ Gen.C28.keyPhaseBit = 4 ∧
    Gen.C28.longPacketTypeInitial = Model.QuicPacket.typeBits 1 ∧
    Gen.C28.longPacketType0RTT = Model.QuicPacket.typeBits 2 ∧
    Gen.C28.longPacketTypeHandshake = Model.QuicPacket.typeBits 3 ∧
    Gen.C28.longPacketTypeRetry = Model.QuicPacket.typeBits 4 := by decide

/-! ### Frames: what the writer emits parses back to the same frame -/

private theorem parseFrame_of_body (t : Nat) (body tail : List Nat) (f : Frame)
    (h : parseBody t (body ++ tail) = some (f, tail)) :
    parseFrame ((t :: body) ++ tail) = some (f, (t :: body).length) := by
  simp [parseFrame, h]
  omega

private theorem parse1_enc (a : Nat) (x tail : List Nat) (k : Nat → Frame) (h : appendVarint a = some x) :
    parse1 (x ++ tail) k = some (k a, tail) := by
  simp [parse1, takeVarint_append a x tail h]

private theorem parse2_enc (a b : Nat) (x y tail : List Nat) (k : Nat → Nat → Frame)
    (ha : appendVarint a = some x) (hb : appendVarint b = some y) :
    parse2 (x ++ (y ++ tail)) k = some (k a b, tail) := by
  simp [parse2, takeVarint_append a x _ ha, takeVarint_append b y _ hb]

private theorem parse3_enc (a b c : Nat) (x y z tail : List Nat) (k : Nat → Nat → Nat → Frame)
    (ha : appendVarint a = some x) (hb : appendVarint b = some y) (hc : appendVarint c = some z) :
    parse3 (x ++ (y ++ (z ++ tail))) k = some (k a b c, tail) := by
  simp [parse3, takeVarint_append a x _ ha, takeVarint_append b y _ hb, takeVarint_append c z _ hc]

private theorem enc1_inv (t a : Nat) (bs : List Nat) (h : enc1 t a = some bs) :
    ∃ x, appendVarint a = some x ∧ bs = t :: x := by
  unfold enc1 at h
  split at h <;> simp at h
  exact ⟨_, ‹_›, h.symm⟩

private theorem enc2_inv (t a b : Nat) (bs : List Nat) (h : enc2 t a b = some bs) :
    ∃ x y, appendVarint a = some x ∧ appendVarint b = some y ∧ bs = t :: (x ++ y) := by
  unfold enc2 at h
  split at h <;> simp at h
  exact ⟨_, _, ‹_›, ‹_›, h.symm⟩

private theorem enc3_inv (t a b c : Nat) (bs : List Nat) (h : enc3 t a b c = some bs) :
    ∃ x y z, appendVarint a = some x ∧ appendVarint b = some y ∧ appendVarint c = some z ∧
      bs = t :: (x ++ (y ++ z)) := by
  unfold enc3 at h
  split at h <;> simp at h
  exact ⟨_, _, _, ‹_›, ‹_›, ‹_›, h.symm⟩

/-- The writer's frame-by-frame entry points for the frames that are written whole (CRYPTO,
STREAM, ACK and PADDING have their own statements below). -/
def writeFrame (avail : Nat) : Frame → WR
  | .ping => writePing avail
  | .handshakeDone => writeHandshakeDone avail
  | .resetStream id code fs => writeResetStream avail id code fs
  | .stopSending id code => writeStopSending avail id code
  | .newToken tok => writeNewToken avail tok
  | .maxData m => writeMaxData avail m
  | .maxStreamData id m => writeMaxStreamData avail id m
  | .maxStreams uni m => writeMaxStreams avail uni m
  | .dataBlocked m => writeDataBlocked avail m
  | .streamDataBlocked id m => writeStreamDataBlocked avail id m
  | .streamsBlocked uni m => writeStreamsBlocked avail uni m
  | .newConnectionID seq retire cid tok => writeNewConnectionID avail seq retire cid tok
  | .retireConnectionID seq => writeRetireConnectionID avail seq
  | .pathChallenge d => writePath avail ftPathChallenge d
  | .pathResponse d => writePath avail ftPathResponse d
  | .connCloseTransport code ft reason => writeConnCloseTransport avail code ft reason
  | .connCloseApp code reason => writeConnCloseApp avail code reason
  | _ => WR.full

/-- The constraints RFC 9000 puts on the frame fields (frames violating them must be, and are,
rejected by the parser: see `invalid_frames_rejected`). -/
def FrameValid : Frame → Prop
  | .newToken tok => tok ≠ []
  | .maxStreams _ m => m ≤ maxStreamsLimit
  | .streamsBlocked _ m => m ≤ maxStreamsLimit
  | .newConnectionID seq retire cid tok => retire ≤ seq ∧ 1 ≤ cid.length ∧ cid.length ≤ 20 ∧ tok.length = 16
  | .pathChallenge d => d.length = 8
  | .pathResponse d => d.length = 8
  | .stream _ off _ data => off + data.length < 4611686018427387904
  | _ => True

private theorem writeSized_added (avail : Nat) (e : Option (List Nat)) (bs : List Nat)
    (h : writeSized avail e = WR.added bs) : e = some bs ∧ bs.length ≤ avail := by
  unfold writeSized at h
  split at h
  · simp at h
  · split at h
    · simp at h
    · simp at h; subst h; exact ⟨rfl, by omega⟩

attribute [local simp] ftPadding ftPing ftAck ftAckECN ftResetStream ftStopSending ftCrypto ftNewToken
  ftStreamBase ftMaxData ftMaxStreamData ftMaxStreamsBidi ftMaxStreamsUni ftDataBlocked ftStreamDataBlocked
  ftStreamsBlockedBidi ftStreamsBlockedUni ftNewConnectionID ftRetireConnectionID ftPathChallenge
  ftPathResponse ftConnectionCloseTransport ftConnectionCloseApplication ftHandshakeDone

/-- **Frame round trip.** Whatever the writer appends for a valid frame parses back to the
same frame, consumes exactly the appended bytes whatever follows them, and fits in `avail`. -/
theorem frame_roundtrip (avail : Nat) (f : Frame) (bs tail : List Nat) (hv : FrameValid f)
    (h : writeFrame avail f = WR.added bs) :
    parseFrame (bs ++ tail) = some (f, bs.length) ∧ bs.length ≤ avail := by
  cases f <;> simp only [writeFrame] at h <;> try (simp at h; done)
  case ping =>
    unfold writePing at h; split at h <;> simp at h; subst h
    exact ⟨by simp [parseFrame, parseBody], by simp; omega⟩
  case handshakeDone =>
    unfold writeHandshakeDone at h; split at h <;> simp at h; subst h
    exact ⟨by simp [parseFrame, parseBody], by simp; omega⟩
  case resetStream id code fs =>
    obtain ⟨he, hl⟩ := writeSized_added _ _ _ h
    obtain ⟨x, y, z, hx, hy, hz, rfl⟩ := enc3_inv _ _ _ _ _ he
    refine ⟨?_, hl⟩
    have := parseFrame_of_body ftResetStream (x ++ (y ++ z)) tail (Frame.resetStream id code fs)
      (by simp [parseBody, parse3_enc id code fs x y z tail Frame.resetStream hx hy hz])
    simpa using this
  case stopSending id code =>
    obtain ⟨he, hl⟩ := writeSized_added _ _ _ h
    obtain ⟨x, y, hx, hy, rfl⟩ := enc2_inv _ _ _ _ he
    refine ⟨?_, hl⟩
    have := parseFrame_of_body ftStopSending (x ++ y) tail (Frame.stopSending id code)
      (by simp [parseBody, parse2_enc id code x y tail Frame.stopSending hx hy])
    simpa using this
  case maxData m =>
    obtain ⟨he, hl⟩ := writeSized_added _ _ _ h
    obtain ⟨x, hx, rfl⟩ := enc1_inv _ _ _ he
    refine ⟨?_, hl⟩
    have := parseFrame_of_body ftMaxData x tail (Frame.maxData m)
      (by simp [parseBody, parse1_enc m x tail Frame.maxData hx])
    simpa using this
  case maxStreamData id m =>
    obtain ⟨he, hl⟩ := writeSized_added _ _ _ h
    obtain ⟨x, y, hx, hy, rfl⟩ := enc2_inv _ _ _ _ he
    refine ⟨?_, hl⟩
    have := parseFrame_of_body ftMaxStreamData (x ++ y) tail (Frame.maxStreamData id m)
      (by simp [parseBody, parse2_enc id m x y tail Frame.maxStreamData hx hy])
    simpa using this
  case maxStreams uni m =>
    obtain ⟨he, hl⟩ := writeSized_added _ _ _ h
    obtain ⟨x, hx, rfl⟩ := enc1_inv _ _ _ he
    refine ⟨?_, hl⟩
    simp only [FrameValid] at hv
    have hm : ¬ m > maxStreamsLimit := by omega
    cases uni
    · have := parseFrame_of_body ftMaxStreamsBidi x tail (Frame.maxStreams false m)
        (by simp [parseBody, takeVarint_append m x tail hx, hm])
      simpa using this
    · have := parseFrame_of_body ftMaxStreamsUni x tail (Frame.maxStreams true m)
        (by simp [parseBody, takeVarint_append m x tail hx, hm])
      simpa using this
  case dataBlocked m =>
    obtain ⟨he, hl⟩ := writeSized_added _ _ _ h
    obtain ⟨x, hx, rfl⟩ := enc1_inv _ _ _ he
    refine ⟨?_, hl⟩
    have := parseFrame_of_body ftDataBlocked x tail (Frame.dataBlocked m)
      (by simp [parseBody, parse1_enc m x tail Frame.dataBlocked hx])
    simpa using this
  case streamDataBlocked id m =>
    obtain ⟨he, hl⟩ := writeSized_added _ _ _ h
    obtain ⟨x, y, hx, hy, rfl⟩ := enc2_inv _ _ _ _ he
    refine ⟨?_, hl⟩
    have := parseFrame_of_body ftStreamDataBlocked (x ++ y) tail (Frame.streamDataBlocked id m)
      (by simp [parseBody, parse2_enc id m x y tail Frame.streamDataBlocked hx hy])
    simpa using this
  case streamsBlocked uni m =>
    obtain ⟨he, hl⟩ := writeSized_added _ _ _ h
    obtain ⟨x, hx, rfl⟩ := enc1_inv _ _ _ he
    refine ⟨?_, hl⟩
    simp only [FrameValid] at hv
    have hm : ¬ m > maxStreamsLimit := by omega
    cases uni
    · have := parseFrame_of_body ftStreamsBlockedBidi x tail (Frame.streamsBlocked false m)
        (by simp [parseBody, takeVarint_append m x tail hx, hm])
      simpa using this
    · have := parseFrame_of_body ftStreamsBlockedUni x tail (Frame.streamsBlocked true m)
        (by simp [parseBody, takeVarint_append m x tail hx, hm])
      simpa using this
  case retireConnectionID seq =>
    obtain ⟨he, hl⟩ := writeSized_added _ _ _ h
    obtain ⟨x, hx, rfl⟩ := enc1_inv _ _ _ he
    refine ⟨?_, hl⟩
    have := parseFrame_of_body ftRetireConnectionID x tail (Frame.retireConnectionID seq)
      (by simp [parseBody, parse1_enc seq x tail Frame.retireConnectionID hx])
    simpa using this
  case newToken tok =>
    obtain ⟨he, hl⟩ := writeSized_added _ _ _ h
    refine ⟨?_, hl⟩
    unfold encNewToken at he
    split at he <;> simp at he
    rename_i x hx
    subst he
    simp only [FrameValid] at hv
    have hne : tok.length ≠ 0 := by simpa using hv
    have := parseFrame_of_body ftNewToken x tail (Frame.newToken tok)
      (by simp [parseBody, takeVarintBytes_append tok tail x hx, hne])
    simpa using this
  case connCloseTransport code ft reason =>
    obtain ⟨he, hl⟩ := writeSized_added _ _ _ h
    refine ⟨?_, hl⟩
    unfold encConnCloseTransport at he
    split at he <;> simp at he
    rename_i x y z hx hy hz
    subst he
    have := parseFrame_of_body ftConnectionCloseTransport (x ++ (y ++ z)) tail
      (Frame.connCloseTransport code ft reason)
      (by simp [parseBody, takeVarint_append code x _ hx, takeVarint_append ft y _ hy,
            takeVarintBytes_append reason tail z hz])
    simpa using this
  case connCloseApp code reason =>
    obtain ⟨he, hl⟩ := writeSized_added _ _ _ h
    refine ⟨?_, hl⟩
    unfold encConnCloseApp at he
    split at he <;> simp at he
    rename_i x y hx hy
    subst he
    have := parseFrame_of_body ftConnectionCloseApplication (x ++ y) tail (Frame.connCloseApp code reason)
      (by simp [parseBody, takeVarint_append code x _ hx, takeVarintBytes_append reason tail y hy])
    simpa using this
  case pathChallenge d =>
    simp only [FrameValid] at hv
    unfold writePath at h; split at h <;> simp at h; subst h
    refine ⟨?_, by simp; omega⟩
    have h8 : (d ++ tail).take 8 = d := by rw [← hv]; simp
    have h8' : (d ++ tail).drop 8 = tail := by rw [← hv]; simp
    have := parseFrame_of_body ftPathChallenge d tail (Frame.pathChallenge d)
      (by simp [parseBody, consumePath, h8, h8', hv])
    simpa using this
  case pathResponse d =>
    simp only [FrameValid] at hv
    unfold writePath at h; split at h <;> simp at h; subst h
    refine ⟨?_, by simp; omega⟩
    have h8 : (d ++ tail).take 8 = d := by rw [← hv]; simp
    have h8' : (d ++ tail).drop 8 = tail := by rw [← hv]; simp
    have := parseFrame_of_body ftPathResponse d tail (Frame.pathResponse d)
      (by simp [parseBody, consumePath, h8, h8', hv])
    simpa using this
  case newConnectionID seq retire cid tok =>
    simp only [FrameValid] at hv
    obtain ⟨hsr, hc1, hc2, ht⟩ := hv
    unfold writeNewConnectionID at h
    split at h <;> try (simp at h; done)
    rename_i a b ha hb
    split at h <;> try (simp at h; done)
    rename_i hav
    split at h <;> simp at h
    rename_i enc he
    subst h
    unfold encNewConnectionID at he
    split at he <;> simp at he
    rename_i x y z hx hy hz
    subst he
    have hlx := size_eq_length seq x hx
    have hly := size_eq_length retire y hy
    rw [ha] at hlx; rw [hb] at hly
    simp at hlx hly
    have hzl : z.length = 1 + cid.length := by
      unfold appendUint8Bytes at hz
      split at hz <;> simp at hz
      subst hz; simp; omega
    refine ⟨?_, by simp only [List.length_cons, List.length_append]; subst hlx hly; rw [ht] at hav ⊢; rw [hzl]; omega⟩
    have hnlt : ¬ seq < retire := by omega
    have := parseFrame_of_body ftNewConnectionID (x ++ (y ++ (z ++ tok))) tail
      (Frame.newConnectionID seq retire cid tok)
      (by
        have e : x ++ (y ++ (z ++ tok)) ++ tail = x ++ (y ++ (z ++ (tok ++ tail))) := by simp
        rw [e]
        simp [parseBody, consumeNewConnectionID, takeVarint_append seq x _ hx, takeVarint_append retire y _ hy,
          takeUint8Bytes_append cid _ z hz, hnlt]
        refine ⟨⟨?_, hc2⟩, by omega, ?_, ?_⟩
        · intro hc; simp [hc] at hc1
        · rw [← ht]; simp
        · rw [← ht]; simp)
    simpa using this


private theorem size_mono (v w n m : Nat) (hvw : v ≤ w) (hv : sizeVarint v = some n) (hw : sizeVarint w = some m) :
    n ≤ m := by
  unfold sizeVarint at hv hw
  repeat' split at hv
  all_goals simp at hv
  all_goals subst hv
  all_goals (repeat' split at hw)
  all_goals simp at hw
  all_goals omega

private theorem avb_length (d bs : List Nat) (h : appendVarintBytes d = some bs) :
    ∃ p, appendVarint d.length = some p ∧ bs = p ++ d := by
  unfold appendVarintBytes at h
  split at h <;> simp at h
  exact ⟨_, ‹_›, h.symm⟩

/-- **CRYPTO round trip.** The writer emits a prefix of the data (all of it when there is
room); the frame parses back to the offset and exactly that prefix. -/
theorem crypto_roundtrip (avail off : Nat) (data bs tail : List Nat)
    (h : writeCrypto avail off data = WR.added bs) :
    ∃ k, k ≤ data.length ∧ (0 < data.length → 0 < k) ∧
      parseFrame (bs ++ tail) = some (Frame.crypto off (data.take k), bs.length) ∧ bs.length ≤ avail := by
  unfold writeCrypto at h
  split at h <;> try (simp at h; done)
  rename_i a b ha hb
  split at h <;> try (simp at h; done)
  rename_i hav
  simp only at h
  split at h <;> simp at h
  rename_i enc he
  subst h
  generalize hk : (if avail - (1 + a + b) < data.length then avail - (1 + a + b) else data.length) = k at he
  have hkl : k ≤ data.length := by subst hk; split <;> omega
  have hkm : k ≤ avail - (1 + a + b) := by subst hk; split <;> omega
  unfold encCrypto at he
  split at he <;> simp at he
  rename_i x y hx hy
  subst he
  obtain ⟨p, hp, rfl⟩ := avb_length _ _ hy
  have hlx := size_eq_length off x hx
  rw [ha] at hlx; simp at hlx
  have hlp := size_eq_length _ p hp
  have htk : (data.take k).length = k := by simp; omega
  rw [htk] at hlp
  have := size_mono k data.length p.length b hkl hlp hb
  refine ⟨k, hkl, ?_, ?_, ?_⟩
  · intro hpos; subst hk; split <;> omega
  · have hy' := takeVarintBytes_append (data.take k) tail _ hy
    simp only [List.append_assoc] at hy'
    have := parseFrame_of_body ftCrypto (x ++ (p ++ data.take k)) tail (Frame.crypto off (data.take k))
      (by simp [parseBody, takeVarint_append off x _ hx, hy'])
    simpa using this
  · simp only [List.length_cons, List.length_append, htk]; omega

private theorem stream_typ_bits (o l f : Bool) (t : Nat)
    (ht : t = ((8 + if o = true then streamOffBit else 0) + if l = true then streamLenBit else 0) +
          if f = true then streamFinBit else 0) :
    (8 ≤ t ∧ t ≤ 15) ∧ (t / 4 % 2 = 1 ↔ o = true) ∧ (t / 2 % 2 = 1 ↔ l = true) ∧ (t % 2 = 1 ↔ f = true) := by
  subst ht
  cases o <;> cases l <;> cases f <;> simp [streamOffBit, streamLenBit, streamFinBit]

private theorem parseBody_stream (t : Nat) (b : List Nat) (h : 8 ≤ t ∧ t ≤ 15) :
    parseBody t b = consumeStream t b := by
  have h0 : t ≠ 0 := by omega
  have h1 : t ≠ 1 := by omega
  have h2 : t ≠ 2 := by omega
  have h3 : t ≠ 3 := by omega
  have h4 : t ≠ 4 := by omega
  have h5 : t ≠ 5 := by omega
  have h6 : t ≠ 6 := by omega
  have h7 : t ≠ 7 := by omega
  simp [parseBody, h0, h1, h2, h3, h4, h5, h6, h7, h]

/-- STREAM parser on every combination of the OFF/LEN/FIN bits: the frame built with explicit
bits parses back to the same fields (offset 0 when OFF is clear; without LEN the data runs to
the end of the packet, so nothing may follow). -/
theorem stream_bits_roundtrip (offBit lenBit fin : Bool) (id off : Nat) (data bs tail : List Nat)
    (h : encStream offBit lenBit fin id off data = some bs)
    (hlen : lenBit = false → tail = [])
    (hlim : (if offBit then off else 0) + data.length < 4611686018427387904) :
    parseFrame (bs ++ tail) = some (Frame.stream id (if offBit then off else 0) fin data, bs.length) := by
  simp only [encStream] at h
  generalize hx : appendVarint id = ex at h
  generalize hy : (if offBit = true then appendVarint off else some []) = ey at h
  generalize hz : (if lenBit = true then appendVarintBytes data else some data) = ez at h
  cases ex <;> cases ey <;> cases ez <;> simp at h
  rename_i x y z
  subst h
  obtain ⟨t, ht⟩ : ∃ t, t = ((8 + if offBit = true then streamOffBit else 0) +
      if lenBit = true then streamLenBit else 0) + if fin = true then streamFinBit else 0 := ⟨_, rfl⟩
  rw [← ht]
  obtain ⟨hr, ho, hl, hf⟩ := stream_typ_bits offBit lenBit fin t ht
  clear ht
  have hnl : ¬ ((if offBit then off else 0) + data.length ≥ 4611686018427387904) := by omega
  have hfin : decide (t % 2 = 1) = fin := by
    cases fin <;> simp_all
  have hbody : parseBody t ((x ++ (y ++ z)) ++ tail) =
      some (Frame.stream id (if offBit then off else 0) fin data, tail) := by
    rw [parseBody_stream t _ hr]
    simp only [consumeStream, List.append_assoc, takeVarint_append id x _ hx]
    cases offBit <;> cases lenBit <;> simp at ho hl hy hz hlen hnl ⊢
    · subst hy hz hlen
      simp [ho, hl, hfin]; omega
    · subst hy
      have hz' := takeVarintBytes_append data tail z hz
      simp [ho, hl, hfin, hz']; omega
    · subst hz hlen
      simp [ho, hl, hfin, takeVarint_append off y _ hy]; omega
    · have hz' := takeVarintBytes_append data tail z hz
      simp [ho, hl, hfin, takeVarint_append off y _ hy, hz']; omega
  have := parseFrame_of_body t (x ++ (y ++ z)) tail _ hbody
  simpa using this

/-- **STREAM round trip (writer).** The writer emits a prefix of the data; FIN is kept only
when all the data fits; the frame parses back to exactly that. -/
theorem stream_roundtrip (avail id off : Nat) (fin : Bool) (data bs tail : List Nat)
    (hlim : off + data.length < 4611686018427387904)
    (h : writeStream avail id off fin data = WR.added bs) :
    ∃ k, k ≤ data.length ∧
      parseFrame (bs ++ tail) =
        some (Frame.stream id off (fin && decide (k = data.length)) (data.take k), bs.length) ∧
      bs.length ≤ avail := by
  unfold writeStream at h
  split at h <;> try (simp at h; done)
  rename_i a b c ha hb hc
  split at h <;> try (simp at h; done)
  rename_i hav
  simp only at h
  split at h <;> simp at h
  rename_i enc he
  subst h
  generalize hk : (if avail - (1 + a + b + c) < data.length then avail - (1 + a + b + c) else data.length) = k at he
  have hkl : k ≤ data.length := by subst hk; split <;> omega
  have hkm : k ≤ avail - (1 + a + b + c) := by subst hk; split <;> omega
  have htk : (data.take k).length = k := by simp; omega
  have hfin : (if avail - (1 + a + b + c) < data.length then false else fin) = (fin && decide (k = data.length)) := by
    subst hk
    split
    · have : ¬ (avail - (1 + a + b + c) = data.length) := by omega
      simp [this]
    · simp
  rw [hfin] at he
  have hrt := stream_bits_roundtrip (decide (off ≠ 0)) true (fin && decide (k = data.length)) id off
    (data.take k) enc tail he (by simp) (by split <;> (rw [htk]; omega))
  have hoff : (if decide (off ≠ 0) = true then off else 0) = off := by
    by_cases h0 : off = 0 <;> simp [h0]
  rw [hoff] at hrt
  refine ⟨k, hkl, hrt, ?_⟩
  -- size accounting
  simp only [encStream] at he
  generalize hx : appendVarint id = ex at he
  generalize hy : (if decide (off ≠ 0) = true then appendVarint off else some []) = ey at he
  generalize hz : appendVarintBytes (data.take k) = ez at he
  cases ex <;> cases ey <;> cases ez <;> simp at he
  rename_i x y z
  subst he
  obtain ⟨p, hp, rfl⟩ := avb_length _ _ hz
  have hlx := size_eq_length id x hx
  rw [ha] at hlx; simp at hlx
  have hlp := size_eq_length _ p hp
  rw [htk] at hlp
  have hpc := size_mono k data.length p.length c hkl hlp hc
  have hyb : y.length = b := by
    by_cases h0 : off = 0
    · simp [h0] at hy hb; subst hy; subst hb; rfl
    · simp [h0] at hy hb
      have := size_eq_length off y hy
      rw [hb] at this; simp at this; omega
  simp only [List.length_cons, List.length_append, htk]
  omega

/-! #### ACK -/

private theorem ackMore_parse (ecnLen : Nat) (rs : List (Nat × Nat)) :
    ∀ (prevStart avail count : Nat) (bs : List Nat) (c : Nat) (tail : List Nat),
      ackMore ecnLen rs prevStart avail count = some (bs, c) →
      ∃ k, c = count + k ∧ k ≤ rs.length ∧ (count ≤ 63 → c ≤ 63) ∧
        (ecnLen ≤ avail → bs.length + ecnLen ≤ avail) ∧
        ackTail k prevStart (bs ++ tail) = some (rs.take k, tail) := by
  induction rs with
  | nil =>
    intro prevStart avail count bs c tail h
    simp [ackMore] at h
    obtain ⟨rfl, rfl⟩ := h
    exact ⟨0, by simp, by simp, by simp, by simp, by simp [ackTail]⟩
  | cons r rs ih =>
    intro prevStart avail count bs c tail h
    obtain ⟨s, e⟩ := r
    unfold ackMore at h
    split at h
    · simp at h
    · rename_i hg
      split at h
      · rename_i g z hgv hzv
        split at h
        · simp at h
          obtain ⟨rfl, rfl⟩ := h
          exact ⟨0, by simp, by simp, by simp, by simp, by simp [ackTail]⟩
        · rename_i hstop
          split at h
          · rename_i bs' c' hrec
            simp at h
            obtain ⟨rfl, rfl⟩ := h
            obtain ⟨k, hc, hk, h63, hlen, hp⟩ := ih s (avail - (g.length + z.length)) (count + 1) bs' c' tail hrec
            refine ⟨k + 1, by omega, by simp; omega, ?_, ?_, ?_⟩
            · intro _; apply h63; omega
            · intro _
              have := hlen (by omega)
              simp only [List.length_append]; omega
            · have e1 : g ++ (z ++ bs') ++ tail = g ++ (z ++ (bs' ++ tail)) := by simp
              rw [e1]
              simp only [ackTail, takeVarint_append _ g _ hgv, takeVarint_append _ z _ hzv]
              have h1 : ¬ (prevStart < prevStart - e - 1 + 2) := by omega
              have h2 : ¬ (prevStart - (prevStart - e - 1) - 2 < e - s - 1) := by omega
              have h3 : prevStart - (prevStart - e - 1) - 2 - (e - s - 1) = s := by omega
              have h4 : prevStart - (prevStart - e - 1) - 2 + 1 = e := by omega
              simp [h1, h2, h3, h4, hp]
          · simp at h
      · simp at h

private theorem one_byte_varint (c : Nat) (h : c ≤ 63) : appendVarint c = some [c] := by
  unfold appendVarint; simp [h]

/-- **ACK round trip.** `appendAckFrame` writes the newest range and as many older ranges as
fit (at most 63 more); `consumeAckFrame` reports exactly those ranges, newest first, together
with the largest acknowledged number, the delay and the ECN counts. -/
theorem ack_roundtrip (avail : Nat) (seen : List (Nat × Nat)) (delay : Nat) (ecn : Nat × Nat × Nat)
    (bs tail : List Nat) (h : writeAck avail seen delay ecn = WR.added bs) :
    ∃ s e older k, seen.reverse = (s, e) :: older ∧ k ≤ 63 ∧ k ≤ older.length ∧
      parseFrame (bs ++ tail) = some (Frame.ack (e - 1) delay ((s, e) :: older.take k) ecn, bs.length) ∧
      bs.length ≤ avail := by
  unfold writeAck at h
  split at h
  · simp at h
  · rename_i s e older hrev
    split at h
    · simp at h
    · rename_i hg
      split at h <;> try (simp at h; done)
      rename_i eb l d f heb hl hd hf
      simp only at h
      split at h
      · simp at h
      · rename_i hav
        split at h <;> simp at h
        rename_i more count hmore
        subst h
        obtain ⟨k, hc, hk, h63, hlen, hp⟩ := ackMore_parse eb.length older s
          (avail - (1 + l.length + d.length + 1 + f.length)) 0 more count (eb ++ tail) hmore
        have hc63 : count ≤ 63 := h63 (by omega)
        have hk' : k = count := by omega
        subst hk'
        refine ⟨s, e, older, k, hrev, hc63, hk, ?_, ?_⟩
        · have hcv := one_byte_varint k hc63
          have hfirst1 : ¬ (e - 1 < e - s - 1) := by omega
          have hfirst2 : e - 1 - (e - s - 1) = s := by omega
          have hfirst3 : e - 1 + 1 = e := by omega
          have hp' : ackTail k s (more ++ (eb ++ tail)) = some (older.take k, eb ++ tail) := hp
          by_cases hz : ecn = (0, 0, 0)
          · simp only [hz, if_true] at heb ⊢
            simp [ecnBytes] at heb
            subst heb
            have hp'' : ackTail k s (more ++ tail) = some (older.take k, tail) := by simpa using hp'
            have hcons : consumeAck ftAck ((l ++ (d ++ (k :: (f ++ (more ++ []))))) ++ tail) =
                some (e - 1, delay, (s, e) :: older.take k, (0, 0, 0), tail) := by
              have e1 : (l ++ (d ++ (k :: (f ++ (more ++ []))))) ++ tail =
                  l ++ (d ++ ([k] ++ (f ++ (more ++ ([] ++ tail))))) := by simp
              rw [e1]
              simp only [consumeAck, takeVarint_append _ l _ hl, takeVarint_append _ d _ hd,
                takeVarint_append _ [k] _ hcv, takeVarint_append _ f _ hf]
              simp [hfirst1, hfirst2, hfirst3, hp'']
            have := parseFrame_of_body ftAck (l ++ (d ++ (k :: (f ++ (more ++ []))))) tail
              (Frame.ack (e - 1) delay ((s, e) :: older.take k) (0, 0, 0))
              (by simp only [parseBody]; simp at hcons; simp [hcons])
            simpa using this
          · simp only [hz, if_false] at heb ⊢
            simp only [ecnBytes, hz, if_false] at heb
            split at heb <;> simp at heb
            rename_i a b c ha hb hcc
            subst heb
            obtain ⟨t0, t1, ce⟩ := ecn
            simp only [] at ha hb hcc
            have hcons : consumeAck ftAckECN ((l ++ (d ++ (k :: (f ++ (more ++ (a ++ (b ++ c))))))) ++ tail) =
                some (e - 1, delay, (s, e) :: older.take k, (t0, t1, ce), tail) := by
              have e1 : (l ++ (d ++ (k :: (f ++ (more ++ (a ++ (b ++ c))))))) ++ tail =
                  l ++ (d ++ ([k] ++ (f ++ (more ++ ((a ++ (b ++ c)) ++ tail))))) := by simp
              rw [e1]
              simp only [consumeAck, takeVarint_append _ l _ hl, takeVarint_append _ d _ hd,
                takeVarint_append _ [k] _ hcv, takeVarint_append _ f _ hf]
              have hp'' := hp'
              simp at hp''
              simp [hfirst1, hfirst2, hfirst3, hp'', takeVarint_append _ a _ ha, takeVarint_append _ b _ hb,
                takeVarint_append _ c _ hcc]
            have := parseFrame_of_body ftAckECN (l ++ (d ++ (k :: (f ++ (more ++ (a ++ (b ++ c))))))) tail
              (Frame.ack (e - 1) delay ((s, e) :: older.take k) (t0, t1, ce))
              (by simp only [parseBody]; simp at hcons; simp [hcons])
            simpa using this
        · have := hlen (by omega)
          simp only [List.length_cons, List.length_append] at this ⊢
          omega

/-! #### PADDING -/

private theorem countPadding_replicate (k : Nat) (tail : List Nat) (ht : tail.head? ≠ some 0) :
    countPadding (List.replicate k 0 ++ tail) = k := by
  induction k with
  | zero =>
    cases tail with
    | nil => simp [countPadding]
    | cons a t =>
      cases a with
      | zero => simp at ht
      | succ a => simp [countPadding]
  | succ k ih => simp [List.replicate_succ, countPadding, ih]

/-- A run of `k ≥ 1` PADDING bytes followed by anything that is not PADDING parses as one
PADDING frame of size `k`; `debugFramePadding.write` emits `min size avail` of them. -/
theorem padding_roundtrip (avail size : Nat) (bs tail : List Nat) (ht : tail.head? ≠ some 0)
    (h : writePadding avail size = WR.added bs) (hs : 0 < size) :
    bs = List.replicate (min size avail) 0 ∧ bs.length ≤ avail ∧
    parseFrame (bs ++ tail) = some (Frame.padding bs.length, bs.length) := by
  unfold writePadding at h
  split at h <;> simp at h
  subst h
  rename_i hav
  have hk : 0 < min size avail := by omega
  obtain ⟨k, hk'⟩ : ∃ k, min size avail = k + 1 := ⟨min size avail - 1, by omega⟩
  refine ⟨rfl, by simp; omega, ?_⟩
  rw [hk']
  simp only [List.replicate_succ, List.cons_append, parseFrame, parseBody]
  simp [countPadding_replicate k tail ht]
  omega

/-! #### The parser accepts only frames with in-range fields -/

local macro "pv" h:ident : tactic =>
  `(tactic| (simp [parseBody, parse1, parse2, parse3, consumeStream, consumeNewConnectionID, consumePath] at $h:ident
             <;> (repeat' split at $h:ident) <;> (try simp at $h:ident) <;> (try (obtain ⟨hh, _⟩ := $h:ident; subst hh))
             <;> (try simp [FrameValid]) <;> (try omega)))

private theorem parseBody_valid : ∀ (t : Nat) (rest : List Nat) (f : Frame) (r : List Nat),
    parseBody t rest = some (f, r) → FrameValid f
  | 0, rest, f, r, h => by pv h
  | 1, rest, f, r, h => by pv h
  | 2, rest, f, r, h => by pv h
  | 3, rest, f, r, h => by pv h
  | 4, rest, f, r, h => by pv h
  | 5, rest, f, r, h => by pv h
  | 6, rest, f, r, h => by pv h
  | 7, rest, f, r, h => by pv h
  | 8, rest, f, r, h => by pv h
  | 9, rest, f, r, h => by pv h
  | 10, rest, f, r, h => by pv h
  | 11, rest, f, r, h => by pv h
  | 12, rest, f, r, h => by pv h
  | 13, rest, f, r, h => by pv h
  | 14, rest, f, r, h => by pv h
  | 15, rest, f, r, h => by pv h
  | 16, rest, f, r, h => by pv h
  | 17, rest, f, r, h => by pv h
  | 18, rest, f, r, h => by pv h
  | 19, rest, f, r, h => by pv h
  | 20, rest, f, r, h => by pv h
  | 21, rest, f, r, h => by pv h
  | 22, rest, f, r, h => by pv h
  | 23, rest, f, r, h => by pv h
  | 24, rest, f, r, h => by
    simp [parseBody, consumeNewConnectionID] at h
    repeat' split at h
    all_goals simp at h
    obtain ⟨hh, _⟩ := h
    subst hh
    rename_i hsr cid b3 _ hcid htok _
    simp [FrameValid]
    have hne : cid ≠ [] := fun hc => hcid (Or.inl hc)
    have hpos : 1 ≤ cid.length := by
      cases cid with
      | nil => exact absurd rfl hne
      | cons a t => simp
    have h20 : ¬ (20 < cid.length) := fun hc => hcid (Or.inr hc)
    omega
  | 25, rest, f, r, h => by pv h
  | 26, rest, f, r, h => by
    simp [parseBody, consumePath] at h
    obtain ⟨h8, hh, _⟩ := h
    subst hh
    simp [FrameValid]; omega
  | 27, rest, f, r, h => by
    simp [parseBody, consumePath] at h
    obtain ⟨h8, hh, _⟩ := h
    subst hh
    simp [FrameValid]; omega
  | 28, rest, f, r, h => by pv h
  | 29, rest, f, r, h => by pv h
  | 30, rest, f, r, h => by pv h
  | t + 31, rest, f, r, h => by
    simp [parseBody] at h

/-- **Out-of-range values are rejected**: whatever bytes are given, an accepted frame satisfies
the RFC 9000 field constraints (MAX_STREAMS and STREAMS_BLOCKED ≤ 2^60, non-empty NEW_TOKEN, NEW_CONNECTION_ID with
retire ≤ seq and a 1..20 byte connection ID and 16-byte token, STREAM end offset < 2^62,
8 bytes of path data). -/
theorem parser_accepts_only_valid (b : List Nat) (f : Frame) (n : Nat) (h : parseFrame b = some (f, n)) :
    FrameValid f := by
  unfold parseFrame at h
  split at h
  · simp at h
  · rename_i t rest
    split at h <;> simp at h
    rename_i f' r hb
    obtain ⟨rfl, _⟩ := h
    exact parseBody_valid t rest _ r hb

/-! ### Former findings, repaired upstream: now full theorems -/

private theorem swapAt_getElem? {α : Type} (l : List α) (i j k : Nat) (hi : i < l.length) (hj : j < l.length) :
    (swapAt l i j)[k]? = if k = j then l[i]? else if k = i then l[j]? else l[k]? := by
  unfold swapAt
  simp only [List.getElem?_eq_getElem hi, List.getElem?_eq_getElem hj]
  simp only [List.getElem?_set]
  by_cases hkj : k = j
  · subst hkj; simp [hi, hj]
  · by_cases hki : k = i
    · subst hki
      have : ¬ j = k := fun h => hkj h.symm
      simp [hkj, this, hi, hj]
    · have h1 : ¬ j = k := fun h => hkj h.symm
      have h2 : ¬ i = k := fun h => hki h.symm
      simp [hkj, hki, h1, h2]

private theorem swapAt_length {α : Type} (l : List α) (i j : Nat) : (swapAt l i j).length = l.length := by
  unfold swapAt
  split <;> simp

/-- State of the swap loop after `m` iterations. -/
private theorem debugReverse_inv {α : Type} (l : List α) (m : Nat) (hm : m ≤ l.length / 2) :
    ((List.range m).foldl (fun acc i => swapAt acc i (l.length - 1 - i)) l).length = l.length ∧
    ∀ k, ((List.range m).foldl (fun acc i => swapAt acc i (l.length - 1 - i)) l)[k]? =
      if k < m ∨ (l.length - m ≤ k ∧ k < l.length) then l[l.length - 1 - k]? else l[k]? := by
  induction m with
  | zero =>
    refine ⟨by simp, ?_⟩
    intro k
    have : ¬ (l.length ≤ k ∧ k < l.length) := by omega
    simp [this]
  | succ m ih =>
    obtain ⟨hlen, hget⟩ := ih (by omega)
    rw [List.range_succ, List.foldl_append]
    simp only [List.foldl_cons, List.foldl_nil]
    generalize hacc : (List.range m).foldl (fun acc i => swapAt acc i (l.length - 1 - i)) l = acc at hlen hget
    refine ⟨by rw [swapAt_length, hlen], ?_⟩
    intro k
    have hmi : m < acc.length := by omega
    have hmj : l.length - 1 - m < acc.length := by omega
    rw [swapAt_getElem? acc m (l.length - 1 - m) k hmi hmj, hget m, hget (l.length - 1 - m), hget k]
    have c1 : ¬ (m < m ∨ (l.length - m ≤ m ∧ m < l.length)) := by omega
    have c2 : ¬ (l.length - 1 - m < m ∨ (l.length - m ≤ l.length - 1 - m ∧ l.length - 1 - m < l.length)) := by omega
    simp only [c1, c2, if_false]
    by_cases hk1 : k = l.length - 1 - m
    · subst hk1
      have : l.length - 1 - m < m + 1 ∨ (l.length - (m + 1) ≤ l.length - 1 - m ∧ l.length - 1 - m < l.length) := by omega
      have e : l.length - 1 - (l.length - 1 - m) = m := by omega
      rw [if_pos rfl, if_pos this, e]
    · by_cases hk2 : k = m
      · subst hk2
        have : k < k + 1 ∨ (l.length - (k + 1) ≤ k ∧ k < l.length) := by omega
        rw [if_neg hk1, if_pos rfl, if_pos this]
      · simp only [hk1, hk2, if_false]
        have : (k < m + 1 ∨ (l.length - (m + 1) ≤ k ∧ k < l.length)) ↔ (k < m ∨ (l.length - m ≤ k ∧ k < l.length)) := by
          omega
        simp only [this]

/-- **`parseDebugFrameAck`'s in-place swap loop reverses the range list**, for every length
(the ranges come out lowest first, as written). Formerly false for four or more ranges
(`j := len-1` did not depend on `i`); repaired upstream. -/
theorem debugAckOrder_holds {α : Type} (l : List α) : debugReverse l = l.reverse := by
  obtain ⟨hlen, hget⟩ := debugReverse_inv l (l.length / 2) (Nat.le_refl _)
  apply List.ext_getElem?
  intro k
  unfold debugReverse
  rw [hget k]
  by_cases hk : k < l.length
  · rw [List.getElem?_reverse hk]
    split
    · rfl
    · have : k = l.length - 1 - k := by omega
      rw [← this]
  · have h1 : ¬ (k < l.length / 2 ∨ (l.length - l.length / 2 ≤ k ∧ k < l.length)) := by omega
    simp only [h1, if_false]
    rw [List.getElem?_eq_none (by omega), List.getElem?_eq_none (by simp; omega)]

/-- The witness of the former defect, now reversed correctly. -/
example : debugReverse [1, 2, 3, 4] = [4, 3, 2, 1] := by decide

/-- **RFC 9000 §19.15: the Length field of NEW_CONNECTION_ID is ONE byte in 1..20.** Stated for
frames whose sequence numbers are the one-byte varints 0, 0: the byte after them. Formerly false
for Length bytes ≥ 64 (the field was read as a varint); repaired upstream. -/
theorem newCidLength_holds (l : Nat) (rest : List Nat) (f : Frame) (r : List Nat)
    (h : consumeNewConnectionID (0 :: 0 :: l :: rest) = some (f, r)) : 1 ≤ l ∧ l ≤ 20 := by
  have h0 : takeVarint (0 :: 0 :: l :: rest) = some (0, 0 :: l :: rest) := by
    simp [takeVarint, consumeVarint]
  have h1 : takeVarint (0 :: l :: rest) = some (0, l :: rest) := by
    simp [takeVarint, consumeVarint]
  simp only [consumeNewConnectionID, h0, h1] at h
  simp [takeUint8Bytes, consumeUint8Bytes] at h
  by_cases hlen : rest.length < l
  · simp [hlen] at h
  · simp [hlen] at h
    obtain ⟨⟨hne, h20⟩, _⟩ := h
    have hlen' : l ≤ rest.length := by omega
    rw [Nat.min_eq_left hlen'] at h20
    refine ⟨?_, h20⟩
    cases l with
    | zero => simp at hne
    | succ l => omega

/-- The witness of the former defect (Length byte 0x40 followed by 0x01) is now rejected. -/
example : consumeNewConnectionID (0 :: 0 :: 64 :: 1 :: 7 :: List.replicate 16 9) = none := by decide

/-! ### Transport parameters -/

/-- The integer-valued parameters. -/
def intParamIds : List Nat := [1, 3, 4, 5, 6, 7, 8, 9, 10, 11, 14]

/-- The out-of-range values named by RFC 9000 §18.2 (and C28). -/
def OutOfRange (id v : Nat) : Prop :=
  (id = 3 ∧ v < 1200) ∨ ((id = 8 ∨ id = 9) ∧ v > 1152921504606846976) ∨ (id = 10 ∧ v > 20) ∨
  (id = 11 ∧ v ≥ 16384) ∨ (id = 14 ∧ v < 2)

instance (id v : Nat) : Decidable (OutOfRange id v) := by unfold OutOfRange; exact inferInstance

/-- What receiving integer parameter `id` with value `v` does to the defaults. -/
def setIntParam (id v : Nat) : TParams :=
  if id = 1 then { defaultParams with maxIdleTimeout := (if v > 4294967296 then 0 else v) * msNs }
  else if id = 3 then { defaultParams with maxUDPPayloadSize := v }
  else if id = 4 then { defaultParams with initialMaxData := v }
  else if id = 5 then { defaultParams with initialMaxStreamDataBidiLocal := v }
  else if id = 6 then { defaultParams with initialMaxStreamDataBidiRemote := v }
  else if id = 7 then { defaultParams with initialMaxStreamDataUni := v }
  else if id = 8 then { defaultParams with initialMaxStreamsBidi := v }
  else if id = 9 then { defaultParams with initialMaxStreamsUni := v }
  else if id = 10 then { defaultParams with ackDelayExponent := v }
  else if id = 11 then { defaultParams with maxAckDelay := v * msNs }
  else { defaultParams with activeConnIDLimit := v }

private theorem wholeVarint_enc (v : Nat) (e : List Nat) (h : appendVarint v = some e) :
    wholeVarint e = some v := by
  have := consume_append v e [] h
  simp at this
  simp [wholeVarint, this]

private theorem splitTLVs_single (id : Nat) (val bs : List Nat) (h : tlvBytes id val = some bs) :
    splitTLVs bs = some [(id, val)] := by
  unfold tlvBytes at h
  split at h <;> simp at h
  rename_i a b ha hb
  subst h
  have hpos := (append_length_pos id a ha).1
  unfold splitTLVs
  obtain ⟨n, hn⟩ : ∃ n, (a ++ b).length = n + 1 := ⟨(a ++ b).length - 1, by simp; omega⟩
  rw [hn]
  cases hab : a ++ b with
  | nil => simp [hab] at hn
  | cons x xs =>
    have e1 : x :: xs = a ++ (b ++ []) := by simp [hab]
    simp only [splitTLVsF]
    rw [e1, takeVarint_append id a _ ha]
    simp only [takeVarintBytes_append val [] b hb]
    cases n <;> simp [splitTLVsF]

/-- **Unmarshal rejects exactly the out-of-range values.** A well-formed encoding of one integer
parameter is rejected iff its value is out of range; otherwise the result is the default
parameter set with that one field updated (single-parameter round trip). -/
theorem unmarshal_int_param (id v : Nat) (bs : List Nat) (hid : id ∈ intParamIds)
    (h : tlvInt id v = some bs) :
    unmarshal bs = if OutOfRange id v then none else some (setIntParam id v) := by
  unfold tlvInt at h
  split at h <;> try (simp at h; done)
  rename_i e he
  have hs := splitTLVs_single id e bs h
  have hw := wholeVarint_enc v e he
  simp only [unmarshal, hs, applyAll]
  simp [intParamIds] at hid
  rcases hid with rfl | rfl | rfl | rfl | rfl | rfl | rfl | rfl | rfl | rfl | rfl <;>
    simp [applyParam, hw, OutOfRange, setIntParam, idOriginalDstConnID, idMaxIdleTimeout, idStatelessResetToken,
      idMaxUDPPayloadSize, idInitialMaxData, idInitialMaxStreamDataBidiLocal, idInitialMaxStreamDataBidiRemote,
      idInitialMaxStreamDataUni, idInitialMaxStreamsBidi, idInitialMaxStreamsUni, idAckDelayExponent,
      idMaxAckDelay, idDisableActiveMigration, idPreferredAddress, idActiveConnIDLimit, maxStreamsLimit] <;>
    (split <;> simp_all <;> omega)

/-- Defaults: nothing is transmitted, and nothing received means the RFC defaults. -/
theorem marshal_default : marshal defaultParams = some [] ∧ unmarshal [] = some defaultParams := by decide

/-- Boolean form of the validity predicate (what the Go oracle's `c28TPValid` computes). -/
def tpValidB (p : TParams) : Bool :=
  decide (p.maxIdleTimeout % msNs = 0) && decide (p.maxIdleTimeout / msNs ≤ 4294967296) &&
  (match p.statelessResetToken with | some t => t.length == 16 | none => true) &&
  decide (1200 ≤ p.maxUDPPayloadSize) && decide (p.initialMaxStreamsBidi ≤ maxStreamsLimit) &&
  decide (p.initialMaxStreamsUni ≤ maxStreamsLimit) && decide (p.ackDelayExponent ≤ 20) &&
  decide (p.maxAckDelay % msNs = 0) && decide (p.maxAckDelay / msNs < 16384) && decide (2 ≤ p.activeConnIDLimit) &&
  (match p.preferredAddrConnID with
   | some _ => p.preferredAddrV4.1.length == 4 && p.preferredAddrV6.1.length == 16 &&
       decide (p.preferredAddrV4.2 < 65536) && decide (p.preferredAddrV6.2 < 65536) &&
       (match p.preferredAddrResetToken with | some t => t.length == 16 | none => false)
   | none => p.preferredAddrV4 == ([], 0) && p.preferredAddrV6 == ([], 0) && p.preferredAddrResetToken == none)

theorem tpValidB_sound (p : TParams) (h : tpValidB p = true) : Lemmas.QuicTPRT.TPValid p := by
  unfold tpValidB at h
  simp only [Bool.and_eq_true, decide_eq_true_eq] at h
  obtain ⟨⟨⟨⟨⟨⟨⟨⟨⟨⟨h1, h2⟩, h3⟩, h4⟩, h5⟩, h6⟩, h7⟩, h8⟩, h9⟩, h10⟩, h11⟩ := h
  refine ⟨h1, h2, ?_, h4, h5, h6, h7, h8, h9, h10, ?_, ?_⟩
  · intro t ht; simp [ht] at h3; exact h3
  · intro c hc
    simp only [hc] at h11
    simp only [Bool.and_eq_true, decide_eq_true_eq, beq_iff_eq] at h11
    obtain ⟨⟨⟨⟨a, b⟩, c'⟩, d⟩, e⟩ := h11
    refine ⟨a, b, c', d, ?_⟩
    cases ht : p.preferredAddrResetToken with
    | none => simp [ht] at e
    | some t => simp [ht] at e; exact ⟨t, rfl, e⟩
  · intro hc
    simp only [hc] at h11
    simp only [Bool.and_eq_true, beq_iff_eq] at h11
    exact ⟨h11.1.1, h11.1.2, h11.2⟩

/-- **Transport parameters round trip (all fields at once).** For every parameter set that
passes the decidable validity check, `marshalTransportParameters` followed by
`unmarshalTransportParams` gives back exactly the same parameters. -/
theorem tp_roundtrip (p : TParams) (bs : List Nat) (hv : tpValidB p = true) (h : marshal p = some bs) :
    unmarshal bs = some p :=
  Lemmas.QuicTPRT.tp_roundtrip p bs (tpValidB_sound p hv) h

/-- Non-vacuity: a parameter set using every kind of field is valid, marshals, and comes back. -/
def tpExample : TParams :=
  { originalDstConnID := some [1, 2, 3], maxIdleTimeout := 30000 * msNs, statelessResetToken := some (List.replicate 16 7),
    maxUDPPayloadSize := 1472, initialMaxData := 1048576, initialMaxStreamDataBidiLocal := 65536,
    initialMaxStreamDataBidiRemote := 65537, initialMaxStreamDataUni := 4611686018427387903,
    initialMaxStreamsBidi := 1152921504606846976, initialMaxStreamsUni := 100, ackDelayExponent := 20,
    maxAckDelay := 16383 * msNs, disableActiveMigration := true, preferredAddrConnID := some [9, 8],
    preferredAddrV4 := ([10, 0, 0, 1], 443), preferredAddrV6 := (List.replicate 16 1, 8443),
    preferredAddrResetToken := some (List.replicate 16 3), activeConnIDLimit := 8,
    initialSrcConnID := some [], retrySrcConnID := none }

example : tpValidB tpExample = true ∧ (marshal tpExample).isSome = true ∧
    (marshal tpExample).bind unmarshal = some tpExample := by decide +kernel

/-! ### Packets: protected long- and short-header packets round-trip, AEAD and header protection
as abstract parameters under explicit hypotheses -/

open NetVerif.Model.QuicPacket in
/-- **Long-header packet round trip** (Initial, 0-RTT, Handshake). For ANY `Crypto` such that
`open (seal x) = x`, the AEAD adds 16 bytes and the mask of a 16-byte sample has 5 bytes:
a packet written with a non-zero 32-bit version, connection IDs of at most 20 bytes and a packet
number that decodes in the receiver's window parses back — whatever follows it in the datagram —
to the same type, version, packet number, connection IDs and token, with the payload truncated to
the datagram room and zero-padded to the sample size (`Padded`), reporting exactly its length.
Whatever the datagram limit, the bytes counted by the 2-byte Length field (packet number, payload,
tag: everything after `longPnumOff`) number at most 16383 = 2^14 - 1, so the field never wraps. -/
theorem long_packet_roundtrip (c : Crypto) (lim ptype version : Nat) (dcid scid token : List Nat) (pnum : Nat)
    (maxAcked recvMax : Int) (payload pkt trailing : List Nat)
    (hopen : ∀ pn hdr pay, c.aeadOpen pn hdr (c.aeadSeal pn hdr pay) = some pay)
    (hlen : ∀ pn hdr pay, (c.aeadSeal pn hdr pay).length = pay.length + 16)
    (hmask : ∀ s, s.length = sampleSize → (c.hpMask s).length = 5)
    (hpt : 1 ≤ ptype ∧ ptype ≤ 3) (hv0 : 0 < version) (hv : version < 4294967296)
    (hdl : dcid.length ≤ 20) (hsl : scid.length ≤ 20)
    (hdec : Model.PacketNumber.decodePN recvMax ((pnum % 256 ^ pnLen pnum maxAcked : Nat)) (pnLen pnum maxAcked) = (pnum : Int))
    (h : writeLong c lim ptype version dcid scid token pnum maxAcked payload = PW.packet pkt) :
    ∃ out, Lemmas.QuicPacketRT.Padded payload out ∧ pkt.length ≤ lim ∧
      pkt.length ≤ Lemmas.QuicPacketRT.longPnumOff ptype dcid scid token + 16383 ∧
      parseLong c (pkt ++ trailing) recvMax =
        some ({ ptype := ptype, version := version, num := pnum, dcid := dcid, scid := scid,
                extra := (if ptype = 1 then token else []), payload := out }, pkt.length) :=
  Lemmas.QuicPacketRT.long_roundtrip c lim ptype version dcid scid token pnum maxAcked recvMax payload pkt trailing
    hopen hlen hmask hpt hv0 hv hdl hsl hdec h

open NetVerif.Model.QuicPacket in
/-- **1-RTT (short-header) packet round trip**, same hypotheses; the key phase is 0 or 4 and the
receiver is not in the middle of a key update. -/
theorem short_packet_roundtrip (c cNext : Crypto) (lim phase : Nat) (dcid : List Nat) (pnum : Nat)
    (maxAcked recvMax : Int) (payload pkt : List Nat)
    (hopen : ∀ pn hdr pay, c.aeadOpen pn hdr (c.aeadSeal pn hdr pay) = some pay)
    (hlen : ∀ pn hdr pay, (c.aeadSeal pn hdr pay).length = pay.length + 16)
    (hmask : ∀ s, s.length = sampleSize → (c.hpMask s).length = 5)
    (hph : phase = 0 ∨ phase = 4)
    (hdec : Model.PacketNumber.decodePN recvMax ((pnum % 256 ^ pnLen pnum maxAcked : Nat)) (pnLen pnum maxAcked) = (pnum : Int))
    (h : writeShort c lim phase dcid pnum maxAcked payload = PW.packet pkt) :
    ∃ out, Lemmas.QuicPacketRT.Padded payload out ∧ pkt.length ≤ lim ∧
      parseShort c cNext phase pkt dcid.length recvMax = some (pnum, out) :=
  Lemmas.QuicPacketRT.short_roundtrip c cNext lim phase dcid pnum maxAcked recvMax payload pkt
    hopen hlen hmask hph hdec h

open NetVerif.Model.QuicPacket in
/-- Non-vacuity: the toy instance (the one the Go writer/parser are run with in the D-tie)
satisfies all three cryptographic hypotheses, so the theorems apply to it. -/
theorem toy_satisfies_hypotheses (k : Nat) :
    (∀ pn hdr pay, (toy k).aeadOpen pn hdr ((toy k).aeadSeal pn hdr pay) = some pay) ∧
    (∀ pn hdr pay, ((toy k).aeadSeal pn hdr pay).length = pay.length + 16) ∧
    (∀ s, s.length = sampleSize → ((toy k).hpMask s).length = 5) :=
  ⟨Lemmas.QuicPacketRT.toy_open k, Lemmas.QuicPacketRT.toy_len k, Lemmas.QuicPacketRT.toy_mask k⟩

/-- … and the packet-number hypothesis is satisfiable: 300 sent after 100 was acked (2-byte
encoding) decodes for a receiver that has seen up to 299. -/
example : Model.PacketNumber.decodePN 299 ((300 % 256 ^ Model.QuicPacket.pnLen 300 100 : Nat))
    (Model.QuicPacket.pnLen 300 100) = (300 : Int) := by decide

open NetVerif.Model.QuicPacket in
/-- Non-vacuity / sanity, checked by the kernel on concrete packets with the toy instance:
an Initial with a token and a 2-byte packet number, and a 1-RTT packet, round-trip. -/
theorem toy_packets_roundtrip :
    (match writeLong (toy 0) 1200 1 1 [1, 2, 3, 4] [5, 6, 7, 8, 9] [0xaa, 0xbb] 300 100 [6, 0, 5, 1, 2] with
     | PW.packet pkt => (parseLong (toy 0) (pkt ++ [64, 1, 2]) 299).map (fun r => (r.1.num, r.1.payload, r.1.extra, r.2 = pkt.length))
     | _ => none) = some (300, [6, 0, 5, 1, 2], [0xaa, 0xbb], true) ∧
    (match writeShort (toy 0) 1200 4 [1, 2, 3, 4, 5, 6, 7, 8] 70000 69990 [1] with
     | PW.packet pkt => parseShort (toy 0) (toy 1) 4 pkt 8 69998
     | _ => none) = some (70000, [1, 0, 0]) := by
  decide +kernel

end NetVerif.Proofs.C28
