import NetVerif.Model.QuicFrames
import NetVerif.Model.QuicTransportParams
import NetVerif.Model.QuicPacket
import NetVerif.Gen.C28
import NetVerif.Proofs.Lemmas.QuicCodec
/-!
C28 — QUIC frame, packet and transport-parameter codecs round-trip safely.
-/
namespace NetVerif.Proofs.C28
open NetVerif NetVerif.Model.VarintQuic NetVerif.Model.QuicFrames NetVerif.Model.QuicTransportParams
open NetVerif.Proofs.Lemmas.QuicCodec

/-! ### T-tie: constants regenerated from the Go source equal the model's -/

theorem gen_frame_types :
    Gen.C28.frameTypePadding = ftPadding ∧ Gen.C28.frameTypePing = ftPing ∧
    Gen.C28.frameTypeAck = ftAck ∧ Gen.C28.frameTypeAckECN = ftAckECN ∧
    Gen.C28.frameTypeResetStream = ftResetStream ∧ Gen.C28.frameTypeStopSending = ftStopSending ∧
    Gen.C28.frameTypeCrypto = ftCrypto ∧ Gen.C28.frameTypeNewToken = ftNewToken ∧
    Gen.C28.frameTypeStreamBase = ftStreamBase ∧ Gen.C28.frameTypeMaxData = ftMaxData ∧
    Gen.C28.frameTypeMaxStreamData = ftMaxStreamData ∧ Gen.C28.frameTypeMaxStreamsBidi = ftMaxStreamsBidi ∧
    Gen.C28.frameTypeMaxStreamsUni = ftMaxStreamsUni ∧ Gen.C28.frameTypeDataBlocked = ftDataBlocked ∧
    Gen.C28.frameTypeStreamDataBlocked = ftStreamDataBlocked ∧
    Gen.C28.frameTypeStreamsBlockedBidi = ftStreamsBlockedBidi ∧
    Gen.C28.frameTypeStreamsBlockedUni = ftStreamsBlockedUni ∧
    Gen.C28.frameTypeNewConnectionID = ftNewConnectionID ∧
    Gen.C28.frameTypeRetireConnectionID = ftRetireConnectionID ∧
    Gen.C28.frameTypePathChallenge = ftPathChallenge ∧ Gen.C28.frameTypePathResponse = ftPathResponse ∧
    Gen.C28.frameTypeConnectionCloseTransport = ftConnectionCloseTransport ∧
    Gen.C28.frameTypeConnectionCloseApplication = ftConnectionCloseApplication ∧
    Gen.C28.frameTypeHandshakeDone = ftHandshakeDone ∧
    Gen.C28.streamOffBit = streamOffBit ∧ Gen.C28.streamLenBit = streamLenBit ∧
    Gen.C28.streamFinBit = streamFinBit ∧ Gen.C28.maxStreamsLimit = maxStreamsLimit := by decide

theorem gen_param_ids :
    Gen.C28.paramOriginalDestinationConnectionID = idOriginalDstConnID ∧
    Gen.C28.paramMaxIdleTimeout = idMaxIdleTimeout ∧
    Gen.C28.paramStatelessResetToken = idStatelessResetToken ∧
    Gen.C28.paramMaxUDPPayloadSize = idMaxUDPPayloadSize ∧
    Gen.C28.paramInitialMaxData = idInitialMaxData ∧
    Gen.C28.paramInitialMaxStreamDataBidiLocal = idInitialMaxStreamDataBidiLocal ∧
    Gen.C28.paramInitialMaxStreamDataBidiRemote = idInitialMaxStreamDataBidiRemote ∧
    Gen.C28.paramInitialMaxStreamDataUni = idInitialMaxStreamDataUni ∧
    Gen.C28.paramInitialMaxStreamsBidi = idInitialMaxStreamsBidi ∧
    Gen.C28.paramInitialMaxStreamsUni = idInitialMaxStreamsUni ∧
    Gen.C28.paramAckDelayExponent = idAckDelayExponent ∧
    Gen.C28.paramMaxAckDelay = idMaxAckDelay ∧
    Gen.C28.paramDisableActiveMigration = idDisableActiveMigration ∧
    Gen.C28.paramPreferredAddress = idPreferredAddress ∧
    Gen.C28.paramActiveConnectionIDLimit = idActiveConnIDLimit ∧
    Gen.C28.paramInitialSourceConnectionID = idInitialSrcConnID ∧
    Gen.C28.paramRetrySourceConnectionID = idRetrySrcConnID ∧
    Gen.C28.defaultParamMaxUDPPayloadSize = defaultMaxUDPPayloadSize ∧
    Gen.C28.defaultParamAckDelayExponent = defaultAckDelayExponent ∧
    Gen.C28.defaultParamMaxAckDelayMilliseconds = defaultMaxAckDelayMs ∧
    Gen.C28.defaultParamActiveConnIDLimit = defaultActiveConnIDLimit := by decide

theorem gen_packet_consts :
    Gen.C28.maxConnIDLen = Model.QuicPacket.maxConnIDLen ∧
    Gen.C28.headerProtectionSampleSize = Model.QuicPacket.sampleSize ∧
    Gen.C28.aeadOverhead = Model.QuicPacket.aeadOverhead ∧
    Gen.C28.headerFormLong = 128 ∧ Gen.C28.fixedBit = 64 ∧ Gen.C28.keyPhaseBit = 4 ∧
    Gen.C28.longPacketTypeInitial = Model.QuicPacket.typeBits 1 ∧
    Gen.C28.longPacketType0RTT = Model.QuicPacket.typeBits 2 ∧
    Gen.C28.longPacketTypeHandshake = Model.QuicPacket.typeBits 3 ∧
    Gen.C28.longPacketTypeRetry = Model.QuicPacket.typeBits 4 := by decide

/-! ### Frames: what the writer emits parses back to the same frame -/

private theorem parseFrame_of_body (t : Nat) (body tail : List Nat) (f : Frame)
    (h : parseBody t (body ++ tail) = some (f, tail)) :
    parseFrame ((t :: body) ++ tail) = some (f, (t :: body).length) := by
  simp [parseFrame, h]
  omega

private theorem parse1_enc (a : Nat) (x tail : List Nat) (k : Nat → Frame) (h : appendVarint a = some x) :
    parse1 (x ++ tail) k = some (k a, tail) := by
  simp [parse1, takeVarint_append a x tail h]

private theorem parse2_enc (a b : Nat) (x y tail : List Nat) (k : Nat → Nat → Frame)
    (ha : appendVarint a = some x) (hb : appendVarint b = some y) :
    parse2 (x ++ (y ++ tail)) k = some (k a b, tail) := by
  simp [parse2, takeVarint_append a x _ ha, takeVarint_append b y _ hb]

private theorem parse3_enc (a b c : Nat) (x y z tail : List Nat) (k : Nat → Nat → Nat → Frame)
    (ha : appendVarint a = some x) (hb : appendVarint b = some y) (hc : appendVarint c = some z) :
    parse3 (x ++ (y ++ (z ++ tail))) k = some (k a b c, tail) := by
  simp [parse3, takeVarint_append a x _ ha, takeVarint_append b y _ hb, takeVarint_append c z _ hc]

private theorem enc1_inv (t a : Nat) (bs : List Nat) (h : enc1 t a = some bs) :
    ∃ x, appendVarint a = some x ∧ bs = t :: x := by
  unfold enc1 at h
  split at h <;> simp at h
  exact ⟨_, ‹_›, h.symm⟩

private theorem enc2_inv (t a b : Nat) (bs : List Nat) (h : enc2 t a b = some bs) :
    ∃ x y, appendVarint a = some x ∧ appendVarint b = some y ∧ bs = t :: (x ++ y) := by
  unfold enc2 at h
  split at h <;> simp at h
  exact ⟨_, _, ‹_›, ‹_›, h.symm⟩

private theorem enc3_inv (t a b c : Nat) (bs : List Nat) (h : enc3 t a b c = some bs) :
    ∃ x y z, appendVarint a = some x ∧ appendVarint b = some y ∧ appendVarint c = some z ∧
      bs = t :: (x ++ (y ++ z)) := by
  unfold enc3 at h
  split at h <;> simp at h
  exact ⟨_, _, _, ‹_›, ‹_›, ‹_›, h.symm⟩

/-- The writer's frame-by-frame entry points for the frames that are written whole (CRYPTO,
STREAM, ACK and PADDING have their own statements below). -/
def writeFrame (avail : Nat) : Frame → WR
  | .ping => writePing avail
  | .handshakeDone => writeHandshakeDone avail
  | .resetStream id code fs => writeResetStream avail id code fs
  | .stopSending id code => writeStopSending avail id code
  | .newToken tok => writeNewToken avail tok
  | .maxData m => writeMaxData avail m
  | .maxStreamData id m => writeMaxStreamData avail id m
  | .maxStreams uni m => writeMaxStreams avail uni m
  | .dataBlocked m => writeDataBlocked avail m
  | .streamDataBlocked id m => writeStreamDataBlocked avail id m
  | .streamsBlocked uni m => writeStreamsBlocked avail uni m
  | .newConnectionID seq retire cid tok => writeNewConnectionID avail seq retire cid tok
  | .retireConnectionID seq => writeRetireConnectionID avail seq
  | .pathChallenge d => writePath avail ftPathChallenge d
  | .pathResponse d => writePath avail ftPathResponse d
  | .connCloseTransport code ft reason => writeConnCloseTransport avail code ft reason
  | .connCloseApp code reason => writeConnCloseApp avail code reason
  | _ => WR.full

/-- The constraints RFC 9000 puts on the frame fields (frames violating them must be, and are,
rejected by the parser: see `invalid_frames_rejected`). -/
def FrameValid : Frame → Prop
  | .newToken tok => tok ≠ []
  | .maxStreams _ m => m ≤ maxStreamsLimit
  | .newConnectionID seq retire cid tok => retire ≤ seq ∧ 1 ≤ cid.length ∧ cid.length ≤ 20 ∧ tok.length = 16
  | .pathChallenge d => d.length = 8
  | .pathResponse d => d.length = 8
  | _ => True

private theorem writeSized_added (avail : Nat) (e : Option (List Nat)) (bs : List Nat)
    (h : writeSized avail e = WR.added bs) : e = some bs ∧ bs.length ≤ avail := by
  unfold writeSized at h
  split at h
  · simp at h
  · split at h
    · simp at h
    · simp at h; subst h; exact ⟨rfl, by omega⟩

attribute [local simp] ftPadding ftPing ftAck ftAckECN ftResetStream ftStopSending ftCrypto ftNewToken
  ftStreamBase ftMaxData ftMaxStreamData ftMaxStreamsBidi ftMaxStreamsUni ftDataBlocked ftStreamDataBlocked
  ftStreamsBlockedBidi ftStreamsBlockedUni ftNewConnectionID ftRetireConnectionID ftPathChallenge
  ftPathResponse ftConnectionCloseTransport ftConnectionCloseApplication ftHandshakeDone

/-- **Frame round trip.** Whatever the writer appends for a valid frame parses back to the
same frame, consumes exactly the appended bytes whatever follows them, and fits in `avail`. -/
theorem frame_roundtrip (avail : Nat) (f : Frame) (bs tail : List Nat) (hv : FrameValid f)
    (h : writeFrame avail f = WR.added bs) :
    parseFrame (bs ++ tail) = some (f, bs.length) ∧ bs.length ≤ avail := by
  cases f <;> simp only [writeFrame] at h <;> try (simp at h; done)
  case ping =>
    unfold writePing at h; split at h <;> simp at h; subst h
    exact ⟨by simp [parseFrame, parseBody], by simp; omega⟩
  case handshakeDone =>
    unfold writeHandshakeDone at h; split at h <;> simp at h; subst h
    exact ⟨by simp [parseFrame, parseBody], by simp; omega⟩
  case resetStream id code fs =>
    obtain ⟨he, hl⟩ := writeSized_added _ _ _ h
    obtain ⟨x, y, z, hx, hy, hz, rfl⟩ := enc3_inv _ _ _ _ _ he
    refine ⟨?_, hl⟩
    have := parseFrame_of_body ftResetStream (x ++ (y ++ z)) tail (Frame.resetStream id code fs)
      (by simp [parseBody, parse3_enc id code fs x y z tail Frame.resetStream hx hy hz])
    simpa using this
  case stopSending id code =>
    obtain ⟨he, hl⟩ := writeSized_added _ _ _ h
    obtain ⟨x, y, hx, hy, rfl⟩ := enc2_inv _ _ _ _ he
    refine ⟨?_, hl⟩
    have := parseFrame_of_body ftStopSending (x ++ y) tail (Frame.stopSending id code)
      (by simp [parseBody, parse2_enc id code x y tail Frame.stopSending hx hy])
    simpa using this
  case maxData m =>
    obtain ⟨he, hl⟩ := writeSized_added _ _ _ h
    obtain ⟨x, hx, rfl⟩ := enc1_inv _ _ _ he
    refine ⟨?_, hl⟩
    have := parseFrame_of_body ftMaxData x tail (Frame.maxData m)
      (by simp [parseBody, parse1_enc m x tail Frame.maxData hx])
    simpa using this
  case maxStreamData id m =>
    obtain ⟨he, hl⟩ := writeSized_added _ _ _ h
    obtain ⟨x, y, hx, hy, rfl⟩ := enc2_inv _ _ _ _ he
    refine ⟨?_, hl⟩
    have := parseFrame_of_body ftMaxStreamData (x ++ y) tail (Frame.maxStreamData id m)
      (by simp [parseBody, parse2_enc id m x y tail Frame.maxStreamData hx hy])
    simpa using this
  case maxStreams uni m =>
    obtain ⟨he, hl⟩ := writeSized_added _ _ _ h
    obtain ⟨x, hx, rfl⟩ := enc1_inv _ _ _ he
    refine ⟨?_, hl⟩
    simp only [FrameValid] at hv
    have hm : ¬ m > maxStreamsLimit := by omega
    cases uni
    · have := parseFrame_of_body ftMaxStreamsBidi x tail (Frame.maxStreams false m)
        (by simp [parseBody, takeVarint_append m x tail hx, hm])
      simpa using this
    · have := parseFrame_of_body ftMaxStreamsUni x tail (Frame.maxStreams true m)
        (by simp [parseBody, takeVarint_append m x tail hx, hm])
      simpa using this
  case dataBlocked m =>
    obtain ⟨he, hl⟩ := writeSized_added _ _ _ h
    obtain ⟨x, hx, rfl⟩ := enc1_inv _ _ _ he
    refine ⟨?_, hl⟩
    have := parseFrame_of_body ftDataBlocked x tail (Frame.dataBlocked m)
      (by simp [parseBody, parse1_enc m x tail Frame.dataBlocked hx])
    simpa using this
  case streamDataBlocked id m =>
    obtain ⟨he, hl⟩ := writeSized_added _ _ _ h
    obtain ⟨x, y, hx, hy, rfl⟩ := enc2_inv _ _ _ _ he
    refine ⟨?_, hl⟩
    have := parseFrame_of_body ftStreamDataBlocked (x ++ y) tail (Frame.streamDataBlocked id m)
      (by simp [parseBody, parse2_enc id m x y tail Frame.streamDataBlocked hx hy])
    simpa using this
  case streamsBlocked uni m =>
    obtain ⟨he, hl⟩ := writeSized_added _ _ _ h
    obtain ⟨x, hx, rfl⟩ := enc1_inv _ _ _ he
    refine ⟨?_, hl⟩
    cases uni
    · have := parseFrame_of_body ftStreamsBlockedBidi x tail (Frame.streamsBlocked false m)
        (by simp [parseBody, parse1_enc m x tail _ hx])
      simpa using this
    · have := parseFrame_of_body ftStreamsBlockedUni x tail (Frame.streamsBlocked true m)
        (by simp [parseBody, parse1_enc m x tail _ hx])
      simpa using this
  case retireConnectionID seq =>
    obtain ⟨he, hl⟩ := writeSized_added _ _ _ h
    obtain ⟨x, hx, rfl⟩ := enc1_inv _ _ _ he
    refine ⟨?_, hl⟩
    have := parseFrame_of_body ftRetireConnectionID x tail (Frame.retireConnectionID seq)
      (by simp [parseBody, parse1_enc seq x tail Frame.retireConnectionID hx])
    simpa using this
  case newToken tok =>
    obtain ⟨he, hl⟩ := writeSized_added _ _ _ h
    refine ⟨?_, hl⟩
    unfold encNewToken at he
    split at he <;> simp at he
    rename_i x hx
    subst he
    simp only [FrameValid] at hv
    have hne : tok.length ≠ 0 := by simpa using hv
    have := parseFrame_of_body ftNewToken x tail (Frame.newToken tok)
      (by simp [parseBody, takeVarintBytes_append tok tail x hx, hne])
    simpa using this
  case connCloseTransport code ft reason =>
    obtain ⟨he, hl⟩ := writeSized_added _ _ _ h
    refine ⟨?_, hl⟩
    unfold encConnCloseTransport at he
    split at he <;> simp at he
    rename_i x y z hx hy hz
    subst he
    have := parseFrame_of_body ftConnectionCloseTransport (x ++ (y ++ z)) tail
      (Frame.connCloseTransport code ft reason)
      (by simp [parseBody, takeVarint_append code x _ hx, takeVarint_append ft y _ hy,
            takeVarintBytes_append reason tail z hz])
    simpa using this
  case connCloseApp code reason =>
    obtain ⟨he, hl⟩ := writeSized_added _ _ _ h
    refine ⟨?_, hl⟩
    unfold encConnCloseApp at he
    split at he <;> simp at he
    rename_i x y hx hy
    subst he
    have := parseFrame_of_body ftConnectionCloseApplication (x ++ y) tail (Frame.connCloseApp code reason)
      (by simp [parseBody, takeVarint_append code x _ hx, takeVarintBytes_append reason tail y hy])
    simpa using this
  case pathChallenge d =>
    simp only [FrameValid] at hv
    unfold writePath at h; split at h <;> simp at h; subst h
    refine ⟨?_, by simp; omega⟩
    have := parseFrame_of_body ftPathChallenge d tail (Frame.pathChallenge d)
      (by simp [parseBody, consumePath, hv, ← hv])
    simpa using this
  case pathResponse d =>
    simp only [FrameValid] at hv
    unfold writePath at h; split at h <;> simp at h; subst h
    refine ⟨?_, by simp; omega⟩
    have := parseFrame_of_body ftPathResponse d tail (Frame.pathResponse d)
      (by simp [parseBody, consumePath, hv, ← hv])
    simpa using this
  case newConnectionID seq retire cid tok =>
    simp only [FrameValid] at hv
    obtain ⟨hsr, hc1, hc2, ht⟩ := hv
    unfold writeNewConnectionID at h
    split at h <;> try (simp at h; done)
    rename_i a b ha hb
    split at h <;> try (simp at h; done)
    rename_i hav
    split at h <;> simp at h
    rename_i enc he
    subst h
    unfold encNewConnectionID at he
    split at he <;> simp at he
    rename_i x y z hx hy hz
    subst he
    -- for 1..20 bytes the 8-bit length prefix is also the 1-byte varint
    have hz' : appendVarintBytes cid = some z := by
      unfold appendUint8Bytes at hz
      split at hz <;> simp at hz
      subst hz
      have : appendVarint cid.length = some [cid.length] := by
        unfold appendVarint; simp; omega
      simp [appendVarintBytes, this]
    have hlx := size_eq_length seq x hx
    have hly := size_eq_length retire y hy
    rw [ha] at hlx; rw [hb] at hly
    simp at hlx hly
    have hzl : z.length = 1 + cid.length := by
      unfold appendUint8Bytes at hz
      split at hz <;> simp at hz
      subst hz; simp; omega
    refine ⟨?_, by simp; omega⟩
    have hnlt : ¬ seq < retire := by omega
    have := parseFrame_of_body ftNewConnectionID (x ++ (y ++ (z ++ tok))) tail
      (Frame.newConnectionID seq retire cid tok)
      (by
        have e : x ++ (y ++ (z ++ tok)) ++ tail = x ++ (y ++ (z ++ (tok ++ tail))) := by simp
        rw [e]
        simp [parseBody, consumeNewConnectionID, takeVarint_append seq x _ hx, takeVarint_append retire y _ hy,
          takeVarintBytes_append cid _ z hz', hnlt]
        refine ⟨⟨by omega, by omega⟩, by omega, ?_, ?_⟩
        · rw [← ht]; simp
        · rw [← ht]; simp)
    simpa using this

end NetVerif.Proofs.C28
