import NetVerif.Model.Edns0
import NetVerif.Gen.C38
/-!
C38 — EDNS(0) header fields encode and decode consistently.
All 4096 extended RCodes × 65536 payload sizes × 2 DO values, as theorems over
the arithmetic model; the mask/shift form regenerated from message.go is proved
equal to the model for every 32-bit TTL (T-tie).
-/
namespace NetVerif.Proofs.C38
open NetVerif NetVerif.Model.Edns0

private theorem lor16 (k x : Nat) (hx : x < 16) : (k * 16) ||| x = k * 16 + x := by
  have := Nat.two_pow_add_eq_or_of_lt (i := 4) (b := x) (by simpa using hx) k
  simp at this
  rw [Nat.mul_comm]; exact this.symm

/-- The TTL written by SetEDNS0 is a 32-bit value with version byte 0. -/
theorem set_ttl_shape (p : Hdr) (len ext : Nat) (d : Bool) :
    (setEDNS0 p len ext d).ttl < 4294967296 ∧ (setEDNS0 p len ext d).ttl / 65536 % 256 = 0 := by
  unfold setEDNS0; cases d <;> simp <;> omega

/-- Extended RCode round trip: the upper 8 bits travel in the TTL, the lower 4 in the header. -/
theorem extRCode_roundtrip (p : Hdr) (len ext : Nat) (d : Bool) (hext : ext < 4096) :
    extendedRCode (setEDNS0 p len ext d).ttl (ext % 16) = ext := by
  have hv := (set_ttl_shape p len ext d).2
  unfold extendedRCode
  rw [if_pos hv, lor16 _ _ (by omega)]
  unfold setEDNS0; cases d <;> simp <;> omega

/-- DNSSEC-OK round trip (for every 16-bit `ext`, representable or not). -/
theorem dnssec_roundtrip (p : Hdr) (len ext : Nat) (d : Bool) :
    dnssecAllowed (setEDNS0 p len ext d).ttl = d := by
  unfold dnssecAllowed setEDNS0; cases d <;> simp <;> omega

/-- Type and Class: OPT, and the payload size is kept. -/
theorem class_roundtrip (p : Hdr) (len ext : Nat) (d : Bool) (hlen : len < 65536) :
    (setEDNS0 p len ext d).cls = len ∧ (setEDNS0 p len ext d).typ = 41 := by
  unfold setEDNS0 typeOPT; simp; omega

/-- SetEDNS0 overwrites: the header after the call does not depend on what it held before (an earlier
SetEDNS0 with another DO/RCode, an ordinary record TTL such as 86400, any Class). -/
theorem set_independent_of_prior (p p' : Hdr) (len ext : Nat) (d : Bool) :
    setEDNS0 p len ext d = setEDNS0 p' len ext d := rfl

/-- Histories: after any sequence of SetEDNS0 calls on one header, only the last call matters. -/
theorem set_history (p : Hdr) (calls : List (Nat × Nat × Bool)) (len ext : Nat) (d : Bool) :
    setEDNS0 (calls.foldl (fun h c => setEDNS0 h c.1 c.2.1 c.2.2) p) len ext d =
      setEDNS0 { typ := 0, cls := 0, ttl := 0 } len ext d := rfl

/-- C38 at full strength: all 4096 × 65536 × 2 combinations. -/
theorem holds (p : Hdr) (len ext : Nat) (d : Bool) (hext : ext < 4096) (hlen : len < 65536) :
    extendedRCode (setEDNS0 p len ext d).ttl (ext % 16) = ext ∧
    dnssecAllowed (setEDNS0 p len ext d).ttl = d ∧
    (setEDNS0 p len ext d).cls = len :=
  ⟨extRCode_roundtrip p len ext d hext, dnssec_roundtrip p len ext d, (class_roundtrip p len ext d hlen).1⟩

/-- The fields do not interfere: the reported extended RCode does not depend on DO or the
payload size, and the reported DO bit does not depend on the RCode or the payload size. -/
theorem independent (p p' : Hdr) (len len' ext ext' r : Nat) (d d' : Bool) :
    extendedRCode (setEDNS0 p len ext d).ttl r = extendedRCode (setEDNS0 p' len' ext d').ttl r ∧
    dnssecAllowed (setEDNS0 p len ext d).ttl = dnssecAllowed (setEDNS0 p' len' ext' d).ttl := by
  constructor
  · have h1 := (set_ttl_shape p len ext d).2
    have h2 := (set_ttl_shape p' len' ext d').2
    have key : ∀ (q : Hdr) (l : Nat) (b : Bool), (setEDNS0 q l ext b).ttl / 16777216 = ext / 16 % 256 := by
      intro q l b; unfold setEDNS0; cases b <;> simp <;> omega
    unfold extendedRCode
    rw [if_pos h1, if_pos h2, key, key]
  · rw [dnssec_roundtrip, dnssec_roundtrip]

/-- What happens outside the representable range (uint16 `ext ≥ 4096`): the top 4 bits are lost,
nothing else. (Not part of C38; documents the model on the whole uint16 domain.) -/
theorem extRCode_truncates (p : Hdr) (len ext : Nat) (d : Bool) :
    extendedRCode (setEDNS0 p len ext d).ttl (ext % 16) = ext % 4096 := by
  have hv := (set_ttl_shape p len ext d).2
  unfold extendedRCode
  rw [if_pos hv, lor16 _ _ (by omega)]
  unfold setEDNS0; cases d <;> simp <;> omega

/-- A non-zero EDNS version makes ExtendedRCode fall back to the header RCode and clears DO. -/
theorem version_guard (ttl r : Nat) (hv : ttl / 65536 % 256 ≠ 0) :
    extendedRCode ttl r = r ∧ dnssecAllowed ttl = false := by
  unfold extendedRCode dnssecAllowed
  rw [if_neg hv]; simp; omega

/-! ### Tie to the source: mask form = arithmetic form -/

private theorem and_mask (x m s k : Nat) (hm0 : m % 2 ^ s = 0) (hm1 : m / 2 ^ s = 2 ^ k - 1) :
    x &&& m = x / 2 ^ s % 2 ^ k * 2 ^ s := by
  have h0 : (x &&& m) % 2 ^ s = 0 := by rw [Nat.and_mod_two_pow, hm0]; simp
  have h1 : (x &&& m) / 2 ^ s = x / 2 ^ s % 2 ^ k := by
    rw [Nat.and_div_two_pow, hm1, Nat.and_two_pow_sub_one_eq_mod]
  have := Nat.div_add_mod (x &&& m) (2 ^ s)
  rw [h0, h1] at this
  rw [← this]; simp [Nat.mul_comm]

theorem and_versionMask (x : Nat) : x &&& 16711680 = x / 65536 % 256 * 65536 := by
  have := and_mask x 16711680 16 8 (by decide) (by decide)
  simpa using this

theorem and_dnssecMask (x : Nat) : x &&& 16744448 = x / 32768 % 512 * 32768 := by
  have := and_mask x 16744448 15 9 (by decide) (by decide)
  simpa using this

theorem gen_dnssecAllowed_eq (ttl : Nat) : Gen.C38.dnssecAllowed ttl = some (dnssecAllowed ttl) := by
  unfold Gen.C38.dnssecAllowed dnssecAllowed
  rw [and_dnssecMask]
  congr 2
  apply propext; constructor <;> intro h <;> omega

theorem gen_extendedRCode_eq (ttl r : Nat) : Gen.C38.extendedRCode ttl r = some (extendedRCode ttl r) := by
  unfold Gen.C38.extendedRCode extendedRCode
  rw [and_versionMask]
  by_cases h : ttl / 65536 % 256 = 0
  · rw [if_pos (by omega), if_pos h]
  · rw [if_neg (by omega), if_neg h]

theorem gen_setEDNS0_eq (p : Hdr) (len ext : Nat) (d : Bool) (hext : ext < 4096) (hlen : len < 65536) :
    Gen.C38.setEDNS0 p.typ p.cls p.ttl len ext d =
      some ((setEDNS0 p len ext d).typ, (setEDNS0 p len ext d).cls, (setEDNS0 p len ext d).ttl) := by
  unfold Gen.C38.setEDNS0 setEDNS0 typeOPT
  have hor : ext % 4294967296 / 16 * 16777216 ||| 32768 = ext % 4294967296 / 16 * 16777216 + 32768 := by
    have := Nat.two_pow_add_eq_or_of_lt (i := 24) (b := 32768) (by decide) (ext % 4294967296 / 16)
    simp at this
    rw [Nat.mul_comm]; exact this.symm
  cases d <;> simp [hor] <;> omega

theorem gen_consts_eq :
    Gen.C38.edns0Version = 0 ∧ Gen.C38.edns0DNSSECOK = 32768 ∧ Gen.C38.ednsVersionMask = 16711680 ∧
    Gen.C38.edns0DNSSECOKMask = 16744448 ∧ Gen.C38.typeOPT = typeOPT := by decide

/-! ### Non-vacuity -/
example : setEDNS0 { typ := 1, cls := 1, ttl := 86400 } 1232 0xabc true = { typ := 41, cls := 1232, ttl := 0xab008000 } := by decide
example : extendedRCode 0xab008000 0xc = 0xabc ∧ dnssecAllowed 0xab008000 = true := by decide
example : extendedRCode 0xab018000 0xc = 0xc ∧ dnssecAllowed 0xab018000 = false := by decide

end NetVerif.Proofs.C38
