import NetVerif.Model.H2FrameParse
/-!
C16 — totality of the inbound frame decoder: over arbitrary header fields and arbitrary payload
bytes the checked model of `http2/frame.go`'s parsers never performs an out-of-range slice or
index (`none`), for every type, flag combination, stream id and length; the byte stream is cut
into frames deterministically, each `ReadFrame` consuming exactly `9 + Length` bytes or reporting
short input.
-/
namespace NetVerif.Proofs.C16Parse
open NetVerif.Model.H2Frame (FrameHeader Frame RErr hasFlag flagPadded flagPriority flagAck
  errCodeProtocol errCodeFrameSize errCodeFlowControl frameHeaderLen)
open NetVerif.Model.H2FrameParse

/-! ## the checked primitives succeed exactly within bounds -/

theorem slice_eq_some {p : List Nat} {lo hi : Int} (h0 : 0 ≤ lo) (h1 : lo ≤ hi) (h2 : hi ≤ p.length) :
    slice p lo hi = some ((p.drop lo.toNat).take (hi.toNat - lo.toNat)) := by
  unfold slice
  simp [h0, h1, h2]

theorem slice_eq_none_iff {p : List Nat} {lo hi : Int} :
    slice p lo hi = none ↔ ¬ (0 ≤ lo ∧ lo ≤ hi ∧ hi ≤ p.length) := by
  unfold slice
  split <;> simp_all

theorem slice_length {p s : List Nat} {lo hi : Int} (h : slice p lo hi = some s) :
    (s.length : Int) = hi - lo := by
  unfold slice at h
  split at h
  · rename_i hc
    cases h
    simp
    omega
  · cases h

theorem idx_eq_some {p : List Nat} {i : Int} (h0 : 0 ≤ i) (h1 : i < p.length) :
    idx p i = some (p.getD i.toNat 0) := by
  unfold idx
  simp [h0, h1]

theorem idx_eq_none_iff {p : List Nat} {i : Int} : idx p i = none ↔ ¬ (0 ≤ i ∧ i < p.length) := by
  unfold idx
  split <;> simp_all

theorem u32_isSome {b : List Nat} (h : 4 ≤ b.length) : ∃ v, u32 b = some v := by
  unfold u32
  have h3 : idx b 3 = some (b.getD 3 0) := idx_eq_some (by omega) (by omega)
  have h0 : idx b 0 = some (b.getD 0 0) := idx_eq_some (by omega) (by omega)
  have h1 : idx b 1 = some (b.getD 1 0) := idx_eq_some (by omega) (by omega)
  have h2 : idx b 2 = some (b.getD 2 0) := idx_eq_some (by omega) (by omega)
  simp [h0, h1, h2, h3]

theorem u16_isSome {b : List Nat} (h : 2 ≤ b.length) : ∃ v, u16 b = some v := by
  unfold u16
  have h0 : idx b 0 = some (b.getD 0 0) := idx_eq_some (by omega) (by omega)
  have h1 : idx b 1 = some (b.getD 1 0) := idx_eq_some (by omega) (by omega)
  simp [h0, h1]

/-- `p[lo:hi]` then `Uint32`: fine when the slice has 4 bytes -/
theorem u32_slice_isSome {p : List Nat} {lo : Int} (h0 : 0 ≤ lo) (h2 : lo + 4 ≤ p.length) :
    ∃ s v, slice p lo (lo + 4) = some s ∧ u32 s = some v := by
  have hs := slice_eq_some (p := p) h0 (by omega : lo ≤ lo + 4) h2
  have hl := slice_length hs
  obtain ⟨v, hv⟩ := u32_isSome (b := (p.drop lo.toNat).take ((lo + 4).toNat - lo.toNat)) (by omega)
  exact ⟨_, v, hs, hv⟩

/-! ## readByte / readUint32 -/

theorem readByte_spec (p : List Nat) :
    (p.length = 0 ∧ readByte p = some (.error .unexpectedEOF)) ∨
    (∃ rest b, readByte p = some (.ok (rest, b)) ∧ rest.length + 1 = p.length) := by
  unfold readByte
  by_cases h : p.length = 0
  · left; simp [h]
  · right
    have hs := slice_eq_some (p := p) (lo := 1) (hi := p.length) (by omega) (by omega) (by omega)
    have hl := slice_length hs
    have hi := idx_eq_some (p := p) (i := 0) (by omega) (by omega)
    refine ⟨(p.drop (1 : Int).toNat).take ((p.length : Int).toNat - (1 : Int).toNat), p.getD (0 : Int).toNat 0, ?_, ?_⟩
    · simp [h, sliceFrom, hs, hi]
    · omega

theorem readUint32_spec (p : List Nat) :
    (p.length < 4 ∧ readUint32 p = some (.error .unexpectedEOF)) ∨
    (∃ rest v, readUint32 p = some (.ok (rest, v)) ∧ rest.length + 4 = p.length) := by
  unfold readUint32
  by_cases h : p.length < 4
  · left; simp [h]
  · right
    have hs := slice_eq_some (p := p) (lo := 4) (hi := p.length) (by omega) (by omega) (by omega)
    have hl := slice_length hs
    obtain ⟨s, v, h4, hv⟩ := u32_slice_isSome (p := p) (lo := 0) (by omega) (by omega)
    simp at h4
    refine ⟨(p.drop (4 : Int).toNat).take ((p.length : Int).toNat - (4 : Int).toNat), v, ?_, ?_⟩
    · simp [h, sliceFrom, sliceTo, hs, h4, hv]
    · omega

/-- `p[:len(p)-n]` is in range exactly when `n ≤ len(p)` — the guard both pad checks establish -/
theorem sliceTo_sub_isSome {p : List Nat} {n : Nat} (h : (n : Int) ≤ p.length) :
    ∃ s, sliceTo p ((p.length : Int) - (n : Int)) = some s := by
  unfold sliceTo
  exact ⟨_, slice_eq_some (by omega) (by omega) (by omega)⟩

/-- … and it PANICS when the guard is missing and `n > len(p)` (the seeded change c16a). -/
theorem sliceTo_sub_panics {p : List Nat} {n : Nat} (h : (n : Int) > p.length) :
    sliceTo p ((p.length : Int) - (n : Int)) = none := by
  unfold sliceTo
  rw [slice_eq_none_iff]
  omega

/-! ## no parser panics -/

theorem dataTail_total (fh : FrameHeader) (q : List Nat) (n : Nat) : dataTail fh q n ≠ none := by
  unfold dataTail
  split
  · simp
  · obtain ⟨s, hs⟩ := sliceTo_sub_isSome (p := q) (n := n) (by omega)
    simp [hs]

theorem parseData_total (fh : FrameHeader) (p : List Nat) : parseData fh p ≠ none := by
  unfold parseData
  split
  · simp
  split
  · rcases readByte_spec p with ⟨_, h⟩ | ⟨rest, b, h, _⟩
    · simp [h]
    · simp only [h]
      exact dataTail_total fh rest b
  · exact dataTail_total fh p 0

theorem headersFin_total (fh : FrameHeader) (q : List Nat) (n : Nat) (pr : NetVerif.Model.H2Frame.PriorityParam) :
    headersFin fh q n pr ≠ none := by
  unfold headersFin
  split
  · simp
  · obtain ⟨s, hs⟩ := sliceTo_sub_isSome (p := q) (n := n) (by omega)
    simp [hs]

theorem headersPrio_total (fh : FrameHeader) (q : List Nat) (n : Nat) : headersPrio fh q n ≠ none := by
  unfold headersPrio
  split
  · rcases readUint32_spec q with ⟨_, h⟩ | ⟨p1, v, h, _⟩
    · simp [h]
    · simp only [h]
      rcases readByte_spec p1 with ⟨_, h'⟩ | ⟨p2, w, h', _⟩
      · simp [h']
      · simp only [h']
        exact headersFin_total fh p2 n _
  · exact headersFin_total fh q n _

theorem parseHeaders_total (fh : FrameHeader) (p : List Nat) : parseHeaders fh p ≠ none := by
  unfold parseHeaders
  split
  · simp
  split
  · rcases readByte_spec p with ⟨_, h⟩ | ⟨rest, b, h, _⟩
    · simp [h]
    · simp only [h]
      exact headersPrio_total fh rest b
  · exact headersPrio_total fh p 0

theorem parsePriority_total (fh : FrameHeader) (p : List Nat) : parsePriority fh p ≠ none := by
  unfold parsePriority
  split
  · simp
  split
  · simp
  · rename_i _ h5
    have h5' : p.length = 5 := by simpa using h5
    obtain ⟨s, v, h4, hv⟩ := u32_slice_isSome (p := p) (lo := 0) (by omega) (by omega)
    simp at h4
    have hi := idx_eq_some (p := p) (i := 4) (by omega) (by omega)
    simp [sliceTo, h4, hv, hi]

theorem parseRSTStream_total (fh : FrameHeader) (p : List Nat) : parseRSTStream fh p ≠ none := by
  unfold parseRSTStream
  split
  · simp
  split
  · simp
  · rename_i h4 _
    have h4' : p.length = 4 := by simpa using h4
    obtain ⟨s, v, hs, hv⟩ := u32_slice_isSome (p := p) (lo := 0) (by omega) (by omega)
    simp at hs
    simp [sliceTo, hs, hv]

theorem settingAt_isSome {buf : List Nat} {i : Nat} (h : 6 * i + 6 ≤ buf.length) :
    ∃ s, settingAt buf i = some s := by
  unfold settingAt
  have h1 := slice_eq_some (p := buf) (lo := (i : Int) * 6) (hi := (i : Int) * 6 + 2) (by omega) (by omega) (by omega)
  have l1 := slice_length h1
  obtain ⟨a, ha⟩ := u16_isSome (b := (buf.drop ((i : Int) * 6).toNat).take (((i : Int) * 6 + 2).toNat - ((i : Int) * 6).toNat)) (by omega)
  have h2 := slice_eq_some (p := buf) (lo := (i : Int) * 6 + 2) (hi := (i : Int) * 6 + 6) (by omega) (by omega) (by omega)
  have l2 := slice_length h2
  obtain ⟨b, hb⟩ := u32_isSome (b := (buf.drop ((i : Int) * 6 + 2).toNat).take (((i : Int) * 6 + 6).toNat - ((i : Int) * 6 + 2).toNat)) (by omega)
  exact ⟨(a, b), by simp [h1, h2, ha, hb]⟩

theorem settingsFrom_isSome {buf : List Nat} : ∀ (n i : Nat), 6 * (i + n) ≤ buf.length →
    ∃ ss, settingsFrom buf i n = some ss := by
  intro n
  induction n with
  | zero => intro i _; exact ⟨[], rfl⟩
  | succ k ih =>
    intro i h
    obtain ⟨s, hs⟩ := settingAt_isSome (buf := buf) (i := i) (by omega)
    obtain ⟨r, hr⟩ := ih (i + 1) (by omega)
    exact ⟨s :: r, by simp [settingsFrom, hs, hr]⟩

theorem parseSettings_total (fh : FrameHeader) (p : List Nat) : parseSettings fh p ≠ none := by
  unfold parseSettings
  split
  · simp
  split
  · simp
  split
  · simp
  · obtain ⟨ss, hss⟩ := settingsFrom_isSome (buf := p) (p.length / 6) 0 (by omega)
    simp only [hss, bind, Option.bind]
    split
    · split <;> simp
    · simp

theorem pushRest_total (fh : FrameHeader) (q : List Nat) (n : Nat) : pushRest fh q n ≠ none := by
  unfold pushRest
  rcases readUint32_spec q with ⟨_, h⟩ | ⟨p1, v, h, _⟩
  · simp [h]
  · simp only [h]
    split
    · simp
    · obtain ⟨s, hs⟩ := sliceTo_sub_isSome (p := p1) (n := n) (by omega)
      simp [hs]

theorem parsePushPromise_total (fh : FrameHeader) (p : List Nat) : parsePushPromise fh p ≠ none := by
  unfold parsePushPromise
  split
  · simp
  split
  · rcases readByte_spec p with ⟨_, h⟩ | ⟨p0, b, h, _⟩
    · simp [h]
    · simp only [h]
      exact pushRest_total fh p0 b
  · exact pushRest_total fh p 0

theorem parsePing_total (fh : FrameHeader) (p : List Nat) : parsePing fh p ≠ none := by
  unfold parsePing
  split
  · simp
  split <;> simp

theorem parseGoAway_total (fh : FrameHeader) (p : List Nat) : parseGoAway fh p ≠ none := by
  unfold parseGoAway
  split
  · simp
  split
  · simp
  · rename_i _ h8
    have h8' : 8 ≤ p.length := by omega
    obtain ⟨s1, v1, hs1, hv1⟩ := u32_slice_isSome (p := p) (lo := 0) (by omega) (by omega)
    obtain ⟨s2, v2, hs2, hv2⟩ := u32_slice_isSome (p := p) (lo := 4) (by omega) (by omega)
    simp at hs1 hs2
    have hd := slice_eq_some (p := p) (lo := 8) (hi := p.length) (by omega) (by omega) (by omega)
    simp [sliceTo, sliceFrom, hs1, hv1, hs2, hv2, hd]

theorem parseWindowUpdate_total (fh : FrameHeader) (p : List Nat) : parseWindowUpdate fh p ≠ none := by
  unfold parseWindowUpdate
  split
  · simp
  · rename_i h4
    have h4' : p.length = 4 := by simpa using h4
    obtain ⟨s, v, hs, hv⟩ := u32_slice_isSome (p := p) (lo := 0) (by omega) (by omega)
    simp at hs
    simp only [sliceTo, hs, hv, bind, Option.bind]
    split
    · split <;> simp
    · simp

theorem parseContinuation_total (fh : FrameHeader) (p : List Nat) : parseContinuation fh p ≠ none := by
  unfold parseContinuation
  split <;> simp

theorem parsePriorityUpdate_total (fh : FrameHeader) (p : List Nat) : parsePriorityUpdate fh p ≠ none := by
  unfold parsePriorityUpdate
  split
  · simp
  split
  · simp
  · rename_i _ h4
    have h4' : 4 ≤ p.length := by omega
    obtain ⟨s, v, hs, hv⟩ := u32_slice_isSome (p := p) (lo := 0) (by omega) (by omega)
    simp at hs
    have hd := slice_eq_some (p := p) (lo := 4) (hi := p.length) (by omega) (by omega) (by omega)
    simp only [sliceTo, hs, hv, bind, Option.bind]
    split
    · simp
    · simp [sliceFrom, hd]

/-- **The frame decoder never panics**: for every header (any type, flags, stream id, length) and
every payload — even one whose length differs from the header's — no parser performs an
out-of-range slice or index. -/
theorem parseFrame_never_panics (fh : FrameHeader) (p : List Nat) : parseFrame fh p ≠ none := by
  unfold parseFrame
  split; exact parseData_total fh p
  split; exact parseHeaders_total fh p
  split; exact parsePriority_total fh p
  split; exact parseRSTStream_total fh p
  split; exact parseSettings_total fh p
  split; exact parsePushPromise_total fh p
  split; exact parsePing_total fh p
  split; exact parseGoAway_total fh p
  split; exact parseWindowUpdate_total fh p
  split; exact parseContinuation_total fh p
  split; exact parsePriorityUpdate_total fh p
  simp

/-! ## error classification (iff-specs) -/

theorem ping_spec (fh : FrameHeader) (p : List Nat) :
    (parsePing fh p = some (.error (.conn errCodeFrameSize)) ↔ p.length ≠ 8) ∧
    (parsePing fh p = some (.error (.conn errCodeProtocol)) ↔ p.length = 8 ∧ fh.streamID ≠ 0) ∧
    (parsePing fh p = some (.ok (.ping fh p)) ↔ p.length = 8 ∧ fh.streamID = 0) := by
  unfold parsePing
  by_cases h8 : p.length = 8 <;> by_cases hs : fh.streamID = 0 <;>
    simp [h8, hs, errCodeFrameSize, errCodeProtocol]

theorem continuation_spec (fh : FrameHeader) (p : List Nat) :
    (parseContinuation fh p = some (.error (.conn errCodeProtocol)) ↔ fh.streamID = 0) ∧
    (parseContinuation fh p = some (.ok (.continuation fh p)) ↔ fh.streamID ≠ 0) := by
  unfold parseContinuation
  by_cases hs : fh.streamID = 0 <;> simp [hs]

theorem rstStream_spec (fh : FrameHeader) (p : List Nat) :
    (parseRSTStream fh p = some (.error (.conn errCodeFrameSize)) ↔ p.length ≠ 4) ∧
    (parseRSTStream fh p = some (.error (.conn errCodeProtocol)) ↔ p.length = 4 ∧ fh.streamID = 0) ∧
    ((∃ c, parseRSTStream fh p = some (.ok (.rstStream fh c))) ↔ p.length = 4 ∧ fh.streamID ≠ 0) := by
  by_cases h4 : p.length = 4
  · by_cases hs : fh.streamID = 0
    · unfold parseRSTStream
      simp [h4, hs, errCodeFrameSize, errCodeProtocol]
    · obtain ⟨s, v, hsl, hv⟩ := u32_slice_isSome (p := p) (lo := 0) (by omega) (by omega)
      simp at hsl
      unfold parseRSTStream
      simp [h4, hs, sliceTo, hsl, hv, errCodeFrameSize, errCodeProtocol]
  · unfold parseRSTStream
    simp [h4, errCodeFrameSize, errCodeProtocol]

theorem priority_spec (fh : FrameHeader) (p : List Nat) :
    (parsePriority fh p = some (.error (.conn errCodeProtocol)) ↔ fh.streamID = 0) ∧
    (parsePriority fh p = some (.error (.conn errCodeFrameSize)) ↔ fh.streamID ≠ 0 ∧ p.length ≠ 5) ∧
    ((∃ pp, parsePriority fh p = some (.ok (.priority fh pp))) ↔ fh.streamID ≠ 0 ∧ p.length = 5) := by
  by_cases hs : fh.streamID = 0
  · unfold parsePriority
    simp [hs, errCodeFrameSize, errCodeProtocol]
  · by_cases h5 : p.length = 5
    · obtain ⟨s, v, h4, hv⟩ := u32_slice_isSome (p := p) (lo := 0) (by omega) (by omega)
      simp at h4
      have hi := idx_eq_some (p := p) (i := 4) (by omega) (by omega)
      unfold parsePriority
      simp [hs, h5, sliceTo, h4, hv, hi, errCodeFrameSize, errCodeProtocol]
    · unfold parsePriority
      simp [hs, h5, errCodeFrameSize, errCodeProtocol]

theorem goAway_spec (fh : FrameHeader) (p : List Nat) :
    (parseGoAway fh p = some (.error (.conn errCodeProtocol)) ↔ fh.streamID ≠ 0) ∧
    (parseGoAway fh p = some (.error (.conn errCodeFrameSize)) ↔ fh.streamID = 0 ∧ p.length < 8) ∧
    ((∃ l c d, parseGoAway fh p = some (.ok (.goAway fh l c d))) ↔ fh.streamID = 0 ∧ 8 ≤ p.length) := by
  by_cases hs : fh.streamID = 0
  · by_cases h8 : p.length < 8
    · unfold parseGoAway
      simp [hs, h8, errCodeFrameSize, errCodeProtocol]
    · obtain ⟨s1, v1, hs1, hv1⟩ := u32_slice_isSome (p := p) (lo := 0) (by omega) (by omega)
      obtain ⟨s2, v2, hs2, hv2⟩ := u32_slice_isSome (p := p) (lo := 4) (by omega) (by omega)
      simp at hs1 hs2
      have hd := slice_eq_some (p := p) (lo := 8) (hi := p.length) (by omega) (by omega) (by omega)
      unfold parseGoAway
      simp [hs, h8, sliceTo, sliceFrom, hs1, hv1, hs2, hv2, hd, errCodeFrameSize, errCodeProtocol]
      omega
  · unfold parseGoAway
    simp [hs, errCodeFrameSize, errCodeProtocol]

/-- HEADERS: once the pad byte and the priority bytes are consumed, a pad length beyond what is left is
a STREAM error PROTOCOL_ERROR, anything else yields the fragment without its padding. -/
theorem headersFin_spec (fh : FrameHeader) (q : List Nat) (n : Nat) (pr : NetVerif.Model.H2Frame.PriorityParam) :
    (headersFin fh q n pr = some (.error (.stream fh.streamID errCodeProtocol)) ↔ q.length < n) ∧
    (n ≤ q.length → headersFin fh q n pr = some (.ok (.headers fh pr (q.take (q.length - n))))) := by
  unfold headersFin
  by_cases h : q.length < n
  · have : (q.length : Int) - (n : Int) < 0 := by omega
    simp [this, h]
    try omega
  · have hn : ¬ (q.length : Int) - (n : Int) < 0 := by omega
    have hs := slice_eq_some (p := q) (lo := 0) (hi := (q.length : Int) - (n : Int)) (by omega) (by omega) (by omega)
    simp only [hn, if_false, sliceTo, hs, bind, Option.bind]
    constructor
    · constructor
      · intro hc; cases hc
      · intro hc; exact absurd hc h
    · intro _
      have : ((q.length : Int) - (n : Int)).toNat = q.length - n := by omega
      simp [this]

/-- DATA likewise: a pad length beyond the rest is a CONNECTION error PROTOCOL_ERROR. -/
theorem dataTail_spec (fh : FrameHeader) (q : List Nat) (n : Nat) :
    (dataTail fh q n = some (.error (.conn errCodeProtocol)) ↔ q.length < n) ∧
    (n ≤ q.length → dataTail fh q n = some (.ok (.data fh (q.take (q.length - n))))) := by
  unfold dataTail
  by_cases h : q.length < n
  · have : (n : Int) > q.length := by omega
    simp [this, h]
    try omega
  · have hn : ¬ (n : Int) > q.length := by omega
    have hs := slice_eq_some (p := q) (lo := 0) (hi := (q.length : Int) - (n : Int)) (by omega) (by omega) (by omega)
    simp only [hn, if_false, sliceTo, hs, bind, Option.bind]
    constructor
    · constructor
      · intro hc; cases hc
      · intro hc; exact absurd hc h
    · intro _
      have : ((q.length : Int) - (n : Int)).toNat = q.length - n := by omega
      simp [this]

/-- SETTINGS: the three framing errors, in the order the code tests them. -/
theorem settings_error_spec (fh : FrameHeader) (p : List Nat) :
    (parseSettings fh p = some (.error (.conn errCodeProtocol)) ↔
      ¬ (hasFlag fh.flags flagAck = true ∧ fh.length > 0) ∧ fh.streamID ≠ 0) ∧
    (¬ (hasFlag fh.flags flagAck = true ∧ fh.length > 0) → fh.streamID = 0 → p.length % 6 ≠ 0 →
      parseSettings fh p = some (.error (.conn errCodeFrameSize))) ∧
    (hasFlag fh.flags flagAck = true ∧ fh.length > 0 →
      parseSettings fh p = some (.error (.conn errCodeFrameSize))) := by
  refine ⟨?_, ?_, ?_⟩
  · by_cases ha : (hasFlag fh.flags flagAck = true ∧ fh.length > 0)
    · unfold parseSettings
      simp [ha, errCodeFrameSize, errCodeProtocol]
    · by_cases hs : fh.streamID = 0
      · have ha' : (hasFlag fh.flags flagAck && decide (fh.length > 0)) = false := by
          simp at ha ⊢
          exact ha
        by_cases h6 : p.length % 6 = 0
        · obtain ⟨ss, hss⟩ := settingsFrom_isSome (buf := p) (p.length / 6) 0 (by omega)
          unfold parseSettings
          simp only [ha', hs, h6, hss]
          simp
          split
          · split <;> simp [errCodeFlowControl, errCodeProtocol]
          · simp
        · unfold parseSettings
          simp [ha', hs, h6, errCodeFrameSize, errCodeProtocol]
      · have ha' : (hasFlag fh.flags flagAck && decide (fh.length > 0)) = false := by
          simp at ha ⊢
          exact ha
        unfold parseSettings
        simp [ha', hs, ha]
  · intro ha hs h6
    have ha' : (hasFlag fh.flags flagAck && decide (fh.length > 0)) = false := by
      simp at ha ⊢
      exact ha
    unfold parseSettings
    simp [ha', hs, h6]
  · intro ha
    unfold parseSettings
    simp [ha.1, ha.2]

/-! ## cutting the byte stream -/

/-- **Frame-stream consumption**: a `ReadFrame` never panics on the header, and when it yields a
frame it has consumed exactly `9 + Length` bytes: the 9 header bytes, then `payload` of the length
the header announces, leaving `rest`; otherwise it reports short input / EOF / a too large frame. -/
theorem frame_stream_consumption (maxRead : Nat) (bs : List Nat) :
    cutFrame maxRead bs ≠ .panic ∧
    (∀ fh payload rest, cutFrame maxRead bs = .frame fh payload rest →
      payload.length = fh.length ∧ fh.length ≤ maxRead ∧
      bs = bs.take 9 ++ payload ++ rest ∧ bs.length = 9 + fh.length + rest.length) ∧
    (cutFrame maxRead bs = .eof ↔ bs = []) := by
  unfold cutFrame
  by_cases h0 : bs.length = 0
  · have : bs = [] := List.length_eq_zero_iff.mp h0
    subst this
    simp
  · have hne : bs ≠ [] := fun h => h0 (by simp [h])
    by_cases h9 : bs.length < frameHeaderLen
    · simp only [h0, h9, if_false, if_true]
      refine ⟨(by intro h; cases h), (by intro _ _ _ h; cases h), ?_⟩
      constructor
      · intro h; cases h
      · intro h; exact absurd h hne
    · have h9' : 9 ≤ bs.length := by
        have : ¬ bs.length < 9 := h9
        omega
      have hhb := slice_eq_some (p := bs) (lo := 0) (hi := 9) (by omega) (by omega) (by omega)
      have hbody := slice_eq_some (p := bs) (lo := 9) (hi := bs.length) (by omega) (by omega) (by omega)
      have hhbl := slice_length hhb
      have hbl := slice_length hbody
      generalize hb1 : (List.take ((9 : Int).toNat - (0 : Int).toNat) (List.drop (0 : Int).toNat bs)) = hbts at hhb hhbl
      generalize hb2 : (List.take ((bs.length : Int).toNat - (9 : Int).toNat) (List.drop (9 : Int).toNat bs)) = body at hbody hbl
      have e1 : hbts = bs.take 9 := by rw [← hb1]; simp
      have e2 : body = bs.drop 9 := by
        rw [← hb2]
        simp
        apply List.take_of_length_le
        simp
      -- the header decodes
      have hdr : ∃ fh, readFrameHeader hbts = some fh := by
        unfold readFrameHeader
        have i0 := idx_eq_some (p := hbts) (i := 0) (by omega) (by omega)
        have i1 := idx_eq_some (p := hbts) (i := 1) (by omega) (by omega)
        have i2 := idx_eq_some (p := hbts) (i := 2) (by omega) (by omega)
        have i3 := idx_eq_some (p := hbts) (i := 3) (by omega) (by omega)
        have i4 := idx_eq_some (p := hbts) (i := 4) (by omega) (by omega)
        obtain ⟨s, v, hs, hv⟩ := u32_slice_isSome (p := hbts) (lo := 5) (by omega) (by omega)
        have hs' : slice hbts 5 9 = some s := by simpa using hs
        simp only [i0, i1, i2, i3, i4, hs', hv, bind, Option.bind]
        exact ⟨_, rfl⟩
      obtain ⟨fh, hfh⟩ := hdr
      simp only [h0, h9, if_false, sliceTo, sliceFrom, hhb, hbody, hfh]
      by_cases hbig : fh.length > maxRead
      · simp only [hbig, if_true]
        refine ⟨(by intro h; cases h), (by intro _ _ _ h; cases h), ?_⟩
        constructor
        · intro h; cases h
        · intro h; exact absurd h hne
      · simp only [hbig, if_false]
        by_cases hshort : body.length < fh.length
        · simp only [hshort, if_true]
          refine ⟨(by intro h; cases h), (by intro _ _ _ h; cases h), ?_⟩
          constructor
          · intro h; cases h
          · intro h; exact absurd h hne
        · have hp := slice_eq_some (p := body) (lo := 0) (hi := fh.length) (by omega) (by omega) (by omega)
          have hr := slice_eq_some (p := body) (lo := fh.length) (hi := body.length) (by omega) (by omega) (by omega)
          have hpl := slice_length hp
          have hrl := slice_length hr
          simp only [hshort, if_false, hp, hr]
          refine ⟨(by intro h; cases h), ?_, ?_⟩
          · intro fh' payload rest heq
            injection heq with q1 q2 q3
            subst q1
            subst q2
            subst q3
            refine ⟨by omega, by omega, ?_, by omega⟩
            have hbl' : body.length = bs.length - 9 := by omega
            have hge : fh.length ≤ body.length := by omega
            have hpay : List.take ((fh.length : Int).toNat - (0 : Int).toNat) (List.drop (0 : Int).toNat body) =
                body.take fh.length := by simp
            have hrest : List.take ((body.length : Int).toNat - (fh.length : Int).toNat)
                (List.drop (fh.length : Int).toNat body) = body.drop fh.length := by
              have t : (fh.length : Int).toNat = fh.length := by omega
              have t' : (body.length : Int).toNat = body.length := by omega
              rw [t, t']
              apply List.take_of_length_le
              simp
            rw [hpay, hrest, List.append_assoc, List.take_append_drop, e2, ← e1]
            rw [e1, List.take_append_drop]
          · constructor
            · intro h; cases h
            · intro h; exact absurd h hne

theorem cutFrame_rest_shorter {maxRead : Nat} {bs : List Nat} {fh : FrameHeader} {payload rest : List Nat}
    (h : cutFrame maxRead bs = .frame fh payload rest) : rest.length + 9 ≤ bs.length := by
  have := (frame_stream_consumption maxRead bs).2.1 fh payload rest h
  omega

/-- **`readFrames` is total with fuel `len(bs)+1`**: it never stops for lack of fuel, so the byte
stream is cut into frames deterministically, and no item is a panic. -/
theorem readFrames_fuel (maxRead : Nat) : ∀ (fuel : Nat) (bs : List Nat), bs.length < fuel →
    (readFrames maxRead fuel bs).2 = false ∧ Item.panic ∉ (readFrames maxRead fuel bs).1 ∧
    (∀ fh r, Item.frame fh r ∈ (readFrames maxRead fuel bs).1 → r ≠ none) := by
  intro fuel
  induction fuel with
  | zero => intro bs h; omega
  | succ n ih =>
    intro bs h
    unfold readFrames
    have hnp := (frame_stream_consumption maxRead bs).1
    cases hc : cutFrame maxRead bs with
    | panic => exact absurd hc hnp
    | eof => simp
    | short => simp
    | tooLarge fh r => simp
    | frame fh payload rest =>
      have hl := cutFrame_rest_shorter hc
      obtain ⟨i1, i2, i3⟩ := ih rest (by omega)
      simp only
      refine ⟨i1, ?_, ?_⟩
      · intro hm
        cases hm with
        | tail _ hm' => exact i2 hm'
      · intro fh' r hm
        cases hm with
        | head => exact parseFrame_never_panics fh payload
        | tail _ hm' => exact i3 fh' r hm'

theorem readFrames_total (maxRead : Nat) (bs : List Nat) :
    (readFrames maxRead (bs.length + 1) bs).2 = false ∧
    Item.panic ∉ (readFrames maxRead (bs.length + 1) bs).1 :=
  ⟨(readFrames_fuel maxRead _ bs (by omega)).1, (readFrames_fuel maxRead _ bs (by omega)).2.1⟩

/-! non-vacuity: the classic short frames -/
example : parseFrame ⟨8, 1, 0x2c, 1⟩ [4, 0, 0, 0, 0, 15, 0x82, 0x84] = some (.error (.stream 1 1)) := by rfl
example : parseFrame ⟨1, 0, 0x8, 1⟩ [5] = some (.error (.conn 1)) := by rfl
example : parseFrame ⟨0, 0, 0x8, 1⟩ [] = some (.error .unexpectedEOF) := by rfl
example : (cutFrame 16384 [0, 0, 1, 6, 0, 0, 0, 0, 0, 7, 9, 9]) = .frame ⟨1, 6, 0, 0⟩ [7] [9, 9] := by rfl

end NetVerif.Proofs.C16Parse
