import NetVerif.Model.H2Server
import NetVerif.Gen.C15
/-!
C16 — HTTP/2 server survives any client byte stream.

What is PROVED here is the accounting mechanism that bounds the control-frame queue
(`queuedControlFrames` against `maxQueuedControlFrames`, for every interleaving of control-frame
pushes, pops and end-of-iteration checks of the serve loop) and the soundness of the observation
monitor. Absence of panics and deadlocks in the real goroutines is SEARCHED by the fuzzing
harness (harness/C16), not proved.
-/
namespace NetVerif.Proofs.C16
open NetVerif.Model.H2Server

/-- pushes since the last `check` (or since the start), read off the history -/
def pushesSinceCheck : List QOp → Nat
  | [] => 0
  | ops => (ops.reverse.takeWhile (· != QOp.check)).countP (· == QOp.push)

theorem ctlq_step_inv (q : CtlQ) (op : QOp)
    (h : q.closed = false → q.queued ≤ maxQueuedControlFrames + q.sinceCheck) :
    (q.step op).closed = false → (q.step op).queued ≤ maxQueuedControlFrames + (q.step op).sinceCheck := by
  cases op <;> simp only [CtlQ.step]
  · -- push
    by_cases hc : q.closed = true
    · simp [hc]
    · simp [hc]
      have := h (by simpa using hc)
      omega
  · -- pop
    by_cases hc : q.closed = true
    · simp [hc]
    · simp [hc]
      have := h (by simpa using hc)
      omega
  · -- check
    by_cases hc : q.closed = true
    · simp [hc]
    · simp [hc]
      by_cases hq : q.queued > maxQueuedControlFrames
      · simp [hq]
      · simp [hq]
        omega

/-- **Counter invariant.** For every history of the serve loop, as long as the connection has not
been closed by the check, `queuedControlFrames ≤ maxQueuedControlFrames + (control frames queued in
the current loop iteration)`. -/
theorem ctlq_invariant (ops : List QOp) :
    (CtlQ.run {} ops).closed = false →
      (CtlQ.run {} ops).queued ≤ maxQueuedControlFrames + (CtlQ.run {} ops).sinceCheck := by
  have : ∀ (ops : List QOp) (q : CtlQ),
      (q.closed = false → q.queued ≤ maxQueuedControlFrames + q.sinceCheck) →
      ((CtlQ.run q ops).closed = false →
        (CtlQ.run q ops).queued ≤ maxQueuedControlFrames + (CtlQ.run q ops).sinceCheck) := by
    intro ops
    induction ops with
    | nil => intro q h; simpa [CtlQ.run] using h
    | cons op r ih =>
      intro q h
      simp only [CtlQ.run, List.foldl_cons]
      exact ih (q.step op) (ctlq_step_inv q op h)
  exact this ops {} (by simp)

/-- **At the end of every loop iteration** (history ending with the check) the connection is
either closed or `queuedControlFrames ≤ maxQueuedControlFrames`: the queue never survives an
iteration above the limit. -/
theorem ctlq_after_check (ops : List QOp) :
    (CtlQ.run {} (ops ++ [QOp.check])).closed = true ∨
    (CtlQ.run {} (ops ++ [QOp.check])).queued ≤ maxQueuedControlFrames := by
  simp only [CtlQ.run, List.foldl_append, List.foldl_cons, List.foldl_nil]
  generalize List.foldl CtlQ.step {} ops = q
  simp only [CtlQ.step]
  by_cases hc : q.closed = true
  · simp [hc]
  · simp [hc]
    by_cases hq : q.queued > maxQueuedControlFrames
    · simp [hq]
    · simp [hq]
      omega

/-- once closed, always closed, and the counter is frozen -/
theorem ctlq_closed_stable (q : CtlQ) (ops : List QOp) (h : q.closed = true) : CtlQ.run q ops = q := by
  induction ops generalizing q with
  | nil => rfl
  | cons op r ih =>
    simp only [CtlQ.run, List.foldl_cons]
    have : q.step op = q := by cases op <;> simp [CtlQ.step, h]
    rw [this]
    exact ih q h

/-- with at most `k` control frames queued per loop iteration the counter stays below
`maxQueuedControlFrames + k` (the design's "+1" for one frame per iteration). -/
theorem ctlq_bounded (ops : List QOp) (k : Nat)
    (hk : (CtlQ.run {} ops).sinceCheck ≤ k) (hopen : (CtlQ.run {} ops).closed = false) :
    (CtlQ.run {} ops).queued ≤ maxQueuedControlFrames + k := by
  have := ctlq_invariant ops hopen
  omega

/-- the limit the model uses is the one in server.go -/
theorem gen_maxQueued_eq : NetVerif.Gen.C15.maxQueuedControlFrames = maxQueuedControlFrames ∧
    NetVerif.Gen.C15.ctlOp = ">" := by decide

/-! ## the statement over observations, and monitor soundness -/

/-- C16 on the observations of one connection: no panic, no deadlock, not stuck (served, or ended by
GOAWAY / close within the bound); control queue and handlers bounded at every sample. -/
def Survives (c : CaseObs) : Prop :=
  (c.outcome = .served ∨ c.outcome = .goaway ∨ c.outcome = .closed) ∧
  (∀ x ∈ c.samples, (x.alive = true → x.queued ≤ maxQueuedControlFrames) ∧ x.handlers ≤ c.adv ∧ x.running ≤ c.adv) ∧
  c.maxQueued ≤ maxQueuedControlFrames ∧ c.maxHandlers ≤ c.adv

theorem accept_sound (c : CaseObs) (h : c.accept = true) : Survives c := by
  unfold CaseObs.accept at h
  simp only [Bool.and_eq_true, decide_eq_true_eq] at h
  obtain ⟨⟨⟨h1, h2⟩, h3⟩, h4⟩ := h
  refine ⟨?_, ?_, h3, h4⟩
  · cases ho : c.outcome <;> simp [ho, Outcome.acceptable] at h1 ⊢
  · intro x hx
    have := List.all_eq_true.mp h2 x hx
    unfold Sample.ok at this
    simp only [Bool.and_eq_true, Bool.or_eq_true, Bool.not_eq_true', decide_eq_true_eq] at this
    obtain ⟨⟨a, b⟩, c'⟩ := this
    refine ⟨?_, b, c'⟩
    intro ha
    rcases a with a | a
    · simp [ha] at a
    · exact a

theorem panic_rejected (c : CaseObs) (h : c.outcome = .panic ∨ c.outcome = .deadlock ∨ c.outcome = .stuck) :
    c.accept = false := by
  unfold CaseObs.accept
  rcases h with h | h | h <;> simp [h, Outcome.acceptable]

/-! non-vacuity -/
example : (CtlQ.run {} [.push, .push, .pop, .check]).queued = 1 := by decide
example : (⟨5, [⟨3, 1, 1, true⟩], .goaway, 3, 1⟩ : CaseObs).accept = true := by decide
example : (⟨5, [⟨10001, 1, 1, true⟩], .goaway, 3, 1⟩ : CaseObs).accept = false := by decide

end NetVerif.Proofs.C16
