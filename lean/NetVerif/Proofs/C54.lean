import NetVerif.Model.Socks5
/-!
C54 — SOCKS5 client requests name exactly the requested destination; the bound address the
server reports is returned; malformed / truncated replies are errors.

Spec side: a reference RFC 1928 SERVER: `serverDecode` (request decoder), `serverReply` (reply
encoder), `serverRun` (decoder of the whole client byte stream, RFC 1929 sub-negotiation included).
-/
namespace NetVerif.Proofs.C54
open NetVerif.Model.Socks5

/-! ### reference server -/

/-- RFC 1928 §4 request decoder: the WHOLE message must be one CONNECT request. -/
def serverDecode : List Nat → Option (Dest × Nat)
  | 5 :: 1 :: 0 :: atyp :: rest =>
    if atyp = 1 then
      match readFull 4 rest with
      | some (ip, [p1, p2]) => some (.ip4 ip, p1 * 256 + p2)
      | _ => none
    else if atyp = 4 then
      match readFull 16 rest with
      | some (ip, [p1, p2]) => some (.ip6 ip, p1 * 256 + p2)
      | _ => none
    else if atyp = 3 then
      match rest with
      | n :: r2 =>
        match readFull n r2 with
        | some (name, [p1, p2]) => some (.name name, p1 * 256 + p2)
        | _ => none
      | [] => none
    else none
  | _ => none

/-- RFC 1928 §6 success reply for a bound address. -/
def serverReply : Addr → List Nat
  | .ip b port => [5, 0, 0, if b.length = 4 then 1 else 4] ++ b ++ [port / 256, port % 256]
  | .name b port => [5, 0, 0, 3, b.length] ++ b ++ [port / 256, port % 256]

def BytesWF (bs : List Nat) : Prop := ∀ b ∈ bs, b < 256

/-- Destinations the client can be asked for (after `net.ParseIP`): 4 or 16 address bytes, or a name. -/
def DestWF : Dest → Prop
  | .ip4 b => b.length = 4
  | .ip6 b => b.length = 16
  | .name b => b.length ≤ 255

def AddrWF : Addr → Prop
  | .ip b port => (b.length = 4 ∨ b.length = 16) ∧ port < 65536
  | .name b port => b.length ≤ 255 ∧ port < 65536

private theorem readFull_append (a b : List Nat) : readFull a.length (a ++ b) = some (a, b) := by
  simp [readFull]

private theorem readFull_some {n : Nat} {s a b : List Nat} (h : readFull n s = some (a, b)) :
    s = a ++ b ∧ a.length = n := by
  unfold readFull at h
  split at h
  · cases h
  · rename_i hl
    simp only [Option.some.injEq, Prod.mk.injEq] at h
    obtain ⟨rfl, rfl⟩ := h
    exact ⟨(List.take_append_drop n s).symm, by simp; omega⟩

/-! ### the request names exactly the destination -/

/-- The client refuses exactly the names longer than 255 bytes. -/
theorem connectReq_isSome_iff (d : Dest) (port : Nat) :
    (connectReq d port).isSome ↔ (∀ b, d = .name b → b.length ≤ 255) := by
  cases d with
  | ip4 b => simp [connectReq, encodeDest]
  | ip6 b => simp [connectReq, encodeDest]
  | name b =>
    by_cases h : b.length > 255
    · simp [connectReq, encodeDest, h]
    · simp [connectReq, encodeDest, h]; omega

/-- **Round trip.** For every destination the client accepts and every valid port, a conforming
server decodes the CONNECT request to exactly that destination and port. -/
theorem serverDecode_connectReq (d : Dest) (port : Nat) (req : List Nat) (hd : DestWF d)
    (hp : 1 ≤ port ∧ port ≤ 65535) (h : connectReq d port = some req) :
    serverDecode req = some (d, port) := by
  cases d with
  | ip4 b =>
    simp only [connectReq, encodeDest, Option.some.injEq] at h
    subst h
    have hb : b.length = 4 := hd
    have := readFull_append b [port / 256 % 256, port % 256]
    rw [hb] at this
    simp only [serverDecode, List.cons_append, List.nil_append, if_true, this]
    simp; omega
  | ip6 b =>
    simp only [connectReq, encodeDest, Option.some.injEq] at h
    subst h
    have hb : b.length = 16 := hd
    have := readFull_append b [port / 256 % 256, port % 256]
    rw [hb] at this
    simp only [serverDecode, List.cons_append, List.nil_append, this]
    simp; omega
  | name b =>
    have hb : b.length ≤ 255 := hd
    have hnot : ¬ b.length > 255 := by omega
    simp only [connectReq, encodeDest, hnot, if_false, Option.some.injEq] at h
    subst h
    have := readFull_append b [port / 256 % 256, port % 256]
    simp only [serverDecode, List.cons_append, List.nil_append, this]
    simp; omega

/-- The request is `VER=5, CMD=CONNECT, RSV=0` followed by the address and the port in network order. -/
theorem connectReq_shape (d : Dest) (port : Nat) (req : List Nat) (h : connectReq d port = some req) :
    ∃ a, encodeDest d = some a ∧ req = [5, 1, 0] ++ a ++ [port / 256 % 256, port % 256] := by
  unfold connectReq at h
  cases ha : encodeDest d with
  | none => simp [ha] at h
  | some a => simp [ha] at h; exact ⟨a, rfl, h.symm⟩

/-! ### the reply parser -/

/-- **Bound address.** A well-formed success reply (followed by anything) is parsed to exactly the
address the server reports, and nothing beyond the reply is consumed. -/
theorem parseReply_serverReply (a : Addr) (tail : List Nat) (ha : AddrWF a) :
    parseReply (serverReply a ++ tail) = some (a, tail) := by
  cases a with
  | ip b port =>
    obtain ⟨hb, hp⟩ := ha
    rcases hb with hb | hb
    · have := readFull_append b ([port / 256, port % 256] ++ tail)
      rw [hb] at this
      simp only [serverReply, hb, if_true, List.cons_append, List.nil_append, List.append_assoc, parseReply]
      simp only [List.cons_append, List.nil_append] at this
      simp [this]; omega
    · have := readFull_append b ([port / 256, port % 256] ++ tail)
      rw [hb] at this
      have h4 : ¬ (16 = 4) := by decide
      simp only [serverReply, hb, h4, if_false, List.cons_append, List.nil_append, List.append_assoc, parseReply]
      simp only [List.cons_append, List.nil_append] at this
      simp [this]; omega
  | name b port =>
    obtain ⟨hb, hp⟩ := ha
    have := readFull_append b ([port / 256, port % 256] ++ tail)
    simp only [serverReply, List.cons_append, List.nil_append, List.append_assoc, parseReply]
    simp only [List.cons_append, List.nil_append] at this
    simp [this]; omega

/-- **Soundness of acceptance.** Whatever byte string the parser accepts IS a well-formed success
reply: the consumed bytes are exactly the reference encoding of the returned address. -/
theorem parseReply_sound (s rest : List Nat) (a : Addr) (hs : BytesWF s)
    (h : parseReply s = some (a, rest)) : s = serverReply a ++ rest ∧ AddrWF a := by
  match s, h with
  | v :: rep :: rsv :: atyp :: s1, h =>
    have hv := hs v (by simp)
    have hs1 : BytesWF s1 := fun b hb => hs b (by simp [hb])
    have hat := hs atyp (by simp)
    simp only [parseReply] at h
    split at h; · cases h
    split at h; · cases h
    split at h; · cases h
    rename_i h1 h2 h3
    simp only [ne_eq, Decidable.not_not] at h1 h2 h3
    subst h1 h2 h3
    split at h
    · rename_i hat1; subst hat1
      split at h
      · rename_i ip p1 p2 s2 hrf
        obtain ⟨hs1eq, hl⟩ := readFull_some hrf
        simp only [Option.some.injEq, Prod.mk.injEq] at h
        obtain ⟨rfl, rfl⟩ := h
        have hp1 := hs1 p1 (by simp [hs1eq]); have hp2 := hs1 p2 (by simp [hs1eq])
        refine ⟨?_, Or.inl hl, by omega⟩
        simp only [serverReply, hl, if_true, hs1eq, List.cons_append, List.nil_append, List.append_assoc]
        have e1 : (p1 * 256 + p2) / 256 = p1 := by omega
        have e2 : (p1 * 256 + p2) % 256 = p2 := by omega
        simp [e1, e2]
      · cases h
    · split at h
      · rename_i _ hat4; subst hat4
        split at h
        · rename_i ip p1 p2 s2 hrf
          obtain ⟨hs1eq, hl⟩ := readFull_some hrf
          simp only [Option.some.injEq, Prod.mk.injEq] at h
          obtain ⟨rfl, rfl⟩ := h
          have hp1 := hs1 p1 (by simp [hs1eq]); have hp2 := hs1 p2 (by simp [hs1eq])
          refine ⟨?_, Or.inr hl, by omega⟩
          have h4 : ¬ (16 = 4) := by decide
          simp only [serverReply, hl, h4, if_false, hs1eq, List.cons_append, List.nil_append, List.append_assoc]
          have e1 : (p1 * 256 + p2) / 256 = p1 := by omega
          have e2 : (p1 * 256 + p2) % 256 = p2 := by omega
          simp [e1, e2]
        · cases h
      · split at h
        · rename_i _ _ hat3; subst hat3
          split at h
          · rename_i n s2
            have hn : n < 256 := hs1 n (by simp)
            split at h
            · rename_i name p1 p2 s3 hrf
              obtain ⟨hs2eq, hl⟩ := readFull_some hrf
              simp only [Option.some.injEq, Prod.mk.injEq] at h
              obtain ⟨rfl, rfl⟩ := h
              have hp1 := hs1 p1 (by simp [hs2eq]); have hp2 := hs1 p2 (by simp [hs2eq])
              refine ⟨?_, by omega, by omega⟩
              simp only [serverReply, hl, hs2eq, List.cons_append, List.nil_append, List.append_assoc]
              have e1 : (p1 * 256 + p2) / 256 = p1 := by omega
              have e2 : (p1 * 256 + p2) % 256 = p2 := by omega
              simp [e1, e2]
            · cases h
          · cases h
        · cases h

/-- **Truncated replies are errors.** Every strict prefix of a well-formed success reply is rejected. -/
theorem parseReply_truncated (a : Addr) (ha : AddrWF a) (p t : List Nat)
    (hb : BytesWF (serverReply a)) (hp : p ++ t = serverReply a) (ht : t ≠ []) :
    parseReply p = none := by
  cases h : parseReply p with
  | none => rfl
  | some r =>
    obtain ⟨a', rest⟩ := r
    have hpw : BytesWF p := fun b hb' => hb b (by rw [← hp]; simp [hb'])
    obtain ⟨hpe, ha'⟩ := parseReply_sound p rest a' hpw h
    have h1 := parseReply_serverReply a' (rest ++ t) ha'
    have h2 := parseReply_serverReply a [] ha
    rw [← List.append_assoc, ← hpe, hp] at h1
    rw [List.append_nil] at h2
    rw [h1] at h2
    simp only [Option.some.injEq, Prod.mk.injEq, List.append_eq_nil_iff] at h2
    exact absurd h2.2.2 ht

/-- Replies that are not `VER=5, REP=succeeded, RSV=0` with a known address type are errors. -/
theorem parseReply_rejects_header (v rep rsv atyp : Nat) (s : List Nat)
    (h : v ≠ 5 ∨ rep ≠ 0 ∨ rsv ≠ 0 ∨ (atyp ≠ 1 ∧ atyp ≠ 3 ∧ atyp ≠ 4)) :
    parseReply (v :: rep :: rsv :: atyp :: s) = none := by
  simp only [parseReply]
  rcases h with h | h | h | ⟨h1, h3, h4⟩
  · simp [h]
  · by_cases hv : v = 5 <;> simp [hv, h]
  · by_cases hv : v = 5 <;> by_cases hr : rep = 0 <;> simp [hv, hr, h]
  · by_cases hv : v = 5 <;> by_cases hr : rep = 0 <;> by_cases hs : rsv = 0 <;> simp [hv, hr, hs, h1, h3, h4]

/-! ### the whole exchange (`Dialer.connect`) -/

/-- What a reference server reads from the client's byte stream when it selected method `sel`:
offered methods, RFC 1929 credentials (if it selected 2 and 2 was offered), and the request target.
The stream must be consumed exactly. -/
def serverRun (sel : Nat) : List Nat → Option (List Nat × Option (List Nat × List Nat) × Dest × Nat)
  | 5 :: n :: rest =>
    match readFull n rest with
    | none => none
    | some (methods, r1) =>
      if sel = 2 ∧ 2 ∈ methods then
        match r1 with
        | 1 :: ul :: r2 =>
          match readFull ul r2 with
          | some (user, pl :: r3) =>
            match readFull pl r3 with
            | some (pass, r4) => (serverDecode r4).map (fun dp => (methods, some (user, pass), dp.1, dp.2))
            | none => none
          | _ => none
        | _ => none
      else (serverDecode r1).map (fun dp => (methods, none, dp.1, dp.2))
  | _ => none

def offered (cfg : Cfg) : List Nat := if cfg.auth then [0, 2] else [0]

def credsSent (cfg : Cfg) (sel : Nat) : Option (List Nat × List Nat) :=
  if cfg.auth ∧ sel = 2 then some (cfg.user, cfg.pass) else none

/-- Shape of a successful `connect`. -/
theorem connect_ok (cfg : Cfg) (d : Dest) (port v am : Nat) (s : List Nat) (a : Addr)
    (h : (connect cfg d port (v :: am :: s)).2 = some a) :
    v = 5 ∧ am ≠ 255 ∧ ∃ w2 s2 req rest,
      (if cfg.auth then authenticate cfg am s else ([], some s)) = (w2, some s2) ∧
      connectReq d port = some req ∧ parseReply s2 = some (a, rest) ∧
      (connect cfg d port (v :: am :: s)).1 = methodsMsg cfg ++ w2 ++ req := by
  by_cases hv : v = 5
  case neg => simp [connect, hv] at h
  by_cases ham : am = 255
  case pos => simp [connect, hv, ham] at h
  cases hA : (if cfg.auth = true then authenticate cfg am s else ([], some s)) with
  | mk w2 s2? =>
  cases s2? with
  | none => simp [connect, hv, ham, hA] at h
  | some s2 =>
    cases hreq : connectReq d port with
    | none => simp [connect, hv, ham, hA, hreq] at h
    | some req =>
      cases hpr : parseReply s2 with
      | none => simp [connect, hv, ham, hA, hreq, hpr] at h
      | some r =>
        obtain ⟨a', rest⟩ := r
        simp [connect, hv, ham, hA, hreq, hpr] at h
        subst h
        refine ⟨hv, ham, w2, s2, req, rest, rfl, rfl, hpr, ?_⟩
        simp [connect, hv, ham, hA, hreq, hpr]

/-- Shape of a successful `UsernamePassword.Authenticate`. -/
theorem authenticate_ok (cfg : Cfg) (am : Nat) (s w2 s2 : List Nat)
    (h : authenticate cfg am s = (w2, some s2)) :
    (am = 0 ∧ w2 = [] ∧ s2 = s) ∨
    (am = 2 ∧ 1 ≤ cfg.user.length ∧ cfg.user.length ≤ 255 ∧ cfg.pass.length ≤ 255 ∧
      w2 = authMsg cfg ∧ s = 1 :: 0 :: s2) := by
  unfold authenticate at h
  by_cases h0 : am = 0
  · simp only [h0, if_true, Prod.mk.injEq, Option.some.injEq] at h
    exact Or.inl ⟨h0, h.1.symm, h.2.symm⟩
  · by_cases h2 : am = 2
    · right
      subst h2
      rw [if_neg (by decide), if_pos rfl] at h
      by_cases hcred : cfg.user.length = 0 ∨ cfg.user.length > 255 ∨ cfg.pass.length > 255
      · rw [if_pos hcred] at h; simp at h
      · rw [if_neg hcred] at h
        match s, h with
        | av :: ast :: s1, h =>
          simp only at h
          by_cases hav : av = 1
          case neg => simp [hav] at h
          by_cases hast : ast = 0
          case neg => simp [hav, hast] at h
          simp only [hav, hast, ne_eq, not_true_eq_false, if_false, Prod.mk.injEq, Option.some.injEq] at h
          refine ⟨rfl, by omega, by omega, by omega, h.1.symm, ?_⟩
          rw [hav, hast, h.2]
        | [_], h => simp at h
        | [], h => simp at h
    · simp [h0, h2] at h

/-- **End to end.** Whenever `connect` succeeds — for ANY server byte script — the bytes it wrote
are, for a conforming server that selected method `am`, exactly: the offered methods, the
credentials (iff username/password was selected), and a CONNECT request for exactly the requested
destination and port, with nothing left over. -/
theorem connect_success_decodes (cfg : Cfg) (d : Dest) (port v am : Nat) (s : List Nat) (a : Addr)
    (hd : DestWF d) (hp : 1 ≤ port ∧ port ≤ 65535)
    (h : (connect cfg d port (v :: am :: s)).2 = some a) :
    serverRun am (connect cfg d port (v :: am :: s)).1 = some (offered cfg, credsSent cfg am, d, port) := by
  obtain ⟨_, _, w2, s2, req, rest, hA, hreq, _, hw⟩ := connect_ok cfg d port v am s a h
  have hdec := serverDecode_connectReq d port req hd hp hreq
  rw [hw]
  cases hauth : cfg.auth with
  | false =>
    simp only [hauth, Bool.false_eq_true, if_false, Prod.mk.injEq] at hA
    obtain ⟨rfl, _⟩ := hA
    have : readFull 1 (0 :: req) = some ([0], req) := by simp [readFull]
    simp [methodsMsg, hauth, serverRun, offered, credsSent, this, hdec]
  | true =>
    simp only [hauth, if_true] at hA
    rcases authenticate_ok cfg am s w2 s2 hA with ⟨h0, rfl, _⟩ | ⟨h2, hu1, hu2, hp2, rfl, _⟩
    · subst h0
      have : readFull 2 (0 :: 2 :: req) = some ([0, 2], req) := by simp [readFull]
      simp [methodsMsg, hauth, serverRun, offered, credsSent, this, hdec]
    · subst h2
      have hu : cfg.user.length % 256 = cfg.user.length := by omega
      have hpw : cfg.pass.length % 256 = cfg.pass.length := by omega
      have r1 : readFull 2 (0 :: 2 :: 1 :: cfg.user.length :: (cfg.user ++ (cfg.pass.length :: (cfg.pass ++ req)))) =
          some ([0, 2], 1 :: cfg.user.length :: (cfg.user ++ (cfg.pass.length :: (cfg.pass ++ req)))) := by
        simp [readFull]
      have r2 := readFull_append cfg.user (cfg.pass.length :: (cfg.pass ++ req))
      have r3 := readFull_append cfg.pass req
      simp [methodsMsg, hauth, authMsg, hu, hpw, serverRun, offered, credsSent, r1, r2, r3, hdec]

/-- **Success only on a well-formed conversation.** If `connect` succeeds, the server's bytes were:
a method selection `05 am` (am ≠ FF), `01 00` iff username/password ran, then exactly the
reference success reply of the returned address (anything after it is left unread). -/
theorem connect_success_script (cfg : Cfg) (d : Dest) (port v am : Nat) (s : List Nat) (a : Addr)
    (hs : BytesWF s) (h : (connect cfg d port (v :: am :: s)).2 = some a) :
    v = 5 ∧ am ≠ 255 ∧ AddrWF a ∧ ∃ mid rest, s = mid ++ serverReply a ++ rest ∧
      (mid = [] ∨ (mid = [1, 0] ∧ cfg.auth = true ∧ am = 2)) := by
  obtain ⟨hv, ham, w2, s2, req, rest, hA, _, hpr, _⟩ := connect_ok cfg d port v am s a h
  refine ⟨hv, ham, ?_⟩
  cases hauth : cfg.auth with
  | false =>
    simp only [hauth, Bool.false_eq_true, if_false, Prod.mk.injEq, Option.some.injEq] at hA
    obtain ⟨_, rfl⟩ := hA
    obtain ⟨he, hwf⟩ := parseReply_sound s rest a hs hpr
    exact ⟨hwf, [], rest, by simpa using he, Or.inl rfl⟩
  | true =>
    simp only [hauth, if_true] at hA
    rcases authenticate_ok cfg am s w2 s2 hA with ⟨_, _, rfl⟩ | ⟨h2, _, _, _, _, hse⟩
    · obtain ⟨he, hwf⟩ := parseReply_sound s2 rest a hs hpr
      exact ⟨hwf, [], rest, by simpa using he, Or.inl rfl⟩
    · have hs2 : BytesWF s2 := fun b hb => hs b (by rw [hse]; simp [hb])
      obtain ⟨he, hwf⟩ := parseReply_sound s2 rest a hs2 hpr
      refine ⟨hwf, [1, 0], rest, ?_, Or.inr ⟨rfl, rfl, h2⟩⟩
      rw [hse, he]; simp

/-- **The reported bound address is returned** (no authentication): for every accepted
destination, a conforming conversation `05 00 <success reply for a>` makes `connect` return `a`. -/
theorem connect_returns_reported (cfg : Cfg) (d : Dest) (port : Nat) (a : Addr) (tail : List Nat)
    (hauth : cfg.auth = false) (ha : AddrWF a) (hreq : (connectReq d port).isSome = true) :
    (connect cfg d port ([5, 0] ++ serverReply a ++ tail)).2 = some a := by
  have hpr := parseReply_serverReply a tail ha
  cases hr : connectReq d port with
  | none => simp [hr] at hreq
  | some req => simp [connect, hauth, hr, hpr]

/-- Same with username/password selected and accepted (`05 02`, `01 00`). -/
theorem connect_returns_reported_auth (cfg : Cfg) (d : Dest) (port : Nat) (a : Addr) (tail : List Nat)
    (hauth : cfg.auth = true) (hu : 1 ≤ cfg.user.length ∧ cfg.user.length ≤ 255) (hpw : cfg.pass.length ≤ 255)
    (ha : AddrWF a) (hreq : (connectReq d port).isSome = true) :
    (connect cfg d port ([5, 2, 1, 0] ++ serverReply a ++ tail)).2 = some a := by
  have hpr := parseReply_serverReply a tail ha
  have hc : ¬ (cfg.user.length = 0 ∨ cfg.user.length > 255 ∨ cfg.pass.length > 255) := by omega
  cases hr : connectReq d port with
  | none => simp [hr] at hreq
  | some req =>
    simp only [connect, List.cons_append, List.nil_append, hauth, if_true, authenticate]
    simp only [if_neg hc, show ¬ (2 = 0) from by decide, if_false]
    simp [hr, hpr]

/-- Invalid credentials or a failed sub-negotiation never lead to a request being sent. -/
theorem connect_errors_total (cfg : Cfg) (d : Dest) (port : Nat) (script : List Nat) :
    (connect cfg d port script).2 = none ∨ ∃ a, (connect cfg d port script).2 = some a := by
  cases (connect cfg d port script).2 <;> simp

/-! ### non-vacuity -/

example : connectReq (.ip4 [1, 2, 3, 4]) 80 = some [5, 1, 0, 1, 1, 2, 3, 4, 0, 80] := by decide
example : connectReq (.name [97, 46, 98]) 65535 = some [5, 1, 0, 3, 3, 97, 46, 98, 255, 255] := by decide
example : serverDecode [5, 1, 0, 3, 3, 97, 46, 98, 255, 255] = some (.name [97, 46, 98], 65535) := by decide
example : (connect ⟨false, [], []⟩ (.ip4 [1, 2, 3, 4]) 80 [5, 0, 5, 0, 0, 1, 10, 0, 0, 1, 4, 56, 99]).2
    = some (.ip [10, 0, 0, 1] 1080) := by decide
example : (connect ⟨true, [117], [112]⟩ (.name [97]) 443 [5, 2, 1, 0, 5, 0, 0, 3, 1, 120, 0, 1]) =
    ([5, 2, 0, 2, 1, 1, 117, 1, 112, 5, 1, 0, 3, 1, 97, 1, 187], some (.name [120] 1)) := by decide
example : (connect ⟨false, [], []⟩ (.ip4 [1, 2, 3, 4]) 80 [5, 0, 5, 0, 0, 1, 10, 0, 0, 1, 4]).2 = none := by decide

end NetVerif.Proofs.C54
